//! Native replay / counterexample search against the REAL crate (debug profile: overflow checks and
//! debug assertions on).  Never decides anything: pass/fail comes from the verifier; this binary only
//! looks for a concrete input that exhibits a failed obligation, and re-runs witnesses of known findings.
//!   rta-replay witness <KFid>          exit 1 = the finding reproduces, 0 = gone
//!   rta-replay search <obligation> <seed>   exit 1 + one JSON line = failing input found, 0 = none, 3 = no mirror
//!   rta-replay replay '<json>'         exit 1 = still fails
use std::panic;

mod mirrors;
mod witnesses;

fn main() {
    let args: Vec<String> = std::env::args().collect();
    // keep panic messages of the library out of stdout
    panic::set_hook(Box::new(|i| { if std::env::var("RTA_REPLAY_VERBOSE").is_ok() { eprintln!("{}", i); } }));
    let code = match args.get(1).map(|s| s.as_str()) {
        Some("witness") => witnesses::run(&args[2]),
        Some("search") => mirrors::search(&args[2], args.get(3).and_then(|s| s.parse().ok()).unwrap_or(0)),
        Some("replay") => mirrors::replay(&args[2]),
        _ => { eprintln!("usage: witness <id> | search <obligation> <seed> | replay <json>"); 2 }
    };
    std::process::exit(code);
}
