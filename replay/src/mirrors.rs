//! Executable mirrors of contract postconditions; small-domain enumeration against the REAL functions.
//! A mirror never decides a property; it only looks for a concrete input on which the real code
//! disagrees with the postcondition that the verifier failed to discharge (or could not ingest).
use response_time_analysis::arrival::{self, ArrivalBound, Curve, Periodic, Propagated, Sporadic};
use response_time_analysis::demand::{self, RequestBound, RBF};
use response_time_analysis::fixed_point::{self, SearchFailure, SearchResult};
use response_time_analysis::supply::{self, SupplyBound};
use response_time_analysis::time::{Duration, Offset, Service};
use response_time_analysis::wcet::{self, JobCostModel, Scalar};
use response_time_analysis::{edf, fifo, fixed_priority};
use std::panic::{catch_unwind, AssertUnwindSafe};

fn d(x: u64) -> Duration { Duration::from(x) }
fn s(x: u64) -> Service { Service::from(x) }
fn ud(x: Duration) -> u64 { u64::from(x) }
fn us(x: Service) -> u64 { u64::from(x) }

struct Rng(u64);
impl Rng {
    fn next(&mut self) -> u64 { self.0 = self.0.wrapping_mul(6364136223846793005).wrapping_add(1442695040888963407); self.0 >> 17 }
    fn below(&mut self, n: u64) -> u64 { self.next() % n.max(1) }
}

/// a failing input, as one JSON object on one line
fn fail(mirror: &str, input: String, observed: String, expected: String) -> i32 {
    println!("{{\"mirror\": \"{}\", \"input\": {}, \"observed\": \"{}\", \"expected\": \"{}\"}}", mirror, input, observed.replace('"', "'"), expected.replace('"', "'"));
    1
}

fn guarded<T>(f: impl FnOnce() -> T) -> Result<T, String> {
    catch_unwind(AssertUnwindSafe(f)).map_err(|e| {
        if let Some(m) = e.downcast_ref::<&str>() { format!("panic: {}", m) }
        else if let Some(m) = e.downcast_ref::<String>() { format!("panic: {}", m) }
        else { "panic".to_string() }
    })
}

// ------------------------------------------------------------------------------------------------ supplies
/// a supply that only implements provided_service: exercises the trait's DEFAULT service_time
struct DefaultOnly<S: SupplyBound>(S);
impl<S: SupplyBound> SupplyBound for DefaultOnly<S> {
    fn provided_service(&self, delta: Duration) -> Service { self.0.provided_service(delta) }
}

/// closed-form SBF of a (budget q, deadline dl, period p) reservation, written independently of the crate:
/// worst case = budget as early as possible in one period and as late as the deadline allows afterwards
fn sbf_spec(p: u128, q: u128, dl: u128, t: u128) -> u128 {
    let blackout = (p - q) + (dl - q);
    if t <= blackout { return 0; }
    let x = t - blackout;            // time since the end of the longest blackout
    let k = x / p; let y = x % p;
    k * q + y.min(q)
}

fn supply_case(kind: u64, q: u64, dl: u64, p: u64) -> (Box<dyn SupplyBound>, u128, u128, u128, String) {
    match kind {
        0 => (Box::new(supply::Dedicated::new()), 1, 1, 1, "\"Dedicated\"".to_string()),
        1 => (Box::new(supply::Periodic::new(s(q), d(p))), p as u128, q as u128, p as u128, format!("{{\"Periodic\": [{}, {}]}}", q, p)),
        2 => (Box::new(supply::Constrained::new(s(q), d(dl), d(p))), p as u128, q as u128, dl as u128, format!("{{\"Constrained\": [{}, {}, {}]}}", q, dl, p)),
        3 => (Box::new(DefaultOnly(supply::Periodic::new(s(q), d(p)))), p as u128, q as u128, p as u128, format!("{{\"DefaultServiceTime(Periodic)\": [{}, {}]}}", q, p)),
        _ => (Box::new(DefaultOnly(supply::Constrained::new(s(q), d(dl), d(p)))), p as u128, q as u128, dl as u128, format!("{{\"DefaultServiceTime(Constrained)\": [{}, {}, {}]}}", q, dl, p)),
    }
}

fn check_supply(seed: u64) -> i32 {
    // exhaustive small domain
    for p in 1..=6u64 { for q in 1..=p { for dl in q..=p { for kind in 0..5u64 {
        let (sb, pp, qq, dd, desc) = supply_case(kind, q, dl, p);
        for t in 0..=(4 * p + 2) {
            let got = guarded(|| us(sb.provided_service(d(t))));
            let exp = sbf_spec(pp, qq, dd, t as u128);
            if got != Ok(exp as u64) { return fail("supply::provided_service", format!("{{\"supply\": {}, \"delta\": {}}}", desc, t), format!("{:?}", got), format!("{}", exp)); }
        }
        for dem in 0..=(3 * q + 1) {
            let got = guarded(|| ud(sb.service_time(s(dem))));
            // least t with sbf(t) >= dem
            let mut t = 0u128; while sbf_spec(pp, qq, dd, t) < dem as u128 { t += 1; }
            if got != Ok(t as u64) { return fail("supply::service_time", format!("{{\"supply\": {}, \"demand\": {}}}", desc, dem), format!("{:?}", got), format!("{}", t)); }
        }
    }}}}
    // large magnitudes at period boundaries (where an inexact period count shows): k full periods, k beyond 2^53
    for p in 1..=6u64 { for q in 1..=p { for dl in q..=p { for kind in 1..3u64 {
        let (sb, pp, qq, dd, desc) = supply_case(kind, q, dl, p);
        for k in [(1u64 << 53) + 1, (1u64 << 53) + 2, (1u64 << 54) + 3, (1u64 << 56) + 1, (1u64 << 59) + 5] {
            for y in 0..=p {
                let t = ((pp - qq) + (dd - qq) + (k as u128) * pp + y as u128) as u128;
                if t + 2 * pp > u64::MAX as u128 { continue; }
                let got = guarded(|| us(sb.provided_service(d(t as u64))));
                let exp = sbf_spec(pp, qq, dd, t);
                if got != Ok(exp as u64) { return fail("supply::provided_service", format!("{{\"supply\": {}, \"delta\": {}}}", desc, t), format!("{:?}", got), format!("{}", exp)); }
            }
        }
    }}}}
    // service_time at large magnitudes: closed-form inverse in 128-bit arithmetic (cross-checked against the least-t search on
    // the small domain above), at demands around multiples of the budget and within `budget` of u64::MAX
    let st_spec = |p: u128, q: u128, dl: u128, dem: u128| -> u128 { if dem == 0 { 0 } else { (p - q) + (dl - q) + ((dem - 1) / q) * p + ((dem - 1) % q) + 1 } };
    for p in 1..=6u64 { for q in 1..=p { for dl in q..=p { for dem in 0..=(3 * q + 1) {
        let mut t = 0u128; while sbf_spec(p as u128, q as u128, dl as u128, t) < dem as u128 { t += 1; }
        if st_spec(p as u128, q as u128, dl as u128, dem as u128) != t { return fail("mirror-internal: closed-form service_time", format!("[{}, {}, {}, {}]", p, q, dl, dem), "oracle mismatch".into(), "".into()); }
    }}}}
    for (q, p) in [(1u64, 1u64), (3, 5), (1u64 << 62, (1u64 << 62) + 1), (1u64 << 63, (1u64 << 63) + 1), (7, 7), ((1u64 << 40) + 3, (1u64 << 41) + 1)] {
        for kind in 1..3u64 {
            let dl = p;
            let (sb, pp, qq, dd, desc) = supply_case(kind, q, dl, p);
            for dem in [u64::MAX, u64::MAX - 1, u64::MAX - q / 2, u64::MAX - q, (1u64 << 63) + 5, q, q + 1, 2 * (q / 2) + 1, (1u64 << 53) + 1] {
                let exp = st_spec(pp, qq, dd, dem as u128);
                if exp > u64::MAX as u128 { continue; }   // outside the representable range: nothing is claimed
                if kind == 2 && dem as u128 + pp > u64::MAX as u128 { continue; }   // Constrained: intermediate sum demand + period overflows (known finding KF15)
                let got = guarded(|| ud(sb.service_time(s(dem))));
                if got != Ok(exp as u64) { return fail("supply::service_time", format!("{{\"supply\": {}, \"demand\": {}}}", desc, dem), format!("{:?}", got), format!("{}", exp)); }
            }
        }
    }
    // large magnitudes (sampled): closed form vs spec in 128-bit arithmetic
    let mut r = Rng(seed ^ 0x5eed);
    for _ in 0..4000 {
        let p = 1 + r.below(1 << 20); let q = 1 + r.below(p); let dl = q + r.below(p - q + 1);
        let t = match r.below(3) { 0 => r.below(1 << 62), 1 => (1u64 << 53) + r.below(1 << 40), _ => r.below(1 << 30) };
        if (t as u128) + 2 * (p as u128) > u64::MAX as u128 { continue; }
        for kind in 1..3u64 {
            let (sb, pp, qq, dd, desc) = supply_case(kind, q, dl, p);
            let got = guarded(|| us(sb.provided_service(d(t))));
            let exp = sbf_spec(pp, qq, dd, t as u128);
            if got != Ok(exp as u64) { return fail("supply::provided_service", format!("{{\"supply\": {}, \"delta\": {}}}", desc, t), format!("{:?}", got), format!("{}", exp)); }
        }
    }
    0
}

// ------------------------------------------------------------------------------------------------ fixed point
fn naive_scan(sb: &dyn SupplyBound, off: u64, limit: u64, w: &dyn Fn(u64) -> u64) -> Option<u64> {
    let mut r = 0u64;
    while r <= limit {
        if us(sb.provided_service(d(off + r))) >= w(r.max(1)) { return Some(r); }
        r += 1;
    }
    None
}

fn check_fixed_point(_seed: u64) -> i32 {
    for kind in 0..5u64 { for (q, dl, p) in [(1u64, 1u64, 1u64), (1, 2, 3), (2, 3, 4), (3, 3, 5), (2, 2, 2)] {
        let (sb, _, _, _, desc) = supply_case(kind, q, dl, p);
        for c0 in 0..=2u64 { for c in 0..=3u64 { for t in 1..=4u64 { for j in [0u64, 3] {
            let w = move |r: u64| c0 + c * ((r + j + t - 1) / t);
            for off in 0..=3u64 {
                // offsets must lie inside the busy window: the demand is not met before the offset
                if ud(sb.service_time(s(w(1)))) < off { continue; }
                for limit in 1..=14u64 {
                    let exp = naive_scan(sb.as_ref(), off, limit, &w);
                    let got = guarded(|| fixed_point::search_with_offset(sb.as_ref(), Offset::from(off), d(limit), &|x: Duration| s(w(ud(x)))));
                    let ok = match (&got, exp) {
                        (Ok(Ok(r)), Some(e)) => ud(*r) == e,
                        (Ok(Err(SearchFailure::DivergenceLimitExceeded { offset, limit: l })), None) => *offset == Offset::from(off) && *l == d(limit),
                        _ => false,
                    };
                    if !ok { return fail("fixed_point::search_with_offset", format!("{{\"supply\": {}, \"offset\": {}, \"limit\": {}, \"workload\": \"{} + {}*ceil((r+{})/{})\"}}", desc, off, limit, c0, c, j, t), format!("{:?}", got), format!("{:?}", exp)); }
                    if off == 0 {
                        let got = guarded(|| fixed_point::search(sb.as_ref(), d(limit), |x: Duration| s(w(ud(x)))));
                        let ok = match (&got, exp) { (Ok(Ok(r)), Some(e)) => ud(*r) == e, (Ok(Err(_)), None) => true, _ => false };
                        if !ok { return fail("fixed_point::search", format!("{{\"supply\": {}, \"limit\": {}, \"workload\": \"{} + {}*ceil((r+{})/{})\"}}", desc, limit, c0, c, j, t), format!("{:?}", got), format!("{:?}", exp)); }
                    }
                }
            }
        }}}}
    }}
    // max_response_time: first error, else maximum, else Ok(0)
    let e1 = Err(SearchFailure::DivergenceLimitExceeded { offset: Offset::from(1), limit: d(5) });
    let e2 = Err(SearchFailure::DivergenceLimitExceeded { offset: Offset::from(2), limit: d(5) });
    let vals: [SearchResult; 5] = [Ok(d(0)), Ok(d(3)), Ok(d(7)), e1, e2];
    for a in 0..6usize { for b in 0..6usize { for c in 0..6usize {
        let seq: Vec<SearchResult> = [a, b, c].iter().filter(|i| **i < 5).map(|i| vals[*i]).collect();
        let exp: SearchResult = match seq.iter().find(|x| x.is_err()) { Some(e) => *e, None => Ok(seq.iter().map(|x| x.unwrap()).max().unwrap_or(d(0))) };
        let got = fixed_point::max_response_time(seq.iter().copied());
        if got != exp { return fail("fixed_point::max_response_time", format!("\"{:?}\"", seq).replace('"', "'").replacen('\'', "\"", 1).trim_end_matches('\'').to_string() + "\"", format!("{:?}", got), format!("{:?}", exp)); }
    }}}
    0
}

// ------------------------------------------------------------------------------------------------ arrival
fn ceil_div(a: u64, b: u64) -> u64 { (a + b - 1) / b }

fn check_arrival(_seed: u64) -> i32 {
    for t in 1..=6u64 { for j in 0..=13u64 { for delta in 0..=20u64 {
        let sp = Sporadic::new(d(t), d(j));
        let exp = if delta == 0 { 0 } else { ceil_div(delta + j, t) } as usize;
        let got = guarded(|| sp.number_arrivals(d(delta)));
        if got != Ok(exp) { return fail("arrival::Sporadic::number_arrivals", format!("{{\"T\": {}, \"J\": {}, \"delta\": {}}}", t, j, delta), format!("{:?}", got), format!("{}", exp)); }
        if j == 0 {
            let pe = Periodic::new(d(t));
            let got = guarded(|| pe.number_arrivals(d(delta)));
            if got != Ok(ceil_div(delta, t) as usize) { return fail("arrival::Periodic::number_arrivals", format!("{{\"T\": {}, \"delta\": {}}}", t, delta), format!("{:?}", got), format!("{}", ceil_div(delta, t))); }
        }
        // jitter a then b == a + b ; delaying by x shifts the bound by x
        for a in [0u64, 2, 5] { for b in [0u64, 1, 4] {
            let two = sp.clone_with_jitter(d(a)).clone_with_jitter(d(b));
            let one = sp.clone_with_jitter(d(a + b));
            let exp = if delta == 0 { 0 } else { ceil_div(delta + j + a + b, t) } as usize;
            let g2 = guarded(|| two.number_arrivals(d(delta))); let g1 = guarded(|| one.number_arrivals(d(delta)));
            if g2 != Ok(exp) || g1 != Ok(exp) { return fail("arrival::clone_with_jitter", format!("{{\"model\": \"Sporadic\", \"T\": {}, \"J\": {}, \"a\": {}, \"b\": {}, \"delta\": {}}}", t, j, a, b, delta), format!("{:?} / {:?}", g2, g1), format!("{}", exp)); }
            let pr = Propagated::with_jitter(&sp, d(a));
            let pr2 = pr.clone_with_jitter(d(b));
            let g = guarded(|| pr2.number_arrivals(d(delta)));
            if g != Ok(exp) { return fail("arrival::Propagated::clone_with_jitter", format!("{{\"T\": {}, \"J\": {}, \"a\": {}, \"b\": {}, \"delta\": {}}}", t, j, a, b, delta), format!("{:?}", g), format!("{}", exp)); }
            let so = arrival::sum_of(sp, Periodic::new(d(t + 1))).clone_with_jitter(d(a));
            let exp_so = if delta == 0 { 0 } else { ceil_div(delta + j + a, t) + ceil_div(delta + a, t + 1) } as usize;
            let g = guarded(|| so.number_arrivals(d(delta)));
            if g != Ok(exp_so) { return fail("arrival::SumOf::clone_with_jitter", format!("{{\"T\": {}, \"J\": {}, \"a\": {}, \"delta\": {}}}", t, j, a, delta), format!("{:?}", g), format!("{}", exp_so)); }
        }}
    }}}
    // interval lengths at the very top of the u64 range (no jitter: delta + jitter must stay representable): the bound is
    // ceil(delta / T) and computing it must not overflow in either build profile
    for t in [1u64, 2, 3, 7, 1 << 32] { for back in 0..=8u64 {
        let delta = u64::MAX - back;
        let exp = ((delta as u128 + t as u128 - 1) / t as u128) as usize;
        let got = guarded(|| Periodic::new(d(t)).number_arrivals(d(delta)));
        if got != Ok(exp) { return fail("arrival::Periodic::number_arrivals", format!("{{\"T\": {}, \"delta\": {}}}", t, delta), format!("{:?}", got), format!("{}", exp)); }
        let got = guarded(|| Sporadic::new(d(t), d(0)).number_arrivals(d(delta)));
        if got != Ok(exp) { return fail("arrival::Sporadic::number_arrivals", format!("{{\"T\": {}, \"J\": 0, \"delta\": {}}}", t, delta), format!("{:?}", got), format!("{}", exp)); }
    }}
    // Curve: delta-min prefix, against the definition (whole-prefix repetition + count of distances below the tail)
    for a in 0..=4u64 { for b in a..=6u64 { for c in b.max(1)..=7u64 { for delta in 0..=30u64 {
        let dm = [a, b, c];
        let cu = Curve::new(dm.iter().map(|x| d(*x)).collect());
        let big = c;
        let exp = if delta == 0 { 0 } else { let tail = delta % big; (delta / big) * 3 + if tail == 0 { 0 } else { 1 + dm.iter().filter(|x| **x < tail).count() as u64 } } as usize;
        let got = guarded(|| cu.number_arrivals(d(delta)));
        if got != Ok(exp) { return fail("arrival::Curve::number_arrivals", format!("{{\"dmin\": [{}, {}, {}], \"delta\": {}}}", a, b, c, delta), format!("{:?}", got), format!("{}", exp)); }
    }}}}
    // four-entry prefixes: plateaus in the middle of the prefix (the lookup must resolve a query that equals a repeated distance
    // to the FIRST of the equal entries)
    for a in 0..=3u64 { for b in a..=5u64 { for c in b..=6u64 { for e in c.max(1)..=8u64 { for delta in 0..=(2 * e + 2) {
        let dm = [a, b, c, e];
        let cu = Curve::new(dm.iter().map(|x| d(*x)).collect());
        let exp = if delta == 0 { 0 } else { let tail = delta % e; (delta / e) * 4 + if tail == 0 { 0 } else { 1 + dm.iter().filter(|x| **x < tail).count() as u64 } } as usize;
        let got = guarded(|| cu.number_arrivals(d(delta)));
        if got != Ok(exp) { return fail("arrival::Curve::number_arrivals", format!("{{\"dmin\": [{}, {}, {}, {}], \"delta\": {}}}", a, b, c, e, delta), format!("{:?}", got), format!("{}", exp)); }
    }}}}}
    // from_trace: the curve must bound the number of trace events in every window; entries are exact minimum spans
    let traces: [&[u64]; 6] = [&[0, 10, 10, 15], &[0, 10, 20, 30, 31, 32], &[0, 1, 2, 3, 50, 51], &[5, 5, 5, 9], &[0, 3, 4, 10, 11, 12, 30], &[0, 100, 101, 102, 103]];
    for tr in traces { for pj in 1..=4usize {
        let got = guarded(|| Curve::from_trace(tr.iter().map(|x| Offset::from(*x)), pj));
        let cu = match got { Ok(c) => c, Err(e) => return fail("arrival::Curve::from_trace", format!("{{\"trace\": {:?}, \"prefix_jobs\": {}}}", tr, pj), e, "no panic".into()) };
        for n in 2..=(pj + 1).min(tr.len()) {
            let exp = (0..=tr.len() - n).map(|i| tr[i + n - 1] - tr[i]).min().unwrap();
            let g = ud(cu.min_distance(n));
            if g != exp { return fail("arrival::Curve::from_trace", format!("{{\"trace\": {:?}, \"prefix_jobs\": {}, \"n\": {}}}", tr, pj, n), format!("min_distance = {}", g), format!("{}", exp)); }
        }
    }}
    // extrapolation: tightest super-additive extension, prefix unchanged; the caching variant answers like the eager one
    for a in 1..=3u64 { for b in a..=6u64 { for c in b..=12u64 { for extra in [0u64, 4] {
        let mut dm: Vec<u64> = vec![a, b, c]; if extra > 0 { dm.push(c + extra); }
        let orig = dm.clone();
        let horizon = 40u64;
        let mut reference = dm.clone();
        while *reference.last().unwrap() < horizon {
            let n = reference.len();
            let nx = (0..=n / 2).map(|k| reference[k] + reference[n - k - 1]).max().unwrap();
            reference.push(nx);
        }
        let mut cu = Curve::new(orig.iter().map(|x| d(*x)).collect());
        if let Err(e) = guarded(AssertUnwindSafe(|| cu.extrapolate(d(horizon)))) { return fail("arrival::Curve::extrapolate", format!("{{\"dmin\": {:?}, \"horizon\": {}}}", orig, horizon), e, "no panic".into()); }
        for n in 2..(reference.len() + 2) {
            let g = ud(cu.min_distance(n));
            if g != reference[n - 2] { return fail("arrival::Curve::extrapolate", format!("{{\"dmin\": {:?}, \"horizon\": {}, \"n\": {}}}", orig, horizon, n), format!("min_distance = {}", g), format!("{}", reference[n - 2])); }
        }
        // lazy == eager, for a large query first and a small one afterwards, on two clones sharing the cache
        let lazy = arrival::ExtrapolatingCurve::new(Curve::new(orig.iter().map(|x| d(*x)).collect()));
        let lazy2 = lazy.clone();
        for delta in [30u64, 7, 31, 1, 12, 29] {
            let exp = guarded(|| cu.number_arrivals(d(delta)));
            let got = guarded(|| if delta % 2 == 0 { lazy.number_arrivals(d(delta)) } else { lazy2.number_arrivals(d(delta)) });
            if got != exp { return fail("arrival::ExtrapolatingCurve::number_arrivals", format!("{{\"dmin\": {:?}, \"delta\": {}, \"history\": \"30,7,31,1,12,29 alternating two clones\"}}", orig, delta), format!("{:?}", got), format!("{:?} (eagerly extrapolated curve)", exp)); }
        }
    }}}}
    // C13 "never yields more arrivals than the un-extrapolated curve claims": holds for the caching variant at every delta and
    // for the eager variant up to the extended horizon (beyond it: known finding KF12)
    for a in 1..=4u64 { for b in a..=7u64 { for c in b..=10u64 {
        let plain = Curve::new(vec![d(a), d(b), d(c)]);
        let x = arrival::ExtrapolatingCurve::new(plain.clone());
        for delta in [55u64, 3, 41, 0, 17, 9, 26, 60, 1] {
            let (g, e) = (x.number_arrivals(d(delta)), plain.number_arrivals(d(delta)));
            if g > e { return fail("arrival::ExtrapolatingCurve::number_arrivals(only tightens)", format!("{{\"dmin\": [{}, {}, {}], \"delta\": {}}}", a, b, c, delta), format!("{}", g), format!("<= {}", e)); }
        }
        for h in [c + 1, 2 * c, 3 * c + 1, 40] {
            let mut ex = plain.clone(); ex.extrapolate(d(h));
            for delta in 0..=h {
                let (g, e) = (ex.number_arrivals(d(delta)), plain.number_arrivals(d(delta)));
                if g > e { return fail("arrival::Curve::extrapolate(only tightens up to the horizon)", format!("{{\"dmin\": [{}, {}, {}], \"horizon\": {}, \"delta\": {}}}", a, b, c, h, delta), format!("{}", g), format!("<= {}", e)); }
            }
        }
    }}}
    // FromIterator: running maximum of the input distances
    for a in 0..=5u64 { for b in 0..=5u64 { for c in 1..=5u64 {
        let cu: Curve = [a, b, c].iter().map(|x| d(*x)).collect();
        let exp = [a, a.max(b), a.max(b).max(c)];
        for n in 2..=4usize { let g = ud(cu.min_distance(n)); if g != exp[n - 2] { return fail("arrival::Curve::from_iter", format!("{{\"distances\": [{}, {}, {}], \"n\": {}}}", a, b, c, n), format!("{}", g), format!("{}", exp[n - 2])); } }
    }}}
    0
}


// ------------------------------------------------------------------------------------------------ steps_iter, conversions, delta-min duality
fn steps_ok<A: ArrivalBound + ?Sized>(ab: &A, horizon: u64) -> Result<(), String> {
    let got: Vec<u64> = ab.steps_iter().map(ud).take_while(|x| *x <= horizon).collect();
    let exp: Vec<u64> = (1..=horizon).filter(|x| ab.number_arrivals(d(*x - 1)) < ab.number_arrivals(d(*x))).collect();
    if got != exp { Err(format!("steps {:?} expected {:?}", got, exp)) } else { Ok(()) }
}
fn rb_steps_ok<R: RequestBound + ?Sized>(rb: &R, horizon: u64) -> Result<(), String> {
    let got: Vec<u64> = rb.steps_iter().map(ud).take_while(|x| *x <= horizon).collect();
    let exp: Vec<u64> = (1..=horizon).filter(|x| rb.service_needed(d(*x - 1)) < rb.service_needed(d(*x))).collect();
    if got != exp { return Err(format!("steps {:?} expected {:?}", got, exp)); }
    let offs: Vec<u64> = demand::step_offsets(rb).map(u64::from).take_while(|x| *x < horizon).collect();
    let exp_o: Vec<u64> = exp.iter().map(|x| x - 1).collect();
    if offs != exp_o { Err(format!("step_offsets {:?} expected {:?}", offs, exp_o)) } else { Ok(()) }
}
fn check_steps(_seed: u64) -> i32 {
    let h = 40u64;
    macro_rules! chk { ($name:expr, $desc:expr, $e:expr) => {{ match guarded(|| $e) { Ok(Ok(())) => {}, Ok(Err(m)) => return fail($name, $desc, m, "the increases of the bound".into()), Err(m) => return fail($name, $desc, m, "no panic".into()) } }}}
    for t in 1..=7u64 { for j in 0..=15u64 {
        let sp = Sporadic::new(d(t), d(j));
        chk!("steps::Sporadic", format!("{{\"T\": {}, \"J\": {}}}", t, j), steps_ok(&sp, h));
        if j == 0 { chk!("steps::Periodic", format!("{{\"T\": {}}}", t), steps_ok(&Periodic::new(d(t)), h)); }
        for r in [0u64, 1, 3, 8] {
            chk!("steps::Propagated", format!("{{\"T\": {}, \"J\": {}, \"R\": {}}}", t, j, r), steps_ok(&Propagated::with_jitter(&sp, d(r)), h));
            chk!("steps::clone_with_jitter", format!("{{\"T\": {}, \"J\": {}, \"R\": {}}}", t, j, r), steps_ok(sp.clone_with_jitter(d(r)).as_ref(), h));
        }
        for t2 in [2u64, 3, 5] {
            let so = arrival::sum_of(sp, Periodic::new(d(t2)));
            chk!("steps::sum_of", format!("{{\"a\": [{}, {}], \"b\": {}}}", t, j, t2), steps_ok(&so, h));
            let v = vec![sp, Sporadic::new(d(t2), d(1))];
            chk!("steps::Vec", format!("{{\"a\": [{}, {}], \"b\": [{}, 1]}}", t, j, t2), steps_ok(&v, h));
            chk!("steps::slice", format!("{{\"a\": [{}, {}], \"b\": [{}, 1]}}", t, j, t2), steps_ok(&v[..], h));
            let rbfs = vec![RBF::new(sp, Scalar::new(s(2))), RBF::new(Sporadic::new(d(t2), d(1)), Scalar::new(s(1)))];
            chk!("steps::RBF", format!("{{\"T\": {}, \"J\": {}}}", t, j), rb_steps_ok(&rbfs[0], h));
            chk!("steps::demand::Slice", format!("{{\"a\": [{}, {}], \"b\": [{}, 1]}}", t, j, t2), rb_steps_ok(&demand::Slice::of(&rbfs), h));
            chk!("steps::demand::Aggregate", format!("{{\"a\": [{}, {}], \"b\": [{}, 1]}}", t, j, t2), rb_steps_ok(&demand::Aggregate::new(rbfs.clone()), h));
        }
    }}
    chk!("steps::Never", "\"Never\"".to_string(), steps_ok(&arrival::Never {}, h));
    // a prefix without steps: after the pinned leading 0 (KF1) the iterator must end (it used to spin forever: KF19, repaired)
    {
        let acp = arrival::ArrivalCurvePrefix::from_arrival_bound_until(&arrival::Never {}, d(10));
        let v: Vec<u64> = acp.steps_iter().take(3).map(ud).collect();
        if v != vec![0] { return fail("steps::ArrivalCurvePrefix(empty)", "\"from_arrival_bound_until(Never, 10)\"".to_string(), format!("{:?}", v), "[0]".into()); }
    }
    chk!("steps::Propagated<Never>", "\"Propagated<Never>\"".to_string(), steps_ok(&Propagated::with_jitter(&arrival::Never {}, d(3)), h));
    // delta-min vectors WITHOUT a plateau at the end (known finding KF5) -- plateaus in the middle are included
    for a in 0..=3u64 { for b in a..=5u64 { for c in (b + 1)..=8u64 {
        let cu = Curve::new(vec![d(a), d(b), d(c)]);
        chk!("steps::Curve", format!("{{\"dmin\": [{}, {}, {}]}}", a, b, c), steps_ok(&cu, h));
        if a >= 1 {
            let ex = arrival::ExtrapolatingCurve::new(Curve::new(vec![d(a), d(b), d(c)]));
            chk!("steps::ExtrapolatingCurve", format!("{{\"dmin\": [{}, {}, {}]}}", a, b, c), steps_ok(&ex, h));
        }
    }}}
    // one- and two-entry delta-min prefixes (ExtrapolatingCurve takes a different branch for a single entry), bare, inside an RBF
    // and summed with a model that never steps
    for p in 1..=6u64 {
        let mk = || Curve::new(vec![d(p)]);
        chk!("steps::Curve", format!("{{\"dmin\": [{}]}}", p), steps_ok(&mk(), h));
        chk!("steps::ExtrapolatingCurve", format!("{{\"dmin\": [{}]}}", p), steps_ok(&arrival::ExtrapolatingCurve::new(mk()), h));
        chk!("steps::RBF", format!("{{\"ExtrapolatingCurve dmin\": [{}]}}", p), rb_steps_ok(&RBF::new(arrival::ExtrapolatingCurve::new(mk()), Scalar::new(s(2))), h));
        chk!("steps::sum_of", format!("{{\"ExtrapolatingCurve dmin\": [{}], \"b\": \"Never\"}}", p), steps_ok(&arrival::sum_of(arrival::ExtrapolatingCurve::new(mk()), arrival::Never {}), h));
        for q in (p + 1)..=8u64 {
            chk!("steps::Curve", format!("{{\"dmin\": [{}, {}]}}", p, q), steps_ok(&Curve::new(vec![d(p), d(q)]), h));
            chk!("steps::ExtrapolatingCurve", format!("{{\"dmin\": [{}, {}]}}", p, q), steps_ok(&arrival::ExtrapolatingCurve::new(Curve::new(vec![d(p), d(q)])), h));
        }
    }
    // conversions: never smaller than the source, equal on the covered prefix -- including bursty sources (jitter up to 3T)
    // and cut-offs inside the burst (KF6, repaired)
    for t in 1..=7u64 { for j in 0..=(3 * t) { for n in 1..=6usize { for hz in [0u64, 1, 5, 11, 20] {
        let sp = Sporadic::new(d(t), d(j));
        let desc = format!("{{\"T\": {}, \"J\": {}, \"njobs\": {}, \"horizon\": {}}}", t, j, n, hz);
        let cu = match guarded(|| Curve::from_arrival_bound(&sp, n)) { Ok(c) => c, Err(e) => return fail("conv::Curve::from_arrival_bound", desc, e, "no panic".into()) };
        let cu2 = match guarded(|| Curve::from_arrival_bound_until(&sp, d(hz))) { Ok(c) => c, Err(e) => return fail("conv::Curve::from_arrival_bound_until", desc, e, "no panic".into()) };
        // (a horizon of 0 is not a well-formed ArrivalCurvePrefix: its queries divide by the horizon)
        let acp = match guarded(|| arrival::ArrivalCurvePrefix::from_arrival_bound_until(&sp, d(hz.max(1)))) { Ok(c) => c, Err(e) => return fail("conv::ArrivalCurvePrefix::from_arrival_bound_until", desc, e, "no panic".into()) };
        for delta in 0..=60u64 {
            let src = sp.number_arrivals(d(delta));
            for (name, got) in [("conv::Curve::from_arrival_bound", guarded(|| cu.number_arrivals(d(delta)))), ("conv::Curve::from_arrival_bound_until", guarded(|| cu2.number_arrivals(d(delta)))), ("conv::ArrivalCurvePrefix::from_arrival_bound_until", guarded(|| acp.number_arrivals(d(delta))))] {
                match got { Ok(g) if g >= src => {}, other => return fail(name, format!("{{\"T\": {}, \"J\": {}, \"njobs\": {}, \"horizon\": {}, \"delta\": {}}}", t, j, n, hz, delta), format!("{:?}", other), format!(">= {} (the source)", src)) }
            }
            if delta <= hz.max(1) { let g2 = guarded(|| Curve::from(&acp).number_arrivals(d(delta))); if g2 != Ok(src) { return fail("conv::Curve::from(&ArrivalCurvePrefix)", format!("{{\"T\": {}, \"J\": {}, \"horizon\": {}, \"delta\": {}}}", t, j, hz, delta), format!("{:?}", g2), format!("{} (exact up to the horizon)", src)); } }
            if delta <= hz.max(1) { let g = acp.number_arrivals(d(delta)); if g != src { return fail("conv::ArrivalCurvePrefix::from_arrival_bound_until", format!("{{\"T\": {}, \"J\": {}, \"horizon\": {}, \"delta\": {}}}", t, j, hz, delta), format!("{}", g), format!("{} (exact up to the horizon)", src)); } }
            if delta <= hz.max(1) && delta <= ud(cu2.min_distance(1000)) { let g = cu2.number_arrivals(d(delta)); if g != src { return fail("conv::Curve::from_arrival_bound_until", format!("{{\"T\": {}, \"J\": {}, \"horizon\": {}, \"delta\": {}}}", t, j, hz, delta), format!("{}", g), format!("{} (exact on the covered prefix)", src)); } }
        }
        // From<Sporadic> / From<Periodic>: dominate the source everywhere, exact below the largest recorded distance
        if n == 2 && hz == 5 {
            let cs = match guarded(|| Curve::from(sp)) { Ok(c) => c, Err(e) => return fail("conv::Curve::from(Sporadic)", desc, e, "no panic".into()) };
            let cov = ud(cs.min_distance(1_000_000));
            for delta in (0..=200u64).chain([499, 500, 501, 997, 2500, 5003]) {
                let (a, b) = (cs.number_arrivals(d(delta)), sp.number_arrivals(d(delta)));
                if a < b || (delta < cov && a != b) { return fail("conv::Curve::from(Sporadic)", format!("{{\"T\": {}, \"J\": {}, \"delta\": {}}}", t, j, delta), format!("{}", a), format!("{} (the source)", b)); }
            }
            if j == 0 {
                let pe = Periodic::new(d(t)); let cp = Curve::from(pe);
                for delta in 0..=200u64 { let (a, b) = (cp.number_arrivals(d(delta)), pe.number_arrivals(d(delta))); if a != b { return fail("conv::Curve::from(Periodic)", format!("{{\"T\": {}, \"delta\": {}}}", t, delta), format!("{}", a), format!("{}", b)); } }
            }
        }
        // delta_min_iter is the dual of number_arrivals
        for (nn, x) in arrival::delta_min_iter(&sp).take(8) {
            let x = ud(x);
            if nn >= 2 && !(sp.number_arrivals(d(x + 1)) >= nn && sp.number_arrivals(d(x)) < nn) { return fail("conv::delta_min_iter", format!("{{\"T\": {}, \"J\": {}, \"item\": [{}, {}]}}", t, j, nn, x), format!("na(x+1) = {}, na(x) = {}", sp.number_arrivals(d(x + 1)), sp.number_arrivals(d(x))), "n events fit into x+1 but not into x".into()); }
        }
    }}}}
    0
}

// ------------------------------------------------------------------------------------------------ wcet / demand
fn check_wcet_demand(_seed: u64) -> i32 {
    for a in 0..=4u64 { for b in a..=6u64 { for c in b..=8u64 { for n in 0..=10usize {
        let w = [a, b, c];
        let cu = wcet::Curve::new(w.iter().map(|x| s(*x)).collect());
        let exp = (n as u64 / 3) * c + if n % 3 > 0 { w[n % 3 - 1] } else { 0 };
        let got = guarded(|| us(cu.cost_of_jobs(n)));
        if got != Ok(exp) { return fail("wcet::Curve::cost_of_jobs", format!("{{\"prefix\": [{}, {}, {}], \"n\": {}}}", a, b, c, n), format!("{:?}", got), format!("{}", exp)); }
        let diffs = [a, b - a, c - b];
        let exp_l = if n == 0 { 0 } else { *diffs[..n.min(3)].iter().min().unwrap() };
        let got = guarded(|| us(cu.least_wcet(n)));
        if got != Ok(exp_l) { return fail("wcet::Curve::least_wcet", format!("{{\"prefix\": [{}, {}, {}], \"n\": {}}}", a, b, c, n), format!("{:?}", got), format!("{}", exp_l)); }
        let sc = Scalar::new(s(c));
        if us(sc.cost_of_jobs(n)) != c * n as u64 { return fail("wcet::Scalar::cost_of_jobs", format!("{{\"wcet\": {}, \"n\": {}}}", c, n), format!("{}", us(sc.cost_of_jobs(n))), format!("{}", c * n as u64)); }
    }}}}
    // from_trace: exact maximum of every run of k <= max_n consecutive jobs
    let traces: [&[u64]; 5] = [&[1, 1, 1, 100], &[5, 1, 0], &[2, 7, 3, 1, 6, 2], &[9, 0, 0, 9, 9], &[3]];
    for tr in traces { for max_n in 0..=4usize {
        let got = guarded(|| wcet::Curve::from_trace(tr.iter().map(|x| s(*x)), max_n));
        let cu = match got { Ok(c) => c, Err(e) => return fail("wcet::Curve::from_trace", format!("{{\"trace\": {:?}, \"max_n\": {}}}", tr, max_n), e, "no panic".into()) };
        for k in 1..=max_n.min(tr.len()) {
            let exp = (0..=tr.len() - k).map(|i| tr[i..i + k].iter().sum::<u64>()).max().unwrap();
            let g = us(cu.cost_of_jobs(k));
            if g != exp { return fail("wcet::Curve::from_trace", format!("{{\"trace\": {:?}, \"max_n\": {}, \"k\": {}}}", tr, max_n, k), format!("cost_of_jobs = {}", g), format!("{}", exp)); }
        }
    }}
    // C14 "extrapolation never raises a bound": holds for the caching variant at every n, and for the eager variant within
    // the extended prefix (beyond it: known finding KF11)
    for a in 1..=5u64 { for b in a..=8u64 { for c in b..=10u64 {
        let plain = wcet::Curve::new(vec![s(a), s(b), s(c)]);
        let x = wcet::ExtrapolatingCurve::new(plain.clone());
        for n in [24usize, 3, 17, 0, 9, 5, 12, 1, 20] {
            let (g, e) = (us(x.cost_of_jobs(n)), us(plain.cost_of_jobs(n)));
            if g > e { return fail("wcet::ExtrapolatingCurve::cost_of_jobs(only tightens)", format!("{{\"prefix\": [{}, {}, {}], \"n\": {}}}", a, b, c, n), format!("{}", g), format!("<= {}", e)); }
        }
        for k in 4..=9usize {
            let mut ex = plain.clone(); ex.extrapolate(k);
            for n in 0..k {   // extrapolate(k) extends to k - 1 entries, i.e. to k - 1 jobs
                let (g, e) = (us(ex.cost_of_jobs(n)), us(plain.cost_of_jobs(n)));
                if n <= k - 1 && g > e { return fail("wcet::Curve::extrapolate(only tightens within the extended prefix)", format!("{{\"prefix\": [{}, {}, {}], \"extrapolate\": {}, \"n\": {}}}", a, b, c, k, n), format!("{}", g), format!("<= {}", e)); }
            }
        }
    }}}
    // demand: RBF = cost(na), Aggregate / Slice sums and minima, per-component restriction
    for t1 in 1..=4u64 { for c1 in 1..=3u64 { for t2 in 1..=4u64 { for c2 in 1..=3u64 { for delta in 0..=9u64 { for n in 0..=3usize {
        let r1 = RBF::new(Periodic::new(d(t1)), Scalar::new(s(c1)));
        let r2 = RBF::new(Sporadic::new(d(t2), d(1)), Scalar::new(s(c2)));
        let n1 = ceil_div(delta, t1); let n2 = if delta == 0 { 0 } else { ceil_div(delta + 1, t2) };
        if us(r1.service_needed(d(delta))) != c1 * n1 { return fail("demand::RBF::service_needed", format!("{{\"T\": {}, \"C\": {}, \"delta\": {}}}", t1, c1, delta), format!("{}", us(r1.service_needed(d(delta)))), format!("{}", c1 * n1)); }
        let v = vec![RBF::new(Sporadic::new(d(t1), d(0)), Scalar::new(s(c1))), r2];
        let n1s = if delta == 0 { 0 } else { ceil_div(delta, t1) };
        let sl = demand::Slice::of(&v);
        let exp_sum = c1 * n1s + c2 * n2;
        if us(sl.service_needed(d(delta))) != exp_sum { return fail("demand::Slice::service_needed", format!("{{\"tasks\": [[{}, {}], [{}, {}]], \"delta\": {}}}", t1, c1, t2, c2, delta), format!("{}", us(sl.service_needed(d(delta)))), format!("{}", exp_sum)); }
        let lw = |nn: u64, c: u64| if nn > 0 { c } else { 0 };
        let exp_min = lw(n1s, c1).min(lw(n2, c2));
        if us(sl.least_wcet_in_interval(d(delta))) != exp_min { return fail("demand::Slice::least_wcet_in_interval", format!("{{\"tasks\": [[{}, {}], [{}, {}]], \"delta\": {}}}", t1, c1, t2, c2, delta), format!("{}", us(sl.least_wcet_in_interval(d(delta)))), format!("{}", exp_min)); }
        use response_time_analysis::demand::AggregateRequestBound;
        let exp_npc = c1 * n1s.min(n as u64) + c2 * n2.min(n as u64);
        if us(sl.service_needed_by_n_jobs_per_component(d(delta), n)) != exp_npc { return fail("demand::Slice::service_needed_by_n_jobs_per_component", format!("{{\"tasks\": [[{}, {}], [{}, {}]], \"delta\": {}, \"n\": {}}}", t1, c1, t2, c2, delta, n), format!("{}", us(sl.service_needed_by_n_jobs_per_component(d(delta), n))), format!("{}", exp_npc)); }
        let ag = demand::Aggregate::new(v.clone());
        if us(ag.service_needed(d(delta))) != exp_sum || us(ag.least_wcet_in_interval(d(delta))) != exp_min || us(ag.service_needed_by_n_jobs_per_component(d(delta), n)) != exp_npc {
            return fail("demand::Aggregate", format!("{{\"tasks\": [[{}, {}], [{}, {}]], \"delta\": {}, \"n\": {}}}", t1, c1, t2, c2, delta, n), "sum/min/per-component differ".into(), format!("{} / {} / {}", exp_sum, exp_min, exp_npc));
        }
        // multiframe component with non-ascending costs
        let mf = vec![RBF::new(Periodic::new(d(t1)), wcet::Multiframe::new(vec![s(c1 + 4), s(c1)])), RBF::new(Periodic::new(d(t2)), wcet::Multiframe::new(vec![s(c2), s(c2 + 2)]))];
        let n2p = ceil_div(delta, t2);
        let mfl = |nn: u64, c: &[u64]| if nn == 0 { 0 } else { *c[..(nn as usize).min(2)].iter().min().unwrap() };
        let exp_mf = mfl(n1, &[c1 + 4, c1]).min(mfl(n2p, &[c2, c2 + 2]));
        let got_mf = us(demand::Slice::of(&mf).least_wcet_in_interval(d(delta)));
        if got_mf != exp_mf { return fail("demand::Slice::least_wcet_in_interval", format!("{{\"multiframe\": [[{}, [{}, {}]], [{}, [{}, {}]]], \"delta\": {}}}", t1, c1 + 4, c1, t2, c2, c2 + 2, delta), format!("{}", got_mf), format!("{}", exp_mf)); }
        // a component whose first job costs nothing: the least WCET in the interval is 0 as soon as that job can arrive
        {
            let zf = vec![RBF::new(Periodic::new(d(t1)), wcet::Multiframe::new(vec![s(0), s(c1)])), RBF::new(Periodic::new(d(t2)), wcet::Multiframe::new(vec![s(c2), s(c2 + 2)]))];
            let exp_zf = mfl(n1, &[0, c1]).min(mfl(n2p, &[c2, c2 + 2]));
            let got_sl = us(demand::Slice::of(&zf).least_wcet_in_interval(d(delta)));
            let got_ag = us(demand::Aggregate::new(zf.clone()).least_wcet_in_interval(d(delta)));
            if got_sl != exp_zf { return fail("demand::Slice::least_wcet_in_interval", format!("{{\"multiframe\": [[{}, [0, {}]], [{}, [{}, {}]]], \"delta\": {}}}", t1, c1, t2, c2, c2 + 2, delta), format!("{}", got_sl), format!("{}", exp_zf)); }
            if got_ag != exp_zf { return fail("demand::Aggregate::least_wcet_in_interval", format!("{{\"multiframe\": [[{}, [0, {}]], [{}, [{}, {}]]], \"delta\": {}}}", t1, c1, t2, c2, c2 + 2, delta), format!("{}", got_ag), format!("{}", exp_zf)); }
        }
        // n-largest-jobs restriction on every level (RBF, Slice, Aggregate), multiframe and curve cost models:
        // sum of the n largest costs among the jobs that can arrive in delta
        {
            let mfc1 = [c1 + 4, c1, c1 + 1]; let cuv = [c2, c2 + c2 + 2, c2 + c2 + 2 + 1];   // cumulative curve: job costs c2, c2+2, 1, then repeating
            let rb_mf = RBF::new(Periodic::new(d(t1)), wcet::Multiframe::new(mfc1.iter().map(|x| s(*x)).collect()));
            let rb_cu = RBF::new(Periodic::new(d(t2)), wcet::Curve::new(cuv.iter().map(|x| s(*x)).collect()));
            let jobs_mf: Vec<u64> = (0..n1 as usize).map(|i| mfc1[i % 3]).collect();
            let cu_cost = |k: usize| (k as u64 / 3) * cuv[2] + if k % 3 > 0 { cuv[k % 3 - 1] } else { 0 };
            let jobs_cu: Vec<u64> = (0..n2p as usize).map(|i| cu_cost(i + 1) - cu_cost(i)).collect();
            let largest = |v: &Vec<u64>, k: usize| { let mut w = v.clone(); w.sort(); w.reverse(); w.iter().take(k).sum::<u64>() };
            let g = guarded(|| us(rb_mf.service_needed_by_n_jobs(d(delta), n)));
            if g != Ok(largest(&jobs_mf, n)) { return fail("demand::RBF::service_needed_by_n_jobs", format!("{{\"T\": {}, \"multiframe\": {:?}, \"delta\": {}, \"n\": {}}}", t1, mfc1, delta, n), format!("{:?}", g), format!("{}", largest(&jobs_mf, n))); }
            let g = guarded(|| us(rb_cu.service_needed_by_n_jobs(d(delta), n)));
            if g != Ok(largest(&jobs_cu, n)) { return fail("demand::RBF::service_needed_by_n_jobs", format!("{{\"T\": {}, \"cost curve\": {:?}, \"delta\": {}, \"n\": {}}}", t2, cuv, delta, n), format!("{:?}", g), format!("{}", largest(&jobs_cu, n))); }
            let both = vec![rb_mf.clone(), RBF::new(Periodic::new(d(t2)), wcet::Multiframe::new(vec![s(c2), s(c2 + 2)]))];
            let jobs_b: Vec<u64> = (0..n2p as usize).map(|i| [c2, c2 + 2][i % 2]).collect();
            let mut all_jobs = jobs_mf.clone(); all_jobs.extend(jobs_b.iter());
            let exp_all = largest(&all_jobs, n); let exp_pc = largest(&jobs_mf, n) + largest(&jobs_b, n);
            let slb = demand::Slice::of(&both); let agb = demand::Aggregate::new(both.clone());
            let g = guarded(|| (us(slb.service_needed_by_n_jobs(d(delta), n)), us(agb.service_needed_by_n_jobs(d(delta), n)), us(slb.service_needed_by_n_jobs_per_component(d(delta), n)), us(agb.service_needed_by_n_jobs_per_component(d(delta), n))));
            if g != Ok((exp_all, exp_all, exp_pc, exp_pc)) { return fail("demand::service_needed_by_n_jobs(aggregates)", format!("{{\"multiframe\": [[{}, {:?}], [{}, [{}, {}]]], \"delta\": {}, \"n\": {}}}", t1, mfc1, t2, c2, c2 + 2, delta, n), format!("{:?}", g), format!("({0}, {0}, {1}, {1})", exp_all, exp_pc)); }
        }
        let jc: u64 = ag.job_cost_iter(d(delta)).map(us).sum();
        if jc != exp_sum { return fail("demand::job_cost_iter", format!("{{\"tasks\": [[{}, {}], [{}, {}]], \"delta\": {}}}", t1, c1, t2, c2, delta), format!("{}", jc), format!("{}", exp_sum)); }
    }}}}}}
    0
}

// ------------------------------------------------------------------------------------------------ analyses
fn dscan(limit: u64, w: &dyn Fn(u64) -> u64) -> Option<u64> {
    let mut r = 0u64;
    while r <= limit { if r >= w(r.max(1)) { return Some(r); } r += 1; }
    None
}
/// exhaustive FP-family evaluator: every offset in [0, L)
fn fpx(tua: &dyn Fn(u64) -> u64, hp: &dyn Fn(u64) -> u64, b: u64, rem: u64, limit: u64) -> Option<u64> {
    let l = dscan(limit, &|x| b + hp(x) + tua(x))?;
    let mut best = 0i128;
    for a in 0..l {
        let af = dscan(limit, &|x| b + (tua(a + 1) - rem) + hp(x))?;
        // at a non-step offset the solution may lie one before the offset: evaluate over the integers
        best = best.max(af as i128 - a as i128 + rem as i128);
    }
    Some(best as u64)
}
fn view(r: &Result<SearchResult, String>) -> Result<Option<u64>, String> {
    match r { Ok(Ok(x)) => Ok(Some(ud(*x))), Ok(Err(_)) => Ok(None), Err(e) => Err(e.clone()) }
}

/// table-based request bound: rbf(delta) = tab[min(delta, H)] (tab[0] = 0, non-decreasing, NOT necessarily sub-additive)
#[derive(Clone, Debug)]
struct TabRb { tab: Vec<u64> }
impl TabRb {
    fn at(&self, delta: u64) -> u64 { self.tab[(delta as usize).min(self.tab.len() - 1)] }
    fn random(r: &mut Rng, h: usize, first_positive: bool) -> TabRb {
        let mut tab = vec![0u64]; let mut v = 0u64;
        for i in 1..=h { v += if i == 1 && first_positive { 1 + r.below(3) } else if r.below(3) == 0 { r.below(4) } else { 0 }; tab.push(v); }
        TabRb { tab }
    }
}
impl RequestBound for TabRb {
    fn service_needed(&self, delta: Duration) -> Service { s(self.at(ud(delta))) }
    fn least_wcet_in_interval(&self, _delta: Duration) -> Service { s(1) }
    fn steps_iter<'a>(&'a self) -> Box<dyn Iterator<Item = Duration> + 'a> {
        Box::new((1..self.tab.len() as u64).filter(move |x| self.at(*x - 1) < self.at(*x)).map(d))
    }
    fn job_cost_iter<'a>(&'a self, _delta: Duration) -> Box<dyn Iterator<Item = Service> + 'a> { Box::new(std::iter::empty()) }
}
/// the analyses that take arbitrary request bounds, on random step tables (bursty, not sub-additive): here the offsets
/// next to the end of the busy window matter, which sporadic task sets never exercise
fn check_analyses_tab(seed: u64) -> i32 {
    let mut r = Rng(seed ^ 0x7ab1e);
    for _ in 0..4000 {
        let h = 4 + r.below(12) as usize;
        let tua = TabRb::random(&mut r, h, true);
        let nhp = r.below(3) as usize;
        let hps: Vec<TabRb> = (0..nhp).map(|_| TabRb::random(&mut r, h, false)).collect();
        let limit = 1 + r.below(40); let b = r.below(4);
        let hp_f = |x: u64| hps.iter().map(|t| t.at(x)).sum::<u64>();
        let tua_f = |x: u64| tua.at(x);
        let mut desc = format!("{{\"tua_table\": {:?}, \"hp_tables\": {:?}, \"blocking\": {}, \"limit\": {}}}", tua.tab, hps.iter().map(|t| t.tab.clone()).collect::<Vec<_>>(), b, limit);
        macro_rules! cmp { ($name:expr, $got:expr, $exp:expr) => {{
            let got = view(&guarded(|| $got)); let exp = $exp;
            if got != Ok(exp) { return fail($name, desc.clone(), format!("{:?}", got), format!("{:?}", exp)); }
        }}}
        cmp!("fixed_priority::fully_preemptive::dedicated_uniproc_rta", fixed_priority::fully_preemptive::dedicated_uniproc_rta(&tua, &hps, d(limit)), fpx(&tua_f, &hp_f, 0, 0, limit));
        cmp!("fixed_priority::floating_nonpreemptive::dedicated_uniproc_rta",
             fixed_priority::floating_nonpreemptive::dedicated_uniproc_rta(&fixed_priority::floating_nonpreemptive::TaskUnderAnalysis { rbf: &tua, blocking_bound: s(b) }, &hps, d(limit)), fpx(&tua_f, &hp_f, b, 0, limit));
        // FIFO on the sum of all tables
        let mut all = hps.clone(); all.push(tua.clone());
        let tot = |x: u64| tua_f(x) + hp_f(x);
        let exp = dscan(limit, &|x| tot(x)).map(|l| (0..l).map(|a| tot(a + 1).saturating_sub(a)).max().unwrap_or(0));
        cmp!("fifo::dedicated_uniproc_rta", fifo::dedicated_uniproc_rta(&demand::Slice::of(&all), d(limit)), exp);
        // fully preemptive EDF, arbitrary deadlines
        let dl0 = 1 + r.below(20);
        let dls: Vec<u64> = hps.iter().map(|_| 1 + r.below(20)).collect();
        let others: Vec<_> = hps.iter().zip(dls.iter()).map(|(rb, dl)| edf::fully_preemptive::Task { rbf: rb, deadline: d(*dl) }).collect();
        let exp_edf = (|| {
            let n = dls.len();
            let l = dscan(limit, &|x| hp_f(x) + tua_f(x))?;
            let mut best = 0u64;
            for a in 0..l {
                let af = dscan(limit, &|x| tua_f(a + 1) + (0..n).map(|i| hps[i].at(x.min((a + 1 + dl0).saturating_sub(dls[i])))).sum::<u64>())?;
                best = best.max(af.saturating_sub(a));
            }
            Some(best)
        })();
        desc = format!("{{\"tua_table\": {:?}, \"deadline\": {}, \"other_tables\": {:?}, \"deadlines\": {:?}, \"limit\": {}}}", tua.tab, dl0, hps.iter().map(|t| t.tab.clone()).collect::<Vec<_>>(), dls, limit);
        cmp!("edf::fully_preemptive::dedicated_uniproc_rta", edf::fully_preemptive::dedicated_uniproc_rta(&edf::fully_preemptive::Task { rbf: &tua, deadline: d(dl0) }, &others, d(limit)), exp_edf);
        // floating non-preemptive EDF
        let segs: Vec<u64> = hps.iter().map(|_| 1 + r.below(4)).collect();
        let fl_others: Vec<_> = hps.iter().zip(dls.iter()).zip(segs.iter()).map(|((rb, dl), sg)| edf::floating_nonpreemptive::InterferingTask { rbf: rb, deadline: d(*dl), max_np_segment: s(*sg) }).collect();
        let exp_fl = (|| {
            let n = dls.len();
            let l = dscan(limit, &|x| hp_f(x) + tua_f(x))?;
            let mut best = 0u64;
            for a in 0..l {
                let blk = (0..n).filter(|&i| dls[i] > dl0 + a && hps[i].at(1) > 0).map(|i| segs[i].saturating_sub(1)).max().unwrap_or(0);
                let af = dscan(limit, &|x| blk + tua_f(a + 1) + (0..n).map(|i| hps[i].at(x.min((a + 1 + dl0).saturating_sub(dls[i])))).sum::<u64>())?;
                best = best.max(af.saturating_sub(a));
            }
            Some(best)
        })();
        cmp!("edf::floating_nonpreemptive::dedicated_uniproc_rta",
             edf::floating_nonpreemptive::dedicated_uniproc_rta(&edf::floating_nonpreemptive::TaskUnderAnalysis { rbf: &tua, deadline: d(dl0) }, &fl_others, d(limit)), exp_fl);
    }
    0
}

fn check_analyses(seed: u64) -> i32 {
    let mut r = Rng(seed ^ 0xa11a);
    for iter in 0..1500 {
        // task under analysis and up to two interfering tasks: sporadic with jitter (possibly > period)
        let t0 = 2 + r.below(8); let j0 = r.below(2 * t0 + 1) * (iter % 2) as u64; let c0 = 1 + r.below(3);
        let nhp = r.below(3) as usize;
        let hp: Vec<(u64, u64, u64)> = (0..nhp).map(|_| { let t = 2 + r.below(9); (t, r.below(t + 3), 1 + r.below(3)) }).collect();
        let b = r.below(4); let limit = 1 + r.below(60);
        let last = 1 + r.below(c0);
        let na0 = move |x: u64| if x == 0 { 0 } else { ceil_div(x + j0, t0) };
        let tua_f = move |x: u64| c0 * na0(x);
        let hp2 = hp.clone();
        let hp_f = move |x: u64| hp2.iter().map(|(t, j, c)| if x == 0 { 0 } else { c * ceil_div(x + j, *t) }).sum::<u64>();
        let ab = Sporadic::new(d(t0), d(j0));
        let tua_rbf = RBF::new(ab, Scalar::new(s(c0)));
        let hps: Vec<_> = hp.iter().map(|(t, j, c)| RBF::new(Sporadic::new(d(*t), d(*j)), Scalar::new(s(*c)))).collect();
        let mut desc = format!("{{\"tua\": [{}, {}, {}], \"hp\": {:?}, \"blocking\": {}, \"last_np_segment\": {}, \"limit\": {}}}", t0, j0, c0, hp, b, last, limit);
        macro_rules! cmp { ($name:expr, $got:expr, $exp:expr) => {{
            let got = view(&guarded(|| $got)); let exp = $exp;
            if got != Ok(exp) { return fail($name, desc.clone(), format!("{:?}", got), format!("{:?}", exp)); }
        }}}
        cmp!("fixed_priority::fully_preemptive::dedicated_uniproc_rta", fixed_priority::fully_preemptive::dedicated_uniproc_rta(&tua_rbf, &hps, d(limit)), fpx(&tua_f, &hp_f, 0, 0, limit));
        cmp!("fixed_priority::floating_nonpreemptive::dedicated_uniproc_rta",
             fixed_priority::floating_nonpreemptive::dedicated_uniproc_rta(&fixed_priority::floating_nonpreemptive::TaskUnderAnalysis { rbf: &tua_rbf, blocking_bound: s(b) }, &hps, d(limit)), fpx(&tua_f, &hp_f, b, 0, limit));
        cmp!("fixed_priority::fully_nonpreemptive::dedicated_uniproc_rta",
             fixed_priority::fully_nonpreemptive::dedicated_uniproc_rta(&fixed_priority::fully_nonpreemptive::TaskUnderAnalysis { wcet: Scalar::new(s(c0)), arrivals: &ab, blocking_bound: s(b) }, &hps, d(limit)), fpx(&tua_f, &hp_f, b, c0 - 1, limit));
        cmp!("fixed_priority::limited_preemptive::dedicated_uniproc_rta",
             fixed_priority::limited_preemptive::dedicated_uniproc_rta(&fixed_priority::limited_preemptive::TaskUnderAnalysis { wcet: Scalar::new(s(c0)), arrivals: &ab, last_np_segment: s(last), blocking_bound: s(b) }, &hps, d(limit)), fpx(&tua_f, &hp_f, b, last - 1, limit));
        // FIFO on the aggregate
        let mut all = hps.clone(); all.push(tua_rbf.clone());
        let tot = { let tf = tua_f.clone(); let hf = hp_f.clone(); move |x: u64| tf(x) + hf(x) };
        let exp = dscan(limit, &|x| tot(x)).map(|l| (0..l).map(|a| tot(a + 1) - a).max().unwrap_or(0));
        cmp!("fifo::dedicated_uniproc_rta", fifo::dedicated_uniproc_rta(&demand::Slice::of(&all), d(limit)), exp);
        // fully preemptive EDF with arbitrary relative deadlines
        let dl0 = 1 + r.below(3 * t0);
        let dls: Vec<u64> = hp.iter().map(|(t, _, _)| 1 + r.below(3 * t)).collect();
        let others: Vec<_> = hps.iter().zip(dls.iter()).map(|(rb, dl)| edf::fully_preemptive::Task { rbf: rb, deadline: d(*dl) }).collect();
        let hp3 = hp.clone(); let dls3 = dls.clone();
        let rbf_o = move |i: usize, x: u64| { let (t, j, c) = hp3[i]; if x == 0 { 0 } else { c * ceil_div(x + j, t) } };
        let exp_edf = (|| {
            let n = dls3.len();
            let l = dscan(limit, &|x| (0..n).map(|i| rbf_o(i, x)).sum::<u64>() + tua_f(x))?;
            let mut best = 0u64;
            for a in 0..l {
                let af = dscan(limit, &|x| tua_f(a + 1) + (0..n).map(|i| rbf_o(i, x.min((a + 1 + dl0).saturating_sub(dls3[i])))).sum::<u64>())?;
                best = best.max(af.saturating_sub(a));
            }
            Some(best)
        })();
        desc = format!("{{\"tua\": [{}, {}, {}, {}], \"others\": {:?}, \"deadlines\": {:?}, \"limit\": {}}}", t0, j0, c0, dl0, hp, dls, limit);
        cmp!("edf::fully_preemptive::dedicated_uniproc_rta", edf::fully_preemptive::dedicated_uniproc_rta(&edf::fully_preemptive::Task { rbf: &tua_rbf, deadline: d(dl0) }, &others, d(limit)), exp_edf);
        // EDF with non-preemptive segments: offset-dependent blocking, remaining cost after the run-to-completion threshold
        let segs: Vec<u64> = hp.iter().map(|(_, _, c)| 1 + r.below(*c)).collect();
        let edfx = |segs: &Vec<u64>, rem: u64| -> Option<u64> {
            let n = dls.len();
            let l = dscan(limit, &|x| (0..n).map(|i| rbf_o(i, x)).sum::<u64>() + tua_f(x))?;
            let mut best = 0u64;
            for a in 0..l {
                let blk = (0..n).filter(|&i| dls[i] > dl0 + a && rbf_o(i, 1) > 0).map(|i| segs[i].saturating_sub(1)).max().unwrap_or(0);
                let af = dscan(limit, &|x| blk + (tua_f(a + 1) - rem) + (0..n).map(|i| rbf_o(i, x.min((a + 1 + dl0).saturating_sub(dls[i])))).sum::<u64>())?;
                best = best.max(af.saturating_sub(a) + rem);
            }
            Some(best)
        };
        desc = format!("{{\"tua\": [{}, {}, {}, {}], \"last_np_segment\": {}, \"others\": {:?}, \"deadlines\": {:?}, \"max_np_segments\": {:?}, \"limit\": {}}}", t0, j0, c0, dl0, last, hp, dls, segs, limit);
        let fl_others: Vec<_> = hps.iter().zip(dls.iter()).zip(segs.iter()).map(|((rb, dl), sg)| edf::floating_nonpreemptive::InterferingTask { rbf: rb, deadline: d(*dl), max_np_segment: s(*sg) }).collect();
        cmp!("edf::floating_nonpreemptive::dedicated_uniproc_rta",
             edf::floating_nonpreemptive::dedicated_uniproc_rta(&edf::floating_nonpreemptive::TaskUnderAnalysis { rbf: &tua_rbf, deadline: d(dl0) }, &fl_others, d(limit)), edfx(&segs, 0));
        let lp_others: Vec<_> = hps.iter().zip(dls.iter()).zip(segs.iter()).map(|((rb, dl), sg)| edf::limited_preemptive::InterferingTask { rbf: rb, deadline: d(*dl), max_np_segment: s(*sg) }).collect();
        cmp!("edf::limited_preemptive::dedicated_uniproc_rta",
             edf::limited_preemptive::dedicated_uniproc_rta(&edf::limited_preemptive::TaskUnderAnalysis { wcet: Scalar::new(s(c0)), arrivals: &ab, deadline: d(dl0), last_np_segment: s(last) }, &lp_others, d(limit)), edfx(&segs, last - 1));
        let np_abs: Vec<Sporadic> = hp.iter().map(|(t, j, _)| Sporadic::new(d(*t), d(*j))).collect();
        let np_others: Vec<_> = np_abs.iter().zip(hp.iter()).zip(dls.iter()).map(|((ab, (_, _, c)), dl)| edf::fully_nonpreemptive::Task { wcet: Scalar::new(s(*c)), arrivals: ab, deadline: d(*dl) }).collect();
        let full: Vec<u64> = hp.iter().map(|(_, _, c)| *c).collect();
        cmp!("edf::fully_nonpreemptive::dedicated_uniproc_rta",
             edf::fully_nonpreemptive::dedicated_uniproc_rta(&edf::fully_nonpreemptive::Task { wcet: Scalar::new(s(c0)), arrivals: &ab, deadline: d(dl0) }, &np_others, d(limit)), edfx(&full, c0 - 1));
    }
    0
}

// ------------------------------------------------------------------------------------------------ ROS 2 analyses
/// least r in [0, limit] with sbf(off + r) >= w(max(r, 1))
fn scan_sbf(sbf: &dyn Fn(u64) -> u64, off: u64, limit: u64, w: &dyn Fn(u64) -> u64) -> Option<u64> {
    let mut r = 0u64;
    while r <= limit { if sbf(off + r) >= w(r.max(1)) { return Some(r); } r += 1; }
    None
}
/// least t with sbf(t) >= demand
fn st_naive(sbf: &dyn Fn(u64) -> u64, demand: u64) -> u64 { let mut t = 0u64; while sbf(t) < demand { t += 1; } t }

#[derive(Clone, Copy, Debug)]
struct Cb { t: u64, j: u64, c: u64, rtb: u64, kind: u8, prio: i32 }   // kind: 0 timer, 1 event source, 2 polled unknown prio, 3 polled(prio)
impl Cb {
    fn na(&self, x: u64) -> u64 { if x == 0 { 0 } else { ceil_div(x + self.j, self.t) } }
    fn is_pp(&self) -> bool { self.kind >= 2 }
    /// number of instances that can interfere given `arrived` and the cap `base` (polling points resp. busy-window arrivals)
    fn capped(&self, eoc: &Cb, arrived: u64, base: u64) -> u64 {
        match self.kind {
            0 | 1 => arrived,
            2 => arrived.min(base + 1),
            _ => if eoc.kind == 3 { arrived.min(base + (self.prio < eoc.prio) as u64) } else { arrived.min(base + 1) },
        }
    }
}
fn ros2_kind(cb: &Cb) -> response_time_analysis::ros2::rr::CallbackType {
    use response_time_analysis::ros2::rr::CallbackType as K;
    match cb.kind { 0 => K::Timer, 1 => K::EventSource, 2 => K::PolledUnknownPrio, _ => K::Polled(cb.prio) }
}

fn check_ros2(seed: u64) -> i32 {
    use response_time_analysis::ros2;
    let mut r = Rng(seed ^ 0x2052);
    for _iter in 0..8000 {
        // supply
        let p = 1 + r.below(6); let q = 1 + r.below(p); let dl = q + r.below(p - q + 1);
        let (sb, pp, qq, dd, sdesc) = supply_case(r.below(3), q, dl, p);
        let sbf = move |t: u64| sbf_spec(pp, qq, dd, t as u128) as u64;
        let limit = 1 + r.below(70);
        // ---------------- rr / bw: callbacks with sporadic arrivals and scalar costs
        let n = 1 + r.below(3) as usize;
        let cbs: Vec<Cb> = (0..n).map(|_| { let t = 3 + r.below(9); Cb { t, j: r.below(t + 2), c: 1 + r.below(3), rtb: r.below(12), kind: r.below(4) as u8, prio: [0, 1, 2, 0, 1, i32::MAX, i32::MIN][r.below(7) as usize] } }).collect();
        let abs: Vec<Sporadic> = cbs.iter().map(|cb| Sporadic::new(d(cb.t), d(cb.j))).collect();
        let cms: Vec<Scalar> = cbs.iter().map(|cb| Scalar::new(s(cb.c))).collect();
        // subchain: one or two distinct callbacks of the workload; the last one is the end of the chain
        let e = r.below(n as u64) as usize;
        let first = r.below(n as u64) as usize;
        let chain: Vec<usize> = if n >= 2 && first != e && r.below(2) == 0 { vec![first, e] } else { vec![e] };
        let eoc = cbs[e];
        let npp: u64 = chain.iter().map(|&i| cbs[i].na(cbs[i].rtb)).sum();
        let mut desc = format!("{{\"supply\": {}, \"limit\": {}, \"callbacks(t,j,c,rtb,kind,prio)\": {:?}, \"subchain\": {:?}}}", sdesc, limit,
                           cbs.iter().map(|c| (c.t, c.j, c.c, c.rtb, c.kind, c.prio)).collect::<Vec<_>>(), chain);
        macro_rules! cmp { ($name:expr, $got:expr, $exp:expr) => {{
            let got = view(&guarded(|| $got)); let exp = $exp;
            if got != Ok(exp) { return fail($name, desc.clone(), format!("{:?}", got), format!("{:?}", exp)); }
        }}}
        {
            let wl: Vec<_> = (0..n).map(|i| ros2::rr::Callback::new(d(cbs[i].rtb), &abs[i], &cms[i], ros2_kind(&cbs[i]))).collect();
            let sc: Vec<&ros2::rr::Callback<Sporadic, Scalar>> = chain.iter().map(|&i| &wl[i]).collect();
            let exp = (|| {
                let w = |x: u64| 1 + (0..n).filter(|&i| i != e).map(|i| { let cb = &cbs[i]; cb.c * cb.capped(&eoc, cb.na((x + cb.rtb).saturating_sub(1)), npp) }).sum::<u64>()
                                   + eoc.c * eoc.na((x + eoc.rtb).saturating_sub(1)).saturating_sub(1);
                let s_star = scan_sbf(&sbf, 0, limit, &w)?;
                Some(st_naive(&sbf, sbf(s_star).saturating_sub(1) + eoc.c))
            })();
            cmp!("ros2::rr::rta_subchain", ros2::rr::rta_subchain(&*sb, &wl, &sc, d(limit)), exp);
        }
        {
            let wl: Vec<_> = (0..n).map(|i| ros2::bw::Callback::new(d(cbs[i].rtb), &abs[i], &cms[i], ros2_kind(&cbs[i]))).collect();
            let sc: Vec<&ros2::bw::Callback<Sporadic, Scalar>> = chain.iter().map(|&i| &wl[i]).collect();
            let exp = (|| {
                let intf = |delta: u64, act: u64| (0..n).filter(|&i| i != e).map(|i| { let cb = &cbs[i]; cb.c * cb.capped(&eoc, cb.na(delta), cb.na(act) + npp) }).sum::<u64>();
                let max_offset = scan_sbf(&sbf, 0, limit, &|ta| 1 + intf(ta, ta) + eoc.c * eoc.na(ta))?;
                let mut best = 0u64;
                for a in 0..max_offset {
                    let is_step = (0..n).any(|i| if i == e { cbs[i].na(a) != cbs[i].na(a + 1) } else { cbs[i].is_pp() && a > 0 && cbs[i].na(a - 1) != cbs[i].na(a) });
                    if !is_step { continue; }
                    let si = eoc.c * eoc.na(a + 1).saturating_sub(1);
                    let s_star = scan_sbf(&sbf, 0, limit, &|x| 1 + intf(x, a) + si)?;
                    let f_star = st_naive(&sbf, sbf(s_star).saturating_sub(1) + eoc.c);
                    best = best.max(if chain.len() == 1 { f_star.saturating_sub(a) } else { f_star });
                }
                Some(best)
            })();
            cmp!("ros2::bw::rta_subchain", ros2::bw::rta_subchain(&*sb, &wl, &sc, d(limit)), exp);
        }
        // ---------------- ECRTS'19: request-bound functions of sporadic tasks
        let mk = |r: &mut Rng, k: usize| -> Vec<(u64, u64, u64)> { (0..k).map(|_| { let t = 3 + r.below(9); (t, r.below(t + 2), 1 + r.below(3)) }).collect() };
        let own = mk(&mut r, 1)[0];
        // cost model of the task under analysis: scalar, or multiframe (least_wcet then depends on the number of jobs)
        let oc: Vec<u64> = if r.below(2) == 0 { vec![own.2] } else { vec![own.2 + 1 + r.below(3), own.2] };
        let k_other = r.below(3) as usize; let others = mk(&mut r, k_other);
        let k_pre = r.below(3) as usize; let prefix = mk(&mut r, k_pre);
        let b = r.below(4);
        let rbf1 = |x: &(u64, u64, u64), dl: u64| if dl == 0 { 0 } else { x.2 * ceil_div(dl + x.1, x.0) };
        let own_na = |dl: u64| if dl == 0 { 0 } else { ceil_div(dl + own.1, own.0) };
        let own_f = |dl: u64| (0..own_na(dl)).map(|i| oc[(i as usize) % oc.len()]).sum::<u64>();
        let sum = |v: &Vec<(u64, u64, u64)>, dl: u64| v.iter().map(|x| rbf1(x, dl)).sum::<u64>();
        let lw_own = |dl: u64| oc.iter().take(own_na(dl) as usize).copied().min().unwrap_or(0);
        let to_rbf = |x: &(u64, u64, u64)| RBF::new(Sporadic::new(d(x.0), d(x.1)), wcet::Multiframe::new(vec![s(x.2)]));
        let own_rbf = RBF::new(Sporadic::new(d(own.0), d(own.1)), wcet::Multiframe::new(oc.iter().map(|c| s(*c)).collect()));
        let other_rbfs: Vec<_> = others.iter().map(to_rbf).collect();
        let prefix_rbfs: Vec<_> = prefix.iter().map(to_rbf).collect();
        let mut full_rbfs = prefix_rbfs.clone(); full_rbfs.push(own_rbf.clone());
        let full_f = |dl: u64| sum(&prefix, dl) + own_f(dl);
        desc = format!("{{\"supply\": {}, \"limit\": {}, \"own(t,j,costs)\": [{}, {}, {:?}], \"interfering\": {:?}, \"chain_prefix\": {:?}, \"blocking\": {}}}", sdesc, limit, own.0, own.1, oc, others, prefix, b);
        // generic evaluator: busy window, then every demand step offset <= max_bw
        let ecrts = |dem: &dyn Fn(u64) -> u64, wb: &dyn Fn(u64) -> u64, w2: &dyn Fn(u64, u64) -> u64| -> Option<u64> {
            let max_bw = scan_sbf(&sbf, 0, limit, wb)?;
            let mut best = 0u64;
            for a in 0..=max_bw {
                if !(dem(a) < dem(a + 1)) { continue; }
                best = best.max(scan_sbf(&sbf, a, limit, &|x| w2(a, x))?);
            }
            Some(best)
        };
        let intf_iv = |a: u64, resp: u64| { let w = lw_own(a + resp); if resp > w { a + resp - w + 1 } else { a + 1 } };
        let all_f = |dl: u64| sum(&others, dl) + own_f(dl);
        let all_rbfs: Vec<_> = { let mut v: Vec<_> = others.iter().map(to_rbf).collect(); v.push(own_rbf.clone()); v };
        cmp!("ros2::rta_event_source", ros2::rta_event_source(&*sb, &demand::Slice::of(&all_rbfs), d(limit)),
             ecrts(&|x| all_f(x), &|x| all_f(x), &|a, _| all_f(a + 1)));
        cmp!("ros2::rta_timer", ros2::rta_timer(&*sb, &own_rbf, &demand::Slice::of(&other_rbfs), s(b), d(limit)),
             ecrts(&|x| own_f(x), &|x| own_f(x) + b + sum(&others, x), &|a, x| own_f(a + 1) + sum(&others, intf_iv(a, x)) + b));
        cmp!("ros2::rta_polling_point_callback", ros2::rta_polling_point_callback(&*sb, &own_rbf, &demand::Slice::of(&other_rbfs), d(limit)),
             ecrts(&|x| own_f(x), &|x| own_f(x) + sum(&others, x), &|a, x| own_f(a + 1) + sum(&others, intf_iv(a, x))));
        cmp!("ros2::rta_processing_chain", ros2::rta_processing_chain(&*sb, &own_rbf, &demand::Slice::of(&prefix_rbfs), &demand::Slice::of(&full_rbfs), &demand::Slice::of(&other_rbfs), d(limit)),
             ecrts(&|x| full_f(x), &|x| full_f(x) + sum(&others, x), &|a, x| own_f(a + 1) + sum(&prefix, intf_iv(a, x)) + sum(&others, intf_iv(a, x))));
    }
    0
}

/// ECRTS'19 analyses on random step tables (not sub-additive): exercises the offsets next to the end of the busy window
fn check_ros2_tab(seed: u64) -> i32 {
    use response_time_analysis::ros2;
    let mut r = Rng(seed ^ 0x20527ab);
    for _ in 0..4000 {
        let p = 1 + r.below(5); let q = 1 + r.below(p); let dl = q + r.below(p - q + 1);
        let (sb, pp, qq, dd, sdesc) = supply_case(r.below(3), q, dl, p);
        let sbf = move |t: u64| sbf_spec(pp, qq, dd, t as u128) as u64;
        let limit = 1 + r.below(50);
        let h = 4 + r.below(12) as usize;
        let own = TabRb::random(&mut r, h, true);
        let other = TabRb::random(&mut r, h, false);
        let b = r.below(3);
        let desc = format!("{{\"supply\": {}, \"limit\": {}, \"own_table\": {:?}, \"interfering_table\": {:?}, \"blocking\": {}}}", sdesc, limit, own.tab, other.tab, b);
        let ecrts = |dem: &dyn Fn(u64) -> u64, wb: &dyn Fn(u64) -> u64, w2: &dyn Fn(u64, u64) -> u64| -> Option<u64> {
            let max_bw = scan_sbf(&sbf, 0, limit, wb)?;
            let mut best = 0u64;
            for a in 0..=max_bw {
                if !(dem(a) < dem(a + 1)) { continue; }
                best = best.max(scan_sbf(&sbf, a, limit, &|x| w2(a, x))?);
            }
            Some(best)
        };
        // least_wcet_in_interval of a table is the constant 1
        let intf_iv = |a: u64, resp: u64| if resp > 1 { a + resp - 1 + 1 } else { a + 1 };
        macro_rules! cmp { ($name:expr, $got:expr, $exp:expr) => {{
            let got = view(&guarded(|| $got)); let exp = $exp;
            if got != Ok(exp) { return fail($name, desc.clone(), format!("{:?}", got), format!("{:?}", exp)); }
        }}}
        cmp!("ros2::rta_event_source", ros2::rta_event_source(&*sb, &own, d(limit)), ecrts(&|x| own.at(x), &|x| own.at(x), &|a, _| own.at(a + 1)));
        cmp!("ros2::rta_timer", ros2::rta_timer(&*sb, &own, &other, s(b), d(limit)),
             ecrts(&|x| own.at(x), &|x| own.at(x) + b + other.at(x), &|a, x| own.at(a + 1) + other.at(intf_iv(a, x)) + b));
        cmp!("ros2::rta_polling_point_callback", ros2::rta_polling_point_callback(&*sb, &own, &other, d(limit)),
             ecrts(&|x| own.at(x), &|x| own.at(x) + other.at(x), &|a, x| own.at(a + 1) + other.at(intf_iv(a, x))));
    }
    0
}

fn check_ros2_bw_all(seed: u64) -> i32 {
    use response_time_analysis::ros2;
    let mut r = Rng(seed ^ 0x2052);
    for _iter in 0..8000 {
        // supply
        let p = 1 + r.below(6); let q = 1 + r.below(p); let dl = q + r.below(p - q + 1);
        let (sb, pp, qq, dd, sdesc) = supply_case(r.below(3), q, dl, p);
        let sbf = move |t: u64| sbf_spec(pp, qq, dd, t as u128) as u64;
        let limit = 1 + r.below(70);
        // ---------------- rr / bw: callbacks with sporadic arrivals and scalar costs
        let n = 1 + r.below(3) as usize;
        let cbs: Vec<Cb> = (0..n).map(|_| { let t = 3 + r.below(9); Cb { t, j: r.below(t + 2), c: 1 + r.below(3), rtb: r.below(12), kind: r.below(4) as u8, prio: [0, 1, 2, 0, 1, i32::MAX, i32::MIN][r.below(7) as usize] } }).collect();
        let abs: Vec<Sporadic> = cbs.iter().map(|cb| Sporadic::new(d(cb.t), d(cb.j))).collect();
        let cms: Vec<Scalar> = cbs.iter().map(|cb| Scalar::new(s(cb.c))).collect();
        // subchain: one or two distinct callbacks of the workload; the last one is the end of the chain
        let e = r.below(n as u64) as usize;
        let first = r.below(n as u64) as usize;
        let chain: Vec<usize> = if n >= 2 && first != e && r.below(2) == 0 { vec![first, e] } else { vec![e] };
        let eoc = cbs[e];
        let npp: u64 = chain.iter().map(|&i| cbs[i].na(cbs[i].rtb)).sum();
        let mut desc = format!("{{\"supply\": {}, \"limit\": {}, \"callbacks(t,j,c,rtb,kind,prio)\": {:?}, \"subchain\": {:?}}}", sdesc, limit,
                           cbs.iter().map(|c| (c.t, c.j, c.c, c.rtb, c.kind, c.prio)).collect::<Vec<_>>(), chain);
        macro_rules! cmp { ($name:expr, $got:expr, $exp:expr) => {{
            let got = view(&guarded(|| $got)); let exp = $exp;
            if got != Ok(exp) { return fail($name, desc.clone(), format!("{:?}", got), format!("{:?}", exp)); }
        }}}
        {
            let wl: Vec<_> = (0..n).map(|i| ros2::rr::Callback::new(d(cbs[i].rtb), &abs[i], &cms[i], ros2_kind(&cbs[i]))).collect();
            let sc: Vec<&ros2::rr::Callback<Sporadic, Scalar>> = chain.iter().map(|&i| &wl[i]).collect();
            let exp = (|| {
                let w = |x: u64| 1 + (0..n).filter(|&i| i != e).map(|i| { let cb = &cbs[i]; cb.c * cb.capped(&eoc, cb.na((x + cb.rtb).saturating_sub(1)), npp) }).sum::<u64>()
                                   + eoc.c * eoc.na((x + eoc.rtb).saturating_sub(1)).saturating_sub(1);
                let s_star = scan_sbf(&sbf, 0, limit, &w)?;
                Some(st_naive(&sbf, sbf(s_star).saturating_sub(1) + eoc.c))
            })();
            cmp!("ros2::rr::rta_subchain", ros2::rr::rta_subchain(&*sb, &wl, &sc, d(limit)), exp);
        }
        {
            let wl: Vec<_> = (0..n).map(|i| ros2::bw::Callback::new(d(cbs[i].rtb), &abs[i], &cms[i], ros2_kind(&cbs[i]))).collect();
            let sc: Vec<&ros2::bw::Callback<Sporadic, Scalar>> = chain.iter().map(|&i| &wl[i]).collect();
            let exp = (|| {
                let intf = |delta: u64, act: u64| (0..n).filter(|&i| i != e).map(|i| { let cb = &cbs[i]; cb.c * cb.capped(&eoc, cb.na(delta), cb.na(act) + npp) }).sum::<u64>();
                let max_offset = scan_sbf(&sbf, 0, limit, &|ta| 1 + intf(ta, ta) + eoc.c * eoc.na(ta))?;
                let mut best = 0u64;
                for a in 0..max_offset {
                    let is_step = (0..n).any(|i| if i == e { cbs[i].na(a) != cbs[i].na(a + 1) } else { cbs[i].is_pp() && a > 0 && cbs[i].na(a - 1) != cbs[i].na(a) });
                    let _ = is_step;
                    let si = eoc.c * eoc.na(a + 1).saturating_sub(1);
                    let s_star = scan_sbf(&sbf, 0, limit, &|x| 1 + intf(x, a) + si)?;
                    let f_star = st_naive(&sbf, sbf(s_star).saturating_sub(1) + eoc.c);
                    best = best.max(if chain.len() == 1 { f_star.saturating_sub(a) } else { f_star });
                }
                Some(best)
            })();
            cmp!("ros2::bw::rta_subchain(every offset)", ros2::bw::rta_subchain(&*sb, &wl, &sc, d(limit)), exp);
        }
        // ---------------- ECRTS'19: request-bound functions of sporadic tasks
        let mk = |r: &mut Rng, k: usize| -> Vec<(u64, u64, u64)> { (0..k).map(|_| { let t = 3 + r.below(9); (t, r.below(t + 2), 1 + r.below(3)) }).collect() };
        let own = mk(&mut r, 1)[0];
        // cost model of the task under analysis: scalar, or multiframe (least_wcet then depends on the number of jobs)
        let oc: Vec<u64> = if r.below(2) == 0 { vec![own.2] } else { vec![own.2 + 1 + r.below(3), own.2] };
        let k_other = r.below(3) as usize; let others = mk(&mut r, k_other);
        let k_pre = r.below(3) as usize; let prefix = mk(&mut r, k_pre);
        let b = r.below(4);
        let rbf1 = |x: &(u64, u64, u64), dl: u64| if dl == 0 { 0 } else { x.2 * ceil_div(dl + x.1, x.0) };
        let own_na = |dl: u64| if dl == 0 { 0 } else { ceil_div(dl + own.1, own.0) };
        let own_f = |dl: u64| (0..own_na(dl)).map(|i| oc[(i as usize) % oc.len()]).sum::<u64>();
        let sum = |v: &Vec<(u64, u64, u64)>, dl: u64| v.iter().map(|x| rbf1(x, dl)).sum::<u64>();
        let lw_own = |dl: u64| oc.iter().take(own_na(dl) as usize).copied().min().unwrap_or(0);
        let to_rbf = |x: &(u64, u64, u64)| RBF::new(Sporadic::new(d(x.0), d(x.1)), wcet::Multiframe::new(vec![s(x.2)]));
        let own_rbf = RBF::new(Sporadic::new(d(own.0), d(own.1)), wcet::Multiframe::new(oc.iter().map(|c| s(*c)).collect()));
        let other_rbfs: Vec<_> = others.iter().map(to_rbf).collect();
        let prefix_rbfs: Vec<_> = prefix.iter().map(to_rbf).collect();
        let mut full_rbfs = prefix_rbfs.clone(); full_rbfs.push(own_rbf.clone());
        let full_f = |dl: u64| sum(&prefix, dl) + own_f(dl);
        desc = format!("{{\"supply\": {}, \"limit\": {}, \"own(t,j,costs)\": [{}, {}, {:?}], \"interfering\": {:?}, \"chain_prefix\": {:?}, \"blocking\": {}}}", sdesc, limit, own.0, own.1, oc, others, prefix, b);
        // generic evaluator: busy window, then every demand step offset <= max_bw
        let ecrts = |dem: &dyn Fn(u64) -> u64, wb: &dyn Fn(u64) -> u64, w2: &dyn Fn(u64, u64) -> u64| -> Option<u64> {
            let max_bw = scan_sbf(&sbf, 0, limit, wb)?;
            let mut best = 0u64;
            for a in 0..=max_bw {
                if !(dem(a) < dem(a + 1)) { continue; }
                best = best.max(scan_sbf(&sbf, a, limit, &|x| w2(a, x))?);
            }
            Some(best)
        };
        let intf_iv = |a: u64, resp: u64| { let w = lw_own(a + resp); if resp > w { a + resp - w + 1 } else { a + 1 } };
        let all_f = |dl: u64| sum(&others, dl) + own_f(dl);
        let all_rbfs: Vec<_> = { let mut v: Vec<_> = others.iter().map(to_rbf).collect(); v.push(own_rbf.clone()); v };
        cmp!("ros2::rta_event_source", ros2::rta_event_source(&*sb, &demand::Slice::of(&all_rbfs), d(limit)),
             ecrts(&|x| all_f(x), &|x| all_f(x), &|a, _| all_f(a + 1)));
        cmp!("ros2::rta_timer", ros2::rta_timer(&*sb, &own_rbf, &demand::Slice::of(&other_rbfs), s(b), d(limit)),
             ecrts(&|x| own_f(x), &|x| own_f(x) + b + sum(&others, x), &|a, x| own_f(a + 1) + sum(&others, intf_iv(a, x)) + b));
        cmp!("ros2::rta_polling_point_callback", ros2::rta_polling_point_callback(&*sb, &own_rbf, &demand::Slice::of(&other_rbfs), d(limit)),
             ecrts(&|x| own_f(x), &|x| own_f(x) + sum(&others, x), &|a, x| own_f(a + 1) + sum(&others, intf_iv(a, x))));
        cmp!("ros2::rta_processing_chain", ros2::rta_processing_chain(&*sb, &own_rbf, &demand::Slice::of(&prefix_rbfs), &demand::Slice::of(&full_rbfs), &demand::Slice::of(&other_rbfs), d(limit)),
             ecrts(&|x| full_f(x), &|x| full_f(x) + sum(&others, x), &|a, x| own_f(a + 1) + sum(&prefix, intf_iv(a, x)) + sum(&others, intf_iv(a, x))));
    }
    0
}

/// C07 as stated: "over EVERY offset up to the maximum busy window" (not only the demand steps the code enumerates).
/// mode 0: scalar cost of the task under analysis; mode 1: multiframe cost (least_wcet depends on the number of jobs)
fn check_ros2_all(seed: u64, mode: u64) -> i32 {
    use response_time_analysis::ros2;
    let mut r = Rng(seed ^ 0xa110ff);
    for _iter in 0..3000 {
        let p = 1 + r.below(10); let q = 1 + r.below(p); let dl = q + r.below(p - q + 1);
        let (sb, pp, qq, dd, sdesc) = supply_case(r.below(3), q, dl, p);
        let sbf = move |t: u64| sbf_spec(pp, qq, dd, t as u128) as u64;
        let limit = if r.below(3) == 0 { 1 + r.below(70) } else { 300 };
        let t0 = 3 + r.below(28); let j0 = if r.below(2) == 0 { r.below(21) } else { 0 };
        let costs: Vec<u64> = if mode == 0 { vec![1 + r.below(4)] } else { let mut c: Vec<u64> = (0..2 + r.below(2)).map(|_| 1 + r.below(5)).collect(); if r.below(2) == 0 { c.sort(); c.reverse(); } c };
        let k_other = r.below(3) as usize;
        let others: Vec<(u64, u64, u64)> = (0..k_other).map(|_| { let t = 3 + r.below(28); (t, if r.below(2) == 0 { r.below(21) } else { 0 }, 1 + r.below(5)) }).collect();
        let b = r.below(4);
        let na0 = |x: u64| if x == 0 { 0 } else { ceil_div(x + j0, t0) };
        let cost0 = |n: u64| (0..n).map(|i| costs[(i as usize) % costs.len()]).sum::<u64>();
        let lw0 = |n: u64| costs.iter().take(n as usize).copied().min().unwrap_or(0);
        let own = |x: u64| cost0(na0(x));
        let lw_own = |x: u64| lw0(na0(x));
        let rbf1 = |x: &(u64, u64, u64), dl: u64| if dl == 0 { 0 } else { x.2 * ceil_div(dl + x.1, x.0) };
        let sum = |v: &Vec<(u64, u64, u64)>, dl: u64| v.iter().map(|x| rbf1(x, dl)).sum::<u64>();
        let own_rbf = RBF::new(Sporadic::new(d(t0), d(j0)), wcet::Multiframe::new(costs.iter().map(|c| s(*c)).collect()));
        let other_rbfs: Vec<_> = others.iter().map(|x| RBF::new(Sporadic::new(d(x.0), d(x.1)), Scalar::new(s(x.2)))).collect();
        let desc = format!("{{\"supply\": {}, \"limit\": {}, \"own(t,j,costs)\": [{}, {}, {:?}], \"interfering(t,j,c)\": {:?}, \"blocking\": {}}}", sdesc, limit, t0, j0, costs, others, b);
        let intf_iv = |a: u64, resp: u64| { let w = lw_own(a + resp); if resp > w { a + resp - w + 1 } else { a + 1 } };
        let every = |wb: &dyn Fn(u64) -> u64, w2: &dyn Fn(u64, u64) -> u64| -> Option<u64> {
            let max_bw = scan_sbf(&sbf, 0, limit, wb)?;
            let mut best = 0u64;
            for a in 0..=max_bw { best = best.max(scan_sbf(&sbf, a, limit, &|x| w2(a, x))?); }
            Some(best)
        };
        macro_rules! cmp { ($name:expr, $got:expr, $exp:expr) => {{
            let got = view(&guarded(|| $got)); let exp = $exp;
            if got != Ok(exp) { return fail($name, desc.clone(), format!("{:?}", got), format!("{:?}", exp)); }
        }}}
        cmp!("ros2::rta_timer(every offset)", ros2::rta_timer(&*sb, &own_rbf, &demand::Slice::of(&other_rbfs), s(b), d(limit)),
             every(&|x| own(x) + b + sum(&others, x), &|a, x| own(a + 1) + sum(&others, intf_iv(a, x)) + b));
        cmp!("ros2::rta_polling_point_callback(every offset)", ros2::rta_polling_point_callback(&*sb, &own_rbf, &demand::Slice::of(&other_rbfs), d(limit)),
             every(&|x| own(x) + sum(&others, x), &|a, x| own(a + 1) + sum(&others, intf_iv(a, x))));
    }
    0
}
fn check_ros2_all_scalar(seed: u64) -> i32 { check_ros2_all(seed, 0) }
fn check_ros2_all_multiframe(seed: u64) -> i32 { check_ros2_all(seed, 1) }

/// C17 on the ROS 2 analyses (scalar costs): a single-parameter hardening never lowers a bound and never turns Err into Ok
fn check_ros2_mono(seed: u64) -> i32 {
    use response_time_analysis::ros2;
    let mut r = Rng(seed ^ 0x3030);
    let le = |a: &Result<Option<u64>, String>, b: &Result<Option<u64>, String>| -> bool {
        match (a, b) { (Ok(_), Ok(None)) => true, (Ok(None), Ok(Some(_))) => false, (Ok(Some(x)), Ok(Some(y))) => x <= y, _ => false }
    };
    for _iter in 0..3000 {
        let p = 1 + r.below(6); let q = 1 + r.below(p); let dl = q + r.below(p - q + 1);
        let kind = r.below(3);
        let limit = 1 + r.below(80);
        let n = 1 + r.below(3) as usize;
        let cbs: Vec<Cb> = (0..n).map(|_| { let t = 3 + r.below(9); Cb { t, j: r.below(t + 2), c: 1 + r.below(3), rtb: r.below(12), kind: r.below(4) as u8, prio: [0, 1, 2, 0, 1, i32::MAX, i32::MIN][r.below(7) as usize] } }).collect();
        let e = r.below(n as u64) as usize;
        let first = r.below(n as u64) as usize;
        let chain: Vec<usize> = if n >= 2 && first != e && r.below(2) == 0 { vec![first, e] } else { vec![e] };
        // the hardening
        let which = r.below(7); let victim = r.below(n as u64) as usize;
        let mut hard = cbs.clone(); let mut hq = q; let mut hlimit = limit; let mut extra: Option<Cb> = None;
        match which {
            0 => hard[victim].c += 1,
            1 => hard[victim].j += 1 + r.below(3),
            2 => if hard[victim].t > 1 { hard[victim].t -= 1 },
            3 => { let t = 3 + r.below(9); extra = Some(Cb { t, j: r.below(t + 2), c: 1 + r.below(3), rtb: r.below(12), kind: r.below(4) as u8, prio: [0, 1, 2, 0, 1, i32::MAX, i32::MIN][r.below(7) as usize] }); }
            4 => if hq > 1 { hq -= 1 },                   // less budget: less supply in every window
            5 => hard[victim].rtb += 1 + r.below(3),      // larger assumed response-time bound of a callback
            _ => hlimit += 1 + r.below(20),               // raising the limit must not change an Ok result
        }
        let run = |cbs: &Vec<Cb>, extra: &Option<Cb>, q: u64, limit: u64, bw: bool| -> Result<Option<u64>, String> {
            let dl2 = dl.max(q).min(p);
            let (sb, _, _, _, _) = supply_case(kind, q, dl2.max(q), p);
            let mut all = cbs.clone(); if let Some(x) = extra { all.push(*x); }
            let abs: Vec<Sporadic> = all.iter().map(|cb| Sporadic::new(d(cb.t), d(cb.j))).collect();
            let cms: Vec<Scalar> = all.iter().map(|cb| Scalar::new(s(cb.c))).collect();
            if bw {
                let wl: Vec<_> = (0..all.len()).map(|i| ros2::bw::Callback::new(d(all[i].rtb), &abs[i], &cms[i], ros2_kind(&all[i]))).collect();
                let sc: Vec<&ros2::bw::Callback<Sporadic, Scalar>> = chain.iter().map(|&i| &wl[i]).collect();
                view(&guarded(|| ros2::bw::rta_subchain(&*sb, &wl, &sc, d(limit))))
            } else {
                let wl: Vec<_> = (0..all.len()).map(|i| ros2::rr::Callback::new(d(all[i].rtb), &abs[i], &cms[i], ros2_kind(&all[i]))).collect();
                let sc: Vec<&ros2::rr::Callback<Sporadic, Scalar>> = chain.iter().map(|&i| &wl[i]).collect();
                view(&guarded(|| ros2::rr::rta_subchain(&*sb, &wl, &sc, d(limit))))
            }
        };
        // ECRTS'19 analyses: task under analysis = callback 0, the rest interfere / form the chain prefix
        {
            let run_e = |cbs: &Vec<Cb>, extra: &Option<Cb>, q: u64, limit: u64, b: u64, which_a: usize| -> Result<Option<u64>, String> {
                let (sb, _, _, _, _) = supply_case(kind, q, dl.max(q).min(p).max(q), p);
                let mut all = cbs.clone(); if let Some(x) = extra { all.push(*x); }
                let to_rbf = |c: &Cb| RBF::new(Sporadic::new(d(c.t), d(c.j)), Scalar::new(s(c.c)));
                let own = to_rbf(&all[0]);
                let rest: Vec<_> = all[1..].iter().map(to_rbf).collect();
                let everything: Vec<_> = all.iter().map(to_rbf).collect();
                match which_a {
                    0 => view(&guarded(|| ros2::rta_event_source(&*sb, &demand::Slice::of(&everything), d(limit)))),
                    1 => view(&guarded(|| ros2::rta_timer(&*sb, &own, &demand::Slice::of(&rest), s(b), d(limit)))),
                    2 => view(&guarded(|| ros2::rta_polling_point_callback(&*sb, &own, &demand::Slice::of(&rest), d(limit)))),
                    _ => { let none: Vec<RBF<Sporadic, Scalar>> = vec![];   // chain: last = own, prefix = the rest, nobody else
                           view(&guarded(|| ros2::rta_processing_chain(&*sb, &own, &demand::Slice::of(&rest), &demand::Slice::of(&everything), &demand::Slice::of(&none), d(limit)))) }
                }
            };
            let b = r.below(3); let hb = if which == 5 { b + 1 } else { b };   // for these analyses hardening 5 raises the blocking bound
            let mut hard_e = hard.clone(); if which == 5 { hard_e[victim].rtb = cbs[victim].rtb; }
            for which_a in 0..4usize {
                let base = run_e(&cbs, &None, q, limit, b, which_a);
                let hd = run_e(&hard_e, &extra, hq, hlimit, hb, which_a);
                let ok = if which == 6 { match (&base, &hd) { (Ok(Some(x)), Ok(y)) => *y == Some(*x), (Ok(None), Ok(_)) => true, _ => false } } else { le(&base, &hd) };
                if !ok {
                    let desc = format!("{{\"analysis\": \"ecrts19 #{}\", \"supply_kind\": {}, \"budget\": {}, \"deadline\": {}, \"period\": {}, \"limit\": {}, \"tasks(t,j,c)\": {:?}, \"blocking\": {}, \"hardening\": {}, \"victim\": {}, \"hardened\": {:?}, \"extra\": {:?}, \"hardened_budget\": {}, \"hardened_limit\": {}, \"hardened_blocking\": {}}}",
                        which_a, kind, q, dl, p, limit, cbs.iter().map(|c| (c.t, c.j, c.c)).collect::<Vec<_>>(), b, which, victim,
                        hard_e.iter().map(|c| (c.t, c.j, c.c)).collect::<Vec<_>>(), extra.map(|c| (c.t, c.j, c.c)), hq, hlimit, hb);
                    return fail("ros2::monotonicity", desc, format!("hardened: {:?}", hd), format!(">= base: {:?}", base));
                }
            }
        }
        for bw in [false, true] {
            let base = run(&cbs, &None, q, limit, bw);
            let hd = run(&hard, &extra, hq, hlimit, bw);
            let ok = if which == 6 { match (&base, &hd) { (Ok(Some(x)), Ok(y)) => *y == Some(*x), (Ok(None), Ok(_)) => true, _ => false } } else { le(&base, &hd) };
            if !ok {
                let desc = format!("{{\"analysis\": \"{}\", \"supply_kind\": {}, \"budget\": {}, \"deadline\": {}, \"period\": {}, \"limit\": {}, \"callbacks(t,j,c,rtb,kind,prio)\": {:?}, \"subchain\": {:?}, \"hardening\": {}, \"victim\": {}, \"hardened\": {:?}, \"extra\": {:?}, \"hardened_budget\": {}, \"hardened_limit\": {}}}",
                    if bw { "bw" } else { "rr" }, kind, q, dl, p, limit, cbs.iter().map(|c| (c.t, c.j, c.c, c.rtb, c.kind, c.prio)).collect::<Vec<_>>(), chain, which, victim,
                    hard.iter().map(|c| (c.t, c.j, c.c, c.rtb, c.kind, c.prio)).collect::<Vec<_>>(), extra.map(|c| (c.t, c.j, c.c, c.rtb, c.kind, c.prio)), hq, hlimit);
                return fail("ros2::monotonicity", desc, format!("hardened: {:?}", hd), format!(">= base: {:?}", base));
            }
        }
    }
    0
}

/// C19 on the real functions: analyses that model the same system return identical results
fn check_coincide(seed: u64) -> i32 {
    use response_time_analysis::ros2;
    let mut r = Rng(seed ^ 0xc019);
    for _iter in 0..2500 {
        let t0 = 2 + r.below(8); let j0 = r.below(2 * t0 + 1); let c0 = 1 + r.below(3);
        let nhp = r.below(3) as usize;
        let hp: Vec<(u64, u64, u64)> = (0..nhp).map(|_| { let t = 2 + r.below(9); (t, r.below(t + 3), 1 + r.below(3)) }).collect();
        let b = r.below(4); let limit = 1 + r.below(70);
        let ab = Sporadic::new(d(t0), d(j0));
        let tua_rbf = RBF::new(ab, Scalar::new(s(c0)));
        let hps: Vec<_> = hp.iter().map(|(t, j, c)| RBF::new(Sporadic::new(d(*t), d(*j)), Scalar::new(s(*c)))).collect();
        let mut desc = format!("{{\"tua\": [{}, {}, {}], \"others\": {:?}, \"blocking\": {}, \"limit\": {}}}", t0, j0, c0, hp, b, limit);
        macro_rules! same { ($name:expr, $a:expr, $b:expr) => {{
            let x = view(&guarded(|| $a)); let y = view(&guarded(|| $b));
            if x != y || x.is_err() { return fail($name, desc.clone(), format!("{:?}", x), format!("{:?}", y)); }
        }}}
        use fixed_priority as fp;
        same!("coincide::LP-FP(last=1,B=0)==FP", fp::limited_preemptive::dedicated_uniproc_rta(&fp::limited_preemptive::TaskUnderAnalysis { wcet: Scalar::new(s(c0)), arrivals: &ab, last_np_segment: s(1), blocking_bound: s(0) }, &hps, d(limit)),
              fp::fully_preemptive::dedicated_uniproc_rta(&tua_rbf, &hps, d(limit)));
        same!("coincide::LP-FP(last=C)==NP-FP", fp::limited_preemptive::dedicated_uniproc_rta(&fp::limited_preemptive::TaskUnderAnalysis { wcet: Scalar::new(s(c0)), arrivals: &ab, last_np_segment: s(c0), blocking_bound: s(b) }, &hps, d(limit)),
              fp::fully_nonpreemptive::dedicated_uniproc_rta(&fp::fully_nonpreemptive::TaskUnderAnalysis { wcet: Scalar::new(s(c0)), arrivals: &ab, blocking_bound: s(b) }, &hps, d(limit)));
        same!("coincide::floating-FP==LP-FP(last=1)", fp::floating_nonpreemptive::dedicated_uniproc_rta(&fp::floating_nonpreemptive::TaskUnderAnalysis { rbf: &tua_rbf, blocking_bound: s(b) }, &hps, d(limit)),
              fp::limited_preemptive::dedicated_uniproc_rta(&fp::limited_preemptive::TaskUnderAnalysis { wcet: Scalar::new(s(c0)), arrivals: &ab, last_np_segment: s(1), blocking_bound: s(b) }, &hps, d(limit)));
        // EDF family
        let dl0 = 1 + r.below(3 * t0);
        let dls: Vec<u64> = hp.iter().map(|(t, _, _)| 1 + r.below(3 * t)).collect();
        let segs: Vec<u64> = hp.iter().map(|(_, _, c)| 1 + r.below(*c)).collect();
        desc = format!("{{\"tua\": [{}, {}, {}, {}], \"others\": {:?}, \"deadlines\": {:?}, \"segments\": {:?}, \"limit\": {}}}", t0, j0, c0, dl0, hp, dls, segs, limit);
        let fl = |sg: &Vec<u64>| -> Vec<edf::floating_nonpreemptive::InterferingTask<RBF<Sporadic, Scalar>>> { hps.iter().zip(dls.iter()).zip(sg.iter()).map(|((rb, dl), x)| edf::floating_nonpreemptive::InterferingTask { rbf: rb, deadline: d(*dl), max_np_segment: s(*x) }).collect() };
        let lp = |sg: &Vec<u64>| -> Vec<edf::limited_preemptive::InterferingTask<RBF<Sporadic, Scalar>>> { hps.iter().zip(dls.iter()).zip(sg.iter()).map(|((rb, dl), x)| edf::limited_preemptive::InterferingTask { rbf: rb, deadline: d(*dl), max_np_segment: s(*x) }).collect() };
        let ones: Vec<u64> = hp.iter().map(|_| 1).collect();
        let full: Vec<u64> = hp.iter().map(|(_, _, c)| *c).collect();
        let pre: Vec<_> = hps.iter().zip(dls.iter()).map(|(rb, dl)| edf::fully_preemptive::Task { rbf: rb, deadline: d(*dl) }).collect();
        let lp_tua = |last: u64| edf::limited_preemptive::TaskUnderAnalysis { wcet: Scalar::new(s(c0)), arrivals: &ab, deadline: d(dl0), last_np_segment: s(last) };
        same!("coincide::floating-EDF==LP-EDF(last=1)", edf::floating_nonpreemptive::dedicated_uniproc_rta(&edf::floating_nonpreemptive::TaskUnderAnalysis { rbf: &tua_rbf, deadline: d(dl0) }, &fl(&segs), d(limit)),
              edf::limited_preemptive::dedicated_uniproc_rta(&lp_tua(1), &lp(&segs), d(limit)));
        same!("coincide::LP-EDF(all segments 1)==EDF", edf::limited_preemptive::dedicated_uniproc_rta(&lp_tua(1), &lp(&ones), d(limit)),
              edf::fully_preemptive::dedicated_uniproc_rta(&edf::fully_preemptive::Task { rbf: &tua_rbf, deadline: d(dl0) }, &pre, d(limit)));
        let np_abs: Vec<Sporadic> = hp.iter().map(|(t, j, _)| Sporadic::new(d(*t), d(*j))).collect();
        let np_others: Vec<_> = np_abs.iter().zip(hp.iter()).zip(dls.iter()).map(|((a, (_, _, c)), dl)| edf::fully_nonpreemptive::Task { wcet: Scalar::new(s(*c)), arrivals: a, deadline: d(*dl) }).collect();
        same!("coincide::LP-EDF(last=C,segments=WCETs)==NP-EDF", edf::limited_preemptive::dedicated_uniproc_rta(&lp_tua(c0), &lp(&full), d(limit)),
              edf::fully_nonpreemptive::dedicated_uniproc_rta(&edf::fully_nonpreemptive::Task { wcet: Scalar::new(s(c0)), arrivals: &ab, deadline: d(dl0) }, &np_others, d(limit)));
        // equal deadlines: the largest NP-EDF bound == FIFO (tasks that can release: jitter-free first arrival always exists for sporadic)
        {
            let mut all: Vec<(u64, u64, u64)> = hp.clone(); all.push((t0, j0, c0));
            let abs: Vec<Sporadic> = all.iter().map(|(t, j, _)| Sporadic::new(d(*t), d(*j))).collect();
            let dd = 1 + r.below(30);
            let mut best: Result<Option<u64>, String> = Ok(Some(0));
            for i in 0..all.len() {
                let others: Vec<_> = (0..all.len()).filter(|k| *k != i).map(|k| edf::fully_nonpreemptive::Task { wcet: Scalar::new(s(all[k].2)), arrivals: &abs[k], deadline: d(dd) }).collect();
                let ri = view(&guarded(|| edf::fully_nonpreemptive::dedicated_uniproc_rta(&edf::fully_nonpreemptive::Task { wcet: Scalar::new(s(all[i].2)), arrivals: &abs[i], deadline: d(dd) }, &others, d(limit))));
                best = match (best, ri) { (Ok(Some(x)), Ok(Some(y))) => Ok(Some(x.max(y))), (Err(e), _) | (_, Err(e)) => Err(e), _ => Ok(None) };
            }
            let rbfs: Vec<_> = all.iter().map(|(t, j, c)| RBF::new(Sporadic::new(d(*t), d(*j)), Scalar::new(s(*c)))).collect();
            let ff = view(&guarded(|| fifo::dedicated_uniproc_rta(&demand::Slice::of(&rbfs), d(limit))));
            desc = format!("{{\"tasks\": {:?}, \"common deadline\": {}, \"limit\": {}}}", all, dd, limit);
            if best != ff || ff.is_err() { return fail("coincide::max NP-EDF(equal deadlines)==FIFO", desc.clone(), format!("{:?}", best), format!("{:?}", ff)); }
            // event source == FIFO on a dedicated processor
            same!("coincide::event-source==FIFO", ros2::rta_event_source(&supply::Dedicated::new(), &demand::Slice::of(&rbfs), d(limit)), fifo::dedicated_uniproc_rta(&demand::Slice::of(&rbfs), d(limit)));
            // full-budget reservations behave like a dedicated processor
            let pp = 1 + r.below(7);
            let per = supply::Periodic::new(s(pp), d(pp)); let con = supply::Constrained::new(s(pp), d(pp), d(pp)); let ded = supply::Dedicated::new();
            let own = rbfs[rbfs.len() - 1].clone(); let rest: Vec<_> = rbfs[..rbfs.len() - 1].to_vec();
            desc = format!("{{\"tasks\": {:?}, \"reservation period\": {}, \"blocking\": {}, \"limit\": {}}}", all, pp, b, limit);
            same!("coincide::event-source periodic(Q=P)", ros2::rta_event_source(&per, &demand::Slice::of(&rbfs), d(limit)), ros2::rta_event_source(&ded, &demand::Slice::of(&rbfs), d(limit)));
            same!("coincide::event-source constrained(Q=D=P)", ros2::rta_event_source(&con, &demand::Slice::of(&rbfs), d(limit)), ros2::rta_event_source(&ded, &demand::Slice::of(&rbfs), d(limit)));
            same!("coincide::timer periodic(Q=P)", ros2::rta_timer(&per, &own, &demand::Slice::of(&rest), s(b), d(limit)), ros2::rta_timer(&ded, &own, &demand::Slice::of(&rest), s(b), d(limit)));
            same!("coincide::timer constrained(Q=D=P)", ros2::rta_timer(&con, &own, &demand::Slice::of(&rest), s(b), d(limit)), ros2::rta_timer(&ded, &own, &demand::Slice::of(&rest), s(b), d(limit)));
            same!("coincide::polling-point periodic(Q=P)", ros2::rta_polling_point_callback(&per, &own, &demand::Slice::of(&rest), d(limit)), ros2::rta_polling_point_callback(&ded, &own, &demand::Slice::of(&rest), d(limit)));
            same!("coincide::chain constrained(Q=D=P)", ros2::rta_processing_chain(&con, &own, &demand::Slice::of(&rest), &demand::Slice::of(&rbfs), &demand::Slice::of(&rest[..0]), d(limit)),
                  ros2::rta_processing_chain(&ded, &own, &demand::Slice::of(&rest), &demand::Slice::of(&rbfs), &demand::Slice::of(&rest[..0]), d(limit)));
            // rr / bw
            let cbs: Vec<Cb> = all.iter().map(|(t, j, c)| Cb { t: *t, j: *j, c: *c, rtb: r.below(12), kind: r.below(4) as u8, prio: [0, 1, 2, 0, 1, i32::MAX, i32::MIN][r.below(7) as usize] }).collect();
            let cms: Vec<Scalar> = cbs.iter().map(|cb| Scalar::new(s(cb.c))).collect();
            let e = r.below(cbs.len() as u64) as usize;
            {
                let wl: Vec<_> = (0..cbs.len()).map(|i| ros2::rr::Callback::new(d(cbs[i].rtb), &abs[i], &cms[i], ros2_kind(&cbs[i]))).collect();
                let sc = vec![&wl[e]];
                same!("coincide::rr periodic(Q=P)", ros2::rr::rta_subchain(&per, &wl, &sc, d(limit)), ros2::rr::rta_subchain(&ded, &wl, &sc, d(limit)));
                same!("coincide::rr constrained(Q=D=P)", ros2::rr::rta_subchain(&con, &wl, &sc, d(limit)), ros2::rr::rta_subchain(&ded, &wl, &sc, d(limit)));
            }
            {
                let wl: Vec<_> = (0..cbs.len()).map(|i| ros2::bw::Callback::new(d(cbs[i].rtb), &abs[i], &cms[i], ros2_kind(&cbs[i]))).collect();
                let sc = vec![&wl[e]];
                same!("coincide::bw periodic(Q=P)", ros2::bw::rta_subchain(&per, &wl, &sc, d(limit)), ros2::bw::rta_subchain(&ded, &wl, &sc, d(limit)));
                same!("coincide::bw constrained(Q=D=P)", ros2::bw::rta_subchain(&con, &wl, &sc, d(limit)), ros2::bw::rta_subchain(&ded, &wl, &sc, d(limit)));
            }
        }
    }
    0
}

fn mk_ab(r: &mut Rng) -> (Box<dyn ArrivalBound>, String) {
    match r.below(8) {
        0 => { let t = 1 + r.below(12); (Box::new(Periodic::new(d(t))), format!("Periodic({})", t)) }
        1 => { let t = 1 + r.below(12); let j = r.below(3 * t); (Box::new(Sporadic::new(d(t), d(j))), format!("Sporadic({},{})", t, j)) }
        // (delta-min prefixes that end in a plateau are left out: number_arrivals and steps_iter disagree there, known finding KF5)
        2 => { let a = r.below(4); let b = 2 * a + r.below(4); let c = a + b + 1 + r.below(5);   /* super-additive: only such prefixes are realisable */ (Box::new(Curve::new(vec![d(a), d(b), d(c)])), format!("Curve[{},{},{}]", a, b, c)) }
        3 => { let a = 1 + r.below(4); let b = 2 * a + r.below(4); let c = a + b + 1 + r.below(5); (Box::new(arrival::ExtrapolatingCurve::new(Curve::new(vec![d(a), d(b), d(c)]))), format!("ExtrapolatingCurve[{},{},{}]", a, b, c)) }
        4 => { let t = 1 + r.below(12); let j = r.below(20); (Box::new(Propagated::with_jitter(&Sporadic::new(d(t), d(0)), d(j))), format!("Propagated(Sporadic({},0),{})", t, j)) }
        5 => { let t = 2 + r.below(9); let t2 = 2 + r.below(9); (Box::new(arrival::sum_of(Periodic::new(d(t)), Sporadic::new(d(t2), d(r.below(5))))), format!("sum_of(Periodic({}),Sporadic({},..))", t, t2)) }
        6 => (Box::new(arrival::Never {}), "Never".to_string()),
        _ => { let t = 2 + r.below(9); (Sporadic::new(d(t), d(1)).clone_with_jitter(d(r.below(7))), format!("Sporadic({},1).clone_with_jitter", t)) }
    }
}
fn mk_cm(r: &mut Rng) -> (Box<dyn JobCostModel>, String) {
    match r.below(4) {
        0 => { let c = 1 + r.below(4); (Box::new(Scalar::new(s(c))), format!("Scalar({})", c)) }
        1 => { let v: Vec<u64> = (0..1 + r.below(3)).map(|_| 1 + r.below(4)).collect(); (Box::new(wcet::Multiframe::new(v.iter().map(|x| s(*x)).collect())), format!("Multiframe{:?}", v)) }
        2 => { let a = 1 + r.below(3); let b = a + r.below(3); let c = b + r.below(3); (Box::new(wcet::Curve::new(vec![s(a), s(b), s(c)])), format!("wcet::Curve[{},{},{}]", a, b, c)) }
        _ => { let a = 1 + r.below(3); let b = a + 1 + r.below(2); let c = b + 1 + r.below(2); (Box::new(wcet::ExtrapolatingCurve::new(wcet::Curve::new(vec![s(a), s(b), s(c)]))), format!("wcet::ExtrapolatingCurve[{},{},{}]", a, b, c)) }
    }
}

/// nested compositions of the basic models
fn mk_ab_nested(r: &mut Rng, depth: u32) -> (Box<dyn ArrivalBound>, String) {
    if depth == 0 || r.below(3) == 0 { return mk_ab(r); }
    match r.below(4) {
        0 => { let (a, da) = mk_ab_nested(r, depth - 1); let (b, db) = mk_ab_nested(r, depth - 1); (Box::new(arrival::sum_of(a, b)), format!("sum_of({}, {})", da, db)) }
        1 => { let k = 1 + r.below(3); let mut v = vec![]; let mut ds = vec![]; for _ in 0..k { let (a, da) = mk_ab_nested(r, depth - 1); v.push(a); ds.push(da); } (Box::new(v), format!("vec[{}]", ds.join(", "))) }
        2 => { let (a, da) = mk_ab_nested(r, depth - 1); let j = r.below(9); (a.clone_with_jitter(d(j)), format!("{}.clone_with_jitter({})", da, j)) }
        _ => { let (a, da) = mk_ab_nested(r, depth - 1); let j = r.below(9); let j2 = r.below(5); (a.clone_with_jitter(d(j)).clone_with_jitter(d(j2)), format!("{}.clone_with_jitter({}).clone_with_jitter({})", da, j, j2)) }
    }
}
/// C20 / C10 / C11 / C14 / C16 (model queries, checked build): every query of every (nested) model returns without panicking;
/// number_arrivals is 0 at 0 and non-decreasing; steps are >= 1 and strictly increasing; costs are monotone and
/// cost_of_jobs(n) is the sum of the first n job costs; an RBF's job_cost_iter sums to service_needed
fn check_queries(seed: u64) -> i32 {
    let mut r = Rng(seed ^ 0x9e11e5);
    for _ in 0..240 {
        let (ab, da) = mk_ab_nested(&mut r, 2);
        // (here also multiframe models with zero-cost frames: a frame that costs nothing is still a job)
        let (cm, dc): (Box<dyn JobCostModel>, String) = if r.below(4) == 0 { let v: Vec<u64> = (0..2 + r.below(3)).map(|_| r.below(4)).collect(); (Box::new(wcet::Multiframe::new(v.iter().map(|x| s(*x)).collect())), format!("Multiframe{:?}", v)) } else { mk_cm(&mut r) };
        let desc = format!("{{\"arrival\": \"{}\", \"cost\": \"{}\"}}", da, dc);
        let res = guarded(|| -> Result<(), String> {
            if ab.number_arrivals(d(0)) != 0 { return Err("number_arrivals(0) != 0".into()); }
            let mut prev = 0usize;
            for delta in 1..=120u64 { let n = ab.number_arrivals(d(delta)); if n < prev { return Err(format!("number_arrivals not monotone at {}", delta)); } prev = n; }
            let steps: Vec<u64> = ab.steps_iter().take_while(|x| ud(*x) <= 120).take(200).map(ud).collect();
            for w in steps.windows(2) { if w[0] >= w[1] { return Err(format!("steps not strictly increasing: {:?}", &steps[..steps.len().min(12)])); } }
            if let Some(f) = steps.first() { if *f < 1 { return Err("first step < 1".into()); } }
            let exp: Vec<u64> = (1..=120u64).filter(|x| ab.number_arrivals(d(*x - 1)) < ab.number_arrivals(d(*x))).collect();
            if steps != exp { return Err(format!("steps {:?} != increases of number_arrivals {:?}", &steps[..steps.len().min(10)], &exp[..exp.len().min(10)])); }
            let mut c_prev = 0u64;
            for n in 0..=40usize { let c = us(cm.cost_of_jobs(n)); if c < c_prev { return Err(format!("cost_of_jobs not monotone at {}", n)); } c_prev = c;
                let items: Vec<u64> = cm.job_cost_iter().take(n).map(us).collect();
                if items.iter().sum::<u64>() != c { return Err(format!("cost_of_jobs({}) = {} != sum of job costs {:?}", n, c, items)); }
                if let Some(m) = items.iter().min() { if us(cm.least_wcet(n)) > *m { return Err(format!("least_wcet({}) = {} > a job cost {}", n, us(cm.least_wcet(n)), m)); } } }
            Ok(())
        });
        match res { Ok(Ok(())) => {}, Ok(Err(e)) => return fail("queries::model", desc, e, "the stated relation".into()), Err(e) => return fail("queries::model", desc, e, "no panic".into()) }
        // C10: added jitter shifts the bound; C12: derived curves dominate the source and are exact on the covered prefix
        let jj = r.below(12); let hz = 1 + r.below(40);
        let res = guarded(|| -> Result<(), String> {
            let cl = ab.clone_with_jitter(d(jj));
            for delta in 1..=80u64 { if cl.number_arrivals(d(delta)) != ab.number_arrivals(d(delta + jj)) { return Err(format!("clone_with_jitter({}).number_arrivals({}) = {} != number_arrivals({}) = {}", jj, delta, cl.number_arrivals(d(delta)), delta + jj, ab.number_arrivals(d(delta + jj)))); } }
            if cl.number_arrivals(d(0)) != 0 { return Err("jittered clone: number_arrivals(0) != 0".into()); }
            let acp = arrival::ArrivalCurvePrefix::from_arrival_bound_until(&ab, d(hz));
            for delta in 0..=150u64 {
                let (a, b) = (acp.number_arrivals(d(delta)), ab.number_arrivals(d(delta)));
                let repetitive = da.contains("Curve[");   // see below (KF16 / KF20): beyond the horizon only for sources without a delta-min curve inside
                if (a < b && !(repetitive && delta > hz)) || (delta <= hz && a != b) { return Err(format!("ArrivalCurvePrefix::from_arrival_bound_until(.., {}).number_arrivals({}) = {} vs source {}", hz, delta, a, b)); }
            }
            // sources that contain a delta-min curve continue beyond their own prefix by whole-prefix repetition; a derived curve
            // continues differently and can be SMALLER there (known findings KF16 / KF20): for them only the covered prefix is compared
            let repetitive = da.contains("Curve[");
            if ab.number_arrivals(d(100_000)) > 0 {   // (a source that never releases anything has no delta-min curve: known finding KF14)
                let cu = Curve::from_arrival_bound_until(&ab, d(hz));
                let covered = ud(cu.min_distance(1_000_000).min(d(hz)));
                for delta in 0..=150u64 {
                    let (a, b) = (cu.number_arrivals(d(delta)), ab.number_arrivals(d(delta)));
                    if (a < b && !(repetitive && delta >= covered)) || (delta < covered && a != b) {   /* at delta == the largest recorded distance a plateau-ended prefix over-counts: KF5 */ return Err(format!("Curve::from_arrival_bound_until(.., {}).number_arrivals({}) = {} vs source {}", hz, delta, a, b)); }
                }
                let n = 1 + (hz as usize % 6);
                let cu2 = Curve::from_arrival_bound(&ab, n);
                let cov2 = ud(cu2.min_distance(1_000_000));
                for delta in 0..=150u64 { let (a, b) = (cu2.number_arrivals(d(delta)), ab.number_arrivals(d(delta))); if a < b && !(repetitive && delta >= cov2) { return Err(format!("Curve::from_arrival_bound(.., {}).number_arrivals({}) = {} < source {}", n, delta, a, b)); } }
            }
            Ok(())
        });
        match res { Ok(Ok(())) => {}, Ok(Err(e)) => return fail("queries::derived", format!("{{\"arrival\": \"{}\", \"jitter\": {}, \"horizon\": {}}}", da, jj, hz), e, "the stated relation".into()), Err(e) => return fail("queries::derived", format!("{{\"arrival\": \"{}\", \"jitter\": {}, \"horizon\": {}}}", da, jj, hz), e, "no panic".into()) }
        let rbf = RBF::new(ab, cm);
        let res = guarded(|| -> Result<(), String> {
            for delta in [0u64, 1, 2, 7, 30, 75] {
                let sn = us(rbf.service_needed(d(delta)));
                let jc: u64 = rbf.job_cost_iter(d(delta)).map(us).sum();
                if jc != sn { return Err(format!("job_cost_iter({}) sums to {} != service_needed {}", delta, jc, sn)); }
                let mut prevn = 0u64;
                for n in 0..=6usize { let x = us(rbf.service_needed_by_n_jobs(d(delta), n)); if x < prevn || x > sn { return Err(format!("service_needed_by_n_jobs({}, {}) = {} outside [{}, {}]", delta, n, x, prevn, sn)); } prevn = x; }
                let _ = rbf.least_wcet_in_interval(d(delta));
            }
            Ok(())
        });
        match res { Ok(Ok(())) => {}, Ok(Err(e)) => return fail("queries::rbf", desc, e, "the stated relation".into()), Err(e) => return fail("queries::rbf", desc, e, "no panic".into()) }
    }
    0
}

/// C20 (totality, checked build): random well-formed systems over ALL model kinds (sporadic, periodic, delta-min curves incl.
/// plateaus, extrapolating curves, propagated and summed bounds, Never; scalar / multiframe / curve / extrapolating cost
/// models); every analysis must return Ok or Err -- a panic (overflow check, debug assertion, index, unwrap) is a failure.
/// ArrivalCurvePrefix is left out of the request bounds: its steps_iter yields 0 (known finding KF1).
fn check_totality(seed: u64) -> i32 {
    use response_time_analysis::ros2;
    let mut r = Rng(seed ^ 0x707a1);
    for _ in 0..1500 {
        let n = 1 + r.below(3) as usize;
        let mut descs = vec![]; let mut rbfs: Vec<RBF<Box<dyn ArrivalBound>, Box<dyn JobCostModel>>> = vec![];
        for _ in 0..n { let (ab, da) = mk_ab(&mut r); let (cm, dc) = mk_cm(&mut r); descs.push(format!("{} x {}", da, dc)); rbfs.push(RBF::new(ab, cm)); }
        let limit = 1 + r.below(200); let b = r.below(4);
        let p = 1 + r.below(6); let q = 1 + r.below(p); let dl = q + r.below(p - q + 1);
        let (sb, _, _, _, sdesc) = supply_case(r.below(5), q, dl, p);
        let desc = format!("{{\"tasks\": {:?}, \"limit\": {}, \"blocking\": {}, \"supply\": {}}}", descs, limit, b, sdesc);
        let (tua, rest) = rbfs.split_last().unwrap();
        macro_rules! total { ($name:expr, $e:expr) => {{
            if let Err(e) = guarded(|| { let _ = $e; }) { return fail($name, desc.clone(), e, "Ok(..) or Err(..) without panicking".into()); }
        }}}
        total!("totality::fp::fully_preemptive", fixed_priority::fully_preemptive::dedicated_uniproc_rta(tua, rest, d(limit)));
        total!("totality::fp::floating_nonpreemptive", fixed_priority::floating_nonpreemptive::dedicated_uniproc_rta(&fixed_priority::floating_nonpreemptive::TaskUnderAnalysis { rbf: tua, blocking_bound: s(b) }, rest, d(limit)));
        total!("totality::fifo", fifo::dedicated_uniproc_rta(&demand::Slice::of(&rbfs), d(limit)));
        let dls: Vec<u64> = (0..n).map(|_| 1 + r.below(40)).collect();
        let others: Vec<_> = rest.iter().zip(dls.iter()).map(|(rb, dl)| edf::fully_preemptive::Task { rbf: rb, deadline: d(*dl) }).collect();
        total!("totality::edf::fully_preemptive", edf::fully_preemptive::dedicated_uniproc_rta(&edf::fully_preemptive::Task { rbf: tua, deadline: d(dls[n - 1]) }, &others, d(limit)));
        let fl: Vec<_> = rest.iter().zip(dls.iter()).map(|(rb, dl)| edf::floating_nonpreemptive::InterferingTask { rbf: rb, deadline: d(*dl), max_np_segment: s(1 + r.below(3)) }).collect();
        total!("totality::edf::floating_nonpreemptive", edf::floating_nonpreemptive::dedicated_uniproc_rta(&edf::floating_nonpreemptive::TaskUnderAnalysis { rbf: tua, deadline: d(dls[n - 1]) }, &fl, d(limit)));
        total!("totality::ros2::event_source", ros2::rta_event_source(&*sb, &demand::Slice::of(&rbfs), d(limit)));
        total!("totality::ros2::timer", ros2::rta_timer(&*sb, tua, &demand::Slice::of(rest), s(b), d(limit)));
        total!("totality::ros2::polling_point", ros2::rta_polling_point_callback(&*sb, tua, &demand::Slice::of(rest), d(limit)));
        total!("totality::ros2::chain", ros2::rta_processing_chain(&*sb, tua, &demand::Slice::of(rest), &demand::Slice::of(&rbfs), &demand::Slice::of(&rest[..0]), d(limit)));
        // the analyses that take (arrival bound, scalar WCET) tasks
        {
            // (a task under analysis that never releases a job is left out here: known finding KF18)
            let (ab0, d0) = loop { let x = mk_ab(&mut r); if x.0.number_arrivals(d(1000)) > 0 { break x; } }; let c0 = 1 + r.below(4); let last = 1 + r.below(c0); let dl0 = 1 + r.below(40);
            let desc = format!("{{\"tua\": \"{} x Scalar({})\", \"last_np_segment\": {}, \"deadline\": {}, \"others\": {:?}, \"deadlines\": {:?}, \"limit\": {}, \"blocking\": {}}}", d0, c0, last, dl0, descs, dls, limit, b);
            macro_rules! total2 { ($name:expr, $e:expr) => {{
                if let Err(e) = guarded(|| { let _ = $e; }) { return fail($name, desc.clone(), e, "Ok(..) or Err(..) without panicking".into()); }
            }}}
            total2!("totality::fp::fully_nonpreemptive", fixed_priority::fully_nonpreemptive::dedicated_uniproc_rta(&fixed_priority::fully_nonpreemptive::TaskUnderAnalysis { wcet: Scalar::new(s(c0)), arrivals: &*ab0, blocking_bound: s(b) }, &rbfs, d(limit)));
            total2!("totality::fp::limited_preemptive", fixed_priority::limited_preemptive::dedicated_uniproc_rta(&fixed_priority::limited_preemptive::TaskUnderAnalysis { wcet: Scalar::new(s(c0)), arrivals: &*ab0, last_np_segment: s(last), blocking_bound: s(b) }, &rbfs, d(limit)));
            let lp: Vec<_> = rbfs.iter().zip(dls.iter()).map(|(rb, dl)| edf::limited_preemptive::InterferingTask { rbf: rb, deadline: d(*dl), max_np_segment: s(1 + r.below(3)) }).collect();
            total2!("totality::edf::limited_preemptive", edf::limited_preemptive::dedicated_uniproc_rta(&edf::limited_preemptive::TaskUnderAnalysis { wcet: Scalar::new(s(c0)), arrivals: &*ab0, deadline: d(dl0), last_np_segment: s(last) }, &lp, d(limit)));
            let np_abs: Vec<(Box<dyn ArrivalBound>, String)> = (0..n).map(|_| mk_ab(&mut r)).collect();
            let np_others: Vec<_> = np_abs.iter().zip(dls.iter()).map(|(a, dl)| edf::fully_nonpreemptive::Task { wcet: Scalar::new(s(1 + (*dl % 3))), arrivals: &*a.0, deadline: d(*dl) }).collect();
            total2!("totality::edf::fully_nonpreemptive", edf::fully_nonpreemptive::dedicated_uniproc_rta(&edf::fully_nonpreemptive::Task { wcet: Scalar::new(s(c0)), arrivals: &*ab0, deadline: d(dl0) }, &np_others, d(limit)));
        }
        // rr / bw over boxed models
        let abs: Vec<(Box<dyn ArrivalBound>, String)> = (0..n).map(|_| mk_ab(&mut r)).collect();
        let cms: Vec<(Box<dyn JobCostModel>, String)> = (0..n).map(|_| mk_cm(&mut r)).collect();
        let kinds: Vec<Cb> = (0..n).map(|_| Cb { t: 1, j: 0, c: 1, rtb: r.below(15), kind: r.below(4) as u8, prio: [0, 1, 2, 0, 1, i32::MAX, i32::MIN][r.below(7) as usize] }).collect();
        let e = r.below(n as u64) as usize;
        let desc = format!("{{\"callbacks\": {:?}, \"kinds(rtb,kind,prio)\": {:?}, \"end_of_chain\": {}, \"limit\": {}, \"supply\": {}}}", abs.iter().zip(cms.iter()).map(|(a, c)| format!("{} x {}", a.1, c.1)).collect::<Vec<_>>(), kinds.iter().map(|k| (k.rtb, k.kind, k.prio)).collect::<Vec<_>>(), e, limit, sdesc);
        {
            let wl: Vec<_> = (0..n).map(|i| ros2::rr::Callback::new(d(kinds[i].rtb), &abs[i].0, &cms[i].0, ros2_kind(&kinds[i]))).collect();
            let sc = vec![&wl[e]];
            if let Err(x) = guarded(|| { let _ = ros2::rr::rta_subchain(&*sb, &wl, &sc, d(limit)); }) { return fail("totality::ros2::rr", desc.clone(), x, "Ok(..) or Err(..) without panicking".into()); }
        }
        {
            let wl: Vec<_> = (0..n).map(|i| ros2::bw::Callback::new(d(kinds[i].rtb), &abs[i].0, &cms[i].0, ros2_kind(&kinds[i]))).collect();
            let sc = vec![&wl[e]];
            if let Err(x) = guarded(|| { let _ = ros2::bw::rta_subchain(&*sb, &wl, &sc, d(limit)); }) { return fail("totality::ros2::bw", desc.clone(), x, "Ok(..) or Err(..) without panicking".into()); }
        }
    }
    0
}

/// C13 / C14 (caches are invisible): random query histories -- number_arrivals and steps_iter prefixes in random order on
/// three clones sharing one cache -- always answer like a FRESH extrapolating curve that has seen nothing before, and like an
/// eagerly extrapolated plain curve; the same for the caching cost curve
fn check_cache(seed: u64) -> i32 {
    let mut r = Rng(seed ^ 0xcac4e);
    for _ in 0..400 {
        // super-additive prefixes, including zero first entries and plateaus (simultaneous arrivals)
        let a = r.below(4); let b = 2 * a + r.below(4); let c = (a + b + r.below(4)).max(1);
        let mk = || Curve::new(vec![d(a), d(b), d(c)]);
        let shared = arrival::ExtrapolatingCurve::new(mk());
        let clones = [shared.clone(), shared.clone(), shared];
        let mut eager = mk(); eager.extrapolate(d(400));
        let mut history = vec![];
        for _ in 0..14 {
            let who = r.below(3) as usize;
            if r.below(3) == 0 {
                let k = 1 + r.below(25) as usize;
                history.push(format!("clone{}.steps_iter().take({})", who, k));
                let got = guarded(|| clones[who].steps_iter().take(k).map(ud).collect::<Vec<u64>>());
                let fresh: Vec<u64> = arrival::ExtrapolatingCurve::new(mk()).steps_iter().take(k).map(ud).collect();
                let exp: Vec<u64> = eager.steps_iter().take(k).map(ud).collect();
                if got != Ok(fresh.clone()) || fresh != exp { return fail("arrival::ExtrapolatingCurve(cache history)", format!("{{\"dmin\": [{}, {}, {}], \"history\": {:?}}}", a, b, c, history), format!("{:?}", got), format!("fresh {:?} / eager {:?}", fresh, exp)); }
            } else {
                let delta = r.below(160);
                history.push(format!("clone{}.number_arrivals({})", who, delta));
                let got = guarded(|| clones[who].number_arrivals(d(delta)));
                let fresh = arrival::ExtrapolatingCurve::new(mk()).number_arrivals(d(delta));
                let exp = eager.number_arrivals(d(delta));
                if got != Ok(fresh) || fresh != exp { return fail("arrival::ExtrapolatingCurve(cache history)", format!("{{\"dmin\": [{}, {}, {}], \"history\": {:?}}}", a, b, c, history), format!("{:?}", got), format!("fresh {} / eager {}", fresh, exp)); }
            }
        }
        // cost curve cache (sub-additive prefix: x <= y <= 2x, z <= x + y)
        let x = 1 + r.below(4); let y = x + r.below(x + 1); let z = y + r.below(x + 1);
        let mkw = || wcet::Curve::new(vec![s(x), s(y), s(z)]);
        let shared = wcet::ExtrapolatingCurve::new(mkw());
        let clones = [shared.clone(), shared];
        let mut hist = vec![];
        for _ in 0..12 {
            let who = r.below(2) as usize; let n = r.below(40) as usize;
            let lw = r.below(2) == 0;
            hist.push(format!("clone{}.{}({})", who, if lw { "least_wcet" } else { "cost_of_jobs" }, n));
            let got = guarded(|| if lw { us(clones[who].least_wcet(n)) } else { us(clones[who].cost_of_jobs(n)) });
            let fr = wcet::ExtrapolatingCurve::new(mkw());
            let fresh = if lw { us(fr.least_wcet(n)) } else { us(fr.cost_of_jobs(n)) };
            if got != Ok(fresh) { return fail("wcet::ExtrapolatingCurve(cache history)", format!("{{\"prefix\": [{}, {}, {}], \"history\": {:?}}}", x, y, z, hist), format!("{:?}", got), format!("fresh {}", fresh)); }
        }
    }
    0
}

/// C06 on arbitrary (nested) models: the request bounds are used as black boxes (their queries are checked elsewhere) and the
/// analyses are compared with the exhaustive all-offsets evaluation over those black boxes
fn check_analyses_any(seed: u64) -> i32 {
    let mut r = Rng(seed ^ 0xa27a27);
    for _ in 0..500 {
        let n = r.below(3) as usize;
        let mut descs = vec![]; let mut hps: Vec<RBF<Box<dyn ArrivalBound>, Box<dyn JobCostModel>>> = vec![];
        for _ in 0..n { let (ab, da) = mk_ab_nested(&mut r, 1); let (cm, dc) = mk_cm(&mut r); descs.push(format!("{} x {}", da, dc)); hps.push(RBF::new(ab, cm)); }
        let (ab0, d0) = loop { let x = mk_ab_nested(&mut r, 1); if x.0.number_arrivals(d(1)) > 0 { break x; } };
        let (cm0, dc0) = mk_cm(&mut r);
        let tua = RBF::new(ab0, cm0);
        let limit = 1 + r.below(90); let b = r.below(4);
        let tua_f = |x: u64| us(tua.service_needed(d(x)));
        let hp_f = |x: u64| hps.iter().map(|h| us(h.service_needed(d(x)))).sum::<u64>();
        let mut desc = format!("{{\"tua\": \"{} x {}\", \"others\": {:?}, \"blocking\": {}, \"limit\": {}}}", d0, dc0, descs, b, limit);
        macro_rules! cmp { ($name:expr, $got:expr, $exp:expr) => {{
            let got = view(&guarded(|| $got)); let exp = $exp;
            if got != Ok(exp) { return fail($name, desc.clone(), format!("{:?}", got), format!("{:?}", exp)); }
        }}}
        cmp!("fixed_priority::fully_preemptive::dedicated_uniproc_rta", fixed_priority::fully_preemptive::dedicated_uniproc_rta(&tua, &hps, d(limit)), fpx(&tua_f, &hp_f, 0, 0, limit));
        cmp!("fixed_priority::floating_nonpreemptive::dedicated_uniproc_rta",
             fixed_priority::floating_nonpreemptive::dedicated_uniproc_rta(&fixed_priority::floating_nonpreemptive::TaskUnderAnalysis { rbf: &tua, blocking_bound: s(b) }, &hps, d(limit)), fpx(&tua_f, &hp_f, b, 0, limit));
        let tot = |x: u64| tua_f(x) + hp_f(x);
        let exp = dscan(limit, &|x| tot(x)).map(|l| (0..l).map(|a| tot(a + 1).saturating_sub(a)).max().unwrap_or(0));
        {
            // FIFO takes one request bound: the task under analysis is simply the last element
            let all: Vec<&RBF<Box<dyn ArrivalBound>, Box<dyn JobCostModel>>> = hps.iter().chain(std::iter::once(&tua)).collect();
            cmp!("fifo::dedicated_uniproc_rta", fifo::dedicated_uniproc_rta(&demand::Slice::of(&all), d(limit)), exp);
        }
        let dl0 = 1 + r.below(40);
        let dls: Vec<u64> = hps.iter().map(|_| 1 + r.below(40)).collect();
        let segs: Vec<u64> = hps.iter().map(|_| 1 + r.below(4)).collect();
        let exp_fl = (|| {
            let k = dls.len();
            let l = dscan(limit, &|x| hp_f(x) + tua_f(x))?;
            let mut best = 0u64;
            for a in 0..l {
                let blk = (0..k).filter(|&i| dls[i] > dl0 + a && us(hps[i].service_needed(d(1))) > 0).map(|i| segs[i].saturating_sub(1)).max().unwrap_or(0);
                let af = dscan(limit, &|x| blk + tua_f(a + 1) + (0..k).map(|i| us(hps[i].service_needed(d(x.min((a + 1 + dl0).saturating_sub(dls[i])))))).sum::<u64>())?;
                best = best.max(af.saturating_sub(a));
            }
            Some(best)
        })();
        desc = format!("{{\"tua\": \"{} x {}\", \"deadline\": {}, \"others\": {:?}, \"deadlines\": {:?}, \"segments\": {:?}, \"limit\": {}}}", d0, dc0, dl0, descs, dls, segs, limit);
        let fl_others: Vec<_> = hps.iter().zip(dls.iter()).zip(segs.iter()).map(|((rb, dl), sg)| edf::floating_nonpreemptive::InterferingTask { rbf: rb, deadline: d(*dl), max_np_segment: s(*sg) }).collect();
        cmp!("edf::floating_nonpreemptive::dedicated_uniproc_rta",
             edf::floating_nonpreemptive::dedicated_uniproc_rta(&edf::floating_nonpreemptive::TaskUnderAnalysis { rbf: &tua, deadline: d(dl0) }, &fl_others, d(limit)), exp_fl);
        // fully preemptive / limited-preemptive / fully non-preemptive EDF with scalar costs over arbitrary arrival models --
        // in particular interfering tasks that never release a job (they must neither interfere nor block) and bursts
        {
            let k = r.below(3) as usize;
            let mut oabs: Vec<Box<dyn ArrivalBound>> = vec![]; let mut odesc = vec![];
            for _ in 0..k { let (ab, da) = if r.below(4) == 0 { (Box::new(arrival::Never {}) as Box<dyn ArrivalBound>, "Never".to_string()) } else { mk_ab_nested(&mut r, 1) }; odesc.push(da); oabs.push(ab); }
            let ocs: Vec<u64> = (0..k).map(|_| 1 + r.below(9)).collect();
            let odl: Vec<u64> = (0..k).map(|_| 1 + r.below(40)).collect();
            let osg: Vec<u64> = (0..k).map(|i| 1 + r.below(ocs[i])).collect();
            let (tab, tdesc) = loop { let x = mk_ab_nested(&mut r, 1); if x.0.number_arrivals(d(1)) > 0 { break x; } };
            let c0 = 1 + r.below(4); let last = 1 + r.below(c0); let dl0 = 1 + r.below(40);
            let tf = |x: u64| c0 * tab.number_arrivals(d(x)) as u64;
            let of = |i: usize, x: u64| ocs[i] * oabs[i].number_arrivals(d(x)) as u64;
            let edfx = |segs: &Vec<u64>, rem: u64| -> Option<u64> {
                let l = dscan(limit, &|x| (0..k).map(|i| of(i, x)).sum::<u64>() + tf(x))?;
                let mut best = 0u64;
                for a in 0..l {
                    let blk = (0..k).filter(|&i| odl[i] > dl0 + a && of(i, 1) > 0).map(|i| segs[i].saturating_sub(1)).max().unwrap_or(0);
                    let af = dscan(limit, &|x| blk + (tf(a + 1) - rem) + (0..k).map(|i| of(i, x.min((a + 1 + dl0).saturating_sub(odl[i])))).sum::<u64>())?;
                    best = best.max(af.saturating_sub(a) + rem);
                }
                Some(best)
            };
            desc = format!("{{\"tua\": \"{} x Scalar({})\", \"deadline\": {}, \"last_np_segment\": {}, \"others\": {:?}, \"wcets\": {:?}, \"deadlines\": {:?}, \"max_np_segments\": {:?}, \"limit\": {}}}", tdesc, c0, dl0, last, odesc, ocs, odl, osg, limit);
            let orbfs: Vec<_> = (0..k).map(|i| RBF::new(&oabs[i], Scalar::new(s(ocs[i])))).collect();
            let trbf = RBF::new(&tab, Scalar::new(s(c0)));
            let fp_others: Vec<_> = (0..k).map(|i| edf::fully_preemptive::Task { rbf: &orbfs[i], deadline: d(odl[i]) }).collect();
            let ones: Vec<u64> = vec![1; k];
            cmp!("edf::fully_preemptive::dedicated_uniproc_rta", edf::fully_preemptive::dedicated_uniproc_rta(&edf::fully_preemptive::Task { rbf: &trbf, deadline: d(dl0) }, &fp_others, d(limit)), edfx(&ones, 0));
            let lp_others: Vec<_> = (0..k).map(|i| edf::limited_preemptive::InterferingTask { rbf: &orbfs[i], deadline: d(odl[i]), max_np_segment: s(osg[i]) }).collect();
            cmp!("edf::limited_preemptive::dedicated_uniproc_rta",
                 edf::limited_preemptive::dedicated_uniproc_rta(&edf::limited_preemptive::TaskUnderAnalysis { wcet: Scalar::new(s(c0)), arrivals: &tab, deadline: d(dl0), last_np_segment: s(last) }, &lp_others, d(limit)), edfx(&osg, last - 1));
            let np_others: Vec<_> = (0..k).map(|i| edf::fully_nonpreemptive::Task { wcet: Scalar::new(s(ocs[i])), arrivals: &oabs[i], deadline: d(odl[i]) }).collect();
            cmp!("edf::fully_nonpreemptive::dedicated_uniproc_rta",
                 edf::fully_nonpreemptive::dedicated_uniproc_rta(&edf::fully_nonpreemptive::Task { wcet: Scalar::new(s(c0)), arrivals: &tab, deadline: d(dl0) }, &np_others, d(limit)), edfx(&ocs, c0 - 1));
            // the same interfering tasks under non-preemptive and limited-preemptive fixed priority
            let hpf = |x: u64| (0..k).map(|i| of(i, x)).sum::<u64>();
            cmp!("fixed_priority::fully_nonpreemptive::dedicated_uniproc_rta",
                 fixed_priority::fully_nonpreemptive::dedicated_uniproc_rta(&fixed_priority::fully_nonpreemptive::TaskUnderAnalysis { wcet: Scalar::new(s(c0)), arrivals: &tab, blocking_bound: s(b) }, &orbfs, d(limit)), fpx(&tf, &hpf, b, c0 - 1, limit));
            cmp!("fixed_priority::limited_preemptive::dedicated_uniproc_rta",
                 fixed_priority::limited_preemptive::dedicated_uniproc_rta(&fixed_priority::limited_preemptive::TaskUnderAnalysis { wcet: Scalar::new(s(c0)), arrivals: &tab, last_np_segment: s(last), blocking_bound: s(b) }, &orbfs, d(limit)), fpx(&tf, &hpf, b, last - 1, limit));
        }
    }
    0
}

/// C07 on arbitrary (nested) models: rr, bw and the ECRTS'19 analyses against naive evaluators over the models' own queries
fn check_ros2_any(seed: u64) -> i32 {
    use response_time_analysis::ros2;
    let mut r = Rng(seed ^ 0x2052a27);
    for _ in 0..500 {
        let p = 1 + r.below(6); let q = 1 + r.below(p); let dl = q + r.below(p - q + 1);
        let (sb, pp, qq, dd, sdesc) = supply_case(r.below(3), q, dl, p);
        let sbf = move |t: u64| sbf_spec(pp, qq, dd, t as u128) as u64;
        let limit = 1 + r.below(80);
        let n = 1 + r.below(3) as usize;
        let abs: Vec<(Box<dyn ArrivalBound>, String)> = (0..n).map(|_| mk_ab_nested(&mut r, 1)).collect();
        let cms: Vec<(Box<dyn JobCostModel>, String)> = (0..n).map(|_| mk_cm(&mut r)).collect();
        let kinds: Vec<Cb> = (0..n).map(|_| Cb { t: 1, j: 0, c: 1, rtb: r.below(12), kind: r.below(4) as u8, prio: [0, 1, 2, 0, 1, i32::MAX, i32::MIN][r.below(7) as usize] }).collect();
        let e = r.below(n as u64) as usize;
        let first = r.below(n as u64) as usize;
        let chain: Vec<usize> = if n >= 2 && first != e && r.below(2) == 0 { vec![first, e] } else { vec![e] };
        let na = |i: usize, x: u64| abs[i].0.number_arrivals(d(x)) as u64;
        let cost = |i: usize, k: u64| us(cms[i].0.cost_of_jobs(k as usize));
        let npp: u64 = chain.iter().map(|&i| na(i, kinds[i].rtb)).sum();
        let eoc = kinds[e];
        let mut desc = format!("{{\"supply\": {}, \"limit\": {}, \"callbacks\": {:?}, \"kinds(rtb,kind,prio)\": {:?}, \"subchain\": {:?}}}", sdesc, limit,
                           abs.iter().zip(cms.iter()).map(|(a, c)| format!("{} x {}", a.1, c.1)).collect::<Vec<_>>(), kinds.iter().map(|k| (k.rtb, k.kind, k.prio)).collect::<Vec<_>>(), chain);
        macro_rules! cmp { ($name:expr, $got:expr, $exp:expr) => {{
            let got = view(&guarded(|| $got)); let exp = $exp;
            if got != Ok(exp) { return fail($name, desc.clone(), format!("{:?}", got), format!("{:?}", exp)); }
        }}}
        {
            let wl: Vec<_> = (0..n).map(|i| ros2::rr::Callback::new(d(kinds[i].rtb), &abs[i].0, &cms[i].0, ros2_kind(&kinds[i]))).collect();
            let sc: Vec<&ros2::rr::Callback<Box<dyn ArrivalBound>, Box<dyn JobCostModel>>> = chain.iter().map(|&i| &wl[i]).collect();
            let exp = (|| {
                let selfn = |x: u64| na(e, (x + eoc.rtb).saturating_sub(1)).saturating_sub(1);
                let w = |x: u64| 1 + (0..n).filter(|&i| i != e).map(|i| cost(i, kinds[i].capped(&eoc, na(i, (x + kinds[i].rtb).saturating_sub(1)), npp))).sum::<u64>() + cost(e, selfn(x));
                let s_star = scan_sbf(&sbf, 0, limit, &w)?;
                let k = selfn(s_star);
                Some(st_naive(&sbf, sbf(s_star).saturating_sub(1) + (cost(e, k + 1) - cost(e, k))))
            })();
            cmp!("ros2::rr::rta_subchain", ros2::rr::rta_subchain(&*sb, &wl, &sc, d(limit)), exp);
        }
        {
            let wl: Vec<_> = (0..n).map(|i| ros2::bw::Callback::new(d(kinds[i].rtb), &abs[i].0, &cms[i].0, ros2_kind(&kinds[i]))).collect();
            let sc: Vec<&ros2::bw::Callback<Box<dyn ArrivalBound>, Box<dyn JobCostModel>>> = chain.iter().map(|&i| &wl[i]).collect();
            let exp = (|| {
                let intf = |delta: u64, act: u64| (0..n).filter(|&i| i != e).map(|i| cost(i, kinds[i].capped(&eoc, na(i, delta), na(i, act) + npp))).sum::<u64>();
                let max_offset = scan_sbf(&sbf, 0, limit, &|ta| 1 + intf(ta, ta) + cost(e, na(e, ta)))?;
                let mut best = 0u64;
                for a in 0..max_offset {
                    let is_step = (0..n).any(|i| if i == e { na(i, a) != na(i, a + 1) } else { kinds[i].is_pp() && a > 0 && na(i, a - 1) != na(i, a) });
                    if !is_step { continue; }
                    let k = na(e, a + 1).saturating_sub(1);
                    let s_star = scan_sbf(&sbf, 0, limit, &|x| 1 + intf(x, a) + cost(e, k))?;
                    let f_star = st_naive(&sbf, sbf(s_star).saturating_sub(1) + (cost(e, k + 1) - cost(e, k)));
                    best = best.max(if chain.len() == 1 { f_star.saturating_sub(a) } else { f_star });
                }
                Some(best)
            })();
            cmp!("ros2::bw::rta_subchain", ros2::bw::rta_subchain(&*sb, &wl, &sc, d(limit)), exp);
        }
        // ECRTS'19: request bounds over the same models
        let rbfs: Vec<RBF<&Box<dyn ArrivalBound>, &Box<dyn JobCostModel>>> = (0..n).map(|i| RBF::new(&abs[i].0, &cms[i].0)).collect();
        let (own, rest) = rbfs.split_last().unwrap();
        let b = r.below(4);
        let sn = |v: &[RBF<&Box<dyn ArrivalBound>, &Box<dyn JobCostModel>>], x: u64| v.iter().map(|rb| us(rb.service_needed(d(x)))).sum::<u64>();
        let own_f = |x: u64| us(own.service_needed(d(x)));
        let lw_own = |x: u64| us(own.least_wcet_in_interval(d(x)));
        let ecrts = |dem: &dyn Fn(u64) -> u64, wb: &dyn Fn(u64) -> u64, w2: &dyn Fn(u64, u64) -> u64| -> Option<u64> {
            let max_bw = scan_sbf(&sbf, 0, limit, wb)?;
            let mut best = 0u64;
            for a in 0..=max_bw { if !(dem(a) < dem(a + 1)) { continue; } best = best.max(scan_sbf(&sbf, a, limit, &|x| w2(a, x))?); }
            Some(best)
        };
        let intf_iv = |a: u64, resp: u64| { let w = lw_own(a + resp); if resp > w { a + resp - w + 1 } else { a + 1 } };
        desc = format!("{{\"supply\": {}, \"limit\": {}, \"tasks (the last one is under analysis)\": {:?}, \"blocking\": {}}}", sdesc, limit,
                           abs.iter().zip(cms.iter()).map(|(a, c)| format!("{} x {}", a.1, c.1)).collect::<Vec<_>>(), b);
        cmp!("ros2::rta_event_source", ros2::rta_event_source(&*sb, &demand::Slice::of(&rbfs), d(limit)), ecrts(&|x| sn(&rbfs, x), &|x| sn(&rbfs, x), &|a, _| sn(&rbfs, a + 1)));
        cmp!("ros2::rta_timer", ros2::rta_timer(&*sb, own, &demand::Slice::of(rest), s(b), d(limit)),
             ecrts(&own_f, &|x| own_f(x) + b + sn(rest, x), &|a, x| own_f(a + 1) + sn(rest, intf_iv(a, x)) + b));
        cmp!("ros2::rta_polling_point_callback", ros2::rta_polling_point_callback(&*sb, own, &demand::Slice::of(rest), d(limit)),
             ecrts(&own_f, &|x| own_f(x) + sn(rest, x), &|a, x| own_f(a + 1) + sn(rest, intf_iv(a, x))));
        cmp!("ros2::rta_processing_chain", ros2::rta_processing_chain(&*sb, own, &demand::Slice::of(rest), &demand::Slice::of(&rbfs), &demand::Slice::of(&rest[..0]), d(limit)),
             ecrts(&|x| sn(&rbfs, x), &|x| sn(&rbfs, x), &|a, x| own_f(a + 1) + sn(rest, intf_iv(a, x))));
    }
    0
}

pub fn search(obligation: &str, seed: u64) -> i32 {
    let o = obligation;
    let mut ran = false;
    let mut run = |f: fn(u64) -> i32| -> i32 { ran = true; f(seed) };
    let mut rc = 0;
    if let Some(cat) = o.strip_prefix("cat:") {
        rc = match cat { "supply" => run(check_supply), "fixed_point" => run(check_fixed_point), "arrival" => run(check_arrival), "steps" => run(check_steps),
                         "wcet_demand" => run(check_wcet_demand), "analyses" => { let rc = run(check_analyses); if rc == 0 { run(check_analyses_tab) } else { rc } }, "ros2" => { let rc = run(check_ros2); if rc == 0 { run(check_ros2_tab) } else { rc } }, "ros2_all_scalar" => run(check_ros2_all_scalar), "ros2_bw_all" => run(check_ros2_bw_all), "ros2_mono" => run(check_ros2_mono), "coincide" => run(check_coincide), "totality" => run(check_totality), "queries" => run(check_queries), "cache" => run(check_cache), "analyses_any" => run(check_analyses_any), "ros2_any" => run(check_ros2_any), "ros2_all_multiframe" => run(check_ros2_all_multiframe), _ => 3 };
    }
    else if o.contains("src/arrival/steps") || o.contains("src/arrival/dmin") || o.contains("arrival_curve_prefix") { rc = run(check_steps); }
    else if o.contains("src/supply/") { rc = run(check_supply); if rc == 0 { rc = run(check_fixed_point); } }
    else if o.contains("src/fixed_point.rs") || o.contains("src/time.rs") { rc = run(check_fixed_point); if rc == 0 { rc = run(check_analyses); } if rc == 0 { rc = run(check_analyses_tab); } }
    else if o.contains("src/arrival/") { rc = run(check_arrival); }
    else if o.contains("src/wcet/") || o.contains("src/demand/") { rc = run(check_wcet_demand); }
    else if o.contains("src/ros2/") { rc = run(check_ros2); if rc == 0 { rc = run(check_ros2_tab); } }
    else if o.contains("src/fixed_priority/") || o.contains("src/fifo/") || o.contains("src/edf/") { rc = run(check_analyses); if rc == 0 { rc = run(check_analyses_tab); } }
    if !ran { return 3; }
    if rc == 0 { println!("mirror domain exhausted without a failing input"); }
    rc
}

/// re-run the mirror named in a replay record (the domains are deterministic, so the same input is reached again)
pub fn replay(json: &str) -> i32 {
    let mirror = json.split("\"mirror\": \"").nth(1).and_then(|x| x.split('"').next()).unwrap_or("");
    let f: Option<fn(u64) -> i32> = if mirror.starts_with("supply::") { Some(check_supply) }
        else if mirror.starts_with("fixed_point::") { Some(check_fixed_point) }
        else if mirror.starts_with("arrival::") { Some(check_arrival) }
        else if mirror.starts_with("steps::") || mirror.starts_with("conv::") { Some(check_steps) }
        else if mirror.starts_with("wcet::") || mirror.starts_with("demand::") { Some(check_wcet_demand) }
        else if mirror.starts_with("ros2::") && json.contains("_table") { Some(check_ros2_tab) }
        else if mirror.starts_with("ros2::") { Some(check_ros2) }
        else if mirror.contains("dedicated_uniproc_rta") && json.contains("_table") { Some(check_analyses_tab) }
        else if mirror.contains("dedicated_uniproc_rta") && json.contains("\"tua\": \"") { Some(check_analyses_any) }
        else if mirror.contains("dedicated_uniproc_rta") { Some(check_analyses) } else { None };
    let seed = json.split("\"seed\": ").nth(1).and_then(|x| x.trim_end_matches('}').trim().parse().ok()).unwrap_or(0);
    match f { Some(f) => f(seed), None => 2 }
}
