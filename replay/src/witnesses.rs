//! Concrete witnesses of the known findings (known_findings.json). Each returns 1 if the defect reproduces.
use response_time_analysis::arrival::{ArrivalBound, ArrivalCurvePrefix, Curve, Never, Propagated, Sporadic};
use response_time_analysis::time::{Duration, Service};
use response_time_analysis::wcet::{self, JobCostModel};
use response_time_analysis::{fixed_point, supply};
use std::panic::catch_unwind;

fn d(x: u64) -> Duration { Duration::from(x) }
fn s(x: u64) -> Service { Service::from(x) }

pub fn run(id: &str) -> i32 {
    let reproduces = match id {
        // KF1: first item of ArrivalCurvePrefix::steps_iter is 0
        "KF1" => {
            let acp = ArrivalCurvePrefix::new(d(10), vec![(d(1), 1), (d(5), 2)]);
            let first = acp.steps_iter().next(); first == Some(d(0))
        }
        // KF2: wcet::Curve::from_trace under-approximates (runs that end the trace are never examined)
        "KF2" => {
            let c = wcet::Curve::from_trace([1u64, 1, 1, 100].iter().map(|x| s(*x)), 2);
            c.cost_of_jobs(1) < s(100)
        }
        // KF3: Propagated<Never> yields a step although nothing ever arrives
        "KF3" => {
            let p = Propagated::with_jitter(&Never {}, d(2));
            let first = p.steps_iter().next(); p.number_arrivals(d(1000)) == 0 && first.is_some()
        }
        // KF4: wcet::Curve::extrapolate(0) on a curve with >= 3 samples underflows `n - 1`
        "KF4" => {
            catch_unwind(|| {
                let mut c = wcet::Curve::new(vec![s(1), s(2), s(3)]);
                c.extrapolate(0);
            }).is_err()
        }
        // KF5: Curve with a plateau-ended delta-min vector: number_arrivals steps at k*D that steps_iter does not yield
        "KF5" => {
            let c = Curve::new(vec![d(5), d(5)]);
            let steps: Vec<u64> = c.steps_iter().take(4).map(u64::from).collect();
            c.number_arrivals(d(4)) < c.number_arrivals(d(5)) && !steps.contains(&5)
        }
        // KF6: conversion of a bursty source cut inside the burst yields a Curve whose number_arrivals divides by zero
        "KF6" => {
            catch_unwind(|| {
                let c = Curve::from_arrival_bound(&Sporadic::new(d(1), d(2)), 1);
                c.number_arrivals(d(3))
            }).is_err()
        }
        // KF7: limit = 0 with no demand: Err although r = 0 <= limit is the least solution
        "KF7" => {
            let r = fixed_point::search_with_offset(&supply::Dedicated::new(), response_time_analysis::time::Offset::from(0), d(0), &|_| s(0));
            r.is_err()
        }
        // KF8: wcet::Curve::least_wcet(n > 0) on an empty curve indexes [0]
        "KF8" => {
            catch_unwind(|| wcet::Curve::new(vec![]).least_wcet(1)).is_err()
        }
        // KF9: an ArrivalCurvePrefix without steps (nothing ever arrives, e.g. derived from Never) panics in lookup
        "KF9" => {
            catch_unwind(|| ArrivalCurvePrefix::from_arrival_bound_until(&Never {}, d(10)).number_arrivals(d(3))).is_err()
        }
        // KF10: ECRTS'19 timer analysis with a multiframe cost model: an offset BETWEEN two demand steps dominates
        // (least_wcet_in_interval drops when the second, cheaper job arrives and widens the interference interval),
        // the step-only search space returns 24 where the evaluation over every offset gives 25
        "KF10" => {
            use response_time_analysis::arrival::Sporadic as Sp;
            use response_time_analysis::demand::{self, RBF};
            use response_time_analysis::ros2;
            let own = RBF::new(Sp::new(d(26), d(0)), wcet::Multiframe::new(vec![s(4), s(1)]));
            let others = vec![RBF::new(Sp::new(d(27), d(0)), wcet::Scalar::new(s(2))), RBF::new(Sp::new(d(5), d(0)), wcet::Scalar::new(s(4)))];
            let lib = ros2::rta_timer(&supply::Dedicated::new(), &own, &demand::Slice::of(&others), s(1), d(300)).ok().map(u64::from);
            // every offset A in [0, max_bw], dedicated processor: least r with A + r >= own(A+1) + others(I) + b
            let na = |t: u64, x: u64| if x == 0 { 0 } else { (x + t - 1) / t };
            let own_rbf = |x: u64| { let n = na(26, x); (n / 2) * 5 + if n % 2 == 1 { 4 } else { 0 } };
            let lw = |x: u64| match na(26, x) { 0 => 0, 1 => 4, _ => 1 };
            let oth = |x: u64| 2 * na(27, x) + 4 * na(5, x);
            let scan = |a: u64, w: &dyn Fn(u64) -> u64| (0..=300u64).find(|r| a + r >= w((*r).max(1)));
            let max_bw = scan(0, &|x| own_rbf(x) + 1 + oth(x)).unwrap();
            let every = (0..=max_bw).map(|a| scan(a, &|r| { let w = lw(a + r); let iv = if r > w { a + r - w + 1 } else { a + 1 }; own_rbf(a + 1) + oth(iv) + 1 }).unwrap()).max().unwrap();
            lib == Some(24) && every == 25
        }
        // KF11: eager wcet::Curve::extrapolate RAISES bounds beyond the extended prefix (whole-prefix repetition of the longer prefix)
        "KF11" => {
            let plain = wcet::Curve::new(vec![s(5), s(6), s(7)]);
            let mut e = plain.clone(); e.extrapolate(5);
            plain.cost_of_jobs(5) == s(13) && e.cost_of_jobs(5) == s(17)
        }
        // KF12: eager arrival::Curve::extrapolate yields MORE arrivals than the un-extrapolated curve beyond the extended prefix
        "KF12" => {
            let plain = Curve::new(vec![d(0), d(1), d(2)]);
            let mut e = plain.clone(); e.extrapolate(d(3));
            e.number_arrivals(d(4)) > plain.number_arrivals(d(4))
        }
        // KF13: extrapolating a cumulative-cost prefix that is not sub-additive yields a NON-MONOTONE cost function
        "KF13" => {
            let x = wcet::ExtrapolatingCurve::new(wcet::Curve::new(vec![s(1), s(1), s(3)]));
            x.cost_of_jobs(4) < x.cost_of_jobs(3)
        }
        // KF14: a source that never releases anything cannot be converted into a delta-min Curve (constructor panics)
        "KF14" => { catch_unwind(|| Curve::from_arrival_bound(&Never {}, 5)).is_err() && catch_unwind(|| Curve::from_arrival_bound_until(&Never {}, d(5))).is_err() }
        // KF15: intermediate overflow in Constrained::service_time for periods above 2^63 although the result is representable
        "KF15" => {
            let c = supply::Constrained::new(s(1u64 << 63), d((1u64 << 63) + 1), d((1u64 << 63) + 1));
            use response_time_analysis::supply::SupplyBound;
            match catch_unwind(|| c.service_time(s((1u64 << 63) - 1))) { Err(_) => true, Ok(v) => v != d((1u64 << 63) + 1) }
        }
        // KF16: Curve::from(&ArrivalCurvePrefix) is smaller than its source beyond the horizon (different continuation schemes)
        "KF16" => {
            let acp = ArrivalCurvePrefix::from_arrival_bound_until(&Sporadic::new(d(2), d(0)), d(5));
            let cu = Curve::from(&acp);
            cu.number_arrivals(d(6)) < acp.number_arrivals(d(6))
        }
        // KF17: ros2::bw::rta_subchain never returns in a checked build when no callback ever produces a step (end of chain
        // with arrival bound Never): the debug-only brute-force step enumeration `(0..).filter(..).peekable().peek()` searches
        // forever.  The witness runs the call in a thread and waits for two seconds.
        "KF17" => {
            use response_time_analysis::ros2;
            let (tx, rx) = std::sync::mpsc::channel();
            std::thread::spawn(move || {
                let ab = Never {}; let cm = wcet::Scalar::new(s(1));
                let wl = vec![ros2::bw::Callback::new(d(5), &ab, &cm, ros2::rr::CallbackType::Timer)];
                let sc = vec![&wl[0]];
                let r = ros2::bw::rta_subchain(&supply::Dedicated::new(), &wl, &sc, d(10));
                let _ = tx.send(r.is_ok());
            });
            rx.recv_timeout(std::time::Duration::from_secs(2)).is_err()
        }
        // KF18: limited-preemptive EDF with a task under analysis that never releases a job: `self_interference - rem_cost` underflows
        "KF18" => {
            use response_time_analysis::{demand::RBF, edf};
            let other = RBF::new(Sporadic::new(d(5), d(6)), wcet::Scalar::new(s(1)));
            let lp = vec![edf::limited_preemptive::InterferingTask { rbf: &other, deadline: d(22), max_np_segment: s(1) }];
            let r = catch_unwind(|| edf::limited_preemptive::dedicated_uniproc_rta(&edf::limited_preemptive::TaskUnderAnalysis { wcet: wcet::Scalar::new(s(2)), arrivals: &Never {}, deadline: d(38), last_np_segment: s(2) }, &lp, d(173)));
            r.is_err()   // checked build: panic; a release build wraps silently
        }
        // KF19: steps_iter of an ArrivalCurvePrefix without steps never terminates after the leading 0:
        // `(0..).flat_map(|cycle| self.steps.iter()...)` over an empty step list spins forever
        "KF19" => {
            let (tx, rx) = std::sync::mpsc::channel();
            std::thread::spawn(move || {
                let acp = ArrivalCurvePrefix::from_arrival_bound_until(&Never {}, d(10));
                let v: Vec<Duration> = acp.steps_iter().take(2).collect();
                let _ = tx.send(v.len());
            });
            rx.recv_timeout(std::time::Duration::from_secs(2)).is_err()
        }
        // KF20: Curve::from_arrival_bound of a (super-additive) Curve, cut after 2 jobs, is smaller than its source beyond the cut
        "KF20" => {
            let src = Curve::new(vec![d(2), d(6), d(9)]);
            let cu = Curve::from_arrival_bound(&src, 2);
            cu.number_arrivals(d(12)) < src.number_arrivals(d(12))
        }
        _ => { eprintln!("unknown witness {}", id); return 2; }
    };
    println!("{} {}", id, if reproduces { "reproduces" } else { "does not reproduce" });
    if reproduces { 1 } else { 0 }
}
