include!("prelude.rs"); // scratch experiment backing DESIGN.md; not framework code
verus!{

pub open spec fn clo_is<F: Fn(Duration) -> Service>(f: &F, w: spec_fn(int) -> int) -> bool {
    forall |d: Duration, s: Service| #[trigger] f.ensures((d,), s) ==> s.v() == w(d.v())
}

pub fn apply<RHS: Fn(Duration) -> Service>(limit: Duration, f: RHS) -> (r: Service)
    requires forall |d: Duration| d.v() <= limit.v() ==> #[trigger] f.requires((d,))
    ensures forall |w: spec_fn(int) -> int| #[trigger] clo_is(&f, w) ==> r.v() == w(limit.v())
{
    let r = f(limit);
    r
}

pub fn user(k: Service, limit: Duration) -> (r: Service) 
    requires k.v() + limit.v() <= u64::MAX
    ensures r.v() == k.v() + limit.v()
{
    let f = |d: Duration| -> (s: Service) requires d.v() <= limit.v() ensures s.v() == k.v() + d.v() { Service { val: k.val + d.val } };
    let r = apply(limit, f);
    proof {
        let w = |x: int| k.v() + x;
        assert(clo_is(&f, w));
    }
    r
}
}
fn main() {}
