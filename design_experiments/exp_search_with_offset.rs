use vstd::prelude::*;
use vstd::std_specs::cmp::*;
use vstd::std_specs::ops::*;
use vstd::std_specs::convert::*;
use core::cmp::Ordering;
verus! {

pub type Time = u64;

#[derive(Clone, Copy, PartialEq, Eq, PartialOrd, Ord, Debug)]
pub struct Duration { pub val: Time }
#[derive(Clone, Copy, PartialEq, Eq, PartialOrd, Ord, Debug)]
pub struct Offset { pub val: Time }
#[derive(Clone, Copy, PartialEq, Eq, PartialOrd, Ord, Debug)]
pub struct Service { pub val: Time }

impl Duration { pub open spec fn v(self) -> int { self.val as int } }
impl Offset { pub open spec fn v(self) -> int { self.val as int } }
impl Service { pub open spec fn v(self) -> int { self.val as int } }

impl PartialEqSpecImpl for Duration {
    open spec fn obeys_eq_spec() -> bool { true }
    open spec fn eq_spec(&self, other: &Duration) -> bool { self.v() == other.v() }
}
impl PartialOrdSpecImpl for Duration {
    open spec fn obeys_partial_cmp_spec() -> bool { true }
    open spec fn partial_cmp_spec(&self, other: &Duration) -> Option<Ordering> {
        if self.v() < other.v() { Some(Ordering::Less) } else if self.v() == other.v() { Some(Ordering::Equal) } else { Some(Ordering::Greater) }
    }
}
impl FromSpecImpl<u64> for Duration {
    open spec fn obeys_from_spec() -> bool { true }
    open spec fn from_spec(x: u64) -> Duration { Duration { val: x } }
}
impl From<u64> for Duration {
    fn from(x: u64) -> (r: Duration) { Duration { val: x } }
}
impl FromSpecImpl<Service> for Duration {
    open spec fn obeys_from_spec() -> bool { true }
    open spec fn from_spec(x: Service) -> Duration { Duration { val: x.val } }
}
impl From<Service> for Duration {
    fn from(x: Service) -> (r: Duration) { Duration { val: x.val } }
}

impl Offset {
    pub const fn from_time_zero(delta: Duration) -> (r: Offset)
        ensures r.v() == delta.v()
    {
        Offset { val: delta.val }
    }
    pub fn distance_to(self, t: Offset) -> (r: Duration) 
        requires self.v() <= t.v()
        ensures r.v() == t.v() - self.v()
    {
        Duration::from(t.val - self.val)
    }
}

pub trait SupplyBound {
    spec fn sbf(&self, delta: int) -> int;

    proof fn sbf_props(&self)
        ensures self.sbf(0) == 0,
          forall |a: int, b: int| #![trigger self.sbf(a), self.sbf(b)] 0 <= a <= b ==> self.sbf(a) <= self.sbf(b),
    ;

    fn provided_service(&self, delta: Duration) -> (r: Service)
        ensures r.v() == self.sbf(delta.v());

    fn service_time(&self, demand: Service) -> (r: Duration)
        ensures self.sbf(r.v()) >= demand.v(),
           forall |t: int| 0 <= t < r.v() ==> self.sbf(t) < demand.v();
}

pub enum SearchFailure {
    DivergenceLimitExceeded { offset: Offset, limit: Duration },
    AssumptionViolated,
}
pub type SearchResult = Result<Duration, SearchFailure>;

pub open spec fn mono(w: spec_fn(int) -> int) -> bool {
    forall |a: int, b: int| #![trigger w(a), w(b)] 1 <= a <= b ==> w(a) <= w(b)
}

// r is a solution at offset
pub open spec fn sol<SBF: SupplyBound + ?Sized>(s: &SBF, off: int, w: spec_fn(int) -> int, r: int) -> bool {
    s.sbf(off + r) >= w(r)
}

pub fn search_with_offset<SBF, RHS>(
    supply: &SBF,
    offset: Offset,
    divergence_limit: Duration,
    workload: &RHS,
    Ghost(w): Ghost<spec_fn(int) -> int>,
) -> (res: SearchResult)
where
    SBF: SupplyBound + ?Sized,
    RHS: Fn(Duration) -> Service,
    requires
        forall |d: Duration| workload.requires((d,)),
        forall |d: Duration, s: Service| workload.ensures((d,), s) ==> s.v() == w(d.v()),
        mono(w),
        // analysis invariant: demand is never met before the offset
        forall |r: int| r >= 1 ==> supply.sbf(offset.v() - 1) < #[trigger] w(r) || offset.v() == 0,
    ensures
        match res {
            Ok(r) => r.v() <= divergence_limit.v() && sol(supply, offset.v(), w, if r.v() < 1 { 1 } else { r.v() })
                && (forall |q: int| 1 <= q < r.v() ==> !sol(supply, offset.v(), w, q)),
            Err(_) => forall |q: int| 1 <= q <= divergence_limit.v() ==> !sol(supply, offset.v(), w, q),
        }
{
    let mut assumed_response_time = Duration::from(1);
    while assumed_response_time <= divergence_limit 
        invariant forall |d: Duration| workload.requires((d,)),
           forall |d: Duration, s: Service| workload.ensures((d,), s) ==> s.v() == w(d.v()),
           mono(w),
           forall |r: int| r >= 1 ==> supply.sbf(offset.v() - 1) < #[trigger] w(r) || offset.v() == 0,
           assumed_response_time.v() >= 1,
           forall |q: int| 1 <= q < assumed_response_time.v() ==> !sol(supply, offset.v(), w, q),
        decreases (if assumed_response_time.v() <= divergence_limit.v() { divergence_limit.v() + 1 - assumed_response_time.v() } else { 0 })
    {
        let demand = workload(assumed_response_time);
        let demand_met = Offset::from_time_zero(supply.service_time(demand));
        proof { supply.sbf_props(); }
        let response_time_bound = offset.distance_to(demand_met);
        if response_time_bound <= assumed_response_time {
            // we have converged
            return Ok(response_time_bound);
        } else {
            // continue iterating
            assumed_response_time = response_time_bound
        }
    }
    // if we get here, we failed to converge => no solution
    Err(SearchFailure::DivergenceLimitExceeded {
        offset,
        limit: divergence_limit,
    })
}

} // verus!
fn main() {}
