include!("prelude.rs"); // scratch experiment backing DESIGN.md; not framework code
// arrival::{divide_with_ceil, Periodic, Sporadic, Never, Propagated}: number_arrivals / clone_with_jitter
// bodies verbatim from /repo/src/arrival/*.rs; C10 lemmas over event sequences.
use vstd::arithmetic::div_mod::*;
use vstd::arithmetic::mul::*;
verus!{

global size_of usize == 8;   // target assumption (x86_64), listed in the trusted base

impl Duration {
    pub const fn is_non_zero(self) -> (r: bool) ensures r == (self.val > 0) { self.val > 0 }
    pub const fn zero() -> (r: Duration) ensures r.val == 0 { Duration { val: 0 } }
}
impl DivSpecImpl<Duration> for Duration {
    open spec fn obeys_div_spec() -> bool { true }
    open spec fn div_req(self, rhs: Duration) -> bool { rhs.val != 0 }
    open spec fn div_spec(self, rhs: Duration) -> u64 { self.val / rhs.val }
}
impl core::ops::Div<Duration> for Duration { type Output = u64; fn div(self, divisor: Duration) -> u64 { self.val / divisor.val } }
impl RemSpecImpl<Duration> for Duration {
    open spec fn obeys_rem_spec() -> bool { true }
    open spec fn rem_req(self, rhs: Duration) -> bool { rhs.val != 0 }
    open spec fn rem_spec(self, rhs: Duration) -> Duration { Duration { val: self.val % rhs.val } }
}
impl core::ops::Rem<Duration> for Duration { type Output = Duration; fn rem(self, divisor: Duration) -> Duration { Duration::from(self.val % divisor.val) } }

// ------------------------------------------------------------------ spec library
pub open spec fn ceil_div(a: int, b: int) -> int { (a + b - 1) / b }

pub proof fn lemma_ceil_div(a: int, b: int)
    requires a >= 0, b >= 1
    ensures ceil_div(a, b) == a / b + (if a % b > 0 { 1int } else { 0int }),
            ceil_div(a, b) >= 0,
            // characterisation: the least n with n*b >= a
            ceil_div(a, b) * b >= a, (ceil_div(a, b) - 1) * b < a || a == 0,
{
    let q = a / b; let r = a % b;
    lemma_fundamental_div_mod(a, b); lemma_mod_bound(a, b); lemma_div_pos_is_pos(a, b);
    assert(q * b == b * q) by { lemma_mul_is_commutative(q, b); }
    if r > 0 {
        assert((q + 1) * b == b * q + b) by { lemma_mul_is_distributive_add(b, q, 1); lemma_mul_is_commutative(b, q + 1); }
        lemma_fundamental_div_mod_converse(a + b - 1, b, q + 1, r - 1);
    } else {
        lemma_fundamental_div_mod_converse(a + b - 1, b, q, b - 1);
        if q >= 1 { assert((q - 1) * b == b * q - b) by { lemma_mul_is_distributive_sub(b, q, 1); lemma_mul_is_commutative(b, q - 1); } }
        else { assert(b * q == 0) by { lemma_mul_basics(b); } }
    }
}
pub proof fn lemma_ceil_div_mono(a: int, a2: int, b: int)
    requires 0 <= a <= a2, b >= 1
    ensures ceil_div(a, b) <= ceil_div(a2, b)
{
    lemma_div_is_ordered(a + b - 1, a2 + b - 1, b);
}

pub open spec fn na_sporadic(t: int, j: int, delta: int) -> int { if delta > 0 { ceil_div(delta + j, t) } else { 0 } }

/// An event sequence: non-decreasing release times.
pub open spec fn sorted(s: Seq<int>) -> bool { forall |i: int, k: int| 0 <= i <= k < s.len() ==> s[i] <= s[k] }
/// Releases `rel` are admissible for a sporadic task (T, J): there are arrival times `arr`,
/// pairwise at least T apart (in release order), and each release lies within J of its arrival.
pub open spec fn respects_sporadic(rel: Seq<int>, arr: Seq<int>, t: int, j: int) -> bool {
    &&& rel.len() == arr.len()
    &&& forall |i: int| 0 <= i < rel.len() ==> arr[i] <= #[trigger] rel[i] <= arr[i] + j
    &&& forall |i: int, k: int| #![trigger arr[i], arr[k]] 0 <= i < k < arr.len() ==> arr[k] - arr[i] >= (k - i) * t
}
/// n consecutive releases rel[i..i+n) all lie in the window [w, w + delta)
pub open spec fn run_in_window(rel: Seq<int>, i: int, n: int, w: int, delta: int) -> bool {
    0 <= i && n >= 0 && i + n <= rel.len() && forall |x: int| i <= x < i + n ==> w <= #[trigger] rel[x] < w + delta
}
/// C10 for Sporadic: no window of length delta contains more than number_arrivals(delta) releases.
/// (Stated for a run of consecutive releases; for sorted sequences every set of releases in a window is such a run.)
pub proof fn lemma_sporadic_never_undercounts(rel: Seq<int>, arr: Seq<int>, t: int, j: int, i: int, n: int, w: int, delta: int)
    requires t >= 1, j >= 0, delta >= 0, respects_sporadic(rel, arr, t, j), run_in_window(rel, i, n, w, delta)
    ensures n <= na_sporadic(t, j, delta)
{
    if n >= 1 {
        let first = i; let last = i + n - 1;
        assert(w <= rel[first] < w + delta); assert(w <= rel[last] < w + delta);
        assert(delta > 0);
        lemma_ceil_div(delta + j, t);
        let c = ceil_div(delta + j, t);
        assert(c * t >= delta + j);
        if n >= 2 {
            assert(arr[last] - arr[first] >= (last - first) * t);
            assert(arr[first] <= rel[first] && rel[last] <= arr[last] + j);
            // (n-1)*t <= arr[last]-arr[first] <= rel[last] - rel[first] + j < delta + j
            assert(last - first == n - 1);
            assert((n - 1) * t < delta + j);
            if n > c {
                assert(c * t <= (n - 1) * t) by { lemma_mul_inequality(c, n - 1, t); }
            }
        } else {
            // n == 1: delta > 0 so ceil((delta + j)/t) >= 1
            if c < 1 { assert(c * t <= 0) by { lemma_mul_inequality(c, 0, t); lemma_mul_basics(t); } }
        }
    }
}

// ------------------------------------------------------------------ extracted code
pub trait ArrivalBound {
    spec fn wf(&self) -> bool;
    spec fn na(&self, delta: int) -> int;
    /// magnitude envelope
    spec fn na_ok(&self, delta: int) -> bool;
    proof fn na_props(&self)
        requires self.wf()
        ensures self.na(0) == 0,
           forall |a: int, b: int| #![trigger self.na(a), self.na(b)] 0 <= a <= b ==> 0 <= self.na(a) <= self.na(b);
    fn number_arrivals(&self, delta: Duration) -> (r: usize)
        requires self.wf(), self.na_ok(delta.v())
        ensures r == self.na(delta.v());
}

// common helper function
fn divide_with_ceil(a: Duration, b: Duration) -> (r: u64)
    requires b.val >= 1
    ensures r == ceil_div(a.v(), b.v())
{
    proof {
        let (x, y) = (a.v(), b.v());
        lemma_ceil_div(x, y); lemma_fundamental_div_mod(x, y); lemma_mod_bound(x, y); lemma_div_pos_is_pos(x, y);
        if x % y > 0 {
            // then y >= 2, hence x / y <= x / 2: the `+ 1` cannot overflow
            assert(y >= 2) by { if y == 1 { lemma_mod_bound(x, 1); } }
            assert(2 * (x / y) <= y * (x / y)) by { lemma_mul_inequality(2, y, x / y); }
        }
    }
    a / b + (a % b > Duration::from(0)) as u64
}

#[derive(Copy, Clone, Debug)]
pub struct Periodic {
    pub period: Duration,
}
impl ArrivalBound for Periodic {
    open spec fn wf(&self) -> bool { self.period.val >= 1 }
    open spec fn na(&self, delta: int) -> int { ceil_div(delta, self.period.v()) }
    open spec fn na_ok(&self, delta: int) -> bool { true }
    proof fn na_props(&self) {
        lemma_ceil_div(0, self.period.v());
        assert forall |a: int, b: int| 0 <= a <= b implies 0 <= #[trigger] self.na(a) <= #[trigger] self.na(b) by { lemma_ceil_div(a, self.period.v()); lemma_ceil_div_mono(a, b, self.period.v()); }
    }
    fn number_arrivals(&self, delta: Duration) -> usize {
        divide_with_ceil(delta, self.period) as usize
    }
}

#[derive(Copy, Clone, Debug)]
pub struct Sporadic {
    pub min_inter_arrival: Duration,
    pub jitter: Duration,
}
impl Sporadic {
    pub fn new_zero_jitter(min_inter_arrival: Duration) -> (r: Sporadic)
        ensures r.min_inter_arrival == min_inter_arrival, r.jitter.val == 0
    {
        Sporadic {
            min_inter_arrival,
            jitter: Duration::zero(),
        }
    }
}
impl ArrivalBound for Sporadic {
    open spec fn wf(&self) -> bool { self.min_inter_arrival.val >= 1 }
    open spec fn na(&self, delta: int) -> int { na_sporadic(self.min_inter_arrival.v(), self.jitter.v(), delta) }
    open spec fn na_ok(&self, delta: int) -> bool { delta + self.jitter.v() <= u64::MAX }
    proof fn na_props(&self) {
        let (t, j) = (self.min_inter_arrival.v(), self.jitter.v());
        assert forall |a: int, b: int| 0 <= a <= b implies 0 <= #[trigger] self.na(a) <= #[trigger] self.na(b) by {
            lemma_ceil_div(b + j, t);
            if a > 0 { lemma_ceil_div(a + j, t); lemma_ceil_div_mono(a + j, b + j, t); }
        }
    }
    fn number_arrivals(&self, delta: Duration) -> usize {
        if delta.is_non_zero() {
            divide_with_ceil(delta + self.jitter, self.min_inter_arrival) as usize
        } else {
            0
        }
    }
}
impl Sporadic {
    // trait method in the crate; emitted as an inherent fn with the concrete return type (rule R11)
    fn clone_with_jitter(&self, added_jitter: Duration) -> (ab: Box<Sporadic>)
        requires self.wf(), self.jitter.v() + added_jitter.v() <= u64::MAX
        ensures ab.wf(), ab.min_inter_arrival == self.min_inter_arrival, ab.jitter.v() == self.jitter.v() + added_jitter.v(),
                forall |d: int| d > 0 ==> #[trigger] ab.na(d) == self.na(d + added_jitter.v())   // delaying each event by <= added_jitter
    {
        let mut ab = Box::new(*self);
        ab.jitter += added_jitter;
        ab
    }
}
impl Periodic {
    fn clone_with_jitter(&self, jitter: Duration) -> (ab: Box<Sporadic>)
        requires self.wf()
        ensures ab.wf(), ab.min_inter_arrival == self.period, ab.jitter == jitter
    {
        let mut ab = Box::new(Sporadic::new_zero_jitter(self.period));   // crate: Sporadic::from(*self), which is new_zero_jitter(p.period)
        ab.jitter = jitter;
        ab
    }
}

pub struct Propagated<T: ArrivalBound> {
    pub response_time_jitter: Duration,
    pub input_event_model: T,
}
impl<T: ArrivalBound> ArrivalBound for Propagated<T> {
    open spec fn wf(&self) -> bool { self.input_event_model.wf() }
    open spec fn na(&self, delta: int) -> int { if delta > 0 { self.input_event_model.na(delta + self.response_time_jitter.v()) } else { 0 } }
    open spec fn na_ok(&self, delta: int) -> bool { delta + self.response_time_jitter.v() <= u64::MAX && self.input_event_model.na_ok(delta + self.response_time_jitter.v()) }
    proof fn na_props(&self) {
        self.input_event_model.na_props();
        let j = self.response_time_jitter.v();
        assert forall |a: int, b: int| 0 <= a <= b implies 0 <= #[trigger] self.na(a) <= #[trigger] self.na(b) by {
            assert(self.input_event_model.na(0) <= self.input_event_model.na(b + j));
            if a > 0 { assert(self.input_event_model.na(a + j) <= self.input_event_model.na(b + j)); }
        }
    }
    fn number_arrivals(&self, delta: Duration) -> usize {
        if delta.is_non_zero() {
            self.input_event_model
                .number_arrivals(delta + self.response_time_jitter)
        } else {
            0
        }
    }
}

/// "Adding jitter a and then b is the same as adding a+b" (C10), for Sporadic
pub proof fn lemma_sporadic_jitter_additive(t: int, j: int, a: int, b: int, d: int)
    requires t >= 1, j >= 0, a >= 0, b >= 0, d > 0
    ensures na_sporadic(t, (j + a) + b, d) == na_sporadic(t, j + (a + b), d)
{}

}
fn main() {}
