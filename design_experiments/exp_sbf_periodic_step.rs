use vstd::prelude::*;
use vstd::arithmetic::div_mod::*;
use vstd::arithmetic::mul::*;
verus!{

pub open spec fn sbf_p(p: int, q: int, d: int) -> int {
    let slack = p - q;
    if slack > d { 0 } else {
        let k = (d - slack) / p;
        let x = 2 * slack + p * k;
        q * k + if x < d { d - x } else { 0 }
    }
}

// one-step behaviour
pub proof fn lemma_sbf_step(p: int, q: int, d: int)
    requires 1 <= q <= p, d >= 0
    ensures sbf_p(p, q, d) <= sbf_p(p, q, d + 1) <= sbf_p(p, q, d) + 1, sbf_p(p, q, d) >= 0
{
    let s = p - q;
    if s > d + 1 {
    } else if s > d {
        // d + 1 == s: k = 0
        assert((d + 1 - s) / p == 0);
    } else {
        let k = (d - s) / p;
        let r = (d - s) % p;
        lemma_fundamental_div_mod(d - s, p);
        assert(d - s == p * k + r);
        lemma_mod_bound(d - s, p);
        assert(k >= 0) by { lemma_div_pos_is_pos(d - s, p); }
        assert(q * k >= 0) by { lemma_mul_nonnegative(q, k); }
        if r + 1 < p {
            // same k
            assert(k * p == p * k) by { lemma_mul_is_commutative(p, k); }
            lemma_fundamental_div_mod_converse(d + 1 - s, p, k, r + 1);
        } else {
            assert((k + 1) * p == p * k + p) by { lemma_mul_is_distributive_add(p, k, 1); lemma_mul_is_commutative(p, k + 1); }
            lemma_fundamental_div_mod_converse(d + 1 - s, p, k + 1, 0);
            assert(q * (k + 1) == q * k + q) by { lemma_mul_is_distributive_add(q, k, 1); }
            assert(p * (k + 1) == p * k + p) by { lemma_mul_is_distributive_add(p, k, 1); }
        }
    }
}

}
fn main() {}
