#![feature(allocator_api)]
include!("prelude.rs"); // scratch experiment backing DESIGN.md; not framework code
// arrival::Curve::from_trace: statements verbatim from /repo/src/arrival/curve.rs, with rule R15
// (iterator parameter -> slice, `window.iter().rev().enumerate()` -> index loop from the back) and R6 (assert! -> vf_assert).
use std::collections::VecDeque;
use std::alloc::Allocator;
verus!{

global size_of usize == 8;

impl Offset {
    pub fn distance_to(self, t: Offset) -> (r: Duration)
        requires self.val <= t.val
        ensures r.val == t.val - self.val
    { Duration::from(t.val - self.val) }
}
impl Duration {
    pub fn min(self, o: Duration) -> (r: Duration) ensures r.val == (if self.val <= o.val { self.val } else { o.val }) { if self.val <= o.val { self } else { o } }  // shim for Ord::min
}
pub fn vf_assert(b: bool) requires b { }
// assumed specification of a std function that vstd does not cover
pub assume_specification<T, A: Allocator>[ VecDeque::<T, A>::back ](v: &VecDeque<T, A>) -> (r: Option<&T>)
    ensures r == (if v@.len() > 0 { Some(&v@[v@.len() - 1]) } else { None::<&T> });

// ------------------------------------------------------------------ spec library
pub open spec fn tv(tr: Seq<Offset>, j: int) -> int { tr[j].v() }
pub open spec fn sorted_trace(tr: Seq<Offset>) -> bool { forall |a: int, b: int| 0 <= a <= b < tr.len() ==> tv(tr, a) <= tv(tr, b) }
/// span of k+1 consecutive events ending at event j
pub open spec fn gap(tr: Seq<Offset>, j: int, k: int) -> int { tv(tr, j) - tv(tr, j - k) }
/// minimum such span among the first m events (m > k >= 1)
pub open spec fn min_gap(tr: Seq<Offset>, m: int, k: int) -> int
    decreases (if m > k + 1 { m - k - 1 } else { 0 })
{
    if m <= k + 1 { gap(tr, k, k) } else { let r = min_gap(tr, m - 1, k); let g = gap(tr, m - 1, k); if g < r { g } else { r } }
}
pub open spec fn imin(a: int, b: int) -> int { if a <= b { a } else { b } }
pub open spec fn imax0(a: int) -> int { if a >= 0 { a } else { 0 } }

/// C12: every recorded entry is the TRUE minimum distance of i+2 consecutive trace events
pub open spec fn dmin_exact(d: Seq<Duration>, tr: Seq<Offset>, m: int, prefix_jobs: int) -> bool {
    &&& d.len() == imin(imax0(m - 1), prefix_jobs)
    &&& forall |i: int| 0 <= i < d.len() ==> #[trigger] d[i].v() == min_gap(tr, m, i + 1)
}

// ------------------------------------------------------------------ extracted code
pub fn from_trace(arrival_times: &[Offset], prefix_jobs: usize) -> (d: Vec<Duration>)
    requires sorted_trace(arrival_times@), prefix_jobs < 0x1_0000_0000, arrival_times.len() < 0x1_0000_0000
    ensures dmin_exact(d@, arrival_times@, arrival_times.len() as int, prefix_jobs as int)
{
    let mut d: Vec<Duration> = Vec::with_capacity(prefix_jobs);
    let mut window: VecDeque<Offset> = VecDeque::with_capacity(prefix_jobs + 1);
    let ghost tr = arrival_times@;

    // consider all job arrivals in the trace
    let mut vf_m: usize = 0;                    // for t in arrival_times {        (rule R15)
    while vf_m < arrival_times.len()
        invariant
            tr == arrival_times@, sorted_trace(tr), vf_m <= arrival_times.len(), prefix_jobs < 0x1_0000_0000, arrival_times.len() < 0x1_0000_0000,
            window@.len() == imin(vf_m as int, prefix_jobs as int),
            forall |x: int| 0 <= x < window@.len() ==> #[trigger] window@[x] == tr[vf_m - window@.len() + x],
            dmin_exact(d@, tr, vf_m as int, prefix_jobs as int),
        decreases arrival_times.len() - vf_m
    {
        let t = arrival_times[vf_m];
        // sanity check: the arrival times must be monotonic
        proof { if window@.len() > 0 { assert(window@[window@.len() - 1] == tr[vf_m - 1]); assert(tv(tr, vf_m - 1) <= tv(tr, vf_m as int)); } }
        vf_assert(t >= *(window.back().unwrap_or(&t)));           // assert!(..)   (rule R6)
        // look at all arrival times in the sliding window, in order
        // from most recent to oldest
        let ghost d0 = d@;
        let mut i: usize = 0;                   // for (i, v) in window.iter().rev().enumerate() {     (rule R15)
        while i < window.len()
            invariant
                tr == arrival_times@, sorted_trace(tr), vf_m < arrival_times.len(), t == tr[vf_m as int], i <= window@.len(),
                window@.len() == imin(vf_m as int, prefix_jobs as int),
                forall |x: int| 0 <= x < window@.len() ==> #[trigger] window@[x] == tr[vf_m - window@.len() + x],
                dmin_exact(d0, tr, vf_m as int, prefix_jobs as int),
                d@.len() == (if i as int > d0.len() { i as int } else { d0.len() as int }),
                forall |x: int| 0 <= x < i ==> #[trigger] d@[x].v() == min_gap(tr, vf_m + 1, x + 1),
                forall |x: int| i <= x < d@.len() ==> #[trigger] d@[x] == d0[x],
            decreases window@.len() - i
        {
            let v = &window[window.len() - 1 - i];
            // Compute the separation from the current arrival t to the arrival
            // of the (i + 1)-th preceding job.
            // So if i=0, we are looking at two adjacent jobs.
            proof { assert(window@[window@.len() - 1 - i] == tr[vf_m - 1 - i]); assert(tv(tr, vf_m - 1 - i) <= tv(tr, vf_m as int)); }
            let observed_gap = v.distance_to(t);
            proof { assert(observed_gap.v() == gap(tr, vf_m as int, i + 1)); }
            if d.len() <= i {
                // we have not yet seen (i + 2) jobs in a row -> first sample
                d.push(observed_gap)
            } else {
                // update belief if we have seen two events with
                // less separation than previously observed
                proof { assert(d@[i as int] == d0[i as int]); assert(d0[i as int].v() == min_gap(tr, vf_m as int, i + 1)); }
                d[i] = d[i].min(observed_gap)
            }
            i += 1;
        }
        // add arrival time to sliding window
        window.push_back(t);
        // trim sliding window if necessary
        if window.len() > prefix_jobs {
            window.pop_front();
        }
        vf_m += 1;
    }

    // FIXME: d must not be empty
    d     // Curve::new(d)
}

}
fn main() {}
