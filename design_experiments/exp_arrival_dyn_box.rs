include!("prelude.rs"); // scratch experiment backing DESIGN.md; not framework code
verus!{
impl Duration {
    pub const fn is_non_zero(self) -> (r: bool) ensures r == (self.val > 0) { self.val > 0 }
    pub const fn zero() -> (r: Duration) ensures r.val == 0 { Duration { val: 0 } }
}
impl DivSpecImpl<Duration> for Duration {
    open spec fn obeys_div_spec() -> bool { true }
    open spec fn div_req(self, rhs: Duration) -> bool { rhs.val != 0 }
    open spec fn div_spec(self, rhs: Duration) -> u64 { self.val / rhs.val }
}
impl core::ops::Div<Duration> for Duration {
    type Output = u64;
    fn div(self, divisor: Duration) -> u64 { self.val / divisor.val }
}
impl RemSpecImpl<Duration> for Duration {
    open spec fn obeys_rem_spec() -> bool { true }
    open spec fn rem_req(self, rhs: Duration) -> bool { rhs.val != 0 }
    open spec fn rem_spec(self, rhs: Duration) -> Duration { Duration { val: self.val % rhs.val } }
}
impl core::ops::Rem<Duration> for Duration {
    type Output = Duration;
    fn rem(self, divisor: Duration) -> Duration { Duration::from(self.val % divisor.val) }
}

pub trait ArrivalBound {
    spec fn wf(&self) -> bool;
    spec fn na(&self, delta: int) -> int;
    fn number_arrivals(&self, delta: Duration) -> (r: usize)
        requires self.wf(), self.na(delta.v()) <= usize::MAX
        ensures r == self.na(delta.v());
}

impl<T: ArrivalBound + ?Sized> ArrivalBound for &T {
    open spec fn wf(&self) -> bool { (**self).wf() }
    open spec fn na(&self, delta: int) -> int { (**self).na(delta) }
    fn number_arrivals(&self, delta: Duration) -> (r: usize) { (**self).number_arrivals(delta) }
}

fn divide_with_ceil(a: Duration, b: Duration) -> (r: u64) 
    requires b.val > 0
    ensures r == (a.val + b.val - 1) / (b.val as int)
{
    a / b + (a % b > Duration::from(0)) as u64
}

#[derive(Copy, Clone, Debug)]
pub struct Sporadic {
    pub min_inter_arrival: Duration,
    pub jitter: Duration,
}

impl ArrivalBound for Sporadic {
    open spec fn wf(&self) -> bool { self.min_inter_arrival.val >= 1 }
    open spec fn na(&self, delta: int) -> int { if delta > 0 { (delta + self.jitter.v() + self.min_inter_arrival.v() - 1) / self.min_inter_arrival.v() } else { 0 } }
    fn number_arrivals(&self, delta: Duration) -> usize {
        assume(delta.v() + self.jitter.v() <= u64::MAX);
        if delta.is_non_zero() {
            divide_with_ceil(delta + self.jitter, self.min_inter_arrival) as usize
        } else {
            0
        }
    }
}
impl Sporadic {
    fn clone_with_jitter(&self, added_jitter: Duration) -> (r: Box<Sporadic>)
        requires self.wf()
        ensures r.wf(), forall |d: int| d > 0 ==> r.na(d) == self.na(d + added_jitter.v())
    {
        let mut ab = Box::new(*self);
        assume(ab.jitter.v() + added_jitter.v() <= u64::MAX);
        ab.jitter += added_jitter;
        ab
    }
}
}
fn main() {}
