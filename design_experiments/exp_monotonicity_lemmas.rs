// scratch experiment backing DESIGN.md (C17 / C19 lemma shapes); not framework code
use vstd::prelude::*;
verus!{

pub open spec fn m1(r: int) -> int { if r < 1 { 1 } else { r } }
/// naive linear scan over an abstract supply-bound function
pub open spec fn scan(sbf: spec_fn(int) -> int, off: int, w: spec_fn(int) -> int, r: int, limit: int) -> Option<int>
    decreases limit + 1 - r
{
    if r > limit { None } else if sbf(off + r) >= w(m1(r)) { Some(r) } else { scan(sbf, off, w, r + 1, limit) }
}
pub proof fn lemma_scan(sbf: spec_fn(int) -> int, off: int, w: spec_fn(int) -> int, r: int, limit: int)
    requires 0 <= r
    ensures (match scan(sbf, off, w, r, limit) {
        Some(x) => r <= x <= limit && sbf(off + x) >= w(m1(x)) && forall |q: int| r <= q < x ==> sbf(off + q) < #[trigger] w(m1(q)),
        None => forall |q: int| r <= q <= limit ==> sbf(off + q) < #[trigger] w(m1(q)),
    })
    decreases limit + 1 - r
{
    if r > limit {} else if sbf(off + r) >= w(m1(r)) {} else { lemma_scan(sbf, off, w, r + 1, limit); }
}
/// order on results: a diverging search is the top element
pub open spec fn opt_le(a: Option<int>, b: Option<int>) -> bool {
    match (a, b) { (_, None) => true, (None, Some(_)) => false, (Some(x), Some(y)) => x <= y }
}

/// C17 core: less supply and more demand never make the least solution smaller, never turn divergence into Ok
pub proof fn lemma_scan_mono(sbf1: spec_fn(int) -> int, sbf2: spec_fn(int) -> int, off: int, w1: spec_fn(int) -> int, w2: spec_fn(int) -> int, limit: int)
    requires forall |x: int| x >= 0 ==> #[trigger] sbf1(x) >= sbf2(x),      // supply 2 provides no more than supply 1
             forall |x: int| x >= 1 ==> #[trigger] w1(x) <= w2(x),           // workload 2 demands no less
             off >= 0
    ensures opt_le(scan(sbf1, off, w1, 0, limit), scan(sbf2, off, w2, 0, limit))
{
    lemma_scan(sbf1, off, w1, 0, limit); lemma_scan(sbf2, off, w2, 0, limit);
    if let Some(b) = scan(sbf2, off, w2, 0, limit) {
        assert(sbf1(off + b) >= sbf2(off + b));
        assert(w1(m1(b)) <= w2(m1(b)));
    }
}
/// C17 / C08: an Ok result does not depend on the limit
pub proof fn lemma_scan_limit_independent(sbf: spec_fn(int) -> int, off: int, w: spec_fn(int) -> int, l1: int, l2: int)
    requires l1 <= l2, scan(sbf, off, w, 0, l1).is_some()
    ensures scan(sbf, off, w, 0, l2) == scan(sbf, off, w, 0, l1)
{
    lemma_scan(sbf, off, w, 0, l1); lemma_scan(sbf, off, w, 0, l2);
}

// ---- the exhaustive FP-family evaluator (blocking b, remaining cost rem), over abstract rbf functions
pub open spec fn comb(acc: Option<int>, x: Option<int>) -> Option<int> {
    match (acc, x) { (Some(m), Some(f)) => Some(if f > m { f } else { m }), _ => None }
}
pub open spec fn ded() -> spec_fn(int) -> int { |x: int| x }
pub open spec fn w_bw(tua: spec_fn(int) -> int, hp: spec_fn(int) -> int, b: int) -> spec_fn(int) -> int { |x: int| b + hp(x) + tua(x) }
pub open spec fn w_off(tua: spec_fn(int) -> int, hp: spec_fn(int) -> int, b: int, rem: int, a: int) -> spec_fn(int) -> int { |x: int| b + (tua(a + 1) - rem) + hp(x) }
pub open spec fn f_off(tua: spec_fn(int) -> int, hp: spec_fn(int) -> int, b: int, rem: int, limit: int, a: int) -> Option<int> {
    match scan(ded(), 0, w_off(tua, hp, b, rem, a), 0, limit) { Some(af) => Some(af - a + rem), None => None }
}
pub open spec fn exh(tua: spec_fn(int) -> int, hp: spec_fn(int) -> int, b: int, rem: int, limit: int, a: int) -> Option<int>
    decreases a
{
    if a <= 0 { Some(0) } else { comb(exh(tua, hp, b, rem, limit, a - 1), f_off(tua, hp, b, rem, limit, a - 1)) }
}
pub open spec fn fpx_spec(tua: spec_fn(int) -> int, hp: spec_fn(int) -> int, b: int, rem: int, limit: int) -> Option<int> {
    match scan(ded(), 0, w_bw(tua, hp, b), 0, limit) { None => None, Some(l) => exh(tua, hp, b, rem, limit, l) }
}

pub proof fn lemma_exh_some_ge0(tua: spec_fn(int) -> int, hp: spec_fn(int) -> int, b: int, rem: int, limit: int, a: int)
    ensures exh(tua, hp, b, rem, limit, a).is_some() ==> exh(tua, hp, b, rem, limit, a).unwrap() >= 0
    decreases a
{ if a > 0 { lemma_exh_some_ge0(tua, hp, b, rem, limit, a - 1); } }

/// the exhaustive maximum is monotone in the busy-window length and in every per-offset bound
pub proof fn lemma_exh_mono(tua: spec_fn(int) -> int, hp1: spec_fn(int) -> int, hp2: spec_fn(int) -> int, b1: int, b2: int, rem: int, limit: int, a1: int, a2: int)
    requires 0 <= a1 <= a2, b1 <= b2, forall |x: int| x >= 1 ==> #[trigger] hp1(x) <= hp2(x)
    ensures opt_le(exh(tua, hp1, b1, rem, limit, a1), exh(tua, hp2, b2, rem, limit, a2))
    decreases a2
{
    if a2 > 0 {
        lemma_exh_some_ge0(tua, hp2, b2, rem, limit, a2 - 1);
        if a1 == a2 {
            lemma_exh_mono(tua, hp1, hp2, b1, b2, rem, limit, a1 - 1, a2 - 1);
            lemma_scan_mono(ded(), ded(), 0, w_off(tua, hp1, b1, rem, a1 - 1), w_off(tua, hp2, b2, rem, a2 - 1), limit);
        } else {
            lemma_exh_mono(tua, hp1, hp2, b1, b2, rem, limit, a1, a2 - 1);
        }
    }
}
/// C17 instance: more interference (added task, larger WCET, more jitter of a higher-priority task) or more blocking
/// never decreases the FP-family bound and never turns Err into Ok
pub proof fn lemma_fpx_mono(tua: spec_fn(int) -> int, hp1: spec_fn(int) -> int, hp2: spec_fn(int) -> int, b1: int, b2: int, rem: int, limit: int)
    requires b1 <= b2, forall |x: int| x >= 1 ==> #[trigger] hp1(x) <= hp2(x)
    ensures opt_le(fpx_spec(tua, hp1, b1, rem, limit), fpx_spec(tua, hp2, b2, rem, limit))
{
    lemma_scan_mono(ded(), ded(), 0, w_bw(tua, hp1, b1), w_bw(tua, hp2, b2), limit);
    lemma_scan(ded(), 0, w_bw(tua, hp1, b1), 0, limit); lemma_scan(ded(), 0, w_bw(tua, hp2, b2), 0, limit);
    if let Some(l2) = scan(ded(), 0, w_bw(tua, hp2, b2), 0, limit) {
        let l1 = scan(ded(), 0, w_bw(tua, hp1, b1), 0, limit).unwrap();
        lemma_exh_mono(tua, hp1, hp2, b1, b2, rem, limit, l1, l2);
    }
}
/// C19 instance: limited-preemptive FP with last segment 1 (rem = 0) and no blocking IS fully-preemptive FP,
/// and floating non-preemptive FP (rem = 0, blocking b) is limited-preemptive FP with last segment 1
pub proof fn lemma_lp_last1_is_fp(tua: spec_fn(int) -> int, hp: spec_fn(int) -> int, wcet: int, limit: int)
    ensures fpx_spec(tua, hp, 0, wcet - (wcet - (1 - 1)), limit) == fpx_spec(tua, hp, 0, 0, limit)
{}

}
fn main() {}
