include!("prelude.rs"); // scratch experiment backing DESIGN.md; not framework code
// wcet::{Scalar, Curve}::{cost_of_jobs, least_wcet}, demand::RBF::{service_needed, least_wcet_in_interval}:
// bodies verbatim from /repo/src/wcet/{scalar,curve}.rs and /repo/src/demand/rbf.rs
use vstd::arithmetic::div_mod::*;
use vstd::arithmetic::mul::*;
verus!{

global size_of usize == 8;

impl MulSpecImpl<u64> for Service {
    open spec fn obeys_mul_spec() -> bool { true }
    open spec fn mul_req(self, rhs: u64) -> bool { self.val * rhs <= u64::MAX }
    open spec fn mul_spec(self, rhs: u64) -> Service { Service { val: (self.val * rhs) as u64 } }
}
impl core::ops::Mul<u64> for Service { type Output = Service; fn mul(self, factor: u64) -> Service { Service::from(self.val * factor) } }
impl Service {
    pub fn none() -> (r: Service) ensures r.val == 0 { Service::from(0) }
    pub fn min(self, o: Service) -> (r: Service) ensures r.val == (if self.val <= o.val { self.val } else { o.val }) { if self.val <= o.val { self } else { o } }  // shim for Ord::min
}

// ------------------------------------------------------------------ spec library
pub open spec fn cv(w: Seq<Service>, i: int) -> int { w[i].v() }
/// well-formed cumulative-cost prefix: non-decreasing ("garbage in => garbage out" otherwise)
pub open spec fn wcet_wf(w: Seq<Service>) -> bool { forall |i: int, k: int| 0 <= i <= k < w.len() ==> cv(w, i) <= cv(w, k) }
/// whole-prefix repetition for large n
pub open spec fn cost_curve(w: Seq<Service>, n: int) -> int {
    if w.len() == 0 || n <= 0 { 0 } else {
        let len = w.len() as int; let x = n / len; let y = n % len;
        (if x > 0 { cv(w, len - 1) * x } else { 0 }) + (if y > 0 { cv(w, y - 1) } else { 0 })
    }
}
/// cost of the i-th job (1-based) as seen through job_cost_iter
pub open spec fn job_cost(w: Seq<Service>, i: int) -> int { cost_curve(w, i) - cost_curve(w, i - 1) }
pub open spec fn min_diff(w: Seq<Service>, m: int) -> int    // min over the first m per-job costs of the prefix, m >= 1
    decreases m
{
    if m <= 1 { cv(w, 0) } else { let r = min_diff(w, m - 1); let dd = cv(w, m - 1) - cv(w, m - 2); if dd < r { dd } else { r } }
}

pub proof fn lemma_cost_curve_mono(w: Seq<Service>, n: int)
    requires wcet_wf(w), n >= 0
    ensures 0 <= cost_curve(w, n) <= cost_curve(w, n + 1)
{
    if w.len() > 0 {
        let len = w.len() as int;
        lemma_fundamental_div_mod(n, len); lemma_mod_bound(n, len); lemma_div_pos_is_pos(n, len);
        let x = n / len; let y = n % len;
        lemma_mul_nonnegative(cv(w, len - 1), x);
        if y + 1 < len { lemma_fundamental_div_mod_converse(n + 1, len, x, y + 1); assert(x * len == len * x) by { lemma_mul_is_commutative(x, len); } if y > 0 { assert(cv(w, y - 1) <= cv(w, y)); } }
        else {
            assert((x + 1) * len == len * x + len) by { lemma_mul_is_distributive_add(len, x, 1); lemma_mul_is_commutative(len, x + 1); }
            lemma_fundamental_div_mod_converse(n + 1, len, x + 1, 0);
            assert(cv(w, len - 1) * (x + 1) == cv(w, len - 1) * x + cv(w, len - 1)) by { lemma_mul_is_distributive_add(cv(w, len - 1), x, 1); }
            if y > 0 { assert(cv(w, y - 1) <= cv(w, len - 1)); }
        }
    }
}

// ------------------------------------------------------------------ extracted code
pub trait JobCostModel {
    spec fn wf(&self) -> bool;
    spec fn cost(&self, n: int) -> int;
    spec fn least(&self, n: int) -> int;
    fn cost_of_jobs(&self, n: usize) -> (r: Service)
        requires self.wf(), self.cost(n as int) <= u64::MAX
        ensures r.v() == self.cost(n as int);
    fn least_wcet(&self, n: usize) -> (r: Service)
        requires self.wf()
        ensures r.v() == self.least(n as int);
}

#[derive(Debug, Clone, Copy)]
pub struct Scalar {
    /// The worst-case execution bound.
    pub wcet: Service,
}
impl JobCostModel for Scalar {
    open spec fn wf(&self) -> bool { true }
    open spec fn cost(&self, n: int) -> int { self.wcet.v() * n }
    open spec fn least(&self, n: int) -> int { if n > 0 { self.wcet.v() } else { 0 } }
    fn cost_of_jobs(&self, n: usize) -> Service {
        self.wcet * n as u64
    }

    fn least_wcet(&self, n: usize) -> Service {
        if n > 0 {
            self.wcet
        } else {
            Service::none()
        }
    }
}

#[derive(Clone, Debug)]
pub struct Curve {
    pub wcet_of_n_jobs: Vec<Service>,
}
impl JobCostModel for Curve {
    open spec fn wf(&self) -> bool { wcet_wf(self.wcet_of_n_jobs@) }
    open spec fn cost(&self, n: int) -> int { cost_curve(self.wcet_of_n_jobs@, n) }
    open spec fn least(&self, n: int) -> int {
        if n > 0 && self.wcet_of_n_jobs.len() > 0 { min_diff(self.wcet_of_n_jobs@, if n < self.wcet_of_n_jobs.len() { n } else { self.wcet_of_n_jobs.len() as int }) } else { 0 }
    }
    fn cost_of_jobs(&self, n: usize) -> Service {
        if !self.wcet_of_n_jobs.is_empty() && n > 0 {
            proof {
                let len = self.wcet_of_n_jobs.len() as int;
                lemma_fundamental_div_mod(n as int, len); lemma_mod_bound(n as int, len); lemma_div_pos_is_pos(n as int, len);
                lemma_mul_nonnegative(cv(self.wcet_of_n_jobs@, len - 1), (n as int) / len);
            }
            // resolve large 'n' by super-additivity of cost function
            let x = n / self.wcet_of_n_jobs.len();
            let y = n % self.wcet_of_n_jobs.len();
            let prefix = if x > 0 {
                self.wcet_of_n_jobs[self.wcet_of_n_jobs.len() - 1] * x as u64
            } else {
                Service::none()
            };
            let suffix = if y > 0 {
                // -1 to account for zero-based indexing: offset 0 holds cost of 1 job
                self.wcet_of_n_jobs[y - 1]
            } else {
                Service::none()
            };
            prefix + suffix
        } else {
            Service::none()
        }
    }

    fn least_wcet(&self, n: usize) -> Service {
        if n > 0 {
            proof { assume(self.wcet_of_n_jobs.len() > 0); }   // the crate indexes [0] unconditionally: `Curve::new(vec![])` + `least_wcet(1)` panics (noted in DESIGN §5)
            let mut least = self.wcet_of_n_jobs[0];
            for i in 1..self.wcet_of_n_jobs.len().min(n)
                invariant self.wf(), self.wcet_of_n_jobs.len() > 0, least.v() == min_diff(self.wcet_of_n_jobs@, i as int),
            {
                proof { assert(cv(self.wcet_of_n_jobs@, i - 1) <= cv(self.wcet_of_n_jobs@, i as int)); }
                least = least.min(self.wcet_of_n_jobs[i] - self.wcet_of_n_jobs[i - 1])
            }
            least
        } else {
            Service::none()
        }
    }
}

// ---- arrival side (contract from the arrival unit)
pub trait ArrivalBound {
    spec fn na(&self, delta: int) -> int;
    fn number_arrivals(&self, delta: Duration) -> (r: usize)
        requires 0 <= self.na(delta.v()) <= usize::MAX
        ensures r == self.na(delta.v());
}

#[derive(Clone, Debug)]
pub struct RBF<B: ArrivalBound, C: JobCostModel> {
    pub wcet: C,
    pub arrival_bound: B,
}
impl<B: ArrivalBound, C: JobCostModel> RBF<B, C> {
    /// C16: service_needed(delta) is the cost of number_arrivals(delta) jobs
    pub open spec fn rbf(&self, delta: int) -> int { self.wcet.cost(self.arrival_bound.na(delta)) }

    // impl RequestBound for RBF
    fn service_needed(&self, delta: Duration) -> (r: Service)
        requires self.wcet.wf(), 0 <= self.arrival_bound.na(delta.v()) <= usize::MAX, self.rbf(delta.v()) <= u64::MAX
        ensures r.v() == self.rbf(delta.v())
    {
        self.wcet
            .cost_of_jobs(self.arrival_bound.number_arrivals(delta))
    }

    fn least_wcet_in_interval(&self, delta: Duration) -> (r: Service)
        requires self.wcet.wf(), 0 <= self.arrival_bound.na(delta.v()) <= usize::MAX
        ensures r.v() == self.wcet.least(self.arrival_bound.na(delta.v()))
    {
        self.wcet
            .least_wcet(self.arrival_bound.number_arrivals(delta))
    }
}

}
fn main() {}
