include!("prelude.rs"); // scratch experiment backing DESIGN.md; not framework code
// edf::fully_preemptive::dedicated_uniproc_rta: statements verbatim from /repo/src/edf/fully_preemptive.rs
// (R1: .iter().map(c).sum() -> vf_sum_map; R10: iterator tail -> vf_tail_edf with an assumed contract;
//  `search` is a stub carrying the contract proved in exp_fixed_point_full.rs, specialised to the dedicated supply).
verus!{

impl Offset {
    pub const fn from_time_zero(delta: Duration) -> (r: Offset) ensures r.val == delta.val { Offset { val: delta.val } }
    pub const fn since_time_zero(self) -> (r: Duration) ensures r.val == self.val { Duration { val: self.val } }
    pub const fn closed_since_time_zero(self) -> (r: Duration) requires self.val < u64::MAX ensures r.val == self.val + 1 { Duration { val: self.val + 1 } }
}
impl Duration {
    pub const fn saturating_sub(&self, rhs: Duration) -> (r: Duration)
        ensures r.v() == sat(self.v() - rhs.v())
    { Duration { val: self.val.saturating_sub(rhs.val) } }
}
pub fn vf_min(a: Duration, b: Duration) -> (r: Duration)   // shim for std::cmp::min on Duration
    ensures r.v() == (if a.v() <= b.v() { a.v() } else { b.v() })
{ if a.val <= b.val { a } else { b } }

pub enum SearchFailure {
    DivergenceLimitExceeded { offset: Offset, limit: Duration },
    AssumptionViolated,
}
pub type SearchResult = Result<Duration, SearchFailure>;
pub open spec fn res_view(r: SearchResult) -> Option<int> { match r { Ok(d) => Some(d.v()), Err(_) => None } }

pub trait RequestBound {
    spec fn rbf(&self, delta: int) -> int;
    proof fn rbf_props(&self)
        ensures self.rbf(0) == 0,
          forall |a: int, b: int| #![trigger self.rbf(a), self.rbf(b)] 0 <= a <= b ==> self.rbf(a) <= self.rbf(b);
    fn service_needed(&self, delta: Duration) -> (r: Service)
        requires self.rbf(delta.v()) <= u64::MAX
        ensures r.v() == self.rbf(delta.v());
}

/// The per-task information required to perform the analysis.
pub struct Task<'a, RBF: RequestBound + ?Sized> {
    /// The RBF upper-bounding the task's demand.
    pub rbf: &'a RBF,
    /// The task's relative deadline.
    pub deadline: Duration,
}

// ------------------------------------------------------------------ spec library
pub open spec fn sat(x: int) -> int { if x > 0 { x } else { 0 } }
pub open spec fn imin(a: int, b: int) -> int { if a <= b { a } else { b } }
pub open spec fn m1(r: int) -> int { if r < 1 { 1 } else { r } }
pub open spec fn clo_is<F: Fn(Duration) -> Service>(f: &F, w: spec_fn(int) -> int) -> bool {
    forall |d: Duration, s: Service| #[trigger] f.ensures((d,), s) ==> s.v() == w(d.v())
}
pub open spec fn mono(w: spec_fn(int) -> int) -> bool {
    forall |a: int, b: int| #![trigger w(a), w(b)] 1 <= a <= b ==> 0 <= w(a) <= w(b)
}
pub open spec fn scan(w: spec_fn(int) -> int, r: int, limit: int) -> Option<int>
    decreases limit + 1 - r
{
    if r > limit { None } else if r >= w(m1(r)) { Some(r) } else { scan(w, r + 1, limit) }
}
pub proof fn lemma_scan(w: spec_fn(int) -> int, r: int, limit: int)
    requires 0 <= r
    ensures (match scan(w, r, limit) {
        Some(x) => r <= x <= limit && x >= w(m1(x)) && forall |q: int| r <= q < x ==> q < #[trigger] w(m1(q)),
        None => forall |q: int| r <= q <= limit ==> q < #[trigger] w(m1(q)),
    })
    decreases limit + 1 - r
{
    if r > limit {} else if r >= w(m1(r)) {} else { lemma_scan(w, r + 1, limit); }
}

/// Σ over the other tasks of rbf_o(arg(o))
pub open spec fn sum_f<R: RequestBound + ?Sized>(xs: Seq<Task<R>>, arg: spec_fn(int) -> int) -> int
    decreases xs.len()
{
    if xs.len() == 0 { 0 } else { sum_f(xs.drop_last(), arg) + xs.last().rbf.rbf(arg(xs.last().deadline.v())) }
}
pub proof fn lemma_sum_f_mono<R: RequestBound + ?Sized>(xs: Seq<Task<R>>, a1: spec_fn(int) -> int, a2: spec_fn(int) -> int)
    requires forall |t: int| 0 <= #[trigger] a1(t) <= a2(t)
    ensures 0 <= sum_f(xs, a1) <= sum_f(xs, a2)
    decreases xs.len()
{
    if xs.len() > 0 { lemma_sum_f_mono(xs.drop_last(), a1, a2); xs.last().rbf.rbf_props(); assert(0 <= a1(xs.last().deadline.v()) <= a2(xs.last().deadline.v())); }
}
pub proof fn lemma_sum_f_ext<R: RequestBound + ?Sized>(xs: Seq<Task<R>>, a1: spec_fn(int) -> int, a2: spec_fn(int) -> int)
    requires forall |i: int| 0 <= i < xs.len() ==> #[trigger] xs[i].rbf.rbf(a1(xs[i].deadline.v())) == xs[i].rbf.rbf(a2(xs[i].deadline.v()))
    ensures sum_f(xs, a1) == sum_f(xs, a2)
    decreases xs.len()
{
    if xs.len() > 0 {
        assert forall |i: int| 0 <= i < xs.drop_last().len() implies #[trigger] xs.drop_last()[i].rbf.rbf(a1(xs.drop_last()[i].deadline.v())) == xs.drop_last()[i].rbf.rbf(a2(xs.drop_last()[i].deadline.v())) by { assert(xs.drop_last()[i] == xs[i]); assert(xs[i].rbf.rbf(a1(xs[i].deadline.v())) == xs[i].rbf.rbf(a2(xs[i].deadline.v()))); }
        lemma_sum_f_ext(xs.drop_last(), a1, a2);
        assert(xs.last() == xs[xs.len() - 1]);
    }
}

// ---- the published definition, evaluated naively (every offset A in [0, L))
pub open spec fn arg_bw(x: int) -> spec_fn(int) -> int { |dlo: int| x }
/// argument at which the other task's RBF is evaluated: min(AF, (A + 1 + D) -sat D_o)
pub open spec fn arg_off(a: int, dl: int, x: int) -> spec_fn(int) -> int {
    |dlo: int| imin(x, sat(a + 1 + dl - dlo))
}
pub open spec fn w_bw<A: RequestBound + ?Sized, B: RequestBound + ?Sized>(tua: &Task<A>, ot: Seq<Task<B>>) -> spec_fn(int) -> int {
    |x: int| sum_f(ot, arg_bw(x)) + tua.rbf.rbf(x)
}
pub open spec fn w_off<A: RequestBound + ?Sized, B: RequestBound + ?Sized>(tua: &Task<A>, ot: Seq<Task<B>>, a: int) -> spec_fn(int) -> int {
    |x: int| tua.rbf.rbf(a + 1) + sum_f(ot, arg_off(a, tua.deadline.v(), x))
}
pub open spec fn comb(acc: Option<int>, x: Option<int>) -> Option<int> {
    match (acc, x) { (Some(m), Some(f)) => Some(if f > m { f } else { m }), _ => None }
}
pub open spec fn edf_f<A: RequestBound + ?Sized, B: RequestBound + ?Sized>(tua: &Task<A>, ot: Seq<Task<B>>, limit: int, a: int) -> Option<int> {
    match scan(w_off(tua, ot, a), 0, limit) { Some(af) => Some(sat(af - a)), None => None }
}
pub open spec fn edf_exh<A: RequestBound + ?Sized, B: RequestBound + ?Sized>(tua: &Task<A>, ot: Seq<Task<B>>, limit: int, a: int) -> Option<int>
    decreases a
{
    if a <= 0 { Some(0) } else { comb(edf_exh(tua, ot, limit, a - 1), edf_f(tua, ot, limit, a - 1)) }
}
pub open spec fn edf_spec<A: RequestBound + ?Sized, B: RequestBound + ?Sized>(tua: &Task<A>, ot: Seq<Task<B>>, limit: int) -> Option<int> {
    match scan(w_bw(tua, ot), 0, limit) { None => None, Some(l) => edf_exh(tua, ot, limit, l) }
}

// ---- the pruned search space of the implementation
pub open spec fn is_step<R: RequestBound + ?Sized>(rb: &R, x: int) -> bool { x >= 1 && rb.rbf(x - 1) < rb.rbf(x) }   // x is an interval length at which rbf increases
pub open spec fn in_space<A: RequestBound + ?Sized, B: RequestBound + ?Sized>(tua: &Task<A>, ot: Seq<Task<B>>, a: int) -> bool {
    ||| is_step(tua.rbf, a + 1)
    ||| exists |i: int, delta: int| 0 <= i < ot.len() && #[trigger] is_step(ot[i].rbf, delta) && a == sat(delta - 1 + ot[i].deadline.v() - tua.deadline.v())
}
pub open spec fn fold_space<A: RequestBound + ?Sized, B: RequestBound + ?Sized>(tua: &Task<A>, ot: Seq<Task<B>>, g: spec_fn(int) -> Option<int>, a: int) -> Option<int>
    decreases a
{
    if a <= 0 { Some(0) } else if in_space(tua, ot, a - 1) { comb(fold_space(tua, ot, g, a - 1), g(a - 1)) } else { fold_space(tua, ot, g, a - 1) }
}
pub open spec fn rta_is<F: Fn(Offset) -> SearchResult>(f: &F, g: spec_fn(int) -> Option<int>, max: int) -> bool {
    forall |a: Offset, r: SearchResult| a.v() < max && #[trigger] f.ensures((a,), r) ==> res_view(r) == g(a.v())
}

pub proof fn lemma_exh_bound<A: RequestBound + ?Sized, B: RequestBound + ?Sized>(tua: &Task<A>, ot: Seq<Task<B>>, limit: int, a: int, q: int)
    requires 0 <= q < a, edf_exh(tua, ot, limit, a).is_some()
    ensures edf_f(tua, ot, limit, q).is_some(), edf_f(tua, ot, limit, q).unwrap() <= edf_exh(tua, ot, limit, a).unwrap()
    decreases a
{
    if q < a - 1 { lemma_exh_bound(tua, ot, limit, a - 1, q); }
}

/// Outside the search space the offset equation coincides with the previous offset's.
pub proof fn lemma_same_equation<A: RequestBound + ?Sized, B: RequestBound + ?Sized>(tua: &Task<A>, ot: Seq<Task<B>>, a: int)
    requires a >= 1, !in_space(tua, ot, a)
    ensures w_off(tua, ot, a) =~= w_off(tua, ot, a - 1)
{
    tua.rbf.rbf_props();
    let dl = tua.deadline.v();
    assert(tua.rbf.rbf(a) == tua.rbf.rbf(a + 1));
    assert forall |x: int| #[trigger] w_off(tua, ot, a)(x) == w_off(tua, ot, a - 1)(x) by {
        assert forall |i: int| 0 <= i < ot.len() implies #[trigger] ot[i].rbf.rbf(arg_off(a, dl, x)(ot[i].deadline.v())) == ot[i].rbf.rbf(arg_off(a - 1, dl, x)(ot[i].deadline.v())) by {
            let z = a + 1 + dl - ot[i].deadline.v();
            if z >= 1 && x >= z {
                // the two arguments are z and z-1; z is not a step of this task's rbf, else a would be in the search space
                assert(!is_step(ot[i].rbf, z)) by {
                    if is_step(ot[i].rbf, z) { assert(a == sat(z - 1 + ot[i].deadline.v() - dl)); }
                }
                ot[i].rbf.rbf_props();
                assert(ot[i].rbf.rbf(z - 1) <= ot[i].rbf.rbf(z));
            }
        }
        lemma_sum_f_ext(ot, arg_off(a, dl, x), arg_off(a - 1, dl, x));
    }
}

pub proof fn lemma_prune<A: RequestBound + ?Sized, B: RequestBound + ?Sized>(tua: &Task<A>, ot: Seq<Task<B>>, limit: int, a: int)
    requires tua.rbf.rbf(1) >= 1, a >= 0
    ensures fold_space(tua, ot, |x: int| edf_f(tua, ot, limit, x), a) == edf_exh(tua, ot, limit, a)
    decreases a
{
    if a > 0 {
        lemma_prune(tua, ot, limit, a - 1);
        tua.rbf.rbf_props();
        if !in_space(tua, ot, a - 1) {
            assert(a - 1 >= 1);          // offset 0 is in the space because rbf(0) = 0 < rbf(1)
            lemma_same_equation(tua, ot, a - 1);
            if edf_exh(tua, ot, limit, a - 1).is_some() { lemma_exh_bound(tua, ot, limit, a - 1, a - 2); }
        }
    }
}

// ------------------------------------------------------------------ stubs with the contracts proved/assumed elsewhere
#[verifier::external_body]
pub fn search_ded<RHS>(limit: Duration, workload_bound: RHS) -> (res: SearchResult)   // fixed_point::search(&Dedicated, ..)
where RHS: Fn(Duration) -> Service,
    requires forall |d: Duration| 1 <= d.v() <= limit.v() ==> #[trigger] workload_bound.requires((d,))
    ensures forall |w: spec_fn(int) -> int| #![trigger clo_is(&workload_bound, w)] #![trigger mono(w)] clo_is(&workload_bound, w) && mono(w) ==> res_view(res) == scan(w, 0, limit.v())
{ unimplemented!() }

#[verifier::external_body]
pub fn vf_sum_map<R: RequestBound + ?Sized, F: Fn(&Task<R>) -> Service>(xs: &[Task<R>], f: F) -> (r: Service)    // rule R1 (verified loop in the framework)
    requires forall |i: int| 0 <= i < xs.len() ==> #[trigger] f.requires((&xs[i],)),
    ensures forall |arg: spec_fn(int) -> int| (forall |i: int, s: Service| 0 <= i < xs.len() && #[trigger] f.ensures((&xs[i],), s) ==> s.v() == xs[i].rbf.rbf(arg(xs[i].deadline.v()))) ==> r.v() == #[trigger] sum_f(xs@, arg)
{ unimplemented!() }

/// rule R10: the lazily merged search space + max_response_time, under an ASSUMED contract (bounded-checked by Kani)
#[verifier::external_body]
pub fn vf_tail_edf<A: RequestBound + ?Sized, B: RequestBound + ?Sized, F: Fn(Offset) -> SearchResult>(tua: &Task<A>, other_tasks: &[Task<B>], max_offset: Offset, rta: F) -> (res: SearchResult)
    requires forall |a: Offset| a.v() < max_offset.v() && in_space(tua, other_tasks@, a.v()) ==> #[trigger] rta.requires((a,))
    ensures forall |g: spec_fn(int) -> Option<int>| #[trigger] rta_is(&rta, g, max_offset.v()) ==> res_view(res) == fold_space(tua, other_tasks@, g, max_offset.v())
{ unimplemented!() }

pub open spec fn pre<A: RequestBound + ?Sized, B: RequestBound + ?Sized>(tua: &Task<A>, ot: Seq<Task<B>>, limit: int) -> bool {
    &&& limit < u64::MAX
    &&& tua.rbf.rbf(1) >= 1
    &&& tua.deadline.v() + limit + 1 <= u64::MAX
    &&& sum_f(ot, arg_bw(limit)) + tua.rbf.rbf(limit + 1) <= u64::MAX
    &&& forall |i: int, x: int| 0 <= i < ot.len() && x <= limit ==> #[trigger] ot[i].rbf.rbf(x) <= u64::MAX
}

pub proof fn lemma_w_mono<A: RequestBound + ?Sized, B: RequestBound + ?Sized>(tua: &Task<A>, ot: Seq<Task<B>>, a: int)
    requires a >= 0
    ensures mono(w_bw(tua, ot)), mono(w_off(tua, ot, a)),
{
    tua.rbf.rbf_props();
    let dl = tua.deadline.v();
    assert forall |x: int, y: int| 1 <= x <= y implies 0 <= #[trigger] w_bw(tua, ot)(x) <= #[trigger] w_bw(tua, ot)(y) by { lemma_sum_f_mono(ot, arg_bw(x), arg_bw(y)); }
    assert forall |x: int, y: int| 1 <= x <= y implies 0 <= #[trigger] w_off(tua, ot, a)(x) <= #[trigger] w_off(tua, ot, a)(y) by { lemma_sum_f_mono(ot, arg_off(a, dl, x), arg_off(a, dl, y)); }
}
pub proof fn lemma_off_le_bw<A: RequestBound + ?Sized, B: RequestBound + ?Sized>(tua: &Task<A>, ot: Seq<Task<B>>, a: int, x: int, lim: int)
    requires a >= 0, 0 <= x <= lim
    ensures 0 <= sum_f(ot, arg_off(a, tua.deadline.v(), x)) <= sum_f(ot, arg_bw(x)) <= sum_f(ot, arg_bw(lim))
{
    lemma_sum_f_mono(ot, arg_off(a, tua.deadline.v(), x), arg_bw(x));
    lemma_sum_f_mono(ot, arg_bw(x), arg_bw(lim));
}

// ------------------------------------------------------------------ extracted code
#[allow(non_snake_case)]
pub fn dedicated_uniproc_rta<RBF1, RBF2>(
    tua: &Task<RBF1>,
    other_tasks: &[Task<RBF2>],
    limit: Duration,
) -> (res: SearchResult)
where
    RBF1: RequestBound + ?Sized,
    RBF2: RequestBound + ?Sized,
    requires pre(tua, other_tasks@, limit.v())
    ensures res_view(res) == edf_spec(tua, other_tasks@, limit.v())
{
    proof { tua.rbf.rbf_props(); lemma_w_mono(tua, other_tasks@, 0); }
    // First, bound the maximum possible busy-window length.
    let L = search_ded(limit, |L: Duration| -> (r: Service)
        requires 1 <= L.v() <= limit.v(), pre(tua, other_tasks@, limit.v())
        ensures r.v() == w_bw(tua, other_tasks@)(L.v())
    {
        let interference_bound: Service =
            vf_sum_map(other_tasks, |ot: &Task<RBF2>| -> (s: Service) requires L.v() <= limit.v(), pre(tua, other_tasks@, limit.v()), exists |i: int| 0 <= i < other_tasks.len() && other_tasks[i] == *ot ensures s.v() == ot.rbf.rbf(L.v()) { ot.rbf.service_needed(L) });
        proof {
            tua.rbf.rbf_props();
            assert(interference_bound.v() == sum_f(other_tasks@, arg_bw(L.v())));
            lemma_sum_f_mono(other_tasks@, arg_bw(L.v()), arg_bw(limit.v()));
        }
        interference_bound + tua.rbf.service_needed(L)
    })?;
    proof { lemma_scan(w_bw(tua, other_tasks@), 0, limit.v()); }

    // Second, define the offset-specific RTA.
    let rta = |A: Offset| -> (r: SearchResult)
        requires A.v() < L.v() <= limit.v(), pre(tua, other_tasks@, limit.v())
        ensures res_view(r) == edf_f(tua, other_tasks@, limit.v(), A.v())
    {
        // Define the RHS of the equation in theorem 31 of the aRTA paper,
        // where AF = A + F.
        let rhs = |AF: Duration| -> (r: Service)
            requires 1 <= AF.v() <= limit.v(), A.v() < limit.v(), pre(tua, other_tasks@, limit.v())
            ensures r.v() == w_off(tua, other_tasks@, A.v())(AF.v())
        {
            // demand of the task under analysis
            proof { tua.rbf.rbf_props(); lemma_off_le_bw(tua, other_tasks@, A.v(), AF.v(), limit.v()); assert(tua.rbf.rbf(A.v() + 1) <= tua.rbf.rbf(limit.v() + 1)); }
            let tua_demand = tua.rbf.service_needed(A.closed_since_time_zero());

            //demand of all interfering tasks
            let bound_on_total_hep_workload: Service =
                vf_sum_map(other_tasks, |ot: &Task<RBF2>| -> (s: Service)
                    requires AF.v() <= limit.v(), A.v() < limit.v(), pre(tua, other_tasks@, limit.v()), exists |i: int| 0 <= i < other_tasks.len() && other_tasks[i] == *ot
                    ensures s.v() == ot.rbf.rbf(arg_off(A.v(), tua.deadline.v(), AF.v())(ot.deadline.v()))
                {
                    ot.rbf.service_needed(vf_min(
                        AF,
                        (A.closed_since_time_zero() + tua.deadline).saturating_sub(ot.deadline),
                    ))
                });
            proof { assert(bound_on_total_hep_workload.v() == sum_f(other_tasks@, arg_off(A.v(), tua.deadline.v(), AF.v()))); }

            tua_demand + bound_on_total_hep_workload
        };

        proof { lemma_w_mono(tua, other_tasks@, A.v()); }
        // Find the solution A+F that is the least fixed point.
        let AF = search_ded(limit, rhs)?;
        // Extract the corresponding bound.
        let F = AF.saturating_sub(A.since_time_zero());
        Ok(F)
    };

    // Third, define the search space. [...]
    let max_offset = Offset::from_time_zero(L);
    let res = vf_tail_edf(tua, other_tasks, max_offset, rta);
    proof {
        let g = |x: int| edf_f(tua, other_tasks@, limit.v(), x);
        assert(rta_is(&rta, g, max_offset.v()));
        lemma_prune(tua, other_tasks@, limit.v(), L.v());
    }
    res
}

}
fn main() {}
