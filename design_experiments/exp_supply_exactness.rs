// scratch experiment backing DESIGN.md (C09, lemma L9a: no budget placement delivers less than the SBF); not framework code
use vstd::prelude::*;
use vstd::arithmetic::div_mod::*;
use vstd::arithmetic::mul::*;
verus!{

pub open spec fn clamp(x: int, hi: int) -> int { if x < 0 { 0 } else if x > hi { hi } else { x } }
pub open spec fn max0(x: int) -> int { if x > 0 { x } else { 0 } }

/// the SBF used in the contracts of Periodic / Constrained (normal form, see exp_supply_full.rs)
pub open spec fn sbf_constrained(p: int, q: int, dl: int, t: int) -> int {
    if t < p - q { 0 } else {
        let k = (t - (p - q)) / p;
        let y = (t - (p - q)) % p;
        q * k + clamp(y - (dl - q), q)
    }
}
/// supply guaranteed in a window that starts at a period boundary
pub open spec fn aligned(p: int, q: int, dl: int, x: int) -> int { if x < 0 { 0 } else { q * (x / p) + clamp(x % p - (dl - q), q) } }

// ---- a reservation run: sigma(t) = the reservation is served in slot t
pub open spec fn cnt(sigma: spec_fn(int) -> bool, a: int, b: int) -> int
    decreases b - a
{
    if b <= a { 0 } else { cnt(sigma, a, b - 1) + if sigma(b - 1) { 1int } else { 0int } }
}
/// admissible: in every period k >= 0 (starting at phi + k*p) at least q slots are served within the first dl slots
pub open spec fn admissible(sigma: spec_fn(int) -> bool, phi: int, p: int, q: int, dl: int) -> bool {
    forall |k: int| k >= 0 ==> #[trigger] cnt(sigma, phi + k * p, phi + k * p + dl) >= q
}

pub proof fn lemma_cnt_bounds(sigma: spec_fn(int) -> bool, a: int, b: int)
    ensures 0 <= cnt(sigma, a, b) <= max0(b - a)
    decreases b - a
{ if b > a { lemma_cnt_bounds(sigma, a, b - 1); } }
pub proof fn lemma_cnt_split(sigma: spec_fn(int) -> bool, a: int, m: int, b: int)
    requires a <= m <= b
    ensures cnt(sigma, a, b) == cnt(sigma, a, m) + cnt(sigma, m, b)
    decreases b - m
{ if b > m { lemma_cnt_split(sigma, a, m, b - 1); } }

/// one period, starting at its boundary s = phi + k*p: a prefix of length y holds at least clamp(y - (dl - q), q)
pub proof fn lemma_period_prefix(sigma: spec_fn(int) -> bool, phi: int, p: int, q: int, dl: int, k: int, y: int)
    requires 1 <= q <= dl <= p, admissible(sigma, phi, p, q, dl), k >= 0, 0 <= y <= p
    ensures cnt(sigma, phi + k * p, phi + k * p + y) >= clamp(y - (dl - q), q)
{
    let s = phi + k * p;
    assert(cnt(sigma, s, s + dl) >= q);
    if y >= dl { lemma_cnt_split(sigma, s, s + dl, s + y); lemma_cnt_bounds(sigma, s + dl, s + y); }
    else { lemma_cnt_split(sigma, s, s + y, s + dl); lemma_cnt_bounds(sigma, s + y, s + dl); lemma_cnt_bounds(sigma, s, s + y); }
}
/// one period: a suffix of length h (ending at the next boundary) holds at least h - (p - q)
pub proof fn lemma_period_suffix(sigma: spec_fn(int) -> bool, phi: int, p: int, q: int, dl: int, k: int, h: int)
    requires 1 <= q <= dl <= p, admissible(sigma, phi, p, q, dl), k >= 0, 0 <= h <= p
    ensures cnt(sigma, phi + k * p + (p - h), phi + k * p + p) >= max0(h - (p - q))
{
    let s = phi + k * p;
    lemma_period_prefix(sigma, phi, p, q, dl, k, p);
    assert(cnt(sigma, s, s + p) >= q);
    lemma_cnt_split(sigma, s, s + (p - h), s + p); lemma_cnt_bounds(sigma, s, s + (p - h)); lemma_cnt_bounds(sigma, s + (p - h), s + p);
}
/// window starting at a period boundary: at least aligned(x)
pub proof fn lemma_aligned(sigma: spec_fn(int) -> bool, phi: int, p: int, q: int, dl: int, k: int, x: int)
    requires 1 <= q <= dl <= p, admissible(sigma, phi, p, q, dl), k >= 0, x >= 0
    ensures cnt(sigma, phi + k * p, phi + k * p + x) >= aligned(p, q, dl, x)
    decreases x
{
    let s = phi + k * p;
    lemma_fundamental_div_mod(x, p); lemma_mod_bound(x, p); lemma_div_pos_is_pos(x, p);
    if x < p {
        lemma_small_mod(x as nat, p as nat); lemma_basic_div(x, p);
        assert(q * (x / p) == 0) by { lemma_mul_basics(q); }
        lemma_period_prefix(sigma, phi, p, q, dl, k, x);
    } else {
        // peel off the first full period
        lemma_period_prefix(sigma, phi, p, q, dl, k, p);
        assert(phi + (k + 1) * p == s + p) by { lemma_mul_is_distributive_add_other_way(p, k, 1); }
        lemma_aligned(sigma, phi, p, q, dl, k + 1, x - p);
        lemma_cnt_split(sigma, s, s + p, s + x);
        // aligned(x) = q + aligned(x - p)
        let m = x / p; let y = x % p;
        assert(m >= 1) by { if m <= 0 { assert(p * m <= 0) by { lemma_mul_nonnegative(p, -m); lemma_mul_unary_negation(p, -m); } } }
        assert((m - 1) * p == p * m - p) by { lemma_mul_is_distributive_sub(p, m, 1); lemma_mul_is_commutative(p, m - 1); }
        lemma_fundamental_div_mod_converse(x - p, p, m - 1, y);
        assert(q * (m - 1) == q * m - q) by { lemma_mul_is_distributive_sub(q, m, 1); }
    }
}
/// aligned(.) is non-decreasing and grows by at most one per time unit (from the SBF lemma of exp_supply_full.rs)
pub proof fn lemma_aligned_step(p: int, q: int, dl: int, x: int)
    requires 1 <= q <= dl <= p, x >= 0
    ensures 0 <= aligned(p, q, dl, x) <= aligned(p, q, dl, x + 1) <= aligned(p, q, dl, x) + 1
{
    lemma_fundamental_div_mod(x, p); lemma_mod_bound(x, p); lemma_div_pos_is_pos(x, p);
    let m = x / p; let y = x % p;
    lemma_mul_nonnegative(q, m);
    assert(m * p == p * m) by { lemma_mul_is_commutative(p, m); }
    if y + 1 < p { lemma_fundamental_div_mod_converse(x + 1, p, m, y + 1); }
    else {
        assert((m + 1) * p == p * m + p) by { lemma_mul_is_distributive_add(p, m, 1); lemma_mul_is_commutative(p, m + 1); }
        lemma_fundamental_div_mod_converse(x + 1, p, m + 1, 0);
        assert(q * (m + 1) == q * m + q) by { lemma_mul_is_distributive_add(q, m, 1); }
    }
}
pub proof fn lemma_aligned_lip(p: int, q: int, dl: int, a: int, b: int)
    requires 1 <= q <= dl <= p, 0 <= a <= b
    ensures 0 <= aligned(p, q, dl, a) <= aligned(p, q, dl, b) <= aligned(p, q, dl, a) + (b - a)
    decreases b - a
{
    if a < b { lemma_aligned_lip(p, q, dl, a, b - 1); lemma_aligned_step(p, q, dl, b - 1); } else { lemma_aligned_step(p, q, dl, a); }
}
pub proof fn lemma_sbf_is_aligned(p: int, q: int, dl: int, t: int)
    requires 1 <= q <= dl <= p, t >= p - q
    ensures sbf_constrained(p, q, dl, t) == aligned(p, q, dl, t - (p - q))
{}

/// L9a: under EVERY admissible placement of the budget, EVERY window of length delta that starts at or after the
/// reservation's start contains at least sbf(delta) served slots.
pub proof fn lemma_no_placement_delivers_less(sigma: spec_fn(int) -> bool, phi: int, p: int, q: int, dl: int, t0: int, delta: int)
    requires 1 <= q <= dl <= p, admissible(sigma, phi, p, q, dl), t0 >= phi, delta >= 0
    ensures cnt(sigma, t0, t0 + delta) >= sbf_constrained(p, q, dl, delta)
{
    let s = p - q;
    lemma_cnt_bounds(sigma, t0, t0 + delta);
    if delta >= s {
        lemma_sbf_is_aligned(p, q, dl, delta);
        // position of t0 inside its period: t0 = phi + j*p + o
        let j = (t0 - phi) / p; let o = (t0 - phi) % p;
        lemma_fundamental_div_mod(t0 - phi, p); lemma_mod_bound(t0 - phi, p); lemma_div_pos_is_pos(t0 - phi, p);
        assert(j * p == p * j) by { lemma_mul_is_commutative(p, j); }
        if o == 0 {
            // window starts at a boundary
            lemma_aligned(sigma, phi, p, q, dl, j, delta);
            lemma_aligned_lip(p, q, dl, delta - s, delta);
        } else {
            let h = p - o;                       // distance to the next boundary b
            let b = phi + (j + 1) * p;
            assert(b == phi + j * p + p) by { lemma_mul_is_distributive_add_other_way(p, j, 1); }
            assert(b == t0 + h);
            if delta <= h {
                // the window lies inside one period
                lemma_period_prefix(sigma, phi, p, q, dl, j, p);
                let ps = phi + j * p;
                lemma_cnt_split(sigma, ps, t0, ps + p); lemma_cnt_split(sigma, t0, t0 + delta, ps + p);
                lemma_cnt_bounds(sigma, ps, t0); lemma_cnt_bounds(sigma, t0 + delta, ps + p);
                // inside >= q - (p - delta) = delta - s >= aligned(delta - s)   (delta - s < p)
                let x = delta - s;
                lemma_small_mod(x as nat, p as nat); lemma_basic_div(x, p);
                assert(q * (x / p) == 0) by { lemma_mul_basics(q); }
            } else {
                // head [t0, b) of length h, then an aligned window of length delta - h
                lemma_period_suffix(sigma, phi, p, q, dl, j, h);
                assert(phi + j * p + (p - h) == t0);
                lemma_aligned(sigma, phi, p, q, dl, j + 1, delta - h);
                lemma_cnt_split(sigma, t0, b, t0 + delta);
                if h <= s { lemma_aligned_lip(p, q, dl, delta - s, delta - h); }
                else { lemma_aligned_lip(p, q, dl, delta - h, delta - s); }
            }
        }
    }
}


/// consistency probe: the hypotheses are satisfiable (the always-on pattern is admissible) and nothing false follows
pub proof fn probe_admissible_nonvacuous(phi: int, p: int, q: int, dl: int)
    requires 1 <= q <= dl <= p
    ensures admissible(|t: int| true, phi, p, q, dl)
{
    let sigma = |t: int| true;
    assert forall |k: int| k >= 0 implies #[trigger] cnt(sigma, phi + k * p, phi + k * p + dl) >= q by { lemma_cnt_all(phi + k * p, phi + k * p + dl); }
}
pub proof fn lemma_cnt_all(a: int, b: int)
    requires a <= b
    ensures cnt(|t: int| true, a, b) == b - a
    decreases b - a
{ if b > a { lemma_cnt_all(a, b - 1); } }


// ------------------------------------------------------------------ L9b: the bound is attained
/// worst-case placement: budget at the very start of period 0, as late as the deadline allows afterwards
pub open spec fn worst(phi: int, p: int, q: int, dl: int) -> spec_fn(int) -> bool {
    |t: int| { let tau = t - phi; if tau < 0 { false } else if tau < p { tau < q } else { dl - q <= tau % p < dl } }
}
pub proof fn lemma_cnt_ext(s1: spec_fn(int) -> bool, s2: spec_fn(int) -> bool, a: int, b: int)
    requires forall |t: int| a <= t < b ==> #[trigger] s1(t) == s2(t)
    ensures cnt(s1, a, b) == cnt(s2, a, b)
    decreases b - a
{ if b > a { lemma_cnt_ext(s1, s2, a, b - 1); } }
/// a run of consecutive served slots [a+lo, a+hi) inside [a, a+n), nothing else served
pub proof fn lemma_cnt_block(sigma: spec_fn(int) -> bool, a: int, n: int, lo: int, hi: int)
    requires 0 <= lo <= hi <= n, forall |t: int| a <= t < a + n ==> #[trigger] sigma(t) == (a + lo <= t < a + hi)
    ensures cnt(sigma, a, a + n) == hi - lo
    decreases n
{
    if n > 0 {
        if hi == n { if lo < n { lemma_cnt_block(sigma, a, n - 1, lo, n - 1); } else { lemma_cnt_block(sigma, a, n - 1, n - 1, n - 1); } }
        else { lemma_cnt_block(sigma, a, n - 1, lo, hi); }
    }
}
pub proof fn lemma_worst_admissible(phi: int, p: int, q: int, dl: int)
    requires 1 <= q <= dl <= p
    ensures admissible(worst(phi, p, q, dl), phi, p, q, dl)
{
    let sigma = worst(phi, p, q, dl);
    assert forall |k: int| k >= 0 implies #[trigger] cnt(sigma, phi + k * p, phi + k * p + dl) >= q by {
        let s = phi + k * p;
        lemma_mul_nonnegative(k, p);
        if k == 0 {
            assert(k * p == 0) by { lemma_mul_basics(p); }
            assert forall |t: int| s <= t < s + dl implies #[trigger] sigma(t) == (s + 0 <= t < s + q) by {}
            lemma_cnt_block(sigma, s, dl, 0, q);
        } else {
            assert(k * p >= p) by { lemma_mul_inequality(1, k, p); }
            assert forall |t: int| s <= t < s + dl implies #[trigger] sigma(t) == (s + (dl - q) <= t < s + dl) by {
                let y = t - s;
                lemma_fundamental_div_mod_converse(t - phi, p, k, y);
            }
            lemma_cnt_block(sigma, s, dl, dl - q, dl);
        }
    }
}
/// under the worst placement, the window that starts right after the first budget receives EXACTLY sbf(delta)
pub proof fn lemma_worst_attains(phi: int, p: int, q: int, dl: int, delta: int)
    requires 1 <= q <= dl <= p, delta >= 0
    ensures cnt(worst(phi, p, q, dl), phi + q, phi + q + delta) == sbf_constrained(p, q, dl, delta)
    decreases delta
{
    let sigma = worst(phi, p, q, dl);
    let s = p - q;
    if delta == 0 {
        if 0 >= s { assert(0int / p == 0 && 0int % p == 0) by { lemma_small_mod(0, p as nat); lemma_basic_div(0, p); } assert(q * 0 == 0) by { lemma_mul_basics(q); } }
    } else {
        lemma_worst_attains(phi, p, q, dl, delta - 1);
        // the newly covered slot is phi + q + (delta - 1), i.e. tau = q + delta - 1
        let tau = q + delta - 1;
        if delta - 1 < s {
            // tau < p: period 0, and tau >= q: not served; sbf stays 0 unless delta == s
            if delta >= s {
                // delta == s: x = 0
                assert(0int / p == 0 && 0int % p == 0) by { lemma_small_mod(0, p as nat); lemma_basic_div(0, p); }
                assert(q * 0 == 0) by { lemma_mul_basics(q); }
            }
        } else {
            let x = delta - 1 - s;           // sbf(delta - 1) = aligned(x), tau = p + x
            lemma_fundamental_div_mod(x, p); lemma_mod_bound(x, p); lemma_div_pos_is_pos(x, p);
            let k = x / p; let y = x % p;
            lemma_mul_nonnegative(q, k);
            assert((k + 1) * p == p * k + p) by { lemma_mul_is_distributive_add(p, k, 1); lemma_mul_is_commutative(p, k + 1); }
            lemma_fundamental_div_mod_converse(tau, p, k + 1, y);          // tau % p == y
            assert(k * p == p * k) by { lemma_mul_is_commutative(p, k); }
            if y + 1 < p { lemma_fundamental_div_mod_converse(x + 1, p, k, y + 1); }
            else {
                lemma_fundamental_div_mod_converse(x + 1, p, k + 1, 0);
                assert(q * (k + 1) == q * k + q) by { lemma_mul_is_distributive_add(q, k, 1); }
            }
        }
    }
}

}
fn main() {}
