include!("prelude.rs"); // scratch experiment backing DESIGN.md; not framework code
verus!{

impl FromSpecImpl<Service> for Duration {
    open spec fn obeys_from_spec() -> bool { true }
    open spec fn from_spec(x: Service) -> Duration { Duration { val: x.val } }
}
impl From<Service> for Duration { fn from(x: Service) -> (r: Duration) { Duration { val: x.val } } }
impl FromSpecImpl<Duration> for Service {
    open spec fn obeys_from_spec() -> bool { true }
    open spec fn from_spec(x: Duration) -> Service { Service { val: x.val } }
}
impl From<Duration> for Service { fn from(x: Duration) -> (r: Service) { Service { val: x.val } } }

impl MulSpecImpl<u64> for Duration {
    open spec fn obeys_mul_spec() -> bool { true }
    open spec fn mul_req(self, rhs: u64) -> bool { self.val * rhs <= u64::MAX }
    open spec fn mul_spec(self, rhs: u64) -> Duration { Duration { val: (self.val * rhs) as u64 } }
}
impl core::ops::Mul<u64> for Duration {
    type Output = Duration;
    fn mul(self, factor: u64) -> Duration {
        Duration::from(self.val * factor)
    }
}
impl MulSpecImpl<u64> for Service {
    open spec fn obeys_mul_spec() -> bool { true }
    open spec fn mul_req(self, rhs: u64) -> bool { self.val * rhs <= u64::MAX }
    open spec fn mul_spec(self, rhs: u64) -> Service { Service { val: (self.val * rhs) as u64 } }
}
impl core::ops::Mul<u64> for Service {
    type Output = Service;
    fn mul(self, factor: u64) -> Service {
        Service::from(self.val * factor)
    }
}
impl DivSpecImpl<Duration> for Duration {
    open spec fn obeys_div_spec() -> bool { true }
    open spec fn div_req(self, rhs: Duration) -> bool { rhs.val != 0 }
    open spec fn div_spec(self, rhs: Duration) -> u64 { self.val / rhs.val }
}
impl core::ops::Div<Duration> for Duration {
    type Output = u64;
    fn div(self, divisor: Duration) -> u64 {
        self.val / divisor.val
    }
}
impl Service {
    pub fn none() -> (r: Service) ensures r.val == 0 {
        Service::from(0)
    }
    pub fn is_none(self) -> (r: bool) ensures r == (self.val == 0) {
        self.val == 0
    }
}
impl Duration {
    pub const fn zero() -> (r: Duration) ensures r.val == 0 {
        Duration { val: 0 }
    }
}

pub trait SupplyBound {
    spec fn wf(&self) -> bool;
    spec fn sbf(&self, delta: int) -> int;

    proof fn sbf_props(&self)
        requires self.wf()
        ensures self.sbf(0) == 0,
          forall |a: int, b: int| #![trigger self.sbf(a), self.sbf(b)] 0 <= a <= b ==> self.sbf(a) <= self.sbf(b) <= self.sbf(a) + (b - a),
    ;

    fn provided_service(&self, delta: Duration) -> (r: Service)
        requires self.wf()
        ensures r.v() == self.sbf(delta.v());

    spec fn st(&self, demand: int) -> int;
    proof fn st_props(&self, demand: int)
        requires self.wf(), demand >= 0
        ensures self.st(demand) >= 0, self.sbf(self.st(demand)) >= demand,
           forall |t: int| 0 <= t < self.st(demand) ==> self.sbf(t) < demand
    ;

    fn service_time(&self, demand: Service) -> (r: Duration)
        requires self.wf(), self.st(demand.v()) <= u64::MAX
        ensures r.v() == self.st(demand.v())
    {
        let mut t = Duration::from(demand);
        proof { self.st_props(demand.v()); self.sbf_props(); }
        loop 
            invariant self.wf(), self.st(demand.v()) <= u64::MAX, t.v() <= self.st(demand.v()),
               self.st(demand.v()) >= 0, self.sbf(self.st(demand.v())) >= demand.v(),
               forall |t: int| 0 <= t < self.st(demand.v()) ==> self.sbf(t) < demand.v(),
            decreases self.st(demand.v()) - t.v()
        {
            let supply = self.provided_service(t);
            if supply >= demand {
                return t;
            }
            proof { self.sbf_props(); assert(self.sbf(t.v() + (demand.v() - supply.v())) <= self.sbf(t.v()) + (demand.v() - supply.v())); }
            t += Duration::from(demand - supply);
        }
    }
}

pub struct Periodic {
    pub period: Duration,
    pub budget: Service,
}

pub open spec fn sbf_periodic(p: int, q: int, d: int) -> int {
    let slack = p - q;
    if slack > d { 0 } else {
        let k = (d - slack) / p;
        let x = 2 * slack + p * k;
        q * k + if x < d { d - x } else { 0 }
    }
}

impl SupplyBound for Periodic {
    open spec fn wf(&self) -> bool { 1 <= self.budget.val <= self.period.val }
    open spec fn sbf(&self, delta: int) -> int { sbf_periodic(self.period.v(), self.budget.v(), delta) }
    proof fn sbf_props(&self) { assume(false); }
    open spec fn st(&self, demand: int) -> int { 0 }
    proof fn st_props(&self, demand: int) { assume(false); }

    fn provided_service(&self, delta: Duration) -> Service {
        // Supply bound function of the periodic resource model,
        // as given by Shin & Lee (RTSS 2003).

        let budget = Duration::from(self.budget);

        let slack = self.period - budget;
        if slack > delta {
            return Service::none();
        }
        // implicit floor due to integer division
        let full_periods = (delta - slack) / self.period;
        let x = slack + slack + self.period * full_periods;
        let fractional_period = if x < delta {
            Service::from(delta - x)
        } else {
            Service::none()
        };

        self.budget * full_periods + fractional_period
    }

    fn service_time(&self, demand: Service) -> Duration {
        if demand.is_none() {
            return Duration::zero();
        }

        let demand = Duration::from(demand);
        let budget = Duration::from(self.budget);
        let slack = self.period - budget;

        // implicit floor due to integer division
        let full_periods = demand / budget;
        let full_budget = budget * full_periods;
        let fractional_budget = if full_budget < demand {
            slack + demand - full_budget
        } else {
            Duration::zero()
        };

        slack + self.period * full_periods + fractional_budget
    }
}
}
fn main() {}
