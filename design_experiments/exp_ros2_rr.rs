include!("prelude.rs"); // scratch experiment backing DESIGN.md; not framework code
// ros2::rr::{Callback::*, rta_subchain}: statements verbatim from /repo/src/ros2/rr.rs
// (R1 sums, R7 debug_assert -> precondition, R8 ptr::eq -> vf_ptr_eq, R9 exec const;
//  `search` is a stub with the contract proved in exp_fixed_point_full.rs)
verus!{

global size_of usize == 8;

impl Duration {
    pub const fn epsilon() -> (r: Duration) ensures r.val == 1 { Duration { val: 1 } }
    pub const fn saturating_sub(&self, rhs: Duration) -> (r: Duration) ensures r.v() == sat(self.v() - rhs.v()) { Duration { val: self.val.saturating_sub(rhs.val) } }
}
impl Service {
    pub const fn in_interval(d: Duration) -> (r: Service) ensures r.val == d.val { Service { val: d.val } }
    pub fn none() -> (r: Service) ensures r.val == 0 { Service::from(0) }
    pub const fn saturating_sub(&self, rhs: Service) -> (r: Service) ensures r.v() == sat(self.v() - rhs.v()) { Service { val: self.val.saturating_sub(rhs.val) } }
}
exec const EPSILON: Duration ensures EPSILON.val == 1 { Duration::epsilon() }
exec const EPSILON_SERVICE: Service ensures EPSILON_SERVICE.val == 1 { Service::in_interval(EPSILON) }

pub open spec fn sat(x: int) -> int { if x > 0 { x } else { 0 } }
pub open spec fn imin(a: int, b: int) -> int { if a <= b { a } else { b } }
pub open spec fn m1(r: int) -> int { if r < 1 { 1 } else { r } }

// ---- abstract models (contracts from the arrival / wcet / supply units)
pub trait ArrivalBound {
    spec fn na(&self, delta: int) -> int;
    proof fn na_props(&self)
        ensures self.na(0) == 0, forall |a: int, b: int| #![trigger self.na(a), self.na(b)] 0 <= a <= b ==> 0 <= self.na(a) <= self.na(b);
    fn number_arrivals(&self, delta: Duration) -> (r: usize)
        requires self.na(delta.v()) <= usize::MAX
        ensures r == self.na(delta.v());
}
pub trait JobCostModel {
    spec fn cost(&self, n: int) -> int;
    proof fn cost_props(&self)
        ensures self.cost(0) == 0, forall |a: int, b: int| #![trigger self.cost(a), self.cost(b)] 0 <= a <= b ==> 0 <= self.cost(a) <= self.cost(b);
    fn cost_of_jobs(&self, n: usize) -> (r: Service)
        requires self.cost(n as int) <= u64::MAX
        ensures r.v() == self.cost(n as int);
}
pub trait SupplyBound {
    spec fn sbf(&self, delta: int) -> int;
    spec fn st(&self, demand: int) -> int;
    fn provided_service(&self, delta: Duration) -> (r: Service) ensures r.v() == self.sbf(delta.v());
    fn service_time(&self, demand: Service) -> (r: Duration) requires self.st(demand.v()) <= u64::MAX ensures r.v() == self.st(demand.v());
}
pub enum SearchFailure { DivergenceLimitExceeded { offset: Offset, limit: Duration }, AssumptionViolated }
pub type SearchResult = Result<Duration, SearchFailure>;
pub open spec fn res_view(r: SearchResult) -> Option<int> { match r { Ok(d) => Some(d.v()), Err(_) => None } }
pub open spec fn clo_is<F: Fn(Duration) -> Service>(f: &F, w: spec_fn(int) -> int) -> bool {
    forall |d: Duration, s: Service| #[trigger] f.ensures((d,), s) ==> s.v() == w(d.v())
}
pub open spec fn mono(w: spec_fn(int) -> int) -> bool { forall |a: int, b: int| #![trigger w(a), w(b)] 1 <= a <= b ==> 0 <= w(a) <= w(b) }
pub open spec fn scan<S: SupplyBound + ?Sized>(s: &S, w: spec_fn(int) -> int, r: int, limit: int) -> Option<int>
    decreases limit + 1 - r
{ if r > limit { None } else if s.sbf(r) >= w(m1(r)) { Some(r) } else { scan(s, w, r + 1, limit) } }
#[verifier::external_body]
pub fn search<SBF: SupplyBound + ?Sized, RHS: Fn(Duration) -> Service>(supply: &SBF, limit: Duration, workload_bound: RHS) -> (res: SearchResult)
    requires forall |d: Duration| 1 <= d.v() <= limit.v() ==> #[trigger] workload_bound.requires((d,))
    ensures forall |w: spec_fn(int) -> int| #![trigger clo_is(&workload_bound, w)] #![trigger mono(w)] clo_is(&workload_bound, w) && mono(w) ==> res_view(res) == scan(supply, w, 0, limit.v())
{ unimplemented!() }

// ------------------------------------------------------------------ extracted code: types and helpers
pub type PolledCallbackPriority = i32;

pub fn is_higher_callback_priority_than(
    a: PolledCallbackPriority,
    b: PolledCallbackPriority,
) -> (r: bool)
    ensures r == (a < b)
{
    a < b
}

#[derive(Debug, Clone, Copy, PartialEq, Eq)]
pub enum CallbackType {
    Timer,
    EventSource,
    PolledUnknownPrio,
    Polled(PolledCallbackPriority),
}

pub struct Callback<'a, 'b, AB: ArrivalBound + ?Sized, CM: JobCostModel + ?Sized> {
    pub response_time_bound: Duration,
    pub arrival_bound: &'a AB,
    pub cost_model: &'b CM,
    pub kind: CallbackType,
}

// ---- Definitions 1-3 of the RTSS'21 paper, as spec functions
pub open spec fn direct_n(kind: CallbackType, interfered: CallbackType, arrived: int, npp: int) -> int {
    match kind {
        CallbackType::Timer | CallbackType::EventSource => arrived,
        CallbackType::PolledUnknownPrio => imin(arrived, npp + 1),
        CallbackType::Polled(p) => match interfered {
            CallbackType::Polled(q) => imin(arrived, npp + if p < q { 1int } else { 0int }),
            _ => imin(arrived, npp + 1),
        },
    }
}
impl<'a, 'b, AB: ArrivalBound + ?Sized, CM: JobCostModel + ?Sized> Callback<'a, 'b, AB, CM> {
    pub open spec fn arrived(&self, delta: int) -> int { self.arrival_bound.na(sat(delta + self.response_time_bound.v() - 1)) }
    pub open spec fn direct_spec(&self, interfered: CallbackType, delta: int, npp: int) -> int { self.cost_model.cost(direct_n(self.kind, interfered, self.arrived(delta), npp)) }
    pub open spec fn selfint_n(&self, delta: int) -> int { sat(self.arrived(delta) - 1) }
    pub open spec fn ppb(&self) -> int { self.arrival_bound.na(self.response_time_bound.v()) }
    /// magnitude envelope for all queries up to `limit`
    pub open spec fn ok(&self, limit: int) -> bool {
        &&& limit + self.response_time_bound.v() <= u64::MAX
        &&& self.arrival_bound.na(limit + self.response_time_bound.v()) < usize::MAX
        &&& self.cost_model.cost(self.arrival_bound.na(limit + self.response_time_bound.v()) + 1) <= u64::MAX
    }

    /// Direct interference bound (see Def. 1 in the paper).
    fn direct_rbf(
        &self,
        interfered_with: &CallbackType,
        delta: Duration,
        num_polling_points: usize,
    ) -> (r: Service)
        requires self.ok(delta.v()), num_polling_points < usize::MAX
        ensures r.v() == self.direct_spec(*interfered_with, delta.v(), num_polling_points as int)
    {
        proof { self.arrival_bound.na_props(); self.cost_model.cost_props();
                assert(self.arrival_bound.na(sat(delta.v() + self.response_time_bound.v() - 1)) <= self.arrival_bound.na(delta.v() + self.response_time_bound.v())); }
        let effective_interval = (delta + self.response_time_bound).saturating_sub(EPSILON);
        let arrived = self.arrival_bound.number_arrivals(effective_interval);
        let n = match self.kind {
            CallbackType::Timer | CallbackType::EventSource => arrived,
            CallbackType::PolledUnknownPrio => arrived.min(num_polling_points + 1),
            CallbackType::Polled(inf_prio) => match *interfered_with {
                CallbackType::Polled(ref_prio) => arrived.min(
                    num_polling_points
                        + is_higher_callback_priority_than(inf_prio, ref_prio) as usize,
                ),
                _ => arrived.min(num_polling_points + 1),
            },
        };
        proof { assert(self.cost_model.cost(n as int) <= self.cost_model.cost(self.arrival_bound.na(delta.v() + self.response_time_bound.v()) + 1)); }
        self.cost_model.cost_of_jobs(n)
    }

    /// A bound on the number of self-interfering instances (see Def. 2 in the paper).
    fn max_self_interfering_instances(&self, delta: Duration) -> (r: usize)
        requires self.ok(delta.v())
        ensures r == self.selfint_n(delta.v())
    {
        proof { self.arrival_bound.na_props();
                assert(self.arrival_bound.na(sat(delta.v() + self.response_time_bound.v() - 1)) <= self.arrival_bound.na(delta.v() + self.response_time_bound.v())); }
        let effective_interval = (delta + self.response_time_bound).saturating_sub(EPSILON);
        self.arrival_bound
            .number_arrivals(effective_interval)
            .saturating_sub(1)
    }

    /// A bound on self-interference.
    fn self_interference_rbf(&self, delta: Duration) -> (r: Service)
        requires self.ok(delta.v())
        ensures r.v() == self.cost_model.cost(self.selfint_n(delta.v()))
    {
        proof { self.arrival_bound.na_props(); self.cost_model.cost_props();
                assert(self.arrival_bound.na(sat(delta.v() + self.response_time_bound.v() - 1)) <= self.arrival_bound.na(delta.v() + self.response_time_bound.v()));
                assert(self.cost_model.cost(self.selfint_n(delta.v())) <= self.cost_model.cost(self.arrival_bound.na(delta.v() + self.response_time_bound.v()) + 1)); }
        self.cost_model
            .cost_of_jobs(self.max_self_interfering_instances(delta))
    }

    /// A bound on the marginal execution cost, denoted `\Omega` in Theorem 2.
    fn marginal_execution_cost(&self, delta: Duration) -> (r: Service)
        requires self.ok(delta.v())
        ensures r.v() == self.cost_model.cost(self.selfint_n(delta.v()) + 1) - self.cost_model.cost(self.selfint_n(delta.v()))
    {
        proof { self.arrival_bound.na_props(); self.cost_model.cost_props();
                assert(self.arrival_bound.na(sat(delta.v() + self.response_time_bound.v() - 1)) <= self.arrival_bound.na(delta.v() + self.response_time_bound.v()));
                assert(self.cost_model.cost(self.selfint_n(delta.v())) <= self.cost_model.cost(self.selfint_n(delta.v()) + 1));
                assert(self.cost_model.cost(self.selfint_n(delta.v()) + 1) <= self.cost_model.cost(self.arrival_bound.na(delta.v() + self.response_time_bound.v()) + 1)); }
        let n = self.max_self_interfering_instances(delta);
        self.cost_model.cost_of_jobs(n + 1) - self.cost_model.cost_of_jobs(n)
    }

    /// A bound on the maximum number of polling points "incurred" (see Def. 3 in the paper).
    fn polling_point_bound(&self) -> (r: usize)
        requires self.ok(0)
        ensures r == self.ppb()
    {
        proof { self.arrival_bound.na_props(); }
        self.arrival_bound.number_arrivals(self.response_time_bound)
    }
}


// ---- generic sum helpers (rule R1; verified loops in the framework, stubs here)
pub open spec fn sum_idx(n: int, g: spec_fn(int) -> int) -> int decreases n { if n <= 0 { 0 } else { sum_idx(n - 1, g) + g(n - 1) } }
pub proof fn lemma_sum_idx_mono(n: int, g1: spec_fn(int) -> int, g2: spec_fn(int) -> int)
    requires forall |i: int| 0 <= i < n ==> 0 <= #[trigger] g1(i) <= g2(i)
    ensures 0 <= sum_idx(n, g1) <= sum_idx(n, g2)
    decreases n
{ if n > 0 { lemma_sum_idx_mono(n - 1, g1, g2); } }
#[verifier::external_body]
pub fn vf_sum_map_service<T, F: Fn(&T) -> Service>(xs: &[T], f: F) -> (r: Service)
    requires forall |i: int| 0 <= i < xs.len() ==> #[trigger] f.requires((&xs[i],)),
    ensures forall |g: spec_fn(int) -> int| (forall |i: int, s: Service| 0 <= i < xs.len() && #[trigger] f.ensures((&xs[i],), s) ==> s.v() == g(i)) ==> r.v() == #[trigger] sum_idx(xs.len() as int, g)
{ unimplemented!() }
#[verifier::external_body]
pub fn vf_sum_map_usize<T, F: Fn(&T) -> usize>(xs: &[T], f: F) -> (r: usize)
    requires forall |i: int| 0 <= i < xs.len() ==> #[trigger] f.requires((&xs[i],)),
    ensures forall |g: spec_fn(int) -> int| (forall |i: int, s: usize| 0 <= i < xs.len() && #[trigger] f.ensures((&xs[i],), s) ==> s == g(i)) ==> r == #[trigger] sum_idx(xs.len() as int, g)
{ unimplemented!() }

// ---- pointer identity (rule R8)
pub uninterp spec fn same_obj<T>(a: &T, b: &T) -> bool;
#[verifier::external_body]
pub fn vf_ptr_eq<T>(a: &T, b: &T) -> (r: bool) ensures r == same_obj(a, b) { std::ptr::eq(a, b) }

// ---- Theorem 2, evaluated naively
pub open spec fn npp_spec<AB: ArrivalBound + ?Sized, CM: JobCostModel + ?Sized>(subchain: Seq<&Callback<AB, CM>>) -> int {
    sum_idx(subchain.len() as int, |i: int| subchain[i].ppb())
}
pub open spec fn w_s<AB: ArrivalBound + ?Sized, CM: JobCostModel + ?Sized>(workload: Seq<Callback<AB, CM>>, eoc: &Callback<AB, CM>, npp: int) -> spec_fn(int) -> int {
    |x: int| 1 + sum_idx(workload.len() as int, |i: int| if same_obj(eoc, &workload[i]) { 0 } else { workload[i].direct_spec(eoc.kind, x, npp) })
               + eoc.cost_model.cost(eoc.selfint_n(x))
}
pub open spec fn rr_spec<SBF: SupplyBound + ?Sized, AB: ArrivalBound + ?Sized, CM: JobCostModel + ?Sized>(
    supply: &SBF, workload: Seq<Callback<AB, CM>>, subchain: Seq<&Callback<AB, CM>>, limit: int) -> Option<int>
{
    let eoc = subchain[subchain.len() - 1];
    let npp = npp_spec(subchain);
    match scan(supply, w_s(workload, eoc, npp), 0, limit) {
        None => None,
        Some(s_star) => {
            let n = eoc.selfint_n(s_star);
            let omega = eoc.cost_model.cost(n + 1) - eoc.cost_model.cost(n);
            Some(supply.st(sat(supply.sbf(s_star) - 1) + omega))
        }
    }
}
pub open spec fn rr_pre<SBF: SupplyBound + ?Sized, AB: ArrivalBound + ?Sized, CM: JobCostModel + ?Sized>(
    supply: &SBF, workload: Seq<Callback<AB, CM>>, subchain: Seq<&Callback<AB, CM>>, limit: int) -> bool
{
    &&& subchain.len() >= 1
    &&& forall |i: int| 0 <= i < workload.len() ==> #[trigger] workload[i].ok(limit)
    &&& forall |i: int| 0 <= i < subchain.len() ==> #[trigger] subchain[i].ok(limit)
    &&& npp_spec(subchain) < usize::MAX
    &&& forall |x: int| 0 <= x <= limit ==> #[trigger] w_s(workload, subchain[subchain.len() - 1], npp_spec(subchain))(x) <= u64::MAX
    &&& forall |d: int| 0 <= d <= 2 * u64::MAX ==> #[trigger] supply.st(d) <= u64::MAX
}

pub proof fn lemma_w_s_mono<AB: ArrivalBound + ?Sized, CM: JobCostModel + ?Sized>(workload: Seq<Callback<AB, CM>>, eoc: &Callback<AB, CM>, npp: int)
    requires npp >= 0
    ensures mono(w_s(workload, eoc, npp))
{
    assert forall |x: int, y: int| 1 <= x <= y implies 0 <= #[trigger] w_s(workload, eoc, npp)(x) <= #[trigger] w_s(workload, eoc, npp)(y) by {
        eoc.arrival_bound.na_props(); eoc.cost_model.cost_props();
        assert(eoc.arrived(x) <= eoc.arrived(y));
        let gx = |i: int| if same_obj(eoc, &workload[i]) { 0 } else { workload[i].direct_spec(eoc.kind, x, npp) };
        let gy = |i: int| if same_obj(eoc, &workload[i]) { 0 } else { workload[i].direct_spec(eoc.kind, y, npp) };
        assert forall |i: int| 0 <= i < workload.len() implies 0 <= #[trigger] gx(i) <= gy(i) by {
            workload[i].arrival_bound.na_props(); workload[i].cost_model.cost_props();
            assert(0 <= workload[i].arrived(x) <= workload[i].arrived(y));
            assert(0 <= direct_n(workload[i].kind, eoc.kind, workload[i].arrived(x), npp) <= direct_n(workload[i].kind, eoc.kind, workload[i].arrived(y), npp));
        }
        lemma_sum_idx_mono(workload.len() as int, gx, gy);
    }
}

impl<'a, 'b, AB: ArrivalBound + ?Sized, CM: JobCostModel + ?Sized> Callback<'a, 'b, AB, CM> {
    /// The total polling-point bound of a subchain [...] See Def. 3 in the paper.
    fn subchain_polling_point_bound(subchain: &[&Callback<AB, CM>]) -> (r: usize)
        requires forall |i: int| 0 <= i < subchain.len() ==> #[trigger] subchain[i].ok(0), npp_spec(subchain@) <= usize::MAX
        ensures r == npp_spec(subchain@)
    {
        let r = vf_sum_map_usize(subchain, |cb: &&Callback<AB, CM>| -> (n: usize) requires cb.ok(0) ensures n == cb.ppb() { cb.polling_point_bound() });
        proof { assert(r == sum_idx(subchain.len() as int, |i: int| subchain@[i].ppb())); }
        r
    }
}

/// Round-robin-aware chain analysis (see Theorem 2 in the paper).
#[allow(non_snake_case)]
pub fn rta_subchain<SBF, AB, CM>(
    supply: &SBF,
    workload: &[Callback<AB, CM>],
    subchain: &[&Callback<AB, CM>],
    limit: Duration,
) -> (res: SearchResult)
where
    SBF: SupplyBound + ?Sized,
    AB: ArrivalBound + ?Sized,
    CM: JobCostModel + ?Sized,
    requires rr_pre(supply, workload@, subchain@, limit.v())
    ensures res_view(res) == rr_spec(supply, workload@, subchain@, limit.v())
{
    // callback at the end of the chain under analysis
    let eoc = subchain.last().expect("subchain must not be empty");

    // check that we are actually given a proper subchain [...]
    // debug_assert!(subchain.iter().all(|sc_cb| workload.iter().any(|wl_cb| std::ptr::eq(*sc_cb, wl_cb))), ..)   (R7: precondition of C20)

    // Step 1: find the fixed point S*.

    // compute a bound on the maximum number of polling points in the analysis window
    proof { assert forall |i: int| 0 <= i < subchain.len() implies #[trigger] subchain[i].ok(0) by { let c = subchain[i]; c.arrival_bound.na_props(); c.cost_model.cost_props(); assert(c.ok(limit.v()));
              assert(c.arrival_bound.na(0 + c.response_time_bound.v()) <= c.arrival_bound.na(limit.v() + c.response_time_bound.v()));
              assert(c.cost_model.cost(c.arrival_bound.na(0 + c.response_time_bound.v()) + 1) <= c.cost_model.cost(c.arrival_bound.na(limit.v() + c.response_time_bound.v()) + 1)); } }
    let max_num_polling_points = Callback::subchain_polling_point_bound(subchain);
    let ghost npp = npp_spec(subchain@);
    proof {
        let g0 = |i: int| 0int; let g1 = |i: int| subchain@[i].ppb();
        assert forall |i: int| 0 <= i < subchain.len() implies 0 <= #[trigger] g0(i) <= g1(i) by { subchain@[i].arrival_bound.na_props(); }
        lemma_sum_idx_mono(subchain.len() as int, g0, g1);
    }

    let rhs_S_star = |s_star: Duration| -> (r: Service)
        requires 1 <= s_star.v() <= limit.v(), rr_pre(supply, workload@, subchain@, limit.v()), max_num_polling_points == npp_spec(subchain@), *eoc == subchain@[subchain.len() - 1]
        ensures r.v() == w_s(workload@, *eoc, npp_spec(subchain@))(s_star.v())
    {
        let di = vf_sum_map_service(workload, |cb: &Callback<AB, CM>| -> (s: Service)
                requires s_star.v() <= limit.v(), cb.ok(limit.v()), max_num_polling_points < usize::MAX
                ensures s.v() == (if same_obj(*eoc, cb) { 0 } else { cb.direct_spec(eoc.kind, s_star.v(), max_num_polling_points as int) })
            {
                if vf_ptr_eq(*eoc, cb) {
                    // Don't count the end of the chain, which is
                    // accounted for as self-interference.
                    Service::none()
                } else {
                    proof { cb.arrival_bound.na_props(); cb.cost_model.cost_props(); assert(cb.ok(s_star.v())) by {
                        assert(cb.arrival_bound.na(s_star.v() + cb.response_time_bound.v()) <= cb.arrival_bound.na(limit.v() + cb.response_time_bound.v()));
                        assert(cb.cost_model.cost(cb.arrival_bound.na(s_star.v() + cb.response_time_bound.v()) + 1) <= cb.cost_model.cost(cb.arrival_bound.na(limit.v() + cb.response_time_bound.v()) + 1)); } }
                    cb.direct_rbf(&eoc.kind, s_star, max_num_polling_points)
                }
            });
        proof {
            let g = |i: int| if same_obj(*eoc, &workload@[i]) { 0 } else { workload@[i].direct_spec(eoc.kind, s_star.v(), npp_spec(subchain@)) };
            assert(di.v() == sum_idx(workload.len() as int, g));
            let e = *eoc; e.arrival_bound.na_props(); e.cost_model.cost_props();
            assert(e.ok(s_star.v())) by {
                assert(e.ok(limit.v()));
                assert(e.arrival_bound.na(s_star.v() + e.response_time_bound.v()) <= e.arrival_bound.na(limit.v() + e.response_time_bound.v()));
                assert(e.cost_model.cost(e.arrival_bound.na(s_star.v() + e.response_time_bound.v()) + 1) <= e.cost_model.cost(e.arrival_bound.na(limit.v() + e.response_time_bound.v()) + 1)); }
            assert(w_s(workload@, e, npp_spec(subchain@))(s_star.v()) <= u64::MAX);
        }
        let si = eoc.self_interference_rbf(s_star);
        EPSILON_SERVICE + di + si
    };

    proof { lemma_w_s_mono(workload@, *eoc, npp_spec(subchain@)); }
    let S_star = search(supply, limit, rhs_S_star)?;

    // Step 2: find the response-time bound R*.
    proof { assume(S_star.v() <= limit.v()); let e = *eoc; e.arrival_bound.na_props(); e.cost_model.cost_props();
            assert(e.ok(S_star.v())) by {
                assert(e.ok(limit.v()));
                assert(e.arrival_bound.na(S_star.v() + e.response_time_bound.v()) <= e.arrival_bound.na(limit.v() + e.response_time_bound.v()));
                assert(e.cost_model.cost(e.arrival_bound.na(S_star.v() + e.response_time_bound.v()) + 1) <= e.cost_model.cost(e.arrival_bound.na(limit.v() + e.response_time_bound.v()) + 1)); } }

    let supply_star = supply.provided_service(S_star);
    let omega = eoc.marginal_execution_cost(S_star);
    proof { let e = *eoc; e.cost_model.cost_props(); assert(omega.v() <= e.cost_model.cost(e.selfint_n(S_star.v()) + 1)); assume(supply_star.v() + omega.v() <= u64::MAX); }
    let rhs_R_star = supply_star.saturating_sub(EPSILON_SERVICE) + omega;

    // we can directly solve the inequality
    Ok(supply.service_time(rhs_R_star))
}

}
fn main() {}
