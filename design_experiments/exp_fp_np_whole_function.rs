include!("prelude.rs"); // scratch experiment backing DESIGN.md; not framework code
// fixed_priority::fully_nonpreemptive::dedicated_uniproc_rta: statements verbatim from /repo/src/fixed_priority/fully_nonpreemptive.rs
// (R1, R10 as in exp_fp_whole_function.rs; RBF/Scalar/&T-forwarding as in /repo/src/demand/rbf.rs, wcet/scalar.rs, auto_impl)
use vstd::arithmetic::mul::*;
verus!{

global size_of usize == 8;


impl Offset {
    pub const fn from_time_zero(delta: Duration) -> (r: Offset) ensures r.val == delta.val { Offset { val: delta.val } }
    pub const fn since_time_zero(self) -> (r: Duration) ensures r.val == self.val { Duration { val: self.val } }
    pub const fn closed_since_time_zero(self) -> (r: Duration) requires self.val < u64::MAX ensures r.val == self.val + 1 { Duration { val: self.val + 1 } }
}

pub enum SearchFailure {
    DivergenceLimitExceeded { offset: Offset, limit: Duration },
    AssumptionViolated,
}
pub type SearchResult = Result<Duration, SearchFailure>;

pub open spec fn res_view(r: SearchResult) -> Option<int> {
    match r { Ok(d) => Some(d.v()), Err(_) => None }
}

pub trait RequestBound {
    spec fn rbf(&self, delta: int) -> int;
    proof fn rbf_props(&self)
        ensures self.rbf(0) == 0,
          forall |a: int, b: int| #![trigger self.rbf(a), self.rbf(b)] 0 <= a <= b ==> self.rbf(a) <= self.rbf(b);
    fn service_needed(&self, delta: Duration) -> (r: Service)
        requires self.rbf(delta.v()) <= u64::MAX
        ensures r.v() == self.rbf(delta.v());
}

pub open spec fn sum_rbf<T: RequestBound>(xs: Seq<T>, d: int) -> int 
    decreases xs.len()
{
    if xs.len() == 0 { 0 } else { sum_rbf(xs.drop_last(), d) + xs.last().rbf(d) }
}
pub proof fn lemma_sum_rbf_mono<T: RequestBound>(xs: Seq<T>, a: int, b: int)
    requires 0 <= a <= b
    ensures 0 <= sum_rbf(xs, a) <= sum_rbf(xs, b)
    decreases xs.len()
{
    if xs.len() > 0 { lemma_sum_rbf_mono(xs.drop_last(), a, b); xs.last().rbf_props(); }
}

pub open spec fn clo_is<F: Fn(Duration) -> Service>(f: &F, w: spec_fn(int) -> int) -> bool {
    forall |d: Duration, s: Service| #[trigger] f.ensures((d,), s) ==> s.v() == w(d.v())
}
pub open spec fn mono(w: spec_fn(int) -> int) -> bool {
    forall |a: int, b: int| #![trigger w(a), w(b)] 1 <= a <= b ==> 0 <= w(a) <= w(b)
}
pub open spec fn m1(r: int) -> int { if r < 1 { 1 } else { r } }

// naive linear scan (dedicated supply): least r in [r, limit] with r >= w(max(r,1))
pub open spec fn scan(w: spec_fn(int) -> int, r: int, limit: int) -> Option<int>
    decreases limit + 1 - r
{
    if r > limit { None }
    else if r >= w(m1(r)) { Some(r) }
    else { scan(w, r + 1, limit) }
}
pub proof fn lemma_scan(w: spec_fn(int) -> int, r: int, limit: int)
    requires 0 <= r
    ensures (match scan(w, r, limit) {
        Some(x) => r <= x <= limit && x >= w(m1(x)) && forall |q: int| r <= q < x ==> q < #[trigger] w(m1(q)),
        None => forall |q: int| r <= q <= limit ==> q < #[trigger] w(m1(q)),
    })
    decreases limit + 1 - r
{
    if r > limit {} else if r >= w(m1(r)) {} else { lemma_scan(w, r + 1, limit); }
}

#[verifier::external_body]
pub fn search_ded<RHS>(limit: Duration, workload_bound: RHS) -> (res: SearchResult)
where RHS: Fn(Duration) -> Service,
    requires forall |d: Duration| 1 <= d.v() <= limit.v() ==> #[trigger] workload_bound.requires((d,))
    ensures forall |w: spec_fn(int) -> int| #![trigger clo_is(&workload_bound, w)] #![trigger mono(w)] clo_is(&workload_bound, w) && mono(w) ==> res_view(res) == scan(w, 0, limit.v())
{ unimplemented!() }

#[verifier::external_body]
pub fn vf_sum_map<T: RequestBound, F: Fn(&T) -> Service>(xs: &[T], f: F) -> (r: Service)
    requires forall |i: int| 0 <= i < xs.len() ==> #[trigger] f.requires((&xs[i],)),
    ensures forall |d: int| (forall |i: int, s: Service| 0 <= i < xs.len() && #[trigger] f.ensures((&xs[i],), s) ==> s.v() == xs[i].rbf(d)) ==> r.v() == #[trigger] sum_rbf(xs@, d)
{ unimplemented!() }


impl Service {
    pub const fn epsilon() -> (r: Service) ensures r.val == 1 { Service { val: 1 } }
}
impl FromSpecImpl<Service> for Duration {
    open spec fn obeys_from_spec() -> bool { true }
    open spec fn from_spec(x: Service) -> Duration { Duration { val: x.val } }
}
impl From<Service> for Duration { fn from(x: Service) -> (r: Duration) { Duration { val: x.val } } }
impl MulSpecImpl<u64> for Service {
    open spec fn obeys_mul_spec() -> bool { true }
    open spec fn mul_req(self, rhs: u64) -> bool { self.val * rhs <= u64::MAX }
    open spec fn mul_spec(self, rhs: u64) -> Service { Service { val: (self.val * rhs) as u64 } }
}
impl core::ops::Mul<u64> for Service { type Output = Service; fn mul(self, factor: u64) -> Service { Service::from(self.val * factor) } }

// ---- arrival / cost / RBF plumbing (contracts as in the arrival and wcet units)
pub trait ArrivalBound {
    spec fn na(&self, delta: int) -> int;
    proof fn na_props(&self)
        ensures self.na(0) == 0, forall |a: int, b: int| #![trigger self.na(a), self.na(b)] 0 <= a <= b ==> 0 <= self.na(a) <= self.na(b);
    fn number_arrivals(&self, delta: Duration) -> (r: usize)
        requires self.na(delta.v()) <= usize::MAX
        ensures r == self.na(delta.v());
}
// what #[auto_impl(&)] generates
impl<T: ArrivalBound + ?Sized> ArrivalBound for &T {
    open spec fn na(&self, delta: int) -> int { (**self).na(delta) }
    proof fn na_props(&self) { (**self).na_props(); }
    fn number_arrivals(&self, delta: Duration) -> (r: usize) { (**self).number_arrivals(delta) }
}
#[derive(Debug, Clone, Copy)]
pub struct Scalar {
    /// The worst-case execution bound.
    pub wcet: Service,
}
impl Scalar {
    fn cost_of_jobs(&self, n: usize) -> (r: Service)
        requires self.wcet.v() * n <= u64::MAX
        ensures r.v() == self.wcet.v() * n
    {
        self.wcet * n as u64
    }
}
pub struct RBF<B: ArrivalBound> {
    pub wcet: Scalar,
    pub arrival_bound: B,
}
impl<B: ArrivalBound> RBF<B> {
    pub fn new(ab: B, cm: Scalar) -> (r: RBF<B>)
        ensures r.wcet == cm, r.arrival_bound == ab
    {
        RBF {
            wcet: cm,
            arrival_bound: ab,
        }
    }
}
impl<B: ArrivalBound> RequestBound for RBF<B> {
    open spec fn rbf(&self, delta: int) -> int { self.wcet.wcet.v() * self.arrival_bound.na(delta) }
    proof fn rbf_props(&self) {
        self.arrival_bound.na_props();
        let c = self.wcet.wcet.v();
        assert(c * 0 == 0) by { lemma_mul_basics(c); }
        assert forall |a: int, b: int| 0 <= a <= b implies #[trigger] self.rbf(a) <= #[trigger] self.rbf(b) by {
            lemma_mul_inequality(self.arrival_bound.na(a), self.arrival_bound.na(b), c);
            lemma_mul_is_commutative(c, self.arrival_bound.na(a)); lemma_mul_is_commutative(c, self.arrival_bound.na(b));
        }
    }
    fn service_needed(&self, delta: Duration) -> Service {
        proof { self.arrival_bound.na_props(); assume(self.arrival_bound.na(delta.v()) <= usize::MAX); }   // magnitude envelope (a `requires` in the framework)
        self.wcet
            .cost_of_jobs(self.arrival_bound.number_arrivals(delta))
    }
}

/// The information about the task under analysis required to perform the analysis.
pub struct TaskUnderAnalysis<'a, AB: ArrivalBound + ?Sized> {
    /// The task's WCET.
    pub wcet: Scalar,
    /// The task's arrival bound.
    pub arrivals: &'a AB,
    /// The `blocking_bound` [...]
    pub blocking_bound: Service,
}

// ---------- spec of the NP/LP/floating FP family (exhaustive definition): blocking b, remaining cost rem
pub open spec fn w_bw<A: RequestBound + ?Sized, B: RequestBound>(tua: &A, hp: Seq<B>, b: int) -> spec_fn(int) -> int {
    |x: int| b + sum_rbf(hp, x) + tua.rbf(x)
}
pub open spec fn w_off<A: RequestBound + ?Sized, B: RequestBound>(tua: &A, hp: Seq<B>, b: int, rem: int, a: int) -> spec_fn(int) -> int {
    |x: int| b + (tua.rbf(a + 1) - rem) + sum_rbf(hp, x)
}
pub open spec fn comb(acc: Option<int>, x: Option<int>) -> Option<int> {
    match (acc, x) { (Some(m), Some(f)) => Some(if f > m { f } else { m }), _ => None }
}
pub open spec fn fp_F<A: RequestBound + ?Sized, B: RequestBound>(tua: &A, hp: Seq<B>, b: int, rem: int, limit: int, a: int) -> Option<int> {
    match scan(w_off(tua, hp, b, rem, a), 0, limit) { Some(af) => Some(af - a + rem), None => None }
}
pub open spec fn fp_exh<A: RequestBound + ?Sized, B: RequestBound>(tua: &A, hp: Seq<B>, b: int, rem: int, limit: int, a: int) -> Option<int>
    decreases a
{
    if a <= 0 { Some(0) } else { comb(fp_exh(tua, hp, b, rem, limit, a - 1), fp_F(tua, hp, b, rem, limit, a - 1)) }
}
pub open spec fn fp_spec<A: RequestBound + ?Sized, B: RequestBound>(tua: &A, hp: Seq<B>, b: int, rem: int, limit: int) -> Option<int> {
    match scan(w_bw(tua, hp, b), 0, limit) { None => None, Some(l) => fp_exh(tua, hp, b, rem, limit, l) }
}
pub open spec fn is_step<A: RequestBound + ?Sized>(tua: &A, a: int) -> bool { tua.rbf(a) < tua.rbf(a + 1) }
pub open spec fn fold_steps<A: RequestBound + ?Sized>(tua: &A, g: spec_fn(int) -> Option<int>, a: int) -> Option<int>
    decreases a
{
    if a <= 0 { Some(0) } else if is_step(tua, a - 1) { comb(fold_steps(tua, g, a - 1), g(a - 1)) } else { fold_steps(tua, g, a - 1) }
}
pub open spec fn rta_is<F: Fn(Offset) -> SearchResult>(f: &F, g: spec_fn(int) -> Option<int>, max: int) -> bool {
    forall |a: Offset, r: SearchResult| a.v() < max && #[trigger] f.ensures((a,), r) ==> res_view(r) == g(a.v())
}
#[verifier::external_body]
pub fn vf_tail_steps_below<RB: RequestBound + ?Sized, F: Fn(Offset) -> SearchResult>(rb: &RB, max_offset: Offset, rta: F) -> (res: SearchResult)
    requires forall |a: Offset| a.v() < max_offset.v() && is_step(rb, a.v()) ==> #[trigger] rta.requires((a,))
    ensures forall |g: spec_fn(int) -> Option<int>| #[trigger] rta_is(&rta, g, max_offset.v()) ==> res_view(res) == fold_steps(rb, g, max_offset.v())
{ unimplemented!() }

pub proof fn lemma_exh_bound<A: RequestBound + ?Sized, B: RequestBound>(tua: &A, hp: Seq<B>, b: int, rem: int, limit: int, a: int, q: int)
    requires 0 <= q < a, fp_exh(tua, hp, b, rem, limit, a).is_some()
    ensures fp_F(tua, hp, b, rem, limit, q).is_some(), fp_F(tua, hp, b, rem, limit, q).unwrap() <= fp_exh(tua, hp, b, rem, limit, a).unwrap()
    decreases a
{ if q < a - 1 { lemma_exh_bound(tua, hp, b, rem, limit, a - 1, q); } }

pub proof fn lemma_prune<A: RequestBound + ?Sized, B: RequestBound>(tua: &A, hp: Seq<B>, b: int, rem: int, limit: int, a: int)
    requires tua.rbf(1) >= 1, a >= 0
    ensures fold_steps(tua, |x: int| fp_F(tua, hp, b, rem, limit, x), a) == fp_exh(tua, hp, b, rem, limit, a)
    decreases a
{
    if a > 0 {
        lemma_prune(tua, hp, b, rem, limit, a - 1);
        tua.rbf_props();
        if !is_step(tua, a - 1) {
            assert(a - 1 >= 1);
            assert(tua.rbf(a) == tua.rbf(a - 1));
            assert(w_off(tua, hp, b, rem, a - 1) =~= w_off(tua, hp, b, rem, a - 2)) by {
                assert forall |x: int| #[trigger] w_off(tua, hp, b, rem, a - 1)(x) == w_off(tua, hp, b, rem, a - 2)(x) by {}
            }
            if fp_exh(tua, hp, b, rem, limit, a - 1).is_some() { lemma_exh_bound(tua, hp, b, rem, limit, a - 1, a - 2); }
        }
    }
}
pub proof fn lemma_w_mono<A: RequestBound + ?Sized, B: RequestBound>(tua: &A, hp: Seq<B>, b: int, rem: int, a: int)
    requires a >= 0, b >= 0, tua.rbf(a + 1) >= rem
    ensures mono(w_bw(tua, hp, b)), mono(w_off(tua, hp, b, rem, a))
{
    tua.rbf_props();
    assert forall |x: int, y: int| 1 <= x <= y implies 0 <= #[trigger] w_bw(tua, hp, b)(x) <= #[trigger] w_bw(tua, hp, b)(y) by { lemma_sum_rbf_mono(hp, x, y); }
    assert forall |x: int, y: int| 1 <= x <= y implies 0 <= #[trigger] w_off(tua, hp, b, rem, a)(x) <= #[trigger] w_off(tua, hp, b, rem, a)(y) by { lemma_sum_rbf_mono(hp, x, y); }
}
/// analysis invariant behind `AF - A`: a step of the tua's RBF adds at least `rem + 1`, so inside the busy window AF >= A
pub proof fn lemma_af_ge_a<A: RequestBound + ?Sized, B: RequestBound>(tua: &A, hp: Seq<B>, b: int, rem: int, limit: int, l: int, a: int)
    requires b >= 0, rem >= 0, scan(w_bw(tua, hp, b), 0, limit) == Some(l), 0 <= a < l,
             tua.rbf(a + 1) >= tua.rbf(a) + rem + 1,
             scan(w_off(tua, hp, b, rem, a), 0, limit).is_some()
    ensures scan(w_off(tua, hp, b, rem, a), 0, limit).unwrap() >= a
{
    let af = scan(w_off(tua, hp, b, rem, a), 0, limit).unwrap();
    lemma_scan(w_bw(tua, hp, b), 0, limit);
    lemma_scan(w_off(tua, hp, b, rem, a), 0, limit);
    tua.rbf_props();
    if af < a {
        if af >= 1 {
            lemma_sum_rbf_mono(hp, af, af);
            assert(af < w_bw(tua, hp, b)(m1(af)));
            assert(tua.rbf(af) <= tua.rbf(a));
            assert(w_off(tua, hp, b, rem, a)(m1(af)) >= w_bw(tua, hp, b)(m1(af)));
        } else {
            lemma_sum_rbf_mono(hp, 1, 1);
            assert(w_off(tua, hp, b, rem, a)(m1(af)) >= 1);
        }
    }
}

pub open spec fn pre<AB: ArrivalBound + ?Sized, B: RequestBound>(tua: &TaskUnderAnalysis<AB>, hp: Seq<B>, limit: int) -> bool {
    &&& limit + tua.wcet.wcet.v() <= u64::MAX
    &&& tua.wcet.wcet.v() >= 1
    &&& tua.arrivals.na(1) >= 1
    &&& tua.blocking_bound.v() + sum_rbf(hp, limit) + tua.wcet.wcet.v() * tua.arrivals.na(limit + 1) + tua.wcet.wcet.v() <= u64::MAX
    &&& forall |i: int, x: int| 0 <= i < hp.len() && x <= limit ==> #[trigger] hp[i].rbf(x) <= u64::MAX
}

// ------------------------------------------------------------------ extracted code
#[allow(non_snake_case)]
pub fn dedicated_uniproc_rta<InterferingRBF, AB>(
    tua: &TaskUnderAnalysis<AB>,
    interfering_tasks: &[InterferingRBF],
    limit: Duration,
) -> (res: SearchResult)
where
    InterferingRBF: RequestBound,
    AB: ArrivalBound + ?Sized,
    requires pre(tua, interfering_tasks@, limit.v())
    ensures res_view(res) == fp_spec(&RBF::<&AB> { wcet: tua.wcet, arrival_bound: tua.arrivals }, interfering_tasks@, tua.blocking_bound.v(), tua.wcet.wcet.v() - 1, limit.v())
{
    // For convenience, define the RBF for the task under analysis.
    let tua_rbf = RBF::new(tua.arrivals, tua.wcet);
    let ghost bb = tua.blocking_bound.v();
    let ghost rem = tua.wcet.wcet.v() - 1;
    let ghost c = tua.wcet.wcet.v();
    proof {
        tua_rbf.rbf_props(); tua.arrivals.na_props();
        assert(tua_rbf.rbf(1) >= 1) by { lemma_mul_inequality(1, tua.arrivals.na(1), c); lemma_mul_is_commutative(c, tua.arrivals.na(1)); }
        lemma_w_mono(&tua_rbf, interfering_tasks@, bb, 0, 0);
        lemma_sum_rbf_mono(interfering_tasks@, limit.v(), limit.v());
    }

    // First, bound the maximum possible busy-window length.
    let L = search_ded(limit, |L: Duration| -> (r: Service)
        requires 1 <= L.v() <= limit.v(), pre(tua, interfering_tasks@, limit.v()), tua_rbf.wcet == tua.wcet, tua_rbf.arrival_bound == tua.arrivals
        ensures r.v() == w_bw(&tua_rbf, interfering_tasks@, tua.blocking_bound.v())(L.v())
    {
        let interference_bound: Service = vf_sum_map(interfering_tasks, |rbf: &InterferingRBF| -> (s: Service)
            requires L.v() <= limit.v(), pre(tua, interfering_tasks@, limit.v()), exists |i: int| 0 <= i < interfering_tasks.len() && interfering_tasks[i] == *rbf
            ensures s.v() == rbf.rbf(L.v()) { rbf.service_needed(L) });
        proof {
            tua_rbf.rbf_props(); lemma_sum_rbf_mono(interfering_tasks@, L.v(), limit.v());
            assert(interference_bound.v() == sum_rbf(interfering_tasks@, L.v()));
            assert(tua_rbf.rbf(L.v()) <= tua_rbf.rbf(limit.v() + 1));
        }

        tua.blocking_bound + interference_bound + tua_rbf.service_needed(L)
    })?;
    proof { lemma_scan(w_bw(&tua_rbf, interfering_tasks@, bb), 0, limit.v()); }

    // [...] Thus, we can set the task-level run-to-completion threshold to epsilon.
    let rtct = Service::epsilon();
    // The remaining cost after the run-to-completion threshold has been reached.
    let rem_cost = tua.wcet.wcet - rtct;

    // Now define the offset-specific RTA.
    let rta = |A: Offset| -> (r: SearchResult)
        requires A.v() < L.v() <= limit.v(), is_step(&tua_rbf, A.v()), pre(tua, interfering_tasks@, limit.v()), tua_rbf.wcet == tua.wcet, tua_rbf.arrival_bound == tua.arrivals,
                 rem_cost.v() == tua.wcet.wcet.v() - 1, scan(w_bw(&tua_rbf, interfering_tasks@, tua.blocking_bound.v()), 0, limit.v()) == Some(L.v())
        ensures res_view(r) == fp_F(&tua_rbf, interfering_tasks@, tua.blocking_bound.v(), tua.wcet.wcet.v() - 1, limit.v(), A.v())
    {
        proof {
            // a step of the RBF adds at least one job: rbf(A+1) >= rbf(A) + C
            tua.arrivals.na_props(); tua_rbf.rbf_props();
            let c = tua.wcet.wcet.v(); let n0 = tua.arrivals.na(A.v()); let n1 = tua.arrivals.na(A.v() + 1);
            assert(n1 >= n0 + 1) by { if n1 <= n0 { lemma_mul_inequality(n1, n0, c); lemma_mul_is_commutative(c, n0); lemma_mul_is_commutative(c, n1); } }
            assert(c * n1 >= c * n0 + c) by { lemma_mul_inequality(n0 + 1, n1, c); lemma_mul_is_commutative(c, n1); lemma_mul_is_distributive_add(c, n0, 1); lemma_mul_is_commutative(c, n0 + 1); }
            assert(tua_rbf.rbf(A.v() + 1) <= tua_rbf.rbf(limit.v() + 1));
            lemma_sum_rbf_mono(interfering_tasks@, limit.v(), limit.v());
        }
        // Define the RHS of the equation in theorem 31 of the aRTA paper,
        // where AF = A + F.
        let rhs = |AF: Duration| -> (r: Service)
            requires 1 <= AF.v() <= limit.v(), A.v() < limit.v(), pre(tua, interfering_tasks@, limit.v()), tua_rbf.wcet == tua.wcet, tua_rbf.arrival_bound == tua.arrivals,
                     rem_cost.v() == tua.wcet.wcet.v() - 1, tua_rbf.rbf(A.v() + 1) >= tua.wcet.wcet.v(), tua_rbf.rbf(A.v() + 1) <= tua_rbf.rbf(limit.v() + 1)
            ensures r.v() == w_off(&tua_rbf, interfering_tasks@, tua.blocking_bound.v(), tua.wcet.wcet.v() - 1, A.v())(AF.v())
        {
            // demand of the task under analysis
            proof { lemma_sum_rbf_mono(interfering_tasks@, limit.v(), limit.v()); }
            let self_interference = tua_rbf.service_needed(A.closed_since_time_zero());
            let tua_demand = self_interference - rem_cost;

            // demand of all interfering tasks
            let interfering_demand = vf_sum_map(interfering_tasks, |rbf: &InterferingRBF| -> (s: Service)
                requires AF.v() <= limit.v(), pre(tua, interfering_tasks@, limit.v()), exists |i: int| 0 <= i < interfering_tasks.len() && interfering_tasks[i] == *rbf
                ensures s.v() == rbf.rbf(AF.v()) { rbf.service_needed(AF) });
            proof { lemma_sum_rbf_mono(interfering_tasks@, AF.v(), limit.v()); assert(interfering_demand.v() == sum_rbf(interfering_tasks@, AF.v())); }

            // considering `blocking_bound` to account for priority inversion
            tua.blocking_bound + tua_demand + interfering_demand
        };

        proof { lemma_w_mono(&tua_rbf, interfering_tasks@, tua.blocking_bound.v(), tua.wcet.wcet.v() - 1, A.v()); }
        // Find the solution A+F that is the least fixed point.
        let AF = search_ded(limit, rhs)?;
        proof {
            lemma_af_ge_a(&tua_rbf, interfering_tasks@, tua.blocking_bound.v(), tua.wcet.wcet.v() - 1, limit.v(), L.v(), A.v());
            lemma_scan(w_off(&tua_rbf, interfering_tasks@, tua.blocking_bound.v(), tua.wcet.wcet.v() - 1, A.v()), 0, limit.v());
        }
        // Extract the corresponding bound.
        let F = AF - A.since_time_zero();
        Ok(F + Duration::from(rem_cost))
    };

    // Third, define the search space. [...]
    let max_offset = Offset::from_time_zero(L);
    let res = vf_tail_steps_below(&tua_rbf, max_offset, rta);
    proof {
        let g = |x: int| fp_F(&tua_rbf, interfering_tasks@, bb, rem, limit.v(), x);
        assert(rta_is(&rta, g, max_offset.v()));
        lemma_prune(&tua_rbf, interfering_tasks@, bb, rem, limit.v(), L.v());
        assert(tua_rbf == RBF::<&AB> { wcet: tua.wcet, arrival_bound: tua.arrivals });
    }
    res
}

}
fn main() {}
