use vstd::prelude::*;
use vstd::std_specs::cmp::*;
use vstd::std_specs::ops::*;
use vstd::std_specs::convert::*;
use core::cmp::Ordering;
verus! {

pub type Time = u64;

#[derive(Clone, Copy, PartialEq, Eq, PartialOrd, Ord, Debug)]
pub struct Duration { pub val: Time }
#[derive(Clone, Copy, PartialEq, Eq, PartialOrd, Ord, Debug)]
pub struct Offset { pub val: Time }
#[derive(Clone, Copy, PartialEq, Eq, PartialOrd, Ord, Debug)]
pub struct Service { pub val: Time }

impl Duration { pub open spec fn v(self) -> int { self.val as int } }
impl Offset { pub open spec fn v(self) -> int { self.val as int } }
impl Service { pub open spec fn v(self) -> int { self.val as int } }

macro_rules! ord_shim { ($T:ident) => { verus! {
impl PartialEqSpecImpl for $T {
    open spec fn obeys_eq_spec() -> bool { true }
    open spec fn eq_spec(&self, other: &$T) -> bool { self.val == other.val }
}
impl PartialOrdSpecImpl for $T {
    open spec fn obeys_partial_cmp_spec() -> bool { true }
    open spec fn partial_cmp_spec(&self, other: &$T) -> Option<Ordering> {
        if self.val < other.val { Some(Ordering::Less) } else if self.val == other.val { Some(Ordering::Equal) } else { Some(Ordering::Greater) }
    }
}
impl FromSpecImpl<u64> for $T {
    open spec fn obeys_from_spec() -> bool { true }
    open spec fn from_spec(x: u64) -> $T { $T { val: x } }
}
impl From<u64> for $T { fn from(x: u64) -> (r: $T) { $T { val: x } } }
impl AddSpecImpl<$T> for $T {
    open spec fn obeys_add_spec() -> bool { true }
    open spec fn add_req(self, rhs: $T) -> bool { self.val + rhs.val <= u64::MAX }
    open spec fn add_spec(self, rhs: $T) -> $T { $T { val: (self.val + rhs.val) as u64 } }
}
impl core::ops::Add for $T { type Output = $T; fn add(self, rhs: $T) -> $T { $T { val: self.val + rhs.val } } }
impl SubSpecImpl<$T> for $T {
    open spec fn obeys_sub_spec() -> bool { true }
    open spec fn sub_req(self, rhs: $T) -> bool { self.val >= rhs.val }
    open spec fn sub_spec(self, rhs: $T) -> $T { $T { val: (self.val - rhs.val) as u64 } }
}
impl core::ops::Sub for $T { type Output = $T; fn sub(self, rhs: $T) -> $T { $T { val: self.val - rhs.val } } }
impl AddAssignSpecImpl<$T> for $T {
    open spec fn obeys_add_assign_spec() -> bool { true }
    open spec fn add_assign_req(&self, rhs: $T) -> bool { self.val + rhs.val <= u64::MAX }
    open spec fn add_assign_spec(&self, rhs: $T) -> &$T { &$T { val: (self.val + rhs.val) as u64 } }
}
impl core::ops::AddAssign for $T { fn add_assign(&mut self, rhs: $T) { self.val = self.val + rhs.val; } }
} } }
ord_shim!(Duration);
ord_shim!(Offset);
ord_shim!(Service);

} // verus!
