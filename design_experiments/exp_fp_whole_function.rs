include!("prelude.rs"); // scratch experiment backing DESIGN.md; not framework code
verus!{

impl Offset {
    pub const fn from_time_zero(delta: Duration) -> (r: Offset) ensures r.val == delta.val { Offset { val: delta.val } }
    pub const fn since_time_zero(self) -> (r: Duration) ensures r.val == self.val { Duration { val: self.val } }
    pub const fn closed_since_time_zero(self) -> (r: Duration) requires self.val < u64::MAX ensures r.val == self.val + 1 { Duration { val: self.val + 1 } }
}

pub enum SearchFailure {
    DivergenceLimitExceeded { offset: Offset, limit: Duration },
    AssumptionViolated,
}
pub type SearchResult = Result<Duration, SearchFailure>;

pub open spec fn res_view(r: SearchResult) -> Option<int> {
    match r { Ok(d) => Some(d.v()), Err(_) => None }
}

pub trait RequestBound {
    spec fn rbf(&self, delta: int) -> int;
    proof fn rbf_props(&self)
        ensures self.rbf(0) == 0,
          forall |a: int, b: int| #![trigger self.rbf(a), self.rbf(b)] 0 <= a <= b ==> self.rbf(a) <= self.rbf(b);
    fn service_needed(&self, delta: Duration) -> (r: Service)
        requires self.rbf(delta.v()) <= u64::MAX
        ensures r.v() == self.rbf(delta.v());
}

pub open spec fn sum_rbf<T: RequestBound>(xs: Seq<T>, d: int) -> int 
    decreases xs.len()
{
    if xs.len() == 0 { 0 } else { sum_rbf(xs.drop_last(), d) + xs.last().rbf(d) }
}
pub proof fn lemma_sum_rbf_mono<T: RequestBound>(xs: Seq<T>, a: int, b: int)
    requires 0 <= a <= b
    ensures 0 <= sum_rbf(xs, a) <= sum_rbf(xs, b)
    decreases xs.len()
{
    if xs.len() > 0 { lemma_sum_rbf_mono(xs.drop_last(), a, b); xs.last().rbf_props(); }
}

pub open spec fn clo_is<F: Fn(Duration) -> Service>(f: &F, w: spec_fn(int) -> int) -> bool {
    forall |d: Duration, s: Service| #[trigger] f.ensures((d,), s) ==> s.v() == w(d.v())
}
pub open spec fn mono(w: spec_fn(int) -> int) -> bool {
    forall |a: int, b: int| #![trigger w(a), w(b)] 1 <= a <= b ==> 0 <= w(a) <= w(b)
}
pub open spec fn m1(r: int) -> int { if r < 1 { 1 } else { r } }

// naive linear scan (dedicated supply): least r in [r, limit] with r >= w(max(r,1))
pub open spec fn scan(w: spec_fn(int) -> int, r: int, limit: int) -> Option<int>
    decreases limit + 1 - r
{
    if r > limit { None }
    else if r >= w(m1(r)) { Some(r) }
    else { scan(w, r + 1, limit) }
}
pub proof fn lemma_scan(w: spec_fn(int) -> int, r: int, limit: int)
    requires 0 <= r
    ensures (match scan(w, r, limit) {
        Some(x) => r <= x <= limit && x >= w(m1(x)) && forall |q: int| r <= q < x ==> q < #[trigger] w(m1(q)),
        None => forall |q: int| r <= q <= limit ==> q < #[trigger] w(m1(q)),
    })
    decreases limit + 1 - r
{
    if r > limit {} else if r >= w(m1(r)) {} else { lemma_scan(w, r + 1, limit); }
}

#[verifier::external_body]
pub fn search_ded<RHS>(limit: Duration, workload_bound: RHS) -> (res: SearchResult)
where RHS: Fn(Duration) -> Service,
    requires forall |d: Duration| 1 <= d.v() <= limit.v() ==> #[trigger] workload_bound.requires((d,))
    ensures forall |w: spec_fn(int) -> int| #![trigger clo_is(&workload_bound, w)] #![trigger mono(w)] clo_is(&workload_bound, w) && mono(w) ==> res_view(res) == scan(w, 0, limit.v())
{ unimplemented!() }

#[verifier::external_body]
pub fn vf_sum_map<T: RequestBound, F: Fn(&T) -> Service>(xs: &[T], f: F) -> (r: Service)
    requires forall |i: int| 0 <= i < xs.len() ==> #[trigger] f.requires((&xs[i],)),
    ensures forall |d: int| (forall |i: int, s: Service| 0 <= i < xs.len() && #[trigger] f.ensures((&xs[i],), s) ==> s.v() == xs[i].rbf(d)) ==> r.v() == #[trigger] sum_rbf(xs@, d)
{ unimplemented!() }

// ---------- spec of the FP analysis (exhaustive definition)
pub open spec fn w_bw<A: RequestBound + ?Sized, B: RequestBound>(tua: &A, hp: Seq<B>) -> spec_fn(int) -> int {
    |x: int| sum_rbf(hp, x) + tua.rbf(x)
}
pub open spec fn w_off<A: RequestBound + ?Sized, B: RequestBound>(tua: &A, hp: Seq<B>, a: int) -> spec_fn(int) -> int {
    |x: int| tua.rbf(a + 1) + sum_rbf(hp, x)
}
pub open spec fn comb(acc: Option<int>, x: Option<int>) -> Option<int> {
    match (acc, x) { (Some(m), Some(f)) => Some(if f > m { f } else { m }), _ => None }
}
pub open spec fn fp_F<A: RequestBound + ?Sized, B: RequestBound>(tua: &A, hp: Seq<B>, limit: int, a: int) -> Option<int> {
    match scan(w_off(tua, hp, a), 0, limit) { Some(af) => Some(af - a), None => None }
}
pub open spec fn fp_exh<A: RequestBound + ?Sized, B: RequestBound>(tua: &A, hp: Seq<B>, limit: int, a: int) -> Option<int>
    decreases a
{
    if a <= 0 { Some(0) } else { comb(fp_exh(tua, hp, limit, a - 1), fp_F(tua, hp, limit, a - 1)) }
}
pub open spec fn fp_spec<A: RequestBound + ?Sized, B: RequestBound>(tua: &A, hp: Seq<B>, limit: int) -> Option<int> {
    match scan(w_bw(tua, hp), 0, limit) { None => None, Some(l) => fp_exh(tua, hp, limit, l) }
}
// pruned: only step offsets
pub open spec fn is_step<A: RequestBound + ?Sized>(tua: &A, a: int) -> bool { tua.rbf(a) < tua.rbf(a + 1) }
pub open spec fn fold_steps<A: RequestBound + ?Sized>(tua: &A, g: spec_fn(int) -> Option<int>, a: int) -> Option<int>
    decreases a
{
    if a <= 0 { Some(0) } else if is_step(tua, a - 1) { comb(fold_steps(tua, g, a - 1), g(a - 1)) } else { fold_steps(tua, g, a - 1) }
}

pub open spec fn rta_is<F: Fn(Offset) -> SearchResult>(f: &F, g: spec_fn(int) -> Option<int>, max: int) -> bool {
    forall |a: Offset, r: SearchResult| a.v() < max && #[trigger] f.ensures((a,), r) ==> res_view(r) == g(a.v())
}

// the iterator tail, under an assumed contract
#[verifier::external_body]
pub fn vf_tail_steps_below<RB: RequestBound + ?Sized, F: Fn(Offset) -> SearchResult>(rb: &RB, max_offset: Offset, rta: F) -> (res: SearchResult)
    requires forall |a: Offset| a.v() < max_offset.v() && is_step(rb, a.v()) ==> #[trigger] rta.requires((a,))
    ensures forall |g: spec_fn(int) -> Option<int>| #[trigger] rta_is(&rta, g, max_offset.v()) ==> res_view(res) == fold_steps(rb, g, max_offset.v())
{ unimplemented!() }

pub proof fn lemma_exh_bound<A: RequestBound + ?Sized, B: RequestBound>(tua: &A, hp: Seq<B>, limit: int, a: int, q: int)
    requires 0 <= q < a, fp_exh(tua, hp, limit, a).is_some()
    ensures fp_F(tua, hp, limit, q).is_some(), fp_F(tua, hp, limit, q).unwrap() <= fp_exh(tua, hp, limit, a).unwrap(), fp_exh(tua, hp, limit, a).unwrap() >= 0
    decreases a
{
    if q < a - 1 { lemma_exh_bound(tua, hp, limit, a - 1, q); }
    else { if a - 1 > 0 { lemma_exh_bound(tua, hp, limit, a - 1, a - 2); } }
}
pub proof fn lemma_exh_none<A: RequestBound + ?Sized, B: RequestBound>(tua: &A, hp: Seq<B>, limit: int, a: int, q: int)
    requires 0 <= q < a, fp_F(tua, hp, limit, q).is_none()
    ensures fp_exh(tua, hp, limit, a).is_none()
    decreases a
{
    if q < a - 1 { lemma_exh_none(tua, hp, limit, a - 1, q); }
}

pub proof fn lemma_prune<A: RequestBound + ?Sized, B: RequestBound>(tua: &A, hp: Seq<B>, limit: int, a: int)
    requires tua.rbf(1) >= 1, a >= 0
    ensures fold_steps(tua, |x: int| fp_F(tua, hp, limit, x), a) == fp_exh(tua, hp, limit, a)
    decreases a
{
    let g = |x: int| fp_F(tua, hp, limit, x);
    if a > 0 {
        lemma_prune(tua, hp, limit, a - 1);
        tua.rbf_props();
        if !is_step(tua, a - 1) {
            // a-1 >= 1 because rbf(0)=0 < rbf(1)
            assert(a - 1 >= 1);
            assert(tua.rbf(a) == tua.rbf(a - 1));
            assert(w_off(tua, hp, a - 1) =~= w_off(tua, hp, a - 2)) by {
                assert forall |x: int| #[trigger] w_off(tua, hp, a - 1)(x) == w_off(tua, hp, a - 2)(x) by {}
            }
            if fp_exh(tua, hp, limit, a - 1).is_some() {
                lemma_exh_bound(tua, hp, limit, a - 1, a - 2);
            } else {
            }
        }
    }
}


pub proof fn lemma_w_mono<A: RequestBound + ?Sized, B: RequestBound>(tua: &A, hp: Seq<B>, a: int)
    requires a >= 0
    ensures mono(w_bw(tua, hp)), mono(w_off(tua, hp, a))
{
    tua.rbf_props();
    assert forall |x: int, y: int| 1 <= x <= y implies 0 <= #[trigger] w_bw(tua, hp)(x) <= #[trigger] w_bw(tua, hp)(y) by { lemma_sum_rbf_mono(hp, x, y); }
    assert forall |x: int, y: int| 1 <= x <= y implies 0 <= #[trigger] w_off(tua, hp, a)(x) <= #[trigger] w_off(tua, hp, a)(y) by { lemma_sum_rbf_mono(hp, x, y); }
}

// analysis invariant: inside the busy window the offset-solution never lies before the offset
pub proof fn lemma_af_ge_a<A: RequestBound + ?Sized, B: RequestBound>(tua: &A, hp: Seq<B>, limit: int, l: int, a: int)
    requires tua.rbf(1) >= 1, scan(w_bw(tua, hp), 0, limit) == Some(l), 0 <= a < l,
             scan(w_off(tua, hp, a), 0, limit).is_some()
    ensures scan(w_off(tua, hp, a), 0, limit).unwrap() >= a
{
    let af = scan(w_off(tua, hp, a), 0, limit).unwrap();
    lemma_scan(w_bw(tua, hp), 0, limit);
    lemma_scan(w_off(tua, hp, a), 0, limit);
    tua.rbf_props();
    if af < a {
        if af >= 1 {
            lemma_sum_rbf_mono(hp, af, af);
            assert(af < w_bw(tua, hp)(m1(af)));
            assert(w_off(tua, hp, a)(m1(af)) >= w_bw(tua, hp)(m1(af)));
        } else {
            lemma_sum_rbf_mono(hp, 1, 1);
            assert(w_off(tua, hp, a)(m1(af)) >= 1);
        }
    }
}

#[allow(non_snake_case)]
pub fn dedicated_uniproc_rta<TaskUnderAnalysisRBF, InterferingRBF>(
    tua: &TaskUnderAnalysisRBF,
    interfering_tasks: &[InterferingRBF],
    limit: Duration,
) -> (res: SearchResult)
where
    TaskUnderAnalysisRBF: RequestBound + ?Sized,
    InterferingRBF: RequestBound,
    requires
        limit.v() < u64::MAX,
        tua.rbf(1) >= 1,
        sum_rbf(interfering_tasks@, limit.v()) + tua.rbf(limit.v() + 1) <= u64::MAX,
    ensures
        res_view(res) == fp_spec(tua, interfering_tasks@, limit.v())
{
    proof { tua.rbf_props(); lemma_w_mono(tua, interfering_tasks@, 0); }
    // First, bound the maximum possible busy-window length.
    let L = search_ded(limit, |L: Duration| -> (r: Service) 
        requires 1 <= L.v() <= limit.v(), limit.v() < u64::MAX, tua.rbf(1) >= 1, sum_rbf(interfering_tasks@, limit.v()) + tua.rbf(limit.v() + 1) <= u64::MAX
        ensures r.v() == w_bw(tua, interfering_tasks@)(L.v())
    {
        let interference_bound: Service = vf_sum_map(interfering_tasks, |rbf: &InterferingRBF| -> (s: Service) ensures s.v() == rbf.rbf(L.v()) { 
            proof { assume(rbf.rbf(L.v()) <= u64::MAX); }
            rbf.service_needed(L) });
        proof { tua.rbf_props(); lemma_sum_rbf_mono(interfering_tasks@, L.v(), limit.v()); 
                assert(interference_bound.v() == sum_rbf(interfering_tasks@, L.v())); }
        interference_bound + tua.service_needed(L)
    })?;
    proof { lemma_scan(w_bw(tua, interfering_tasks@), 0, limit.v()); }

    // Second, define the RTA for a given offset A.
    let rta = |A: Offset| -> (r: SearchResult)
        requires A.v() < L.v() <= limit.v(), is_step(tua, A.v()), scan(w_bw(tua, interfering_tasks@), 0, limit.v()) == Some(L.v()), limit.v() < u64::MAX, tua.rbf(1) >= 1, sum_rbf(interfering_tasks@, limit.v()) + tua.rbf(limit.v() + 1) <= u64::MAX
        ensures res_view(r) == fp_F(tua, interfering_tasks@, limit.v(), A.v())
    {
        // Define the RHS of the equation in theorem 31 of the aRTA paper,
        // where AF = A + F.
        let rhs = |AF: Duration| -> (r: Service)
            requires 1 <= AF.v() <= limit.v(), A.v() < limit.v(), limit.v() < u64::MAX, tua.rbf(1) >= 1, sum_rbf(interfering_tasks@, limit.v()) + tua.rbf(limit.v() + 1) <= u64::MAX
            ensures r.v() == w_off(tua, interfering_tasks@, A.v())(AF.v())
        {
            // demand of the task under analysis
            proof { tua.rbf_props(); lemma_sum_rbf_mono(interfering_tasks@, limit.v(), limit.v()); assert(tua.rbf(A.v() + 1) <= tua.rbf(limit.v() + 1)); }
            let tua_demand = tua.service_needed(A.closed_since_time_zero());

            // demand of all interfering tasks
            let interfering_demand = vf_sum_map(interfering_tasks, |rbf: &InterferingRBF| -> (s: Service) ensures s.v() == rbf.rbf(AF.v()) { 
                proof { assume(rbf.rbf(AF.v()) <= u64::MAX); }
                rbf.service_needed(AF) });
            proof { lemma_sum_rbf_mono(interfering_tasks@, AF.v(), limit.v()); 
                    assert(interfering_demand.v() == sum_rbf(interfering_tasks@, AF.v())); }

            tua_demand + interfering_demand
        };

        proof { lemma_w_mono(tua, interfering_tasks@, A.v()); }
        // Find the solution A+F that is the least fixed point.
        let AF = search_ded(limit, rhs)?;
        proof { lemma_af_ge_a(tua, interfering_tasks@, limit.v(), L.v(), A.v()); }
        // Extract the corresponding bound.
        let F = AF - A.since_time_zero();
        Ok(F)
    };

    let max_offset = Offset::from_time_zero(L);
    let res = vf_tail_steps_below(tua, max_offset, rta);
    proof {
        let g = |x: int| fp_F(tua, interfering_tasks@, limit.v(), x);
        assert(rta_is(&rta, g, max_offset.v()));
        lemma_prune(tua, interfering_tasks@, limit.v(), L.v());
    }
    res
}
}
fn main() {}
