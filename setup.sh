#!/bin/sh
# Offline setup: nothing to download. Pre-build the native replay crate and warm Verus' first-run cache.
set -e
cd "$(dirname "$0")"
mkdir -p .work evidence
python3 -c "import sys; sys.path.insert(0,'vx'); import extract; extract.generate('units/root_time.rs', '.work')" >/dev/null
(cd .work && verus root_time.rs >/dev/null 2>&1) || true
if [ -f replay/Cargo.toml ]; then
  cp /repo/Cargo.lock replay/Cargo.lock 2>/dev/null || true
  (cd replay && CARGO_NET_OFFLINE=true CARGO_TARGET_DIR=../.work/replay-target cargo build -q --offline) || true
fi
echo setup done
# warm the Kani build (harness crate + the crate under /repo) so that the first check does not pay for it
if [ -f kani/Cargo.toml ]; then
  cp /repo/Cargo.lock kani/Cargo.lock 2>/dev/null || true
  (cd kani && CARGO_NET_OFFLINE=true CARGO_TARGET_DIR=../.work/kani-target timeout 600 cargo kani --harness shims::shim_offset_ord --exact >/dev/null 2>&1) || true
fi
echo setup complete
