// vx/prelude.rs -- hand-written stand-ins for macro-generated code (rule R12).
// derive(Clone, Copy, PartialEq, Eq, PartialOrd, Ord), derive_more::{From, Into, Add, Sub, AddAssign}
// on the single-field wrappers of src/time.rs.  These are ASSUMPTIONS about macro output
// (checked by complete Kani harnesses on the real crate, see kani/src/shims.rs).
#![allow(unused_imports, dead_code, unused_variables, unused_mut, non_snake_case, unused_parens, unused_braces)]
#![feature(allocator_api)]
use vstd::prelude::*;
use vstd::std_specs::cmp::*;
use vstd::std_specs::ops::*;
use vstd::std_specs::convert::*;
use core::cmp::Ordering;
verus! {

global size_of usize == 8;

macro_rules! ord_shim { ($T:ident) => { verus! {
impl $T { pub open spec fn v(self) -> int { self.val as int } }
impl Clone for $T { fn clone(&self) -> (r: $T) ensures r == *self { $T { val: self.val } } }
impl Copy for $T {}
impl PartialEqSpecImpl for $T {
    open spec fn obeys_eq_spec() -> bool { true }
    open spec fn eq_spec(&self, other: &$T) -> bool { self.val == other.val }
}
impl PartialEq for $T { fn eq(&self, other: &$T) -> (r: bool) { self.val == other.val } }
impl Eq for $T {}
impl PartialOrdSpecImpl for $T {
    open spec fn obeys_partial_cmp_spec() -> bool { true }
    open spec fn partial_cmp_spec(&self, other: &$T) -> Option<Ordering> {
        if self.val < other.val { Some(Ordering::Less) } else if self.val == other.val { Some(Ordering::Equal) } else { Some(Ordering::Greater) }
    }
}
impl PartialOrd for $T {
    fn partial_cmp(&self, other: &$T) -> (r: Option<Ordering>) {
        if self.val < other.val { Some(Ordering::Less) } else if self.val == other.val { Some(Ordering::Equal) } else { Some(Ordering::Greater) }
    }
}
impl $T {
    /// Ord::cmp of the derived Ord (R12)
    pub fn cmp(&self, other: &$T) -> (o: Ordering)
        ensures o == (if self.val < other.val { Ordering::Less } else if self.val == other.val { Ordering::Equal } else { Ordering::Greater })
    { if self.val < other.val { Ordering::Less } else if self.val == other.val { Ordering::Equal } else { Ordering::Greater } }
}
impl FromSpecImpl<u64> for $T {
    open spec fn obeys_from_spec() -> bool { true }
    open spec fn from_spec(x: u64) -> $T { $T { val: x } }
}
impl From<u64> for $T { fn from(x: u64) -> (r: $T) { $T { val: x } } }
impl FromSpecImpl<$T> for u64 {
    open spec fn obeys_from_spec() -> bool { true }
    open spec fn from_spec(x: $T) -> u64 { x.val }
}
impl From<$T> for u64 { fn from(x: $T) -> (r: u64) { x.val } }
} } }

macro_rules! arith_shim { ($T:ident) => { verus! {
impl AddSpecImpl<$T> for $T {
    open spec fn obeys_add_spec() -> bool { true }
    open spec fn add_req(self, rhs: $T) -> bool { self.val + rhs.val <= u64::MAX }
    open spec fn add_spec(self, rhs: $T) -> $T { $T { val: (self.val + rhs.val) as u64 } }
}
impl core::ops::Add for $T { type Output = $T; fn add(self, rhs: $T) -> $T { $T { val: self.val + rhs.val } } }
impl SubSpecImpl<$T> for $T {
    open spec fn obeys_sub_spec() -> bool { true }
    open spec fn sub_req(self, rhs: $T) -> bool { self.val >= rhs.val }
    open spec fn sub_spec(self, rhs: $T) -> $T { $T { val: (self.val - rhs.val) as u64 } }
}
impl core::ops::Sub for $T { type Output = $T; fn sub(self, rhs: $T) -> $T { $T { val: self.val - rhs.val } } }
impl AddAssignSpecImpl<$T> for $T {
    open spec fn obeys_add_assign_spec() -> bool { true }
    open spec fn add_assign_req(&self, rhs: $T) -> bool { self.val + rhs.val <= u64::MAX }
    open spec fn add_assign_spec(&self, rhs: $T) -> &$T { &$T { val: (self.val + rhs.val) as u64 } }
}
impl core::ops::AddAssign for $T { fn add_assign(&mut self, rhs: $T) { self.val = self.val + rhs.val; } }
} } }

/// R6 / R7: `assert!(e)`, `debug_assert!(e)` become a call whose precondition is `e`;
/// a reachable failing assertion is therefore a failed obligation.
pub fn vf_assert(b: bool) requires b {}
/// std functions vstd does not specify (trusted; listed in the evidence)
pub assume_specification<T, E>[ Result::<T, E>::unwrap_or ](r: Result<T, E>, d: T) -> (o: T)
    ensures o == (match r { Ok(v) => v, Err(_) => d });

/// must-fail probes: `if vf_nondet() { assert(false); }` -- each probe is independent of the others
#[verifier::external_body]
pub const fn vf_nondet() -> (b: bool) { true }
/// the same for proof functions (lemmas): an uninterpreted predicate, one index per probe
pub uninterp spec fn vf_nondet_s(k: int) -> bool;
/// R6: `panic!()` / `unreachable!()`
pub fn vf_unreachable() requires false {}

} // verus!
