"""Locate Rust items (fn / struct / enum / trait / impl / const / type / mod) in a
source file by a path such as
    impl SupplyBound for Periodic / fn provided_service
    trait SupplyBound / fn service_time
    fn steps_iter / impl<'a> Iterator for StepsIter<'a> / fn next
and return the byte range of the item (visibility + keyword .. closing brace or
semicolon; attributes and doc comments in front of the item are NOT part of it)."""
from lexer import lex, significant

ITEM_KW = {"fn", "struct", "enum", "trait", "impl", "const", "type", "mod", "static", "union"}
MODIFIERS = {"pub", "const", "unsafe", "async", "extern", "default"}
OPEN = {"(": ")", "[": "]", "{": "}"}
CLOSE = {")", "]", "}"}


class LocateError(Exception):
    pass


def _match(toks, i):
    """index of the bracket matching toks[i]"""
    depth = 0
    for j in range(i, len(toks)):
        t = toks[j].text
        if toks[j].kind == "punct":
            if t in OPEN:
                depth += 1
            elif t in CLOSE:
                depth -= 1
                if depth == 0:
                    return j
    raise LocateError("unbalanced bracket")


def scan_items(toks, lo, hi):
    """yield (kind, name_or_header, start_idx, body_open_idx_or_None, end_idx) for the
    items that are direct children of toks[lo:hi]"""
    i = lo
    while i < hi:
        t = toks[i]
        if t.kind == "punct" and t.text == "#":
            # attribute  #[..] or #![..]
            j = i + 1
            if j < hi and toks[j].text == "!":
                j += 1
            if j < hi and toks[j].text == "[":
                i = _match(toks, j) + 1
                continue
        if t.kind == "punct" and t.text in OPEN:
            i = _match(toks, i) + 1
            continue
        if t.kind == "ident" and (t.text in ITEM_KW or t.text in MODIFIERS):
            # gather modifiers
            start = i
            j = i
            while j < hi and toks[j].kind == "ident" and toks[j].text in MODIFIERS and not (
                    toks[j].text == "const" and j + 1 < hi and toks[j + 1].text not in ("fn", "unsafe", "async", "extern")):
                j += 1
                if toks[j - 1].text == "pub" and j < hi and toks[j].text == "(":
                    j = _match(toks, j) + 1
                if toks[j - 1].text == "extern" and j < hi and toks[j].kind == "str":
                    j += 1
            if j < hi and toks[j].kind == "ident" and toks[j].text in ITEM_KW:
                kw = toks[j].text
                # header ends at first `{` or `;` at depth 0
                k = j + 1
                body = None
                while k < hi:
                    tk = toks[k]
                    if tk.kind == "punct" and tk.text in ("(", "["):
                        k = _match(toks, k) + 1
                        continue
                    if tk.kind == "punct" and tk.text == "{":
                        body = k
                        break
                    if tk.kind == "punct" and tk.text == ";":
                        break
                    if kw in ("const", "static") and tk.kind == "punct" and tk.text == "=":
                        # initialiser expression: run to the terminating `;`
                        k += 1
                        while k < hi and not (toks[k].kind == "punct" and toks[k].text == ";"):
                            if toks[k].kind == "punct" and toks[k].text in OPEN:
                                k = _match(toks, k)
                            k += 1
                        break
                    k += 1
                if k >= hi:
                    raise LocateError("item header runs off the end")
                if body is not None:
                    end = _match(toks, body)
                else:
                    end = k
                if kw == "impl":
                    name = " ".join(x.text for x in toks[j + 1:(body if body is not None else k)])
                else:
                    name = toks[j + 1].text
                yield (kw, name, start, body, end)
                i = end + 1
                continue
        i += 1


def _norm(s):
    return " ".join(x.text for x in significant(lex(s)))


def locate(text, path):
    """path: 'impl X for Y / fn name'; returns (start_byte, end_byte, body_open_byte_or_None)"""
    toks = significant(lex(text))
    lo, hi = 0, len(toks)
    comps = [c.strip() for c in path.split(" / ")]
    found = None
    for ci, comp in enumerate(comps):
        ordinal = 1
        if "#" in comp and comp.rsplit("#", 1)[1].strip().isdigit():
            comp, o = comp.rsplit("#", 1)
            ordinal = int(o)
            comp = comp.strip()
        kw, _, rest = comp.partition(" ")
        # `impl<T> X for Y<T>` : generics glued to the keyword
        if kw.startswith("impl<"):
            rest = kw[4:] + " " + rest
            kw = "impl"
        want = _norm(rest)
        hits = [it for it in scan_items(toks, lo, hi) if it[0] == kw and _norm(it[1]) == want]
        if len(hits) < ordinal:
            raise LocateError("item not found: %r (component %r, %d candidates)" % (path, comp, len(hits)))
        found = hits[ordinal - 1]
        if ci + 1 < len(comps):
            if found[3] is None:
                raise LocateError("%r has no body to descend into" % comp)
            lo, hi = found[3] + 1, found[4]
    kw, name, s, b, e = found
    return toks[s].start, toks[e].end, (toks[b].start if b is not None else None)


def children(text, path):
    """names of the fn items that are direct children of the container (impl / trait) located by `path`"""
    toks = significant(lex(text))
    lo, hi = 0, len(toks)
    comps = [c.strip() for c in path.split(" / ")]
    for comp in comps:
        ordinal = 1
        if "#" in comp and comp.rsplit("#", 1)[1].strip().isdigit():
            comp, o = comp.rsplit("#", 1)
            ordinal = int(o)
            comp = comp.strip()
        kw, _, rest = comp.partition(" ")
        if kw.startswith("impl<"):
            rest = kw[4:] + " " + rest
            kw = "impl"
        want = _norm(rest)
        hits = [it for it in scan_items(toks, lo, hi) if it[0] == kw and _norm(it[1]) == want]
        if len(hits) < ordinal or hits[ordinal - 1][3] is None:
            raise LocateError("container not found: %r" % path)
        found = hits[ordinal - 1]
        lo, hi = found[3] + 1, found[4]
    return [it[1] for it in scan_items(toks, lo, hi) if it[0] == "fn"]
