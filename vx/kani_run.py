"""Engine K: Kani harnesses on the unmodified crate (bounded stand-ins and loop-free complete proofs).
Filled in by kani/ ; see run_harnesses."""
import json
import os
import re
import resource
import shutil
import subprocess
import time
import concurrent.futures as cf

VERIF = os.path.dirname(os.path.dirname(os.path.abspath(__file__)))
KDIR = os.path.join(VERIF, "kani")
REPO = os.environ.get("VERIF_REPO", "/repo")
META = os.path.join(KDIR, "harnesses.json")


def _limits(mem_gb):
    def f():
        b = int(mem_gb * (1 << 30))
        resource.setrlimit(resource.RLIMIT_AS, (b, b))
    return f


def run_one(name, meta, tier):
    t0 = time.time()
    m = meta.get(name, {})
    timeout = m.get("timeout_s", 600)
    mem = m.get("mem_gb", 12)
    env = dict(os.environ)
    env["CARGO_NET_OFFLINE"] = "true"
    env["CARGO_TARGET_DIR"] = os.path.join(VERIF, ".work", "kani-target")
    module = "shims" if name.startswith("shim_") else "steps" if name.startswith("steps_") else "tails" if name.startswith("tail_") else "models"
    cmd = ["cargo", "kani", "--harness", "%s::%s" % (m.get("module", module), name), "--exact", "--output-format", "regular"] + m.get("args", [])
    res = {"harness": name, "bound": m.get("bound", "unspecified"), "kind": m.get("kind", "bounded"),
           "what": m.get("what", ""), "replay_hint": m.get("replay_hint")}
    try:
        p = subprocess.run(cmd, cwd=KDIR, stdout=subprocess.PIPE, stderr=subprocess.STDOUT, text=True,
                           env=env, timeout=timeout, preexec_fn=_limits(mem))
        out = p.stdout
    except subprocess.TimeoutExpired as ex:
        res.update(status="undecided", reason="timeout after %ds" % timeout, wall_s=round(time.time() - t0, 1))
        return res
    res["wall_s"] = round(time.time() - t0, 1)
    with open(os.path.join(VERIF, ".work", "kani-%s.log" % name), "w") as f:
        f.write(out)
    mm = re.search(r"\*\* (\d+) of (\d+) failed", out)
    res["checks"] = int(mm.group(2)) if mm else 0
    failed = []
    # failed checks: "Check N: name\n\t - Status: FAILURE\n\t - Description: ..."
    for blk in re.finditer(r"Failed Checks: (.*)\n\s*File: \"([^\"]*)\", line (\d+), in (\S+)", out):
        failed.append("%s | %s:%s | %s" % (blk.group(1).strip().strip('"'), blk.group(2), blk.group(3), blk.group(4)))
    covers = re.findall(r"Status: (SATISFIED|UNSATISFIABLE|UNREACHABLE)\n\s*- Description: \"?(cover[^\n\"]*)", out)
    res["covers"] = ["%s:%s" % (s, d) for s, d in covers]
    if "VERIFICATION:- SUCCESSFUL" in out:
        if any(s != "SATISFIED" for s, d in covers):
            res.update(status="undecided", reason="vacuity: a cover property is not satisfiable")
        else:
            res.update(status="ok", failed_checks=[])
        return res
    if "VERIFICATION:- FAILED" in out:
        machinery = [c for c in failed if re.search(r"unwinding assertion|missing_definition|unsupported|unwind", c, re.I)]
        if machinery or not failed:
            res.update(status="undecided", reason="machinery: " + "; ".join(machinery or ["failed without a failed check"])[:300], failed_checks=failed)
        else:
            res.update(status="failed", failed_checks=failed, trace=out[-3000:])
        return res
    res.update(status="undecided", reason="no verdict (rc=%s): %s" % (p.returncode, out[-300:].replace("\n", " ")))
    return res


def run_harnesses(names, tier):
    if not names:
        return {"harnesses": [], "status": "none"}
    meta = {}
    if os.path.exists(META):
        with open(META) as f:
            meta = json.load(f)
    os.makedirs(os.path.join(VERIF, ".work"), exist_ok=True)
    # the harness crate uses the crate under /repo by path; Cargo.lock is copied on every run
    try:
        shutil.copy(os.path.join(REPO, "Cargo.lock"), os.path.join(KDIR, "Cargo.lock"))
    except OSError:
        pass
    out = []
    par = int(os.environ.get("VERIF_KANI_JOBS", "6"))
    with cf.ThreadPoolExecutor(max_workers=par) as ex:
        for r in ex.map(lambda n: run_one(n, meta, tier), names):
            out.append(r)
    return {"harnesses": out, "status": "done"}
