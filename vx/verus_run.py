"""Run Verus on a generated unit and classify the outcome per obligation."""
import json
import os
import re
import subprocess
import time

import extract

VERIF = extract.VERIF
WORK = os.path.join(VERIF, ".work")

SEMANTIC = (
    "postcondition not satisfied", "precondition not satisfied", "assertion failed",
    "invariant not satisfied", "decreases not satisfied", "possible arithmetic underflow/overflow",
    "possible division by zero", "possible bit shift underflow/overflow", "index out of bounds",
    "unable to prove", "failed this", "recommendation not met", "could not prove termination",
    "loop invariant not", "assertion not satisfied", "not satisfied",
)
RESOURCE = ("resource limit", "rlimit", "timed out", "timeout", "out of memory")


def run_verus(root, probe=False, rlimit=None, seed=None, repo=None, extra=(), force_registered=None, _depth=0):
    """-> dict(status, ...) ; status in ok | failed | undecided.
    If the verifier's FRONT END rejects the text of a changed item (e.g. it now calls a helper function that is not under
    contract, or uses a construct outside the supported subset), that item is replaced by its registered copy (flagged
    `conflict`, decided by its mirror only) and the root is verified again, so that everything else is still decided."""
    res = _run_verus(root, probe, rlimit, seed, repo, extra, force_registered)
    if res.get("status") == "undecided" and _depth < 3 and "report" in res:
        forced = dict(force_registered or {})
        new = {}
        for e in res.get("frontend_in_items", []):
            it = next((i for i in res["report"]["items"] if i["item"] == e["item"]), None)
            if it is not None and it["status"] == "merged" and e["item"] not in forced:
                new[e["item"]] = "the verifier's front end rejects the changed item (%s)" % e["message"][:160]
        if new:
            forced.update(new)
            return run_verus(root, probe, rlimit, seed, repo, extra, forced, _depth + 1)
    return res


def _map_item(report, line):
    if line is None:
        return None
    for i in report["items"]:
        if i["gen_lines"][0] <= line <= i["gen_lines"][1]:
            return i
    return None


def _run_verus(root, probe=False, rlimit=None, seed=None, repo=None, extra=(), force_registered=None):
    t0 = time.time()
    try:
        gen, report = extract.generate(root, WORK, probe=probe, repo=repo, force_registered=force_registered)
    except extract.ExtractError as ex:
        return {"root": root, "probe": probe, "status": "undecided", "reason": "extraction: %s" % ex, "wall_s": time.time() - t0}
    cmd = ["verus", os.path.basename(gen), "--output-json", "--time", "--error-format=json",
           "--multiple-errors", "50" if probe else "4"]
    if rlimit:
        cmd += ["--rlimit", str(rlimit)]
    if seed is not None:
        cmd += ["--smt-option", "smt.random_seed=%d" % seed, "--smt-option", "sat.random_seed=%d" % seed]
    cmd += list(extra)
    env = dict(os.environ)
    env.setdefault("CARGO_NET_OFFLINE", "true")
    p = subprocess.run(cmd, cwd=WORK, stdout=subprocess.PIPE, stderr=subprocess.PIPE, text=True, env=env)
    res = {"root": root, "probe": probe, "generated": gen, "cmd": " ".join(cmd), "report": report,
           "wall_s": round(time.time() - t0, 2), "returncode": p.returncode}
    diags = []
    for ln in p.stderr.split("\n"):
        ln = ln.strip()
        if ln.startswith("{"):
            try:
                d = json.loads(ln)
            except ValueError:
                continue
            if d.get("level") in ("error", "error: internal compiler error"):
                diags.append(d)
    fe = []
    for d0 in diags:
        ln0 = next((sp.get("line_start") for sp in d0.get("spans", []) if sp.get("is_primary")), None)
        it0 = _map_item(report, ln0)
        low0 = d0.get("message", "").lower()
        if it0 is not None and not any(s_ in low0 for s_ in SEMANTIC) and not any(s_ in low0 for s_ in RESOURCE):
            fe.append({"item": it0["item"], "message": d0.get("message", "")})
    res["frontend_in_items"] = fe
    try:
        out = json.loads(p.stdout)
    except ValueError:
        res.update(status="undecided", reason="verus produced no JSON (front-end failure): " +
                   "; ".join(d.get("message", "") for d in diags[:3]) + p.stderr[-400:])
        return res
    vr = out.get("verification-results", {})
    res["verified"] = vr.get("verified", 0)
    res["errors"] = vr.get("errors", 0)
    funcs = {}
    smt_ms = 0
    for m in out.get("times-ms", {}).get("smt", {}).get("smt-run-module-times", []):
        for f in m.get("function-breakdown", []):
            name = f["function"].split("::", 1)[1] if "::" in f["function"] else f["function"]
            prev = funcs.get(name)
            ent = {"mode": f.get("mode:", f.get("mode")), "ms": f.get("time", 0), "rlimit": f.get("rlimit", 0),
                   "success": bool(f.get("success"))}
            if prev:  # same name several times (trait impl methods): merge
                ent = {"mode": ent["mode"], "ms": prev["ms"] + ent["ms"], "rlimit": prev["rlimit"] + ent["rlimit"],
                       "success": prev["success"] and ent["success"], "n": prev.get("n", 1) + 1}
            funcs[name] = ent
            smt_ms += f.get("time", 0)
    res["functions"] = funcs
    res["smt_ms"] = smt_ms
    res["total_ms"] = out.get("times-ms", {}).get("total", 0)
    res["verus_version"] = out.get("verus", {}).get("version")
    # map error diagnostics to items
    items = report["items"]
    errs = []
    for d in diags:
        msg = d.get("message", "")
        if msg.startswith("aborting due to"):
            continue
        line = None
        text = ""
        for sp in d.get("spans", []):
            if sp.get("is_primary"):
                line = sp.get("line_start")
                text = " ".join(t.get("text", "").strip() for t in sp.get("text", [])[:2])
                break
        it = None
        if line is not None:
            for i in items:
                if i["gen_lines"][0] <= line <= i["gen_lines"][1]:
                    it = i
                    break
        low = msg.lower()
        kind = "semantic" if any(s in low for s in SEMANTIC) else ("resource" if any(s in low for s in RESOURCE) else "frontend")
        src_line = None
        if it is not None:
            # approximate source line: proportional position inside the item
            g0, g1 = it["gen_lines"]
            s0, s1 = it["src_lines"]
            src_line = s0 + int((line - g0) * (s1 - s0) / max(1, g1 - g0))
        errs.append({"message": msg, "gen_line": line, "text": text[:240], "kind": kind,
                     "item": it["item"] if it else None, "src_file": it["src_file"] if it else None,
                     "src_line_approx": src_line, "rendered": (d.get("rendered") or "")[:3000]})
    res["diagnostics"] = errs
    if vr.get("encountered-vir-error") or (vr.get("encountered-error") and not errs) or \
            any(e["kind"] == "frontend" for e in errs):
        if not any(e["kind"] == "semantic" for e in errs):
            res.update(status="undecided", reason="verus front-end / VIR error: " +
                       "; ".join(e["message"] for e in errs if e["kind"] == "frontend")[:600])
            return res
    if any(e["kind"] == "resource" for e in errs) and not any(e["kind"] == "semantic" for e in errs):
        res.update(status="undecided", reason="resource limit: " + "; ".join(e["message"] for e in errs)[:400])
        return res
    res["status"] = "failed" if (errs or res["errors"]) else "ok"
    return res


def probe_lines(gen_path):
    out = []
    with open(gen_path) as f:
        for n, ln in enumerate(f, 1):
            if "assert(false); }" in ln and "/*@P*/" in ln:
                out.append(n)
    return out


def retry_function(gen, name, seeds=(1, 2, 3)):
    """A proof found under any solver seed is a proof: re-verify one function in isolation.
    -> True if some seed discharges it."""
    for sd in seeds:
        cmd = ["verus", os.path.basename(gen), "--verify-root", "--verify-function", name, "--output-json",
               "--smt-option", "smt.random_seed=%d" % sd, "--rlimit", "30"]
        p = subprocess.run(cmd, cwd=WORK, stdout=subprocess.PIPE, stderr=subprocess.PIPE, text=True)
        try:
            vr = json.loads(p.stdout).get("verification-results", {})
        except ValueError:
            return False
        if vr.get("verified", 0) >= 1 and vr.get("errors", 1) == 0 and not vr.get("encountered-vir-error"):
            return True
    return False


def probe_hits_isolated(gen, fn_name):
    """re-run one function of a probe twin in isolation (larger rlimit) and return the lines of its failed assertions"""
    cmd = ["verus", os.path.basename(gen), "--verify-root", "--verify-function", fn_name, "--error-format=json",
           "--multiple-errors", "50", "--rlimit", "60"]
    p = subprocess.run(cmd, cwd=WORK, stdout=subprocess.PIPE, stderr=subprocess.PIPE, text=True)
    hits = set()
    for ln in p.stderr.split("\n"):
        ln = ln.strip()
        if ln.startswith("{"):
            try:
                d = json.loads(ln)
            except ValueError:
                continue
            if d.get("level") == "error" and "assertion failed" in d.get("message", ""):
                for sp in d.get("spans", []):
                    if sp.get("is_primary"):
                        hits.add(sp.get("line_start"))
    return hits
