#!/usr/bin/env python3
"""Mechanical extraction of real functions from /repo/src into single-file Verus units.

A unit file (units/*.rs) is Verus text with directives:

    //@include <path relative to /verif>      include once (recursively processed)
    //@item <src file> :: <item path>         start of an item region
    ...annotated copy of the item...
    //@end

Inside an item region everything is *the item's own tokens* except what is marked:

    //@+            ... lines ...   //@-      inserted annotation (block form)
    /*+*/ ... /*-*/                           inserted annotation (inline form)
    /*@Rnn: <original tokens> @*/ <replacement> /*@.*/    licensed rewrite (rule Rnn of vx/rules.md)
    /*@probe*/                                extra must-fail probe point (closure bodies)
    /*@lprobe*/                               the same inside a proof fn of a hand-written lemma (vacuity of its requires)

On every run the tool
  1. slices the item out of the current working tree of /repo (lexer + brace matching),
  2. checks that the unmarked tokens of the region (with rewrites undone) equal the
     tokens of that slice; if they do, the region is emitted as is;
  3. otherwise token-merges: the differing source tokens replace the region's
     tokens in place, the annotations stay where they are anchored
     (conflict -> ExtractError -> the check exits 2, never an alarm);
  4. re-derives the source tokens from the emitted text (strip insertions, undo
     rewrites) and compares with the slice again (round-trip self check).
"""
import difflib
import hashlib
import json
import os
import re
import sys

sys.path.insert(0, os.path.dirname(os.path.abspath(__file__)))
from lexer import lex, TRIVIA, Lexeme  # noqa: E402
from items import locate, children, LocateError  # noqa: E402

VERIF = os.path.dirname(os.path.dirname(os.path.abspath(__file__)))
REPO = os.environ.get("VERIF_REPO", "/repo")

KNOWN_RULES = {"R%d" % i for i in range(1, 30)}


class ExtractError(Exception):
    """lost anchor / merge conflict / unlicensed difference: UNDECIDED, never a violation"""


class Seg:
    """one lexeme of an annotated region with its provenance"""
    __slots__ = ("kind", "text", "prov", "rule", "group")

    def __init__(self, kind, text, prov, rule=None, group=None):
        self.kind, self.text, self.prov, self.rule, self.group = kind, text, prov, rule, group
        # prov: 'code' | 'ins' | 'rew' (replacement text of a rewrite) | 'trivia' | 'marker'


def parse_region(text, where):
    """-> (segs, base) ; base = list of (token_text, seg_index_or_None, group_or_None)
    base is the token sequence the region claims to be a copy of."""
    segs, base = [], []
    mode = "code"
    group = 0
    cur_rule = None
    rewrites = []
    for lx in lex(text):
        if lx.kind == "lcomment" and lx.text.rstrip() in ("//@+", "//@-"):
            want = "ins" if lx.text.rstrip() == "//@+" else "code"
            if (mode == "ins") == (want == "ins") or mode == "rew":
                raise ExtractError("%s: unbalanced %s" % (where, lx.text.strip()))
            mode = want
            segs.append(Seg(lx.kind, lx.text, "marker"))
            continue
        if lx.kind == "bcomment":
            if lx.text == "/*+*/":
                if mode != "code":
                    raise ExtractError("%s: /*+*/ inside %s" % (where, mode))
                mode = "ins"
                segs.append(Seg(lx.kind, lx.text, "marker"))
                continue
            if lx.text == "/*-*/":
                if mode != "ins":
                    raise ExtractError("%s: /*-*/ outside insertion" % where)
                mode = "code"
                segs.append(Seg(lx.kind, lx.text, "marker"))
                continue
            if lx.text == "/*@probe*/":
                segs.append(Seg(lx.kind, lx.text, "probe"))
                continue
            m = re.match(r"/\*@(R\d+):(.*)@\*/\Z", lx.text, re.S)
            if m:
                if mode != "code":
                    raise ExtractError("%s: rewrite inside %s" % (where, mode))
                if m.group(1) not in KNOWN_RULES:
                    raise ExtractError("%s: unknown rule %s" % (where, m.group(1)))
                mode = "rew"
                group += 1
                cur_rule = m.group(1)
                orig = [l.text for l in lex(m.group(2)) if l.kind not in TRIVIA]
                for t in orig:
                    base.append((t, None, group))
                rewrites.append({"rule": cur_rule, "original": " ".join(orig), "replacement": ""})
                segs.append(Seg(lx.kind, lx.text, "marker", cur_rule, group))
                continue
            if lx.text == "/*@.*/":
                if mode != "rew":
                    raise ExtractError("%s: /*@.*/ without rewrite" % where)
                mode = "code"
                segs.append(Seg(lx.kind, lx.text, "marker"))
                continue
        if lx.kind in TRIVIA:
            segs.append(Seg(lx.kind, lx.text, "trivia"))
            continue
        if mode == "code":
            base.append((lx.text, len(segs), None))
            segs.append(Seg(lx.kind, lx.text, "code"))
        elif mode == "ins":
            segs.append(Seg(lx.kind, lx.text, "ins"))
        else:
            rewrites[-1]["replacement"] += (" " if rewrites[-1]["replacement"] else "") + lx.text
            segs.append(Seg(lx.kind, lx.text, "rew", cur_rule, group))
    if mode != "code":
        raise ExtractError("%s: region ends inside %s" % (where, mode))
    return segs, base, rewrites


def src_tokens(slice_text):
    """significant tokens of a source slice, each with the trivia in front of it"""
    out, pending = [], ""
    for lx in lex(slice_text):
        if lx.kind in TRIVIA:
            pending += lx.text
        else:
            out.append((lx.text, pending))
            pending = ""
    return out



RUST_KW = {"as", "break", "const", "continue", "crate", "else", "enum", "extern", "false", "fn", "for", "if", "impl", "in", "let",
           "loop", "match", "mod", "move", "mut", "pub", "ref", "return", "self", "Self", "static", "struct", "super", "trait",
           "true", "type", "unsafe", "use", "where", "while", "dyn", "async", "await"}


def detect_renames(btxt, stxt):
    """consistent identifier renames between the registered copy and the source slice: every occurrence of `a`
    became `b`, `b` is new, `a` is gone.  (A renamed local/parameter is a harmless edit; annotations that mention it follow.)"""
    ident = re.compile(r"[A-Za-z_][A-Za-z0-9_]*\Z")
    sm = difflib.SequenceMatcher(None, btxt, stxt, autojunk=False)
    pairs = {}
    bad = set()
    for tag, i1, i2, j1, j2 in sm.get_opcodes():
        if tag != "replace" or (i2 - i1) != (j2 - j1):
            continue
        for k, (a, b) in enumerate(zip(btxt[i1:i2], stxt[j1:j2])):
            if a == b:
                continue
            # a path segment / method / field name (`Duration::from` -> `Duration::epsilon`, `.min()` -> `.max()`) is a
            # different item, not a renamed local
            if i1 + k > 0 and btxt[i1 + k - 1] in ("::", "."):
                bad.add(a)
                continue
            if ident.match(a) and ident.match(b) and a not in RUST_KW and b not in RUST_KW:
                if pairs.get(a, b) != b:
                    bad.add(a)
                pairs[a] = b
    out = {}
    for a, b in pairs.items():
        if a in bad or b in btxt or a in stxt or list(pairs.values()).count(b) != 1:
            continue
        if btxt.count(a) != stxt.count(b):
            continue
        out[a] = b
    return out


def apply_renames(region, renames):
    """rename identifiers in the whole annotated region (code, annotations, rewrite markers).  Inside annotations and
    rewrite replacements an identifier that follows `.` or `::` is a field / method / path segment (e.g. the spec method
    `.rbf(..)`), not the renamed local, and is left alone."""
    out = []
    mode = "code"
    prev = None
    for lx in lex(region):
        t = lx.text
        if lx.kind == "lcomment" and t.rstrip() in ("//@+", "//@-"):
            mode = "ins" if t.rstrip() == "//@+" else "code"
        elif lx.kind == "bcomment" and t == "/*+*/":
            mode = "ins"
        elif lx.kind == "bcomment" and t in ("/*-*/", "/*@.*/"):
            mode = "code"
        elif lx.kind == "bcomment" and t.startswith("/*@R"):
            for a, b in renames.items():
                t = re.sub(r"(?<![A-Za-z0-9_.])%s(?![A-Za-z0-9_])" % re.escape(a), b, t)
            mode = "rew"
        elif lx.kind == "ident" and t in renames:
            if mode == "code" or prev not in (".", "::"):
                t = renames[t]
        out.append(t)
        if lx.kind not in TRIVIA:
            prev = lx.text
    return "".join(out)


def merge(segs, base, stoks, where):
    """token-level three-way merge; returns (text, changes)"""
    btxt = [b[0] for b in base]
    stxt = [s[0] for s in stoks]
    if btxt == stxt:
        return None, []
    sm = difflib.SequenceMatcher(None, btxt, stxt, autojunk=False)
    # seg index -> replacement text (None = delete) ; insert_before[seg index] = text
    repl, insert_before = {}, {}
    changes = []
    tail_insert = ""
    for tag, i1, i2, j1, j2 in sm.get_opcodes():
        if tag == "equal":
            continue
        changes.append({"op": tag, "was": " ".join(btxt[i1:i2]), "now": " ".join(stxt[j1:j2])})
        if any(base[k][2] is not None for k in range(i1, i2)):
            raise ExtractError("%s: source changed inside a rewritten span (%s -> %s)" % (
                where, " ".join(btxt[i1:i2]), " ".join(stxt[j1:j2])))
        if tag == "insert" and 0 < i1 < len(base) and base[i1][2] is not None and base[i1 - 1][2] == base[i1][2]:
            raise ExtractError("%s: source tokens inserted inside a rewritten span" % where)
        new = "".join(tr + t for t, tr in stoks[j1:j2])
        if tag == "insert":
            if i1 < len(base):
                k = base[i1][1]
                if k is None:
                    # in front of a rewritten span: attach to the span's marker
                    k = next(n for n, s in enumerate(segs) if s.prov == "marker" and s.group == base[i1][2])
                insert_before[k] = insert_before.get(k, "") + new + " "
            else:
                tail_insert += new
            continue
        idx = [base[k][1] for k in range(i1, i2)]
        interior = [s for s in segs[idx[0]:idx[-1] + 1] if s.prov in ("ins", "rew", "probe")]
        if interior and (i2 - i1) != (j2 - j1):
            raise ExtractError("%s: source changed across an annotation anchor (%s -> %s)" % (
                where, " ".join(btxt[i1:i2]), " ".join(stxt[j1:j2])))
        if (i2 - i1) == (j2 - j1):
            for k, (t, tr) in zip(idx, stoks[j1:j2]):
                repl[k] = t
        else:
            repl[idx[0]] = new.lstrip() if tag == "replace" else None
            for k in idx[1:]:
                repl[k] = None
    # An inserted annotation block (proof steps, loop invariants, ghost lets: `//@+ ... //@-`) is anchored between two code
    # tokens.  If the source changed right at that anchor (the code token just before or just after the block is not part of an
    # unchanged run), the block may now sit in a different branch / statement than the one it was written for: its proof steps
    # would then be checked against code they do not describe, and a failing proof step would look like a violation.  That is a
    # conflict (the item is handed to its bounded stand-in), never an alarm.
    changed_base = set()
    for tag, i1, i2, j1, j2 in sm.get_opcodes():
        if tag == "equal":
            continue
        for k in range(i1, i2):
            changed_base.add(k)
        if tag == "insert":
            changed_base.add(("gap", i1))       # source tokens inserted between base[i1-1] and base[i1]
    seg2base = {b[1]: k for k, b in enumerate(base) if b[1] is not None}
    n = 0
    while n < len(segs):
        if segs[n].prov == "ins" and segs[n].text.lstrip().startswith("//@+") or (segs[n].prov == "marker" and segs[n].text.strip() == "//@+"):
            m = n
            while m < len(segs) and not (segs[m].text.strip() == "//@-"):
                m += 1
            prev_code = next((q for q in range(n - 1, -1, -1) if q in seg2base), None)
            next_code = next((q for q in range(m + 1, len(segs)) if q in seg2base), None)
            for q in (prev_code, next_code):
                if q is not None and seg2base[q] in changed_base:
                    raise ExtractError("%s: source changed at the anchor of an annotation block (token `%s`)" % (where, segs[q].text))
            if next_code is not None and ("gap", seg2base[next_code]) in changed_base:
                raise ExtractError("%s: source tokens inserted at the anchor of an annotation block (before `%s`)" % (where, segs[next_code].text))
            n = m
        n += 1
    out = []
    for n, s in enumerate(segs):
        if n in insert_before:
            out.append(insert_before[n])
        if n in repl:
            if repl[n] is not None:
                out.append(repl[n])
        else:
            out.append(s.text)
    out.append(tail_insert)
    return "".join(out), changes


def body_open_seg(segs):
    """index of the seg that opens the fn body: first code `{` at depth 0 after the parameter list"""
    depth = 0
    seen_paren = False
    for n, s in enumerate(segs):
        if s.prov == "rew":
            # a rewritten parameter list (R15) still is the parameter list
            if "(" in s.text:
                seen_paren = True
            continue
        if s.prov != "code":
            continue
        if s.text in ("(", "["):
            depth += 1
            seen_paren = True
        elif s.text in (")", "]"):
            depth -= 1
        elif s.text == "{" and depth == 0 and seen_paren:
            return n
        elif s.text == ";" and depth == 0:
            return None
    return None


def emit_region(text, probe):
    """text of a (merged) region -> final text; in probe mode insert assert(false)"""
    if not probe:
        return text, 0
    segs, base, _ = parse_region(text, "probe")
    is_fn = False
    for s in segs:
        if s.prov == "code":
            if s.text == "fn":
                is_fn = True
                break
            if s.text not in ("pub", "const", "unsafe", "(", ")", "crate", "super", "in"):
                break
    n_probe = 0
    bo = body_open_seg(segs) if is_fn else None
    out = []
    for n, s in enumerate(segs):
        if s.prov == "probe":
            out.append(" if vf_nondet() { assert(false); } /*@P*/ ")
            n_probe += 1
            continue
        out.append(s.text)
        if bo is not None and n == bo:
            out.append(" if vf_nondet() { assert(false); } /*@P*/ ")
            n_probe += 1
    return "".join(out), n_probe


def roundtrip(text, stoks, where):
    segs, base, _ = parse_region(text, where)
    if [b[0] for b in base] != [s[0] for s in stoks]:
        raise ExtractError("%s: round-trip check failed (emitted text is not the source slice + annotations)" % where)


class Unit:
    def __init__(self, root, repo=None, probe=False, only_probe_items=None, force_registered=None):
        self.root = root
        self.force_registered = dict(force_registered or {})   # item id -> reason: keep the registered copy of these items
        self.repo = repo or REPO
        self.probe = probe
        self.included = set()
        self.lines = []        # output lines
        self.items = []        # reports
        self.src_cache = {}
        self.trusted = []      # (kind, line, text) found by the mechanical scan
        self.probe_fns = []
        self.module = None

    def src(self, rel):
        if rel not in self.src_cache:
            p = os.path.join(self.repo, rel)
            if not os.path.exists(p):
                raise ExtractError("source file missing: %s" % rel)
            with open(p) as f:
                self.src_cache[rel] = f.read()
        return self.src_cache[rel]

    def process(self, relpath):
        path = os.path.join(VERIF, relpath)
        if path in self.included:
            return
        self.included.add(path)
        with open(path) as f:
            lines = f.read().split("\n")
        i = 0
        while i < len(lines):
            ln = lines[i]
            st = ln.strip()
            if st.startswith("//@include "):
                self.process(st[len("//@include "):].strip())
                i += 1
                continue
            if st.startswith("//@module "):
                self.module = st[len("//@module "):].strip()
                i += 1
                continue
            if st == "//@endmodule":
                self.module = None
                i += 1
                continue
            if st.startswith("//@item "):
                spec = st[len("//@item "):]
                probe_ok = True
                if spec.endswith(" noprobe"):
                    spec = spec[:-len(" noprobe")]
                    probe_ok = False
                srcfile, _, ipath = spec.partition(" :: ")
                j = i + 1
                while j < len(lines) and lines[j].strip() != "//@end":
                    if lines[j].strip().startswith("//@item "):
                        raise ExtractError("%s:%d: nested //@item" % (relpath, j + 1))
                    j += 1
                if j >= len(lines):
                    raise ExtractError("%s:%d: //@item without //@end" % (relpath, i + 1))
                region = "\n".join(lines[i + 1:j])
                self.do_item(relpath, i + 1, srcfile.strip(), ipath.strip(), region, probe_ok)
                i = j + 1
                continue
            if self.probe and "/*@probe*/" in ln:
                ln = ln.replace("/*@probe*/", " if vf_nondet() { assert(false); } /*@P*/ ")
            if self.probe and "/*@lprobe*/" in ln:
                # probe inside a proof fn (lemma): guarded by an uninterpreted spec predicate with a fresh index
                self.n_lprobe = getattr(self, "n_lprobe", 0) + 1
                ln = ln.replace("/*@lprobe*/", " if vf_nondet_s(%d) { assert(false); } /*@P*/ " % self.n_lprobe)
            self.lines.append(ln)
            i += 1

    def do_item(self, unitfile, unitline, srcfile, ipath, region, probe_ok):
        where = "%s:%d [%s :: %s]" % (unitfile, unitline, srcfile, ipath)
        text = self.src(srcfile)
        try:
            s, e, body_at = locate(text, ipath)
        except LocateError as ex:
            # the item no longer exists in the source (deleted / renamed / inlined): keep the registered copy in the generated
            # file so that the rest of the root still verifies; the item is flagged `lost` and handed to the driver
            segs, base, rewrites = parse_region(region, where)
            final, n_probe = emit_region(region, self.probe and probe_ok)
            gen_first = len(self.lines) + 1
            self.lines.append("// @src %s (LOST: %s)  %s" % (srcfile, ex, ipath))
            self.lines.extend(final.split("\n"))
            m = re.search(r"(?:^|/ )fn (\w+)\s*$", ipath)
            self.items.append({"item": "%s :: %s" % (srcfile, ipath), "src_file": srcfile, "src_lines": [0, 0], "sha256": "",
                               "src_tokens": 0, "annotation_tokens": 0, "rewrites": rewrites, "status": "conflict",
                               "conflict": "the item no longer exists in the source (%s)" % ex, "lost": True,
                               "source_changes": [{"op": "lost", "was": ipath, "now": ""}], "gen_lines": [gen_first, len(self.lines)],
                               "unit_file": unitfile, "fn": m.group(1) if m else None, "probes": n_probe, "module": self.module,
                               "kind": "fn" if m else "type", "emits_body": body_open_seg(segs) is not None})
            return
        slice_text = text[s:e]
        first_line = text.count("\n", 0, s) + 1
        last_line = text.count("\n", 0, e) + 1
        stoks = src_tokens(slice_text)
        segs, base, rewrites = parse_region(region, where)
        renames = detect_renames([b[0] for b in base], [t for t, _ in stoks])
        region0 = region
        if renames:
            region = apply_renames(region, renames)
            segs, base, rewrites = parse_region(region, where)
        conflict = None
        item_id = "%s :: %s" % (srcfile, ipath)
        try:
            if item_id in self.force_registered and [b[0] for b in base] != [t for t, _ in stoks]:
                raise ExtractError(self.force_registered[item_id])
            merged, changes = merge(segs, base, stoks, where)
        except ExtractError as ex:
            # The changed source cannot be merged into this region (edit inside a rewritten span / across an anchor).
            # Keep the REGISTERED copy of this one item in the generated file (its contract is what callers see; its
            # body is the old one and is not a statement about the current source), flag the item as `conflict`, and go
            # on: every other item of the root is still extracted from the current source and verified.
            conflict = str(ex)
            merged, changes = None, [{"op": "conflict", "was": "", "now": conflict}]
            if renames:
                # the registered copy is kept exactly as registered (a half-renamed copy need not even parse)
                region, renames = region0, {}
                segs, base, rewrites = parse_region(region, where)
        if renames:
            changes = [{"op": "rename", "was": a, "now": b} for a, b in sorted(renames.items())] + changes
            if merged is None:
                merged = region
        out = region if merged is None else merged
        if conflict is None:
            roundtrip(out, stoks, where)
        n_ins = sum(1 for x in segs if x.prov == "ins")
        final, n_probe = emit_region(out, self.probe and probe_ok)
        gen_first = len(self.lines) + 1
        self.lines.append("// @src %s:%d-%d  %s" % (srcfile, first_line, last_line, ipath))
        self.lines.extend(final.split("\n"))
        gen_last = len(self.lines)
        fn_name = None
        m = re.search(r"(?:^|/ )fn (\w+)\s*$", ipath)
        if m:
            fn_name = m.group(1)
        rep = {
            "item": "%s :: %s" % (srcfile, ipath), "src_file": srcfile, "src_lines": [first_line, last_line],
            "sha256": hashlib.sha256(slice_text.encode()).hexdigest(),
            "src_tokens": len(stoks), "annotation_tokens": n_ins,
            "rewrites": rewrites, "status": "conflict" if conflict else ("identical" if merged is None else "merged"), "conflict": conflict,
            "source_changes": changes, "gen_lines": [gen_first, gen_last], "unit_file": unitfile,
            "fn": fn_name, "probes": n_probe, "module": self.module,
            "kind": ("fn" if body_at is not None else "fn_decl") if fn_name else "type",
            "emits_body": body_open_seg(segs) is not None,
        }
        self.items.append(rep)

    def render(self):
        text = "\n".join(self.lines) + "\n"
        # mechanical scan for everything that is assumed rather than proved
        trusted = []
        for n, ln in enumerate(text.split("\n"), 1):
            code = ln.split("//")[0]
            for pat, kind in ((r"\bassume\s*\(", "assume"), (r"\badmit\s*\(", "admit"),
                              (r"external_body", "external_body"), (r"assume_specification", "assume_specification"),
                              (r"#\[verifier::external", "external"), (r"\bexternal_fn_specification", "external_fn_specification"),
                              (r"#\[verifier::truncate\]", "truncate"), (r"#\[verifier::exec_allows_no_decreases_clause\]", "no_decreases"),
                              (r"verifier::loop_isolation", "loop_isolation")):
                if re.search(pat, code):
                    if kind == "external" and "external_body" in code:
                        continue
                    trusted.append({"kind": kind, "line": n, "text": ln.strip()[:200]})
        return text, trusted


def generate(root, outdir, probe=False, repo=None, force_registered=None):
    u = Unit(root, repo=repo, probe=probe, force_registered=force_registered)
    u.process(root)
    text, trusted = u.render()
    name = os.path.splitext(os.path.basename(root))[0] + ("_probe" if probe else "")
    os.makedirs(outdir, exist_ok=True)
    out = os.path.join(outdir, name + ".rs")
    # atomic replace: the thorough tier runs a second Verus pass on the same root concurrently; a reader must never see a
    # half-written file (it did once: "verus_builtin crate was not imported")
    tmp = "%s.%d.tmp" % (out, os.getpid() * 1000 + (id(u) % 1000))
    with open(tmp, "w") as f:
        f.write(text)
    os.replace(tmp, out)
    # methods that exist in a container (impl / trait) of which some method is under contract, but are not registered
    # in any item region: a NEW entry here (w.r.t. the baseline) means e.g. an override of a default method whose
    # contract is assumed -- the verified text then no longer describes that type's behaviour
    registered = {}
    for it in u.items:
        if " / fn " in it["item"].split(" :: ", 1)[1]:
            cont, _, fn = it["item"].split(" :: ", 1)[1].rpartition(" / fn ")
            registered.setdefault((it["src_file"], cont), set()).add(fn.strip())
    unregistered = []
    for (srcfile, cont), fns in sorted(registered.items()):
        try:
            have = children(u.src(srcfile), cont)
        except LocateError:
            continue
        for f in have:
            if f not in fns:
                unregistered.append("%s :: %s / fn %s" % (srcfile, cont, f))
    report = {"unit": root, "generated": out, "probe": probe, "items": u.items, "trusted": trusted,
              "unregistered_methods": sorted(set(unregistered)),
              "files": sorted(os.path.relpath(p, VERIF) for p in u.included)}
    rj = os.path.join(outdir, name + ".extract.json")
    tmpj = "%s.%d.tmp" % (rj, os.getpid() * 1000 + (id(u) % 1000))
    with open(tmpj, "w") as f:
        json.dump(report, f, indent=1)
    os.replace(tmpj, rj)
    return out, report


if __name__ == "__main__":
    import argparse
    ap = argparse.ArgumentParser()
    ap.add_argument("unit")
    ap.add_argument("--out", default=os.path.join(VERIF, ".work"))
    ap.add_argument("--probe", action="store_true")
    ap.add_argument("--show", help="print the current source slice of <file> :: <item path>")
    a = ap.parse_args()
    if a.show:
        f, _, p = a.show.partition(" :: ")
        t = open(os.path.join(REPO, f)).read()
        s, e, _ = locate(t, p)
        print(t[s:e])
        sys.exit(0)
    try:
        out, rep = generate(a.unit, a.out, a.probe)
    except ExtractError as ex:
        print("UNDECIDED: extraction:", ex)
        sys.exit(2)
    print(out, len(rep["items"]), "items;", sum(1 for i in rep["items"] if i["status"] == "merged"), "merged")
