"""A small Rust lexer: enough to find items, match braces and compare token
sequences.  It never re-prints code; callers slice the original text by the
offsets recorded in each lexeme."""
import re
from collections import namedtuple

Lexeme = namedtuple("Lexeme", "kind text start end")
# kinds: ws, lcomment, bcomment, str, char, lifetime, num, ident, punct

PUNCT3 = ("..=", "...", "<<=", ">>=")
PUNCT2 = ("::", "->", "=>", "..", "==", "!=", "<=", ">=", "&&", "||", "+=", "-=",
          "*=", "/=", "%=", "^=", "&=", "|=")
_ident = re.compile(r"[A-Za-z_][A-Za-z0-9_]*")
_num = re.compile(r"0[xX][0-9a-fA-F_]+[A-Za-z0-9_]*|0[bB][01_]+[A-Za-z0-9_]*|0[oO][0-7_]+[A-Za-z0-9_]*|"
                  r"[0-9][0-9_]*(?:\.[0-9][0-9_]*)?(?:[eE][+-]?[0-9_]+)?[A-Za-z0-9_]*")
_ws = re.compile(r"\s+")


class LexError(Exception):
    pass


def lex(text):
    out = []
    i, n = 0, len(text)
    while i < n:
        c = text[i]
        m = _ws.match(text, i)
        if m:
            out.append(Lexeme("ws", m.group(), i, m.end()))
            i = m.end()
            continue
        if text.startswith("//", i):
            j = text.find("\n", i)
            j = n if j < 0 else j
            out.append(Lexeme("lcomment", text[i:j], i, j))
            i = j
            continue
        if text.startswith("/*", i):
            depth, j = 1, i + 2
            while j < n and depth:
                if text.startswith("/*", j):
                    depth += 1
                    j += 2
                elif text.startswith("*/", j):
                    depth -= 1
                    j += 2
                else:
                    j += 1
            if depth:
                raise LexError("unterminated block comment at %d" % i)
            out.append(Lexeme("bcomment", text[i:j], i, j))
            i = j
            continue
        # raw strings r"..", r#".."#, br".."
        m = re.match(r"b?r(#*)\"", text[i:i + 40])
        if m:
            hashes = m.group(1)
            close = '"' + hashes
            j = text.find(close, i + m.end())
            if j < 0:
                raise LexError("unterminated raw string at %d" % i)
            j += len(close)
            out.append(Lexeme("str", text[i:j], i, j))
            i = j
            continue
        if c == '"' or (c == "b" and i + 1 < n and text[i + 1] == '"'):
            j = i + (2 if c == "b" else 1)
            while j < n and text[j] != '"':
                j += 2 if text[j] == "\\" else 1
            if j >= n:
                raise LexError("unterminated string at %d" % i)
            j += 1
            out.append(Lexeme("str", text[i:j], i, j))
            i = j
            continue
        if c == "'":
            # char literal or lifetime
            m = re.match(r"'(?:\\(?:x[0-9a-fA-F]{2}|u\{[0-9a-fA-F_]+\}|.)|[^\\'])'", text[i:i + 16])
            if m:
                j = i + m.end()
                out.append(Lexeme("char", text[i:j], i, j))
                i = j
                continue
            m = _ident.match(text, i + 1)
            if m:
                out.append(Lexeme("lifetime", text[i:m.end()], i, m.end()))
                i = m.end()
                continue
            raise LexError("stray quote at %d" % i)
        m = _ident.match(text, i)
        if m:
            out.append(Lexeme("ident", m.group(), i, m.end()))
            i = m.end()
            continue
        if c.isdigit():
            # do not swallow the dots of a range: `1..=x`
            m = _num.match(text, i)
            t = m.group()
            if "." in t and text.startswith("..", i + t.index(".")):
                t = t[:t.index(".")]
            out.append(Lexeme("num", t, i, i + len(t)))
            i += len(t)
            continue
        for p in PUNCT3:
            if text.startswith(p, i):
                out.append(Lexeme("punct", p, i, i + 3))
                i += 3
                break
        else:
            for p in PUNCT2:
                if text.startswith(p, i):
                    out.append(Lexeme("punct", p, i, i + 2))
                    i += 2
                    break
            else:
                out.append(Lexeme("punct", c, i, i + 1))
                i += 1
    return out


TRIVIA = ("ws", "lcomment", "bcomment")


def significant(lexemes):
    return [l for l in lexemes if l.kind not in TRIVIA]
