"""Replay files.  Verus yields no counterexample; a native enumerator (replay/) looks for a
concrete failing input of the real function for the obligations it has a mirror for."""
import json
import os
import subprocess
import sys

VERIF = os.path.dirname(os.path.dirname(os.path.abspath(__file__)))
RDIR = os.path.join(VERIF, "replay")
REPO = os.environ.get("VERIF_REPO", "/repo")


def native(args, timeout=300):
    """run the native replay binary (built against the current working tree, debug profile)"""
    if not os.path.exists(os.path.join(RDIR, "Cargo.toml")):
        return None
    env = dict(os.environ)
    env["CARGO_NET_OFFLINE"] = "true"
    env["CARGO_TARGET_DIR"] = os.path.join(VERIF, ".work", "replay-target")
    try:
        import shutil
        shutil.copy(os.path.join(REPO, "Cargo.lock"), os.path.join(RDIR, "Cargo.lock"))
    except OSError:
        pass
    try:
        p = subprocess.run(["cargo", "run", "-q", "--offline", "--"] + args, cwd=RDIR, stdout=subprocess.PIPE,
                           stderr=subprocess.PIPE, text=True, env=env, timeout=timeout)
    except (subprocess.TimeoutExpired, OSError):
        return None
    return p


def make_replay(prop, v, path, seed):
    rp = {
        "property": prop, "obligation": v["obligation"], "engine": v["engine"], "unit": v.get("root"),
        "source": {"file": v.get("src_file"), "lines": v.get("src_lines")},
        "source_changes_vs_registered_copy": v.get("source_changes", []),
        "verifier_output": [{"message": e.get("message"), "at": e.get("text"), "src_line_approx": e.get("src_line_approx"),
                             "rendered": e.get("rendered")} for e in v.get("errors", [])],
        "trace": v.get("trace"), "bound": v.get("bound"),
        "failing_input": None,
    }
    target = v["obligation"]
    if (target.startswith("kani:") or target.startswith("mirror:")) and v.get("replay_hint"):
        target = v["replay_hint"]      # bounded harness: search the same function's contract mirror for a concrete input
    p = native(["search", target, str(seed)])
    if p is not None and p.returncode == 1:
        try:
            rp["failing_input"] = json.loads(p.stdout.strip().split("\n")[-1])
            rp["failing_input"]["seed"] = seed
        except ValueError:
            rp["failing_input"] = {"raw": p.stdout.strip().split("\n")[-1], "seed": seed}
    elif p is not None and p.returncode == 0:
        rp["search_note"] = "native enumerator found no failing input in its domain: " + p.stdout.strip()[-200:]
    else:
        rp["search_note"] = "no executable mirror for this obligation"
    with open(path, "w") as f:
        json.dump(rp, f, indent=1)
    return rp


def replay(prop, path):
    with open(path) as f:
        rp = json.load(f)
    if rp.get("failing_input"):
        p = native(["replay", json.dumps(rp["failing_input"])])
        if p is None:
            print("UNDECIDED: replay binary unavailable")
            return 2
        print(p.stdout.strip())
        if p.returncode == 1:
            print("VIOLATION property=%s replay=%s" % (prop, path))
            return 1
        if p.returncode != 0:
            print("UNDECIDED: the recorded input could not be replayed (rc=%s)" % p.returncode)
            return 2
        print("OK property=%s replay: the recorded failing input does not fail on the current tree" % prop)
        return 0
    # no input: re-run the verifier on the unit and look at the same obligation
    print("replay file carries no input; re-running the check for the obligation", rp["obligation"])
    r = subprocess.run([os.path.join(VERIF, "check"), prop, "--no-kani"] if rp["engine"].startswith("verus") else [os.path.join(VERIF, "check"), prop])
    return r.returncode


def run_witness(f):
    p = native(["witness", f["id"]])
    if p is None:
        return "undecided"
    return "reproduces" if p.returncode == 1 else "gone"
