#!/bin/bash
# usage: tools/confirm_benign.sh <dir with i/patch.diff> ...  -- each edit must apply, build without warnings and pass the suite (scratch worktree /tmp/wtconfirm)
# (create the scratch worktree first: git -C /repo worktree add --detach /tmp/wtconfirm HEAD ; remove it afterwards: git -C /repo worktree remove --force /tmp/wtconfirm)
for d in "$@"; do for s in $d/*/; do
  [ -f $s/patch.diff ] || continue
  cd /tmp/wtconfirm && git checkout -q -- . && git apply $s/patch.diff 2>/dev/null || { echo "$s: patch does not apply"; continue; }
  out=$(CARGO_NET_OFFLINE=true cargo test --offline --lib 2>&1); rc=$?
  w=$(echo "$out" | grep -c '^warning')
  echo "$s suite_rc=$rc $(echo "$out" | grep -o '[0-9]* passed' | head -1) warnings=$w"
  git checkout -q -- .
done; done
