#!/bin/bash
# usage: tools/intake_seeds.sh <round tag> <seedout dir> ...   -- confirms every <dir>/<i>/ in the scratch worktree /tmp/wtconfirm
# (create the scratch worktree first: git -C /repo worktree add --detach /tmp/wtconfirm HEAD ; remove it afterwards: git -C /repo worktree remove --force /tmp/wtconfirm)
# (suite passes with the patch, demo fails with it, demo passes without it) and prints one line per candidate
tag=$1; shift
for d in "$@"; do
  for s in $d/*/; do
    [ -f $s/patch.diff ] || continue
    i=$(basename $s); g=$(basename $d)
    out=/verif/.work/intake/$tag/$g-$i
    /verif/tools/confirm_seed.sh /tmp/wtconfirm $s/patch.diff $s/demo.rs $out > /dev/null 2>&1; rc=$?
    prop=$(python3 -c "import json;print(json.load(open('$s/meta.json'))['property'])" 2>/dev/null)
    echo "$g-$i prop=$prop confirm_rc=$rc $(cat $out/confirm.json 2>/dev/null)"
  done
done
