#!/usr/bin/env python3
"""Authoring aid (not used at check time): turn a hand-annotated copy of an item into a marked
//@item region.  usage: mkregion.py <src file> '<item path>' <annotated.rs>   (annotated text on stdin if '-')

Lines of the annotated text that occur (in order) in the source slice are code; other lines become
//@+ ... //@- blocks; lines that differ from a source line only by added tokens get inline /*+*/../*-*/.
Anything else is reported as NEEDS-REWRITE for manual treatment (rule markers)."""
import difflib
import os
import sys

sys.path.insert(0, os.path.join(os.path.dirname(os.path.abspath(__file__)), "..", "vx"))
from lexer import lex, TRIVIA  # noqa: E402
from items import locate       # noqa: E402
import extract                 # noqa: E402


def toks(s):
    return [l for l in lex(s) if l.kind not in TRIVIA]


def inline_mark(src_line_block, ann_block):
    """token-level: ann must be src + insertions"""
    st = [t.text for t in toks(src_line_block)]
    lx = lex(ann_block)
    at = [l for l in lx if l.kind not in TRIVIA]
    sm = difflib.SequenceMatcher(None, st, [t.text for t in at], autojunk=False)
    ins_ranges = []
    for tag, i1, i2, j1, j2 in sm.get_opcodes():
        if tag == "equal":
            continue
        if tag != "insert":
            return None
        ins_ranges.append((at[j1].start, at[j2 - 1].end))
    out, pos = [], 0
    for s, e in ins_ranges:
        out.append(ann_block[pos:s])
        out.append("/*+*/" + ann_block[s:e] + "/*-*/")
        pos = e
    out.append(ann_block[pos:])
    return "".join(out)


def make_region(srcfile, ipath, ann, repo=extract.REPO):
    text = open(os.path.join(repo, srcfile)).read()
    s, e, _ = locate(text, ipath)
    src = text[s:e]
    sl = src.split("\n")
    al = ann.rstrip("\n").split("\n")
    key = lambda ln: " ".join(t.text for t in toks(ln))
    sk = [key(x) for x in sl]
    ak = [key(x) for x in al]
    # source lines that are comments only / blank have empty keys: drop them from matching
    s_idx = [i for i, k in enumerate(sk) if k]
    a_idx = [i for i, k in enumerate(ak) if k]
    sm = difflib.SequenceMatcher(None, [sk[i] for i in s_idx], [ak[i] for i in a_idx], autojunk=False)
    out = []
    problems = []
    a_done = 0   # next annotated line (absolute index) to emit

    def flush_plain(upto):
        nonlocal a_done
        # blank/comment lines between handled lines: emit as they are
        while a_done < upto:
            out.append(al[a_done])
            a_done += 1

    for tag, i1, i2, j1, j2 in sm.get_opcodes():
        if tag == "equal":
            for j in range(j1, j2):
                flush_plain(a_idx[j])
                out.append(al[a_idx[j]])
                a_done = a_idx[j] + 1
        elif tag == "insert":
            first, last = a_idx[j1], a_idx[j2 - 1]
            flush_plain(first)
            out.append("//@+")
            out.extend(al[first:last + 1])
            out.append("//@-")
            a_done = last + 1
        elif tag == "replace":
            first, last = a_idx[j1], a_idx[j2 - 1]
            flush_plain(first)
            sblock = "\n".join(sl[s_idx[i1]:s_idx[i2 - 1] + 1])
            ablock = "\n".join(al[first:last + 1])
            m = inline_mark(sblock, ablock)
            if m is None:
                problems.append((sblock, ablock))
                out.append("/*NEEDS-REWRITE: " + sblock.replace("*/", "* /") + " */")
                out.append(ablock)
            else:
                out.append(m)
            a_done = last + 1
        else:  # delete: source lines missing from the annotated copy
            problems.append(("\n".join(sl[s_idx[i1]:s_idx[i2 - 1] + 1]), "<missing>"))
            out.append("/*NEEDS-REWRITE (missing in annotated copy): " + "\n".join(sl[s_idx[i1]:s_idx[i2 - 1] + 1]).replace("*/", "* /") + " */")
    flush_plain(len(al))
    region = "\n".join(out)
    # merge adjacent blocks  //@-\n//@+
    region = region.replace("//@-\n//@+\n", "")
    return "//@item %s :: %s\n%s\n//@end" % (srcfile, ipath, region), problems


if __name__ == "__main__":
    srcfile, ipath, annf = sys.argv[1:4]
    ann = sys.stdin.read() if annf == "-" else open(annf).read()
    region, problems = make_region(srcfile, ipath, ann)
    print(region)
    for sb, ab in problems:
        sys.stderr.write("NEEDS-REWRITE:\n--- source\n%s\n--- annotated\n%s\n" % (sb, ab))
