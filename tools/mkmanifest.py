#!/usr/bin/env python3
"""Regenerate MANIFEST.json from config/props.json (claimed checks) and config/not_applicable.json."""
import json, os
V = os.path.dirname(os.path.dirname(os.path.abspath(__file__)))
props = json.load(open(os.path.join(V, "config", "props.json")))
na = json.load(open(os.path.join(V, "config", "not_applicable.json")))
all_ids = [json.loads(l)["id"] for l in open(os.path.join(V, "properties.jsonl")) if l.strip()]
checks = []
for pid in all_ids:
    if pid not in props:
        continue
    c = props[pid]
    checks.append({
        "property_id": pid,
        "quick_cmd": "./check %s --tier quick" % pid,
        "thorough_cmd": "./check %s --tier thorough" % pid,
        "evidence_file": "/verif/evidence/%s.json" % pid,
        "replay_cmd_template": "./check %s --replay {path}" % pid,
        "engine": "contracts",
        "level_claimed": {"category": c.get("level", "proof"), "text": c["level_text"], "design_ref": (c.get("design_ref", "DESIGN.md §4") + " (plan); §11.2 (as built)")},
        "level_note": c["level_note"],
        "technique": c.get("technique", "contract-based deductive verification (Verus on mechanically extracted real functions)"),
    })
m = {
    "version": 1,
    "setup_cmd": "./setup.sh",
    "hooks": {"guard": "none", "enable": "no hooks: Verus reads source text, Kani/replay crates use the public API via a path dependency",
              "baseline_off_cmd": "cd /repo && cargo test --workspace --no-fail-fast --offline", "source_commits": [], "add_only": True},
    "engines": [
        {"name": "contracts", "path": "/verif/check", "serves_properties": [c["property_id"] for c in checks],
         "kind_free_text": "Verus 0.2026.09.13 on functions extracted mechanically from /repo/src on every run (vx/extract.py, units/*.rs); Kani 0.68 harnesses (kani/) and native bounded enumeration of the real crate against executable contract mirrors (replay/, Engine M) as labelled bounded stand-ins, never counted as proved; the replay crate also supplies concrete counterexamples for failed Verus obligations"}],
    "checks": checks,
    "not_applicable": [{"property_id": k, "reason": v} for k, v in na.items() if k not in props],
    "notes": "Exit 0 = every obligation discharged / every bounded stand-in passed on what was explored (a `note:` line and coverage.bounded_only_items name items that could only be decided by their bounded stand-in on this run). Exit 1 = VIOLATION line(s). Exit 2 = UNDECIDED (unstable proof, front-end error or lost item that no stand-in covers, resource limit, vacuity-probe anomaly): never an alarm. KNOWN-FINDING lines: known_findings.json. See DESIGN.md sections 2, 11-14.",
}
missing = [p for p in all_ids if p not in props and p not in na]
assert not missing, missing
json.dump(m, open(os.path.join(V, "MANIFEST.json"), "w"), indent=1)
print("MANIFEST.json:", len(checks), "checks,", len(m["not_applicable"]), "not applicable")
