#!/bin/sh
# usage: tools/run_all.sh [quick|thorough]   -- runs every claimed check, prints one line per property
T=${1:-quick}
cd /verif
rc=0
for p in C08 C09 C10 C11 C12 C13 C14 C16 C06 C07 C17 C19 C20; do
  ./check $p --tier $T > .work/run_$p.log 2>&1; r=$?
  echo "$p exit=$r $(grep -E '^(OK|VIOLATION|UNDECIDED)' .work/run_$p.log | head -2 | tr '\n' ' ')"
  [ $r -ne 0 ] && rc=1
done
exit $rc
