#!/bin/bash
# usage: tools/run_benign.sh   -- applies each kept behaviour-preserving edit to /repo, runs the check of the property whose cone contains the file, reverts
cd /verif
propfor() { case "$1" in
  *fixed_point*) echo C08;; *supply*) echo C09;; *fixed_priority*|*edf*|*fifo*) echo C06;; *ros2*) echo C07;;
  *arrival*) echo C10;; *wcet*) echo C14;; *demand*) echo C16;; *) echo C20;; esac; }
for d in benign/*/; do
  [ -f $d/patch.diff ] || continue
  f=$(grep -m1 '^+++ b/' $d/patch.diff | sed 's#+++ b/##')
  p=$(propfor $f)
  out=$(TRY_FLAGS="--no-kani" tools/try_patch.sh /verif/$d/patch.diff $p 2>&1)
  echo "$(basename $d) $f $p :: $(echo "$out" | grep -E '^(OK|VIOLATION|UNDECIDED)' | head -2 | cut -c1-150 | tr '\n' '|') notes=$(echo "$out" | grep -c '^note:')"
done
