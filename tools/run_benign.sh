#!/bin/bash
# usage: tools/run_benign.sh [benign/<id>/ ...]   -- applies each kept behaviour-preserving edit to /repo, runs the check of the property whose cone contains the file, reverts
cd /verif
propfor() { case "$1" in
  *fixed_point*) echo C08;; *supply*) echo C09;; *fixed_priority*|*edf*|*fifo*) echo C06;; *ros2*) echo C07;;
  *arrival*) echo C10;; *wcet*) echo C14;; *demand*) echo C16;; *) echo C20;; esac; }
dirs=${@:-benign/*/}
for d in $dirs; do
  [ -f $d/patch.diff ] || continue
  f=$(grep -m1 '^+++ b/' $d/patch.diff | sed 's#+++ b/##')
  p=$(propfor $f)
  # edits of steps_iter / step_offsets are looked at by the check that has those items in its cone
  if grep -q 'steps_iter' $d/patch.diff && [ $p = C10 ]; then p=C11; fi
  case "$f" in *demand/mod.rs*) p=C06;; esac
  out=$(TRY_FLAGS="--no-kani" tools/try_patch.sh /verif/$d/patch.diff $p 2>&1)
  echo "$(basename $d) $f $p :: $(echo "$out" | grep -E '^(OK|VIOLATION|UNDECIDED)' | head -2 | cut -c1-150 | tr '\n' '|') notes=$(echo "$out" | grep -c '^note:')"
done
