#!/bin/bash
# usage: tools/confirm_seed.sh <worktree> <patch.diff> <demo.rs> <outdir>
# Confirms in a scratch worktree: (1) crate + existing suite pass with the patch, (2) demo fails with it, (3) demo passes without it.
WT=$1; PATCH=$2; DEMO=$3; OUT=$4
mkdir -p "$OUT"
cd "$WT" || exit 2
git checkout -q -- . ; rm -rf tests
mkdir -p tests; cp "$DEMO" tests/demo.rs
export CARGO_NET_OFFLINE=true
cargo test --offline --test demo > "$OUT/demo_pristine.log" 2>&1; R_PRISTINE=$?
git apply "$PATCH" || { echo "patch does not apply"; exit 2; }
cargo test --offline --lib > "$OUT/suite_patched.log" 2>&1; R_SUITE=$?
cargo test --offline --test demo > "$OUT/demo_patched.log" 2>&1; R_PATCHED=$?
git checkout -q -- . ; rm -rf tests
SUITE_N=$(grep -o '[0-9]* passed' "$OUT/suite_patched.log" | head -1)
echo "{\"suite_with_patch_rc\": $R_SUITE, \"suite_with_patch\": \"$SUITE_N\", \"demo_with_patch_rc\": $R_PATCHED, \"demo_pristine_rc\": $R_PRISTINE}" > "$OUT/confirm.json"
cat "$OUT/confirm.json"
[ $R_SUITE -eq 0 ] && [ $R_PATCHED -ne 0 ] && [ $R_PRISTINE -eq 0 ]
