#!/bin/sh
# usage: tools/try_patch.sh <patch.diff> <prop> [<prop> ...]   -- run checks against a scratch copy of /repo with the patch applied
set -e
P=$1; shift
S=/tmp/mrepo_$$
rm -rf $S; mkdir -p $S
rsync -a --exclude target --exclude .git /repo/ $S/
(cd $S && patch -p1 -s < $P)
for prop in "$@"; do
  VERIF_REPO=$S /verif/check $prop --no-probe || true
done
rm -rf $S
