#!/bin/sh
# usage: tools/try_patch.sh <patch.diff> <prop> [<prop> ...]
# applies the change to /repo (never committed), runs the checks against /repo, and undoes it straight afterwards;
# evidence of these experiments goes to .work/evidence-experiments, never to /verif/evidence
P=$1; shift
git -C /repo diff --quiet || { echo "/repo has uncommitted changes"; exit 2; }
git -C /repo apply "$P" || { echo "patch does not apply"; exit 2; }
for prop in "$@"; do
  /verif/check $prop --no-probe --evidence-dir /verif/.work/evidence-experiments ${TRY_FLAGS:-}
done
git -C /repo checkout -- .
git -C /repo status --short | grep -v '^??' | head -3
