#!/bin/bash
# usage: tools/run_seeds.sh [seed ids...]   -- applies each kept seed to /repo, runs its property's check, reverts
cd /verif
ids=${@:-$(ls -d seeded/*/ | xargs -n1 basename)}
for id in $ids; do
  prop=$(python3 -c "import json;print(json.load(open('seeded/$id/meta.json'))['property'])")
  flags="--no-kani"; case $prop in C11) flags="";; esac
  out=$(TRY_FLAGS="$flags" tools/try_patch.sh /verif/seeded/$id/patch.diff $prop 2>&1)
  v=$(echo "$out" | grep -c '^VIOLATION'); u=$(echo "$out" | grep -c '^UNDECIDED'); o=$(echo "$out" | grep -c '^OK')
  first=$(echo "$out" | grep -m1 '^  obligation' | cut -c1-110)
  ps=$(echo "$out" | grep -c 'only proof steps')
  echo "$id prop=$prop violations=$v undecided=$u ok=$o proofstep_downgrades=$ps $first"
done
