#!/usr/bin/env python3
"""Authoring aid: port a hand-assembled prototype into a unit file.
usage: port.py <prototype.rs> <out_unit.rs> <mapping lines file>
mapping line:  <src file> :: <item path>  [=> <item path in prototype>]"""
import os, re, sys
sys.path.insert(0, os.path.join(os.path.dirname(os.path.abspath(__file__)), "..", "vx"))
sys.path.insert(0, os.path.dirname(os.path.abspath(__file__)))
from items import locate, LocateError
from mkregion import make_region

proto, outp, mapf = sys.argv[1:4]
text = open(proto).read()
# unwrap verus!{ ... } so that items are top level
text = re.sub(r"^include!\(.*\n", "", text, flags=re.M)
m = re.search(r"^verus!\s*\{\s*$", text, flags=re.M)
head, body = text[:m.start()], text[m.end():]
body = body[:body.rindex("}\nfn main")] if "}\nfn main" in body else body[:body.rindex("}")]
edits = []
for ln in open(mapf):
    ln = ln.strip()
    if not ln or ln.startswith("#"):
        continue
    left, _, ppath = ln.partition(" => ")
    srcfile, _, ipath = left.partition(" :: ")
    ppath = ppath.strip() or ipath
    try:
        s, e, _ = locate(body, ppath)
    except LocateError as ex:
        sys.stderr.write("prototype: %s\n" % ex)
        continue
    ann = body[s:e]
    # keep indentation of first line
    ls = body.rfind("\n", 0, s) + 1
    indent = body[ls:s]
    region, problems = make_region(srcfile.strip(), ipath.strip(), indent + ann)
    for sb, ab in problems:
        sys.stderr.write("NEEDS-REWRITE in %s:\n--- source\n%s\n--- annotated\n%s\n\n" % (ipath, sb, ab))
    edits.append((ls, e, region))
edits.sort()
out, pos = [], 0
for s, e, r in edits:
    out.append(body[pos:s]); out.append(r); pos = e
out.append(body[pos:])
open(outp, "w").write(head + "verus! {\n" + "".join(out) + "\n} // verus!\n")
print("wrote", outp, len(edits), "items")
