#!/bin/bash
# usage: tools/check_intake.sh <seedout dir>/<i> ...  -- applies each candidate to /repo, runs its property's quick check, reverts
for s in "$@"; do
  prop=$(python3 -c "import json;print(json.load(open('$s/meta.json'))['property'].split()[0].strip(',;'))")
  flags="--no-kani"; case $prop in C11) flags="";; esac
  out=$(TRY_FLAGS="$flags" /verif/tools/try_patch.sh $s/patch.diff $prop 2>&1)
  v=$(echo "$out" | grep -c '^VIOLATION'); u=$(echo "$out" | grep -c '^UNDECIDED'); o=$(echo "$out" | grep -c '^OK')
  echo "== $s prop=$prop violations=$v undecided=$u ok=$o"
  echo "$out" | grep -E '^VIOLATION|^  obligation|^UNDECIDED|^OK|^note' | cut -c1-200 | head -8
done
