#!/usr/bin/env python3
"""usage: keep_seed.py <seed id> <property> <patch> <demo> <confirm dir> <needs> <breaks> <detected: obligation or 'MISSED: reason'>"""
import json, os, shutil, sys
sid, prop, patch, demo, cdir, needs, breaks, detected = sys.argv[1:9]
d = os.path.join(os.path.dirname(os.path.dirname(os.path.abspath(__file__))), "seeded", sid)
os.makedirs(d, exist_ok=True)
shutil.copy(patch, os.path.join(d, "patch.diff"))
shutil.copy(demo, os.path.join(d, "demo.rs"))
conf = json.load(open(os.path.join(cdir, "confirm.json")))
meta = {"id": sid, "property": prop, "breaks": breaks, "needs_to_manifest": needs,
        "origin": "independent sub-agent given only the property text and a scratch worktree",
        "confirmed_in_scratch_worktree": {
            "commands": ["git apply patch.diff", "cargo test --offline --lib   (existing suite)", "cargo test --offline --test demo   (with patch)", "git checkout -- . && cargo test --offline --test demo   (pristine)"],
            "existing_suite_with_patch": conf["suite_with_patch"] + (" (rc 0)" if conf["suite_with_patch_rc"] == 0 else " (FAILED)"),
            "demo_with_patch": "fails (rc %d)" % conf["demo_with_patch_rc"], "demo_pristine": "passes (rc %d)" % conf["demo_pristine_rc"]},
        "check_result": detected}
json.dump(meta, open(os.path.join(d, "meta.json"), "w"), indent=1)
print("kept", d)
