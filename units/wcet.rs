// unit part: src/wcet/{mod,scalar,curve}.rs (C14)
verus! {

// ------------------------------------------------------------------ spec library
pub open spec fn cv(w: Seq<Service>, i: int) -> int { w[i].v() }
/// well-formed cumulative-cost prefix: non-decreasing ("garbage in => garbage out" otherwise)
pub open spec fn wcet_wf(w: Seq<Service>) -> bool { forall |i: int, k: int| 0 <= i <= k < w.len() ==> cv(w, i) <= cv(w, k) }
/// whole-prefix repetition for large n
pub open spec fn cost_curve(w: Seq<Service>, n: int) -> int {
    if w.len() == 0 || n <= 0 { 0 } else {
        let len = w.len() as int; let x = n / len; let y = n % len;
        (if x > 0 { cv(w, len - 1) * x } else { 0 }) + (if y > 0 { cv(w, y - 1) } else { 0 })
    }
}
/// cost of the i-th job (1-based) as seen through job_cost_iter
pub open spec fn job_cost(w: Seq<Service>, i: int) -> int { cost_curve(w, i) - cost_curve(w, i - 1) }
pub open spec fn min_diff(w: Seq<Service>, m: int) -> int    // min over the first m per-job costs of the prefix, m >= 1
    decreases m
{
    if m <= 1 { cv(w, 0) } else { let r = min_diff(w, m - 1); let dd = cv(w, m - 1) - cv(w, m - 2); if dd < r { dd } else { r } }
}

pub proof fn lemma_cost_curve_mono(w: Seq<Service>, n: int)
    requires wcet_wf(w), n >= 0
    ensures 0 <= cost_curve(w, n) <= cost_curve(w, n + 1)
{
    if w.len() > 0 {
        let len = w.len() as int;
        lemma_fundamental_div_mod(n, len); lemma_mod_bound(n, len); lemma_div_pos_is_pos(n, len);
        let x = n / len; let y = n % len;
        lemma_mul_nonnegative(cv(w, len - 1), x);
        if y + 1 < len { lemma_fundamental_div_mod_converse(n + 1, len, x, y + 1); assert(x * len == len * x) by { lemma_mul_is_commutative(x, len); } if y > 0 { assert(cv(w, y - 1) <= cv(w, y)); } }
        else {
            assert((x + 1) * len == len * x + len) by { lemma_mul_is_distributive_add(len, x, 1); lemma_mul_is_commutative(len, x + 1); }
            lemma_fundamental_div_mod_converse(n + 1, len, x + 1, 0);
            assert(cv(w, len - 1) * (x + 1) == cv(w, len - 1) * x + cv(w, len - 1)) by { lemma_mul_is_distributive_add(cv(w, len - 1), x, 1); }
            if y > 0 { assert(cv(w, y - 1) <= cv(w, len - 1)); }
        }
    }
}


pub proof fn lemma_cost_curve_mono2(w: Seq<Service>, a: int, b: int)
    requires wcet_wf(w), 0 <= a <= b
    ensures 0 <= cost_curve(w, a) <= cost_curve(w, b)
    decreases b - a
{
    if a < b { lemma_cost_curve_mono2(w, a, b - 1); lemma_cost_curve_mono(w, b - 1); } else { lemma_cost_curve_mono(w, a); }
}
/// C14: cost_of_jobs(n) is the sum of the first n items of job_cost_iter (telescoping)
pub open spec fn sum_job_costs(w: Seq<Service>, n: int) -> int decreases n { if n <= 0 { 0 } else { sum_job_costs(w, n - 1) + job_cost(w, n) } }
pub proof fn lemma_telescope(w: Seq<Service>, n: int)
    requires n >= 0
    ensures sum_job_costs(w, n) == cost_curve(w, n)
    decreases n
{
    if n > 0 { lemma_telescope(w, n - 1); }
}

// ------------------------------------------------------------------ extracted code
pub trait JobCostModel {
    spec fn wf(&self) -> bool;
    /// cumulative cost of n consecutive jobs
    spec fn cost(&self, n: int) -> int;
    spec fn least(&self, n: int) -> int;
    /// C14: cost_of_jobs(0) is zero and cost_of_jobs is non-decreasing in n
    proof fn cost_props(&self)
        requires self.wf()
        ensures self.cost(0) == 0,
            forall |a: int, b: int| #![trigger self.cost(a), self.cost(b)] 0 <= a <= b ==> 0 <= self.cost(a) <= self.cost(b);

//@item src/wcet/mod.rs :: trait JobCostModel / fn cost_of_jobs
    fn cost_of_jobs(&self, n: usize) -> /*+*/(r: /*-*/Service/*+*/)
        requires self.wf(), self.cost(n as int) <= u64::MAX
        ensures r.v() == self.cost(n as int)/*-*/ /*@R10: {
        self.job_cost_iter().take(n).sum()
    } @*/;/*@.*/
//@end

//@item src/wcet/mod.rs :: trait JobCostModel / fn least_wcet
    fn least_wcet(&self, n: usize) -> /*+*/(r: /*-*/Service/*+*/)
        requires self.wf()
        ensures r.v() == self.least(n as int)/*-*/ /*@R10: {
        self.job_cost_iter()
            .take(n)
            .min()
            .unwrap_or_else(Service::none)
    } @*/;/*@.*/
//@end
}

//@item src/wcet/scalar.rs :: struct Scalar
pub struct Scalar {
    /// The worst-case execution bound.
    pub wcet: Service,
}
//@end
// derive(Clone, Copy) (R12)
impl Clone for Scalar { fn clone(&self) -> (r: Scalar) ensures r == *self { Scalar { wcet: self.wcet } } }
impl Copy for Scalar {}

impl Scalar {
//@item src/wcet/scalar.rs :: impl Scalar / fn new
    pub fn new(wcet: Service) -> /*+*/(r: /*-*/Self/*+*/) ensures r.wcet == wcet/*-*/ {
        Scalar { wcet }
    }
//@end
}

impl JobCostModel for Scalar {
    open spec fn wf(&self) -> bool { true }
    open spec fn cost(&self, n: int) -> int { self.wcet.v() * n }
    open spec fn least(&self, n: int) -> int { if n > 0 { self.wcet.v() } else { 0 } }
    proof fn cost_props(&self) {
        assert forall |a: int, b: int| 0 <= a <= b implies 0 <= #[trigger] self.cost(a) <= #[trigger] self.cost(b) by {
            lemma_mul_nonnegative(self.wcet.v(), a); lemma_mul_inequality(a, b, self.wcet.v());
            lemma_mul_is_commutative(self.wcet.v(), a); lemma_mul_is_commutative(self.wcet.v(), b);
        }
    }
//@item src/wcet/scalar.rs :: impl JobCostModel for Scalar / fn cost_of_jobs
    fn cost_of_jobs(&self, n: usize) -> Service {
        self.wcet * n as u64
    }
//@end

//@item src/wcet/scalar.rs :: impl JobCostModel for Scalar / fn least_wcet
    fn least_wcet(&self, n: usize) -> Service {
        if n > 0 {
            self.wcet
        } else {
            Service::none()
        }
    }
//@end
}

//@item src/wcet/curve.rs :: struct Curve
pub struct /*@R19: Curve @*/WcetCurve/*@.*/ {
    /*+*/pub /*-*/wcet_of_n_jobs: Vec<Service>,
}
//@end

impl JobCostModel for WcetCurve {
    // non-empty: least_wcet indexes [0] unconditionally (finding KF8)
    open spec fn wf(&self) -> bool { wcet_wf(self.wcet_of_n_jobs@) && self.wcet_of_n_jobs@.len() >= 1 }
    open spec fn cost(&self, n: int) -> int { cost_curve(self.wcet_of_n_jobs@, n) }
    open spec fn least(&self, n: int) -> int {
        if n > 0 && self.wcet_of_n_jobs.len() > 0 { min_diff(self.wcet_of_n_jobs@, if n < self.wcet_of_n_jobs.len() { n } else { self.wcet_of_n_jobs.len() as int }) } else { 0 }
    }
    proof fn cost_props(&self) {
        assert forall |a: int, b: int| 0 <= a <= b implies 0 <= #[trigger] self.cost(a) <= #[trigger] self.cost(b) by { lemma_cost_curve_mono2(self.wcet_of_n_jobs@, a, b); }
    }
//@item src/wcet/curve.rs :: impl JobCostModel for Curve / fn cost_of_jobs
    fn cost_of_jobs(&self, n: usize) -> Service {
        if !self.wcet_of_n_jobs.is_empty() && n > 0 {
//@+
            proof {
                let len = self.wcet_of_n_jobs.len() as int;
                lemma_fundamental_div_mod(n as int, len); lemma_mod_bound(n as int, len); lemma_div_pos_is_pos(n as int, len);
                lemma_mul_nonnegative(cv(self.wcet_of_n_jobs@, len - 1), (n as int) / len);
            }
//@-
            // resolve large 'n' by super-additivity of cost function
            let x = n / self.wcet_of_n_jobs.len();
            let y = n % self.wcet_of_n_jobs.len();
            let prefix = if x > 0 {
                self.wcet_of_n_jobs[self.wcet_of_n_jobs.len() - 1] * x as u64
            } else {
                Service::none()
            };
            let suffix = if y > 0 {
                // -1 to account for zero-based indexing: offset 0 holds cost of 1 job
                self.wcet_of_n_jobs[y - 1]
            } else {
                Service::none()
            };
            prefix + suffix
        } else {
            Service::none()
        }
    }
//@end

//@item src/wcet/curve.rs :: impl JobCostModel for Curve / fn least_wcet
    fn least_wcet(&self, n: usize) -> Service {
        if n > 0 {
            let mut least = self.wcet_of_n_jobs[0];
            /*@R16: for i in 1..self.wcet_of_n_jobs.len().min(n) @*/let vf_end = vf_usize_min(self.wcet_of_n_jobs.len(), n); for i in 1..vf_end/*@.*/
//@+
                invariant self.wf(), self.wcet_of_n_jobs.len() > 0, least.v() == min_diff(self.wcet_of_n_jobs@, i as int),
                    vf_end <= self.wcet_of_n_jobs.len(),
//@-
            {
//@+
                proof { assert(cv(self.wcet_of_n_jobs@, i - 1) <= cv(self.wcet_of_n_jobs@, i as int)); }
//@-
                least = least.min(self.wcet_of_n_jobs[i] - self.wcet_of_n_jobs[i - 1])
            }
            least
        } else {
            Service::none()
        }
    }
//@end
}

/// usize::min (Ord::min on usize), R12
pub fn vf_usize_min(a: usize, b: usize) -> (r: usize) ensures r == (if a <= b { a } else { b }) { if a <= b { a } else { b } }

} // verus!
