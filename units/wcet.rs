// unit part: src/wcet/{mod,scalar,curve}.rs (C14)
use std::collections::VecDeque;
verus! {

// ------------------------------------------------------------------ spec library
pub open spec fn cv(w: Seq<Service>, i: int) -> int { w[i].v() }
/// well-formed cumulative-cost prefix: non-decreasing ("garbage in => garbage out" otherwise)
pub open spec fn wcet_wf(w: Seq<Service>) -> bool { forall |i: int, k: int| 0 <= i <= k < w.len() ==> cv(w, i) <= cv(w, k) }
/// whole-prefix repetition for large n
pub open spec fn cost_curve(w: Seq<Service>, n: int) -> int {
    if w.len() == 0 || n <= 0 { 0 } else {
        let len = w.len() as int; let x = n / len; let y = n % len;
        (if x > 0 { cv(w, len - 1) * x } else { 0 }) + (if y > 0 { cv(w, y - 1) } else { 0 })
    }
}
/// cost of the i-th job (1-based) as seen through job_cost_iter
pub open spec fn job_cost(w: Seq<Service>, i: int) -> int { cost_curve(w, i) - cost_curve(w, i - 1) }
pub open spec fn min_diff(w: Seq<Service>, m: int) -> int    // min over the first m per-job costs of the prefix, m >= 1
    decreases m
{
    if m <= 1 { cv(w, 0) } else { let r = min_diff(w, m - 1); let dd = cv(w, m - 1) - cv(w, m - 2); if dd < r { dd } else { r } }
}

pub proof fn lemma_cost_curve_mono(w: Seq<Service>, n: int)
    requires wcet_wf(w), n >= 0
    ensures 0 <= cost_curve(w, n) <= cost_curve(w, n + 1)
{
    if w.len() > 0 {
        let len = w.len() as int;
        lemma_fundamental_div_mod(n, len); lemma_mod_bound(n, len); lemma_div_pos_is_pos(n, len);
        let x = n / len; let y = n % len;
        lemma_mul_nonnegative(cv(w, len - 1), x);
        if y + 1 < len { lemma_fundamental_div_mod_converse(n + 1, len, x, y + 1); assert(x * len == len * x) by { lemma_mul_is_commutative(x, len); } if y > 0 { assert(cv(w, y - 1) <= cv(w, y)); } }
        else {
            assert((x + 1) * len == len * x + len) by { lemma_mul_is_distributive_add(len, x, 1); lemma_mul_is_commutative(len, x + 1); }
            lemma_fundamental_div_mod_converse(n + 1, len, x + 1, 0);
            assert(cv(w, len - 1) * (x + 1) == cv(w, len - 1) * x + cv(w, len - 1)) by { lemma_mul_is_distributive_add(cv(w, len - 1), x, 1); }
            if y > 0 { assert(cv(w, y - 1) <= cv(w, len - 1)); }
        }
    }
}


pub proof fn lemma_cost_curve_mono2(w: Seq<Service>, a: int, b: int)
    requires wcet_wf(w), 0 <= a <= b
    ensures 0 <= cost_curve(w, a) <= cost_curve(w, b)
    decreases b - a
{
    if a < b { lemma_cost_curve_mono2(w, a, b - 1); lemma_cost_curve_mono(w, b - 1); } else { lemma_cost_curve_mono(w, a); }
}
/// C14: cost_of_jobs(n) is the sum of the first n items of job_cost_iter (telescoping)
pub open spec fn sum_job_costs(w: Seq<Service>, n: int) -> int decreases n { if n <= 0 { 0 } else { sum_job_costs(w, n - 1) + job_cost(w, n) } }
pub proof fn lemma_telescope(w: Seq<Service>, n: int)
    requires n >= 0
    ensures sum_job_costs(w, n) == cost_curve(w, n)
    decreases n
{
    if n > 0 { lemma_telescope(w, n - 1); }
}

// ------------------------------------------------------------------ extracted code
pub trait JobCostModel {
    spec fn wf(&self) -> bool;
    /// cumulative cost of n consecutive jobs
    spec fn cost(&self, n: int) -> int;
    spec fn least(&self, n: int) -> int;
    /// C14: cost_of_jobs(0) is zero and cost_of_jobs is non-decreasing in n
    proof fn cost_props(&self)
        requires self.wf()
        ensures self.cost(0) == 0,
            forall |a: int, b: int| #![trigger self.cost(a), self.cost(b)] 0 <= a <= b ==> 0 <= self.cost(a) <= self.cost(b);

//@item src/wcet/mod.rs :: trait JobCostModel / fn cost_of_jobs
    fn cost_of_jobs(&self, n: usize) -> /*+*/(r: /*-*/Service/*+*/)
        requires self.wf(), self.cost(n as int) <= u64::MAX
        ensures r.v() == self.cost(n as int)/*-*/ /*@R10: {
        self.job_cost_iter().take(n).sum()
    } @*/;/*@.*/
//@end

//@item src/wcet/mod.rs :: trait JobCostModel / fn least_wcet
    fn least_wcet(&self, n: usize) -> /*+*/(r: /*-*/Service/*+*/)
        requires self.wf()
        ensures r.v() == self.least(n as int)/*-*/ /*@R10: {
        self.job_cost_iter()
            .take(n)
            .min()
            .unwrap_or_else(Service::none)
    } @*/;/*@.*/
//@end
}

// what #[auto_impl(&)] generates for references (R12)
impl<T: JobCostModel + ?Sized> JobCostModel for &T {
    open spec fn wf(&self) -> bool { (**self).wf() }
    open spec fn cost(&self, n: int) -> int { (**self).cost(n) }
    open spec fn least(&self, n: int) -> int { (**self).least(n) }
    proof fn cost_props(&self) { (**self).cost_props(); }
    fn cost_of_jobs(&self, n: usize) -> (r: Service) { (**self).cost_of_jobs(n) }
    fn least_wcet(&self, n: usize) -> (r: Service) { (**self).least_wcet(n) }
}

//@item src/wcet/scalar.rs :: struct Scalar
pub struct Scalar {
    /// The worst-case execution bound.
    pub wcet: Service,
}
//@end
// derive(Clone, Copy) (R12)
impl Clone for Scalar { fn clone(&self) -> (r: Scalar) ensures r == *self { Scalar { wcet: self.wcet } } }
impl Copy for Scalar {}

impl Scalar {
//@item src/wcet/scalar.rs :: impl Scalar / fn new
    pub fn new(wcet: Service) -> /*+*/(r: /*-*/Self/*+*/) ensures r.wcet == wcet/*-*/ {
        Scalar { wcet }
    }
//@end
}

impl JobCostModel for Scalar {
    open spec fn wf(&self) -> bool { true }
    open spec fn cost(&self, n: int) -> int { self.wcet.v() * n }
    open spec fn least(&self, n: int) -> int { if n > 0 { self.wcet.v() } else { 0 } }
    proof fn cost_props(&self) {
        assert forall |a: int, b: int| 0 <= a <= b implies 0 <= #[trigger] self.cost(a) <= #[trigger] self.cost(b) by {
            lemma_mul_nonnegative(self.wcet.v(), a); lemma_mul_inequality(a, b, self.wcet.v());
            lemma_mul_is_commutative(self.wcet.v(), a); lemma_mul_is_commutative(self.wcet.v(), b);
        }
    }
//@item src/wcet/scalar.rs :: impl JobCostModel for Scalar / fn cost_of_jobs
    fn cost_of_jobs(&self, n: usize) -> Service {
        self.wcet * n as u64
    }
//@end

//@item src/wcet/scalar.rs :: impl JobCostModel for Scalar / fn least_wcet
    fn least_wcet(&self, n: usize) -> Service {
        if n > 0 {
            self.wcet
        } else {
            Service::none()
        }
    }
//@end
}

//@item src/wcet/curve.rs :: struct Curve
pub struct /*@R19: Curve @*/WcetCurve/*@.*/ {
    /*+*/pub /*-*/wcet_of_n_jobs: Vec<Service>,
}
//@end

impl JobCostModel for WcetCurve {
    open spec fn wf(&self) -> bool { wcet_wf(self.wcet_of_n_jobs@) }
    open spec fn cost(&self, n: int) -> int { cost_curve(self.wcet_of_n_jobs@, n) }
    open spec fn least(&self, n: int) -> int {
        if n > 0 && self.wcet_of_n_jobs.len() > 0 { min_diff(self.wcet_of_n_jobs@, if n < self.wcet_of_n_jobs.len() { n } else { self.wcet_of_n_jobs.len() as int }) } else { 0 }
    }
    proof fn cost_props(&self) {
        assert forall |a: int, b: int| 0 <= a <= b implies 0 <= #[trigger] self.cost(a) <= #[trigger] self.cost(b) by { lemma_cost_curve_mono2(self.wcet_of_n_jobs@, a, b); }
    }
//@item src/wcet/curve.rs :: impl JobCostModel for Curve / fn cost_of_jobs
    fn cost_of_jobs(&self, n: usize) -> Service {
        if !self.wcet_of_n_jobs.is_empty() && n > 0 {
//@+
            proof {
                let len = self.wcet_of_n_jobs.len() as int;
                lemma_fundamental_div_mod(n as int, len); lemma_mod_bound(n as int, len); lemma_div_pos_is_pos(n as int, len);
                lemma_mul_nonnegative(cv(self.wcet_of_n_jobs@, len - 1), (n as int) / len);
            }
//@-
            // resolve large 'n' by super-additivity of cost function
            let x = n / self.wcet_of_n_jobs.len();
            let y = n % self.wcet_of_n_jobs.len();
            let prefix = if x > 0 {
                self.wcet_of_n_jobs[self.wcet_of_n_jobs.len() - 1] * x as u64
            } else {
                Service::none()
            };
            let suffix = if y > 0 {
                // -1 to account for zero-based indexing: offset 0 holds cost of 1 job
                self.wcet_of_n_jobs[y - 1]
            } else {
                Service::none()
            };
            prefix + suffix
        } else {
            Service::none()
        }
    }
//@end

//@item src/wcet/curve.rs :: impl JobCostModel for Curve / fn least_wcet
    fn least_wcet(&self, n: usize) -> Service {
        if n > 0 && !self.wcet_of_n_jobs.is_empty() {
            let mut least = self.wcet_of_n_jobs[0];
            /*@R16: for i in 1..self.wcet_of_n_jobs.len().min(n) @*/let vf_end = vf_usize_min(self.wcet_of_n_jobs.len(), n); for i in 1..vf_end/*@.*/
//@+
                invariant self.wf(), self.wcet_of_n_jobs.len() > 0, least.v() == min_diff(self.wcet_of_n_jobs@, i as int),
                    vf_end <= self.wcet_of_n_jobs.len(),
//@-
            {
//@+
                proof { assert(cv(self.wcet_of_n_jobs@, i - 1) <= cv(self.wcet_of_n_jobs@, i as int)); }
//@-
                least = least.min(self.wcet_of_n_jobs[i] - self.wcet_of_n_jobs[i - 1])
            }
            least
        } else {
            Service::none()
        }
    }
//@end
}

/// usize::min (Ord::min on usize), R12
pub fn vf_usize_min(a: usize, b: usize) -> (r: usize) ensures r == (if a <= b { a } else { b }) { if a <= b { a } else { b } }

// ------------------------------------------------------------------ extrapolation (C14)
/// sub-additive extension: candidate k for the cost of n+1 jobs, n = current prefix length
pub open spec fn ext_cand(w: Seq<Service>, k: int) -> int { cv(w, k) + cv(w, w.len() - k - 1) }
pub open spec fn ext_next(w: Seq<Service>) -> int { min_range(|k: int| ext_cand(w, k), 0, (w.len() / 2) as int) }
/// `cur` extends `orig`: the original prefix is unchanged and every later entry is the ext_next of the entries before it
pub open spec fn extends(orig: Seq<Service>, cur: Seq<Service>) -> bool {
    &&& orig.len() <= cur.len()
    &&& cur.subrange(0, orig.len() as int) =~= orig
    &&& forall |m: int| orig.len() <= m < cur.len() ==> #[trigger] cv(cur, m) == ext_next(cur.subrange(0, m))
}
/// magnitude envelope that extrapolation preserves: entry i costs at most i+1 times the single-job cost
/// (holds for every realisable, i.e. sub-additive, cost curve)
pub open spec fn lin_bounded(w: Seq<Service>) -> bool { forall |i: int| 0 <= i < w.len() ==> #[trigger] cv(w, i) <= (i + 1) * cv(w, 0) }

impl WcetCurve {
//@item src/wcet/curve.rs :: impl Curve #2 / fn extrapolate_next
    fn extrapolate_next(&self) -> /*+*/(r: /*-*/Service/*+*/)
        requires self.wcet_of_n_jobs@.len() >= 2, lin_bounded(self.wcet_of_n_jobs@),
                 (self.wcet_of_n_jobs@.len() + 1) * cv(self.wcet_of_n_jobs@, 0) <= u64::MAX,
        ensures r.v() == ext_next(self.wcet_of_n_jobs@), r.v() <= (self.wcet_of_n_jobs@.len() + 1) * cv(self.wcet_of_n_jobs@, 0)/*-*/ {
        let n = self.wcet_of_n_jobs.len();
        /*@R6: assert!( @*/vf_assert(/*@.*/n >= 2);
//@+
        proof {
            let w = self.wcet_of_n_jobs@;
            // candidate 0 is within the envelope, hence so is the minimum
            assert(cv(w, 0) <= (0 + 1) * cv(w, 0));
            assert(cv(w, n - 1) <= (n - 1 + 1) * cv(w, 0));
            assert((0 + 1) * cv(w, 0) + (n - 1 + 1) * cv(w, 0) == (n + 1) * cv(w, 0)) by { lemma_mul_is_distributive_add_other_way(cv(w, 0), 1, n as int); }
            lemma_min_range_le(|k: int| ext_cand(w, k), 0, (n / 2) as int, 0);
        }
//@-
        // Upper-bound cost of n jobs as the sum of the bounds on the costs of
        // n-k jobs and k jobs. Since we don't store n=0, this is offset by one.
        /*@R4: (0..=(n / 2))
            .map( @*/vf_min_range_service(0, n / 2, /*@.*/|k/*+*/: usize/*-*/| /*+*/-> (r: Service)
                requires k <= n / 2, n == self.wcet_of_n_jobs@.len(), n >= 2, lin_bounded(self.wcet_of_n_jobs@), (n + 1) * cv(self.wcet_of_n_jobs@, 0) <= u64::MAX
                ensures r.v() == ext_cand(self.wcet_of_n_jobs@, k as int)
            { proof {
                let w = self.wcet_of_n_jobs@;
                assert(cv(w, k as int) <= (k + 1) * cv(w, 0));
                assert(cv(w, n - k - 1) <= (n - k - 1 + 1) * cv(w, 0));
                assert((k + 1) * cv(w, 0) + (n - k - 1 + 1) * cv(w, 0) == (n + 1) * cv(w, 0)) by { lemma_mul_is_distributive_add_other_way(cv(w, 0), (k + 1) as int, (n - k) as int); }
              } /*-*/self.wcet_of_n_jobs[k] + self.wcet_of_n_jobs[n - k - 1]/*+*/ }/*-*//*@R4: )
            .min()
            .unwrap() @*/, Ghost(|k: int| ext_cand(self.wcet_of_n_jobs@, k)))/*@.*/
    }
//@end

//@item src/wcet/curve.rs :: impl Curve #2 / fn extrapolate
    pub fn extrapolate(&mut self, n: usize)
//@+
        requires
            old(self).wcet_of_n_jobs@.len() >= 1 ==> lin_bounded(old(self).wcet_of_n_jobs@),
            old(self).wcet_of_n_jobs@.len() >= 1 ==> (n + old(self).wcet_of_n_jobs@.len() + 1) * cv(old(self).wcet_of_n_jobs@, 0) <= u64::MAX,
        ensures
            // C14: values inside the original prefix are unchanged, every appended entry is the sub-additive extension
            extends(old(self).wcet_of_n_jobs@, final(self).wcet_of_n_jobs@),
            final(self).wcet_of_n_jobs@.len() == (if old(self).wcet_of_n_jobs@.len() >= 3 && n >= 1 && old(self).wcet_of_n_jobs@.len() < n - 1 { (n - 1) as nat } else { old(self).wcet_of_n_jobs@.len() }),
//@-
    {
        // We need at least three samples to extrapolate, so let's do nothing if we have fewer.
        if self.wcet_of_n_jobs.len() >= 3 {
            while self.wcet_of_n_jobs.len() < n.saturating_sub(1)
//@+
                invariant
                    self.wcet_of_n_jobs@.len() >= 3, lin_bounded(self.wcet_of_n_jobs@),
                    cv(self.wcet_of_n_jobs@, 0) == cv(old(self).wcet_of_n_jobs@, 0),
                    (n + old(self).wcet_of_n_jobs@.len() + 1) * cv(old(self).wcet_of_n_jobs@, 0) <= u64::MAX,
                    extends(old(self).wcet_of_n_jobs@, self.wcet_of_n_jobs@),
                    old(self).wcet_of_n_jobs@.len() >= 3,
                    self.wcet_of_n_jobs@.len() == old(self).wcet_of_n_jobs@.len() || self.wcet_of_n_jobs@.len() <= n - 1,
                decreases n - self.wcet_of_n_jobs@.len()
//@-
            {
//@+
                let ghost w0 = self.wcet_of_n_jobs@;
                proof {
                    let c0 = cv(w0, 0);
                    assert((w0.len() + 1) * c0 <= (n + old(self).wcet_of_n_jobs@.len() + 1) * c0) by { lemma_mul_inequality((w0.len() + 1) as int, (n + old(self).wcet_of_n_jobs@.len() + 1) as int, c0); }
                }
//@-
                self.wcet_of_n_jobs.push(self.extrapolate_next())
//@+
                ; proof {
                    let w1 = self.wcet_of_n_jobs@;
                    assert(w1.subrange(0, w0.len() as int) =~= w0);
                    assert(w1.subrange(0, old(self).wcet_of_n_jobs@.len() as int) =~= w0.subrange(0, old(self).wcet_of_n_jobs@.len() as int));
                    assert forall |m: int| old(self).wcet_of_n_jobs@.len() <= m < w1.len() implies #[trigger] cv(w1, m) == ext_next(w1.subrange(0, m)) by {
                        if m < w0.len() { assert(w1.subrange(0, m) =~= w0.subrange(0, m)); assert(cv(w1, m) == cv(w0, m)); }
                    }
                    assert forall |i: int| 0 <= i < w1.len() implies #[trigger] cv(w1, i) <= (i + 1) * cv(w1, 0) by { if i < w0.len() { assert(cv(w1, i) == cv(w0, i)); } }
                }
//@-
            }
        }
    }
//@end
}


// ------------------------------------------------------------------ from_trace (C14)
pub open spec fn tc(tr: Seq<Service>, j: int) -> int { tr[j].v() }
/// total cost of the k consecutive jobs that end with job j
pub open spec fn run_sum(tr: Seq<Service>, j: int, k: int) -> int
    decreases k
{ if k <= 0 { 0 } else { tc(tr, j) + run_sum(tr, j - 1, k - 1) } }
/// maximum such total among the first m jobs (m >= k >= 1)
pub open spec fn max_run(tr: Seq<Service>, m: int, k: int) -> int
    decreases (if m > k { m - k } else { 0 })
{
    if m <= k { run_sum(tr, k - 1, k) } else { let r = max_run(tr, m - 1, k); let g = run_sum(tr, m - 1, k); if g > r { g } else { r } }
}
pub open spec fn umin(a: int, b: int) -> int { if a <= b { a } else { b } }
/// C14: every recorded entry is the TRUE maximum cost of i+1 consecutive jobs among the first m jobs
pub open spec fn cost_exact(c: Seq<Service>, tr: Seq<Service>, m: int, max_n: int) -> bool {
    &&& c.len() == umin(m, max_n)
    &&& forall |i: int| 0 <= i < c.len() ==> #[trigger] c[i].v() == max_run(tr, m, i + 1)
}
pub open spec fn total(tr: Seq<Service>) -> int { run_sum(tr, tr.len() - 1, tr.len() as int) }
pub proof fn lemma_run_sum_bounds(tr: Seq<Service>, j: int, k: int)
    requires 0 <= k <= j + 1 <= tr.len()
    ensures 0 <= run_sum(tr, j, k) <= run_sum(tr, j, j + 1) <= total(tr)
    decreases k
{
    lemma_run_prefix_le(tr, j, k);
    lemma_run_full_le_total(tr, j);
    lemma_run_nonneg(tr, j, k);
}
pub proof fn lemma_run_nonneg(tr: Seq<Service>, j: int, k: int)
    requires 0 <= k <= j + 1 <= tr.len()
    ensures run_sum(tr, j, k) >= 0
    decreases k
{ if k > 0 { lemma_run_nonneg(tr, j - 1, k - 1); } }
pub proof fn lemma_run_prefix_le(tr: Seq<Service>, j: int, k: int)
    requires 0 <= k <= j + 1 <= tr.len()
    ensures run_sum(tr, j, k) <= run_sum(tr, j, j + 1)
    decreases k
{
    if k > 0 { lemma_run_prefix_le(tr, j - 1, k - 1); } else { lemma_run_nonneg(tr, j, j + 1); }
}
pub proof fn lemma_run_full_le_total(tr: Seq<Service>, j: int)
    requires 0 <= j + 1 <= tr.len()
    ensures run_sum(tr, j, j + 1) <= total(tr)
    decreases tr.len() - j
{
    if j + 1 < tr.len() { lemma_run_full_le_total(tr, j + 1); }
}
/// C14: the recorded maximum bounds every run of k consecutive jobs of the trace
pub proof fn lemma_max_run_ge(tr: Seq<Service>, m: int, k: int, j: int)
    requires 1 <= k <= j + 1 <= m
    ensures max_run(tr, m, k) >= run_sum(tr, j, k)
    decreases m
{
    if m > k { if j < m - 1 { lemma_max_run_ge(tr, m - 1, k, j); } }
}

impl WcetCurve {
//@item src/wcet/curve.rs :: impl Curve #2 / fn from_trace
    pub fn from_trace(/*@R15: job_costs: impl Iterator<Item = Service> @*/job_costs: &[Service]/*@.*/, max_n: usize) -> /*+*/(r: /*-*//*@R19: Curve @*/WcetCurve/*@.*//*+*/)
        requires max_n < 0x1_0000_0000, job_costs@.len() < 0x1_0000_0000, total(job_costs@) <= u64::MAX,
        // C14: every entry is the exact maximum total cost of i+1 consecutive jobs of the trace
        ensures cost_exact(r.wcet_of_n_jobs@, job_costs@, job_costs@.len() as int, max_n as int)/*-*/ {
        let mut cost_of/*+*/: Vec<Service>/*-*/ = Vec::with_capacity(max_n);
        let mut window: VecDeque<Service> = VecDeque::with_capacity(max_n + 1);
//@+
        let ghost tr = job_costs@;
//@-

        // consider all observed costs in the trace
        /*@R15: for c in job_costs @*/let mut vf_m: usize = 0;
        while vf_m < job_costs.len()
            invariant
                tr == job_costs@, vf_m <= job_costs.len(), max_n < 0x1_0000_0000, job_costs@.len() < 0x1_0000_0000, total(tr) <= u64::MAX,
                window@.len() == umin(vf_m as int, max_n as int),
                forall |x: int| 0 <= x < window@.len() ==> #[trigger] window@[x] == tr[vf_m - window@.len() + x],
                cost_exact(cost_of@, tr, vf_m as int, max_n as int),
            decreases job_costs.len() - vf_m
        /*@.*/{
//@+
            let c = job_costs[vf_m];
//@-
            // add job cost to sliding window
            window.push_back(c);
            // trim sliding window if necessary
            if window.len() > max_n {
                window.pop_front();
            }

            // look at all job costs in the sliding window and keep track of total cost
            let mut total_cost = Service::none();
//@+
            let ghost c0 = cost_of@;
            proof {
                assert(window@.len() == umin(vf_m + 1, max_n as int));
                assert forall |x: int| 0 <= x < window@.len() implies #[trigger] window@[x] == tr[vf_m + 1 - window@.len() + x] by {}
            }
//@-
            /*@R15: for (i, k) in window.iter().rev().enumerate() @*/let mut i: usize = 0;
            while i < window.len()
                invariant
                    tr == job_costs@, vf_m < job_costs.len(), i <= window@.len(), max_n < 0x1_0000_0000, total(tr) <= u64::MAX,
                    window@.len() == umin(vf_m + 1, max_n as int),
                    forall |x: int| 0 <= x < window@.len() ==> #[trigger] window@[x] == tr[vf_m + 1 - window@.len() + x],
                    cost_exact(c0, tr, vf_m as int, max_n as int),
                    total_cost.v() == run_sum(tr, vf_m as int, i as int),
                    cost_of@.len() == (if i as int > c0.len() { i as int } else { c0.len() as int }),
                    forall |x: int| 0 <= x < i ==> #[trigger] cost_of@[x].v() == max_run(tr, vf_m + 1, x + 1),
                    forall |x: int| i <= x < cost_of@.len() ==> #[trigger] cost_of@[x] == c0[x],
                decreases window@.len() - i
            /*@.*/{
//@+
                let k = &window[window.len() - 1 - i];
                proof {
                    assert(window@[window@.len() - 1 - i] == tr[vf_m - i]);
                    lemma_run_sum_bounds(tr, vf_m as int, i + 1);
                    // run_sum(tr, m, i+1) == run_sum(tr, m, i) + tr[m - i]
                    lemma_run_sum_extend(tr, vf_m as int, i as int);
                }
//@-
                total_cost += *k;
                if cost_of.len() <= i {
                    // we have not yet seen (i + 1) costs in a row -> first sample
                    cost_of.push(total_cost)
                } else {
                    // update total cost of (i+1) jobs
//@+
                    proof { assert(cost_of@[i as int] == c0[i as int]); assert(c0[i as int].v() == max_run(tr, vf_m as int, i + 1)); }
//@-
                    cost_of[i] = cost_of[i].max(total_cost)
                }
//@+
                i += 1;
//@-
            }
//@+
            vf_m += 1;
//@-
        }

        /*@R19: Curve @*/WcetCurve/*@.*/ {
            wcet_of_n_jobs: cost_of,
        }
    }
//@end
}
pub proof fn lemma_run_sum_extend(tr: Seq<Service>, j: int, k: int)
    requires 0 <= k <= j
    ensures run_sum(tr, j, k + 1) == run_sum(tr, j, k) + tc(tr, j - k)
    decreases k
{
    if k > 0 {
        lemma_run_sum_extend(tr, j - 1, k - 1);
        assert(run_sum(tr, j, k + 1) == tc(tr, j) + run_sum(tr, j - 1, k));
        assert(run_sum(tr, j, k) == tc(tr, j) + run_sum(tr, j - 1, k - 1));
    } else {
        assert(run_sum(tr, j, 1) == tc(tr, j) + run_sum(tr, j - 1, 0));
        assert(run_sum(tr, j - 1, 0) == 0);
        assert(run_sum(tr, j, 0) == 0);
    }
}

} // verus!
