// spec library: EDF with non-preemptive segments (C06): offset-dependent blocking and remaining cost
verus! {

pub ghost struct OTX { pub f: spec_fn(int) -> int, pub dl: int, pub seg: int }
pub open spec fn to_ots(otx: Seq<OTX>) -> Seq<OT> { Seq::new(otx.len(), |i: int| OT { f: otx[i].f, dl: otx[i].dl }) }
pub open spec fn otx_wf(otx: Seq<OTX>) -> bool { forall |i: int| 0 <= i < otx.len() ==> rbf_like(#[trigger] otx[i].f) }
/// maximum of val(i) over the selected indices below n (0 if none is selected; all values are >= 0)
pub open spec fn max_sel(n: int, sel: spec_fn(int) -> bool, val: spec_fn(int) -> int) -> int
    decreases n
{
    if n <= 0 { 0 } else { let r = max_sel(n - 1, sel, val); if sel(n - 1) && val(n - 1) > r { val(n - 1) } else { r } }
}
pub proof fn lemma_max_sel_ext(n: int, s1: spec_fn(int) -> bool, s2: spec_fn(int) -> bool, val: spec_fn(int) -> int)
    requires forall |i: int| 0 <= i < n ==> #[trigger] s1(i) == s2(i)
    ensures max_sel(n, s1, val) == max_sel(n, s2, val)
    decreases n
{ if n > 0 { lemma_max_sel_ext(n - 1, s1, s2, val); assert(s1(n - 1) == s2(n - 1)); } }
pub proof fn lemma_max_sel_nonneg(n: int, sel: spec_fn(int) -> bool, val: spec_fn(int) -> int)
    ensures max_sel(n, sel, val) >= 0
    decreases n
{ if n > 0 { lemma_max_sel_nonneg(n - 1, sel, val); } }
pub proof fn lemma_max_sel_le(n: int, sel: spec_fn(int) -> bool, val: spec_fn(int) -> int, bound: int)
    requires bound >= 0, forall |i: int| 0 <= i < n ==> #[trigger] val(i) <= bound
    ensures max_sel(n, sel, val) <= bound
    decreases n
{ if n > 0 { lemma_max_sel_le(n - 1, sel, val, bound); assert(val(n - 1) <= bound); } }
/// blocking: longest non-preemptive segment minus one over the tasks with D_o > D + A that release at all
pub open spec fn blk_sel(otx: Seq<OTX>, dl: int, a: int) -> spec_fn(int) -> bool { |i: int| otx[i].dl > dl + a && (otx[i].f)(1) > 0 }
pub open spec fn blk_val(otx: Seq<OTX>) -> spec_fn(int) -> int { |i: int| sat(otx[i].seg - 1) }
pub open spec fn blk(otx: Seq<OTX>, dl: int, a: int) -> int { max_sel(otx.len() as int, blk_sel(otx, dl, a), blk_val(otx)) }

pub open spec fn edfx_w_off(tua: spec_fn(int) -> int, dl: int, otx: Seq<OTX>, rem: int, a: int) -> spec_fn(int) -> int {
    |x: int| blk(otx, dl, a) + (tua(a + 1) - rem) + sum_f(to_ots(otx), arg_off(a, dl, x))
}
pub open spec fn edfx_f(tua: spec_fn(int) -> int, dl: int, otx: Seq<OTX>, rem: int, limit: int, a: int) -> Option<int> {
    match dscan(edfx_w_off(tua, dl, otx, rem, a), limit) { Some(af) => Some(sat(af - a) + rem), None => None }
}
pub open spec fn edfx_exh(tua: spec_fn(int) -> int, dl: int, otx: Seq<OTX>, rem: int, limit: int, a: int) -> Option<int>
    decreases a
{
    if a <= 0 { Some(0) } else { comb(edfx_exh(tua, dl, otx, rem, limit, a - 1), edfx_f(tua, dl, otx, rem, limit, a - 1)) }
}
/// C06: EDF with non-preemptive segments, evaluated over EVERY offset in [0, L)
pub open spec fn edfx_spec(tua: spec_fn(int) -> int, dl: int, otx: Seq<OTX>, rem: int, limit: int) -> Option<int> {
    match dscan(edf_w_bw(tua, to_ots(otx)), limit) { None => None, Some(l) => edfx_exh(tua, dl, otx, rem, limit, l) }
}
pub proof fn lemma_to_ots_wf(otx: Seq<OTX>)
    requires otx_wf(otx)
    ensures ots_wf(to_ots(otx))
{ assert forall |i: int| 0 <= i < to_ots(otx).len() implies rbf_like(#[trigger] to_ots(otx)[i].f) by { assert(rbf_like(otx[i].f)); } }

pub proof fn lemma_edfx_exh_bound(tua: spec_fn(int) -> int, dl: int, otx: Seq<OTX>, rem: int, limit: int, a: int, q: int)
    requires 0 <= q < a, edfx_exh(tua, dl, otx, rem, limit, a).is_some()
    ensures edfx_f(tua, dl, otx, rem, limit, q).is_some(), edfx_f(tua, dl, otx, rem, limit, q).unwrap() <= edfx_exh(tua, dl, otx, rem, limit, a).unwrap()
    decreases a
{ if q < a - 1 { lemma_edfx_exh_bound(tua, dl, otx, rem, limit, a - 1, q); } }
/// outside the search space neither the workload bound nor the blocking bound changes w.r.t. the previous offset:
/// the blocking set changes only at A = D_o - D, the shifted image of the step delta = 1 of a task that releases at all
pub proof fn lemma_edfx_same_equation(tua: spec_fn(int) -> int, dl: int, otx: Seq<OTX>, rem: int, a: int)
    requires rbf_like(tua), otx_wf(otx), a >= 1, !in_space(tua, dl, to_ots(otx), a)
    ensures edfx_w_off(tua, dl, otx, rem, a) =~= edfx_w_off(tua, dl, otx, rem, a - 1)
{
    lemma_to_ots_wf(otx);
    lemma_edf_same_equation(tua, dl, to_ots(otx), a);
    assert(tua(a) <= tua(a + 1)); assert(tua(a) == tua(a + 1));
    assert forall |i: int| 0 <= i < otx.len() implies #[trigger] blk_sel(otx, dl, a)(i) == blk_sel(otx, dl, a - 1)(i) by {
        if otx[i].dl == dl + a && (otx[i].f)(1) > 0 {
            assert(rbf_like(otx[i].f));
            assert(is_step_at(to_ots(otx)[i].f, 1));
            assert(a == sat(1 - 1 + to_ots(otx)[i].dl - dl));
        }
    }
    lemma_max_sel_ext(otx.len() as int, blk_sel(otx, dl, a), blk_sel(otx, dl, a - 1), blk_val(otx));
    assert forall |x: int| #[trigger] edfx_w_off(tua, dl, otx, rem, a)(x) == edfx_w_off(tua, dl, otx, rem, a - 1)(x) by {
        assert(edf_w_off(tua, dl, to_ots(otx), a)(x) == edf_w_off(tua, dl, to_ots(otx), a - 1)(x));
    }
}
/// C06 (EDF with non-preemptive segments): pruning the search space never alters the result
pub proof fn lemma_edfx_prune(tua: spec_fn(int) -> int, dl: int, otx: Seq<OTX>, rem: int, limit: int, a: int)
    requires rbf_like(tua), otx_wf(otx), tua(1) >= 1, a >= 0
    ensures fold_space(tua, dl, to_ots(otx), |x: int| edfx_f(tua, dl, otx, rem, limit, x), a) == edfx_exh(tua, dl, otx, rem, limit, a)
    decreases a
{
    if a > 0 {
        lemma_edfx_prune(tua, dl, otx, rem, limit, a - 1);
        if !in_space(tua, dl, to_ots(otx), a - 1) {
            assert(a - 1 >= 1) by { if a - 1 == 0 { assert(is_step_at(tua, 1)); } }
            lemma_edfx_same_equation(tua, dl, otx, rem, a - 1);
            if edfx_exh(tua, dl, otx, rem, limit, a - 1).is_some() { lemma_edfx_exh_bound(tua, dl, otx, rem, limit, a - 1, a - 2); }
        }
    }
}
pub proof fn lemma_edfx_w_mono(tua: spec_fn(int) -> int, dl: int, otx: Seq<OTX>, rem: int, a: int)
    requires rbf_like(tua), otx_wf(otx), a >= 0, tua(a + 1) >= rem
    ensures mono(edfx_w_off(tua, dl, otx, rem, a))
{
    lemma_to_ots_wf(otx);
    lemma_max_sel_nonneg(otx.len() as int, blk_sel(otx, dl, a), blk_val(otx));
    assert forall |x: int, y: int| 1 <= x <= y implies 0 <= #[trigger] edfx_w_off(tua, dl, otx, rem, a)(x) <= #[trigger] edfx_w_off(tua, dl, otx, rem, a)(y) by {
        lemma_sum_f_mono(to_ots(otx), arg_off(a, dl, x), arg_off(a, dl, y));
    }
}

/// R5: `xs.iter().filter(p).map(f).max().unwrap_or_else(Service::none)` as a verified loop
pub fn vf_max_filter_map_service_idx<T, P: Fn(&T) -> bool, F: Fn(&T) -> Service>(xs: &[T], p: P, f: F, Ghost(gp): Ghost<spec_fn(int) -> bool>, Ghost(gf): Ghost<spec_fn(int) -> int>) -> (r: Service)
    requires
        forall |i: int| 0 <= i < xs@.len() ==> #[trigger] p.requires((&xs@[i],)) && f.requires((&xs@[i],)),
        forall |i: int, b: bool| 0 <= i < xs@.len() && #[trigger] p.ensures((&xs@[i],), b) ==> b == gp(i),
        forall |i: int, v: Service| 0 <= i < xs@.len() && #[trigger] f.ensures((&xs@[i],), v) ==> v.v() == gf(i),
    ensures r.v() == max_sel(xs@.len() as int, gp, gf)
{
    let mut acc: Service = Service::none();
    let mut i: usize = 0;
    while i < xs.len()
        invariant i <= xs@.len(), acc.v() == max_sel(i as int, gp, gf),
            forall |i: int| 0 <= i < xs@.len() ==> #[trigger] p.requires((&xs@[i],)) && f.requires((&xs@[i],)),
            forall |i: int, b: bool| 0 <= i < xs@.len() && #[trigger] p.ensures((&xs@[i],), b) ==> b == gp(i),
            forall |i: int, v: Service| 0 <= i < xs@.len() && #[trigger] f.ensures((&xs@[i],), v) ==> v.v() == gf(i),
        decreases xs@.len() - i
    {
        proof { assert(p.requires((&xs@[i as int],)) && f.requires((&xs@[i as int],))); }
        if p(&xs[i]) {
            let v = f(&xs[i]);
            acc = acc.max(v);
        }
        i = i + 1;
    }
    acc
}

} // verus!
