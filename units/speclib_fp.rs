// spec library: the exhaustive FP-family evaluator (C06), written from the property statement:
//   L = least positive solution of the busy-window inequality by linear scan;
//   for EVERY offset A in [0, L) the least solution of the offset equation by linear scan;
//   the result is the maximum; None (= Err) iff one of the scans finds nothing at or below the limit.
// Parameters: blocking b, remaining cost after the run-to-completion threshold rem.
verus! {

pub open spec fn ded() -> spec_fn(int) -> int { |x: int| x }
pub proof fn lemma_ded_is_dedicated()
    ensures sbf_of(&Dedicated {}) =~= ded()
{
    assert forall |x: int| #[trigger] sbf_of(&Dedicated {})(x) == ded()(x) by {}
}
pub open spec fn dscan(w: spec_fn(int) -> int, limit: int) -> Option<int> { scan(ded(), 0, w, 0, limit) }

pub open spec fn rbf_fn<A: RequestBound + ?Sized>(t: &A) -> spec_fn(int) -> int { |x: int| t.rbf(x) }
pub open spec fn hp_fn<B: RequestBound>(hp: Seq<B>) -> spec_fn(int) -> int { |x: int| sum_rbf(hp, x) }
/// zero at zero, non-negative, non-decreasing
pub open spec fn rbf_like(f: spec_fn(int) -> int) -> bool {
    f(0) == 0 && forall |a: int, b: int| #![trigger f(a), f(b)] 0 <= a <= b ==> 0 <= f(a) <= f(b)
}
pub proof fn lemma_rbf_fn_like<A: RequestBound + ?Sized>(t: &A)
    requires t.wf()
    ensures rbf_like(rbf_fn(t))
{
    t.rbf_props();
    assert forall |a: int, b: int| 0 <= a <= b implies 0 <= #[trigger] rbf_fn(t)(a) <= #[trigger] rbf_fn(t)(b) by { assert(t.rbf(a) <= t.rbf(b)); }
}
pub proof fn lemma_hp_fn_like<B: RequestBound>(hp: Seq<B>)
    requires all_rb_wf(hp)
    ensures rbf_like(hp_fn(hp))
{
    lemma_sum_rbf_props(hp);
    assert forall |a: int, b: int| 0 <= a <= b implies 0 <= #[trigger] hp_fn(hp)(a) <= #[trigger] hp_fn(hp)(b) by { lemma_sum_rbf_mono(hp, a, b); }
}

pub open spec fn w_bw(tua: spec_fn(int) -> int, hp: spec_fn(int) -> int, b: int) -> spec_fn(int) -> int { |x: int| b + hp(x) + tua(x) }
pub open spec fn w_off(tua: spec_fn(int) -> int, hp: spec_fn(int) -> int, b: int, rem: int, a: int) -> spec_fn(int) -> int { |x: int| b + (tua(a + 1) - rem) + hp(x) }
pub open spec fn comb(acc: Option<int>, x: Option<int>) -> Option<int> {
    match (acc, x) { (Some(m), Some(f)) => Some(if f > m { f } else { m }), _ => None }
}
/// per-offset bound: least AF by linear scan, then F = AF - A, plus the remaining cost
pub open spec fn f_off(tua: spec_fn(int) -> int, hp: spec_fn(int) -> int, b: int, rem: int, limit: int, a: int) -> Option<int> {
    match dscan(w_off(tua, hp, b, rem, a), limit) { Some(af) => Some(af - a + rem), None => None }
}
/// maximum over EVERY offset in [0, a)
pub open spec fn exh(tua: spec_fn(int) -> int, hp: spec_fn(int) -> int, b: int, rem: int, limit: int, a: int) -> Option<int>
    decreases a
{
    if a <= 0 { Some(0) } else { comb(exh(tua, hp, b, rem, limit, a - 1), f_off(tua, hp, b, rem, limit, a - 1)) }
}
pub open spec fn fpx_spec(tua: spec_fn(int) -> int, hp: spec_fn(int) -> int, b: int, rem: int, limit: int) -> Option<int> {
    match dscan(w_bw(tua, hp, b), limit) { None => None, Some(l) => exh(tua, hp, b, rem, limit, l) }
}

// ---- the pruned search space (what the code iterates over) and its equivalence with the exhaustive one
pub open spec fn is_step(f: spec_fn(int) -> int, a: int) -> bool { f(a) < f(a + 1) }
pub open spec fn fold_steps(f: spec_fn(int) -> int, g: spec_fn(int) -> Option<int>, a: int) -> Option<int>
    decreases a
{
    if a <= 0 { Some(0) } else if is_step(f, a - 1) { comb(fold_steps(f, g, a - 1), g(a - 1)) } else { fold_steps(f, g, a - 1) }
}
pub proof fn lemma_exh_bound(tua: spec_fn(int) -> int, hp: spec_fn(int) -> int, b: int, rem: int, limit: int, a: int, q: int)
    requires 0 <= q < a, exh(tua, hp, b, rem, limit, a).is_some()
    ensures f_off(tua, hp, b, rem, limit, q).is_some(), f_off(tua, hp, b, rem, limit, q).unwrap() <= exh(tua, hp, b, rem, limit, a).unwrap()
    decreases a
{ if q < a - 1 { lemma_exh_bound(tua, hp, b, rem, limit, a - 1, q); } }

/// C06: pruning the search space to step offsets never alters the result
pub proof fn lemma_prune(tua: spec_fn(int) -> int, hp: spec_fn(int) -> int, b: int, rem: int, limit: int, a: int)
    requires rbf_like(tua), tua(1) >= 1, a >= 0
    ensures fold_steps(tua, |x: int| f_off(tua, hp, b, rem, limit, x), a) == exh(tua, hp, b, rem, limit, a)
    decreases a
{
    if a > 0 {
        lemma_prune(tua, hp, b, rem, limit, a - 1);
        if !is_step(tua, a - 1) {
            assert(a - 1 >= 1);
            assert(tua(a - 1) <= tua(a));
            assert(tua(a) == tua(a - 1));
            assert(w_off(tua, hp, b, rem, a - 1) =~= w_off(tua, hp, b, rem, a - 2)) by {
                assert forall |x: int| #[trigger] w_off(tua, hp, b, rem, a - 1)(x) == w_off(tua, hp, b, rem, a - 2)(x) by {}
            }
            if exh(tua, hp, b, rem, limit, a - 1).is_some() { lemma_exh_bound(tua, hp, b, rem, limit, a - 1, a - 2); }
        }
    }
}
pub proof fn lemma_w_mono(tua: spec_fn(int) -> int, hp: spec_fn(int) -> int, b: int, rem: int, a: int)
    requires rbf_like(tua), rbf_like(hp), a >= 0, b >= 0, tua(a + 1) >= rem
    ensures mono(w_bw(tua, hp, b)), mono(w_off(tua, hp, b, rem, a))
{
    assert forall |x: int, y: int| 1 <= x <= y implies 0 <= #[trigger] w_bw(tua, hp, b)(x) <= #[trigger] w_bw(tua, hp, b)(y) by { assert(0 <= hp(x) <= hp(y)); assert(0 <= tua(x) <= tua(y)); }
    assert forall |x: int, y: int| 1 <= x <= y implies 0 <= #[trigger] w_off(tua, hp, b, rem, a)(x) <= #[trigger] w_off(tua, hp, b, rem, a)(y) by { assert(0 <= hp(x) <= hp(y)); }
}
/// analysis invariant behind `AF - A` (C20): inside the busy window the offset solution is never before the offset
pub proof fn lemma_af_ge_a(tua: spec_fn(int) -> int, hp: spec_fn(int) -> int, b: int, rem: int, limit: int, l: int, a: int)
    requires rbf_like(tua), rbf_like(hp), b >= 0, rem >= 0, dscan(w_bw(tua, hp, b), limit) == Some(l), 0 <= a < l,
             tua(a + 1) >= tua(a) + rem + 1,
             dscan(w_off(tua, hp, b, rem, a), limit).is_some()
    ensures dscan(w_off(tua, hp, b, rem, a), limit).unwrap() >= a
{
    let af = dscan(w_off(tua, hp, b, rem, a), limit).unwrap();
    lemma_scan(ded(), 0, w_bw(tua, hp, b), 0, limit);
    lemma_scan(ded(), 0, w_off(tua, hp, b, rem, a), 0, limit);
    if af < a {
        if af >= 1 {
            assert(hp(af) >= 0);
            assert(ded()(0 + af) < w_bw(tua, hp, b)(m1(af)));
            assert(tua(af) <= tua(a));
            assert(w_off(tua, hp, b, rem, a)(m1(af)) >= w_bw(tua, hp, b)(m1(af)));
        } else {
            assert(hp(1) >= 0);
            assert(tua(a) >= 0);
            assert(w_off(tua, hp, b, rem, a)(m1(af)) >= 1);
        }
    }
}

// ---- glue between exec closures and the evaluator
pub open spec fn rta_is<F: Fn(Offset) -> SearchResult>(f: &F, g: spec_fn(int) -> Option<int>, max: int) -> bool {
    forall |a: Offset, r: SearchResult| a.v() < max && #[trigger] f.ensures((a,), r) ==> res_view(r) == g(a.v())
}

/// R10 (ASSUMED, bounded-checked by Kani on the real functions): the iterator tail
///   `demand::step_offsets(rb).take_while(|A| *A < max_offset)` mapped through `rta` and folded by
///   `fixed_point::max_response_time` returns the error-first maximum of `rta` over the step offsets below max_offset.
#[verifier::external_body]
pub fn vf_tail_steps_below<RB: RequestBound + ?Sized, F: Fn(Offset) -> SearchResult>(rb: &RB, max_offset: Offset, rta: F) -> (res: SearchResult)
    requires rb.wf(), forall |a: Offset| a.v() < max_offset.v() && is_step(rbf_fn(rb), a.v()) ==> #[trigger] rta.requires((a,))
    ensures forall |g: spec_fn(int) -> Option<int>| #[trigger] rta_is(&rta, g, max_offset.v()) ==> res_view(res) == fold_steps(rbf_fn(rb), g, max_offset.v())
{ unimplemented!() }

// ---- C17: monotonicity of the evaluator (a diverging search is the top element)
pub open spec fn opt_le(a: Option<int>, b: Option<int>) -> bool {
    match (a, b) { (_, None) => true, (None, Some(_)) => false, (Some(x), Some(y)) => x <= y }
}
/// less supply and more demand never make the least solution smaller and never turn divergence into Ok
pub proof fn lemma_scan_mono(sbf1: spec_fn(int) -> int, sbf2: spec_fn(int) -> int, off: int, w1: spec_fn(int) -> int, w2: spec_fn(int) -> int, limit: int)
    requires forall |x: int| x >= 0 ==> #[trigger] sbf1(x) >= sbf2(x),
             forall |x: int| x >= 1 ==> #[trigger] w1(x) <= w2(x),
             off >= 0
    ensures opt_le(scan(sbf1, off, w1, 0, limit), scan(sbf2, off, w2, 0, limit))
{
    lemma_scan(sbf1, off, w1, 0, limit); lemma_scan(sbf2, off, w2, 0, limit);
    if let Some(bb) = scan(sbf2, off, w2, 0, limit) {
        assert(sbf1(off + bb) >= sbf2(off + bb));
        assert(w1(m1(bb)) <= w2(m1(bb)));
    }
}
pub proof fn lemma_exh_some_ge0(tua: spec_fn(int) -> int, hp: spec_fn(int) -> int, b: int, rem: int, limit: int, a: int)
    ensures exh(tua, hp, b, rem, limit, a).is_some() ==> exh(tua, hp, b, rem, limit, a).unwrap() >= 0
    decreases a
{ if a > 0 { lemma_exh_some_ge0(tua, hp, b, rem, limit, a - 1); } }
/// the exhaustive maximum is monotone in the busy-window length and in every per-offset bound
/// (this is where the UN-pruned form is needed)
pub proof fn lemma_exh_mono(tua: spec_fn(int) -> int, hp1: spec_fn(int) -> int, hp2: spec_fn(int) -> int, b1: int, b2: int, rem: int, limit: int, a1: int, a2: int)
    requires 0 <= a1 <= a2, b1 <= b2, forall |x: int| x >= 1 ==> #[trigger] hp1(x) <= hp2(x)
    ensures opt_le(exh(tua, hp1, b1, rem, limit, a1), exh(tua, hp2, b2, rem, limit, a2))
    decreases a2
{
    if a2 > 0 {
        lemma_exh_some_ge0(tua, hp2, b2, rem, limit, a2 - 1);
        if a1 == a2 {
            lemma_exh_mono(tua, hp1, hp2, b1, b2, rem, limit, a1 - 1, a2 - 1);
            lemma_scan_mono(ded(), ded(), 0, w_off(tua, hp1, b1, rem, a1 - 1), w_off(tua, hp2, b2, rem, a2 - 1), limit);
        } else {
            lemma_exh_mono(tua, hp1, hp2, b1, b2, rem, limit, a1, a2 - 1);
        }
    }
}
/// C17: more interference (added task, larger WCET, more jitter, shorter period of an interfering task) or a larger
/// blocking bound never decreases an FP-family bound and never turns Err into Ok
pub proof fn lemma_fpx_mono(tua: spec_fn(int) -> int, hp1: spec_fn(int) -> int, hp2: spec_fn(int) -> int, b1: int, b2: int, rem: int, limit: int)
    requires b1 <= b2, forall |x: int| x >= 1 ==> #[trigger] hp1(x) <= hp2(x)
    ensures opt_le(fpx_spec(tua, hp1, b1, rem, limit), fpx_spec(tua, hp2, b2, rem, limit))
{
    lemma_scan_mono(ded(), ded(), 0, w_bw(tua, hp1, b1), w_bw(tua, hp2, b2), limit);
    lemma_scan(ded(), 0, w_bw(tua, hp1, b1), 0, limit); lemma_scan(ded(), 0, w_bw(tua, hp2, b2), 0, limit);
    if let Some(l2) = dscan(w_bw(tua, hp2, b2), limit) {
        let l1 = dscan(w_bw(tua, hp1, b1), limit).unwrap();
        lemma_exh_mono(tua, hp1, hp2, b1, b2, rem, limit, l1, l2);
    }
}

} // verus!
