// spec library: the exhaustive FP-family evaluator (C06), written from the property statement:
//   L = least positive solution of the busy-window inequality by linear scan;
//   for EVERY offset A in [0, L) the least solution of the offset equation by linear scan;
//   the result is the maximum; None (= Err) iff one of the scans finds nothing at or below the limit.
// Parameters: blocking b, remaining cost after the run-to-completion threshold rem.
use vstd::arithmetic::mul::*;
verus! {

pub open spec fn ded() -> spec_fn(int) -> int { |x: int| x }
pub proof fn lemma_ded_is_dedicated()
    ensures sbf_of(&Dedicated {}) =~= ded()
{
    assert forall |x: int| #[trigger] sbf_of(&Dedicated {})(x) == ded()(x) by {}
}
pub open spec fn dscan(w: spec_fn(int) -> int, limit: int) -> Option<int> { scan(ded(), 0, w, 0, limit) }

pub open spec fn rbf_fn<A: RequestBound + ?Sized>(t: &A) -> spec_fn(int) -> int { |x: int| t.rbf(x) }
pub open spec fn hp_fn<B: RequestBound>(hp: Seq<B>) -> spec_fn(int) -> int { |x: int| sum_rbf(hp, x) }
/// zero at zero, non-negative, non-decreasing
pub open spec fn rbf_like(f: spec_fn(int) -> int) -> bool {
    f(0) == 0 && forall |a: int, b: int| #![trigger f(a), f(b)] 0 <= a <= b ==> 0 <= f(a) <= f(b)
}
pub proof fn lemma_rbf_fn_like<A: RequestBound + ?Sized>(t: &A)
    requires t.wf()
    ensures rbf_like(rbf_fn(t))
{
    t.rbf_props();
    assert forall |a: int, b: int| 0 <= a <= b implies 0 <= #[trigger] rbf_fn(t)(a) <= #[trigger] rbf_fn(t)(b) by { assert(t.rbf(a) <= t.rbf(b)); }
}
pub proof fn lemma_hp_fn_like<B: RequestBound>(hp: Seq<B>)
    requires all_rb_wf(hp)
    ensures rbf_like(hp_fn(hp))
{
    lemma_sum_rbf_props(hp);
    assert forall |a: int, b: int| 0 <= a <= b implies 0 <= #[trigger] hp_fn(hp)(a) <= #[trigger] hp_fn(hp)(b) by { lemma_sum_rbf_mono(hp, a, b); }
}

pub open spec fn w_bw(tua: spec_fn(int) -> int, hp: spec_fn(int) -> int, b: int) -> spec_fn(int) -> int { |x: int| b + hp(x) + tua(x) }
pub open spec fn w_off(tua: spec_fn(int) -> int, hp: spec_fn(int) -> int, b: int, rem: int, a: int) -> spec_fn(int) -> int { |x: int| b + (tua(a + 1) - rem) + hp(x) }
pub open spec fn comb(acc: Option<int>, x: Option<int>) -> Option<int> {
    match (acc, x) { (Some(m), Some(f)) => Some(if f > m { f } else { m }), _ => None }
}
/// per-offset bound: least AF by linear scan, then F = AF - A, plus the remaining cost
pub open spec fn f_off(tua: spec_fn(int) -> int, hp: spec_fn(int) -> int, b: int, rem: int, limit: int, a: int) -> Option<int> {
    match dscan(w_off(tua, hp, b, rem, a), limit) { Some(af) => Some(af - a + rem), None => None }
}
/// maximum over EVERY offset in [0, a)
pub open spec fn exh(tua: spec_fn(int) -> int, hp: spec_fn(int) -> int, b: int, rem: int, limit: int, a: int) -> Option<int>
    decreases a
{
    if a <= 0 { Some(0) } else { comb(exh(tua, hp, b, rem, limit, a - 1), f_off(tua, hp, b, rem, limit, a - 1)) }
}
pub open spec fn fpx_spec(tua: spec_fn(int) -> int, hp: spec_fn(int) -> int, b: int, rem: int, limit: int) -> Option<int> {
    match dscan(w_bw(tua, hp, b), limit) { None => None, Some(l) => exh(tua, hp, b, rem, limit, l) }
}

// ---- the pruned search space (what the code iterates over) and its equivalence with the exhaustive one
pub open spec fn is_step(f: spec_fn(int) -> int, a: int) -> bool { f(a) < f(a + 1) }
pub open spec fn fold_steps(f: spec_fn(int) -> int, g: spec_fn(int) -> Option<int>, a: int) -> Option<int>
    decreases a
{
    if a <= 0 { Some(0) } else if is_step(f, a - 1) { comb(fold_steps(f, g, a - 1), g(a - 1)) } else { fold_steps(f, g, a - 1) }
}
pub proof fn lemma_exh_bound(tua: spec_fn(int) -> int, hp: spec_fn(int) -> int, b: int, rem: int, limit: int, a: int, q: int)
    requires 0 <= q < a, exh(tua, hp, b, rem, limit, a).is_some()
    ensures f_off(tua, hp, b, rem, limit, q).is_some(), f_off(tua, hp, b, rem, limit, q).unwrap() <= exh(tua, hp, b, rem, limit, a).unwrap()
    decreases a
{ if q < a - 1 { lemma_exh_bound(tua, hp, b, rem, limit, a - 1, q); } }

/// C06: pruning the search space to step offsets never alters the result
pub proof fn lemma_prune(tua: spec_fn(int) -> int, hp: spec_fn(int) -> int, b: int, rem: int, limit: int, a: int)
    requires rbf_like(tua), tua(1) >= 1, a >= 0
    ensures fold_steps(tua, |x: int| f_off(tua, hp, b, rem, limit, x), a) == exh(tua, hp, b, rem, limit, a)
    decreases a
{
    if a > 0 {
        lemma_prune(tua, hp, b, rem, limit, a - 1);
        if !is_step(tua, a - 1) {
            assert(a - 1 >= 1);
            assert(tua(a - 1) <= tua(a));
            assert(tua(a) == tua(a - 1));
            assert(w_off(tua, hp, b, rem, a - 1) =~= w_off(tua, hp, b, rem, a - 2)) by {
                assert forall |x: int| #[trigger] w_off(tua, hp, b, rem, a - 1)(x) == w_off(tua, hp, b, rem, a - 2)(x) by {}
            }
            if exh(tua, hp, b, rem, limit, a - 1).is_some() { lemma_exh_bound(tua, hp, b, rem, limit, a - 1, a - 2); }
        }
    }
}
pub proof fn lemma_w_mono(tua: spec_fn(int) -> int, hp: spec_fn(int) -> int, b: int, rem: int, a: int)
    requires rbf_like(tua), rbf_like(hp), a >= 0, b >= 0, tua(a + 1) >= rem
    ensures mono(w_bw(tua, hp, b)), mono(w_off(tua, hp, b, rem, a))
{
    assert forall |x: int, y: int| 1 <= x <= y implies 0 <= #[trigger] w_bw(tua, hp, b)(x) <= #[trigger] w_bw(tua, hp, b)(y) by { assert(0 <= hp(x) <= hp(y)); assert(0 <= tua(x) <= tua(y)); }
    assert forall |x: int, y: int| 1 <= x <= y implies 0 <= #[trigger] w_off(tua, hp, b, rem, a)(x) <= #[trigger] w_off(tua, hp, b, rem, a)(y) by { assert(0 <= hp(x) <= hp(y)); }
}
/// analysis invariant behind `AF - A` (C20): inside the busy window the offset solution is never before the offset
pub proof fn lemma_af_ge_a(tua: spec_fn(int) -> int, hp: spec_fn(int) -> int, b: int, rem: int, limit: int, l: int, a: int)
    requires rbf_like(tua), rbf_like(hp), b >= 0, rem >= 0, dscan(w_bw(tua, hp, b), limit) == Some(l), 0 <= a < l,
             tua(a + 1) >= tua(a) + rem + 1,
             dscan(w_off(tua, hp, b, rem, a), limit).is_some()
    ensures dscan(w_off(tua, hp, b, rem, a), limit).unwrap() >= a
{
    let af = dscan(w_off(tua, hp, b, rem, a), limit).unwrap();
    lemma_scan(ded(), 0, w_bw(tua, hp, b), 0, limit);
    lemma_scan(ded(), 0, w_off(tua, hp, b, rem, a), 0, limit);
    if af < a {
        if af >= 1 {
            assert(hp(af) >= 0);
            assert(ded()(0 + af) < w_bw(tua, hp, b)(m1(af)));
            assert(tua(af) <= tua(a));
            assert(w_off(tua, hp, b, rem, a)(m1(af)) >= w_bw(tua, hp, b)(m1(af)));
        } else {
            assert(hp(1) >= 0);
            assert(tua(a) >= 0);
            assert(w_off(tua, hp, b, rem, a)(m1(af)) >= 1);
        }
    }
}


// ---- the four FP analyses as instances of the evaluator (C06 postconditions; C17/C19 lemmas speak about these)
pub open spec fn na_fn<AB: ArrivalBound + ?Sized>(ab: &AB) -> spec_fn(int) -> int { |x: int| ab.na(x) }
/// demand of a task with scalar WCET c: cost c for each of the na(x) jobs
pub open spec fn cn_fn(c: int, na: spec_fn(int) -> int) -> spec_fn(int) -> int { |x: int| c * na(x) }
pub open spec fn tua_fn<AB: ArrivalBound + ?Sized>(c: int, ab: &AB) -> spec_fn(int) -> int { cn_fn(c, na_fn(ab)) }
/// fully preemptive: no blocking, no remaining cost
pub open spec fn fp_spec(tua: spec_fn(int) -> int, hp: spec_fn(int) -> int, limit: int) -> Option<int> { fpx_spec(tua, hp, 0, 0, limit) }
/// floating non-preemptive regions: blocking b, run-to-completion threshold = WCET
pub open spec fn fl_spec(tua: spec_fn(int) -> int, hp: spec_fn(int) -> int, b: int, limit: int) -> Option<int> { fpx_spec(tua, hp, b, 0, limit) }
/// fully non-preemptive: run-to-completion threshold eps, remaining cost c - 1
pub open spec fn np_spec(c: int, na: spec_fn(int) -> int, hp: spec_fn(int) -> int, b: int, limit: int) -> Option<int> { fpx_spec(cn_fn(c, na), hp, b, c - 1, limit) }
/// limited preemptive: rtct = c - (last - eps), remaining cost last - 1
pub open spec fn lp_spec(c: int, last: int, na: spec_fn(int) -> int, hp: spec_fn(int) -> int, b: int, limit: int) -> Option<int> { fpx_spec(cn_fn(c, na), hp, b, last - 1, limit) }

pub proof fn lemma_tua_fn<AB: ArrivalBound + ?Sized>(c: int, ab: &AB)
    requires c >= 1, ab.wf(), ab.na(1) >= 1
    ensures rbf_like(tua_fn(c, ab)), tua_fn(c, ab)(1) >= 1,
        // a step of the RBF adds at least one job of cost C
        forall |a: int| a >= 0 && #[trigger] is_step(tua_fn(c, ab), a) ==> tua_fn(c, ab)(a + 1) >= tua_fn(c, ab)(a) + c,
        forall |a: int| a >= 0 ==> #[trigger] tua_fn(c, ab)(a + 1) >= c,
{
    ab.na_props();
    assert(c * 0 == 0) by { lemma_mul_basics(c); }
    assert forall |a: int, b: int| 0 <= a <= b implies 0 <= #[trigger] tua_fn(c, ab)(a) <= #[trigger] tua_fn(c, ab)(b) by {
        lemma_mul_nonnegative(c, ab.na(a));
        lemma_mul_inequality(ab.na(a), ab.na(b), c); lemma_mul_is_commutative(c, ab.na(a)); lemma_mul_is_commutative(c, ab.na(b));
    }
    assert(c * ab.na(1) >= 1) by { lemma_mul_inequality(1, ab.na(1), c); lemma_mul_is_commutative(c, ab.na(1)); }
    assert forall |a: int| a >= 0 && #[trigger] is_step(tua_fn(c, ab), a) implies tua_fn(c, ab)(a + 1) >= tua_fn(c, ab)(a) + c by {
        let n0 = ab.na(a); let n1 = ab.na(a + 1);
        assert(n0 <= n1);
        assert(n1 >= n0 + 1) by { if n1 <= n0 { assert(n1 == n0); } }
        assert(c * n1 >= c * n0 + c) by { lemma_mul_inequality(n0 + 1, n1, c); lemma_mul_is_commutative(c, n1); lemma_mul_is_distributive_add(c, n0, 1); lemma_mul_is_commutative(c, n0 + 1); }
    }
    assert forall |a: int| a >= 0 implies #[trigger] tua_fn(c, ab)(a + 1) >= c by {
        assert(ab.na(1) <= ab.na(a + 1));
        lemma_mul_inequality(1, ab.na(a + 1), c); lemma_mul_is_commutative(c, ab.na(a + 1));
    }
}


// ---- C17: monotonicity of the evaluator (a diverging search is the top element)
pub open spec fn opt_le(a: Option<int>, b: Option<int>) -> bool {
    match (a, b) { (_, None) => true, (None, Some(_)) => false, (Some(x), Some(y)) => x <= y }
}
/// less supply and more demand never make the least solution smaller and never turn divergence into Ok
pub proof fn lemma_scan_mono(sbf1: spec_fn(int) -> int, sbf2: spec_fn(int) -> int, off: int, w1: spec_fn(int) -> int, w2: spec_fn(int) -> int, limit: int)
    requires forall |x: int| x >= 0 ==> #[trigger] sbf1(x) >= sbf2(x),
             forall |x: int| x >= 1 ==> #[trigger] w1(x) <= w2(x),
             off >= 0
    ensures opt_le(scan(sbf1, off, w1, 0, limit), scan(sbf2, off, w2, 0, limit))
{
    lemma_scan(sbf1, off, w1, 0, limit); lemma_scan(sbf2, off, w2, 0, limit);
    if let Some(bb) = scan(sbf2, off, w2, 0, limit) {
        assert(sbf1(off + bb) >= sbf2(off + bb));
        assert(w1(m1(bb)) <= w2(m1(bb)));
    }
}
pub proof fn lemma_exh_some_ge0(tua: spec_fn(int) -> int, hp: spec_fn(int) -> int, b: int, rem: int, limit: int, a: int)
    ensures exh(tua, hp, b, rem, limit, a).is_some() ==> exh(tua, hp, b, rem, limit, a).unwrap() >= 0
    decreases a
{ if a > 0 { lemma_exh_some_ge0(tua, hp, b, rem, limit, a - 1); } }
/// "system 2 is at least as hard as system 1": pointwise more own demand (also after removing the remaining cost),
/// more interference, more blocking, more remaining cost
pub open spec fn harder(tua1: spec_fn(int) -> int, hp1: spec_fn(int) -> int, b1: int, rem1: int,
                        tua2: spec_fn(int) -> int, hp2: spec_fn(int) -> int, b2: int, rem2: int) -> bool {
    &&& b1 <= b2 && rem1 <= rem2
    &&& forall |x: int| x >= 1 ==> #[trigger] hp1(x) <= hp2(x)
    &&& forall |x: int| x >= 1 ==> #[trigger] tua1(x) <= tua2(x)
    &&& forall |x: int| x >= 1 ==> #[trigger] tua1(x) - rem1 <= tua2(x) - rem2
}
/// the exhaustive maximum is monotone in the busy-window length and in every per-offset bound
/// (this is where the UN-pruned form is needed: a maximum over a pruned set need not be monotone)
pub proof fn lemma_exh_mono(tua1: spec_fn(int) -> int, hp1: spec_fn(int) -> int, b1: int, rem1: int,
                            tua2: spec_fn(int) -> int, hp2: spec_fn(int) -> int, b2: int, rem2: int, limit: int, a1: int, a2: int)
    requires 0 <= a1 <= a2, harder(tua1, hp1, b1, rem1, tua2, hp2, b2, rem2)
    ensures opt_le(exh(tua1, hp1, b1, rem1, limit, a1), exh(tua2, hp2, b2, rem2, limit, a2))
    decreases a2
{
    if a2 > 0 {
        lemma_exh_some_ge0(tua2, hp2, b2, rem2, limit, a2 - 1);
        if a1 == a2 {
            lemma_exh_mono(tua1, hp1, b1, rem1, tua2, hp2, b2, rem2, limit, a1 - 1, a2 - 1);
            assert forall |x: int| x >= 1 implies #[trigger] w_off(tua1, hp1, b1, rem1, a1 - 1)(x) <= w_off(tua2, hp2, b2, rem2, a2 - 1)(x) by {
                assert(tua1(a1 - 1 + 1) - rem1 <= tua2(a1 - 1 + 1) - rem2);
                assert(hp1(x) <= hp2(x));
            }
            lemma_scan_mono(ded(), ded(), 0, w_off(tua1, hp1, b1, rem1, a1 - 1), w_off(tua2, hp2, b2, rem2, a2 - 1), limit);
        } else {
            lemma_exh_mono(tua1, hp1, b1, rem1, tua2, hp2, b2, rem2, limit, a1, a2 - 1);
        }
    }
}
/// C17: making the system harder (larger WCET, more jitter, shorter period, added interfering task, larger blocking
/// bound or non-preemptive segment) never decreases an FP-family bound and never turns Err into Ok
pub proof fn lemma_fpx_mono(tua1: spec_fn(int) -> int, hp1: spec_fn(int) -> int, b1: int, rem1: int,
                            tua2: spec_fn(int) -> int, hp2: spec_fn(int) -> int, b2: int, rem2: int, limit: int)
    requires harder(tua1, hp1, b1, rem1, tua2, hp2, b2, rem2)
    ensures opt_le(fpx_spec(tua1, hp1, b1, rem1, limit), fpx_spec(tua2, hp2, b2, rem2, limit))
{
    assert forall |x: int| x >= 1 implies #[trigger] w_bw(tua1, hp1, b1)(x) <= w_bw(tua2, hp2, b2)(x) by { assert(hp1(x) <= hp2(x)); assert(tua1(x) <= tua2(x)); }
    lemma_scan_mono(ded(), ded(), 0, w_bw(tua1, hp1, b1), w_bw(tua2, hp2, b2), limit);
    lemma_scan(ded(), 0, w_bw(tua1, hp1, b1), 0, limit); lemma_scan(ded(), 0, w_bw(tua2, hp2, b2), 0, limit);
    if let Some(l2) = dscan(w_bw(tua2, hp2, b2), limit) {
        let l1 = dscan(w_bw(tua1, hp1, b1), limit).unwrap();
        lemma_exh_mono(tua1, hp1, b1, rem1, tua2, hp2, b2, rem2, limit, l1, l2);
    }
}
/// C17 / C08: increasing the divergence limit never changes an Ok result
pub proof fn lemma_exh_limit(tua: spec_fn(int) -> int, hp: spec_fn(int) -> int, b: int, rem: int, limit: int, limit2: int, a: int)
    requires limit <= limit2, exh(tua, hp, b, rem, limit, a).is_some()
    ensures exh(tua, hp, b, rem, limit2, a) == exh(tua, hp, b, rem, limit, a)
    decreases a
{
    if a > 0 {
        lemma_exh_limit(tua, hp, b, rem, limit, limit2, a - 1);
        lemma_scan_limit_independent(ded(), 0, w_off(tua, hp, b, rem, a - 1), limit, limit2);
    }
}
pub proof fn lemma_fpx_limit(tua: spec_fn(int) -> int, hp: spec_fn(int) -> int, b: int, rem: int, limit: int, limit2: int)
    requires limit <= limit2, fpx_spec(tua, hp, b, rem, limit).is_some()
    ensures fpx_spec(tua, hp, b, rem, limit2) == fpx_spec(tua, hp, b, rem, limit)
{
    lemma_scan_limit_independent(ded(), 0, w_bw(tua, hp, b), limit, limit2);
    lemma_exh_limit(tua, hp, b, rem, limit, limit2, dscan(w_bw(tua, hp, b), limit).unwrap());
}

} // verus!
