// unit part: src/fixed_point.rs
verus! {

// ------------------------------------------------------------------ spec library (C08, from the property statement)
/// an exec closure `f` computes the mathematical function `w`
pub open spec fn clo_is<F: Fn(Duration) -> Service>(f: &F, w: spec_fn(int) -> int) -> bool {
    forall |d: Duration, s: Service| #[trigger] f.ensures((d,), s) ==> s.v() == w(d.v())
}
/// "monotone workload function" (on the arguments the search uses, i.e. >= 1)
pub open spec fn mono(w: spec_fn(int) -> int) -> bool {
    forall |a: int, b: int| #![trigger w(a), w(b)] 1 <= a <= b ==> 0 <= w(a) <= w(b)
}
pub open spec fn m1(r: int) -> int { if r < 1 { 1 } else { r } }
/// naive linear scan: least r in [r, limit] with sbf(off + r) >= w(max(r,1))
pub open spec fn scan(sbf: spec_fn(int) -> int, off: int, w: spec_fn(int) -> int, r: int, limit: int) -> Option<int>
    decreases limit + 1 - r
{
    if r > limit { None }
    else if sbf(off + r) >= w(m1(r)) { Some(r) }
    else { scan(sbf, off, w, r + 1, limit) }
}
/// the supply-bound function an object denotes, as a mathematical function
pub open spec fn sbf_of<S: SupplyBound + ?Sized>(s: &S) -> spec_fn(int) -> int { |x: int| s.sbf(x) }
pub proof fn lemma_scan(s: spec_fn(int) -> int, off: int, w: spec_fn(int) -> int, r: int, limit: int)
    requires 0 <= r
    ensures (match scan(s, off, w, r, limit) {
        Some(x) => r <= x <= limit && s(off + x) >= w(m1(x)) && forall |q: int| r <= q < x ==> s(off + q) < #[trigger] w(m1(q)),
        None => forall |q: int| r <= q <= limit ==> s(off + q) < #[trigger] w(m1(q)),
    })
    decreases limit + 1 - r
{
    if r > limit {} else if s(off + r) >= w(m1(r)) {} else { lemma_scan(s, off, w, r + 1, limit); }
}
pub proof fn lemma_scan_unique(s: spec_fn(int) -> int, off: int, w: spec_fn(int) -> int, limit: int, x: int)
    requires 0 <= x <= limit, s(off + x) >= w(m1(x)), forall |q: int| 0 <= q < x ==> s(off + q) < #[trigger] w(m1(q))
    ensures scan(s, off, w, 0, limit) == Some(x)
{
    lemma_scan(s, off, w, 0, limit);
}
/// C08: "an Ok result never changes when the limit is raised"
/// the scan depends on the supply only through the values of its supply-bound function
pub proof fn lemma_scan_ext(s1: spec_fn(int) -> int, s2: spec_fn(int) -> int, off: int, w: spec_fn(int) -> int, r: int, limit: int)
    requires off >= 0, r >= 0, forall |x: int| x >= 0 ==> #[trigger] s1(x) == s2(x)
    ensures scan(s1, off, w, r, limit) == scan(s2, off, w, r, limit)
    decreases limit + 1 - r
{
    if r <= limit { assert(s1(off + r) == s2(off + r)); if !(s1(off + r) >= w(m1(r))) { lemma_scan_ext(s1, s2, off, w, r + 1, limit); } }
}
pub proof fn lemma_scan_limit_independent(s: spec_fn(int) -> int, off: int, w: spec_fn(int) -> int, limit: int, limit2: int)
    requires limit <= limit2, scan(s, off, w, 0, limit).is_some()
    ensures scan(s, off, w, 0, limit2) == scan(s, off, w, 0, limit)
{
    lemma_scan(s, off, w, 0, limit);
    lemma_scan_unique(s, off, w, limit2, scan(s, off, w, 0, limit).unwrap());
}
/// ... and divergence is reported exactly when no solution <= limit exists
pub proof fn lemma_scan_none_iff(s: spec_fn(int) -> int, off: int, w: spec_fn(int) -> int, limit: int)
    ensures scan(s, off, w, 0, limit).is_none() <==> (forall |q: int| 0 <= q <= limit ==> s(off + q) < #[trigger] w(m1(q)))
{
    lemma_scan(s, off, w, 0, limit);
    if scan(s, off, w, 0, limit).is_some() {
        let x = scan(s, off, w, 0, limit).unwrap();
        assert(s(off + x) >= w(m1(x)));
    }
}
pub open spec fn res_view(r: SearchResult) -> Option<int> { match r { Ok(d) => Some(d.v()), Err(_) => None } }
pub open spec fn res_is(res: SearchResult, v: Option<int>, offset: Offset, limit: Duration) -> bool {
    match v { Some(x) => res == Ok::<Duration, SearchFailure>(Duration { val: x as u64 }),
              None => res == Err::<Duration, SearchFailure>(SearchFailure::DivergenceLimitExceeded { offset, limit }) }
}

// ------------------------------------------------------------------ extracted code
//@item src/fixed_point.rs :: enum SearchFailure
/*+*/#[derive(Debug)] /*-*/pub enum SearchFailure {
    /// No fixed point found below the given divergence threshold.
    /*@R12: #[error("no fixed point less than {limit} found for offset {offset}")] @*//*@.*/
    DivergenceLimitExceeded { offset: Offset, limit: Duration },

    /// Some analysis assumption is violated.
    /*@R12: #[error("analysis assumption violated")] @*//*@.*/
    AssumptionViolated,
}
//@end
// derive(Copy, Clone) on SearchFailure (R12)
impl Clone for SearchFailure { fn clone(&self) -> (r: SearchFailure) ensures r == *self { *self } }
impl Copy for SearchFailure {}

//@item src/fixed_point.rs :: type SearchResult
pub type SearchResult = Result<Duration, SearchFailure>;
//@end

//@item src/fixed_point.rs :: fn search_with_offset
pub fn search_with_offset<SBF, RHS>(
    supply: &SBF,
    offset: Offset,
    divergence_limit: Duration,
    workload: &RHS,
) -> /*+*/(res: /*-*/SearchResult/*+*/)/*-*/
where
    SBF: SupplyBound + ?Sized,
    RHS: Fn(Duration) -> Service,
//@+
    requires
        supply.wf(),
        divergence_limit.v() >= 1,   // limit 0: see known finding KF7
        forall |d: Duration| 1 <= d.v() <= divergence_limit.v() ==> #[trigger] workload.requires((d,)),
        // weakest precondition of `supply.service_time(demand)` and `offset.distance_to(demand_met)`:
        forall |d: Duration, s: Service| 1 <= d.v() <= divergence_limit.v() && #[trigger] workload.ensures((d,), s) ==>
            offset.v() <= supply.st(s.v()) <= u64::MAX && supply.ps_ok(supply.st(s.v())),
    ensures
        // C08: least r >= 0 with sbf(offset + r) >= w(max(r,1)), Ok(0) when there is no demand;
        //      the divergence error (with offset and limit) exactly when no such r <= limit exists
        forall |w: spec_fn(int) -> int| #![trigger clo_is(workload, w)] #![trigger mono(w)] clo_is(workload, w) && mono(w) ==>
            res_is(res, scan(sbf_of(supply), offset.v(), w, 0, divergence_limit.v()), offset, divergence_limit)
//@-
{
    let mut assumed_response_time = Duration::from(1);
    while assumed_response_time <= divergence_limit
//@+
        invariant
            supply.wf(),
            forall |d: Duration| 1 <= d.v() <= divergence_limit.v() ==> #[trigger] workload.requires((d,)),
            forall |d: Duration, s: Service| 1 <= d.v() <= divergence_limit.v() && #[trigger] workload.ensures((d,), s) ==>
                offset.v() <= supply.st(s.v()) <= u64::MAX && supply.ps_ok(supply.st(s.v())),
            assumed_response_time.v() >= 1, divergence_limit.v() >= 1,
            forall |w: spec_fn(int) -> int| #![trigger clo_is(workload, w)] clo_is(workload, w) && mono(w) ==>
                // nothing below the current guess is a solution, except possibly 0 which is decided in the first round
                (forall |q: int| 1 <= q < assumed_response_time.v() ==> supply.sbf(offset.v() + q) < #[trigger] w(m1(q)))
                && (assumed_response_time.v() > 1 ==> supply.sbf(offset.v() + 0) < w(1)),
        decreases (if assumed_response_time.v() <= divergence_limit.v() { divergence_limit.v() + 1 - assumed_response_time.v() } else { 0 })
//@-
    {
        let demand = workload(assumed_response_time);
//@+
        proof {
            assert(workload.ensures((assumed_response_time,), demand));
        }
//@-
        let demand_met = Offset::from_time_zero(supply.service_time(demand));
        let response_time_bound = offset.distance_to(demand_met);
//@+
        proof {
            supply.sbf_props(); supply.st_props(demand.v());
            assert forall |w: spec_fn(int) -> int| clo_is(workload, w) && mono(w) implies
                (response_time_bound.v() <= assumed_response_time.v() ==> res_is(Ok::<Duration, SearchFailure>(response_time_bound), scan(sbf_of(supply), offset.v(), w, 0, divergence_limit.v()), offset, divergence_limit))
                && (response_time_bound.v() > assumed_response_time.v() ==>
                      (forall |q: int| 1 <= q < response_time_bound.v() ==> supply.sbf(offset.v() + q) < #[trigger] w(m1(q))) && supply.sbf(offset.v() + 0) < w(1))
            by {
                let a = assumed_response_time.v(); let b = response_time_bound.v(); let off = offset.v();
                assert(demand.v() == w(a));
                assert(off + b == supply.st(w(a)));
                if b <= a {
                    assert(supply.sbf(off + b) >= w(a));
                    assert(w(m1(b)) <= w(a));
                    if b >= 1 && a == 1 { assert(b == 1); assert(supply.sbf(off + 0) < w(1)) by { assert(off + 0 < supply.st(w(1))); } }
                    lemma_scan_unique(sbf_of(supply), off, w, divergence_limit.v(), b);
                } else {
                    assert forall |q: int| 1 <= q < b implies supply.sbf(off + q) < #[trigger] w(m1(q)) by {
                        if q >= a { assert(off + q < supply.st(w(a))); assert(supply.sbf(off + q) < w(a)); assert(w(a) <= w(q)); }
                    }
                    assert(off + 0 < supply.st(w(a)));
                    if a == 1 { assert(supply.sbf(off + 0) < w(1)); }
                }
            }
        }
//@-
        if response_time_bound <= assumed_response_time {
            // we have converged
            return Ok(response_time_bound);
        } else {
            // continue iterating
            assumed_response_time = response_time_bound
        }
    }
//@+
    proof {
        assert forall |w: spec_fn(int) -> int| clo_is(workload, w) && mono(w) implies
            scan(sbf_of(supply), offset.v(), w, 0, divergence_limit.v()).is_none() by {
            lemma_scan(sbf_of(supply), offset.v(), w, 0, divergence_limit.v());
        }
    }
//@-
    // if we get here, we failed to converge => no solution
    Err(SearchFailure::DivergenceLimitExceeded {
        offset,
        limit: divergence_limit,
    })
}
//@end

// the crate compiles this function only with debug assertions; the debug flavour is what is verified (R7)
//@item src/fixed_point.rs :: fn brute_force_search_with_offset
fn brute_force_search_with_offset<SBF, RHS>(
    supply: &SBF,
    offset: Offset,
    divergence_limit: Duration,
    workload: &RHS,
) -> /*+*/(res: /*-*/SearchResult/*+*/)/*-*/
where
    SBF: SupplyBound + ?Sized,
    RHS: Fn(Duration) -> Service,
//@+
    requires
        supply.wf(), offset.v() == 0, divergence_limit.v() >= 1, divergence_limit.v() < u64::MAX,
        forall |d: Duration| 1 <= d.v() <= divergence_limit.v() ==> #[trigger] workload.requires((d,)),
        supply.ps_ok(divergence_limit.v()),
    ensures
        forall |w: spec_fn(int) -> int| #![trigger clo_is(workload, w)] #![trigger mono(w)] clo_is(workload, w) && mono(w) ==>
            res_is(res, scan(sbf_of(supply), offset.v(), w, 0, divergence_limit.v()), offset, divergence_limit)
//@-
{
    /*@R16: for r in 1..= @*/let vf_end = /*@.*/Time::from(divergence_limit)/*@R16: @*/; for r in 1..=vf_end/*@.*/
//@+
        invariant
            vf_end == divergence_limit.val, vf_end < u64::MAX,
            supply.wf(), offset.v() == 0, divergence_limit.v() >= 1,
            supply.ps_ok(divergence_limit.v()),
            forall |d: Duration| 1 <= d.v() <= divergence_limit.v() ==> #[trigger] workload.requires((d,)),
            forall |w: spec_fn(int) -> int| #![trigger clo_is(workload, w)] clo_is(workload, w) && mono(w) ==>
                (forall |q: int| 1 <= q < r ==> supply.sbf(q) < #[trigger] w(m1(q))) && (r > 1 ==> supply.sbf(0) < w(1)),
//@-
    {
        let assumed_response_time = Duration::from(r);
//@+
        proof { supply.ps_ok_down(r as int, divergence_limit.v()); }
//@-
        let lhs = supply.provided_service(offset.since_time_zero() + assumed_response_time);
        let rhs = workload(assumed_response_time);
//@+
        proof {
            supply.sbf_props();
            assert forall |w: spec_fn(int) -> int| clo_is(workload, w) && mono(w) implies
                (rhs.v() == 0 ==> res_is(Ok::<Duration, SearchFailure>(Duration { val: 0 }), scan(sbf_of(supply), 0, w, 0, divergence_limit.v()), offset, divergence_limit))
                && (rhs.v() != 0 && lhs.v() == rhs.v() ==> res_is(Ok::<Duration, SearchFailure>(assumed_response_time), scan(sbf_of(supply), 0, w, 0, divergence_limit.v()), offset, divergence_limit))
                && (rhs.v() != 0 && lhs.v() != rhs.v() ==> supply.sbf(r as int) < w(m1(r as int)) && supply.sbf(0) < w(1))
            by {
                assert(rhs.v() == w(r as int));
                assert(lhs.v() == supply.sbf(r as int));
                if rhs.v() == 0 {
                    assert(w(1) <= w(r as int));
                    lemma_scan_unique(sbf_of(supply), 0, w, divergence_limit.v(), 0);
                } else {
                    if r > 1 { assert(supply.sbf(r as int) <= supply.sbf(r - 1) + 1); assert(w(m1(r - 1)) <= w(r as int)); }
                    else { assert(supply.sbf(1) <= supply.sbf(0) + 1); }
                    assert(supply.sbf(r as int) <= w(r as int));
                    assert(w(1) <= w(r as int));
                    if r == 1 { assert(supply.sbf(0) < w(1)); }
                    if lhs.v() == rhs.v() { lemma_scan_unique(sbf_of(supply), 0, w, divergence_limit.v(), r as int); }
                }
            }
        }
//@-
        // corner case: zero demand is trivially satisfied immediately
        if rhs.is_none() {
            return Ok(Duration::zero());
        } else if lhs == rhs {
            return Ok(assumed_response_time);
        }
    }
//@+
    proof {
        assert forall |w: spec_fn(int) -> int| clo_is(workload, w) && mono(w) implies
            scan(sbf_of(supply), 0, w, 0, divergence_limit.v()).is_none() by {
            lemma_scan(sbf_of(supply), 0, w, 0, divergence_limit.v());
            assert(supply.sbf(0) < w(1));
            assert(forall |q: int| 1 <= q <= divergence_limit.v() ==> supply.sbf(q) < #[trigger] w(m1(q)));
            if scan(sbf_of(supply), 0, w, 0, divergence_limit.v()).is_some() {
                let x = scan(sbf_of(supply), 0, w, 0, divergence_limit.v()).unwrap();
                assert(supply.sbf(0 + x) >= w(m1(x)));
                if x == 0 { assert(m1(0) == 1); } else { assert(supply.sbf(x) < w(m1(x))); }
            }
        }
    }
//@-
    Err(SearchFailure::DivergenceLimitExceeded {
        offset,
        limit: divergence_limit,
    })
}
//@end

//@item src/fixed_point.rs :: fn search
pub fn search<SBF, RHS>(
    supply: &SBF,
    divergence_limit: Duration,
    workload_bound: RHS,
) -> /*+*/(res: /*-*/SearchResult/*+*/)/*-*/
where
    SBF: SupplyBound + ?Sized,
    RHS: Fn(Duration) -> Service,
//@+
    requires
        supply.wf(), divergence_limit.v() >= 1,
        forall |d: Duration| 1 <= d.v() <= divergence_limit.v() ==> #[trigger] workload_bound.requires((d,)),
        forall |d: Duration, s: Service| 1 <= d.v() <= divergence_limit.v() && #[trigger] workload_bound.ensures((d,), s) ==>
            supply.st(s.v()) <= u64::MAX && supply.ps_ok(supply.st(s.v())),
        // the library's debug cross-check evaluates provided_service up to min(limit, 100_000)
        divergence_limit.v() <= 100_000 ==> supply.ps_ok(divergence_limit.v()),
        // the debug cross-check compares two evaluations of the closure: it must be a function
        exists |w: spec_fn(int) -> int| #![trigger clo_is(&workload_bound, w)] #![trigger mono(w)] clo_is(&workload_bound, w) && mono(w),
    ensures
        forall |w: spec_fn(int) -> int| #![trigger clo_is(&workload_bound, w)] #![trigger mono(w)] clo_is(&workload_bound, w) && mono(w) ==>
            res_is(res, scan(sbf_of(supply), 0, w, 0, divergence_limit.v()), Offset { val: 0 }, divergence_limit)
//@-
{
//@+
    proof {
        assert forall |d: Duration, s: Service| 1 <= d.v() <= divergence_limit.v() && #[trigger] workload_bound.ensures((d,), s) implies
            0 <= supply.st(s.v()) by { supply.st_props(s.v()); }
    }
//@-
    let bw = search_with_offset(supply, Offset::from(0), divergence_limit, &workload_bound);
    // In debug mode, compare against the brute-force solution, if the limit is not too large.
    /*@R12: #[cfg(debug_assertions)] @*//*@.*/
    if divergence_limit <= Duration::from(100_000) {
        /*@R7: debug_assert_eq!( @*/let vf_lhs = /*@.*/
            brute_force_search_with_offset(
                supply,
                Offset::from(0),
                divergence_limit,
                &workload_bound
            )/*@R7: , bw ); @*/;
        proof {
            let w = choose |w: spec_fn(int) -> int| clo_is(&workload_bound, w) && mono(w);
            assert(clo_is(&workload_bound, w) && mono(w));
            assert(vf_lhs == bw);   // the library's own cross-check can never fire
        }/*@.*/
    }
    bw
}
//@end

// ------------------------------------------------------------------ max_response_time (C08, third sentence)
/// the comparator's order: an error dominates everything after it, otherwise compare the bounds
pub open spec fn err_dominant(a: SearchResult, b: SearchResult) -> Ordering {
    if a.is_err() { Ordering::Greater } else if b.is_err() { Ordering::Less }
    else if a.unwrap().val < b.unwrap().val { Ordering::Less } else if a.unwrap().val == b.unwrap().val { Ordering::Equal } else { Ordering::Greater }
}
/// std: `Iterator::max_by` = fold that keeps the accumulator only on `Greater` (the last maximum wins)
pub open spec fn fold_max_by(xs: Seq<SearchResult>, c: spec_fn(SearchResult, SearchResult) -> Ordering) -> Option<SearchResult>
    decreases xs.len()
{
    if xs.len() == 0 { None } else if xs.len() == 1 { Some(xs[0]) }
    else { let acc = fold_max_by(xs.drop_last(), c).unwrap(); let y = xs.last(); Some(if c(acc, y) == Ordering::Greater { acc } else { y }) }
}
pub open spec fn has_err(xs: Seq<SearchResult>) -> bool { exists |i: int| 0 <= i < xs.len() && (#[trigger] xs[i]).is_err() }
/// C08: "the first error if there is one, otherwise the maximum, and zero for an empty sequence"
pub open spec fn mrt_ok(res: SearchResult, xs: Seq<SearchResult>) -> bool {
    if xs.len() == 0 { res == Ok::<Duration, SearchFailure>(Duration { val: 0 }) }
    else if has_err(xs) {
        exists |i: int| 0 <= i < xs.len() && xs[i].is_err() && res == #[trigger] xs[i] && forall |k: int| 0 <= k < i ==> !(#[trigger] xs[k]).is_err()
    } else {
        res.is_ok() && (exists |i: int| 0 <= i < xs.len() && res == #[trigger] xs[i])
        && forall |k: int| 0 <= k < xs.len() ==> (#[trigger] xs[k]).unwrap().val <= res.unwrap().val
    }
}
pub proof fn lemma_fold_err_dominant(xs: Seq<SearchResult>)
    requires xs.len() >= 1
    ensures fold_max_by(xs, |a: SearchResult, b: SearchResult| err_dominant(a, b)).is_some(),
            mrt_ok(fold_max_by(xs, |a: SearchResult, b: SearchResult| err_dominant(a, b)).unwrap(), xs)
    decreases xs.len()
{
    let c = |a: SearchResult, b: SearchResult| err_dominant(a, b);
    if xs.len() == 1 {
        if xs[0].is_err() { assert(has_err(xs)); }
        else { assert(!has_err(xs)); }
    } else {
        let ys = xs.drop_last();
        lemma_fold_err_dominant(ys);
        let acc = fold_max_by(ys, c).unwrap();
        let y = xs.last();
        let r = if c(acc, y) == Ordering::Greater { acc } else { y };
        assert forall |k: int| 0 <= k < ys.len() implies ys[k] == xs[k] by {}
        if has_err(ys) {
            let i = choose |i: int| 0 <= i < ys.len() && ys[i].is_err() && acc == #[trigger] ys[i] && forall |k: int| 0 <= k < i ==> !(#[trigger] ys[k]).is_err();
            assert(xs[i].is_err());
            assert(has_err(xs));
            assert(r == acc);
            assert(xs[i].is_err() && r == xs[i] && forall |k: int| 0 <= k < i ==> !(#[trigger] xs[k]).is_err());
        } else if y.is_err() {
            assert(xs[xs.len() - 1].is_err());
            assert(has_err(xs));
            assert(r == y);
            let i = xs.len() - 1;
            assert(xs[i].is_err() && r == xs[i] && forall |k: int| 0 <= k < i ==> !(#[trigger] xs[k]).is_err()) by {
                assert forall |k: int| 0 <= k < i implies !(#[trigger] xs[k]).is_err() by { assert(ys[k] == xs[k]); }
            }
        } else {
            assert(!has_err(xs)) by {
                if has_err(xs) { let j = choose |j: int| 0 <= j < xs.len() && (#[trigger] xs[j]).is_err(); if j < ys.len() { assert(ys[j].is_err()); } }
            }
            let i0 = choose |i: int| 0 <= i < ys.len() && acc == #[trigger] ys[i];
            if c(acc, y) == Ordering::Greater { assert(r == xs[i0]); } else { assert(r == xs[xs.len() - 1]); }
            assert forall |k: int| 0 <= k < xs.len() implies (#[trigger] xs[k]).unwrap().val <= r.unwrap().val by {
                if k < ys.len() { assert(ys[k].unwrap().val <= acc.unwrap().val); }
            }
        }
    }
}
/// R3: `iter.max_by(cmp)` over a finite sequence, as a verified loop implementing the std fold
pub fn vf_max_by<F: Fn(&SearchResult, &SearchResult) -> Ordering>(xs: &[SearchResult], f: F, Ghost(c): Ghost<spec_fn(SearchResult, SearchResult) -> Ordering>) -> (r: Option<SearchResult>)
    requires
        forall |a: SearchResult, b: SearchResult| #[trigger] f.requires((&a, &b)),
        forall |a: SearchResult, b: SearchResult, o: Ordering| #[trigger] f.ensures((&a, &b), o) ==> o == c(a, b),
    ensures r == fold_max_by(xs@, c)
{
    if xs.len() == 0 { return None; }
    let mut acc: SearchResult = xs[0];
    proof { assert(xs@.take(1) =~= seq![xs@[0]]); }
    let mut i: usize = 1;
    while i < xs.len()
        invariant 1 <= i <= xs@.len(), Some(acc) == fold_max_by(xs@.take(i as int), c),
            forall |a: SearchResult, b: SearchResult| #[trigger] f.requires((&a, &b)),
            forall |a: SearchResult, b: SearchResult, o: Ordering| #[trigger] f.ensures((&a, &b), o) ==> o == c(a, b),
        decreases xs@.len() - i
    {
        let y = xs[i];
        let o = f(&acc, &y);
        proof { assert(xs@.take(i as int + 1).drop_last() =~= xs@.take(i as int)); }
        acc = match o { Ordering::Greater => acc, _ => y };
        i = i + 1;
    }
    proof { assert(xs@.take(xs@.len() as int) =~= xs@); }
    Some(acc)
}

//@item src/fixed_point.rs :: fn max_response_time
pub fn max_response_time(/*@R15: rta_per_offset: impl Iterator<Item = SearchResult> @*/rta_per_offset: &[SearchResult]/*@.*/) -> /*+*/(res: /*-*/SearchResult/*+*/)
    ensures mrt_ok(res, rta_per_offset@)/*-*/ {
//@+
    proof { if rta_per_offset@.len() >= 1 { lemma_fold_err_dominant(rta_per_offset@); } }
//@-
    /*@R3: rta_per_offset
        .max_by( @*/vf_max_by(rta_per_offset, /*@.*/|a/*+*/: &SearchResult/*-*/, b/*+*/: &SearchResult/*-*/| /*+*/-> (o: Ordering) ensures o == err_dominant(*a, *b)/*-*/ {
            // propagate any errors values
            if a.is_err() {
                // if a is an error, we want to report it
                Ordering::Greater
            } else if b.is_err() {
                // if a is not an error, but b is, then we want b
                Ordering::Less
            } else {
                // if neither is an error, report the maximum result
                a.unwrap().cmp(&b.unwrap())
            }
        }/*@R3: ) @*/, Ghost(|a: SearchResult, b: SearchResult| err_dominant(a, b)))/*@.*/
        // If we have no result at all, there are no demand steps, so the
        // response-time is trivially zero.
        .unwrap_or(Ok(Duration::zero()))
}
//@end

} // verus!
