// unit part: src/fixed_point.rs
verus! {

// ------------------------------------------------------------------ spec library (C08, from the property statement)
/// an exec closure `f` computes the mathematical function `w`
pub open spec fn clo_is<F: Fn(Duration) -> Service>(f: &F, w: spec_fn(int) -> int) -> bool {
    forall |d: Duration, s: Service| #[trigger] f.ensures((d,), s) ==> s.v() == w(d.v())
}
/// "monotone workload function" (on the arguments the search uses, i.e. >= 1)
pub open spec fn mono(w: spec_fn(int) -> int) -> bool {
    forall |a: int, b: int| #![trigger w(a), w(b)] 1 <= a <= b ==> 0 <= w(a) <= w(b)
}
pub open spec fn m1(r: int) -> int { if r < 1 { 1 } else { r } }
/// naive linear scan: least r in [r, limit] with sbf(off + r) >= w(max(r,1))
pub open spec fn scan<S: SupplyBound + ?Sized>(s: &S, off: int, w: spec_fn(int) -> int, r: int, limit: int) -> Option<int>
    decreases limit + 1 - r
{
    if r > limit { None }
    else if s.sbf(off + r) >= w(m1(r)) { Some(r) }
    else { scan(s, off, w, r + 1, limit) }
}
pub proof fn lemma_scan<S: SupplyBound + ?Sized>(s: &S, off: int, w: spec_fn(int) -> int, r: int, limit: int)
    requires 0 <= r
    ensures (match scan(s, off, w, r, limit) {
        Some(x) => r <= x <= limit && s.sbf(off + x) >= w(m1(x)) && forall |q: int| r <= q < x ==> s.sbf(off + q) < #[trigger] w(m1(q)),
        None => forall |q: int| r <= q <= limit ==> s.sbf(off + q) < #[trigger] w(m1(q)),
    })
    decreases limit + 1 - r
{
    if r > limit {} else if s.sbf(off + r) >= w(m1(r)) {} else { lemma_scan(s, off, w, r + 1, limit); }
}
pub proof fn lemma_scan_unique<S: SupplyBound + ?Sized>(s: &S, off: int, w: spec_fn(int) -> int, limit: int, x: int)
    requires 0 <= x <= limit, s.sbf(off + x) >= w(m1(x)), forall |q: int| 0 <= q < x ==> s.sbf(off + q) < #[trigger] w(m1(q))
    ensures scan(s, off, w, 0, limit) == Some(x)
{
    lemma_scan(s, off, w, 0, limit);
}
/// C08: "an Ok result never changes when the limit is raised"
pub proof fn lemma_scan_limit_independent<S: SupplyBound + ?Sized>(s: &S, off: int, w: spec_fn(int) -> int, limit: int, limit2: int)
    requires limit <= limit2, scan(s, off, w, 0, limit).is_some()
    ensures scan(s, off, w, 0, limit2) == scan(s, off, w, 0, limit)
{
    lemma_scan(s, off, w, 0, limit);
    lemma_scan_unique(s, off, w, limit2, scan(s, off, w, 0, limit).unwrap());
}
/// ... and divergence is reported exactly when no solution <= limit exists
pub proof fn lemma_scan_none_iff<S: SupplyBound + ?Sized>(s: &S, off: int, w: spec_fn(int) -> int, limit: int)
    ensures scan(s, off, w, 0, limit).is_none() <==> (forall |q: int| 0 <= q <= limit ==> s.sbf(off + q) < #[trigger] w(m1(q)))
{
    lemma_scan(s, off, w, 0, limit);
    if scan(s, off, w, 0, limit).is_some() {
        let x = scan(s, off, w, 0, limit).unwrap();
        assert(s.sbf(off + x) >= w(m1(x)));
    }
}
pub open spec fn res_view(r: SearchResult) -> Option<int> { match r { Ok(d) => Some(d.v()), Err(_) => None } }
pub open spec fn res_is(res: SearchResult, v: Option<int>, offset: Offset, limit: Duration) -> bool {
    match v { Some(x) => res == Ok::<Duration, SearchFailure>(Duration { val: x as u64 }),
              None => res == Err::<Duration, SearchFailure>(SearchFailure::DivergenceLimitExceeded { offset, limit }) }
}

// ------------------------------------------------------------------ extracted code
//@item src/fixed_point.rs :: enum SearchFailure
pub enum SearchFailure {
    /// No fixed point found below the given divergence threshold.
    /*@R12: #[error("no fixed point less than {limit} found for offset {offset}")] @*//*@.*/
    DivergenceLimitExceeded { offset: Offset, limit: Duration },

    /// Some analysis assumption is violated.
    /*@R12: #[error("analysis assumption violated")] @*//*@.*/
    AssumptionViolated,
}
//@end
// derive(Copy, Clone) on SearchFailure (R12)
impl Clone for SearchFailure { fn clone(&self) -> (r: SearchFailure) ensures r == *self { *self } }
impl Copy for SearchFailure {}

//@item src/fixed_point.rs :: type SearchResult
pub type SearchResult = Result<Duration, SearchFailure>;
//@end

//@item src/fixed_point.rs :: fn search_with_offset
pub fn search_with_offset<SBF, RHS>(
    supply: &SBF,
    offset: Offset,
    divergence_limit: Duration,
    workload: &RHS,
) -> /*+*/(res: /*-*/SearchResult/*+*/)/*-*/
where
    SBF: SupplyBound + ?Sized,
    RHS: Fn(Duration) -> Service,
//@+
    requires
        supply.wf(),
        divergence_limit.v() >= 1,   // limit 0: see known finding KF7
        forall |d: Duration| 1 <= d.v() <= divergence_limit.v() ==> #[trigger] workload.requires((d,)),
        // weakest precondition of `supply.service_time(demand)` and `offset.distance_to(demand_met)`:
        forall |d: Duration, s: Service| 1 <= d.v() <= divergence_limit.v() && #[trigger] workload.ensures((d,), s) ==>
            offset.v() <= supply.st(s.v()) <= u64::MAX && supply.ps_ok(supply.st(s.v())),
    ensures
        // C08: least r >= 0 with sbf(offset + r) >= w(max(r,1)), Ok(0) when there is no demand;
        //      the divergence error (with offset and limit) exactly when no such r <= limit exists
        forall |w: spec_fn(int) -> int| #![trigger clo_is(workload, w)] #![trigger mono(w)] clo_is(workload, w) && mono(w) ==>
            res_is(res, scan(supply, offset.v(), w, 0, divergence_limit.v()), offset, divergence_limit)
//@-
{
    let mut assumed_response_time = Duration::from(1);
    while assumed_response_time <= divergence_limit
//@+
        invariant
            supply.wf(),
            forall |d: Duration| 1 <= d.v() <= divergence_limit.v() ==> #[trigger] workload.requires((d,)),
            forall |d: Duration, s: Service| 1 <= d.v() <= divergence_limit.v() && #[trigger] workload.ensures((d,), s) ==>
                offset.v() <= supply.st(s.v()) <= u64::MAX && supply.ps_ok(supply.st(s.v())),
            assumed_response_time.v() >= 1, divergence_limit.v() >= 1,
            forall |w: spec_fn(int) -> int| #![trigger clo_is(workload, w)] clo_is(workload, w) && mono(w) ==>
                // nothing below the current guess is a solution, except possibly 0 which is decided in the first round
                (forall |q: int| 1 <= q < assumed_response_time.v() ==> supply.sbf(offset.v() + q) < #[trigger] w(m1(q)))
                && (assumed_response_time.v() > 1 ==> supply.sbf(offset.v() + 0) < w(1)),
        decreases (if assumed_response_time.v() <= divergence_limit.v() { divergence_limit.v() + 1 - assumed_response_time.v() } else { 0 })
//@-
    {
        let demand = workload(assumed_response_time);
//@+
        proof {
            assert(workload.ensures((assumed_response_time,), demand));
        }
//@-
        let demand_met = Offset::from_time_zero(supply.service_time(demand));
        let response_time_bound = offset.distance_to(demand_met);
//@+
        proof {
            supply.sbf_props(); supply.st_props(demand.v());
            assert forall |w: spec_fn(int) -> int| clo_is(workload, w) && mono(w) implies
                (response_time_bound.v() <= assumed_response_time.v() ==> res_is(Ok::<Duration, SearchFailure>(response_time_bound), scan(supply, offset.v(), w, 0, divergence_limit.v()), offset, divergence_limit))
                && (response_time_bound.v() > assumed_response_time.v() ==>
                      (forall |q: int| 1 <= q < response_time_bound.v() ==> supply.sbf(offset.v() + q) < #[trigger] w(m1(q))) && supply.sbf(offset.v() + 0) < w(1))
            by {
                let a = assumed_response_time.v(); let b = response_time_bound.v(); let off = offset.v();
                assert(demand.v() == w(a));
                assert(off + b == supply.st(w(a)));
                if b <= a {
                    assert(supply.sbf(off + b) >= w(a));
                    assert(w(m1(b)) <= w(a));
                    if b >= 1 && a == 1 { assert(b == 1); assert(supply.sbf(off + 0) < w(1)) by { assert(off + 0 < supply.st(w(1))); } }
                    lemma_scan_unique(supply, off, w, divergence_limit.v(), b);
                } else {
                    assert forall |q: int| 1 <= q < b implies supply.sbf(off + q) < #[trigger] w(m1(q)) by {
                        if q >= a { assert(off + q < supply.st(w(a))); assert(supply.sbf(off + q) < w(a)); assert(w(a) <= w(q)); }
                    }
                    assert(off + 0 < supply.st(w(a)));
                    if a == 1 { assert(supply.sbf(off + 0) < w(1)); }
                }
            }
        }
//@-
        if response_time_bound <= assumed_response_time {
            // we have converged
            return Ok(response_time_bound);
        } else {
            // continue iterating
            assumed_response_time = response_time_bound
        }
    }
//@+
    proof {
        assert forall |w: spec_fn(int) -> int| clo_is(workload, w) && mono(w) implies
            scan(supply, offset.v(), w, 0, divergence_limit.v()).is_none() by {
            lemma_scan(supply, offset.v(), w, 0, divergence_limit.v());
        }
    }
//@-
    // if we get here, we failed to converge => no solution
    Err(SearchFailure::DivergenceLimitExceeded {
        offset,
        limit: divergence_limit,
    })
}
//@end

// the crate compiles this function only with debug assertions; the debug flavour is what is verified (R7)
//@item src/fixed_point.rs :: fn brute_force_search_with_offset
fn brute_force_search_with_offset<SBF, RHS>(
    supply: &SBF,
    offset: Offset,
    divergence_limit: Duration,
    workload: &RHS,
) -> /*+*/(res: /*-*/SearchResult/*+*/)/*-*/
where
    SBF: SupplyBound + ?Sized,
    RHS: Fn(Duration) -> Service,
//@+
    requires
        supply.wf(), offset.v() == 0, divergence_limit.v() >= 1, divergence_limit.v() < u64::MAX,
        forall |d: Duration| 1 <= d.v() <= divergence_limit.v() ==> #[trigger] workload.requires((d,)),
        supply.ps_ok(divergence_limit.v()),
    ensures
        forall |w: spec_fn(int) -> int| #![trigger clo_is(workload, w)] #![trigger mono(w)] clo_is(workload, w) && mono(w) ==>
            res_is(res, scan(supply, offset.v(), w, 0, divergence_limit.v()), offset, divergence_limit)
//@-
{
    /*@R16: for r in 1..= @*/let vf_end = /*@.*/Time::from(divergence_limit)/*@R16: @*/; for r in 1..=vf_end/*@.*/
//@+
        invariant
            vf_end == divergence_limit.val, vf_end < u64::MAX,
            supply.wf(), offset.v() == 0, divergence_limit.v() >= 1,
            supply.ps_ok(divergence_limit.v()),
            forall |d: Duration| 1 <= d.v() <= divergence_limit.v() ==> #[trigger] workload.requires((d,)),
            forall |w: spec_fn(int) -> int| #![trigger clo_is(workload, w)] clo_is(workload, w) && mono(w) ==>
                (forall |q: int| 1 <= q < r ==> supply.sbf(q) < #[trigger] w(m1(q))) && (r > 1 ==> supply.sbf(0) < w(1)),
//@-
    {
        let assumed_response_time = Duration::from(r);
//@+
        proof { supply.ps_ok_down(r as int, divergence_limit.v()); }
//@-
        let lhs = supply.provided_service(offset.since_time_zero() + assumed_response_time);
        let rhs = workload(assumed_response_time);
//@+
        proof {
            supply.sbf_props();
            assert forall |w: spec_fn(int) -> int| clo_is(workload, w) && mono(w) implies
                (rhs.v() == 0 ==> res_is(Ok::<Duration, SearchFailure>(Duration { val: 0 }), scan(supply, 0, w, 0, divergence_limit.v()), offset, divergence_limit))
                && (rhs.v() != 0 && lhs.v() == rhs.v() ==> res_is(Ok::<Duration, SearchFailure>(assumed_response_time), scan(supply, 0, w, 0, divergence_limit.v()), offset, divergence_limit))
                && (rhs.v() != 0 && lhs.v() != rhs.v() ==> supply.sbf(r as int) < w(m1(r as int)) && supply.sbf(0) < w(1))
            by {
                assert(rhs.v() == w(r as int));
                assert(lhs.v() == supply.sbf(r as int));
                if rhs.v() == 0 {
                    assert(w(1) <= w(r as int));
                    lemma_scan_unique(supply, 0, w, divergence_limit.v(), 0);
                } else {
                    if r > 1 { assert(supply.sbf(r as int) <= supply.sbf(r - 1) + 1); assert(w(m1(r - 1)) <= w(r as int)); }
                    else { assert(supply.sbf(1) <= supply.sbf(0) + 1); }
                    assert(supply.sbf(r as int) <= w(r as int));
                    assert(w(1) <= w(r as int));
                    if r == 1 { assert(supply.sbf(0) < w(1)); }
                    if lhs.v() == rhs.v() { lemma_scan_unique(supply, 0, w, divergence_limit.v(), r as int); }
                }
            }
        }
//@-
        // corner case: zero demand is trivially satisfied immediately
        if rhs.is_none() {
            return Ok(Duration::zero());
        } else if lhs == rhs {
            return Ok(assumed_response_time);
        }
    }
//@+
    proof {
        assert forall |w: spec_fn(int) -> int| clo_is(workload, w) && mono(w) implies
            scan(supply, 0, w, 0, divergence_limit.v()).is_none() by {
            lemma_scan(supply, 0, w, 0, divergence_limit.v());
            assert(supply.sbf(0) < w(1));
            assert(forall |q: int| 1 <= q <= divergence_limit.v() ==> supply.sbf(q) < #[trigger] w(m1(q)));
            if scan(supply, 0, w, 0, divergence_limit.v()).is_some() {
                let x = scan(supply, 0, w, 0, divergence_limit.v()).unwrap();
                assert(supply.sbf(0 + x) >= w(m1(x)));
                if x == 0 { assert(m1(0) == 1); } else { assert(supply.sbf(x) < w(m1(x))); }
            }
        }
    }
//@-
    Err(SearchFailure::DivergenceLimitExceeded {
        offset,
        limit: divergence_limit,
    })
}
//@end

//@item src/fixed_point.rs :: fn search
pub fn search<SBF, RHS>(
    supply: &SBF,
    divergence_limit: Duration,
    workload_bound: RHS,
) -> /*+*/(res: /*-*/SearchResult/*+*/)/*-*/
where
    SBF: SupplyBound + ?Sized,
    RHS: Fn(Duration) -> Service,
//@+
    requires
        supply.wf(), divergence_limit.v() >= 1,
        forall |d: Duration| 1 <= d.v() <= divergence_limit.v() ==> #[trigger] workload_bound.requires((d,)),
        forall |d: Duration, s: Service| 1 <= d.v() <= divergence_limit.v() && #[trigger] workload_bound.ensures((d,), s) ==>
            supply.st(s.v()) <= u64::MAX && supply.ps_ok(supply.st(s.v())),
        // the library's debug cross-check evaluates provided_service up to min(limit, 100_000)
        divergence_limit.v() <= 100_000 ==> supply.ps_ok(divergence_limit.v()),
        // the debug cross-check compares two evaluations of the closure: it must be a function
        exists |w: spec_fn(int) -> int| clo_is(&workload_bound, w) && mono(w),
    ensures
        forall |w: spec_fn(int) -> int| #![trigger clo_is(&workload_bound, w)] #![trigger mono(w)] clo_is(&workload_bound, w) && mono(w) ==>
            res_is(res, scan(supply, 0, w, 0, divergence_limit.v()), Offset { val: 0 }, divergence_limit)
//@-
{
//@+
    proof {
        assert forall |d: Duration, s: Service| 1 <= d.v() <= divergence_limit.v() && #[trigger] workload_bound.ensures((d,), s) implies
            0 <= supply.st(s.v()) by { supply.st_props(s.v()); }
    }
//@-
    let bw = search_with_offset(supply, Offset::from(0), divergence_limit, &workload_bound);
    // In debug mode, compare against the brute-force solution, if the limit is not too large.
    /*@R12: #[cfg(debug_assertions)] @*//*@.*/
    if divergence_limit <= Duration::from(100_000) {
        /*@R7: debug_assert_eq!( @*/let vf_lhs = /*@.*/
            brute_force_search_with_offset(
                supply,
                Offset::from(0),
                divergence_limit,
                &workload_bound
            )/*@R7: , bw ); @*/;
        proof {
            let w = choose |w: spec_fn(int) -> int| clo_is(&workload_bound, w) && mono(w);
            assert(clo_is(&workload_bound, w) && mono(w));
            assert(vf_lhs == bw);   // the library's own cross-check can never fire
        }/*@.*/
    }
    bw
}
//@end

} // verus!
