// C17 / C19 lemmas over the spec functions that the real EDF and FIFO analyses are proved to compute
// (edf_spec: edf::fully_preemptive; edfx_spec: edf::{floating_nonpreemptive, limited_preemptive, fully_nonpreemptive};
//  fifo_spec: fifo::dedicated_uniproc_rta).  Pure proof code: nothing here is extracted from /repo.
verus! {

// ------------------------------------------------------------------ C19: the EDF variants reduce to one another
/// no other task has a non-preemptive segment longer than 1 (= epsilon): nobody blocks
pub proof fn lemma_blk_zero(otx: Seq<OTX>, dl: int, a: int)
    requires forall |i: int| 0 <= i < otx.len() ==> (#[trigger] otx[i]).seg <= 1
    ensures blk(otx, dl, a) == 0
{
    lemma_max_sel_nonneg(otx.len() as int, blk_sel(otx, dl, a), blk_val(otx));
    assert forall |i: int| 0 <= i < otx.len() implies #[trigger] blk_val(otx)(i) <= 0 by { assert(otx[i].seg <= 1); }
    lemma_max_sel_le(otx.len() as int, blk_sel(otx, dl, a), blk_val(otx), 0);
}
pub proof fn lemma_edfx_exh_noseg(tua: spec_fn(int) -> int, dl: int, otx: Seq<OTX>, limit: int, a: int)
    requires forall |i: int| 0 <= i < otx.len() ==> (#[trigger] otx[i]).seg <= 1
    ensures edfx_exh(tua, dl, otx, 0, limit, a) == edf_exh(tua, dl, to_ots(otx), limit, a)
    decreases a
{
    if a > 0 {
        lemma_edfx_exh_noseg(tua, dl, otx, limit, a - 1);
        lemma_blk_zero(otx, dl, a - 1);
        assert(edfx_w_off(tua, dl, otx, 0, a - 1) =~= edf_w_off(tua, dl, to_ots(otx), a - 1));
    }
}
/// C19: with all non-preemptive segments equal to 1 (and, for the limited-preemptive analysis, last segment 1, i.e.
/// remaining cost 0) the EDF analyses with non-preemptive segments coincide with fully preemptive EDF
pub proof fn lemma_c19_edfx_noseg_is_edf(tua: spec_fn(int) -> int, dl: int, otx: Seq<OTX>, limit: int)
    requires forall |i: int| 0 <= i < otx.len() ==> (#[trigger] otx[i]).seg <= 1
    ensures edfx_spec(tua, dl, otx, 0, limit) == edf_spec(tua, dl, to_ots(otx), limit)
{ /*@lprobe*/
    if let Some(l) = dscan(edf_w_bw(tua, to_ots(otx)), limit) { lemma_edfx_exh_noseg(tua, dl, otx, limit, l); }
}
/// the three evaluator instances (what the postconditions of the real functions say, cf. spec_result in edf_floating.rs,
/// edf_lp.rs, edf_np.rs)
pub open spec fn edf_fl_spec(tua: spec_fn(int) -> int, dl: int, otx: Seq<OTX>, limit: int) -> Option<int> { edfx_spec(tua, dl, otx, 0, limit) }
pub open spec fn edf_lp_spec(c: int, last: int, na: spec_fn(int) -> int, dl: int, otx: Seq<OTX>, limit: int) -> Option<int> { edfx_spec(cn_fn(c, na), dl, otx, last - 1, limit) }
/// fully non-preemptive: every other task's segment is its whole WCET
pub open spec fn np_otx(cs: Seq<int>, nas: Seq<spec_fn(int) -> int>, dls: Seq<int>) -> Seq<OTX> { Seq::new(cs.len(), |i: int| OTX { f: cn_fn(cs[i], nas[i]), dl: dls[i], seg: cs[i] }) }
pub open spec fn edf_np_spec(c: int, na: spec_fn(int) -> int, dl: int, cs: Seq<int>, nas: Seq<spec_fn(int) -> int>, dls: Seq<int>, limit: int) -> Option<int> { edfx_spec(cn_fn(c, na), dl, np_otx(cs, nas, dls), c - 1, limit) }
/// C19: floating non-preemptive EDF = limited-preemptive EDF with last segment 1
pub proof fn lemma_c19_edf_floating_is_lp_last1(c: int, na: spec_fn(int) -> int, dl: int, otx: Seq<OTX>, limit: int)
    ensures edf_fl_spec(cn_fn(c, na), dl, otx, limit) == edf_lp_spec(c, 1, na, dl, otx, limit)
{ /*@lprobe*/}
/// C19: limited-preemptive EDF with last segment = WCET and every other segment = that task's WCET = non-preemptive EDF
pub proof fn lemma_c19_edf_lp_lastc_is_np(c: int, na: spec_fn(int) -> int, dl: int, cs: Seq<int>, nas: Seq<spec_fn(int) -> int>, dls: Seq<int>, otx: Seq<OTX>, limit: int)
    requires otx.len() == cs.len(), forall |i: int| 0 <= i < cs.len() ==> (#[trigger] otx[i]).f == cn_fn(cs[i], nas[i]) && otx[i].dl == dls[i] && otx[i].seg == cs[i]
    ensures edf_lp_spec(c, c, na, dl, otx, limit) == edf_np_spec(c, na, dl, cs, nas, dls, limit)
{ /*@lprobe*/ assert(otx =~= np_otx(cs, nas, dls)); }
/// C19: limited-preemptive EDF with last segment 1 and all other segments 1 = fully preemptive EDF
pub proof fn lemma_c19_edf_lp_last1_is_edf(c: int, na: spec_fn(int) -> int, dl: int, otx: Seq<OTX>, limit: int)
    requires forall |i: int| 0 <= i < otx.len() ==> (#[trigger] otx[i]).seg <= 1
    ensures edf_lp_spec(c, 1, na, dl, otx, limit) == edf_spec(cn_fn(c, na), dl, to_ots(otx), limit)
{ /*@lprobe*/ lemma_c19_edfx_noseg_is_edf(cn_fn(c, na), dl, otx, limit); }

// ------------------------------------------------------------------ C17: monotonicity of the EDF evaluators
pub proof fn lemma_max_sel_mono(n1: int, s1: spec_fn(int) -> bool, v1: spec_fn(int) -> int, n2: int, s2: spec_fn(int) -> bool, v2: spec_fn(int) -> int)
    requires 0 <= n1 <= n2, forall |i: int| 0 <= i < n1 && #[trigger] s1(i) ==> s2(i) && v1(i) <= v2(i)
    ensures max_sel(n1, s1, v1) <= max_sel(n2, s2, v2)
    decreases n2
{
    if n2 > n1 { lemma_max_sel_mono(n1, s1, v1, n2 - 1, s2, v2); }
    else if n1 > 0 { lemma_max_sel_mono(n1 - 1, s1, v1, n2 - 1, s2, v2); if s1(n1 - 1) { assert(s2(n1 - 1) && v1(n1 - 1) <= v2(n1 - 1)); } }
}
pub proof fn lemma_sum_idx_mono2(n1: int, g1: spec_fn(int) -> int, n2: int, g2: spec_fn(int) -> int)
    requires 0 <= n1 <= n2, forall |i: int| 0 <= i < n1 ==> 0 <= #[trigger] g1(i) <= g2(i), forall |i: int| 0 <= i < n2 ==> #[trigger] g2(i) >= 0
    ensures 0 <= sum_idx(n1, g1) <= sum_idx(n2, g2)
{
    lemma_sum_idx_mono(n1, g1, g2);
    lemma_sum_idx_prefix(n2, n1, g2);
}
/// "system 2 is at least as hard as system 1" for EDF: same deadlines; pointwise more own demand (also after removing the
/// remaining cost), more remaining cost; every other task of system 1 is present in system 2 with pointwise more demand and
/// a non-preemptive segment at least as long; system 2 may have additional tasks
pub open spec fn edf_harder(tua1: spec_fn(int) -> int, otx1: Seq<OTX>, rem1: int, tua2: spec_fn(int) -> int, otx2: Seq<OTX>, rem2: int) -> bool {
    &&& rem1 <= rem2 && otx1.len() <= otx2.len() && otx_wf(otx1) && otx_wf(otx2)
    &&& forall |x: int| x >= 1 ==> #[trigger] tua1(x) <= tua2(x)
    &&& forall |x: int| x >= 1 ==> #[trigger] tua1(x) - rem1 <= tua2(x) - rem2
    &&& forall |i: int| 0 <= i < otx1.len() ==> (#[trigger] otx1[i]).dl == otx2[i].dl && otx1[i].seg <= otx2[i].seg
    &&& forall |i: int, x: int| 0 <= i < otx1.len() && x >= 0 ==> #[trigger] (otx1[i].f)(x) <= (otx2[i].f)(x)
}
pub proof fn lemma_sum_f_harder(otx1: Seq<OTX>, otx2: Seq<OTX>, arg: spec_fn(int) -> int)
    requires otx1.len() <= otx2.len(), otx_wf(otx1), otx_wf(otx2), forall |t: int| #[trigger] arg(t) >= 0,
             forall |i: int| 0 <= i < otx1.len() ==> (#[trigger] otx1[i]).dl == otx2[i].dl,
             forall |i: int, x: int| 0 <= i < otx1.len() && x >= 0 ==> #[trigger] (otx1[i].f)(x) <= (otx2[i].f)(x)
    ensures 0 <= sum_f(to_ots(otx1), arg) <= sum_f(to_ots(otx2), arg)
{
    let g1 = ot_term(to_ots(otx1), arg); let g2 = ot_term(to_ots(otx2), arg);
    assert forall |i: int| 0 <= i < otx2.len() implies #[trigger] g2(i) >= 0 by { assert(rbf_like(otx2[i].f)); assert(arg(otx2[i].dl) >= 0); assert(0 <= 0 <= arg(otx2[i].dl)); assert((otx2[i].f)(0) <= (otx2[i].f)(arg(otx2[i].dl))); }
    assert forall |i: int| 0 <= i < otx1.len() implies 0 <= #[trigger] g1(i) <= g2(i) by {
        assert(rbf_like(otx1[i].f)); assert(otx1[i].dl == otx2[i].dl); let t = arg(otx1[i].dl); assert(t >= 0);
        assert((otx1[i].f)(0) <= (otx1[i].f)(t)); assert((otx1[i].f)(t) <= (otx2[i].f)(t));
    }
    lemma_sum_idx_mono2(otx1.len() as int, g1, otx2.len() as int, g2);
}
pub proof fn lemma_blk_harder(otx1: Seq<OTX>, otx2: Seq<OTX>, dl: int, a: int)
    requires otx1.len() <= otx2.len(),
             forall |i: int| 0 <= i < otx1.len() ==> (#[trigger] otx1[i]).dl == otx2[i].dl && otx1[i].seg <= otx2[i].seg,
             forall |i: int, x: int| 0 <= i < otx1.len() && x >= 0 ==> #[trigger] (otx1[i].f)(x) <= (otx2[i].f)(x)
    ensures blk(otx1, dl, a) <= blk(otx2, dl, a)
{
    assert forall |i: int| 0 <= i < otx1.len() && #[trigger] blk_sel(otx1, dl, a)(i) implies blk_sel(otx2, dl, a)(i) && blk_val(otx1)(i) <= blk_val(otx2)(i) by {
        assert(otx1[i].dl == otx2[i].dl && otx1[i].seg <= otx2[i].seg); assert((otx1[i].f)(1) <= (otx2[i].f)(1));
    }
    lemma_max_sel_mono(otx1.len() as int, blk_sel(otx1, dl, a), blk_val(otx1), otx2.len() as int, blk_sel(otx2, dl, a), blk_val(otx2));
}
pub proof fn lemma_edfx_exh_some_ge0(tua: spec_fn(int) -> int, dl: int, otx: Seq<OTX>, rem: int, limit: int, a: int)
    requires rem >= 0
    ensures edfx_exh(tua, dl, otx, rem, limit, a).is_some() ==> edfx_exh(tua, dl, otx, rem, limit, a).unwrap() >= 0
    decreases a
{ if a > 0 { lemma_edfx_exh_some_ge0(tua, dl, otx, rem, limit, a - 1); } }
pub proof fn lemma_edfx_exh_mono(tua1: spec_fn(int) -> int, otx1: Seq<OTX>, rem1: int, tua2: spec_fn(int) -> int, otx2: Seq<OTX>, rem2: int, dl: int, limit: int, a1: int, a2: int)
    requires 0 <= a1 <= a2, 0 <= rem1, edf_harder(tua1, otx1, rem1, tua2, otx2, rem2)
    ensures opt_le(edfx_exh(tua1, dl, otx1, rem1, limit, a1), edfx_exh(tua2, dl, otx2, rem2, limit, a2))
    decreases a2
{
    if a2 > 0 {
        lemma_edfx_exh_some_ge0(tua2, dl, otx2, rem2, limit, a2 - 1);
        if a1 == a2 {
            lemma_edfx_exh_mono(tua1, otx1, rem1, tua2, otx2, rem2, dl, limit, a1 - 1, a2 - 1);
            let a = a1 - 1;
            lemma_blk_harder(otx1, otx2, dl, a);
            assert forall |x: int| x >= 1 implies #[trigger] edfx_w_off(tua1, dl, otx1, rem1, a)(x) <= edfx_w_off(tua2, dl, otx2, rem2, a)(x) by {
                assert(tua1(a + 1) - rem1 <= tua2(a + 1) - rem2);
                lemma_sum_f_harder(otx1, otx2, arg_off(a, dl, x));
            }
            lemma_scan_mono(ded(), ded(), 0, edfx_w_off(tua1, dl, otx1, rem1, a), edfx_w_off(tua2, dl, otx2, rem2, a), limit);
        } else {
            lemma_edfx_exh_mono(tua1, otx1, rem1, tua2, otx2, rem2, dl, limit, a1, a2 - 1);
        }
    }
}
/// C17 (EDF with or without non-preemptive segments): a harder system never gets a smaller bound and never turns a
/// divergence error into Ok.  Covers: larger WCET / more jitter / shorter period of any task (pointwise larger request
/// bounds), longer non-preemptive segments (of the others: seg; of the task under analysis in the non-preemptive analysis:
/// rem together with its demand), added interfering tasks
pub proof fn lemma_c17_edfx_mono(tua1: spec_fn(int) -> int, otx1: Seq<OTX>, rem1: int, tua2: spec_fn(int) -> int, otx2: Seq<OTX>, rem2: int, dl: int, limit: int)
    requires 0 <= rem1, edf_harder(tua1, otx1, rem1, tua2, otx2, rem2)
    ensures opt_le(edfx_spec(tua1, dl, otx1, rem1, limit), edfx_spec(tua2, dl, otx2, rem2, limit))
{ /*@lprobe*/
    let w1 = edf_w_bw(tua1, to_ots(otx1)); let w2 = edf_w_bw(tua2, to_ots(otx2));
    assert forall |x: int| x >= 1 implies #[trigger] w1(x) <= w2(x) by { lemma_sum_f_harder(otx1, otx2, arg_bw(x)); assert(tua1(x) <= tua2(x)); }
    lemma_scan_mono(ded(), ded(), 0, w1, w2, limit);
    lemma_scan(ded(), 0, w1, 0, limit); lemma_scan(ded(), 0, w2, 0, limit);
    if let Some(l2) = dscan(w2, limit) {
        let l1 = dscan(w1, limit).unwrap();
        lemma_edfx_exh_mono(tua1, otx1, rem1, tua2, otx2, rem2, dl, limit, l1, l2);
    }
}
/// ... and for the fully preemptive EDF evaluator (it is the segment-free instance)
pub open spec fn with_seg1(ots: Seq<OT>) -> Seq<OTX> { Seq::new(ots.len(), |i: int| OTX { f: ots[i].f, dl: ots[i].dl, seg: 1 }) }
pub proof fn lemma_c17_edf_mono(tua1: spec_fn(int) -> int, ots1: Seq<OT>, tua2: spec_fn(int) -> int, ots2: Seq<OT>, dl: int, limit: int)
    requires edf_harder(tua1, with_seg1(ots1), 0, tua2, with_seg1(ots2), 0)
    ensures opt_le(edf_spec(tua1, dl, ots1, limit), edf_spec(tua2, dl, ots2, limit))
{ /*@lprobe*/
    lemma_c17_edfx_mono(tua1, with_seg1(ots1), 0, tua2, with_seg1(ots2), 0, dl, limit);
    lemma_c19_edfx_noseg_is_edf(tua1, dl, with_seg1(ots1), limit); lemma_c19_edfx_noseg_is_edf(tua2, dl, with_seg1(ots2), limit);
    assert(to_ots(with_seg1(ots1)) =~= ots1); assert(to_ots(with_seg1(ots2)) =~= ots2);
}
/// C17: increasing the divergence limit never changes an Ok result (EDF family)
pub proof fn lemma_edfx_exh_limit(tua: spec_fn(int) -> int, dl: int, otx: Seq<OTX>, rem: int, limit: int, limit2: int, a: int)
    requires limit <= limit2, edfx_exh(tua, dl, otx, rem, limit, a).is_some()
    ensures edfx_exh(tua, dl, otx, rem, limit2, a) == edfx_exh(tua, dl, otx, rem, limit, a)
    decreases a
{
    if a > 0 {
        lemma_edfx_exh_limit(tua, dl, otx, rem, limit, limit2, a - 1);
        lemma_scan_limit_independent(ded(), 0, edfx_w_off(tua, dl, otx, rem, a - 1), limit, limit2);
    }
}
pub proof fn lemma_c17_edfx_limit(tua: spec_fn(int) -> int, dl: int, otx: Seq<OTX>, rem: int, limit: int, limit2: int)
    requires limit <= limit2, edfx_spec(tua, dl, otx, rem, limit).is_some()
    ensures edfx_spec(tua, dl, otx, rem, limit2) == edfx_spec(tua, dl, otx, rem, limit)
{ /*@lprobe*/
    lemma_scan_limit_independent(ded(), 0, edf_w_bw(tua, to_ots(otx)), limit, limit2);
    lemma_edfx_exh_limit(tua, dl, otx, rem, limit, limit2, dscan(edf_w_bw(tua, to_ots(otx)), limit).unwrap());
}
pub proof fn lemma_edf_exh_limit(tua: spec_fn(int) -> int, dl: int, ots: Seq<OT>, limit: int, limit2: int, a: int)
    requires limit <= limit2, edf_exh(tua, dl, ots, limit, a).is_some()
    ensures edf_exh(tua, dl, ots, limit2, a) == edf_exh(tua, dl, ots, limit, a)
    decreases a
{
    if a > 0 {
        lemma_edf_exh_limit(tua, dl, ots, limit, limit2, a - 1);
        lemma_scan_limit_independent(ded(), 0, edf_w_off(tua, dl, ots, a - 1), limit, limit2);
    }
}
pub proof fn lemma_c17_edf_limit(tua: spec_fn(int) -> int, dl: int, ots: Seq<OT>, limit: int, limit2: int)
    requires limit <= limit2, edf_spec(tua, dl, ots, limit).is_some()
    ensures edf_spec(tua, dl, ots, limit2) == edf_spec(tua, dl, ots, limit)
{ /*@lprobe*/
    lemma_scan_limit_independent(ded(), 0, edf_w_bw(tua, ots), limit, limit2);
    lemma_edf_exh_limit(tua, dl, ots, limit, limit2, dscan(edf_w_bw(tua, ots), limit).unwrap());
}

// ------------------------------------------------------------------ C17: FIFO
pub proof fn lemma_fifo_exh_mono(rb1: spec_fn(int) -> int, rb2: spec_fn(int) -> int, a1: int, a2: int)
    requires 0 <= a1 <= a2, forall |x: int| x >= 1 ==> #[trigger] rb1(x) <= rb2(x)
    ensures 0 <= fifo_exh(rb1, a1) <= fifo_exh(rb2, a2)
    decreases a2
{
    if a2 > 0 {
        if a1 == a2 { lemma_fifo_exh_mono(rb1, rb2, a1 - 1, a2 - 1); assert(rb1(a1 - 1 + 1) <= rb2(a1 - 1 + 1)); }
        else { lemma_fifo_exh_mono(rb1, rb2, a1, a2 - 1); }
    }
}
/// C17 (FIFO): a pointwise larger total request bound (larger WCET, more jitter, shorter period, added task) never
/// decreases the bound and never turns a divergence error into Ok; raising the limit never changes an Ok result
pub proof fn lemma_c17_fifo_mono(rb1: spec_fn(int) -> int, rb2: spec_fn(int) -> int, limit: int)
    requires forall |x: int| x >= 1 ==> #[trigger] rb1(x) <= rb2(x)
    ensures opt_le(fifo_spec(rb1, limit), fifo_spec(rb2, limit))
{ /*@lprobe*/
    assert forall |x: int| x >= 1 implies #[trigger] w_fifo(rb1)(x) <= w_fifo(rb2)(x) by { assert(rb1(x) <= rb2(x)); }
    lemma_scan_mono(ded(), ded(), 0, w_fifo(rb1), w_fifo(rb2), limit);
    lemma_scan(ded(), 0, w_fifo(rb1), 0, limit); lemma_scan(ded(), 0, w_fifo(rb2), 0, limit);
    if let Some(l2) = dscan(w_fifo(rb2), limit) { lemma_fifo_exh_mono(rb1, rb2, dscan(w_fifo(rb1), limit).unwrap(), l2); }
}
pub proof fn lemma_c17_fifo_limit(rb: spec_fn(int) -> int, limit: int, limit2: int)
    requires limit <= limit2, fifo_spec(rb, limit).is_some()
    ensures fifo_spec(rb, limit2) == fifo_spec(rb, limit)
{ /*@lprobe*/ lemma_scan_limit_independent(ded(), 0, w_fifo(rb), limit, limit2); }

} // verus!
