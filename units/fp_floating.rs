// unit part: src/fixed_priority/floating_nonpreemptive.rs (C06)
verus! {



use vstd::prelude::*;

/// the observation of the step stream covers every offset the search can reach
pub open spec fn pre_steps<A: RequestSteps + ?Sized>(tua: &TaskUnderAnalysis<A>, limit: int, n: int) -> bool { tua.rbf.rsteps_ok(n) && tua.rbf.rsteps_hz(n) >= limit }
pub open spec fn pre<A: RequestBound + ?Sized, B: RequestBound>(tua: &TaskUnderAnalysis<A>, hp: Seq<B>, limit: int) -> bool {
    &&& 1 <= limit < u64::MAX                 // limit 0: known finding KF7
    &&& tua.rbf.wf() && all_rb_wf(hp)
    &&& tua.rbf.rbf(1) >= 1                       // a job can arrive and has positive cost (else pruned and exhaustive search spaces differ trivially)
    &&& forall |d: int| 0 <= d <= limit + 1 ==> #[trigger] tua.rbf.rb_ok(d)
    &&& forall |d: int| 0 <= d <= limit ==> #[trigger] all_rb_ok(hp, d)
    &&& tua.blocking_bound.v() + sum_rbf(hp, limit) + tua.rbf.rbf(limit + 1) <= u64::MAX
}
/// C06 for floating non-preemptive FP: blocking bound b, remaining cost 0 (run-to-completion threshold = WCET)
pub open spec fn spec_result<A: RequestBound + ?Sized, B: RequestBound>(tua: &TaskUnderAnalysis<A>, hp: Seq<B>, limit: int) -> Option<int> {
    fl_spec(rbf_fn(tua.rbf), hp_fn(hp), tua.blocking_bound.v(), limit)
}

//@item src/fixed_priority/floating_nonpreemptive.rs :: struct TaskUnderAnalysis
pub struct TaskUnderAnalysis<'a, RBF: RequestBound + ?Sized> {
    /// The RBF upper-bounding the task's demand.
    pub rbf: &'a RBF,

    /// The `blocking_bound` must be a bound on the maximum priority
    /// inversion caused by tasks of lower priority, which corresponds
    /// to the maximum non-preemptive segment of any lower-priority
    /// task.
    pub blocking_bound: Service,
}
//@end

//@item src/fixed_priority/floating_nonpreemptive.rs :: fn dedicated_uniproc_rta
pub fn dedicated_uniproc_rta<RBF, InterferingRBF>(
    tua: &TaskUnderAnalysis<RBF>,
    interfering_tasks: &[InterferingRBF],
    limit: Duration,
/*+*/vf_n: usize,/*-*/
) -> /*+*/(res: /*-*/fixed_point::SearchResult/*+*/)/*-*/
where
    InterferingRBF: RequestBound,
    RBF: /*@R22: RequestBound @*/RequestSteps/*@.*/ + ?Sized,
//@+
    requires pre(tua, interfering_tasks@, limit.v()), pre_steps(tua, limit.v(), vf_n as int)
    ensures res_view(res) == spec_result(tua, interfering_tasks@, limit.v())
//@-
{
//@+
    let ghost tf = rbf_fn(tua.rbf);
    let ghost hf = hp_fn(interfering_tasks@);
    proof {
        lemma_rbf_fn_like(tua.rbf); lemma_hp_fn_like(interfering_tasks@);
        lemma_w_mono(tf, hf, tua.blocking_bound.v(), 0, 0);
        lemma_ded_is_dedicated();
    }
//@-
    // This analysis is specific to dedicated uniprocessors.
    let proc = supply::Dedicated::new();

    // First, bound the maximum possible busy-window length.
    let L = fixed_point::search(&proc, limit, |L/*+*/: Duration/*-*/| /*+*/-> (r: Service)
        requires 1 <= L.v() <= limit.v(), pre(tua, interfering_tasks@, limit.v())
        ensures r.v() == w_bw(rbf_fn(tua.rbf), hp_fn(interfering_tasks@), tua.blocking_bound.v())(L.v())
    /*-*/{ /*@probe*/
//@+
        proof {
            tua.rbf.rbf_props();
            lemma_sum_rbf_mono(interfering_tasks@, L.v(), limit.v());
            assert(all_rb_ok(interfering_tasks@, L.v()));
            assert forall |i: int| 0 <= i < interfering_tasks@.len() implies (|t: InterferingRBF| t.rbf(L.v()))(#[trigger] interfering_tasks@[i]) >= 0 by { interfering_tasks@[i].rbf_props(); }
        }
//@-
        let interference_bound: Service = /*@R1: interfering_tasks
            .iter()
            .map( @*/vf_sum_service(interfering_tasks, /*@.*/|rbf/*+*/: &InterferingRBF/*-*/| /*+*/-> (r: Service) requires rbf.wf(), rbf.rb_ok(L.v()) ensures r.v() == rbf.rbf(L.v()) { /*-*/rbf.service_needed(L)/*+*/ }/*-*//*@R1: )
            .sum() @*/, Ghost(|t: InterferingRBF| t.rbf(L.v())))/*@.*/;
//@+
        proof { tua.rbf.rbf_props(); assert(tua.rbf.rbf(L.v()) <= tua.rbf.rbf(limit.v() + 1)); assert(tua.rbf.rb_ok(L.v())); }
//@-
        tua.blocking_bound + interference_bound + tua.rbf.service_needed(L)
    })?;
//@+
    proof { lemma_scan(ded(), 0, w_bw(tf, hf, tua.blocking_bound.v()), 0, limit.v()); }
//@-

    // Second, define the RTA for a given offset A.
    let rta = |A: Offset| /*+*/-> (r: fixed_point::SearchResult)
        requires A.v() < L.v() <= limit.v(), is_step(rbf_fn(tua.rbf), A.v()), pre(tua, interfering_tasks@, limit.v()),
                 dscan(w_bw(rbf_fn(tua.rbf), hp_fn(interfering_tasks@), tua.blocking_bound.v()), limit.v()) == Some(L.v())
        ensures res_view(r) == f_off(rbf_fn(tua.rbf), hp_fn(interfering_tasks@), tua.blocking_bound.v(), 0, limit.v(), A.v())
    /*-*/{ /*@probe*/
        // Define the RHS of the equation in theorem 31 of the aRTA paper,
        // where AF = A + F.
        let rhs = |AF: Duration| /*+*/-> (r: Service)
            requires 1 <= AF.v() <= limit.v(), A.v() < limit.v(), pre(tua, interfering_tasks@, limit.v())
            ensures r.v() == w_off(rbf_fn(tua.rbf), hp_fn(interfering_tasks@), tua.blocking_bound.v(), 0, A.v())(AF.v())
        /*-*/{ /*@probe*/
//@+
            proof { tua.rbf.rbf_props(); lemma_sum_rbf_mono(interfering_tasks@, limit.v(), limit.v()); assert(tua.rbf.rbf(A.v() + 1) <= tua.rbf.rbf(limit.v() + 1)); assert(tua.rbf.rb_ok(A.v() + 1)); }
//@-
            // demand of the task under analysis
            let tua_demand = tua.rbf.service_needed(A.closed_since_time_zero());

//@+
            proof {
                lemma_sum_rbf_mono(interfering_tasks@, AF.v(), limit.v());
                assert(all_rb_ok(interfering_tasks@, AF.v()));
                assert forall |i: int| 0 <= i < interfering_tasks@.len() implies (|t: InterferingRBF| t.rbf(AF.v()))(#[trigger] interfering_tasks@[i]) >= 0 by { interfering_tasks@[i].rbf_props(); }
            }
//@-
            // demand of all interfering tasks
            let interfering_demand = /*@R1: interfering_tasks
                .iter()
                .map( @*/vf_sum_service(interfering_tasks, /*@.*/|rbf/*+*/: &InterferingRBF/*-*/| /*+*/-> (r: Service) requires rbf.wf(), rbf.rb_ok(AF.v()) ensures r.v() == rbf.rbf(AF.v()) { /*-*/rbf.service_needed(AF)/*+*/ }/*-*//*@R1: )
                .sum() @*/, Ghost(|t: InterferingRBF| t.rbf(AF.v())))/*@.*/;

            // considering `blocking_bound` to account for priority inversion
            tua.blocking_bound + tua_demand + interfering_demand
        };

//@+
        proof {
            lemma_rbf_fn_like(tua.rbf); lemma_hp_fn_like(interfering_tasks@);
            lemma_w_mono(rbf_fn(tua.rbf), hp_fn(interfering_tasks@), tua.blocking_bound.v(), 0, A.v());
            lemma_ded_is_dedicated();
            assert(proc == (Dedicated {}));
            assert(clo_is(&rhs, w_off(rbf_fn(tua.rbf), hp_fn(interfering_tasks@), tua.blocking_bound.v(), 0, A.v())));
            lemma_scan(ded(), 0, w_off(rbf_fn(tua.rbf), hp_fn(interfering_tasks@), tua.blocking_bound.v(), 0, A.v()), 0, limit.v());
            if dscan(w_off(rbf_fn(tua.rbf), hp_fn(interfering_tasks@), tua.blocking_bound.v(), 0, A.v()), limit.v()).is_some() {
                lemma_af_ge_a(rbf_fn(tua.rbf), hp_fn(interfering_tasks@), tua.blocking_bound.v(), 0, limit.v(), L.v(), A.v());
            }
        }
//@-
        // Find the solution A+F that is the least fixed point.
        let AF = fixed_point::search(&proc, limit, rhs)?;
//@+
//@-
        // Extract the corresponding bound.
        let F = AF - A.since_time_zero();
        Ok(F)
    };

    // Third, define the search space. The search space is given by
    // A=0 and each step below L of the task under analysis's RBF.
    // The case of A=0 is not handled explicitly since `step_offsets()`
    // necessarily yields it.
    let max_offset = Offset::from_time_zero(L);
//@+
    let ghost hz = tua.rbf.rsteps_hz(vf_n as int);
//@-
//@+
    proof { assert(L.v() <= limit.v()); }
//@-
    let search_space = demand::step_offsets(tua.rbf/*+*/, vf_n/*-*/).take_while(|A/*+*/: &Offset/*-*/| /*+*/-> (r: bool) ensures r == (A.v() < max_offset.v()) { /*@probe*/ /*-*/*A < max_offset/*+*/ }, Ghost(|A: Offset| A.v() < max_offset.v())/*-*/);
//@+
    let ghost ss = search_space.0@;
    let ghost mx = max_offset.v();
    // the stream that take_while consumed (an unnamed temporary of the expression above)
    let ghost offs: Seq<Offset> = choose |o: Seq<Offset>| #[trigger] offsets_exact(o, tf, hz) && tw_of(ss, o, mx);
    proof {
        assert(exists |o: Seq<Offset>| #[trigger] offsets_exact(o, tf, hz) && tw_of(ss, o, mx));
        assert forall |i: int| 0 <= i < search_space.0@.len() implies #[trigger] rta.requires((search_space.0@[i],)) by {
            assert(search_space.0@[i] == offs[i]);
            assert(off_has(offs, offs[i].v()));
        }
    }
//@-

    // Apply the offset-specific RTA to each offset in the search space and
    // return the maximum response-time bound.
    /*@R21: fixed_point::max_response_time(search_space.map(rta)) @*/let vf_rs = search_space.map_rel(rta);
    let vf_res = fixed_point::max_response_time(vf_rs.as_slice());
    proof {
        let g = |x: int| f_off(tf, hf, tua.blocking_bound.v(), 0, limit.v(), x);
        lemma_tail_fold(offs, tf, hz, mx, ss, vf_rs.0@, g, vf_res);
        lemma_prune(tf, hf, tua.blocking_bound.v(), 0, limit.v(), L.v());
    }
    vf_res/*@.*/
}
//@end



} // verus!
