// unit part: arrival::ExtrapolatingCurve (C13: the cache is invisible).
// R17: the shared cell Rc<RefCell<Curve>> is an explicit Curve owned by the object and the methods take &mut self;
// what is thereby ASSUMED is the reading of RefCell (single-threaded, no borrow live across a call: every borrow is
// dropped before the method returns and nothing called in between calls back into the object).
verus! {

/// representation invariant: the cached state is a canonical extension of the ghost initial prefix c0
pub open spec fn canon(c0: Seq<Duration>, cur: Seq<Duration>) -> bool {
    &&& c0.len() >= 1 && nondecr(c0) && dm(c0, c0.len() - 1) >= 1
    &&& (c0.len() >= 2 ==> dm(c0, 0) >= 1)
    &&& extends_d(c0, cur) && nondecr(cur)
    &&& (c0.len() < 2 ==> cur =~= c0)
}
/// two canonical extensions of the same prefix agree on their common length (the extension is unique)
pub proof fn lemma_canon_comparable(c0: Seq<Duration>, p: Seq<Duration>, q: Seq<Duration>, k: int)
    requires extends_d(c0, p), extends_d(c0, q), p.len() <= q.len(), 0 <= k <= p.len()
    ensures p.subrange(0, k) =~= q.subrange(0, k)
    decreases k
{
    if k > 0 {
        lemma_canon_comparable(c0, p, q, k - 1);
        if k - 1 < c0.len() {
            assert(p.subrange(0, c0.len() as int)[k - 1] == c0[k - 1]);
            assert(q.subrange(0, c0.len() as int)[k - 1] == c0[k - 1]);
        } else {
            assert(dm(p, k - 1) == ext_next_d(p.subrange(0, k - 1)));
            assert(dm(q, k - 1) == ext_next_d(q.subrange(0, k - 1)));
            assert(p[k - 1].val == q[k - 1].val);
        }
        assert forall |i: int| 0 <= i < k implies p.subrange(0, k)[i] == q.subrange(0, k)[i] by {
            if i < k - 1 { assert(p.subrange(0, k - 1)[i] == q.subrange(0, k - 1)[i]); }
        }
    }
}
pub proof fn lemma_count_lt_prefix(p: Seq<Duration>, q: Seq<Duration>, n: int, x: int)
    requires p.len() <= q.len(), q.subrange(0, p.len() as int) =~= p, 0 <= n <= p.len()
    ensures count_lt(q, n, x) == count_lt(p, n, x)
    decreases n
{
    if n > 0 { lemma_count_lt_prefix(p, q, n - 1, x); assert(q.subrange(0, p.len() as int)[n - 1] == p[n - 1]); }
}
pub proof fn lemma_count_lt_tail(q: Seq<Duration>, lo: int, n: int, x: int)
    requires 0 <= lo <= n <= q.len(), forall |i: int| lo <= i < n ==> dm(q, i) >= x
    ensures count_lt(q, n, x) == count_lt(q, lo, x)
    decreases n
{
    if n > lo { lemma_count_lt_tail(q, lo, n - 1, x); }
}
/// C13: the answer to a query depends only on the initial prefix and the query, not on how far the cache has grown
pub proof fn lemma_cache_invisible(c0: Seq<Duration>, p: Seq<Duration>, q: Seq<Duration>, delta: int)
    requires canon(c0, p), canon(c0, q), delta >= 1, dm(p, p.len() - 1) > delta, dm(q, q.len() - 1) > delta
    ensures eta(p, delta) == eta(q, delta), na_curve(p, delta) == eta(p, delta), na_curve(q, delta) == eta(q, delta)
{
    if p.len() <= q.len() { lemma_cache_invisible_ord(c0, p, q, delta); } else { lemma_cache_invisible_ord(c0, q, p, delta); }
    lemma_small_mod(delta as nat, dm(p, p.len() - 1) as nat); lemma_basic_div(delta, dm(p, p.len() - 1));
    lemma_small_mod(delta as nat, dm(q, q.len() - 1) as nat); lemma_basic_div(delta, dm(q, q.len() - 1));
    assert((delta / dm(p, p.len() - 1)) * p.len() == 0) by { lemma_mul_basics(p.len() as int); }
    assert((delta / dm(q, q.len() - 1)) * q.len() == 0) by { lemma_mul_basics(q.len() as int); }
}
pub proof fn lemma_cache_invisible_ord(c0: Seq<Duration>, p: Seq<Duration>, q: Seq<Duration>, delta: int)
    requires canon(c0, p), canon(c0, q), p.len() <= q.len(), delta >= 1, dm(p, p.len() - 1) > delta
    ensures eta(p, delta) == eta(q, delta)
{
    lemma_canon_comparable(c0, p, q, p.len() as int);
    assert(p.subrange(0, p.len() as int) =~= p);
    lemma_count_lt_prefix(p, q, p.len() as int, delta);
    // entries of q beyond p are at least p's last entry > delta
    assert forall |i: int| p.len() <= i < q.len() implies dm(q, i) >= delta by {
        assert(q.subrange(0, p.len() as int)[p.len() - 1] == p[p.len() - 1]);
        assert(dm(q, p.len() - 1) <= dm(q, i));
    }
    lemma_count_lt_tail(q, p.len() as int, q.len() as int, delta);
}

//@item src/arrival/curve.rs :: struct ExtrapolatingCurve
pub struct ExtrapolatingCurve {
    /*+*/pub /*-*/prefix: /*@R17: Rc<RefCell<Curve>> @*/Curve/*@.*/,
}
//@end

impl ExtrapolatingCurve {
//@item src/arrival/curve.rs :: impl ExtrapolatingCurve / fn new
    pub fn new(curve: Curve) -> /*+*/(r: /*-*/Self/*+*/) ensures r.prefix == curve/*-*/ {
        ExtrapolatingCurve {
            prefix: /*@R17: Rc::new(RefCell::new(curve)) @*/curve/*@.*/,
        }
    }
//@end

//@item src/arrival/curve.rs :: impl ArrivalBound for ExtrapolatingCurve / fn number_arrivals
    fn number_arrivals(/*@R17: &self @*/&mut self/*@.*/, delta: Duration) -> /*+*/(r: /*-*/usize/*+*/)
        requires
            exists |c0: Seq<Duration>| canon(c0, old(self).prefix.min_distance@),
            2 * (delta.v() + 1) <= u64::MAX, old(self).prefix.min_distance@.len() + delta.v() + 2 < 0x1_0000_0000,
        ensures
            // the representation invariant is kept for EVERY initial prefix the old state is canonical for,
            forall |c0: Seq<Duration>| canon(c0, old(self).prefix.min_distance@) ==> #[trigger] canon(c0, final(self).prefix.min_distance@),
            // the old state is a prefix of the new one (the cache only grows),
            extends_d(old(self).prefix.min_distance@, final(self).prefix.min_distance@),
            // and the answer is the arrival curve of the (sufficiently extended) state: by lemma_cache_invisible it is a
            // function of the initial prefix and delta only -- independent of query history and of which clone was asked
            r == na_curve(final(self).prefix.min_distance@, delta.v()),
            delta.v() >= 1 && old(self).prefix.min_distance@.len() >= 2 ==> dm(final(self).prefix.min_distance@, final(self).prefix.min_distance@.len() - 1) > delta.v(),
            delta.v() == 0 ==> r == 0 && final(self).prefix == old(self).prefix,
    /*-*/{
        if delta.is_zero() {
            // special case: delta=0 always yields 0
            0
        } else {
            // extrapolate up to the requested duration
//@+
            let ghost d_old = self.prefix.min_distance@;
//@-
            let /*@R17: mut curve = self.prefix.borrow_mut() @*/curve = &mut self.prefix/*@.*/;
//@+
            proof {
                let c0 = choose |c0: Seq<Duration>| canon(c0, d_old);
                assert(dm(d_old, d_old.len() - 1) >= 1) by { assert(d_old.subrange(0, c0.len() as int)[c0.len() - 1] == c0[c0.len() - 1]); assert(dm(d_old, c0.len() - 1) <= dm(d_old, d_old.len() - 1)); }
                if d_old.len() >= 2 { assert(dm(d_old, 0) >= 1) by { if c0.len() >= 2 { assert(d_old.subrange(0, c0.len() as int)[0] == c0[0]); } } }
            }
//@-
            curve.extrapolate(delta + Duration::from(1));
//@+
            proof {
                let d_new = curve.min_distance@;
                assert(dm(d_new, d_new.len() - 1) >= 1) by { assert(d_new.subrange(0, d_old.len() as int)[d_old.len() - 1] == d_old[d_old.len() - 1]); assert(dm(d_new, d_old.len() - 1) <= dm(d_new, d_new.len() - 1)); }
                assert forall |c0: Seq<Duration>| canon(c0, d_old) implies #[trigger] canon(c0, d_new) by { lemma_extends_trans(c0, d_old, d_new); }
                assert(d_new.len() <= d_old.len() + delta.v() + 1);
                assert(dmin_wf(d_new));
                if d_old.len() >= 2 {
                    lemma_small_mod(delta.v() as nat, dm(d_new, d_new.len() - 1) as nat); lemma_basic_div(delta.v(), dm(d_new, d_new.len() - 1));
                    assert((delta.v() / dm(d_new, d_new.len() - 1)) * d_new.len() == 0) by { lemma_mul_basics(d_new.len() as int); }
                    lemma_eta_le_len(d_new, delta.v() % dm(d_new, d_new.len() - 1));
                } else {
                    // degenerate single-entry prefix: plain repetition, at most delta + 1 arrivals
                    assert(d_new =~= d_old);
                    lemma_na_single(d_new, delta.v());
                }
            }
//@-
            curve.number_arrivals(delta)
        }
    }
//@end
}

pub proof fn lemma_extends_trans(c0: Seq<Duration>, mid: Seq<Duration>, cur: Seq<Duration>)
    requires extends_d(c0, mid), extends_d(mid, cur)
    ensures extends_d(c0, cur)
{
    assert(cur.subrange(0, c0.len() as int) =~= mid.subrange(0, c0.len() as int)) by {
        assert forall |i: int| 0 <= i < c0.len() implies cur.subrange(0, c0.len() as int)[i] == mid.subrange(0, c0.len() as int)[i] by { assert(cur.subrange(0, mid.len() as int)[i] == mid[i]); }
    }
    assert forall |m: int| c0.len() <= m < cur.len() implies #[trigger] dm(cur, m) == ext_next_d(cur.subrange(0, m)) by {
        if m < mid.len() {
            assert(cur.subrange(0, mid.len() as int)[m] == mid[m]);
            assert(cur.subrange(0, m) =~= mid.subrange(0, m)) by {
                assert forall |i: int| 0 <= i < m implies cur.subrange(0, m)[i] == mid.subrange(0, m)[i] by { assert(cur.subrange(0, mid.len() as int)[i] == mid[i]); }
            }
            assert(dm(mid, m) == ext_next_d(mid.subrange(0, m)));
        }
    }
}
pub proof fn lemma_na_single(d: Seq<Duration>, delta: int)
    requires d.len() == 1, dm(d, 0) >= 1, delta >= 1
    ensures 0 <= na_curve(d, delta) <= delta + 1
{
    let big = dm(d, 0);
    lemma_fundamental_div_mod(delta, big); lemma_mod_bound(delta, big); lemma_div_pos_is_pos(delta, big);
    lemma_eta_le_len(d, delta % big);
    assert((delta / big) * 1 == delta / big);
    assert(delta / big <= delta) by { lemma_div_is_ordered_by_denominator(delta, 1, big); lemma_div_basics(delta); }
}

} // verus!
