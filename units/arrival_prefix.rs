// unit part: src/arrival/arrival_curve_prefix.rs  (C10 / C12 / C20)
// rules: R2 (for over &Vec -> index loop), R6 (assert!), R13 (pub fields), R20 (enumerate/skip_while/map/next and
// last().map().unwrap_or() as verified index code).  from_arrival_bound_until, steps_iter and the From impls are
// iterator code and stay outside Verus (bounded stand-ins: Kani steps_arrival_curve_prefix*, mirror:steps).
verus! {

//@item src/arrival/arrival_curve_prefix.rs :: type Step
type Step = (Duration, usize);
//@end

//@item src/arrival/arrival_curve_prefix.rs :: struct ArrivalCurvePrefix
pub struct ArrivalCurvePrefix {
    /*+*/pub /*-*/horizon: Duration,
    /*+*/pub /*-*/steps: Vec<Step>,
}
//@end

pub open spec fn st_d(s: Seq<Step>, i: int) -> int { s[i].0.v() }
pub open spec fn st_n(s: Seq<Step>, i: int) -> int { s[i].1 as int }
/// what `new` asserts (every step within the horizon, job counts strictly increasing from >= 1) ...
pub open spec fn acp_new_ok(h: int, s: Seq<Step>) -> bool {
    &&& forall |i: int| 0 <= i < s.len() ==> #[trigger] st_d(s, i) <= h
    &&& forall |i: int, j: int| 0 <= i < j < s.len() ==> #[trigger] st_n(s, i) < #[trigger] st_n(s, j)
    &&& (s.len() > 0 ==> st_n(s, 0) >= 1)
}
/// ... and what the queries additionally rely on: a positive horizon and strictly increasing step positions
/// (a realisable arrival curve that has any arrivals steps at delta = 1: not required here, the lookup is 0 before the first step)
pub open spec fn acp_wf(h: int, s: Seq<Step>) -> bool {
    &&& h >= 1 && acp_new_ok(h, s)
    &&& forall |i: int, j: int| 0 <= i < j < s.len() ==> #[trigger] st_d(s, i) < #[trigger] st_d(s, j)
}
/// number of steps among the first n that lie at or before x
pub open spec fn cnt_le(s: Seq<Step>, n: int, x: int) -> int decreases n { if n <= 0 { 0 } else { cnt_le(s, n - 1, x) + if st_d(s, n - 1) <= x { 1int } else { 0 } } }
/// job count of the last step at or before x (0 before the first step and for the empty window)
pub open spec fn lk(s: Seq<Step>, x: int) -> int { if x == 0 { 0 } else { let k = cnt_le(s, s.len() as int, x); if k == 0 { 0 } else { st_n(s, k - 1) } } }
pub open spec fn acp_max(s: Seq<Step>) -> int { if s.len() == 0 { 0 } else { st_n(s, s.len() - 1) } }
/// C10/C12: whole horizons repeat the prefix
pub open spec fn na_acp(h: int, s: Seq<Step>, delta: int) -> int { acp_max(s) * (delta / h) + lk(s, delta % h) }

pub proof fn lemma_cnt_le_bounds(s: Seq<Step>, n: int, x: int)
    requires 0 <= n <= s.len()
    ensures 0 <= cnt_le(s, n, x) <= n
    decreases n
{ if n > 0 { lemma_cnt_le_bounds(s, n - 1, x); } }
/// sorted positions: the count is the first index whose position exceeds x
pub proof fn lemma_cnt_le_sorted(s: Seq<Step>, n: int, x: int, k: int)
    requires 0 <= k <= n <= s.len(), forall |i: int, j: int| 0 <= i < j < s.len() ==> #[trigger] st_d(s, i) < #[trigger] st_d(s, j),
             forall |i: int| 0 <= i < k ==> #[trigger] st_d(s, i) <= x, k < n ==> st_d(s, k) > x
    ensures cnt_le(s, n, x) == k
    decreases n
{
    if n > 0 {
        if k == n { lemma_cnt_le_sorted(s, n - 1, x, k - 1); assert(st_d(s, n - 1) <= x); }
        else { lemma_cnt_le_sorted(s, n - 1, x, k); if k < n - 1 { assert(st_d(s, k) < st_d(s, n - 1)); } }
    }
}
pub proof fn lemma_cnt_le_mono(s: Seq<Step>, n: int, x: int, y: int)
    requires x <= y, 0 <= n <= s.len()
    ensures cnt_le(s, n, x) <= cnt_le(s, n, y)
    decreases n
{ if n > 0 { lemma_cnt_le_mono(s, n - 1, x, y); } }
pub proof fn lemma_lk_props(h: int, s: Seq<Step>, x: int, y: int)
    requires acp_wf(h, s), 0 <= x <= y
    ensures 0 <= lk(s, x) <= lk(s, y) <= acp_max(s)
{
    let n = s.len() as int;
    lemma_cnt_le_bounds(s, n, x); lemma_cnt_le_bounds(s, n, y); lemma_cnt_le_mono(s, n, x, y);
    let kx = cnt_le(s, n, x); let ky = cnt_le(s, n, y);
    if n > 0 {
        assert(st_n(s, 0) >= 1);
        assert forall |i: int| 0 <= i < n implies 1 <= #[trigger] st_n(s, i) <= st_n(s, n - 1) by { if i > 0 { assert(st_n(s, 0) < st_n(s, i)); } if i < n - 1 { assert(st_n(s, i) < st_n(s, n - 1)); } }
        if kx > 0 && ky > 0 && kx < ky { assert(st_n(s, kx - 1) < st_n(s, ky - 1)); }
    }
}
/// C10: number_arrivals(0) = 0 and non-decreasing
pub proof fn lemma_na_acp_mono(h: int, s: Seq<Step>, a: int, b: int)
    requires acp_wf(h, s), 0 <= a <= b
    ensures 0 <= na_acp(h, s, a) <= na_acp(h, s, b), na_acp(h, s, 0) == 0
{
    let m = acp_max(s);
    lemma_lk_props(h, s, 0, 0);
    assert(m >= 0);
    lemma_fundamental_div_mod(a, h); lemma_fundamental_div_mod(b, h); lemma_mod_bound(a, h); lemma_mod_bound(b, h);
    lemma_div_is_ordered(a, b, h); lemma_div_pos_is_pos(a, h);
    lemma_lk_props(h, s, a % h, a % h); lemma_lk_props(h, s, b % h, b % h);
    lemma_mul_nonnegative(m, a / h);
    if a / h == b / h {
        assert(a % h <= b % h) by { lemma_mul_is_commutative(h, a / h); lemma_mul_is_commutative(h, b / h); }
        lemma_lk_props(h, s, a % h, b % h);
    } else {
        // at least one more whole horizon: that alone outweighs any partial lookup
        lemma_mul_inequality(a / h + 1, b / h, m); lemma_mul_is_commutative(m, a / h + 1); lemma_mul_is_commutative(m, b / h);
        lemma_mul_is_distributive_add(m, a / h, 1);
    }
    assert(0int / h == 0 && 0int % h == 0) by { lemma_div_basics(h); lemma_small_mod(0, h as nat); }
    assert(m * 0 == 0) by { lemma_mul_basics(m); }
}

// A step-based implementation of an eta-max curve (i.e., arrival curve).
impl ArrivalCurvePrefix {
//@item src/arrival/arrival_curve_prefix.rs :: impl ArrivalCurvePrefix / fn new
    pub fn new(horizon: Duration, steps: Vec<Step>) -> /*+*/(r: /*-*/ArrivalCurvePrefix/*+*/)
        requires acp_new_ok(horizon.v(), steps@)
        ensures r.horizon == horizon, r.steps@ == steps@/*-*/
    {
        // make sure the prefix is well-formed
        let mut last_njobs: usize = 0;
        /*@R2: for (delta, njobs) in &steps @*/let mut vf_i: usize = 0;
        while vf_i < steps.len()
            invariant vf_i <= steps.len(), acp_new_ok(horizon.v(), steps@), vf_i == 0 ==> last_njobs == 0, vf_i > 0 ==> last_njobs == st_n(steps@, vf_i - 1),
            decreases steps.len() - vf_i
        /*@.*/{/*+*/
            let delta = &steps[vf_i].0; let njobs = &steps[vf_i].1;
            proof { assert(st_d(steps@, vf_i as int) <= horizon.v()); if vf_i > 0 { assert(st_n(steps@, vf_i - 1) < st_n(steps@, vf_i as int)); } else { assert(st_n(steps@, 0) >= 1); } }/*-*/
            /*@R6: assert! @*/vf_assert/*@.*/(*delta <= horizon);
            /*@R6: assert! @*/vf_assert/*@.*/(last_njobs < *njobs);
            last_njobs = *njobs;/*+*/
            vf_i += 1;/*-*/
        }
        ArrivalCurvePrefix { horizon, steps }
    }
//@end

//@item src/arrival/arrival_curve_prefix.rs :: impl ArrivalCurvePrefix / fn max_njobs_in_horizon
    fn max_njobs_in_horizon(&self) -> /*+*/(r: /*-*/usize/*+*/)
        ensures r == acp_max(self.steps@)/*-*/
    {
        /*@R20: self.steps.last().map(|(_, njobs)| *njobs).unwrap_or(0) @*/if self.steps.len() == 0 { 0 } else { self.steps[self.steps.len() - 1].1 }/*@.*/
    }
//@end

//@item src/arrival/arrival_curve_prefix.rs :: impl ArrivalCurvePrefix / fn lookup
    fn lookup(&self, delta: Duration) -> /*+*/(r: /*-*/usize/*+*/)
        requires acp_wf(self.horizon.v(), self.steps@), delta.v() <= self.horizon.v()
        ensures r == lk(self.steps@, delta.v())/*-*/
    {
        /*@R6: assert! @*/vf_assert/*@.*/(delta <= self.horizon);
        if delta.is_zero() {
            0
        } else {
            let step = /*@R20: self
                .steps
                .iter()
                .enumerate()
                .skip_while(|(_i, (min_distance, _njobs))| @*/vf_first_index_not(&self.steps, |vf_x: &Step| -> (b: bool) ensures b == (vf_x.0.v() <= delta.v()) { let min_distance = &vf_x.0; /*@.*/*min_distance <= delta/*@R20: )
                .map(|(i, _)| i)
                .next() @*/ }, Ghost(step_le(self.steps@, delta.v())))/*@.*/;
            let i = step.unwrap_or(self.steps.len());
//@+
            proof {
                assert forall |k: int| 0 <= k < i implies #[trigger] st_d(self.steps@, k) <= delta.v() by { assert(step_le(self.steps@, delta.v())(k)); }
                if i < self.steps@.len() { assert(!step_le(self.steps@, delta.v())(i as int)); }
                lemma_cnt_le_sorted(self.steps@, self.steps@.len() as int, delta.v(), i as int);
            }
//@-
            // no step at or before delta (e.g., no steps at all): no arrivals
            if i == 0 {
                0
            } else {
                self.steps[i - 1].1
            }
        }
    }
//@end
}

/// R20: `xs.iter().enumerate().skip_while(|(_, x)| p(x)).map(|(i, _)| i).next()`: the first index whose element fails p
pub fn vf_first_index_not<T, P: Fn(&T) -> bool>(xs: &Vec<T>, p: P, Ghost(gp): Ghost<spec_fn(int) -> bool>) -> (r: Option<usize>)
    requires forall |i: int| 0 <= i < xs@.len() ==> #[trigger] p.requires((&xs@[i],)),
             forall |i: int, b: bool| 0 <= i < xs@.len() && #[trigger] p.ensures((&xs@[i],), b) ==> b == gp(i),
    ensures match r {
        Some(i) => i < xs@.len() && !gp(i as int) && forall |k: int| 0 <= k < i ==> #[trigger] gp(k),
        None => forall |k: int| 0 <= k < xs@.len() ==> #[trigger] gp(k),
    }
{
    let mut i: usize = 0;
    while i < xs.len()
        invariant i <= xs@.len(), forall |i: int| 0 <= i < xs@.len() ==> #[trigger] p.requires((&xs@[i],)),
                  forall |i: int, b: bool| 0 <= i < xs@.len() && #[trigger] p.ensures((&xs@[i],), b) ==> b == gp(i),
                  forall |k: int| 0 <= k < i ==> #[trigger] gp(k)
        decreases xs@.len() - i
    {
        let b = p(&xs[i]);
        proof { assert(p.ensures((&xs@[i as int],), b)); }
        if !b { return Some(i); }
        i += 1;
    }
    None
}
pub open spec fn step_le(s: Seq<Step>, x: int) -> spec_fn(int) -> bool { |i: int| st_d(s, i) <= x }

impl ArrivalBound for ArrivalCurvePrefix {
    open spec fn wf(&self) -> bool { acp_wf(self.horizon.v(), self.steps@) }
    open spec fn na(&self, delta: int) -> int { na_acp(self.horizon.v(), self.steps@, delta) }
    open spec fn na_ok(&self, delta: int) -> bool { acp_max(self.steps@) * (delta / self.horizon.v()) + acp_max(self.steps@) <= usize::MAX }
    proof fn na_props(&self) {
        lemma_na_acp_mono(self.horizon.v(), self.steps@, 0, 0);
        assert forall |a: int, b: int| #![trigger self.na(a), self.na(b)] 0 <= a <= b implies 0 <= self.na(a) <= self.na(b) by { lemma_na_acp_mono(self.horizon.v(), self.steps@, a, b); }
    }
//@item src/arrival/arrival_curve_prefix.rs :: impl ArrivalBound for ArrivalCurvePrefix / fn number_arrivals
    fn number_arrivals(&self, delta: Duration) -> /*+*/(r: /*-*/usize/*+*/)/*-*/ {
//@+
        proof {
            let h = self.horizon.v(); let m = acp_max(self.steps@);
            lemma_mod_bound(delta.v(), h); lemma_div_pos_is_pos(delta.v(), h);
            lemma_lk_props(h, self.steps@, delta.v() % h, delta.v() % h);
            lemma_mul_nonnegative(m, delta.v() / h);
        }
//@-
        let full_horizons = delta / self.horizon;
        let partial_horizon = delta % self.horizon;
        self.max_njobs_in_horizon() * (full_horizons as usize) + self.lookup(partial_horizon)
    }
//@end
}

} // verus!
