// VfStream: Verus-VERIFIED eager combinators that stand for lazy iterator-adapter chains observed through a finite
// number of candidates (rule R21 of vx/rules.md). What stays assumed is only the std semantics named there:
// `(a..)` yields a, a+1, ...; `iter::once(x)` yields x; `chain` concatenates; `filter(p)` keeps exactly the items on
// which p returns true, in order; `map(f)` applies f to every item, in order; laziness does not change the items.
verus! {

pub struct VfStream<T>(pub Vec<T>);

/// the items kept by `filter(gp)`, in order
pub open spec fn filt<T>(s: Seq<T>, gp: spec_fn(T) -> bool) -> Seq<T>
    decreases s.len()
{
    if s.len() == 0 { Seq::empty() }
    else if gp(s.last()) { filt(s.drop_last(), gp).push(s.last()) }
    else { filt(s.drop_last(), gp) }
}
/// `filt` keeps exactly the items satisfying gp and preserves their order: every item of the result comes from a
/// position of s, positions strictly increase, and every kept position is present.
pub proof fn lemma_filt<T>(s: Seq<T>, gp: spec_fn(T) -> bool)
    ensures
        filt(s, gp).len() <= s.len(),
        forall |k: int| 0 <= k < filt(s, gp).len() ==> gp(#[trigger] filt(s, gp)[k]) && s.contains(filt(s, gp)[k]),
        forall |i: int| 0 <= i < s.len() && gp(#[trigger] s[i]) ==> filt(s, gp).contains(s[i]),
    decreases s.len()
{
    if s.len() > 0 {
        let t = s.drop_last();
        lemma_filt(t, gp);
        let ft = filt(t, gp);
        let f = filt(s, gp);
        assert forall |k: int| 0 <= k < f.len() implies gp(#[trigger] f[k]) && s.contains(f[k]) by {
            if k < ft.len() {
                assert(f[k] == ft[k]);
                assert(t.contains(ft[k]));
                let i = choose |i: int| 0 <= i < t.len() && t[i] == ft[k];
                assert(s[i] == ft[k]);
            } else {
                assert(f[k] == s.last());
                assert(s[s.len() - 1] == s.last());
            }
        }
        assert forall |i: int| 0 <= i < s.len() && gp(#[trigger] s[i]) implies f.contains(s[i]) by {
            if i < t.len() {
                assert(t[i] == s[i]);
                assert(ft.contains(t[i]));
                let k = choose |k: int| 0 <= k < ft.len() && ft[k] == t[i];
                assert(f[k] == ft[k]);
            } else {
                assert(f[f.len() - 1] == s.last());
            }
        }
    }
}

impl<T: Copy> VfStream<T> {
    /// `iter::once(x)`
    pub fn once(x: T) -> (r: VfStream<T>)
        ensures r.0@ == seq![x]
    {
        let mut v: Vec<T> = Vec::new();
        v.push(x);
        proof { assert(v@ =~= seq![x]); }
        VfStream(v)
    }

    /// `a.chain(b)`
    pub fn chain(self, o: VfStream<T>) -> (r: VfStream<T>)
        ensures r.0@ == self.0@ + o.0@
    {
        let mut v = self.0;
        let ghost v0 = v@;
        let mut i: usize = 0;
        while i < o.0.len()
            invariant i <= o.0@.len(), v@ == v0 + o.0@.take(i as int)
            decreases o.0@.len() - i
        {
            v.push(o.0[i]);
            proof { assert(o.0@.take(i as int + 1) =~= o.0@.take(i as int).push(o.0@[i as int])); assert(v@ =~= v0 + o.0@.take(i as int + 1)); }
            i = i + 1;
        }
        proof { assert(o.0@.take(o.0@.len() as int) =~= o.0@); }
        VfStream(v)
    }

    /// `it.filter(p)`
    pub fn filter<P: Fn(&T) -> bool>(self, p: P, Ghost(gp): Ghost<spec_fn(T) -> bool>) -> (r: VfStream<T>)
        requires
            forall |i: int| 0 <= i < self.0@.len() ==> #[trigger] p.requires((&self.0@[i],)),
            forall |i: int, b: bool| 0 <= i < self.0@.len() && #[trigger] p.ensures((&self.0@[i],), b) ==> b == gp(self.0@[i]),
        ensures r.0@ == filt(self.0@, gp),
            forall |k: int| 0 <= k < r.0@.len() ==> gp(#[trigger] r.0@[k]) && self.0@.contains(r.0@[k])
    {
        let mut v: Vec<T> = Vec::new();
        let mut i: usize = 0;
        proof { assert(self.0@.take(0) =~= Seq::<T>::empty()); }
        while i < self.0.len()
            invariant
                i <= self.0@.len(), v@ == filt(self.0@.take(i as int), gp),
                forall |i: int| 0 <= i < self.0@.len() ==> #[trigger] p.requires((&self.0@[i],)),
                forall |i: int, b: bool| 0 <= i < self.0@.len() && #[trigger] p.ensures((&self.0@[i],), b) ==> b == gp(self.0@[i]),
            decreases self.0@.len() - i
        {
            let x = self.0[i];
            let keep = p(&x);
            proof {
                assert(p.ensures((&self.0@[i as int],), keep));
                assert(self.0@.take(i as int + 1).drop_last() =~= self.0@.take(i as int));
                assert(self.0@.take(i as int + 1).last() == self.0@[i as int]);
            }
            if keep { v.push(x); }
            i = i + 1;
        }
        proof { assert(self.0@.take(self.0@.len() as int) =~= self.0@); lemma_filt(self.0@, gp); }
        VfStream(v)
    }

    /// `it.map(f)`
    pub fn map<U, F: Fn(T) -> U>(self, f: F, Ghost(gf): Ghost<spec_fn(T) -> U>) -> (r: VfStream<U>)
        requires
            forall |i: int| 0 <= i < self.0@.len() ==> #[trigger] f.requires((self.0@[i],)),
            forall |i: int, u: U| 0 <= i < self.0@.len() && #[trigger] f.ensures((self.0@[i],), u) ==> u == gf(self.0@[i]),
        ensures r.0@ == self.0@.map_values(gf)
    {
        let mut v: Vec<U> = Vec::new();
        let mut i: usize = 0;
        while i < self.0.len()
            invariant
                i <= self.0@.len(), v@ == self.0@.take(i as int).map_values(gf),
                forall |i: int| 0 <= i < self.0@.len() ==> #[trigger] f.requires((self.0@[i],)),
                forall |i: int, u: U| 0 <= i < self.0@.len() && #[trigger] f.ensures((self.0@[i],), u) ==> u == gf(self.0@[i]),
            decreases self.0@.len() - i
        {
            let u = f(self.0[i]);
            proof { assert(f.ensures((self.0@[i as int],), u)); }
            v.push(u);
            proof { assert(v@ =~= self.0@.take(i as int + 1).map_values(gf)); }
            i = i + 1;
        }
        proof { assert(self.0@.take(self.0@.len() as int) =~= self.0@); }
        VfStream(v)
    }
}

impl<T: Copy> VfStream<T> {
    /// `it.map(f)` where the contract of f is a relation (e.g. a result type whose error payload is not pinned down)
    pub fn map_rel<U, F: Fn(T) -> U>(self, f: F) -> (r: VfStream<U>)
        requires forall |i: int| 0 <= i < self.0@.len() ==> #[trigger] f.requires((self.0@[i],)),
        ensures r.0@.len() == self.0@.len(), forall |i: int| 0 <= i < self.0@.len() ==> f.ensures((self.0@[i],), #[trigger] r.0@[i])
    {
        let mut v: Vec<U> = Vec::new();
        let mut i: usize = 0;
        while i < self.0.len()
            invariant
                i <= self.0@.len(), v@.len() == i,
                forall |k: int| 0 <= k < i ==> f.ensures((self.0@[k],), #[trigger] v@[k]),
                forall |i: int| 0 <= i < self.0@.len() ==> #[trigger] f.requires((self.0@[i],)),
            decreases self.0@.len() - i
        {
            let u = f(self.0[i]);
            v.push(u);
            i = i + 1;
        }
        VfStream(v)
    }

    /// `it.take_while(p)`: the longest prefix on which p holds
    pub fn take_while<P: Fn(&T) -> bool>(self, p: P, Ghost(gp): Ghost<spec_fn(T) -> bool>) -> (r: VfStream<T>)
        requires
            forall |i: int| 0 <= i < self.0@.len() ==> #[trigger] p.requires((&self.0@[i],)),
            forall |i: int, b: bool| 0 <= i < self.0@.len() && #[trigger] p.ensures((&self.0@[i],), b) ==> b == gp(self.0@[i]),
        ensures
            r.0@.len() <= self.0@.len(), r.0@ == self.0@.take(r.0@.len() as int),
            forall |i: int| 0 <= i < r.0@.len() ==> gp(#[trigger] self.0@[i]),
            r.0@.len() < self.0@.len() ==> !gp(self.0@[r.0@.len() as int]),
    {
        let mut v: Vec<T> = Vec::new();
        let mut i: usize = 0;
        proof { assert(self.0@.take(0) =~= Seq::<T>::empty()); }
        while i < self.0.len()
            invariant
                i <= self.0@.len(), v@ == self.0@.take(i as int),
                forall |k: int| 0 <= k < i ==> gp(#[trigger] self.0@[k]),
                forall |i: int| 0 <= i < self.0@.len() ==> #[trigger] p.requires((&self.0@[i],)),
                forall |i: int, b: bool| 0 <= i < self.0@.len() && #[trigger] p.ensures((&self.0@[i],), b) ==> b == gp(self.0@[i]),
            decreases self.0@.len() - i
        {
            let x = self.0[i];
            let go = p(&x);
            proof { assert(p.ensures((&self.0@[i as int],), go)); }
            if !go { return VfStream(v); }
            v.push(x);
            proof { assert(v@ =~= self.0@.take(i as int + 1)); }
            i = i + 1;
        }
        VfStream(v)
    }

    /// `iter::empty()`
    pub fn empty() -> (r: VfStream<T>)
        ensures r.0@.len() == 0
    { VfStream(Vec::new()) }

    /// hand the observed items to a consumer that takes a finite sequence (rule R15)
    pub fn as_slice(&self) -> (r: &[T])
        ensures r@ == self.0@
    { self.0.as_slice() }
}

/// offset a occurs in s
pub open spec fn off_has(s: Seq<Offset>, a: int) -> bool { exists |i: int| 0 <= i < s.len() && (#[trigger] s[i]).val == a }

pub proof fn lemma_off_has_push(s: Seq<Offset>, x: Offset)
    ensures forall |a: int| #[trigger] off_has(s.push(x), a) <==> (off_has(s, a) || x.val == a)
{
    let t = s.push(x);
    assert forall |a: int| #[trigger] off_has(t, a) <==> (off_has(s, a) || x.val == a) by {
        if off_has(t, a) {
            let i = choose |i: int| 0 <= i < t.len() && (#[trigger] t[i]).val == a;
            if i < s.len() { assert(s[i].val == a); }
        }
        if off_has(s, a) { let i = choose |i: int| 0 <= i < s.len() && (#[trigger] s[i]).val == a; assert(t[i].val == a); }
        if x.val == a { assert(t[s.len() as int].val == a); }
    }
}
pub proof fn lemma_off_has_take(s: Seq<Offset>, i: int)
    requires 0 <= i < s.len()
    ensures forall |a: int| #[trigger] off_has(s.take(i + 1), a) <==> (off_has(s.take(i), a) || s[i].val == a)
{
    assert(s.take(i + 1) =~= s.take(i).push(s[i]));
    lemma_off_has_push(s.take(i), s[i]);
}

/// The set-level contracts below say which offsets occur in the result; they do not depend on the inputs being sorted
/// (itertools' merge / kmerge interleave by comparing heads and never drop an item; dedup drops only an item equal to its predecessor).
impl VfStream<Offset> {
    /// `a.merge(b)` (itertools): repeatedly yield the smaller head, the left one on a tie
    pub fn merge(self, o: VfStream<Offset>) -> (r: VfStream<Offset>)
        ensures forall |a: int| #[trigger] off_has(r.0@, a) <==> (off_has(self.0@, a) || off_has(o.0@, a))
    {
        let mut v: Vec<Offset> = Vec::new();
        let mut i: usize = 0;
        let mut j: usize = 0;
        proof { assert(self.0@.take(0) =~= Seq::<Offset>::empty()); assert(o.0@.take(0) =~= Seq::<Offset>::empty()); }
        while i < self.0.len() || j < o.0.len()
            invariant i <= self.0@.len(), j <= o.0@.len(),
                forall |a: int| #[trigger] off_has(v@, a) <==> (off_has(self.0@.take(i as int), a) || off_has(o.0@.take(j as int), a)),
            decreases (self.0@.len() - i) + (o.0@.len() - j)
        {
            let take_left = if i >= self.0.len() { false } else if j >= o.0.len() { true } else { self.0[i].val <= o.0[j].val };
            if take_left {
                proof { lemma_off_has_push(v@, self.0@[i as int]); lemma_off_has_take(self.0@, i as int); }
                v.push(self.0[i]);
                i = i + 1;
            } else {
                proof { lemma_off_has_push(v@, o.0@[j as int]); lemma_off_has_take(o.0@, j as int); }
                v.push(o.0[j]);
                j = j + 1;
            }
        }
        proof { assert(self.0@.take(self.0@.len() as int) =~= self.0@); assert(o.0@.take(o.0@.len() as int) =~= o.0@); }
        VfStream(v)
    }

    /// `it.dedup()` (itertools): drop every item that equals its predecessor
    pub fn dedup(self) -> (r: VfStream<Offset>)
        ensures forall |a: int| #[trigger] off_has(r.0@, a) <==> off_has(self.0@, a)
    {
        let mut v: Vec<Offset> = Vec::new();
        let mut i: usize = 0;
        proof { assert(self.0@.take(0) =~= Seq::<Offset>::empty()); }
        while i < self.0.len()
            invariant i <= self.0@.len(),
                forall |a: int| #[trigger] off_has(v@, a) <==> off_has(self.0@.take(i as int), a),
                i > 0 ==> v@.len() > 0 && v@[v@.len() - 1] == self.0@[i as int - 1],
            decreases self.0@.len() - i
        {
            let x = self.0[i];
            proof { lemma_off_has_take(self.0@, i as int); }
            if i > 0 && v[v.len() - 1].val == x.val {
                proof { assert(off_has(v@, x.v())); }
            } else {
                proof { lemma_off_has_push(v@, x); }
                v.push(x);
            }
            i = i + 1;
        }
        proof { assert(self.0@.take(self.0@.len() as int) =~= self.0@); }
        VfStream(v)
    }

    /// `xs.iter().map(f).kmerge()` (itertools): the k-way merge of the streams f yields for the elements of xs
    pub fn kmerge_map<T, F: Fn(&T) -> VfStream<Offset>>(xs: &[T], f: F, Ghost(gs): Ghost<spec_fn(int, int) -> bool>) -> (r: VfStream<Offset>)
        requires
            forall |i: int| 0 <= i < xs@.len() ==> #[trigger] f.requires((&xs@[i],)),
            forall |i: int, s: VfStream<Offset>, a: int| 0 <= i < xs@.len() && f.ensures((&xs@[i],), s) ==> (#[trigger] off_has(s.0@, a) <==> #[trigger] gs(i, a)),
        ensures forall |a: int| #[trigger] off_has(r.0@, a) <==> exists |i: int| 0 <= i < xs@.len() && #[trigger] gs(i, a)
    {
        let mut acc: VfStream<Offset> = VfStream(Vec::new());
        let mut k: usize = 0;
        while k < xs.len()
            invariant k <= xs@.len(),
                forall |i: int| 0 <= i < xs@.len() ==> #[trigger] f.requires((&xs@[i],)),
                forall |i: int, s: VfStream<Offset>, a: int| 0 <= i < xs@.len() && f.ensures((&xs@[i],), s) ==> (#[trigger] off_has(s.0@, a) <==> #[trigger] gs(i, a)),
                forall |a: int| #[trigger] off_has(acc.0@, a) <==> exists |i: int| 0 <= i < k && #[trigger] gs(i, a),
            decreases xs@.len() - k
        {
            let s = f(&xs[k]);
            let ghost old_acc = acc.0@;
            proof { assert(f.ensures((&xs@[k as int],), s)); }
            acc = acc.merge(s);
            proof {
                assert forall |a: int| #[trigger] off_has(acc.0@, a) <==> exists |i: int| 0 <= i < k + 1 && #[trigger] gs(i, a) by {
                    assert(off_has(s.0@, a) <==> gs(k as int, a));
                    if off_has(acc.0@, a) {
                        if off_has(old_acc, a) { let i = choose |i: int| 0 <= i < k && #[trigger] gs(i, a); assert(0 <= i < k + 1 && gs(i, a)); }
                        else { assert(gs(k as int, a)); }
                    }
                    if exists |i: int| 0 <= i < k + 1 && #[trigger] gs(i, a) {
                        let i = choose |i: int| 0 <= i < k + 1 && #[trigger] gs(i, a);
                        if i < k { assert(off_has(old_acc, a)); } else { assert(off_has(s.0@, a)); }
                    }
                }
            }
            k = k + 1;
        }
        acc
    }

    /// `xs.iter().zip(ys.iter()).map(f).kmerge()` (itertools): the k-way merge of the streams f yields for the pairs (xs[i], ys[i])
    pub fn kmerge_map2<T, U, F: Fn(&T, &U) -> VfStream<Offset>>(xs: &[T], ys: &[U], f: F, Ghost(gs): Ghost<spec_fn(int, int) -> bool>) -> (r: VfStream<Offset>)
        requires
            xs@.len() == ys@.len(),     // zip stops at the shorter one; the analyses build ys from xs
            forall |i: int| 0 <= i < xs@.len() ==> #[trigger] f.requires((&xs@[i], &ys@[i])),
            forall |i: int, s: VfStream<Offset>, a: int| 0 <= i < xs@.len() && f.ensures((&xs@[i], &ys@[i]), s) ==> (#[trigger] off_has(s.0@, a) <==> #[trigger] gs(i, a)),
        ensures forall |a: int| #[trigger] off_has(r.0@, a) <==> exists |i: int| 0 <= i < xs@.len() && #[trigger] gs(i, a)
    {
        let mut acc: VfStream<Offset> = VfStream(Vec::new());
        let mut k: usize = 0;
        while k < xs.len()
            invariant k <= xs@.len(), xs@.len() == ys@.len(),
                forall |i: int| 0 <= i < xs@.len() ==> #[trigger] f.requires((&xs@[i], &ys@[i])),
                forall |i: int, s: VfStream<Offset>, a: int| 0 <= i < xs@.len() && f.ensures((&xs@[i], &ys@[i]), s) ==> (#[trigger] off_has(s.0@, a) <==> #[trigger] gs(i, a)),
                forall |a: int| #[trigger] off_has(acc.0@, a) <==> exists |i: int| 0 <= i < k && #[trigger] gs(i, a),
            decreases xs@.len() - k
        {
            let s = f(&xs[k], &ys[k]);
            let ghost old_acc = acc.0@;
            proof { assert(f.ensures((&xs@[k as int], &ys@[k as int]), s)); }
            acc = acc.merge(s);
            proof {
                assert forall |a: int| #[trigger] off_has(acc.0@, a) <==> exists |i: int| 0 <= i < k + 1 && #[trigger] gs(i, a) by {
                    assert(off_has(s.0@, a) <==> gs(k as int, a));
                    if off_has(acc.0@, a) {
                        if off_has(old_acc, a) { let i = choose |i: int| 0 <= i < k && #[trigger] gs(i, a); assert(0 <= i < k + 1 && gs(i, a)); }
                        else { assert(gs(k as int, a)); }
                    }
                    if exists |i: int| 0 <= i < k + 1 && #[trigger] gs(i, a) {
                        let i = choose |i: int| 0 <= i < k + 1 && #[trigger] gs(i, a);
                        if i < k { assert(off_has(old_acc, a)); } else { assert(off_has(s.0@, a)); }
                    }
                }
            }
            k = k + 1;
        }
        acc
    }
}

pub open spec fn str_inc(s: Seq<Duration>) -> bool { forall |i: int, k: int| #![trigger s[i], s[k]] 0 <= i < k < s.len() ==> s[i].val < s[k].val }
pub open spec fn nondec(s: Seq<Duration>) -> bool { forall |i: int, k: int| #![trigger s[i], s[k]] 0 <= i <= k < s.len() ==> s[i].val <= s[k].val }
/// interval length d occurs in s
pub open spec fn has(s: Seq<Duration>, d: int) -> bool { exists |i: int| 0 <= i < s.len() && (#[trigger] s[i]).val == d }
pub proof fn lemma_has_push(s: Seq<Duration>, x: Duration)
    ensures forall |a: int| #[trigger] has(s.push(x), a) <==> (has(s, a) || x.val == a)
{
    let t = s.push(x);
    assert forall |a: int| #[trigger] has(t, a) <==> (has(s, a) || x.val == a) by {
        if has(t, a) {
            let i = choose |i: int| 0 <= i < t.len() && (#[trigger] t[i]).val == a;
            if i < s.len() { assert(s[i].val == a); }
        }
        if has(s, a) { let i = choose |i: int| 0 <= i < s.len() && (#[trigger] s[i]).val == a; assert(t[i].val == a); }
        if x.val == a { assert(t[s.len() as int].val == a); }
    }
}
pub proof fn lemma_has_take(s: Seq<Duration>, i: int)
    requires 0 <= i < s.len()
    ensures forall |a: int| #[trigger] has(s.take(i + 1), a) <==> (has(s.take(i), a) || s[i].val == a)
{
    assert(s.take(i + 1) =~= s.take(i).push(s[i]));
    lemma_has_push(s.take(i), s[i]);
}

impl VfStream<Duration> {
    /// `it.max()` over interval lengths (R3: the std fold keeps the last maximum; for a totally ordered value type every maximum is the same value)
    pub fn max(self) -> (r: Option<Duration>)
        ensures
            self.0@.len() == 0 ==> r.is_none(),
            self.0@.len() > 0 ==> r.is_some() && (exists |i: int| 0 <= i < self.0@.len() && r.unwrap() == #[trigger] self.0@[i])
                && forall |k: int| 0 <= k < self.0@.len() ==> (#[trigger] self.0@[k]).val <= r.unwrap().val,
    {
        if self.0.len() == 0 { return None; }
        let mut m: Duration = self.0[0];
        let mut i: usize = 1;
        while i < self.0.len()
            invariant 1 <= i <= self.0@.len(),
                exists |j: int| 0 <= j < i && m == #[trigger] self.0@[j],
                forall |k: int| 0 <= k < i ==> (#[trigger] self.0@[k]).val <= m.val,
            decreases self.0@.len() - i
        {
            let x = self.0[i];
            if x.val >= m.val { m = x; }
            i = i + 1;
        }
        Some(m)
    }

    /// `a.merge(b)` (itertools) of two non-decreasing streams: non-decreasing, and no item is lost or invented
    pub fn merge(self, o: VfStream<Duration>) -> (r: VfStream<Duration>)
        requires nondec(self.0@), nondec(o.0@)
        ensures nondec(r.0@), forall |a: int| #[trigger] has(r.0@, a) <==> (has(self.0@, a) || has(o.0@, a))
    {
        let mut v: Vec<Duration> = Vec::new();
        let mut i: usize = 0;
        let mut j: usize = 0;
        proof { assert(self.0@.take(0) =~= Seq::<Duration>::empty()); assert(o.0@.take(0) =~= Seq::<Duration>::empty()); }
        while i < self.0.len() || j < o.0.len()
            invariant i <= self.0@.len(), j <= o.0@.len(), nondec(self.0@), nondec(o.0@), nondec(v@),
                forall |a: int| #[trigger] has(v@, a) <==> (has(self.0@.take(i as int), a) || has(o.0@.take(j as int), a)),
                v@.len() > 0 && i < self.0@.len() ==> v@[v@.len() - 1].val <= self.0@[i as int].val,
                v@.len() > 0 && j < o.0@.len() ==> v@[v@.len() - 1].val <= o.0@[j as int].val,
            decreases (self.0@.len() - i) + (o.0@.len() - j)
        {
            let take_left = if i >= self.0.len() { false } else if j >= o.0.len() { true } else { self.0[i].val <= o.0[j].val };
            let ghost v0 = v@;
            if take_left {
                proof { lemma_has_push(v@, self.0@[i as int]); lemma_has_take(self.0@, i as int); }
                v.push(self.0[i]);
                proof {
                    assert forall |p: int, q: int| #![trigger v@[p], v@[q]] 0 <= p <= q < v@.len() implies v@[p].val <= v@[q].val by {
                        if q == v0.len() && p < v0.len() { assert(v0[p].val <= v0[v0.len() - 1].val); }
                    }
                    if i + 1 < self.0@.len() { assert(self.0@[i as int].val <= self.0@[i as int + 1].val); }
                }
                i = i + 1;
            } else {
                proof { lemma_has_push(v@, o.0@[j as int]); lemma_has_take(o.0@, j as int); }
                v.push(o.0[j]);
                proof {
                    assert forall |p: int, q: int| #![trigger v@[p], v@[q]] 0 <= p <= q < v@.len() implies v@[p].val <= v@[q].val by {
                        if q == v0.len() && p < v0.len() { assert(v0[p].val <= v0[v0.len() - 1].val); }
                    }
                    if j + 1 < o.0@.len() { assert(o.0@[j as int].val <= o.0@[j as int + 1].val); }
                }
                j = j + 1;
            }
        }
        proof { assert(self.0@.take(self.0@.len() as int) =~= self.0@); assert(o.0@.take(o.0@.len() as int) =~= o.0@); }
        VfStream(v)
    }

    /// `it.dedup()` (itertools) of a non-decreasing stream: strictly increasing, same items
    pub fn dedup(self) -> (r: VfStream<Duration>)
        requires nondec(self.0@)
        ensures str_inc(r.0@), forall |a: int| #[trigger] has(r.0@, a) <==> has(self.0@, a)
    {
        let mut v: Vec<Duration> = Vec::new();
        let mut i: usize = 0;
        proof { assert(self.0@.take(0) =~= Seq::<Duration>::empty()); }
        while i < self.0.len()
            invariant i <= self.0@.len(), nondec(self.0@), str_inc(v@),
                forall |a: int| #[trigger] has(v@, a) <==> has(self.0@.take(i as int), a),
                i > 0 ==> v@.len() > 0 && v@[v@.len() - 1] == self.0@[i as int - 1],
                i == 0 ==> v@.len() == 0,
            decreases self.0@.len() - i
        {
            let x = self.0[i];
            let ghost v0 = v@;
            proof { lemma_has_take(self.0@, i as int); }
            if i > 0 && v[v.len() - 1].val == x.val {
                proof { assert(has(v@, x.v())); }
            } else {
                proof { lemma_has_push(v@, x); }
                v.push(x);
                proof {
                    assert forall |p: int, q: int| #![trigger v@[p], v@[q]] 0 <= p < q < v@.len() implies v@[p].val < v@[q].val by {
                        if q == v0.len() {
                            assert(self.0@[i as int - 1].val <= self.0@[i as int].val);
                            if p < v0.len() - 1 { assert(v0[p].val < v0[v0.len() - 1].val); }
                        }
                    }
                }
            }
            i = i + 1;
        }
        proof { assert(self.0@.take(self.0@.len() as int) =~= self.0@); }
        VfStream(v)
    }

    /// `xs.iter().map(f).kmerge()` (itertools) over non-decreasing streams.  The component streams are only known through f's
    /// contract: `sound(i, a)` bounds what component i may yield, `must(i, a)` what it has to yield.
    pub fn kmerge_map<T, F: Fn(&T) -> VfStream<Duration>>(xs: &[T], f: F, Ghost(sound): Ghost<spec_fn(int, int) -> bool>, Ghost(must): Ghost<spec_fn(int, int) -> bool>) -> (r: VfStream<Duration>)
        requires
            forall |i: int| 0 <= i < xs@.len() ==> #[trigger] f.requires((&xs@[i],)),
            forall |i: int, s: VfStream<Duration>| 0 <= i < xs@.len() && #[trigger] f.ensures((&xs@[i],), s) ==> nondec(s.0@),
            forall |i: int, s: VfStream<Duration>, a: int| 0 <= i < xs@.len() && f.ensures((&xs@[i],), s) && #[trigger] has(s.0@, a) ==> #[trigger] sound(i, a),
            forall |i: int, s: VfStream<Duration>, a: int| 0 <= i < xs@.len() && #[trigger] f.ensures((&xs@[i],), s) && #[trigger] must(i, a) ==> has(s.0@, a),
        ensures nondec(r.0@),
            forall |a: int| #[trigger] has(r.0@, a) ==> exists |i: int| 0 <= i < xs@.len() && #[trigger] sound(i, a),
            forall |i: int, a: int| 0 <= i < xs@.len() && #[trigger] must(i, a) ==> has(r.0@, a),
    {
        let mut acc: VfStream<Duration> = VfStream(Vec::new());
        let mut k: usize = 0;
        while k < xs.len()
            invariant k <= xs@.len(), nondec(acc.0@),
                forall |i: int| 0 <= i < xs@.len() ==> #[trigger] f.requires((&xs@[i],)),
                forall |i: int, s: VfStream<Duration>| 0 <= i < xs@.len() && #[trigger] f.ensures((&xs@[i],), s) ==> nondec(s.0@),
                forall |i: int, s: VfStream<Duration>, a: int| 0 <= i < xs@.len() && f.ensures((&xs@[i],), s) && #[trigger] has(s.0@, a) ==> #[trigger] sound(i, a),
                forall |i: int, s: VfStream<Duration>, a: int| 0 <= i < xs@.len() && #[trigger] f.ensures((&xs@[i],), s) && #[trigger] must(i, a) ==> has(s.0@, a),
                forall |a: int| #[trigger] has(acc.0@, a) ==> exists |i: int| 0 <= i < k && #[trigger] sound(i, a),
                forall |i: int, a: int| 0 <= i < k && #[trigger] must(i, a) ==> has(acc.0@, a),
            decreases xs@.len() - k
        {
            let s = f(&xs[k]);
            let ghost old_acc = acc.0@;
            proof { assert(f.ensures((&xs@[k as int],), s)); }
            acc = acc.merge(s);
            proof {
                assert forall |a: int| #[trigger] has(acc.0@, a) implies exists |i: int| 0 <= i < k + 1 && #[trigger] sound(i, a) by {
                    if has(old_acc, a) { let i = choose |i: int| 0 <= i < k && #[trigger] sound(i, a); assert(0 <= i < k + 1 && sound(i, a)); }
                    else { assert(has(s.0@, a)); assert(sound(k as int, a)); }
                }
                assert forall |i: int, a: int| 0 <= i < k + 1 && #[trigger] must(i, a) implies has(acc.0@, a) by {
                    if i < k { assert(has(old_acc, a)); } else { assert(has(s.0@, a)); }
                }
            }
            k = k + 1;
        }
        acc
    }
}

impl VfStream<u64> {
    /// `(a..)` observed through its first n items
    pub fn range_from(a: u64, n: usize) -> (r: VfStream<u64>)
        requires a + n <= u64::MAX
        ensures r.0@.len() == n, forall |i: int| 0 <= i < n ==> #[trigger] r.0@[i] == a + i
    {
        let mut v: Vec<u64> = Vec::new();
        let mut i: usize = 0;
        while i < n
            invariant i <= n, a + n <= u64::MAX, v@.len() == i, forall |k: int| 0 <= k < i ==> #[trigger] v@[k] == a + k
            decreases n - i
        {
            v.push(a + i as u64);
            i = i + 1;
        }
        VfStream(v)
    }
}

} // verus!
