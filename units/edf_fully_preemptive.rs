// unit part: src/edf/fully_preemptive.rs (C06)
verus! {

//@item src/edf/fully_preemptive.rs :: struct Task
pub struct Task<'a, RBF: RequestBound + ?Sized> {
    /// The RBF upper-bounding the task's demand.
    pub rbf: &'a RBF,

    /// The task's relative deadline.
    pub deadline: Duration,
}
//@end
//@item src/edf/fully_preemptive.rs :: type TaskUnderAnalysis
pub type TaskUnderAnalysis<'a, T> = Task<'a, T>;
//@end
//@item src/edf/fully_preemptive.rs :: type InterferingTask
pub type InterferingTask<'a, T> = Task<'a, T>;
//@end

/// std::cmp::min on Duration (R12: Ord::min of the derived Ord)
pub fn vf_min(a: Duration, b: Duration) -> (r: Duration) ensures r.v() == imin(a.v(), b.v()) { if a.val <= b.val { a } else { b } }

pub open spec fn ots_of<B: RequestBound + ?Sized>(ot: Seq<Task<B>>) -> Seq<OT> { Seq::new(ot.len(), |i: int| OT { f: rbf_fn(ot[i].rbf), dl: ot[i].deadline.v() }) }
pub open spec fn pre<A: RequestBound + ?Sized, B: RequestBound + ?Sized>(tua: &Task<A>, ot: Seq<Task<B>>, limit: int) -> bool {
    &&& 1 <= limit < u64::MAX
    &&& tua.rbf.wf() && forall |i: int| 0 <= i < ot.len() ==> (#[trigger] ot[i]).rbf.wf()
    &&& tua.rbf.rbf(1) >= 1
    &&& tua.deadline.v() + limit + 1 <= u64::MAX
    &&& forall |d: int| 0 <= d <= limit + 1 ==> #[trigger] tua.rbf.rb_ok(d)
    &&& forall |i: int, d: int| 0 <= i < ot.len() && 0 <= d <= limit ==> #[trigger] ot[i].rbf.rb_ok(d)
    &&& sum_f(ots_of(ot), arg_bw(limit)) + tua.rbf.rbf(limit + 1) <= u64::MAX
}
/// C06 for fully preemptive EDF
pub open spec fn spec_result<A: RequestBound + ?Sized, B: RequestBound + ?Sized>(tua: &Task<A>, ot: Seq<Task<B>>, limit: int) -> Option<int> {
    edf_spec(rbf_fn(tua.rbf), tua.deadline.v(), ots_of(ot), limit)
}
pub proof fn lemma_ots_wf<B: RequestBound + ?Sized>(ot: Seq<Task<B>>)
    requires forall |i: int| 0 <= i < ot.len() ==> (#[trigger] ot[i]).rbf.wf()
    ensures ots_wf(ots_of(ot))
{
    assert forall |i: int| 0 <= i < ots_of(ot).len() implies rbf_like(#[trigger] ots_of(ot)[i].f) by { lemma_rbf_fn_like(ot[i].rbf); }
}

pub open spec fn rta_is_e<F: Fn(Offset) -> SearchResult>(f: &F, g: spec_fn(int) -> Option<int>, max: int) -> bool {
    forall |a: Offset, r: SearchResult| a.v() < max && #[trigger] f.ensures((a,), r) ==> res_view(r) == g(a.v())
}
/// R10 (ASSUMED, to be bounded-checked): the lazily merged EDF search space
///   steps of the tua's RBF below L  merged with  the other tasks' steps shifted by D_o - D (saturating) below L, deduplicated,
///   mapped through `rta` and folded by fixed_point::max_response_time
#[verifier::external_body]
pub fn vf_tail_edf<A: RequestBound + ?Sized, B: RequestBound + ?Sized, F: Fn(Offset) -> SearchResult>(tua: &Task<A>, other_tasks: &[Task<B>], max_offset: Offset, rta: F) -> (res: SearchResult)
    requires forall |a: Offset| a.v() < max_offset.v() && in_space(rbf_fn(tua.rbf), tua.deadline.v(), ots_of(other_tasks@), a.v()) ==> #[trigger] rta.requires((a,))
    ensures forall |g: spec_fn(int) -> Option<int>| #[trigger] rta_is_e(&rta, g, max_offset.v()) ==> res_view(res) == fold_space(rbf_fn(tua.rbf), tua.deadline.v(), ots_of(other_tasks@), g, max_offset.v())
{ unimplemented!() }

//@item src/edf/fully_preemptive.rs :: fn dedicated_uniproc_rta
pub fn dedicated_uniproc_rta<RBF1, RBF2>(
    tua: &TaskUnderAnalysis<RBF1>,
    other_tasks: &[TaskUnderAnalysis<RBF2>],
    limit: Duration,
) -> /*+*/(res: /*-*/fixed_point::SearchResult/*+*/)/*-*/
where
    RBF1: RequestBound + ?Sized,
    RBF2: RequestBound + ?Sized,
//@+
    requires pre(tua, other_tasks@, limit.v())
    ensures res_view(res) == spec_result(tua, other_tasks@, limit.v())
//@-
{
//@+
    let ghost tf = rbf_fn(tua.rbf);
    let ghost dl = tua.deadline.v();
    let ghost ots = ots_of(other_tasks@);
    proof {
        lemma_rbf_fn_like(tua.rbf); lemma_ots_wf(other_tasks@);
        lemma_edf_w_mono(tf, dl, ots, 0);
        lemma_ded_is_dedicated();
    }
//@-
    // This analysis is specific to dedicated uniprocessors.
    let proc = supply::Dedicated::new();

    // First, bound the maximum possible busy-window length.
    let L = fixed_point::search(&proc, limit, |L/*+*/: Duration/*-*/| /*+*/-> (r: Service)
        requires 1 <= L.v() <= limit.v(), pre(tua, other_tasks@, limit.v())
        ensures r.v() == edf_w_bw(rbf_fn(tua.rbf), ots_of(other_tasks@))(L.v())
    /*-*/{ /*@probe*/
//@+
        proof {
            lemma_rbf_fn_like(tua.rbf); lemma_ots_wf(other_tasks@);
            lemma_sum_f_mono(ots_of(other_tasks@), arg_bw(L.v()), arg_bw(limit.v()));
            assert(tua.rbf.rbf(limit.v() + 1) >= 0) by { tua.rbf.rbf_props(); }
            let gg = ot_term(ots_of(other_tasks@), arg_bw(L.v()));
            assert forall |i: int| 0 <= i < other_tasks@.len() implies #[trigger] gg(i) >= 0 by { other_tasks@[i].rbf.rbf_props(); }
        }
//@-
        let interference_bound: Service =
            /*@R1: other_tasks.iter().map( @*/vf_sum_service_idx(other_tasks, /*@.*/|ot/*+*/: &Task<RBF2>/*-*/| /*+*/-> (r: Service) requires ot.rbf.wf(), ot.rbf.rb_ok(L.v()) ensures r.v() == ot.rbf.rbf(L.v()) { /*-*/ot.rbf.service_needed(L)/*+*/ }/*-*//*@R1: ).sum() @*/, Ghost(ot_term(ots_of(other_tasks@), arg_bw(L.v()))))/*@.*/;
//@+
        proof { tua.rbf.rbf_props(); assert(tua.rbf.rbf(L.v()) <= tua.rbf.rbf(limit.v() + 1)); assert(tua.rbf.rb_ok(L.v())); }
//@-
        interference_bound + tua.rbf.service_needed(L)
    })?;
//@+
    proof { lemma_scan(ded(), 0, edf_w_bw(tf, ots), 0, limit.v()); }
//@-

    // Second, define the offset-specific RTA.
    let rta = |A: Offset| /*+*/-> (r: fixed_point::SearchResult)
        requires A.v() < L.v() <= limit.v(), pre(tua, other_tasks@, limit.v())
        ensures res_view(r) == edf_f(rbf_fn(tua.rbf), tua.deadline.v(), ots_of(other_tasks@), limit.v(), A.v())
    /*-*/{ /*@probe*/
        // Define the RHS of the equation in theorem 31 of the aRTA paper,
        // where AF = A + F.
        let rhs = |AF: Duration| /*+*/-> (r: Service)
            requires 1 <= AF.v() <= limit.v(), A.v() < limit.v(), pre(tua, other_tasks@, limit.v())
            ensures r.v() == edf_w_off(rbf_fn(tua.rbf), tua.deadline.v(), ots_of(other_tasks@), A.v())(AF.v())
        /*-*/{ /*@probe*/
//@+
            proof {
                lemma_rbf_fn_like(tua.rbf); lemma_ots_wf(other_tasks@);
                tua.rbf.rbf_props(); lemma_off_le_bw(tua.deadline.v(), ots_of(other_tasks@), A.v(), AF.v(), limit.v());
                assert(tua.rbf.rbf(A.v() + 1) <= tua.rbf.rbf(limit.v() + 1)); assert(tua.rbf.rb_ok(A.v() + 1));
                let gg = ot_term(ots_of(other_tasks@), arg_off(A.v(), tua.deadline.v(), AF.v()));
                assert forall |i: int| 0 <= i < other_tasks@.len() implies #[trigger] gg(i) >= 0 by { other_tasks@[i].rbf.rbf_props(); }
            }
//@-
            // demand of the task under analysis
            let tua_demand = tua.rbf.service_needed(A.closed_since_time_zero());

            //demand of all interfering tasks
            let bound_on_total_hep_workload: Service = /*@R1: other_tasks
                .iter()
                .map( @*/vf_sum_service_idx(other_tasks, /*@.*/|ot/*+*/: &Task<RBF2>/*-*/| /*+*/-> (r: Service)
                    requires ot.rbf.wf(), forall |d: int| 0 <= d <= limit.v() ==> #[trigger] ot.rbf.rb_ok(d), AF.v() <= limit.v(), A.v() < limit.v(), tua.deadline.v() + limit.v() + 1 <= u64::MAX
                    ensures r.v() == ot.rbf.rbf(arg_off(A.v(), tua.deadline.v(), AF.v())(ot.deadline.v()))
                /*-*/{
                    ot.rbf.service_needed(/*@R12: std::cmp::min @*/vf_min/*@.*/(
                        AF,
                        (A.closed_since_time_zero() + tua.deadline).saturating_sub(ot.deadline),
                    ))
                }/*@R1: )
                .sum() @*/, Ghost(ot_term(ots_of(other_tasks@), arg_off(A.v(), tua.deadline.v(), AF.v()))))/*@.*/;

            tua_demand + bound_on_total_hep_workload
        };

//@+
        proof {
            lemma_rbf_fn_like(tua.rbf); lemma_ots_wf(other_tasks@);
            lemma_edf_w_mono(rbf_fn(tua.rbf), tua.deadline.v(), ots_of(other_tasks@), A.v());
            lemma_ded_is_dedicated();
            assert(proc == (Dedicated {}));
            assert(sbf_of(&proc) == ded());
            assert(clo_is(&rhs, edf_w_off(rbf_fn(tua.rbf), tua.deadline.v(), ots_of(other_tasks@), A.v())));
            lemma_scan(ded(), 0, edf_w_off(rbf_fn(tua.rbf), tua.deadline.v(), ots_of(other_tasks@), A.v()), 0, limit.v());
        }
//@-
        // Find the solution A+F that is the least fixed point.
        let AF = fixed_point::search(&proc, limit, rhs)?;
        // Extract the corresponding bound.
        let F = AF.saturating_sub(A.since_time_zero());
        Ok(F)
    };

    // Third, define the search space. The search space is given by
    // A=0 and each step below L of the task under analysis's RBF.
    // The case of A=0 is not handled explicitly since `steps_iter()`
    // necessarily yields delta=1, which results in A=0 being
    // included in the search space.
    let max_offset = Offset::from_time_zero(L);
    /*@R10: let search_space_tua = demand::step_offsets(tua.rbf).take_while(|A| *A < max_offset);
    let search_space = other_tasks
        .iter()
        .map(|ot| {
            demand::step_offsets(ot.rbf)
                .map(move |delta| {
                    Offset::from_time_zero(
                        (delta + ot.deadline)
                            .since_time_zero()
                            .saturating_sub(tua.deadline),
                    )
                })
                .take_while(|A| *A < max_offset)
        })
        .kmerge()
        .merge(search_space_tua)
        .dedup();

    // Finally, apply the offset-specific RTA to each offset in the
    // search space and return the maximum response-time bound.
    fixed_point::max_response_time(search_space.map(rta)) @*/let vf_res = vf_tail_edf(tua, other_tasks, max_offset, rta);
    proof {
        let g = |x: int| edf_f(tf, dl, ots, limit.v(), x);
        assert(rta_is_e(&rta, g, max_offset.v()));
        lemma_edf_prune(tf, dl, ots, limit.v(), L.v());
    }
    vf_res/*@.*/
}
//@end

} // verus!
