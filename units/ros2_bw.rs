// unit part: src/ros2/bw.rs (C07): Callback methods == Def. 5 / Lemma 18, rta_subchain == Theorem 3 evaluated over the
// Lemma-19 search space with linear-scan fixed points
verus! {

//@item src/ros2/bw.rs :: const EPSILON
/*@R9: const EPSILON: Duration = @*/exec const EPSILON: Duration ensures EPSILON.val == 1 {/*@.*/ Duration::epsilon()/*@R9: ; @*/ }/*@.*/
//@end
//@item src/ros2/bw.rs :: const EPSILON_SERVICE
/*@R9: const EPSILON_SERVICE: Service = @*/exec const EPSILON_SERVICE: Service ensures EPSILON_SERVICE.val == 1 {/*@.*/ Service::in_interval(EPSILON)/*@R9: ; @*/ }/*@.*/
//@end

//@item src/ros2/bw.rs :: struct Callback
pub struct Callback<'a, 'b, AB: ArrivalBound + ?Sized, CM: JobCostModel + ?Sized> {
    /*+*/pub /*-*/response_time_bound: Duration,
    /*+*/pub /*-*/arrival_bound: &'a AB,
    /*+*/pub /*-*/cost_model: &'b CM,
    /*+*/pub /*-*/kind: CallbackType,
}
//@end

impl<'a, 'b, AB: ArrivalBound + ?Sized, CM: JobCostModel + ?Sized> Callback<'a, 'b, AB, CM> {
    /// Def. 5: busy-window-aware interference of this callback on a callback of kind `interfered`
    pub open spec fn bw_spec_rbf(&self, interfered: CallbackType, delta: int, act: int, npp: int) -> int {
        self.cost_model.cost(direct_n(self.kind, interfered, self.arrival_bound.na(delta), self.arrival_bound.na(act) + npp))
    }
    /// activations in the closed interval [0, a] minus the one under analysis
    pub open spec fn selfint_a(&self, a: int) -> int { sat(self.arrival_bound.na(a + 1) - 1) }
    pub open spec fn ppb(&self) -> int { self.arrival_bound.na(self.response_time_bound.v()) }
    /// well-formedness and magnitude envelope for all queries up to `limit`
    pub open spec fn ok(&self, limit: int) -> bool {
        &&& self.arrival_bound.wf() && self.cost_model.wf()
        &&& forall |d: int| 0 <= d <= limit + 1 ==> #[trigger] self.arrival_bound.na_ok(d)
        &&& self.arrival_bound.na_ok(self.response_time_bound.v())
        &&& self.arrival_bound.na(limit + 1) < usize::MAX / 4
        &&& self.cost_model.cost(self.arrival_bound.na(limit + 1) + 1) <= u64::MAX
    }
    pub proof fn lemma_ok_down(&self, limit: int, d: int)
        requires self.ok(limit), 0 <= d <= limit
        ensures self.ok(d)
    {
        self.arrival_bound.na_props(); self.cost_model.cost_props();
        assert(self.arrival_bound.na(d + 1) <= self.arrival_bound.na(limit + 1));
        assert(self.cost_model.cost(self.arrival_bound.na(d + 1) + 1) <= self.cost_model.cost(self.arrival_bound.na(limit + 1) + 1));
    }
    pub proof fn lemma_ok(&self, limit: int, d: int)
        requires self.ok(limit), 0 <= d <= limit + 1
        ensures 0 <= self.arrival_bound.na(d) <= self.arrival_bound.na(limit + 1),
                forall |n: int| 0 <= n <= self.arrival_bound.na(limit + 1) + 1 ==> 0 <= #[trigger] self.cost_model.cost(n) <= u64::MAX
    {
        self.arrival_bound.na_props(); self.cost_model.cost_props();
        assert forall |n: int| 0 <= n <= self.arrival_bound.na(limit + 1) + 1 implies 0 <= #[trigger] self.cost_model.cost(n) <= u64::MAX by {
            assert(self.cost_model.cost(n) <= self.cost_model.cost(self.arrival_bound.na(limit + 1) + 1));
        }
    }

//@item src/ros2/bw.rs :: impl<'a, 'b, AB: ArrivalBound + ?Sized, CM: JobCostModel + ?Sized> Callback<'a, 'b, AB, CM> / fn new
    pub fn new(
        response_time_bound: Duration,
        arrival_bound: &'a AB,
        cost_model: &'b CM,
        kind: CallbackType,
    ) -> /*+*/(r: /*-*/Callback<'a, 'b, AB, CM>/*+*/)
        ensures r.response_time_bound == response_time_bound, r.arrival_bound == arrival_bound, r.cost_model == cost_model, r.kind == kind/*-*/ {
        Callback {
            response_time_bound,
            arrival_bound,
            cost_model,
            kind,
        }
    }
//@end

//@item src/ros2/bw.rs :: impl<'a, 'b, AB: ArrivalBound + ?Sized, CM: JobCostModel + ?Sized> Callback<'a, 'b, AB, CM> / fn busy_window_rbf
    fn busy_window_rbf(
        &self,
        interfered_with: &CallbackType,
        delta: Duration,
        activation_time: Offset,
        num_polling_points: usize,
    ) -> /*+*/(r: /*-*/Service/*+*/)
        requires self.ok(delta.v()), self.ok(activation_time.v()), num_polling_points < usize::MAX / 4
        ensures r.v() == self.bw_spec_rbf(*interfered_with, delta.v(), activation_time.v(), num_polling_points as int)/*-*/ {
//@+
        proof { self.lemma_ok(delta.v(), delta.v()); self.lemma_ok(activation_time.v(), activation_time.v()); }
//@-
        // arrivals in the half-open interval [0, delta)
        let arrived = self.arrival_bound.number_arrivals(delta);
        // arrivals in the half-open interval [0, activation_time)
        let arrived_bw = self
            .arrival_bound
            .number_arrivals(activation_time.since_time_zero())
            + num_polling_points;
        let n = match self.kind {
            CallbackType::Timer | CallbackType::EventSource => arrived,
            CallbackType::PolledUnknownPrio => /*@R12: arrived.min( @*/vf_usize_min(arrived, /*@.*/arrived_bw + 1),
            CallbackType::Polled(inf_prio) => match *interfered_with {
                CallbackType::Polled(ref_prio) => /*@R12: arrived.min( @*/vf_usize_min(arrived, /*@.*/
                    arrived_bw + is_higher_callback_priority_than(inf_prio, ref_prio) as usize,
                ),
                _ => /*@R12: arrived.min( @*/vf_usize_min(arrived, /*@.*/arrived_bw + 1),
            },
        };
        self.cost_model.cost_of_jobs(n)
    }
//@end

//@item src/ros2/bw.rs :: impl<'a, 'b, AB: ArrivalBound + ?Sized, CM: JobCostModel + ?Sized> Callback<'a, 'b, AB, CM> / fn max_self_interfering_instances
    fn max_self_interfering_instances(&self, activation: Offset) -> /*+*/(r: /*-*/usize/*+*/)
        requires self.ok(activation.v()), activation.v() < u64::MAX
        ensures r == self.selfint_a(activation.v())/*-*/ {
//@+
        proof { self.lemma_ok(activation.v(), activation.v() + 1); }
//@-
        // activations in the closed interval [0, activation]
        self.arrival_bound
            .number_arrivals(activation.closed_since_time_zero())
            .saturating_sub(1)
    }
//@end

//@item src/ros2/bw.rs :: impl<'a, 'b, AB: ArrivalBound + ?Sized, CM: JobCostModel + ?Sized> Callback<'a, 'b, AB, CM> / fn self_interference_rbf
    fn self_interference_rbf(&self, activation: Offset) -> /*+*/(r: /*-*/Service/*+*/)
        requires self.ok(activation.v()), activation.v() < u64::MAX
        ensures r.v() == self.cost_model.cost(self.selfint_a(activation.v()))/*-*/ {
//@+
        proof { self.lemma_ok(activation.v(), activation.v() + 1); }
//@-
        self.cost_model
            .cost_of_jobs(self.max_self_interfering_instances(activation))
    }
//@end

//@item src/ros2/bw.rs :: impl<'a, 'b, AB: ArrivalBound + ?Sized, CM: JobCostModel + ?Sized> Callback<'a, 'b, AB, CM> / fn own_workload_rbf
    fn own_workload_rbf(&self, A_star: Offset) -> /*+*/(r: /*-*/Service/*+*/)
        requires self.ok(A_star.v())
        ensures r.v() == self.cost_model.cost(self.arrival_bound.na(A_star.v()))/*-*/ {
//@+
        proof { self.lemma_ok(A_star.v(), A_star.v()); }
//@-
        let n_activations = self.arrival_bound.number_arrivals(A_star.since_time_zero());
        self.cost_model.cost_of_jobs(n_activations)
    }
//@end

//@item src/ros2/bw.rs :: impl<'a, 'b, AB: ArrivalBound + ?Sized, CM: JobCostModel + ?Sized> Callback<'a, 'b, AB, CM> / fn marginal_execution_cost
    fn marginal_execution_cost(&self, activation: Offset) -> /*+*/(r: /*-*/Service/*+*/)
        requires self.ok(activation.v()), activation.v() < u64::MAX
        ensures r.v() == self.cost_model.cost(self.selfint_a(activation.v()) + 1) - self.cost_model.cost(self.selfint_a(activation.v()))/*-*/ {
//@+
        proof { self.lemma_ok(activation.v(), activation.v() + 1); self.cost_model.cost_props(); assert(self.cost_model.cost(self.selfint_a(activation.v())) <= self.cost_model.cost(self.selfint_a(activation.v()) + 1)); }
//@-
        let n = self.max_self_interfering_instances(activation);
        self.cost_model.cost_of_jobs(n + 1) - self.cost_model.cost_of_jobs(n)
    }
//@end

//@item src/ros2/bw.rs :: impl<'a, 'b, AB: ArrivalBound + ?Sized, CM: JobCostModel + ?Sized> Callback<'a, 'b, AB, CM> / fn polling_point_bound
    fn polling_point_bound(&self) -> /*+*/(r: /*-*/usize/*+*/)
        requires self.arrival_bound.wf(), self.arrival_bound.na_ok(self.response_time_bound.v())
        ensures r == self.ppb()/*-*/ {
        self.arrival_bound.number_arrivals(self.response_time_bound)
    }
//@end

//@item src/ros2/bw.rs :: impl<'a, 'b, AB: ArrivalBound + ?Sized, CM: JobCostModel + ?Sized> Callback<'a, 'b, AB, CM> / fn subchain_polling_point_bound
    fn subchain_polling_point_bound(subchain: &[&Callback<AB, CM>]) -> /*+*/(r: /*-*/usize/*+*/)
        requires forall |i: int| 0 <= i < subchain@.len() ==> (#[trigger] subchain@[i]).arrival_bound.wf() && subchain@[i].arrival_bound.na_ok(subchain@[i].response_time_bound.v()),
                 bw_npp(subchain@) <= usize::MAX
        ensures r == bw_npp(subchain@)/*-*/ {
//@+
        proof { let g = bw_ppb_at(subchain@); assert forall |i: int| 0 <= i < subchain@.len() implies #[trigger] g(i) >= 0 by { subchain@[i].arrival_bound.na_props(); } }
//@-
        /*@R1: subchain.iter().map( @*/vf_sum_usize_idx(subchain, /*@.*/|cb/*+*/: &&Callback<AB, CM>/*-*/| /*+*/-> (n: usize) requires cb.arrival_bound.wf(), cb.arrival_bound.na_ok(cb.response_time_bound.v()) ensures n == cb.ppb() { /*-*/cb.polling_point_bound()/*+*/ }/*-*//*@R1: ).sum() @*/, Ghost(bw_ppb_at(subchain@)))/*@.*/
    }
//@end
}

pub open spec fn bw_ppb_at<AB: ArrivalBound + ?Sized, CM: JobCostModel + ?Sized>(subchain: Seq<&Callback<AB, CM>>) -> spec_fn(int) -> int { |i: int| subchain[i].ppb() }
pub open spec fn bw_npp<AB: ArrivalBound + ?Sized, CM: JobCostModel + ?Sized>(subchain: Seq<&Callback<AB, CM>>) -> int { sum_idx(subchain.len() as int, bw_ppb_at(subchain)) }


// ---- Theorem 3 / Lemma 18 / Lemma 19, evaluated naively
pub open spec fn bw_di_at<AB: ArrivalBound + ?Sized, CM: JobCostModel + ?Sized>(workload: Seq<Callback<AB, CM>>, eoc: &Callback<AB, CM>, npp: int, x: int, act: int) -> spec_fn(int) -> int {
    |i: int| if same_obj(eoc, &workload[i]) { 0 } else { workload[i].bw_spec_rbf(eoc.kind, x, act, npp) }
}
/// busy-window-aware interference (Def. 5) of everything but the end of the chain
pub open spec fn bw_di<AB: ArrivalBound + ?Sized, CM: JobCostModel + ?Sized>(workload: Seq<Callback<AB, CM>>, eoc: &Callback<AB, CM>, npp: int, x: int, act: int) -> int {
    sum_idx(workload.len() as int, bw_di_at(workload, eoc, npp, x, act))
}
/// Lemma 18: maximum offset
pub open spec fn bw_w_max<AB: ArrivalBound + ?Sized, CM: JobCostModel + ?Sized>(workload: Seq<Callback<AB, CM>>, eoc: &Callback<AB, CM>, npp: int) -> spec_fn(int) -> int {
    |x: int| 1 + bw_di(workload, eoc, npp, x, x) + eoc.cost_model.cost(eoc.arrival_bound.na(x))
}
/// Theorem 3, step 1: start-time inequality for activation offset a
pub open spec fn bw_w_st<AB: ArrivalBound + ?Sized, CM: JobCostModel + ?Sized>(workload: Seq<Callback<AB, CM>>, eoc: &Callback<AB, CM>, npp: int, a: int) -> spec_fn(int) -> int {
    |x: int| 1 + bw_di(workload, eoc, npp, x, a) + eoc.cost_model.cost(eoc.selfint_a(a))
}
pub open spec fn bw_f<SBF: SupplyBound + ?Sized, AB: ArrivalBound + ?Sized, CM: JobCostModel + ?Sized>(supply: &SBF, workload: Seq<Callback<AB, CM>>, eoc: &Callback<AB, CM>, npp: int, singleton: bool, limit: int, a: int) -> Option<int> {
    match scan(sbf_of(supply), 0, bw_w_st(workload, eoc, npp, a), 0, limit) {
        None => None,
        Some(s_star) => {
            let n = eoc.selfint_a(a);
            let omega = eoc.cost_model.cost(n + 1) - eoc.cost_model.cost(n);
            let f_star = supply.st(sat(supply.sbf(s_star) - 1) + omega);
            Some(if singleton { sat(f_star - a) } else { f_star })
        }
    }
}
/// Lemma 19 (negated conditions): the offsets that have to be examined
pub open spec fn bw_step<AB: ArrivalBound + ?Sized, CM: JobCostModel + ?Sized>(workload: Seq<Callback<AB, CM>>, eoc: &Callback<AB, CM>, a: int) -> bool {
    exists |i: int| 0 <= i < workload.len() && #[trigger] bw_step_of(workload, eoc, a, i)
}
pub open spec fn bw_step_of<AB: ArrivalBound + ?Sized, CM: JobCostModel + ?Sized>(workload: Seq<Callback<AB, CM>>, eoc: &Callback<AB, CM>, a: int, i: int) -> bool {
    if same_obj(eoc, &workload[i]) { workload[i].arrival_bound.na(a) != workload[i].arrival_bound.na(a + 1) }
    else { (workload[i].kind is PolledUnknownPrio || workload[i].kind is Polled) && a > 0 && workload[i].arrival_bound.na(a - 1) != workload[i].arrival_bound.na(a) }
}
pub open spec fn fold_bw<AB: ArrivalBound + ?Sized, CM: JobCostModel + ?Sized>(workload: Seq<Callback<AB, CM>>, eoc: &Callback<AB, CM>, g: spec_fn(int) -> Option<int>, a: int) -> Option<int>
    decreases a
{
    if a <= 0 { Some(0) } else if bw_step(workload, eoc, a - 1) { comb(fold_bw(workload, eoc, g, a - 1), g(a - 1)) } else { fold_bw(workload, eoc, g, a - 1) }
}
pub open spec fn bw_spec<SBF: SupplyBound + ?Sized, AB: ArrivalBound + ?Sized, CM: JobCostModel + ?Sized>(supply: &SBF, workload: Seq<Callback<AB, CM>>, subchain: Seq<&Callback<AB, CM>>, limit: int) -> Option<int> {
    let eoc = subchain[subchain.len() - 1]; let npp = bw_npp(subchain);
    match scan(sbf_of(supply), 0, bw_w_max(workload, eoc, npp), 0, limit) {
        None => None,
        Some(max_offset) => fold_bw(workload, eoc, |a: int| bw_f(supply, workload, eoc, npp, subchain.len() == 1, limit, a), max_offset),
    }
}
/// the largest demand handed to service_time: start-time / max-offset demands at the limit, or limit + the largest cost
pub open spec fn bw_dmax<AB: ArrivalBound + ?Sized, CM: JobCostModel + ?Sized>(workload: Seq<Callback<AB, CM>>, subchain: Seq<&Callback<AB, CM>>, limit: int) -> int {
    let eoc = subchain[subchain.len() - 1];
    1 + bw_di(workload, eoc, bw_npp(subchain), limit, limit) + limit + eoc.cost_model.cost(eoc.arrival_bound.na(limit + 1) + 1)
}
pub open spec fn bw_pre<SBF: SupplyBound + ?Sized, AB: ArrivalBound + ?Sized, CM: JobCostModel + ?Sized>(supply: &SBF, workload: Seq<Callback<AB, CM>>, subchain: Seq<&Callback<AB, CM>>, limit: int) -> bool {
    &&& supply.wf() && 1 <= limit < u64::MAX
    &&& subchain.len() >= 1
    &&& forall |i: int| 0 <= i < workload.len() ==> (#[trigger] workload[i]).ok(limit)
    &&& forall |i: int| 0 <= i < subchain.len() ==> (#[trigger] subchain[i]).ok(limit)
    &&& bw_npp(subchain) < usize::MAX / 4
    &&& forall |x: int, a: int| 0 <= x <= limit && 0 <= a <= limit ==> 1 + #[trigger] bw_di(workload, subchain[subchain.len() - 1], bw_npp(subchain), x, a)
            + subchain[subchain.len() - 1].cost_model.cost(subchain[subchain.len() - 1].arrival_bound.na(limit + 1) + 1) <= u64::MAX
    &&& forall |d: int| 0 <= d <= bw_dmax(workload, subchain, limit) ==> #[trigger] supply.st(d) <= u64::MAX && supply.ps_ok(supply.st(d))
    &&& forall |t: int| 0 <= t <= limit ==> #[trigger] supply.ps_ok(t)
    &&& limit + subchain[subchain.len() - 1].cost_model.cost(subchain[subchain.len() - 1].arrival_bound.na(limit + 1) + 1) <= u64::MAX
}
pub proof fn lemma_bw_di_mono<AB: ArrivalBound + ?Sized, CM: JobCostModel + ?Sized>(workload: Seq<Callback<AB, CM>>, eoc: &Callback<AB, CM>, npp: int, x: int, a: int, y: int, b: int, limit: int)
    requires npp >= 0, 0 <= x <= y, 0 <= a <= b, forall |i: int| 0 <= i < workload.len() ==> (#[trigger] workload[i]).ok(limit)
    ensures 0 <= bw_di(workload, eoc, npp, x, a) <= bw_di(workload, eoc, npp, y, b)
{
    let gx = bw_di_at(workload, eoc, npp, x, a); let gy = bw_di_at(workload, eoc, npp, y, b);
    assert forall |i: int| 0 <= i < workload.len() implies 0 <= #[trigger] gx(i) <= gy(i) by {
        assert(workload[i].ok(limit));
        let c = workload[i]; c.arrival_bound.na_props(); c.cost_model.cost_props();
        assert(0 <= c.arrival_bound.na(x) <= c.arrival_bound.na(y)); assert(0 <= c.arrival_bound.na(a) <= c.arrival_bound.na(b));
        assert(0 <= direct_n(c.kind, eoc.kind, c.arrival_bound.na(x), c.arrival_bound.na(a) + npp) <= direct_n(c.kind, eoc.kind, c.arrival_bound.na(y), c.arrival_bound.na(b) + npp));
    }
    lemma_sum_idx_mono(workload.len() as int, gx, gy);
}

// requires / ensures of the interference closure through a reference
pub open spec fn req_bwi<G: Fn(Duration, Offset) -> Service>(g: &G, d: Duration, a: Offset) -> bool { g.requires((d, a)) }
pub open spec fn ens_bwi<G: Fn(Duration, Offset) -> Service>(g: &G, d: Duration, a: Offset, s: Service) -> bool { g.ensures((d, a), s) }

pub open spec fn rta_is_bw<F: Fn(Offset) -> SearchResult>(f: &F, g: spec_fn(int) -> Option<int>, max: int) -> bool {
    forall |a: Offset, r: SearchResult| a.v() < max && #[trigger] f.ensures((a,), r) ==> res_view(r) == g(a.v())
}
/// R10 (ASSUMED): the Lemma-19 search space (arrival steps of the end of the chain shifted by one and of the polled
/// callbacks, k-merged and deduplicated, incl. its debug-only brute-force shadow) below max_offset, mapped through `rta`
/// and folded by max_response_time
#[verifier::external_body]
pub fn vf_tail_bw<AB: ArrivalBound + ?Sized, CM: JobCostModel + ?Sized, F: Fn(Offset) -> SearchResult>(workload: &[Callback<AB, CM>], eoc: &Callback<AB, CM>, max_offset: Offset, rta: F) -> (res: SearchResult)
    requires forall |a: Offset| a.v() < max_offset.v() && bw_step(workload@, eoc, a.v()) ==> #[trigger] rta.requires((a,))
    ensures forall |g: spec_fn(int) -> Option<int>| #[trigger] rta_is_bw(&rta, g, max_offset.v()) ==> res_view(res) == fold_bw(workload@, eoc, g, max_offset.v())
{ unimplemented!() }

//@item src/ros2/bw.rs :: fn rta_subchain
pub fn rta_subchain<SBF, AB, CM>(
    supply: &SBF,
    workload: &[Callback<AB, CM>],
    subchain: &[&Callback<AB, CM>],
    limit: Duration,
) -> /*+*/(res: /*-*/fixed_point::SearchResult/*+*/)/*-*/
where
    SBF: SupplyBound + ?Sized,
    AB: ArrivalBound + ?Sized,
    CM: JobCostModel + ?Sized,
//@+
    requires bw_pre(supply, workload@, subchain@, limit.v())
    ensures res_view(res) == bw_spec(supply, workload@, subchain@, limit.v())
//@-
{
//@+
    proof {
        assert forall |i: int| 0 <= i < subchain@.len() implies (#[trigger] subchain@[i]).arrival_bound.wf() && subchain@[i].arrival_bound.na_ok(subchain@[i].response_time_bound.v()) by { assert(subchain@[i].ok(limit.v())); }
        let g0 = |i: int| 0int; let g1 = bw_ppb_at(subchain@);
        assert forall |i: int| 0 <= i < subchain@.len() implies 0 <= #[trigger] g0(i) <= g1(i) by { assert(subchain@[i].ok(limit.v())); subchain@[i].arrival_bound.na_props(); }
        lemma_sum_idx_mono(subchain@.len() as int, g0, g1);
    }
//@-
    // First, compute a bound on the maximum number of polling points
    // in the analysis window.
    let max_num_polling_points = Callback::subchain_polling_point_bound(subchain);

    // callback at the end of the chain under analysis
    let eoc = subchain.last().expect("subchain must not be empty");

    // do we have a proper chain, or just a single callback?
    let singleton_chain = subchain.len() == 1;

    // check that we are actually given a proper subchain, i.e., all references
    // in the subchain must point to something in the workload
    /*@R7: debug_assert!(
        subchain
            .iter()
            .all(|sc_cb| workload.iter().any(|wl_cb| std::ptr::eq(*sc_cb, wl_cb))),
        "subchain not wholly part of workload"
    ); @*//*@.*/

    // Busy-window-aware interference (Def. 5)
    let bw_interference = |delta: Duration, activation: Offset| /*+*/-> (s: Service)
        requires delta.v() <= limit.v(), activation.v() <= limit.v(), bw_pre(supply, workload@, subchain@, limit.v()), max_num_polling_points == bw_npp(subchain@), *eoc == subchain@[subchain@.len() - 1]
        ensures s.v() == bw_di(workload@, *eoc, bw_npp(subchain@), delta.v(), activation.v())
    /*-*/{ /*@probe*/
//@+
        proof {
            let gg = bw_di_at(workload@, *eoc, bw_npp(subchain@), delta.v(), activation.v());
            assert forall |i: int| 0 <= i < workload@.len() implies #[trigger] gg(i) >= 0 by {
                let c = workload@[i]; assert(c.ok(limit.v())); c.arrival_bound.na_props(); c.cost_model.cost_props();
                assert(0 <= c.arrival_bound.na(delta.v())); assert(0 <= c.arrival_bound.na(activation.v()));
                assert(direct_n(c.kind, eoc.kind, c.arrival_bound.na(delta.v()), c.arrival_bound.na(activation.v()) + bw_npp(subchain@)) >= 0);
            }
            let e = *eoc; assert(e.ok(limit.v())); e.lemma_ok(limit.v(), limit.v());
            assert(bw_di(workload@, e, bw_npp(subchain@), delta.v(), activation.v()) <= u64::MAX);
        }
//@-
        /*@R1: workload
            .iter()
            .map( @*/vf_sum_service_idx(workload, /*@.*/|cb/*+*/: &Callback<AB, CM>/*-*/| /*+*/-> (s: Service)
                requires delta.v() <= limit.v(), activation.v() <= limit.v(), cb.ok(limit.v()), max_num_polling_points < usize::MAX / 4
                ensures s.v() == (if same_obj(*eoc, cb) { 0 } else { cb.bw_spec_rbf(eoc.kind, delta.v(), activation.v(), max_num_polling_points as int) })
            /*-*/{
                if /*@R8: std::ptr::eq @*/vf_ptr_eq/*@.*/(*eoc, cb) {
                    // Don't count the end of the chain, which is
                    // accounted for as self-interference.
                    Service::none()
                } else {
//@+
                    proof { cb.lemma_ok_down(limit.v(), delta.v()); cb.lemma_ok_down(limit.v(), activation.v()); }
//@-
                    cb.busy_window_rbf(&eoc.kind, delta, activation, max_num_polling_points)
                }
            }/*@R1: )
            .sum() @*/, Ghost(bw_di_at(workload@, *eoc, bw_npp(subchain@), delta.v(), activation.v())))/*@.*/
    };

    // The response-time analysis for a given offset (Theorem 3).
    let rta = |activation: Offset| -> /*+*/(r: /*-*/fixed_point::SearchResult/*+*/)
        requires
            activation.v() < limit.v(), bw_pre(supply, workload@, subchain@, limit.v()), *eoc == subchain@[subchain@.len() - 1], singleton_chain == (subchain@.len() == 1),
            forall |d: Duration, a: Offset| d.v() <= limit.v() && a.v() <= limit.v() ==> #[trigger] req_bwi(&bw_interference, d, a),
            forall |d: Duration, a: Offset, s: Service| #[trigger] ens_bwi(&bw_interference, d, a, s) ==> s.v() == bw_di(workload@, *eoc, bw_npp(subchain@), d.v(), a.v()),
        ensures res_view(r) == bw_f(supply, workload@, *eoc, bw_npp(subchain@), subchain@.len() == 1, limit.v(), activation.v())
    /*-*/{ /*@probe*/
//@+
        proof { let e = *eoc; assert(e.ok(limit.v())); e.lemma_ok_down(limit.v(), activation.v()); e.lemma_ok(limit.v(), activation.v() + 1); }
//@-
        // Step 1: bound the starting time S*.
        let si = eoc.self_interference_rbf(activation);

        let rhs_S_star = |S_star: Duration| /*+*/-> (s: Service)
            requires
                1 <= S_star.v() <= limit.v(), activation.v() < limit.v(), bw_pre(supply, workload@, subchain@, limit.v()), *eoc == subchain@[subchain@.len() - 1],
                si.v() == eoc.cost_model.cost(eoc.selfint_a(activation.v())),
                forall |d: Duration, a: Offset| d.v() <= limit.v() && a.v() <= limit.v() ==> #[trigger] req_bwi(&bw_interference, d, a),
                forall |d: Duration, a: Offset, s: Service| #[trigger] ens_bwi(&bw_interference, d, a, s) ==> s.v() == bw_di(workload@, *eoc, bw_npp(subchain@), d.v(), a.v()),
            ensures s.v() == bw_w_st(workload@, *eoc, bw_npp(subchain@), activation.v())(S_star.v())
        /*-*/{ /*@probe*/
//@+
            proof { assert(req_bwi(&bw_interference, S_star, activation)); }
//@-
            let di = bw_interference(S_star, activation);
//@+
            proof {
                assert(ens_bwi(&bw_interference, S_star, activation, di));
                let e = *eoc; assert(e.ok(limit.v())); e.lemma_ok(limit.v(), activation.v() + 1); e.cost_model.cost_props();
                assert(e.cost_model.cost(e.selfint_a(activation.v())) <= e.cost_model.cost(e.arrival_bound.na(limit.v() + 1) + 1));
            }
//@-
            EPSILON_SERVICE + di + si
        };

//@+
        proof {
            let ws = bw_w_st(workload@, *eoc, bw_npp(subchain@), activation.v());
            assert(mono(ws)) by {
                let e = *eoc; assert(e.ok(limit.v())); e.lemma_ok(limit.v(), activation.v() + 1);
                assert forall |x: int, y: int| 1 <= x <= y implies 0 <= #[trigger] ws(x) <= #[trigger] ws(y) by { lemma_bw_di_mono(workload@, e, bw_npp(subchain@), x, activation.v(), y, activation.v(), limit.v()); }
            }
            assert(clo_is(&rhs_S_star, ws));
            lemma_scan(sbf_of(supply), 0, ws, 0, limit.v());
            assert forall |d: Duration, s: Service| 1 <= d.v() <= limit.v() && #[trigger] rhs_S_star.ensures((d,), s) implies
                supply.st(s.v()) <= u64::MAX && supply.ps_ok(supply.st(s.v())) by {
                let e = *eoc; e.lemma_ok(limit.v(), activation.v() + 1); e.cost_model.cost_props();
                lemma_bw_di_mono(workload@, e, bw_npp(subchain@), d.v(), activation.v(), limit.v(), limit.v(), limit.v());
                assert(e.cost_model.cost(e.selfint_a(activation.v())) <= e.cost_model.cost(e.arrival_bound.na(limit.v() + 1) + 1));
                assert(0 <= s.v() <= bw_dmax(workload@, subchain@, limit.v()));
            }
        }
//@-
        let S_star = fixed_point::search(supply, limit, rhs_S_star)?;

        // Step 2: find the response-time bound R*.

        let supply_star = supply.provided_service(S_star);
        let omega = eoc.marginal_execution_cost(activation);
//@+
        proof {
            let e = *eoc; e.cost_model.cost_props(); e.lemma_ok(limit.v(), activation.v() + 1);
            assert(omega.v() <= e.cost_model.cost(e.selfint_a(activation.v()) + 1));
            assert(e.cost_model.cost(e.selfint_a(activation.v()) + 1) <= e.cost_model.cost(e.arrival_bound.na(limit.v() + 1) + 1));
            supply.sbf_props(); assert(supply.sbf(S_star.v()) <= supply.sbf(0) + (S_star.v() - 0));
            lemma_bw_di_mono(workload@, e, bw_npp(subchain@), limit.v(), limit.v(), limit.v(), limit.v(), limit.v());
            assert(sat(supply.sbf(S_star.v()) - 1) + omega.v() <= bw_dmax(workload@, subchain@, limit.v()));
        }
//@-
        let rhs_F_star = supply_star.saturating_sub(EPSILON_SERVICE) + omega;
        let F_star = supply.service_time(rhs_F_star);

        // the response-time bound
        if singleton_chain {
            // special case: A = t_a, so we can subtract in Theorem 3
            Ok(F_star.saturating_sub(activation.since_time_zero()))
        } else {
            // we don't know A, so safely approximate it as A=0
            Ok(F_star)
        }
    };

    // Bound the maximum offset (Lemma 18).
    let rhs_max = |ta_star: Duration| /*+*/-> (s: Service)
        requires
            1 <= ta_star.v() <= limit.v(), bw_pre(supply, workload@, subchain@, limit.v()), *eoc == subchain@[subchain@.len() - 1],
            forall |d: Duration, a: Offset| d.v() <= limit.v() && a.v() <= limit.v() ==> #[trigger] req_bwi(&bw_interference, d, a),
            forall |d: Duration, a: Offset, s: Service| #[trigger] ens_bwi(&bw_interference, d, a, s) ==> s.v() == bw_di(workload@, *eoc, bw_npp(subchain@), d.v(), a.v()),
        ensures s.v() == bw_w_max(workload@, *eoc, bw_npp(subchain@))(ta_star.v())
    /*-*/{ /*@probe*/
//@+
        proof { let e = *eoc; assert(e.ok(limit.v())); e.lemma_ok_down(limit.v(), ta_star.v()); e.lemma_ok(limit.v(), ta_star.v()); e.cost_model.cost_props();
                assert(e.cost_model.cost(e.arrival_bound.na(ta_star.v())) <= e.cost_model.cost(e.arrival_bound.na(limit.v() + 1) + 1));
                assert(req_bwi(&bw_interference, ta_star, Offset { val: ta_star.val })); }
//@-
        let si = eoc.own_workload_rbf(Offset::from_time_zero(ta_star));
        let di = bw_interference(ta_star, Offset::from_time_zero(ta_star));
//@+
        proof { assert(ens_bwi(&bw_interference, ta_star, Offset { val: ta_star.val }, di)); }
//@-
        EPSILON_SERVICE + di + si
    };
//@+
    proof {
        let wm = bw_w_max(workload@, *eoc, bw_npp(subchain@));
        assert(mono(wm)) by {
            let e = *eoc; assert(e.ok(limit.v())); e.arrival_bound.na_props(); e.cost_model.cost_props();
            assert forall |x: int, y: int| 1 <= x <= y implies 0 <= #[trigger] wm(x) <= #[trigger] wm(y) by {
                lemma_bw_di_mono(workload@, e, bw_npp(subchain@), x, x, y, y, limit.v());
                assert(0 <= e.arrival_bound.na(x) <= e.arrival_bound.na(y));
            }
        }
        assert forall |d: Duration, a: Offset| d.v() <= limit.v() && a.v() <= limit.v() implies #[trigger] req_bwi(&bw_interference, d, a) by {}
        assert forall |d: Duration, a: Offset, s: Service| #[trigger] ens_bwi(&bw_interference, d, a, s) implies s.v() == bw_di(workload@, *eoc, bw_npp(subchain@), d.v(), a.v()) by {}
        assert(clo_is(&rhs_max, wm));
        lemma_scan(sbf_of(supply), 0, wm, 0, limit.v());
        assert forall |d: Duration, s: Service| 1 <= d.v() <= limit.v() && #[trigger] rhs_max.ensures((d,), s) implies
            supply.st(s.v()) <= u64::MAX && supply.ps_ok(supply.st(s.v())) by {
            let e = *eoc; e.lemma_ok(limit.v(), d.v()); e.cost_model.cost_props();
            lemma_bw_di_mono(workload@, e, bw_npp(subchain@), d.v(), d.v(), limit.v(), limit.v(), limit.v());
            assert(e.cost_model.cost(e.arrival_bound.na(d.v())) <= e.cost_model.cost(e.arrival_bound.na(limit.v() + 1) + 1));
            assert(0 <= s.v() <= bw_dmax(workload@, subchain@, limit.v()));
        }
    }
//@-
    let max_offset = Offset::from_time_zero(fixed_point::search(supply, limit, rhs_max)?);

    // Define the search space of relevant offsets (Lemma 19).
    // First, find all relevant steps.
    /*@R10: let all_steps = workload
        .iter()
        // we only care about polled callbacks and the end of the
        // subchain under analysis
        .filter(|cb| cb.kind.is_pp() || std::ptr::eq(*eoc, *cb))
        .map(|cb| {
            cb.arrival_bound.steps_iter().map(move |delta| {
                if std::ptr::eq(*eoc, cb) {
                    // This is the callback under analysis.
                    // The steps_iter() gives us the values of delta such that
                    // number_arrivals(delta-1) < number_arrivals_delta().
                    // However, we are looking for t_a such that
                    // number_arrivals(t_a) < number_arrivals(t_a + 1).
                    // Thus, we need to subtract one from delta.
                    Offset::from_time_zero(delta.saturating_sub(EPSILON))
                } else {
                    // This is some interfering polled callback.
                    // The steps_iter() gives us the values of delta such that
                    // number_arrivals(delta-1) < number_arrivals_delta().
                    // That's exactly what we are looking for here, so we
                    // can just pass it through.
                    Offset::from_time_zero(delta)
                }
            })
        })
        .kmerge()
        .dedup();

    // In a debug build, let's double-check the steps computed above
    // with a brute-force solution.
    #[cfg(debug_assertions)]
    let mut brute_force_steps = (0..)
        .filter(|t_a| {
            workload.iter().any(|cb|
                // Negated conditions of Lemma 19.
                if std::ptr::eq(*eoc, cb) {
                    cb.arrival_bound.number_arrivals(Duration::from(*t_a)) !=
                    cb.arrival_bound.number_arrivals(Duration::from(*t_a + 1))
                } else {
                    cb.kind.is_pp() && *t_a > 0 &&
                    cb.arrival_bound.number_arrivals(Duration::from(*t_a - 1)) !=
                    cb.arrival_bound.number_arrivals(Duration::from(*t_a))
                }
            )
        })
        .map(Offset::from)
        .peekable();

    // In a debug build, shadow all_steps with the checked version.
    #[cfg(debug_assertions)]
    let all_steps = {
        let mut wrapped = all_steps.peekable();
        // Manually check the first point to make sure we're not calling
        // zip on an empty iterator.
        // (if there is no step at all, the unbounded brute-force enumeration would never return)
        if wrapped.peek().is_some() {
            assert_eq!(brute_force_steps.peek(), wrapped.peek());
        }
        wrapped.zip(brute_force_steps).map(|(a, bf)| {
            assert_eq!(a, bf);
            a
        })
    };

    // The search space is given by t_a=0 and each relevant step below max_offset.
    let search_space = all_steps.take_while(|activation| *activation < max_offset);

    // Apply the offset-specific RTA to each offset in the search space and
    // return the maximum response-time bound.
    fixed_point::max_response_time(search_space.map(rta)) @*/let vf_res = vf_tail_bw(workload, *eoc, max_offset, rta);
    proof {
        let g = |a: int| bw_f(supply, workload@, *eoc, bw_npp(subchain@), subchain@.len() == 1, limit.v(), a);
        assert(rta_is_bw(&rta, g, max_offset.v()));
    }
    vf_res/*@.*/
}
//@end

} // verus!
