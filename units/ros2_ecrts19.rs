// unit part: src/ros2/ecrts19.rs (C07): the generic driver bound_response_time and the four analyses
verus! {

// ---- spec: closures of two arguments
pub open spec fn clo2_is<G: Fn(Offset, Duration) -> Service>(g: &G, w2: spec_fn(int, int) -> int) -> bool {
    forall |a: Offset, d: Duration, s: Service| #[trigger] g.ensures((a, d), s) ==> s.v() == w2(a.v(), d.v())
}
/// requires / ensures of a two-argument closure, through a reference (mentioning the closure by value inside a nested
/// closure's contract would move it)
pub open spec fn req2<G: Fn(Offset, Duration) -> Service>(g: &G, a: Offset, d: Duration) -> bool { g.requires((a, d)) }
pub open spec fn ens2<G: Fn(Offset, Duration) -> Service>(g: &G, a: Offset, d: Duration, s: Service) -> bool { g.ensures((a, d), s) }
// reference-taking wrappers: a ghost function mentioned by value inside a nested exec closure's contract would be moved
pub open spec fn app2(w2: &spec_fn(int, int) -> int, a: int, r: int) -> int { (*w2)(a, r) }
pub open spec fn at_off_r(w2: &spec_fn(int, int) -> int, a: int) -> spec_fn(int) -> int { at_off(*w2, a) }
pub open spec fn clo2_is_r<G: Fn(Offset, Duration) -> Service>(g: &G, w2: &spec_fn(int, int) -> int) -> bool { clo2_is(g, *w2) }
pub open spec fn mono2_r(w2: &spec_fn(int, int) -> int) -> bool { mono2(*w2) }
pub open spec fn not_met_r(st: spec_fn(int) -> int, dem: spec_fn(int) -> int, w2: &spec_fn(int, int) -> int, max_bw: int, limit: int) -> bool { not_met_before(st, dem, *w2, max_bw, limit) }
pub open spec fn at_off(w2: spec_fn(int, int) -> int, a: int) -> spec_fn(int) -> int { |x: int| w2(a, x) }
/// non-negative and non-decreasing in the response-time argument, for every offset
pub open spec fn mono2(w2: spec_fn(int, int) -> int) -> bool { forall |a: int| a >= 0 ==> #[trigger] mono(at_off(w2, a)) }
/// error-first maximum of per-offset least solutions over the demand steps A with A <= max (note: <=, Lemma 7)
pub open spec fn fold_upto(f: spec_fn(int) -> int, g: spec_fn(int) -> Option<int>, a: int) -> Option<int>
    decreases a
{
    if a <= 0 { Some(0) } else if is_step(f, a - 1) { comb(fold_upto(f, g, a - 1), g(a - 1)) } else { fold_upto(f, g, a - 1) }
}
/// C07 (ECRTS'19 analyses): maximum busy window by linear scan; for every demand step offset A <= max_bw the least
/// response time by linear scan of sbf(A + r) >= w2(A, max(r,1)); maximum; None iff a scan finds nothing <= limit
pub open spec fn ecrts_spec(sbf: spec_fn(int) -> int, dem: spec_fn(int) -> int, wb: spec_fn(int) -> int, w2: spec_fn(int, int) -> int, limit: int) -> Option<int> {
    match scan(sbf, 0, wb, 0, limit) {
        None => None,
        Some(max_bw) => fold_upto(dem, |a: int| scan(sbf, a, at_off(w2, a), 0, limit), max_bw + 1),
    }
}
/// "the offset demand at a step offset A <= max_bw is not met before A" (C20: the subtraction inside search_with_offset)
pub open spec fn not_met_before(st: spec_fn(int) -> int, dem: spec_fn(int) -> int, w2: spec_fn(int, int) -> int, max_bw: int, limit: int) -> bool {
    forall |a: int, r: int| #![trigger w2(a, r)] 0 <= a <= max_bw && is_step(dem, a) && 1 <= r <= limit ==> st(w2(a, r)) >= a
}
pub open spec fn st_of<S: SupplyBound + ?Sized>(s: &S) -> spec_fn(int) -> int { |x: int| s.st(x) }

/// fold_upto is the FP-family fold over the step offsets below a
pub proof fn lemma_fold_upto_is_fold_steps(f: spec_fn(int) -> int, g: spec_fn(int) -> Option<int>, a: int)
    ensures fold_upto(f, g, a) == fold_steps(f, g, a)
    decreases a
{ if a > 0 { lemma_fold_upto_is_fold_steps(f, g, a - 1); } }
/// interval length -> offset (what Offset::closed_from_time_zero computes)
pub open spec fn off_of(d: Duration) -> Offset { Offset { val: (d.val - 1) as u64 } }


/// dmax: the largest demand that is ever handed to service_time
pub open spec fn supply_env<S: SupplyBound + ?Sized>(supply: &S, limit: int, dmax: int) -> bool {
    &&& supply.wf() && 1 <= limit && 2 * limit < u64::MAX
    &&& forall |d: int| 0 <= d <= dmax ==> #[trigger] supply.st(d) <= u64::MAX && supply.ps_ok(supply.st(d))
    &&& forall |t: int| 0 <= t <= 2 * limit + 1 ==> #[trigger] supply.ps_ok(t)
}

//@item src/ros2/ecrts19.rs :: fn bound_response_time
fn bound_response_time<SBF, RBF, F, G>(
    supply: &SBF,
    demand: &RBF,
    bw_demand_bound: F,
    offset_demand_bound: G,
    limit: Duration,
/*+*/    vf_n: usize,                                // R21: number of step candidates observed
    Ghost(wb): Ghost<spec_fn(int) -> int>,      // ghost (erased): the functions the two closures compute
    Ghost(w2): Ghost<spec_fn(int, int) -> int>,
    Ghost(dmax): Ghost<int>,                    // ghost: the largest demand handed to the supply
/*-*/) -> /*+*/(res: /*-*/SearchResult/*+*/)/*-*/
where
    SBF: SupplyBound + ?Sized,
    RBF: /*@R22: RequestBound @*/RequestSteps/*@.*/ + ?Sized,
    F: Fn(Duration) -> Service,
    G: Fn(Offset, Duration) -> Service,
//@+
    requires
        supply_env(supply, limit.v(), dmax), demand.wf(), demand.rsteps_ok(vf_n as int), demand.rsteps_hz(vf_n as int) >= limit.v() + 1,
        forall |x: int| 1 <= x <= limit.v() ==> #[trigger] wb(x) <= dmax,
        forall |a: int, x: int| 0 <= a <= limit.v() && 1 <= x <= limit.v() ==> #[trigger] w2(a, x) <= dmax,
        forall |d: Duration| 1 <= d.v() <= limit.v() ==> #[trigger] bw_demand_bound.requires((d,)),
        forall |a: Offset, d: Duration| a.v() <= limit.v() && 1 <= d.v() <= limit.v() ==> #[trigger] req2(&offset_demand_bound, a, d),
        clo_is(&bw_demand_bound, wb), mono(wb), clo2_is(&offset_demand_bound, w2), mono2(w2),
        // "demand not met before the offset" inside the busy window (C20: the subtraction in search_with_offset)
        forall |l: int| scan(sbf_of(supply), 0, wb, 0, limit.v()) == Some(l) ==> not_met_before(st_of(supply), rbf_fn(demand), w2, l, limit.v()),
    ensures
        res_view(res) == ecrts_spec(sbf_of(supply), rbf_fn(demand), wb, w2, limit.v())
//@-
{
//@+
    proof {
        assert forall |d: Duration, s: Service| 1 <= d.v() <= limit.v() && #[trigger] bw_demand_bound.ensures((d,), s) implies
            supply.st(s.v()) <= u64::MAX && supply.ps_ok(supply.st(s.v())) by { assert(s.v() == wb(d.v())); assert(wb(d.v()) <= dmax); }
        assert(supply.ps_ok(limit.v()));
        lemma_scan(sbf_of(supply), 0, wb, 0, limit.v());
    }
//@-
    // find a bound on the maximum busy-window
    let max_bw = fixed_point::search(supply, limit, bw_demand_bound)?;
//@+
    proof { assert(max_bw.v() <= limit.v()); assert(not_met_before(st_of(supply), rbf_fn(demand), w2, max_bw.v(), limit.v())); }
//@-
    // Consider the search space of relevant offsets based on Lemma 7.
    // That is, we have to look at all points where the demand curve "steps".
//@+
    let ghost rf = rbf_fn(demand);
    let ghost hz = demand.rsteps_hz(vf_n as int);
    let ghost mx = max_bw.v() + 1;
//@-
    let offsets = demand
        .steps_iter(/*+*/vf_n/*-*/)
        // Note that steps_iter() yields interval lengths, but we are interested in
        // offsets. Since the length of an interval [0, A] is A+1, we need to subtract one
        // to obtain the offset.
        .map(Offset::closed_from_time_zero/*+*/, Ghost(|d: Duration| off_of(d))/*-*/)
        .take_while(|x/*+*/: &Offset/*-*/| /*+*/-> (r: bool) ensures r == (x.v() <= max_bw.v()) { /*@probe*/ /*-*/*x <= Offset::from_time_zero(max_bw)/*+*/ }, Ghost(|x: Offset| x.v() < max_bw.v() + 1)/*-*/);
//@+
    let ghost ss = offsets.0@;
    // the stream of interval lengths that the chain consumed (an unnamed temporary of the expression above)
    let ghost st: Seq<Duration> = choose |st: Seq<Duration>| #[trigger] steps_exact(st, rf, hz) && tw_of(ss, st.map_values(|d: Duration| off_of(d)), mx);
    let ghost offs = st.map_values(|d: Duration| off_of(d));
    proof {
        assert(exists |st: Seq<Duration>| #[trigger] steps_exact(st, rf, hz) && tw_of(ss, st.map_values(|d: Duration| off_of(d)), mx));
        assert forall |i: int| 0 <= i < st.len() implies (#[trigger] offs[i]).val == st[i].val - 1 by { assert(has(st, st[i].v())); }
        lemma_steps_to_offsets(st, rf, hz, offs);
    }
//@-
    // for each relevant offset in the search space,
    /*@R21: let rta_bounds = offsets.map( @*/let vf_rta = /*@.*/|offset/*+*/: Offset/*-*/| /*+*/-> (r: SearchResult)
        requires
            offset.v() <= max_bw.v() <= limit.v(), is_step(rbf_fn(demand), offset.v()), supply_env(supply, limit.v(), dmax),
            forall |a: int, x: int| 0 <= a <= limit.v() && 1 <= x <= limit.v() ==> #[trigger] app2(&w2, a, x) <= dmax,
            forall |a: Offset, d: Duration| a.v() <= limit.v() && 1 <= d.v() <= limit.v() ==> #[trigger] req2(&offset_demand_bound, a, d),
            clo2_is_r(&offset_demand_bound, &w2), mono2_r(&w2),
            not_met_r(st_of(supply), rbf_fn(demand), &w2, max_bw.v(), limit.v()),
        ensures
            res_view(r) == scan(sbf_of(supply), offset.v(), at_off_r(&w2, offset.v()), 0, limit.v())
    /*-*/{ /*@probe*/
        let rhs = |delta/*+*/: Duration/*-*/| /*+*/-> (s: Service)
            requires 1 <= delta.v() <= limit.v(), offset.v() <= limit.v(), forall |a: Offset, d: Duration| a.v() <= limit.v() && 1 <= d.v() <= limit.v() ==> #[trigger] req2(&offset_demand_bound, a, d)
            ensures ens2(&offset_demand_bound, offset, delta, s)
        { proof { assert(req2(&offset_demand_bound, offset, delta)); } /*-*/offset_demand_bound(offset, delta)/*+*/ }/*-*/;
//@+
        proof {
            let wo = at_off_r(&w2, offset.v());
            assert(clo_is(&rhs, wo)) by {
                assert forall |d: Duration, s: Service| #[trigger] rhs.ensures((d,), s) implies s.v() == wo(d.v()) by { assert(ens2(&offset_demand_bound, offset, d, s)); }
            }
            assert(mono(wo));
            lemma_scan(sbf_of(supply), offset.v(), wo, 0, limit.v());
            assert forall |d: Duration, s: Service| 1 <= d.v() <= limit.v() && #[trigger] rhs.ensures((d,), s) implies
                offset.v() <= supply.st(s.v()) <= u64::MAX && supply.ps_ok(supply.st(s.v())) by {
                assert(ens2(&offset_demand_bound, offset, d, s));
                assert(s.v() == wo(d.v()));
                assert(app2(&w2, offset.v(), d.v()) <= dmax);
                assert(st_of(supply)(app2(&w2, offset.v(), d.v())) >= offset.v());
            }
        }
//@-
        fixed_point::search_with_offset(supply, offset, limit, &rhs)
    }/*@R21: );
    max_response_time(rta_bounds) @*/;
    proof {
        assert forall |i: int| 0 <= i < ss.len() implies #[trigger] vf_rta.requires((ss[i],)) by {
            assert(ss[i] == offs[i]);
            assert(off_has(offs, offs[i].v()));
        }
    }
    let rta_bounds = offsets.map_rel(vf_rta);
    let vf_res = max_response_time(rta_bounds.as_slice());
    proof {
        let g = |a: int| scan(sbf_of(supply), a, at_off(w2, a), 0, limit.v());
        lemma_tail_fold(offs, rf, hz, mx, ss, rta_bounds.0@, g, vf_res);
        lemma_fold_upto_is_fold_steps(rf, g, mx);
    }
    vf_res/*@.*/
}
//@end

// ------------------------------------------------------------------ the four analyses
/// busy-window minimality + "the offset demand dominates the busy-window demand at the offset" imply that the demand is
/// not met before the offset (C20: `offset.distance_to(demand_met)` inside search_with_offset cannot underflow)
pub proof fn lemma_not_met<S: SupplyBound + ?Sized>(supply: &S, dem: spec_fn(int) -> int, wb: spec_fn(int) -> int, w2: spec_fn(int, int) -> int, l: int, limit: int)
    requires supply.wf(), mono(wb), scan(sbf_of(supply), 0, wb, 0, limit) == Some(l),
        forall |a: int, r: int| #![trigger w2(a, r)] 0 <= a <= l && is_step(dem, a) && 1 <= r <= limit ==> w2(a, r) >= 1 && (a >= 1 ==> w2(a, r) >= wb(a)),
    ensures not_met_before(st_of(supply), dem, w2, l, limit)
{
    lemma_scan(sbf_of(supply), 0, wb, 0, limit);
    supply.sbf_props();
    assert forall |a: int, r: int| #![trigger w2(a, r)] 0 <= a <= l && is_step(dem, a) && 1 <= r <= limit implies st_of(supply)(w2(a, r)) >= a by {
        let dd = w2(a, r);
        supply.st_props(dd);
        let t = supply.st(dd);
        if t < a {
            if t == 0 { assert(supply.sbf(0) == 0); }
            else { assert(sbf_of(supply)(0 + t) < wb(m1(t))); assert(wb(t) <= wb(a)); }
        }
    }
}
/// interval during which other callbacks can delay the callback under analysis (Lemmas 3, 4/5, 8)
pub open spec fn intf_interval(lw: spec_fn(int) -> int, a: int, r: int) -> int { if r > lw(a + r) { a + r - lw(a + r) + 1 } else { a + 1 } }
pub open spec fn lw_fn<R: RequestBound + ?Sized>(rb: &R) -> spec_fn(int) -> int { |x: int| rb.lw(x) }
/// least WCET in an interval: non-negative and non-increasing once something arrives (holds for RBFs with number_arrivals(1) >= 1)
pub open spec fn lw_antitone(lw: spec_fn(int) -> int) -> bool { forall |x: int, y: int| #![trigger lw(x), lw(y)] 1 <= x <= y ==> 0 <= lw(y) <= lw(x) }
pub proof fn lemma_intf_mono(lw: spec_fn(int) -> int, a: int, r1: int, r2: int)
    requires lw_antitone(lw), a >= 0, 1 <= r1 <= r2
    ensures a + 1 <= intf_interval(lw, a, r1) <= intf_interval(lw, a, r2) <= a + r2 + 1
{
    assert(0 <= lw(a + r2) <= lw(a + r1));
}
pub open spec fn rb_env<R: RequestBound + ?Sized>(rb: &R, limit: int) -> bool { rb.wf() && forall |d: int| 0 <= d <= 2 * limit + 1 ==> #[trigger] rb.rb_ok(d) }

// ---- event source (Lemma 1 / Lemma 6)
pub open spec fn es_w2(dem: spec_fn(int) -> int) -> spec_fn(int, int) -> int { |a: int, r: int| dem(a + 1) }
pub open spec fn es_spec<S: SupplyBound + ?Sized, R: RequestBound + ?Sized>(supply: &S, demand: &R, limit: int) -> Option<int> {
    ecrts_spec(sbf_of(supply), rbf_fn(demand), rbf_fn(demand), es_w2(rbf_fn(demand)), limit)
}

//@item src/ros2/ecrts19.rs :: fn rta_event_source
pub fn rta_event_source<SBF, RBF>(
    supply: &SBF,
    demand: &RBF,
    limit: Duration,
/*+*/vf_n: usize,/*-*/
) -> /*+*/(res: /*-*/fixed_point::SearchResult/*+*/)/*-*/
where
    SBF: SupplyBound + ?Sized,
    RBF: /*@R22: RequestBound @*/RequestSteps/*@.*/ + ?Sized,
//@+
    requires demand.rsteps_ok(vf_n as int), demand.rsteps_hz(vf_n as int) >= limit.v() + 1,
        supply_env(supply, limit.v(), demand.rbf(limit.v() + 1)), rb_env(demand, limit.v())
    ensures res_view(res) == es_spec(supply, demand, limit.v())
//@-
{
    // right-hand side of Lemma 6 --- used to bound the max. busy-window length
    let rhs_busy_window = |delta/*+*/: Duration/*-*/| /*+*/-> (s: Service) requires delta.v() <= limit.v(), rb_env(demand, limit.v()) ensures s.v() == rbf_fn(demand)(delta.v()) { /*@probe*/ /*-*/demand.service_needed(delta)/*+*/ }/*-*/;
    // right-hand side of Lemma 1 --- used to bound the demand for a given offset
    let rhs = |offset: Offset, _response/*+*/: Duration/*-*/| /*+*/-> (s: Service) requires offset.v() <= limit.v(), rb_env(demand, limit.v()), 2 * limit.v() < u64::MAX ensures s.v() == es_w2(rbf_fn(demand))(offset.v(), _response.v()) { /*@probe*/ /*-*/demand.service_needed(offset.closed_since_time_zero())/*+*/ }/*-*/;

//@+
    proof {
        let df = rbf_fn(demand); let w2 = es_w2(df);
        lemma_rbf_fn_like(demand);
        assert(mono(df)) by { assert forall |x: int, y: int| 1 <= x <= y implies 0 <= #[trigger] df(x) <= #[trigger] df(y) by {} }
        assert(clo_is(&rhs_busy_window, df));
        assert(clo2_is(&rhs, w2));
        assert forall |x: int| 1 <= x <= limit.v() implies #[trigger] df(x) <= demand.rbf(limit.v() + 1) by { assert(df(x) <= df(limit.v() + 1)); }
        assert forall |a: int, x: int| 0 <= a <= limit.v() && 1 <= x <= limit.v() implies #[trigger] w2(a, x) <= demand.rbf(limit.v() + 1) by { assert(df(a + 1) <= df(limit.v() + 1)); }
        assert(mono2(w2)) by { assert forall |a: int| a >= 0 implies #[trigger] mono(at_off(w2, a)) by { assert forall |x: int, y: int| 1 <= x <= y implies 0 <= #[trigger] at_off(w2, a)(x) <= #[trigger] at_off(w2, a)(y) by { assert(0 <= df(0) <= df(a + 1)); } } }
        assert forall |l: int| scan(sbf_of(supply), 0, df, 0, limit.v()) == Some(l) implies not_met_before(st_of(supply), df, w2, l, limit.v()) by {
            assert forall |a: int, r: int| #![trigger w2(a, r)] 0 <= a <= l && is_step(df, a) && 1 <= r <= limit.v() implies w2(a, r) >= 1 && (a >= 1 ==> w2(a, r) >= df(a)) by {
                assert(df(a) <= df(a + 1)); assert(0 <= df(0) <= df(a));
            }
            lemma_not_met(supply, df, df, w2, l, limit.v());
        }
    }
//@-
    // solve the fixed point for all steps of the demand curve up to
    // the maximum busy-window length and return the maximum (or divergence)
    bound_response_time(supply, demand, rhs_busy_window, rhs, limit/*+*/, vf_n, Ghost(rbf_fn(demand)), Ghost(es_w2(rbf_fn(demand))), Ghost(demand.rbf(limit.v() + 1))/*-*/)
}
//@end


// ---- timer (Lemma 3), polling-point callback (Lemmas 4/5), processing chain (Lemma 8): shared shape
/// offset demand: own(A + 1) + [self(I)] + other(I) + blocking, with I the interference interval
pub open spec fn intf_w2(own: spec_fn(int) -> int, lw: spec_fn(int) -> int, selfi: spec_fn(int) -> int, other: spec_fn(int) -> int, b: int) -> spec_fn(int, int) -> int {
    |a: int, r: int| own(a + 1) + selfi(intf_interval(lw, a, r)) + other(intf_interval(lw, a, r)) + b
}
pub open spec fn zero_fn() -> spec_fn(int) -> int { |x: int| 0int }
pub proof fn lemma_intf_w2_mono(own: spec_fn(int) -> int, lw: spec_fn(int) -> int, selfi: spec_fn(int) -> int, other: spec_fn(int) -> int, b: int)
    requires rbf_like(own), rbf_like(selfi), rbf_like(other), lw_antitone(lw), b >= 0
    ensures mono2(intf_w2(own, lw, selfi, other, b))
{
    let w2 = intf_w2(own, lw, selfi, other, b);
    assert forall |a: int| a >= 0 implies #[trigger] mono(at_off(w2, a)) by {
        assert forall |x: int, y: int| 1 <= x <= y implies 0 <= #[trigger] at_off(w2, a)(x) <= #[trigger] at_off(w2, a)(y) by {
            lemma_intf_mono(lw, a, x, y);
            let ix = intf_interval(lw, a, x); let iy = intf_interval(lw, a, y);
            assert(0 <= selfi(ix) <= selfi(iy)); assert(0 <= other(ix) <= other(iy)); assert(0 <= own(0) <= own(a + 1));
        }
    }
}
/// the offset demand dominates the busy-window demand own + self + other + b at the offset and is positive at a step of `dem`
pub proof fn lemma_intf_not_met<S: SupplyBound + ?Sized>(supply: &S, dem: spec_fn(int) -> int, own: spec_fn(int) -> int, lw: spec_fn(int) -> int, selfi: spec_fn(int) -> int, other: spec_fn(int) -> int, b: int, wb: spec_fn(int) -> int, limit: int)
    requires supply.wf(), rbf_like(own), rbf_like(selfi), rbf_like(other), lw_antitone(lw), b >= 0, mono(wb),
        forall |x: int| 1 <= x ==> #[trigger] wb(x) == own(x) + selfi(x) + other(x) + b,
        // a step of the demand curve that drives the search space is visible in own + self
        forall |a: int| a >= 0 && #[trigger] is_step(dem, a) ==> own(a + 1) + selfi(a + 1) >= 1,
    ensures forall |l: int| scan(sbf_of(supply), 0, wb, 0, limit) == Some(l) ==> not_met_before(st_of(supply), dem, intf_w2(own, lw, selfi, other, b), l, limit)
{
    let w2 = intf_w2(own, lw, selfi, other, b);
    assert forall |l: int| scan(sbf_of(supply), 0, wb, 0, limit) == Some(l) implies not_met_before(st_of(supply), dem, w2, l, limit) by {
        assert forall |a: int, r: int| #![trigger w2(a, r)] 0 <= a <= l && is_step(dem, a) && 1 <= r <= limit implies w2(a, r) >= 1 && (a >= 1 ==> w2(a, r) >= wb(a)) by {
            lemma_intf_mono(lw, a, r, r);
            let i = intf_interval(lw, a, r);
            assert(selfi(a + 1) <= selfi(i)); assert(other(a + 1) <= other(i)); assert(0 <= other(0) <= other(a + 1));
            assert(own(a + 1) + selfi(a + 1) >= 1);
            if a >= 1 { assert(own(a) <= own(a + 1)); assert(selfi(a) <= selfi(a + 1)); assert(other(a) <= other(a + 1)); }
        }
        lemma_not_met(supply, dem, wb, w2, l, limit);
    }
}
pub open spec fn lw_env<R: RequestBound + ?Sized>(rb: &R) -> bool { lw_antitone(lw_fn(rb)) }

pub open spec fn timer_wb(own: spec_fn(int) -> int, other: spec_fn(int) -> int, b: int) -> spec_fn(int) -> int { |x: int| own(x) + b + other(x) }
/// C07, timer callbacks (Lemma 3): busy window own + blocking + interfering; offset demand own(A+1) + interfering(I) + blocking
pub open spec fn timer_spec<S: SupplyBound + ?Sized, R1: RequestBound + ?Sized, R2: RequestBound + ?Sized>(supply: &S, own: &R1, other: &R2, b: int, limit: int) -> Option<int> {
    ecrts_spec(sbf_of(supply), rbf_fn(own), timer_wb(rbf_fn(own), rbf_fn(other), b), intf_w2(rbf_fn(own), lw_fn(own), zero_fn(), rbf_fn(other), b), limit)
}
pub open spec fn two_dmax<R1: RequestBound + ?Sized, R2: RequestBound + ?Sized>(own: &R1, other: &R2, b: int, limit: int) -> int { own.rbf(2 * limit + 1) + other.rbf(2 * limit + 1) + b }
pub open spec fn two_env<R1: RequestBound + ?Sized, R2: RequestBound + ?Sized>(own: &R1, other: &R2, b: int, limit: int) -> bool {
    &&& rb_env(own, limit) && rb_env(other, limit) && lw_env(own)
    &&& forall |x: int| 0 <= x <= 2 * limit + 1 ==> #[trigger] own.lw(x) <= u64::MAX
    &&& own.rbf(2 * limit + 1) + other.rbf(2 * limit + 1) + b <= u64::MAX
}

//@item src/ros2/ecrts19.rs :: fn rta_timer
pub fn rta_timer<SBF, RBF1, RBF2>(
    supply: &SBF,
    own_demand: &RBF1,
    interfering_demand: &RBF2,
    blocking_bound: Service,
    limit: Duration,
/*+*/vf_n: usize,/*-*/
) -> /*+*/(res: /*-*/fixed_point::SearchResult/*+*/)/*-*/
where
    SBF: SupplyBound + ?Sized,
    RBF1: /*@R22: RequestBound @*/RequestSteps/*@.*/ + ?Sized,
    RBF2: RequestBound + ?Sized,
//@+
    requires own_demand.rsteps_ok(vf_n as int), own_demand.rsteps_hz(vf_n as int) >= limit.v() + 1,
        supply_env(supply, limit.v(), two_dmax(own_demand, interfering_demand, blocking_bound.v(), limit.v())), two_env(own_demand, interfering_demand, blocking_bound.v(), limit.v())
    ensures res_view(res) == timer_spec(supply, own_demand, interfering_demand, blocking_bound.v(), limit.v())
//@-
{
    // right-hand side of Lemma 6
    let rhs_bw = |delta/*+*/: Duration/*-*/| /*+*/-> (s: Service)
        requires delta.v() <= limit.v(), two_env(own_demand, interfering_demand, blocking_bound.v(), limit.v())
        ensures s.v() == timer_wb(rbf_fn(own_demand), rbf_fn(interfering_demand), blocking_bound.v())(delta.v())
    /*-*/{ /*@probe*/
//@+
        proof { own_demand.rbf_props(); interfering_demand.rbf_props(); assert(own_demand.rbf(delta.v()) <= own_demand.rbf(2 * limit.v() + 1)); assert(interfering_demand.rbf(delta.v()) <= interfering_demand.rbf(2 * limit.v() + 1)); }
//@-
        own_demand.service_needed(delta) + blocking_bound + interfering_demand.service_needed(delta)
    };
    // right-hand side of Lemma 3
    let rhs = |offset: Offset, response: Duration| /*+*/-> (s: Service)
        requires offset.v() <= limit.v(), 1 <= response.v() <= limit.v(), 2 * limit.v() < u64::MAX, two_env(own_demand, interfering_demand, blocking_bound.v(), limit.v())
        ensures s.v() == intf_w2(rbf_fn(own_demand), lw_fn(own_demand), zero_fn(), rbf_fn(interfering_demand), blocking_bound.v())(offset.v(), response.v())
    /*-*/{ /*@probe*/
        // length of the prefix interval before the offset
        let prefix = offset.since_time_zero();
        // cost of timer callback
        let own_wcet = Duration::from(own_demand.least_wcet_in_interval(prefix + response));
//@+
        proof {
            own_demand.rbf_props(); interfering_demand.rbf_props();
            assert(lw_fn(own_demand)(offset.v() + response.v()) == own_wcet.v());
            assert(0 <= lw_fn(own_demand)(offset.v() + response.v()) <= lw_fn(own_demand)(offset.v() + response.v()));
            lemma_intf_mono(lw_fn(own_demand), offset.v(), response.v(), response.v());
            let i = intf_interval(lw_fn(own_demand), offset.v(), response.v());
            assert(interfering_demand.rbf(i) <= interfering_demand.rbf(2 * limit.v() + 1));
            assert(own_demand.rbf(offset.v() + 1) <= own_demand.rbf(2 * limit.v() + 1));
        }
//@-
        // determine timeframe during which other callbacks can delay us
        let interference_interval = if response > own_wcet {
            prefix + response - own_wcet + Duration::epsilon()
        } else {
            prefix + Duration::epsilon()
        };
        own_demand.service_needed(prefix + Duration::epsilon())
            + interfering_demand.service_needed(interference_interval)
            + blocking_bound
    };
//@+
    proof {
        let own = rbf_fn(own_demand); let oth = rbf_fn(interfering_demand); let b = blocking_bound.v();
        let wb = timer_wb(own, oth, b); let w2 = intf_w2(own, lw_fn(own_demand), zero_fn(), oth, b);
        lemma_rbf_fn_like(own_demand); lemma_rbf_fn_like(interfering_demand);
        assert(rbf_like(zero_fn()));
        assert(mono(wb)) by { assert forall |x: int, y: int| 1 <= x <= y implies 0 <= #[trigger] wb(x) <= #[trigger] wb(y) by { assert(0 <= own(x) <= own(y)); assert(0 <= oth(x) <= oth(y)); } }
        lemma_intf_w2_mono(own, lw_fn(own_demand), zero_fn(), oth, b);
        assert(clo_is(&rhs_bw, wb)); assert(clo2_is(&rhs, w2));
        assert forall |x: int| 1 <= x <= limit.v() implies #[trigger] wb(x) <= own(2 * limit.v() + 1) + oth(2 * limit.v() + 1) + b by { assert(own(x) <= own(2 * limit.v() + 1)); assert(oth(x) <= oth(2 * limit.v() + 1)); }
        assert forall |a: int, x: int| 0 <= a <= limit.v() && 1 <= x <= limit.v() implies #[trigger] w2(a, x) <= own(2 * limit.v() + 1) + oth(2 * limit.v() + 1) + b by {
            lemma_intf_mono(lw_fn(own_demand), a, x, x);
            let i = intf_interval(lw_fn(own_demand), a, x);
            assert(own(a + 1) <= own(2 * limit.v() + 1)); assert(oth(i) <= oth(2 * limit.v() + 1));
        }

        assert forall |a: int| a >= 0 && #[trigger] is_step(own, a) implies own(a + 1) + zero_fn()(a + 1) >= 1 by { assert(0 <= own(0) <= own(a)); }
        lemma_intf_not_met(supply, own, own, lw_fn(own_demand), zero_fn(), oth, b, wb, limit.v());
    }
//@-
    bound_response_time(supply, own_demand, rhs_bw, rhs, limit/*+*/, vf_n, Ghost(timer_wb(rbf_fn(own_demand), rbf_fn(interfering_demand), blocking_bound.v())), Ghost(intf_w2(rbf_fn(own_demand), lw_fn(own_demand), zero_fn(), rbf_fn(interfering_demand), blocking_bound.v())), Ghost(two_dmax(own_demand, interfering_demand, blocking_bound.v(), limit.v()))/*-*/)
}
//@end

/// C07, polling-point callbacks (Eq. 6, Lemmas 4/5): as the timer analysis without blocking
pub open spec fn pp_spec<S: SupplyBound + ?Sized, R1: RequestBound + ?Sized, R2: RequestBound + ?Sized>(supply: &S, own: &R1, other: &R2, limit: int) -> Option<int> {
    ecrts_spec(sbf_of(supply), rbf_fn(own), timer_wb(rbf_fn(own), rbf_fn(other), 0), intf_w2(rbf_fn(own), lw_fn(own), zero_fn(), rbf_fn(other), 0), limit)
}

//@item src/ros2/ecrts19.rs :: fn rta_polling_point_callback
pub fn rta_polling_point_callback<SBF, RBF1, RBF2>(
    supply: &SBF,
    own_demand: &RBF1,
    interfering_demand: &RBF2,
    limit: Duration,
/*+*/vf_n: usize,/*-*/
) -> /*+*/(res: /*-*/fixed_point::SearchResult/*+*/)/*-*/
where
    SBF: SupplyBound + ?Sized,
    RBF1: /*@R22: RequestBound @*/RequestSteps/*@.*/ + ?Sized,
    RBF2: RequestBound + ?Sized,
//@+
    requires own_demand.rsteps_ok(vf_n as int), own_demand.rsteps_hz(vf_n as int) >= limit.v() + 1,
        supply_env(supply, limit.v(), two_dmax(own_demand, interfering_demand, 0, limit.v())), two_env(own_demand, interfering_demand, 0, limit.v())
    ensures res_view(res) == pp_spec(supply, own_demand, interfering_demand, limit.v())
//@-
{
    // right-hand side of Lemma 6
    let rhs_bw =
        |delta/*+*/: Duration/*-*/| /*+*/-> (s: Service)
            requires delta.v() <= limit.v(), two_env(own_demand, interfering_demand, 0, limit.v())
            ensures s.v() == timer_wb(rbf_fn(own_demand), rbf_fn(interfering_demand), 0)(delta.v())
        { /*@probe*/ proof { own_demand.rbf_props(); interfering_demand.rbf_props(); assert(own_demand.rbf(delta.v()) <= own_demand.rbf(2 * limit.v() + 1)); assert(interfering_demand.rbf(delta.v()) <= interfering_demand.rbf(2 * limit.v() + 1)); }
        /*-*/own_demand.service_needed(delta) + interfering_demand.service_needed(delta)/*+*/ }/*-*/;
    // right-hand side of Eq (6), based on Lemmas 4 and 5
    let rhs = |offset: Offset, response: Duration| /*+*/-> (s: Service)
        requires offset.v() <= limit.v(), 1 <= response.v() <= limit.v(), 2 * limit.v() < u64::MAX, two_env(own_demand, interfering_demand, 0, limit.v())
        ensures s.v() == intf_w2(rbf_fn(own_demand), lw_fn(own_demand), zero_fn(), rbf_fn(interfering_demand), 0)(offset.v(), response.v())
    /*-*/{ /*@probe*/
        // length of the prefix interval before the offset
        let prefix = offset.since_time_zero();
        // cost of pp-based callback under analysis
        let own_wcet = Duration::from(own_demand.least_wcet_in_interval(prefix + response));
//@+
        proof {
            own_demand.rbf_props(); interfering_demand.rbf_props();
            assert(lw_fn(own_demand)(offset.v() + response.v()) == own_wcet.v());
            lemma_intf_mono(lw_fn(own_demand), offset.v(), response.v(), response.v());
            let i = intf_interval(lw_fn(own_demand), offset.v(), response.v());
            assert(interfering_demand.rbf(i) <= interfering_demand.rbf(2 * limit.v() + 1));
            assert(own_demand.rbf(offset.v() + 1) <= own_demand.rbf(2 * limit.v() + 1));
        }
//@-
        // determine timeframe during which other callbacks can delay us
        let interference_interval = if response > own_wcet {
            prefix + response - own_wcet + Duration::epsilon()
        } else {
            prefix + Duration::epsilon()
        };
        own_demand.service_needed(prefix + Duration::epsilon())
            + interfering_demand.service_needed(interference_interval)
    };
//@+
    proof {
        let own = rbf_fn(own_demand); let oth = rbf_fn(interfering_demand);
        let wb = timer_wb(own, oth, 0); let w2 = intf_w2(own, lw_fn(own_demand), zero_fn(), oth, 0);
        lemma_rbf_fn_like(own_demand); lemma_rbf_fn_like(interfering_demand);
        assert(rbf_like(zero_fn()));
        assert(mono(wb)) by { assert forall |x: int, y: int| 1 <= x <= y implies 0 <= #[trigger] wb(x) <= #[trigger] wb(y) by { assert(0 <= own(x) <= own(y)); assert(0 <= oth(x) <= oth(y)); } }
        lemma_intf_w2_mono(own, lw_fn(own_demand), zero_fn(), oth, 0);
        assert(clo_is(&rhs_bw, wb)); assert(clo2_is(&rhs, w2));
        assert forall |x: int| 1 <= x <= limit.v() implies #[trigger] wb(x) <= own(2 * limit.v() + 1) + oth(2 * limit.v() + 1) + 0 by { assert(own(x) <= own(2 * limit.v() + 1)); assert(oth(x) <= oth(2 * limit.v() + 1)); }
        assert forall |a: int, x: int| 0 <= a <= limit.v() && 1 <= x <= limit.v() implies #[trigger] w2(a, x) <= own(2 * limit.v() + 1) + oth(2 * limit.v() + 1) + 0 by {
            lemma_intf_mono(lw_fn(own_demand), a, x, x);
            let i = intf_interval(lw_fn(own_demand), a, x);
            assert(own(a + 1) <= own(2 * limit.v() + 1)); assert(oth(i) <= oth(2 * limit.v() + 1));
        }

        assert forall |a: int| a >= 0 && #[trigger] is_step(own, a) implies own(a + 1) + zero_fn()(a + 1) >= 1 by { assert(0 <= own(0) <= own(a)); }
        lemma_intf_not_met(supply, own, own, lw_fn(own_demand), zero_fn(), oth, 0, wb, limit.v());
    }
//@-
    bound_response_time(supply, own_demand, rhs_bw, rhs, limit/*+*/, vf_n, Ghost(timer_wb(rbf_fn(own_demand), rbf_fn(interfering_demand), 0)), Ghost(intf_w2(rbf_fn(own_demand), lw_fn(own_demand), zero_fn(), rbf_fn(interfering_demand), 0)), Ghost(two_dmax(own_demand, interfering_demand, 0, limit.v()))/*-*/)
}
//@end


/// C07, processing chains (Lemma 8): busy window full chain + other chains; offset demand
/// last(A+1) + prefix(I) + other(I); search space = steps of the full chain
pub open spec fn chain_spec<S: SupplyBound + ?Sized, R1: RequestBound + ?Sized, R2: RequestBound + ?Sized, R3: RequestBound + ?Sized, R4: RequestBound + ?Sized>(
    supply: &S, last: &R1, prefix: &R2, full: &R3, other: &R4, limit: int) -> Option<int> {
    ecrts_spec(sbf_of(supply), rbf_fn(full), timer_wb(rbf_fn(full), rbf_fn(other), 0), intf_w2(rbf_fn(last), lw_fn(last), rbf_fn(prefix), rbf_fn(other), 0), limit)
}
pub open spec fn chain_env<R1: RequestBound + ?Sized, R2: RequestBound + ?Sized, R3: RequestBound + ?Sized, R4: RequestBound + ?Sized>(last: &R1, prefix: &R2, full: &R3, other: &R4, limit: int) -> bool {
    &&& rb_env(last, limit) && rb_env(prefix, limit) && rb_env(full, limit) && rb_env(other, limit) && lw_env(last)
    &&& forall |x: int| 0 <= x <= 2 * limit + 1 ==> #[trigger] last.lw(x) <= u64::MAX
    // the library's debug_assert_eq!: the full chain is its prefix plus its last callback
    &&& forall |x: int| 0 <= x <= 2 * limit + 1 ==> #[trigger] full.rbf(x) == prefix.rbf(x) + last.rbf(x)
    &&& full.rbf(2 * limit + 1) + other.rbf(2 * limit + 1) <= u64::MAX
}

//@item src/ros2/ecrts19.rs :: fn rta_processing_chain
pub fn rta_processing_chain<SBF, RBF1, RBF2, RBF3, RBF4>(
    supply: &SBF,
    chain_last_callback: &RBF1,
    chain_prefix: &RBF2,
    full_chain: &RBF3,
    other_chains: &RBF4,
    limit: Duration,
/*+*/vf_n: usize,/*-*/
) -> /*+*/(res: /*-*/fixed_point::SearchResult/*+*/)/*-*/
where
    SBF: SupplyBound + ?Sized,
    RBF1: RequestBound + ?Sized,
    RBF2: RequestBound + ?Sized,
    RBF3: /*@R22: RequestBound @*/RequestSteps/*@.*/ + ?Sized,
    RBF4: RequestBound + ?Sized,
//@+
    requires full_chain.rsteps_ok(vf_n as int), full_chain.rsteps_hz(vf_n as int) >= limit.v() + 1,
        supply_env(supply, limit.v(), full_chain.rbf(2 * limit.v() + 1) + other_chains.rbf(2 * limit.v() + 1)), chain_env(chain_last_callback, chain_prefix, full_chain, other_chains, limit.v())
    ensures res_view(res) == chain_spec(supply, chain_last_callback, chain_prefix, full_chain, other_chains, limit.v())
//@-
{
    // for bounding the max. busy-window length
    let rhs_bw = |delta/*+*/: Duration/*-*/| /*+*/-> (s: Service)
        requires delta.v() <= limit.v(), chain_env(chain_last_callback, chain_prefix, full_chain, other_chains, limit.v())
        ensures s.v() == timer_wb(rbf_fn(full_chain), rbf_fn(other_chains), 0)(delta.v())
    /*-*/{ /*@probe*/
//@+
        proof {
            full_chain.rbf_props(); other_chains.rbf_props(); chain_prefix.rbf_props(); chain_last_callback.rbf_props();
            assert(full_chain.rbf(delta.v()) <= full_chain.rbf(2 * limit.v() + 1)); assert(other_chains.rbf(delta.v()) <= other_chains.rbf(2 * limit.v() + 1));
            assert(full_chain.rbf(delta.v()) == chain_prefix.rbf(delta.v()) + chain_last_callback.rbf(delta.v()));
        }
//@-
        /*@R7: debug_assert_eq!(
            full_chain.service_needed(delta),
            chain_prefix.service_needed(delta) + chain_last_callback.service_needed(delta)
        ); @*/let vf_lhs = full_chain.service_needed(delta);
        let vf_rhs = chain_prefix.service_needed(delta) + chain_last_callback.service_needed(delta);
        proof { assert(vf_lhs == vf_rhs); }/*@.*/
        full_chain.service_needed(delta) + other_chains.service_needed(delta)
    };

    // right-hand side of Lemma 8
    let rhs = |offset: Offset, response: Duration| /*+*/-> (s: Service)
        requires offset.v() <= limit.v(), 1 <= response.v() <= limit.v(), 2 * limit.v() < u64::MAX, chain_env(chain_last_callback, chain_prefix, full_chain, other_chains, limit.v())
        ensures s.v() == intf_w2(rbf_fn(chain_last_callback), lw_fn(chain_last_callback), rbf_fn(chain_prefix), rbf_fn(other_chains), 0)(offset.v(), response.v())
    /*-*/{ /*@probe*/
        let prefix = offset.since_time_zero();
        let own_demand = chain_last_callback.service_needed(prefix + Duration::epsilon());
        let own_wcet =
            Duration::from(chain_last_callback.least_wcet_in_interval(prefix + response));
//@+
        proof {
            full_chain.rbf_props(); other_chains.rbf_props(); chain_prefix.rbf_props(); chain_last_callback.rbf_props();
            assert(lw_fn(chain_last_callback)(offset.v() + response.v()) == own_wcet.v());
            lemma_intf_mono(lw_fn(chain_last_callback), offset.v(), response.v(), response.v());
            let i = intf_interval(lw_fn(chain_last_callback), offset.v(), response.v());
            assert(other_chains.rbf(i) <= other_chains.rbf(2 * limit.v() + 1));
            assert(chain_prefix.rbf(i) <= chain_prefix.rbf(2 * limit.v() + 1));
            assert(chain_last_callback.rbf(offset.v() + 1) <= chain_last_callback.rbf(2 * limit.v() + 1));
            assert(full_chain.rbf(2 * limit.v() + 1) == chain_prefix.rbf(2 * limit.v() + 1) + chain_last_callback.rbf(2 * limit.v() + 1));
        }
//@-
        // determine timeframe during which other callbacks can delay us
        let interference_interval = if response > own_wcet {
            prefix + response - own_wcet + Duration::epsilon()
        } else {
            prefix + Duration::epsilon()
        };
        let other_demand = other_chains.service_needed(interference_interval);
        let self_interference = chain_prefix.service_needed(interference_interval);
        own_demand + self_interference + other_demand
    };

//@+
    proof {
        let lastf = rbf_fn(chain_last_callback); let pre = rbf_fn(chain_prefix); let full = rbf_fn(full_chain); let oth = rbf_fn(other_chains);
        let wb = timer_wb(full, oth, 0); let w2 = intf_w2(lastf, lw_fn(chain_last_callback), pre, oth, 0);
        lemma_rbf_fn_like(chain_last_callback); lemma_rbf_fn_like(chain_prefix); lemma_rbf_fn_like(full_chain); lemma_rbf_fn_like(other_chains);
        assert(mono(wb)) by { assert forall |x: int, y: int| 1 <= x <= y implies 0 <= #[trigger] wb(x) <= #[trigger] wb(y) by { assert(0 <= full(x) <= full(y)); assert(0 <= oth(x) <= oth(y)); } }
        lemma_intf_w2_mono(lastf, lw_fn(chain_last_callback), pre, oth, 0);
        assert(clo_is(&rhs_bw, wb)); assert(clo2_is(&rhs, w2));
        assert forall |x: int| 1 <= x <= limit.v() implies #[trigger] wb(x) <= full(2 * limit.v() + 1) + oth(2 * limit.v() + 1) by { assert(full(x) <= full(2 * limit.v() + 1)); assert(oth(x) <= oth(2 * limit.v() + 1)); }
        assert forall |a: int, x: int| 0 <= a <= limit.v() && 1 <= x <= limit.v() implies #[trigger] w2(a, x) <= full(2 * limit.v() + 1) + oth(2 * limit.v() + 1) by {
            lemma_intf_mono(lw_fn(chain_last_callback), a, x, x);
            let i = intf_interval(lw_fn(chain_last_callback), a, x);
            assert(lastf(a + 1) <= lastf(2 * limit.v() + 1)); assert(pre(i) <= pre(2 * limit.v() + 1)); assert(oth(i) <= oth(2 * limit.v() + 1));
            assert(full_chain.rbf(2 * limit.v() + 1) == chain_prefix.rbf(2 * limit.v() + 1) + chain_last_callback.rbf(2 * limit.v() + 1));
        }
        lemma_chain_not_met(supply, chain_last_callback, chain_prefix, full_chain, other_chains, limit.v());
    }
//@-
    bound_response_time(supply, full_chain, rhs_bw, rhs, limit/*+*/, vf_n, Ghost(timer_wb(rbf_fn(full_chain), rbf_fn(other_chains), 0)), Ghost(intf_w2(rbf_fn(chain_last_callback), lw_fn(chain_last_callback), rbf_fn(chain_prefix), rbf_fn(other_chains), 0)), Ghost(full_chain.rbf(2 * limit.v() + 1) + other_chains.rbf(2 * limit.v() + 1))/*-*/)
}
//@end

pub proof fn lemma_chain_not_met<S: SupplyBound + ?Sized, R1: RequestBound + ?Sized, R2: RequestBound + ?Sized, R3: RequestBound + ?Sized, R4: RequestBound + ?Sized>(
    supply: &S, last: &R1, prefix: &R2, full: &R3, other: &R4, limit: int)
    requires supply.wf(), limit >= 1, chain_env(last, prefix, full, other, limit)
    ensures forall |l: int| scan(sbf_of(supply), 0, timer_wb(rbf_fn(full), rbf_fn(other), 0), 0, limit) == Some(l) ==>
        not_met_before(st_of(supply), rbf_fn(full), intf_w2(rbf_fn(last), lw_fn(last), rbf_fn(prefix), rbf_fn(other), 0), l, limit)
{
    let lastf = rbf_fn(last); let pre = rbf_fn(prefix); let fullf = rbf_fn(full); let oth = rbf_fn(other);
    let wb = timer_wb(fullf, oth, 0); let w2 = intf_w2(lastf, lw_fn(last), pre, oth, 0);
    lemma_rbf_fn_like(last); lemma_rbf_fn_like(prefix); lemma_rbf_fn_like(full); lemma_rbf_fn_like(other);
    assert(mono(wb)) by { assert forall |x: int, y: int| 1 <= x <= y implies 0 <= #[trigger] wb(x) <= #[trigger] wb(y) by { assert(0 <= fullf(x) <= fullf(y)); assert(0 <= oth(x) <= oth(y)); } }
    assert forall |l: int| scan(sbf_of(supply), 0, wb, 0, limit) == Some(l) implies not_met_before(st_of(supply), fullf, w2, l, limit) by {
        lemma_scan(sbf_of(supply), 0, wb, 0, limit);
        assert forall |a: int, r: int| #![trigger w2(a, r)] 0 <= a <= l && is_step(fullf, a) && 1 <= r <= limit implies w2(a, r) >= 1 && (a >= 1 ==> w2(a, r) >= wb(a)) by {
            lemma_intf_mono(lw_fn(last), a, r, r);
            let i = intf_interval(lw_fn(last), a, r);
            assert(pre(a + 1) <= pre(i)); assert(oth(a + 1) <= oth(i)); assert(0 <= oth(0) <= oth(a + 1));
            assert(full.rbf(a + 1) == prefix.rbf(a + 1) + last.rbf(a + 1));
            assert(0 <= fullf(0) <= fullf(a));
            if a >= 1 { assert(full.rbf(a) == prefix.rbf(a) + last.rbf(a)); assert(lastf(a) <= lastf(a + 1)); assert(pre(a) <= pre(a + 1)); assert(oth(a) <= oth(a + 1)); }
        }
        lemma_not_met(supply, fullf, wb, w2, l, limit);
    }
}

} // verus!
