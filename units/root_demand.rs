//@include vx/prelude.rs
//@include units/time.rs
//@include units/speclib_arith.rs
//@include units/vf_helpers.rs
//@include units/arrival_basic.rs
//@include units/wcet.rs
//@include units/wcet_cache.rs
//@include units/demand.rs
//@include units/wcet_multiframe.rs
//@include units/lemmas_wcet.rs
fn main() {}
