// unit part: arrival::Curve::{extrapolate_next, can_extrapolate, extrapolate, extrapolate_steps,
// extrapolate_with_bound, min_distance} (C13)
verus! {

/// super-additive extension: candidate k for the minimum distance of n+2 jobs, n = current prefix length
pub open spec fn ext_cand_d(d: Seq<Duration>, k: int) -> int { dm(d, k) + dm(d, d.len() - k - 1) }
pub open spec fn ext_next_d(d: Seq<Duration>) -> int { max_range(|k: int| ext_cand_d(d, k), 0, (d.len() / 2) as int) }
pub open spec fn pos(x: int) -> int { if x > 0 { x } else { 0 } }
pub open spec fn nondecr(d: Seq<Duration>) -> bool { forall |i: int, k: int| 0 <= i <= k < d.len() ==> dm(d, i) <= dm(d, k) }
/// `cur` extends `orig`: all values inside the original prefix are unchanged (whole view, not one cell) and
/// every later entry is the tightest super-additive extension of the entries before it
pub open spec fn extends_d(orig: Seq<Duration>, cur: Seq<Duration>) -> bool {
    &&& orig.len() <= cur.len()
    &&& cur.subrange(0, orig.len() as int) =~= orig
    &&& forall |m: int| orig.len() <= m < cur.len() ==> #[trigger] dm(cur, m) == ext_next_d(cur.subrange(0, m))
}
pub proof fn lemma_extends_push(orig: Seq<Duration>, cur: Seq<Duration>, e: Duration)
    requires extends_d(orig, cur), e.v() == ext_next_d(cur)
    ensures extends_d(orig, cur.push(e))
{
    let nxt = cur.push(e);
    assert(nxt.subrange(0, orig.len() as int) =~= cur.subrange(0, orig.len() as int));
    assert forall |m: int| orig.len() <= m < nxt.len() implies #[trigger] dm(nxt, m) == ext_next_d(nxt.subrange(0, m)) by {
        if m < cur.len() { assert(nxt.subrange(0, m) =~= cur.subrange(0, m)); assert(dm(nxt, m) == dm(cur, m)); }
        else { assert(nxt.subrange(0, m) =~= cur); }
    }
}
pub proof fn lemma_ext_next_ge(d: Seq<Duration>)
    requires d.len() >= 2, nondecr(d)
    ensures ext_next_d(d) >= dm(d, 0) + dm(d, d.len() - 1), ext_next_d(d) <= 2 * dm(d, d.len() - 1)
{
    let n = d.len() as int; let g = |k: int| ext_cand_d(d, k);
    lemma_max_range_ge(g, 0, n / 2, 0);
    lemma_max_range_le_all(d, n / 2);
}
pub proof fn lemma_max_range_le_all(d: Seq<Duration>, b: int)
    requires d.len() >= 2, nondecr(d), 0 <= b <= d.len() / 2
    ensures max_range(|k: int| ext_cand_d(d, k), 0, b) <= 2 * dm(d, d.len() - 1)
    decreases b
{
    let n = d.len() as int;
    assert(dm(d, b) <= dm(d, n - 1)); assert(dm(d, n - b - 1) <= dm(d, n - 1));
    if b > 0 { lemma_max_range_le_all(d, b - 1); }
}
/// C13: an event sequence that respects the original prefix respects every extension of it
/// (n+2 consecutive events split at event k+1: the two parts span at least d[k] and d[n-k-1])
pub proof fn lemma_extension_conservative(rel: Seq<int>, orig: Seq<Duration>, cur: Seq<Duration>)
    requires sorted(rel), respects_dmin(rel, orig), extends_d(orig, cur), orig.len() >= 2
    ensures respects_dmin(rel, cur)
    decreases cur.len()
{
    if cur.len() > orig.len() {
        let prev = cur.drop_last();
        assert(prev =~= cur.subrange(0, cur.len() - 1));
        assert(extends_d(orig, prev)) by {
            assert(prev.subrange(0, orig.len() as int) =~= cur.subrange(0, orig.len() as int));
            assert forall |m: int| orig.len() <= m < prev.len() implies #[trigger] dm(prev, m) == ext_next_d(prev.subrange(0, m)) by {
                assert(prev.subrange(0, m) =~= cur.subrange(0, m)); assert(dm(prev, m) == dm(cur, m));
            }
        }
        lemma_extension_conservative(rel, orig, prev);
        let n = prev.len() as int;      // the new entry is index n, i.e. the distance of n + 2 jobs
        assert(dm(cur, n) == ext_next_d(prev));
        assert forall |i: int, nn: int| #![trigger rel[i], dm(cur, nn - 2)] 0 <= i && 2 <= nn <= cur.len() + 1 && i + nn - 1 < rel.len() implies rel[i + nn - 1] - rel[i] >= dm(cur, nn - 2) by {
            if nn - 2 < n { assert(dm(cur, nn - 2) == dm(prev, nn - 2)); assert(rel[i + nn - 1] - rel[i] >= dm(prev, nn - 2)); }
            else {
                // nn == n + 2: every candidate split is a lower bound on the span
                lemma_span_ge_cands(rel, prev, i, n / 2);
            }
        }
    } else {
        assert(cur =~= orig);
    }
}
#[verifier::spinoff_prover]
#[verifier::rlimit(60)]
pub proof fn lemma_span_ge_cands(rel: Seq<int>, d: Seq<Duration>, i: int, b: int)
    requires sorted(rel), respects_dmin(rel, d), d.len() >= 2, 0 <= i, i + d.len() + 1 < rel.len(), 0 <= b <= d.len() / 2
    ensures rel[i + d.len() + 1] - rel[i] >= max_range(|k: int| ext_cand_d(d, k), 0, b)
    decreases b
{
    let n = d.len() as int;
    // split at event k+1 with k = b: events i .. i+b+1 (b+2 events) and i+b+1 .. i+n+1 (n-b+1 events)
    assert(rel[i + (b + 2) - 1] - rel[i] >= dm(d, (b + 2) - 2));
    assert(rel[(i + b + 1) + (n - b + 1) - 1] - rel[i + b + 1] >= dm(d, (n - b + 1) - 2));
    if b > 0 { lemma_span_ge_cands(rel, d, i, b - 1); }
}

impl Curve {
//@item src/arrival/curve.rs :: impl Curve / fn extrapolate_next
    fn extrapolate_next(&self) -> /*+*/(r: /*-*/Duration/*+*/)
        requires self.min_distance@.len() >= 2, nondecr(self.min_distance@), 2 * dm(self.min_distance@, self.min_distance@.len() - 1) <= u64::MAX,
        ensures r.v() == ext_next_d(self.min_distance@)/*-*/ {
        let n = self.min_distance.len();
        /*@R6: assert!( @*/vf_assert(/*@.*/n >= 2);
        // we are using n - k - 1 here because we don't store n=0 and n=1, so the
        // index is offset by 2
        /*@R4: (0..=(n / 2))
            .map( @*/vf_max_range_duration(0, n / 2, /*@.*/|k/*+*/: usize/*-*/| /*+*/-> (r: Duration)
                requires k <= n / 2, n == self.min_distance@.len(), n >= 2, nondecr(self.min_distance@), 2 * dm(self.min_distance@, n - 1) <= u64::MAX
                ensures r.v() == ext_cand_d(self.min_distance@, k as int)
            { /*@probe*/ proof { assert(dm(self.min_distance@, k as int) <= dm(self.min_distance@, n - 1)); assert(dm(self.min_distance@, n - k - 1) <= dm(self.min_distance@, n - 1)); } /*-*/self.min_distance[k] + self.min_distance[n - k - 1]/*+*/ }/*-*//*@R4: )
            .max()
            .unwrap() @*/, Ghost(|k: int| ext_cand_d(self.min_distance@, k)))/*@.*/
    }
//@end

//@item src/arrival/curve.rs :: impl Curve / fn can_extrapolate
    fn can_extrapolate(&self) -> /*+*/(r: /*-*/bool/*+*/) ensures r == (self.min_distance@.len() >= 2)/*-*/ {
        // we cannot meaningfully extrapolate degenerate cases, so let's skip those
        self.min_distance.len() >= 2
    }
//@end

//@item src/arrival/curve.rs :: impl Curve / fn extrapolate
    pub fn extrapolate(&mut self, horizon: Duration)
//@+
        requires
            old(self).min_distance@.len() >= 1, nondecr(old(self).min_distance@),
            // strict progress of the extension needs a positive minimum separation; 64-bit envelope
            old(self).min_distance@.len() >= 2 ==> dm(old(self).min_distance@, 0) >= 1 && 2 * horizon.v() <= u64::MAX,
        ensures
            // C13: values inside the original prefix unchanged, every appended entry is the super-additive extension
            extends_d(old(self).min_distance@, final(self).min_distance@), nondecr(final(self).min_distance@),
            old(self).min_distance@.len() < 2 ==> final(self).min_distance@ == old(self).min_distance@,
            old(self).min_distance@.len() >= 2 ==> dm(final(self).min_distance@, final(self).min_distance@.len() - 1) >= horizon.v(),
            // nothing is appended beyond need: the entry before an appended one is still below the horizon
            forall |m: int| old(self).min_distance@.len() - 1 <= m < final(self).min_distance@.len() - 1 ==> #[trigger] dm(final(self).min_distance@, m) < horizon.v(),
            // every appended entry advances the largest known distance by at least one: at most `horizon - last` entries are appended
            final(self).min_distance@.len() - old(self).min_distance@.len() <= pos(horizon.v() - dm(old(self).min_distance@, old(self).min_distance@.len() - 1)),
//@-
    {
        if self.can_extrapolate() {
            while self.largest_known_distance() < horizon
//@+
                invariant
                    self.min_distance@.len() >= 2, old(self).min_distance@.len() >= 2, nondecr(self.min_distance@),
                    dm(self.min_distance@, 0) >= 1, 2 * horizon.v() <= u64::MAX,
                    extends_d(old(self).min_distance@, self.min_distance@),
                    forall |m: int| old(self).min_distance@.len() - 1 <= m < self.min_distance@.len() - 1 ==> #[trigger] dm(self.min_distance@, m) < horizon.v(),
                    (self.min_distance@.len() - old(self).min_distance@.len()) + pos(horizon.v() - dm(self.min_distance@, self.min_distance@.len() - 1)) <= pos(horizon.v() - dm(old(self).min_distance@, old(self).min_distance@.len() - 1)),
                decreases (if dm(self.min_distance@, self.min_distance@.len() - 1) < horizon.v() { horizon.v() - dm(self.min_distance@, self.min_distance@.len() - 1) } else { 0 })
//@-
            {
//@+
                let ghost d0 = self.min_distance@;
                proof { lemma_ext_next_ge(d0); }
//@-
                self.min_distance.push(self.extrapolate_next())
//@+
                ; proof {
                    let d1 = self.min_distance@;
                    lemma_extends_push(old(self).min_distance@, d0, d1[d1.len() - 1]);
                    assert(d1 =~= d0.push(d1[d1.len() - 1]));
                    assert(dm(d1, d1.len() - 1) == ext_next_d(d0));
                    assert(dm(d1, 0) == dm(d0, 0));
                    assert(dm(d1, d1.len() - 1) >= 1 + dm(d0, d0.len() - 1));
                    assert(horizon.v() - dm(d1, d1.len() - 1) < horizon.v() - dm(d0, d0.len() - 1));
                    assert(dm(d0, d0.len() - 1) < horizon.v());
                    assert forall |i: int, k: int| 0 <= i <= k < d1.len() implies dm(d1, i) <= dm(d1, k) by {
                        if k < d0.len() { assert(dm(d0, i) <= dm(d0, k)); } else if i < d0.len() { assert(dm(d0, i) <= dm(d0, d0.len() - 1)); }
                    }
                    assert forall |m: int| old(self).min_distance@.len() - 1 <= m < d1.len() - 1 implies #[trigger] dm(d1, m) < horizon.v() by {
                        if m < d0.len() - 1 { assert(dm(d0, m) < horizon.v()); } else { assert(dm(d1, m) == dm(d0, d0.len() - 1)); }
                    }
                }
//@-
            }
        }
//@+
        proof { if old(self).min_distance@.len() < 2 { assert(self.min_distance@ =~= old(self).min_distance@); } }
//@-
    }
//@end

//@item src/arrival/curve.rs :: impl Curve / fn extrapolate_steps
    pub fn extrapolate_steps(&mut self, n: usize)
//@+
        requires
            old(self).min_distance@.len() >= 1, nondecr(old(self).min_distance@),
            // 64-bit envelope: entries of the extension grow at most linearly in the index
            old(self).min_distance@.len() >= 2 ==> (n + old(self).min_distance@.len() + 2) * dm(old(self).min_distance@, old(self).min_distance@.len() - 1) <= u64::MAX / 2,
        ensures
            extends_d(old(self).min_distance@, final(self).min_distance@), nondecr(final(self).min_distance@),
            final(self).min_distance@.len() == (if old(self).min_distance@.len() >= 2 && old(self).min_distance@.len() < n { n as nat } else { old(self).min_distance@.len() }),
//@-
    {
//@+
        proof {
            let d = self.min_distance@; let mm = dm(d, d.len() - 1);
            assert forall |i: int| 0 <= i < d.len() implies #[trigger] dm(d, i) <= (i + 1) * mm by {
                assert(dm(d, i) <= mm);
                lemma_mul_inequality(1, i + 1, mm);
            }
        }
//@-
        if self.can_extrapolate() {
            while self.jobs_in_largest_known_distance() < n
//@+
                invariant
                    self.min_distance@.len() >= 2, old(self).min_distance@.len() >= 2, nondecr(self.min_distance@),
                    extends_d(old(self).min_distance@, self.min_distance@),
                    self.min_distance@.len() == old(self).min_distance@.len() || self.min_distance@.len() <= n,
                    (n + old(self).min_distance@.len() + 2) * dm(old(self).min_distance@, old(self).min_distance@.len() - 1) <= u64::MAX / 2,
                    // envelope: entry i is at most (i + 1) times the largest original distance
                    forall |i: int| 0 <= i < self.min_distance@.len() ==> #[trigger] dm(self.min_distance@, i) <= (i + 1) * dm(old(self).min_distance@, old(self).min_distance@.len() - 1),
                decreases n - self.min_distance@.len()
//@-
            {
//@+
                let ghost d0 = self.min_distance@;
                let ghost mm = dm(old(self).min_distance@, old(self).min_distance@.len() - 1);
                proof {
                    lemma_ext_next_ge(d0);
                    let len = d0.len() as int;
                    assert(dm(d0, len - 1) <= len * mm);
                    assert(len * mm <= (n + old(self).min_distance@.len() + 2) * mm) by { lemma_mul_inequality(len, (n + old(self).min_distance@.len() + 2) as int, mm); }
                    lemma_ext_le_lin(d0, mm, len / 2);
                }
//@-
                self.min_distance.push(self.extrapolate_next())
//@+
                ; proof {
                    let d1 = self.min_distance@;
                    lemma_extends_push(old(self).min_distance@, d0, d1[d1.len() - 1]);
                    assert(d1 =~= d0.push(d1[d1.len() - 1]));
                    assert forall |i: int, k: int| 0 <= i <= k < d1.len() implies dm(d1, i) <= dm(d1, k) by {
                        if k < d0.len() { assert(dm(d0, i) <= dm(d0, k)); } else if i < d0.len() { assert(dm(d0, i) <= dm(d0, d0.len() - 1)); }
                    }
                    assert forall |i: int| 0 <= i < d1.len() implies #[trigger] dm(d1, i) <= (i + 1) * mm by { if i < d0.len() { assert(dm(d1, i) == dm(d0, i)); } }
                }
//@-
            }
        }
//@+
        proof {
            if old(self).min_distance@.len() < 2 { assert(self.min_distance@ =~= old(self).min_distance@); }
        }
//@-
    }
//@end

//@item src/arrival/curve.rs :: impl Curve / fn extrapolate_with_bound
    pub fn extrapolate_with_bound(&mut self, bound: (Duration, usize))
//@+
        requires
            bound.0.v() >= 1, old(self).min_distance@.len() < usize::MAX - 2, nondecr(old(self).min_distance@),
            old(self).min_distance@.len() >= 2 ==> 2 * dm(old(self).min_distance@, old(self).min_distance@.len() - 1) <= u64::MAX,
        ensures
            old(self).min_distance@.len() + 2 != bound.1 ==> final(self).min_distance@ == old(self).min_distance@,
            old(self).min_distance@.len() + 2 == bound.1 ==> final(self).min_distance@.len() == old(self).min_distance@.len() + 1
                && final(self).min_distance@.subrange(0, old(self).min_distance@.len() as int) =~= old(self).min_distance@
                && dm(final(self).min_distance@, old(self).min_distance@.len() as int) == (if old(self).min_distance@.len() >= 2 {
                        let e = ext_next_d(old(self).min_distance@); if bound.0.v() - 1 >= e { bound.0.v() - 1 } else { e } } else { bound.0.v() - 1 }),
//@-
    {
        let (delta, njobs) = bound;
        // We subtract epsilon since we store the distance
        // between jobs, not the interval length.
        let dmin = delta - Duration::epsilon();
        // check that we've been given the expected upper bound
        // (+ 2 because we don't store the values for 0 and 1 jobs)
        if self.min_distance.len() + 2 == njobs {
            if self.can_extrapolate() {
                let extrapolated = self.extrapolate_next();
                self.min_distance.push(dmin.max(extrapolated))
            } else {
                // If we cannot extrapolate, simply take the given bound.
                self.min_distance.push(dmin)
            }
        }
    }
//@end

//@item src/arrival/curve.rs :: impl Curve / fn min_distance
    pub fn min_distance(&self, n: usize) -> /*+*/(r: /*-*/Duration/*+*/)
        requires self.min_distance@.len() >= 1
        ensures r.v() == (if n > 1 { dm(self.min_distance@, if n - 2 < self.min_distance@.len() - 1 { n - 2 } else { self.min_distance@.len() - 1 }) } else { 0 })/*-*/ {
        if n > 1 {
            // account for the fact that we store distances only for 2+ jobs
            self.min_distance[/*@R12: (n - 2).min(self.min_distance.len() - 1) @*/vf_usize_min(n - 2, self.min_distance.len() - 1)/*@.*/]
        } else {
            Duration::zero()
        }
    }
//@end
}

pub proof fn lemma_ext_le_lin(d: Seq<Duration>, mm: int, b: int)
    requires d.len() >= 2, 0 <= b <= d.len() / 2, mm >= 0, forall |i: int| 0 <= i < d.len() ==> #[trigger] dm(d, i) <= (i + 1) * mm
    ensures max_range(|k: int| ext_cand_d(d, k), 0, b) <= (d.len() + 1) * mm
    decreases b
{
    let n = d.len() as int;
    assert(dm(d, b) <= (b + 1) * mm); assert(dm(d, n - b - 1) <= (n - b - 1 + 1) * mm);
    assert((b + 1) * mm + (n - b) * mm == (n + 1) * mm) by { lemma_mul_is_distributive_add_other_way(mm, b + 1, n - b); }
    if b > 0 { lemma_ext_le_lin(d, mm, b - 1); }
}
/// usize::min (Ord::min on usize), R12
pub fn vf_usize_min(a: usize, b: usize) -> (r: usize) ensures r == (if a <= b { a } else { b }) { if a <= b { a } else { b } }

} // verus!
