//@include vx/prelude.rs
//@include units/time.rs
//@include units/speclib_arith.rs
//@include units/vf_helpers.rs
//@include units/vf_stream.rs
//@include units/arrival_basic.rs
//@include units/arrival_steps.rs
//@include units/arrival_steps_agg.rs
fn main() {}
