// C19 / C17 lemmas for the ECRTS'19 analyses: the evaluator depends on the supply only through its supply-bound function
verus! {

pub proof fn lemma_fold_upto_ext(f: spec_fn(int) -> int, g1: spec_fn(int) -> Option<int>, g2: spec_fn(int) -> Option<int>, a: int)
    requires forall |x: int| 0 <= x < a ==> #[trigger] g1(x) == g2(x)
    ensures fold_upto(f, g1, a) == fold_upto(f, g2, a)
    decreases a
{ if a > 0 { lemma_fold_upto_ext(f, g1, g2, a - 1); assert(g1(a - 1) == g2(a - 1)); } }
/// C19: two supplies with the same SBF give the same result in every ECRTS'19 analysis
pub proof fn lemma_c19_ecrts_supply_equiv(sbf1: spec_fn(int) -> int, sbf2: spec_fn(int) -> int, dem: spec_fn(int) -> int, wb: spec_fn(int) -> int, w2: spec_fn(int, int) -> int, limit: int)
    requires forall |x: int| x >= 0 ==> #[trigger] sbf1(x) == sbf2(x)
    ensures ecrts_spec(sbf1, dem, wb, w2, limit) == ecrts_spec(sbf2, dem, wb, w2, limit)
{ /*@lprobe*/
    lemma_scan_ext(sbf1, sbf2, 0, wb, 0, limit);
    if let Some(max_bw) = scan(sbf1, 0, wb, 0, limit) {
        let g1 = |a: int| scan(sbf1, a, at_off(w2, a), 0, limit); let g2 = |a: int| scan(sbf2, a, at_off(w2, a), 0, limit);
        assert forall |a: int| 0 <= a < max_bw + 1 implies #[trigger] g1(a) == g2(a) by { lemma_scan_ext(sbf1, sbf2, a, at_off(w2, a), 0, limit); }
        lemma_fold_upto_ext(dem, g1, g2, max_bw + 1);
    }
}
pub proof fn lemma_full_budget_sbf(p: SupplyPeriodic, c: Constrained)
    requires p.budget.v() == p.period.v() >= 1, c.budget.v() == c.deadline.v() == c.period.v() >= 1
    ensures forall |x: int| x >= 0 ==> #[trigger] sbf_of(&Dedicated {})(x) == sbf_of(&p)(x),
            forall |x: int| x >= 0 ==> #[trigger] sbf_of(&Dedicated {})(x) == sbf_of(&c)(x),
{
    let dd = Dedicated {};
    assert forall |x: int| x >= 0 implies #[trigger] sbf_of(&dd)(x) == sbf_of(&p)(x) by { lemma_full_budget_is_dedicated(p.period.v(), x); }
    assert forall |x: int| x >= 0 implies #[trigger] sbf_of(&dd)(x) == sbf_of(&c)(x) by { lemma_full_budget_is_dedicated(c.period.v(), x); }
}
/// C19: ... in particular a periodic reservation with budget = period and a constrained reservation with
/// budget = deadline = period give the results of a dedicated processor, in all four analyses
pub proof fn lemma_c19_ecrts_full_budget<R1: RequestBound + ?Sized, R2: RequestBound + ?Sized, R3: RequestBound + ?Sized, R4: RequestBound + ?Sized>(
    p: SupplyPeriodic, c: Constrained, r1: &R1, r2: &R2, r3: &R3, r4: &R4, b: int, limit: int)
    requires p.budget.v() == p.period.v() >= 1, c.budget.v() == c.deadline.v() == c.period.v() >= 1
    ensures
        es_spec(&p, r1, limit) == es_spec(&Dedicated {}, r1, limit), es_spec(&c, r1, limit) == es_spec(&Dedicated {}, r1, limit),
        timer_spec(&p, r1, r2, b, limit) == timer_spec(&Dedicated {}, r1, r2, b, limit), timer_spec(&c, r1, r2, b, limit) == timer_spec(&Dedicated {}, r1, r2, b, limit),
        pp_spec(&p, r1, r2, limit) == pp_spec(&Dedicated {}, r1, r2, limit), pp_spec(&c, r1, r2, limit) == pp_spec(&Dedicated {}, r1, r2, limit),
        chain_spec(&p, r1, r2, r3, r4, limit) == chain_spec(&Dedicated {}, r1, r2, r3, r4, limit), chain_spec(&c, r1, r2, r3, r4, limit) == chain_spec(&Dedicated {}, r1, r2, r3, r4, limit),
{ /*@lprobe*/
    let dd = Dedicated {};
    lemma_full_budget_sbf(p, c);
    let d = sbf_of(&dd); let sp = sbf_of(&p); let sc = sbf_of(&c);
    lemma_c19_ecrts_supply_equiv(d, sp, rbf_fn(r1), rbf_fn(r1), es_w2(rbf_fn(r1)), limit);
    lemma_c19_ecrts_supply_equiv(d, sc, rbf_fn(r1), rbf_fn(r1), es_w2(rbf_fn(r1)), limit);
    lemma_c19_ecrts_supply_equiv(d, sp, rbf_fn(r1), timer_wb(rbf_fn(r1), rbf_fn(r2), b), intf_w2(rbf_fn(r1), lw_fn(r1), zero_fn(), rbf_fn(r2), b), limit);
    lemma_c19_ecrts_supply_equiv(d, sc, rbf_fn(r1), timer_wb(rbf_fn(r1), rbf_fn(r2), b), intf_w2(rbf_fn(r1), lw_fn(r1), zero_fn(), rbf_fn(r2), b), limit);
    lemma_c19_ecrts_supply_equiv(d, sp, rbf_fn(r1), timer_wb(rbf_fn(r1), rbf_fn(r2), 0), intf_w2(rbf_fn(r1), lw_fn(r1), zero_fn(), rbf_fn(r2), 0), limit);
    lemma_c19_ecrts_supply_equiv(d, sc, rbf_fn(r1), timer_wb(rbf_fn(r1), rbf_fn(r2), 0), intf_w2(rbf_fn(r1), lw_fn(r1), zero_fn(), rbf_fn(r2), 0), limit);
    lemma_c19_ecrts_supply_equiv(d, sp, rbf_fn(r3), timer_wb(rbf_fn(r3), rbf_fn(r4), 0), intf_w2(rbf_fn(r1), lw_fn(r1), rbf_fn(r2), rbf_fn(r4), 0), limit);
    lemma_c19_ecrts_supply_equiv(d, sc, rbf_fn(r3), timer_wb(rbf_fn(r3), rbf_fn(r4), 0), intf_w2(rbf_fn(r1), lw_fn(r1), rbf_fn(r2), rbf_fn(r4), 0), limit);
}

// ---- C17: a supply that provides less service in every window never yields a smaller bound
pub proof fn lemma_fold_upto_some_ge0(f: spec_fn(int) -> int, g: spec_fn(int) -> Option<int>, a: int)
    requires forall |x: int| 0 <= x < a && (#[trigger] g(x)).is_some() ==> g(x).unwrap() >= 0
    ensures fold_upto(f, g, a).is_some() ==> fold_upto(f, g, a).unwrap() >= 0
    decreases a
{ if a > 0 { lemma_fold_upto_some_ge0(f, g, a - 1); } }
pub proof fn lemma_fold_upto_mono(f: spec_fn(int) -> int, g1: spec_fn(int) -> Option<int>, g2: spec_fn(int) -> Option<int>, a1: int, a2: int)
    requires 0 <= a1 <= a2, forall |x: int| 0 <= x < a1 ==> opt_le(#[trigger] g1(x), g2(x)),
             forall |x: int| 0 <= x < a2 && (#[trigger] g2(x)).is_some() ==> g2(x).unwrap() >= 0
    ensures opt_le(fold_upto(f, g1, a1), fold_upto(f, g2, a2))
    decreases a2
{
    if a2 > 0 {
        lemma_fold_upto_some_ge0(f, g2, a2 - 1);
        if a1 == a2 { lemma_fold_upto_mono(f, g1, g2, a1 - 1, a2 - 1); assert(opt_le(g1(a1 - 1), g2(a1 - 1))); }
        else { lemma_fold_upto_mono(f, g1, g2, a1, a2 - 1); }
    }
}
/// C17 (ECRTS'19 analyses): less supply in every window never decreases a bound and never turns Err into Ok
pub proof fn lemma_c17_ecrts_supply_mono(sbf1: spec_fn(int) -> int, sbf2: spec_fn(int) -> int, dem: spec_fn(int) -> int, wb: spec_fn(int) -> int, w2: spec_fn(int, int) -> int, limit: int)
    requires forall |x: int| x >= 0 ==> #[trigger] sbf1(x) >= sbf2(x)
    ensures opt_le(ecrts_spec(sbf1, dem, wb, w2, limit), ecrts_spec(sbf2, dem, wb, w2, limit))
{ /*@lprobe*/
    lemma_scan_mono(sbf1, sbf2, 0, wb, wb, limit);
    lemma_scan(sbf1, 0, wb, 0, limit); lemma_scan(sbf2, 0, wb, 0, limit);
    if let Some(m2) = scan(sbf2, 0, wb, 0, limit) {
        let m1_ = scan(sbf1, 0, wb, 0, limit).unwrap();
        let g1 = |a: int| scan(sbf1, a, at_off(w2, a), 0, limit); let g2 = |a: int| scan(sbf2, a, at_off(w2, a), 0, limit);
        assert forall |a: int| 0 <= a < m1_ + 1 implies opt_le(#[trigger] g1(a), g2(a)) by { lemma_scan_mono(sbf1, sbf2, a, at_off(w2, a), at_off(w2, a), limit); }
        assert forall |a: int| 0 <= a < m2 + 1 && (#[trigger] g2(a)).is_some() implies g2(a).unwrap() >= 0 by { lemma_scan(sbf2, a, at_off(w2, a), 0, limit); }
        lemma_fold_upto_mono(dem, g1, g2, m1_ + 1, m2 + 1);
    }
}
/// C17: raising the limit never changes an Ok result
pub proof fn lemma_fold_upto_limit(f: spec_fn(int) -> int, sbf: spec_fn(int) -> int, w2: spec_fn(int, int) -> int, limit: int, limit2: int, a: int)
    requires limit <= limit2, fold_upto(f, |x: int| scan(sbf, x, at_off(w2, x), 0, limit), a).is_some()
    ensures fold_upto(f, |x: int| scan(sbf, x, at_off(w2, x), 0, limit2), a) == fold_upto(f, |x: int| scan(sbf, x, at_off(w2, x), 0, limit), a)
    decreases a
{
    if a > 0 {
        let g = |x: int| scan(sbf, x, at_off(w2, x), 0, limit);
        lemma_fold_upto_limit(f, sbf, w2, limit, limit2, a - 1);
        if is_step(f, a - 1) { assert(g(a - 1).is_some()); lemma_scan_limit_independent(sbf, a - 1, at_off(w2, a - 1), limit, limit2); }
    }
}
pub proof fn lemma_c17_ecrts_limit(sbf: spec_fn(int) -> int, dem: spec_fn(int) -> int, wb: spec_fn(int) -> int, w2: spec_fn(int, int) -> int, limit: int, limit2: int)
    requires limit <= limit2, ecrts_spec(sbf, dem, wb, w2, limit).is_some()
    ensures ecrts_spec(sbf, dem, wb, w2, limit2) == ecrts_spec(sbf, dem, wb, w2, limit)
{ /*@lprobe*/
    lemma_scan_limit_independent(sbf, 0, wb, limit, limit2);
    lemma_fold_upto_limit(dem, sbf, w2, limit, limit2, scan(sbf, 0, wb, 0, limit).unwrap() + 1);
}

} // verus!
