// C11 for the closed-form step sequences: Periodic / Sporadic / Propagated<T> :: steps_iter, bodies verbatim from
// /repo/src/arrival/*.rs (closures in place); the lazy adapter chain is observed through its first `vf_n` candidates
// (rule R21: the adapters become the verified eager combinators of units/vf_stream.rs).
// Contract, for EVERY observation length vf_n: the yielded sequence is strictly increasing and contains a value delta
// if and only if 1 <= delta <= horizon(vf_n) and number_arrivals(delta - 1) < number_arrivals(delta); horizon(n) is
// unbounded in n (so no step is ever missing from the stream, and nothing that is not a step, in particular 0, is in it).
use vstd::arithmetic::div_mod::*;
use vstd::arithmetic::mul::*;
verus! {

/// C11: s is strictly increasing, every value in it is an interval length d >= 1 at which f increases (soundness: nothing that is
/// not a step, in particular 0, is yielded), and every such d up to the horizon hz is in it (completeness: no step is skipped)
pub open spec fn steps_exact(s: Seq<Duration>, f: spec_fn(int) -> int, hz: int) -> bool {
    &&& str_inc(s)
    &&& forall |d: int| #[trigger] has(s, d) ==> d >= 1 && f(d - 1) < f(d)
    &&& forall |d: int| 1 <= d <= hz && f(d - 1) < f(d) ==> #[trigger] has(s, d)
}
/// all yielded values are at most ub
pub open spec fn steps_le(s: Seq<Duration>, ub: int) -> bool { forall |i: int| 0 <= i < s.len() ==> (#[trigger] s[i]).val <= ub }
pub open spec fn nafn<A: ArrivalBound + ?Sized>(t: &A) -> spec_fn(int) -> int { |x: int| t.na(x) }

/// ceil(x/t) < ceil((x+1)/t) exactly when t divides x
#[verifier::spinoff_prover]
pub proof fn lemma_ceil_step(x: int, t: int)
    requires x >= 0, t >= 1
    ensures (ceil_div(x, t) < ceil_div(x + 1, t)) <==> x % t == 0,
            ceil_div(x, t) <= ceil_div(x + 1, t)
{
    lemma_ceil_div(x, t); lemma_ceil_div(x + 1, t);
    let (q, r) = lemma_decompose(t, x);
    if r + 1 < t {
        // x + 1 = t*q + (r+1)
        lemma_fundamental_div_mod_converse(x + 1, t, q, r + 1);
    } else {
        // x + 1 = t*(q+1)
        assert(x + 1 == t * (q + 1) + 0) by { lemma_mul_is_distributive_add(t, q, 1); }
        lemma_fundamental_div_mod_converse(x + 1, t, q + 1, 0);
    }
}

pub trait ArrivalSteps: ArrivalBound {
    /// magnitude envelope for computing the first n candidates
    spec fn steps_ok(&self, n: int) -> bool;
    /// everything up to this interval length is decided by the first n candidates
    spec fn steps_hz(&self, n: int) -> int;
    /// no value among the first n candidates' yield exceeds this (the eager reading evaluates closures on all of them)
    spec fn steps_ub(&self, n: int) -> int;
    /// the stream leaves no horizon uncovered
    proof fn steps_hz_unbounded(&self, h: int) -> (n: int)
        requires self.wf()
        ensures n >= 0, self.steps_hz(n) >= h;
    /// observing more candidates never decides less
    proof fn steps_hz_mono(&self, n1: int, n2: int)
        requires self.wf(), 0 <= n1 <= n2
        ensures self.steps_hz(n1) <= self.steps_hz(n2);

//@item src/arrival/mod.rs :: trait ArrivalBound / fn steps_iter
    fn steps_iter<'a>(&'a self/*+*/, vf_n: usize/*-*/) -> /*+*/(r: /*-*//*@R21: Box<dyn Iterator<Item = Duration> + 'a> @*/VfStream<Duration>/*@.*//*+*/)
        requires self.wf(), self.steps_ok(vf_n as int)
        ensures steps_exact(r.0@, nafn(self), self.steps_hz(vf_n as int)), steps_le(r.0@, self.steps_ub(vf_n as int))/*-*/ /*@R10: {
        self.brute_force_steps_iter()
    } @*/;/*@.*/
//@end
}

// what #[auto_impl(&)] generates for references (R12)
impl<T: ArrivalSteps + ?Sized> ArrivalSteps for &T {
    open spec fn steps_ok(&self, n: int) -> bool { (**self).steps_ok(n) }
    open spec fn steps_hz(&self, n: int) -> int { (**self).steps_hz(n) }
    open spec fn steps_ub(&self, n: int) -> int { (**self).steps_ub(n) }
    proof fn steps_hz_unbounded(&self, h: int) -> (n: int) { (**self).steps_hz_unbounded(h) }
    proof fn steps_hz_mono(&self, n1: int, n2: int) { (**self).steps_hz_mono(n1, n2); }
    fn steps_iter<'a>(&'a self, vf_n: usize) -> (r: VfStream<Duration>) {
        let r = (**self).steps_iter(vf_n);
        proof { assert(nafn(self) =~= nafn(*self)); }
        r
    }
}

// ------------------------------------------------------------------ Periodic
pub open spec fn per_step(t: int, j: u64) -> Duration { Duration { val: (t * j + 1) as u64 } }

impl ArrivalSteps for Periodic {
    open spec fn steps_ok(&self, n: int) -> bool { self.period.v() * n + 1 <= u64::MAX }
    open spec fn steps_hz(&self, n: int) -> int { if n >= 1 { self.period.v() * (n - 1) + 1 } else { 0 } }
    open spec fn steps_ub(&self, n: int) -> int { self.steps_hz(n) }
    proof fn steps_hz_unbounded(&self, h: int) -> (n: int) {
        let n = if h >= 0 { h + 1 } else { 1 };
        assert(self.period.v() * (n - 1) >= n - 1) by { lemma_mul_inequality(1, self.period.v(), n - 1); }
        n
    }
    proof fn steps_hz_mono(&self, n1: int, n2: int) {
        if n1 >= 1 { lemma_mul_inequality(n1 - 1, n2 - 1, self.period.v()); lemma_mul_is_commutative(self.period.v(), n1 - 1); lemma_mul_is_commutative(self.period.v(), n2 - 1); }
        else if n2 >= 1 { lemma_mul_nonnegative(self.period.v(), n2 - 1); }
    }
//@item src/arrival/periodic.rs :: impl ArrivalBound for Periodic / fn steps_iter
    fn steps_iter<'a>(&'a self/*+*/, vf_n: usize/*-*/) -> /*+*/(r: /*-*//*@R21: Box<dyn Iterator<Item = Duration> + 'a> @*/VfStream<Duration>/*@.*//*+*/)/*-*/ {
//@+
        let ghost t = self.period.v();
        proof {
            assert forall |j: int| 0 <= j < vf_n implies #[trigger] (t * j) + 1 <= u64::MAX by { lemma_mul_inequality(j, vf_n as int, t); lemma_mul_is_commutative(t, j); lemma_mul_is_commutative(t, vf_n as int); }
        }
//@-
        /*@R21: Box::new((0..) @*/let vf_s = VfStream::range_from(0, vf_n)/*@.*/.map(move |j/*+*/: u64/*-*/| /*+*/-> (r: Duration)
            requires self.period.v() * j + 1 <= u64::MAX ensures r == per_step(self.period.v(), j) { /*@probe*/ /*-*/self.period * j + Duration::from(1)/*+*/ }, Ghost(|j: u64| per_step(t, j))/*-*/)/*@R21: ) @*/;/*@.*/
//@+
        proof { lemma_periodic_steps(vf_s.0@, t, vf_n as int); assert(nafn(self) =~= (|x: int| ceil_div(x, t))); }
        vf_s
//@-
    }
//@end
}

#[verifier::spinoff_prover]
pub proof fn lemma_periodic_steps(s: Seq<Duration>, t: int, n: int)
    requires t >= 1, n >= 0, s.len() == n, forall |i: int| 0 <= i < n ==> (#[trigger] s[i]).val == t * i + 1
    ensures steps_exact(s, |x: int| ceil_div(x, t), if n >= 1 { t * (n - 1) + 1 } else { 0 }), steps_le(s, if n >= 1 { t * (n - 1) + 1 } else { 0 })
{
    let hz = if n >= 1 { t * (n - 1) + 1 } else { 0 };
    let f = |x: int| ceil_div(x, t);
    assert forall |i: int, k: int| #![trigger s[i], s[k]] 0 <= i < k < s.len() implies s[i].val < s[k].val by {
        lemma_mul_strict_inequality(i, k, t); lemma_mul_is_commutative(t, i); lemma_mul_is_commutative(t, k);
    }
    assert forall |d: int| #[trigger] has(s, d) <==> (1 <= d <= hz && f(d - 1) < f(d)) by {
        if has(s, d) {
            let i = choose |i: int| 0 <= i < s.len() && (#[trigger] s[i]).val == d;
            assert(d - 1 == t * i);
            assert(t * i >= 0) by { lemma_mul_nonnegative(t, i); }
            lemma_mul_inequality(i, n - 1, t); lemma_mul_is_commutative(t, i); lemma_mul_is_commutative(t, n - 1);
            lemma_fundamental_div_mod_converse(d - 1, t, i, 0);
            lemma_ceil_step(d - 1, t);
        }
        if 1 <= d <= hz && f(d - 1) < f(d) {
            lemma_ceil_step(d - 1, t);
            let (q, r) = lemma_decompose(t, d - 1);
            assert(d - 1 == t * q);
            if q > n - 1 { lemma_mul_inequality(n, q, t); lemma_mul_is_commutative(t, q); lemma_mul_is_commutative(t, n); lemma_mul_is_distributive_sub(t, n, 1); }
            assert(s[q].val == d);
        }
    }
    assert forall |i: int| 0 <= i < s.len() implies (#[trigger] s[i]).val <= hz by { assert(has(s, s[i].v())); }
}

// ------------------------------------------------------------------ Sporadic
pub open spec fn spo_keep(t: int, jit: int, j: u64) -> bool { t * j > jit }
pub open spec fn spo_step(t: int, jit: int, j: u64) -> Duration { Duration { val: (t * j + 1 - jit) as u64 } }

impl ArrivalSteps for Sporadic {
    open spec fn steps_ok(&self, n: int) -> bool { self.min_inter_arrival.v() * n + 1 <= u64::MAX && 1 + n <= u64::MAX }
    open spec fn steps_hz(&self, n: int) -> int {
        let h = self.min_inter_arrival.v() * n + 1 - self.jitter.v();
        if h >= 1 { h } else { 1 }
    }
    open spec fn steps_ub(&self, n: int) -> int { self.steps_hz(n) }
    proof fn steps_hz_unbounded(&self, h: int) -> (n: int) {
        let n = if h + self.jitter.v() >= 0 { h + self.jitter.v() } else { 0 };
        assert(self.min_inter_arrival.v() * n >= n) by { lemma_mul_inequality(1, self.min_inter_arrival.v(), n); }
        n
    }
    proof fn steps_hz_mono(&self, n1: int, n2: int) {
        lemma_mul_inequality(n1, n2, self.min_inter_arrival.v()); lemma_mul_is_commutative(self.min_inter_arrival.v(), n1); lemma_mul_is_commutative(self.min_inter_arrival.v(), n2);
    }
//@item src/arrival/sporadic.rs :: impl ArrivalBound for Sporadic / fn steps_iter
    fn steps_iter<'a>(&'a self/*+*/, vf_n: usize/*-*/) -> /*+*/(r: /*-*//*@R21: Box<dyn Iterator<Item = Duration> + 'a> @*/VfStream<Duration>/*@.*//*+*/)/*-*/ {
//@+
        let ghost t = self.min_inter_arrival.v();
        let ghost jit = self.jitter.v();
        let ghost gp = |j: u64| spo_keep(t, jit, j);
        let ghost gf = |j: u64| spo_step(t, jit, j);
        proof {
            assert forall |j: int| 1 <= j <= vf_n implies #[trigger] (t * j) + 1 <= u64::MAX by { lemma_mul_inequality(j, vf_n as int, t); lemma_mul_is_commutative(t, j); lemma_mul_is_commutative(t, vf_n as int); }
        }
//@-
        /*@R21: Box::new( @*/let vf_c = VfStream::range_from(1, vf_n);
        let ghost c = vf_c.0@;
        let vf_s = /*@.*/
            /*@R21: iter::once( @*/VfStream::once(/*@.*/Duration::from(1)).chain(
                /*@R21: (1..) @*/vf_c/*@.*/
                    .filter(move |j/*+*/: &u64/*-*/| /*+*/-> (r: bool)
                        requires self.min_inter_arrival.v() * (*j) <= u64::MAX ensures r == spo_keep(self.min_inter_arrival.v(), self.jitter.v(), *j) { /*@probe*/ /*-*/self.min_inter_arrival * *j > self.jitter/*+*/ }, Ghost(gp)/*-*/)
                    .map(move |j/*+*/: u64/*-*/| /*+*/-> (r: Duration)
                        requires self.min_inter_arrival.v() * j + 1 <= u64::MAX, self.min_inter_arrival.v() * j > self.jitter.v() ensures r == spo_step(self.min_inter_arrival.v(), self.jitter.v(), j) { /*@probe*/ /*-*/self.min_inter_arrival * j + Duration::epsilon() - self.jitter/*+*/ }, Ghost(gf)/*-*/),
            )/*@R21: , ) @*/;/*@.*/
//@+
        proof { lemma_sporadic_steps(vf_s.0@, c, gp, gf, t, jit, vf_n as int); assert(nafn(self) =~= (|x: int| na_sporadic(t, jit, x))); }
        vf_s
//@-
    }
//@end
}

#[verifier::spinoff_prover]
pub proof fn lemma_sporadic_steps(s: Seq<Duration>, c: Seq<u64>, gp: spec_fn(u64) -> bool, gf: spec_fn(u64) -> Duration, t: int, jit: int, n: int)
    requires t >= 1, jit >= 0, n >= 0, t * n + 1 <= u64::MAX, 1 + n <= u64::MAX,
        c.len() == n, forall |i: int| 0 <= i < n ==> #[trigger] c[i] == 1 + i,
        forall |j: u64| #[trigger] gp(j) == spo_keep(t, jit, j), forall |j: u64| #[trigger] gf(j) == spo_step(t, jit, j),
        s == seq![Duration { val: 1 }] + filt(c, gp).map_values(gf)
    ensures steps_exact(s, |x: int| na_sporadic(t, jit, x), if t * n + 1 - jit >= 1 { t * n + 1 - jit } else { 1 }), steps_le(s, if t * n + 1 - jit >= 1 { t * n + 1 - jit } else { 1 })
{
    let hz = if t * n + 1 - jit >= 1 { t * n + 1 - jit } else { 1 };
    let f = |x: int| na_sporadic(t, jit, x);
    let fc = filt(c, gp);
    let m = fc.map_values(gf);
    lemma_filt(c, gp);
    lemma_filt_sorted_u64(c, gp);
    assert(s.len() == 1 + m.len());
    assert(s[0].val == 1);
    assert forall |k: int| 0 <= k < m.len() implies #[trigger] s[1 + k] == gf(fc[k]) by {}
    // every kept candidate j lies in 1..=n with t*j > jit
    assert forall |k: int| 0 <= k < fc.len() implies 1 <= #[trigger] fc[k] <= n && t * fc[k] > jit && t * fc[k] + 1 <= u64::MAX by {
        assert(c.contains(fc[k]));
        let i = choose |i: int| 0 <= i < c.len() && c[i] == fc[k];
        assert(gp(fc[k]));
        lemma_mul_inequality(fc[k] as int, n, t); lemma_mul_is_commutative(t, fc[k] as int); lemma_mul_is_commutative(t, n);
    }
    assert forall |i: int, k: int| #![trigger s[i], s[k]] 0 <= i < k < s.len() implies s[i].val < s[k].val by {
        if i == 0 {
            assert(s[k] == gf(fc[k - 1]));
        } else {
            assert(s[i] == gf(fc[i - 1])); assert(s[k] == gf(fc[k - 1]));
            assert(fc[i - 1] < fc[k - 1]);
            lemma_mul_strict_inequality(fc[i - 1] as int, fc[k - 1] as int, t); lemma_mul_is_commutative(t, fc[i - 1] as int); lemma_mul_is_commutative(t, fc[k - 1] as int);
        }
    }
    assert forall |d: int| #[trigger] has(s, d) <==> (1 <= d <= hz && f(d - 1) < f(d)) by {
        lemma_ceil_div(1 + jit, t);
        if d == 1 {
            assert(s[0].val == 1);
            assert(f(0) == 0);
            assert(f(1) >= 1) by { if ceil_div(1 + jit, t) <= 0 { assert(ceil_div(1 + jit, t) * t <= 0) by { lemma_mul_inequality(ceil_div(1 + jit, t), 0, t); lemma_mul_basics(t); } } }
        } else {
            if has(s, d) {
                let i = choose |i: int| 0 <= i < s.len() && (#[trigger] s[i]).val == d;
                assert(i >= 1);
                let j = fc[i - 1];
                assert(s[i] == gf(j));
                assert(d == t * j + 1 - jit);
                lemma_fundamental_div_mod_converse(d - 1 + jit, t, j as int, 0);
                lemma_ceil_step(d - 1 + jit, t);
                lemma_mul_inequality(j as int, n, t); lemma_mul_is_commutative(t, j as int); lemma_mul_is_commutative(t, n);
            }
            if 2 <= d <= hz && f(d - 1) < f(d) {
                lemma_ceil_step(d - 1 + jit, t);
                let (q, r) = lemma_decompose(t, d - 1 + jit);
                assert(d - 1 + jit == t * q);
                assert(t * q <= t * n);
                if q > n { lemma_mul_strict_inequality(n, q, t); lemma_mul_is_commutative(t, q); lemma_mul_is_commutative(t, n); }
                if q < 1 { lemma_mul_inequality(q, 0, t); lemma_mul_is_commutative(t, q); lemma_mul_basics(t); }
                assert(1 <= q <= n);
                assert(c[q - 1] == q);
                assert(gp(c[q - 1]));
                assert(fc.contains(c[q - 1]));
                let k = choose |k: int| 0 <= k < fc.len() && fc[k] == c[q - 1];
                assert(s[1 + k] == gf(fc[k]));
                assert(s[1 + k].val == d);
            }
        }
    }
    assert forall |i: int| 0 <= i < s.len() implies (#[trigger] s[i]).val <= hz by { assert(has(s, s[i].v())); }
}

/// filtering a strictly increasing sequence leaves it strictly increasing
pub proof fn lemma_filt_sorted_u64(s: Seq<u64>, gp: spec_fn(u64) -> bool)
    requires forall |i: int, k: int| 0 <= i < k < s.len() ==> s[i] < s[k]
    ensures forall |i: int, k: int| 0 <= i < k < filt(s, gp).len() ==> filt(s, gp)[i] < filt(s, gp)[k]
    decreases s.len()
{
    if s.len() > 0 {
        let t = s.drop_last();
        lemma_filt_sorted_u64(t, gp);
        lemma_filt(t, gp);
        let ft = filt(t, gp);
        let f = filt(s, gp);
        assert forall |i: int, k: int| 0 <= i < k < f.len() implies f[i] < f[k] by {
            if k < ft.len() { assert(f[i] == ft[i] && f[k] == ft[k]); }
            else {
                assert(f[k] == s.last());
                assert(f[i] == ft[i]);
                assert(t.contains(ft[i]));
                let x = choose |x: int| 0 <= x < t.len() && t[x] == ft[i];
                assert(s[x] < s[s.len() - 1]);
            }
        }
    }
}
/// the same for interval lengths
pub proof fn lemma_filt_sorted_dur(s: Seq<Duration>, gp: spec_fn(Duration) -> bool)
    requires str_inc(s)
    ensures str_inc(filt(s, gp))
    decreases s.len()
{
    if s.len() > 0 {
        let t = s.drop_last();
        lemma_filt_sorted_dur(t, gp);
        lemma_filt(t, gp);
        let ft = filt(t, gp);
        let f = filt(s, gp);
        assert forall |i: int, k: int| #![trigger f[i], f[k]] 0 <= i < k < f.len() implies f[i].val < f[k].val by {
            if k < ft.len() { assert(f[i] == ft[i] && f[k] == ft[k]); }
            else {
                assert(f[k] == s.last());
                assert(f[i] == ft[i]);
                assert(t.contains(ft[i]));
                let x = choose |x: int| 0 <= x < t.len() && t[x] == ft[i];
                assert(s[x].val < s[s.len() - 1].val);
            }
        }
    }
}

// ------------------------------------------------------------------ Propagated<T>
pub open spec fn prop_keep(jit: int, x: Duration) -> bool { x.val > jit + 1 }
pub open spec fn prop_shift(jit: int, x: Duration) -> Duration { Duration { val: (x.val - jit) as u64 } }

impl<T: ArrivalSteps> ArrivalSteps for Propagated<T> {
    open spec fn steps_ok(&self, n: int) -> bool {
        self.input_event_model.steps_ok(n) && self.response_time_jitter.v() + 1 <= u64::MAX && self.input_event_model.na_ok(1 + self.response_time_jitter.v())
    }
    open spec fn steps_hz(&self, n: int) -> int {
        let h = self.input_event_model.steps_hz(n) - self.response_time_jitter.v();
        if h >= 1 { h } else { 1 }
    }
    open spec fn steps_ub(&self, n: int) -> int {
        let u = self.input_event_model.steps_ub(n) - self.response_time_jitter.v();
        if u >= 1 { u } else { 1 }
    }
    proof fn steps_hz_unbounded(&self, h: int) -> (n: int) {
        self.input_event_model.steps_hz_unbounded(h + self.response_time_jitter.v())
    }
    proof fn steps_hz_mono(&self, n1: int, n2: int) { self.input_event_model.steps_hz_mono(n1, n2); }
//@item src/arrival/propagated.rs :: impl<T: ArrivalBound + Clone + 'static> ArrivalBound for Propagated<T> / fn steps_iter
    fn steps_iter<'a>(&'a self/*+*/, vf_n: usize/*-*/) -> /*+*/(r: /*-*//*@R21: Box<dyn Iterator<Item = Duration> + 'a> @*/VfStream<Duration>/*@.*//*+*/)/*-*/ {
//@+
        let ghost jit = self.response_time_jitter.v();
        let ghost g1 = |d: Duration| self.na(d.v()) > 0;
        let ghost gp = |x: Duration| prop_keep(jit, x);
        let ghost gf = |x: Duration| prop_shift(jit, x);
//@-
        /*@R21: Box::new( @*/let vf_in = self.input_event_model.steps_iter(vf_n);
        let ghost s_in = vf_in.0@;
        let vf_s = /*@.*/
            // the bound steps at delta=1 only if anything arrives at all
            /*@R21: iter::once( @*/VfStream::once(/*@.*/Duration::from(1))
                .filter(move |delta/*+*/: &Duration/*-*/| /*+*/-> (r: bool)
                    requires self.wf(), self.na_ok(delta.v()) ensures r == (self.na(delta.v()) > 0) { /*@probe*/ /*-*/self.number_arrivals(*delta) > 0/*+*/ }, Ghost(g1)/*-*/)
                .chain(
                    // shift the steps of the input event model earlier by the jitter amount
                    /*@R21: self.input_event_model
                        .steps_iter() @*/vf_in/*@.*/
                        .filter(move |x/*+*/: &Duration/*-*/| /*+*/-> (r: bool)
                            requires self.response_time_jitter.v() + 1 <= u64::MAX ensures r == prop_keep(self.response_time_jitter.v(), *x) { /*@probe*/ /*-*/*x > self.response_time_jitter + Duration::from(1)/*+*/ }, Ghost(gp)/*-*/)
                        .map(move |x/*+*/: Duration/*-*/| /*+*/-> (r: Duration)
                            requires x.v() >= self.response_time_jitter.v() ensures r == prop_shift(self.response_time_jitter.v(), x) { /*@probe*/ /*-*/x - self.response_time_jitter/*+*/ }, Ghost(gf)/*-*/),
                )/*@R21: , ) @*/;/*@.*/
//@+
        proof {
            self.input_event_model.na_props();
            lemma_propagated_steps(vf_s.0@, s_in, nafn(&self.input_event_model), nafn(self), g1, gp, gf, jit, self.input_event_model.steps_hz(vf_n as int), self.input_event_model.steps_ub(vf_n as int));
        }
        vf_s
//@-
    }
//@end
}

pub open spec fn prop_na(f: spec_fn(int) -> int, jit: int, d: int) -> int { if d > 0 { f(d + jit) } else { 0 } }

#[verifier::spinoff_prover]
pub proof fn lemma_propagated_steps(s: Seq<Duration>, s_in: Seq<Duration>, f: spec_fn(int) -> int, g: spec_fn(int) -> int,
        g1: spec_fn(Duration) -> bool, gp: spec_fn(Duration) -> bool, gf: spec_fn(Duration) -> Duration, jit: int, hz_in: int, ub_in: int)
    requires jit >= 0, steps_exact(s_in, f, hz_in), steps_le(s_in, ub_in), f(0) == 0,
        forall |a: int, b: int| #![trigger f(a), f(b)] 0 <= a <= b ==> 0 <= f(a) <= f(b),
        forall |d: int| #[trigger] g(d) == prop_na(f, jit, d),
        g1(Duration { val: 1 }) == (g(1) > 0),
        forall |x: Duration| #[trigger] gp(x) == prop_keep(jit, x), forall |x: Duration| #[trigger] gf(x) == prop_shift(jit, x),
        s == filt(seq![Duration { val: 1 }], g1) + filt(s_in, gp).map_values(gf)
    ensures
        steps_exact(s, g, if hz_in - jit >= 1 { hz_in - jit } else { 1 }), steps_le(s, if ub_in - jit >= 1 { ub_in - jit } else { 1 })
{
    let hz = if hz_in - jit >= 1 { hz_in - jit } else { 1 };
    let one = seq![Duration { val: 1 }];
    let h = filt(one, g1);
    let fc = filt(s_in, gp);
    let m = fc.map_values(gf);
    lemma_filt(one, g1);
    lemma_filt(s_in, gp);
    lemma_filt_sorted_dur(s_in, gp);
    assert(one.drop_last() =~= Seq::<Duration>::empty());
    assert(filt(one.drop_last(), g1) =~= Seq::<Duration>::empty());
    assert(h.len() <= 1);
    assert(h.len() == 1 ==> h[0].val == 1 && g1(one[0])) by { if h.len() == 1 { assert(one.contains(h[0])); } }
    assert(g1(one[0]) ==> h.len() == 1) by { if g1(one[0]) { assert(h.contains(one[0])); } }
    assert forall |k: int| 0 <= k < m.len() implies #[trigger] s[h.len() + k] == gf(fc[k]) && fc[k].val > jit + 1 by { assert(gp(fc[k])); }
    assert(str_inc(s)) by {
        assert forall |i: int, k: int| #![trigger s[i], s[k]] 0 <= i < k < s.len() implies s[i].val < s[k].val by {
            if i < h.len() { assert(s[i] == h[0]); assert(s[k] == gf(fc[k - h.len()])); }
            else { assert(s[i] == gf(fc[i - h.len()])); assert(s[k] == gf(fc[k - h.len()])); assert(fc[i - h.len()].val < fc[k - h.len()].val); }
        }
    }
    // soundness: every yielded value is a step of g
    assert forall |d: int| #[trigger] has(s, d) implies d >= 1 && g(d - 1) < g(d) by {
        assert(g(d) == prop_na(f, jit, d)); assert(g(d - 1) == prop_na(f, jit, d - 1));
        let i = choose |i: int| 0 <= i < s.len() && (#[trigger] s[i]).val == d;
        if i < h.len() {
            assert(s[i] == h[0]); assert(d == 1);
            assert(g1(one[0]));
            assert(prop_na(f, jit, 0) == 0);
        } else {
            let x = fc[i - h.len()];
            assert(s[i] == gf(x));
            assert(x.val == d + jit && d >= 2);
            assert(s_in.contains(x));
            let k = choose |k: int| 0 <= k < s_in.len() && s_in[k] == x;
            assert(has(s_in, d + jit));
        }
    }
    // completeness up to the horizon
    assert forall |d: int| 1 <= d <= hz && g(d - 1) < g(d) implies #[trigger] has(s, d) by {
        assert(g(d) == prop_na(f, jit, d)); assert(g(d - 1) == prop_na(f, jit, d - 1));
        if d == 1 {
            assert(prop_na(f, jit, 0) == 0);
            assert(g1(one[0])); assert(s[0].val == 1);
        } else {
            assert(f(d + jit - 1) < f(d + jit));
            assert(has(s_in, d + jit));
            let k = choose |k: int| 0 <= k < s_in.len() && (#[trigger] s_in[k]).val == d + jit;
            assert(gp(s_in[k]));
            assert(fc.contains(s_in[k]));
            let q = choose |q: int| 0 <= q < fc.len() && fc[q] == s_in[k];
            assert(s[h.len() + q] == gf(fc[q]));
            assert(s[h.len() + q].val == d);
        }
    }
    assert forall |i: int| 0 <= i < s.len() implies (#[trigger] s[i]).val <= (if ub_in - jit >= 1 { ub_in - jit } else { 1 }) by {
        if i < h.len() { assert(s[i] == h[0]); }
        else {
            let x = fc[i - h.len()];
            assert(s[i] == gf(x));
            assert(s_in.contains(x));
            let k = choose |k: int| 0 <= k < s_in.len() && s_in[k] == x;
            assert(s_in[k].val <= ub_in);
        }
    }
}

} // verus!
