// unit part: src/wcet/multiframe.rs (C14): Multiframe::least_wcet (real body modulo R3) against the minimum of the first n frame
// costs, the cost function as the cyclic sum of the frame costs (what the trait's iterator-based default cost_of_jobs computes over
// `costs.iter().copied().cycle()`; that default body stays outside Verus, R10), and the C14 sentences as lemmas over these specs.
use vstd::arithmetic::div_mod::*;
verus! {

pub open spec fn sv() -> spec_fn(Service) -> int { |s: Service| s.v() }
/// cost of job k (k = 0, 1, ...): the frame costs repeat cyclically
pub open spec fn mf_item(c: Seq<Service>, k: int) -> int { c[k % (c.len() as int)].v() }
/// cumulative cost of the first n jobs (nothing for an empty frame vector: `cycle()` of an empty iterator is empty)
pub open spec fn mf_cost(c: Seq<Service>, n: int) -> int
    decreases n
{
    if n <= 0 || c.len() == 0 { 0 } else { mf_cost(c, n - 1) + mf_item(c, n - 1) }
}
/// least cost among the first n jobs (0 if there is none)
pub open spec fn mf_least(c: Seq<Service>, n: int) -> int { min_seq(c.take(if n <= 0 { 0 } else if n <= c.len() { n } else { c.len() as int }), sv()) }

pub proof fn lemma_mf_cost_mono(c: Seq<Service>, a: int, b: int)
    requires 0 <= a <= b
    ensures 0 <= mf_cost(c, a) <= mf_cost(c, b)
    decreases b
{
    if c.len() > 0 {
        if a < b {
            lemma_mf_cost_mono(c, a, b - 1);
            lemma_mod_bound(b - 1, c.len() as int);
        } else if a > 0 {
            lemma_mf_cost_mono(c, a - 1, a - 1);
            lemma_mod_bound(a - 1, c.len() as int);
        }
    }
}
/// C14: least_wcet(n) is no larger than any of the first n items of job_cost_iter
pub proof fn lemma_mf_least_le_item(c: Seq<Service>, n: int, k: int)
    requires 0 <= k < n, c.len() > 0
    ensures mf_least(c, n) <= mf_item(c, k)
{
    let len = c.len() as int;
    lemma_mod_bound(k, len);
    let m = if n <= len { n } else { len };
    let i = k % len;
    if n <= len { lemma_small_mod(k as nat, len as nat); assert(i == k); }
    assert(0 <= i < m);
    lemma_min_seq_le(c.take(m), sv(), i);
    assert(c.take(m)[i] == c[i]);
}
/// C14: cost_of_jobs(n) is the sum of the first n items (telescoping form)
pub proof fn lemma_mf_cost_step(c: Seq<Service>, n: int)
    requires n >= 1, c.len() > 0
    ensures mf_cost(c, n) == mf_cost(c, n - 1) + mf_item(c, n - 1)
{}

/// R3: `xs.iter().take(n).copied().min().unwrap_or_else(Service::none)` as a verified loop
pub fn vf_min_service_take(xs: &[Service], n: usize) -> (r: Service)
    ensures r.v() == mf_least(xs@, n as int)
{
    let m = if n <= xs.len() { n } else { xs.len() };
    if m == 0 { proof { assert(xs@.take(0).len() == 0); } return Service::none(); }
    let mut acc: Service = xs[0];
    proof { assert(xs@.take(1) =~= seq![xs@[0]]); }
    let mut i: usize = 1;
    while i < m
        invariant 1 <= i <= m <= xs@.len(), acc.v() == min_seq(xs@.take(i as int), sv())
        decreases m - i
    {
        let v = xs[i];
        proof { assert(xs@.take(i as int + 1).drop_last() =~= xs@.take(i as int)); assert(xs@.take(i as int + 1).last() == xs@[i as int]); }
        acc = acc.min(v);
        i = i + 1;
    }
    acc
}

//@item src/wcet/multiframe.rs :: struct Multiframe
pub struct Multiframe {
    /*+*/pub /*-*/costs: Vec<Service>,
}
//@end
impl Multiframe {
//@item src/wcet/multiframe.rs :: impl Multiframe / fn new
    pub fn new(costs: Vec<Service>) -> /*+*/(r: /*-*/Self/*+*/) ensures r.costs == costs/*-*/ {
        Multiframe { costs }
    }
//@end
}
impl JobCostModel for Multiframe {
    open spec fn wf(&self) -> bool { true }
    open spec fn cost(&self, n: int) -> int { mf_cost(self.costs@, n) }
    open spec fn least(&self, n: int) -> int { mf_least(self.costs@, n) }
    /// C14: cost_of_jobs(0) is zero and cost_of_jobs is non-decreasing in n
    proof fn cost_props(&self) {
        assert forall |a: int, b: int| 0 <= a <= b implies 0 <= #[trigger] self.cost(a) <= #[trigger] self.cost(b) by { lemma_mf_cost_mono(self.costs@, a, b); }
    }

    #[verifier::external_body]
    fn cost_of_jobs(&self, n: usize) -> Service { unimplemented!() }   // trait default over job_cost_iter (R10), bounded-checked (Kani multiframe_costs, mirrors)

//@item src/wcet/multiframe.rs :: impl JobCostModel for Multiframe / fn least_wcet
    fn least_wcet(&self, n: usize) -> Service {
        /*@R3: self.costs
            .iter()
            .take(n)
            .copied()
            .min()
            .unwrap_or_else(Service::none) @*/vf_min_service_take(self.costs.as_slice(), n)/*@.*/
    }
//@end
}

} // verus!
