//@include vx/prelude.rs
//@include units/time.rs
//@include units/speclib_arith.rs
//@include units/supply_trait.rs
//@include units/fixed_point.rs
//@include units/supply_impls.rs
fn main() {}
