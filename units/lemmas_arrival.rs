// C10: "for Periodic and Sporadic the bound is moreover attained and sub-additive" -- lemmas over na_sporadic, the spec
// function that the real Sporadic::number_arrivals (and Periodic::number_arrivals, jitter 0) are proved to compute
verus! {

/// the densest admissible release sequence: arrivals every T starting at 0; the first release is delayed by the full
/// jitter, every later one is released as early as possible but not before it: rel_i = max(J, i*T)
pub open spec fn dense_arr(t: int, n: int) -> Seq<int> { Seq::new(n as nat, |i: int| i * t) }
pub open spec fn dense_rel(t: int, j: int, n: int) -> Seq<int> { Seq::new(n as nat, |i: int| if i * t >= j { i * t } else { j }) }

/// C10: the sporadic bound is attained -- the window [J, J + delta) of the densest admissible sequence contains exactly
/// number_arrivals(delta) releases
pub proof fn lemma_c10_sporadic_attained(t: int, j: int, delta: int)
    requires t >= 1, j >= 0, delta >= 1
    ensures ({ let n = na_sporadic(t, j, delta);
               &&& n >= 1
               &&& respects_sporadic(dense_rel(t, j, n), dense_arr(t, n), t, j)
               &&& sorted(dense_rel(t, j, n))
               &&& run_in_window(dense_rel(t, j, n), 0, n, j, delta) })
{ /*@lprobe*/
    let n = na_sporadic(t, j, delta);
    let rel = dense_rel(t, j, n); let arr = dense_arr(t, n);
    lemma_ceil_div(delta + j, t);
    assert(n >= 1) by { if n <= 0 { lemma_mul_inequality(n, 0, t); lemma_mul_basics(t); } }
    assert((n - 1) * t < delta + j);
    assert forall |i: int| 0 <= i < n implies 0 <= #[trigger] (i * t) < delta + j by {
        lemma_mul_nonnegative(i, t);
        lemma_mul_inequality(i, n - 1, t);
    }
    assert forall |i: int| 0 <= i < rel.len() implies arr[i] <= #[trigger] rel[i] <= arr[i] + j by { assert(0 <= i * t); }
    assert forall |i: int, k: int| #![trigger arr[i], arr[k]] 0 <= i < k < arr.len() implies arr[k] - arr[i] >= (k - i) * t by {
        lemma_mul_is_distributive_sub_other_way(t, k, i);
    }
    assert forall |i: int, k: int| 0 <= i <= k < rel.len() implies rel[i] <= rel[k] by { lemma_mul_inequality(i, k, t); }
    assert forall |x: int| 0 <= x < 0 + n implies j <= #[trigger] rel[x] < j + delta by { assert(0 <= x * t < delta + j); }
}

/// C10: the sporadic bound is sub-additive: a window of length a + b never admits more than the two parts together
pub proof fn lemma_c10_sporadic_subadditive(t: int, j: int, a: int, b: int)
    requires t >= 1, j >= 0, a >= 0, b >= 0
    ensures na_sporadic(t, j, a + b) <= na_sporadic(t, j, a) + na_sporadic(t, j, b)
{ /*@lprobe*/
    if a > 0 && b > 0 {
        lemma_ceil_div(a + j, t); lemma_ceil_div(b + j, t); lemma_ceil_div(a + b + j, t);
        let c1 = ceil_div(a + j, t); let c2 = ceil_div(b + j, t); let c = ceil_div(a + b + j, t);
        assert((c1 + c2) * t == c1 * t + c2 * t) by { lemma_mul_is_distributive_add_other_way(t, c1, c2); }
        assert((c1 + c2) * t >= a + b + j);
        if c > c1 + c2 { lemma_mul_inequality(c1 + c2, c - 1, t); }
    }
}
/// ... and so is the periodic bound (a sporadic bound without jitter)
pub proof fn lemma_c10_periodic_subadditive(t: int, a: int, b: int)
    requires t >= 1, a >= 0, b >= 0
    ensures na_sporadic(t, 0, a + b) <= na_sporadic(t, 0, a) + na_sporadic(t, 0, b)
{ lemma_c10_sporadic_subadditive(t, 0, a, b); }

} // verus!
