// C10: "for Periodic and Sporadic the bound is moreover attained and sub-additive" -- lemmas over na_sporadic, the spec
// function that the real Sporadic::number_arrivals (and Periodic::number_arrivals, jitter 0) are proved to compute
verus! {

/// the densest admissible release sequence: arrivals every T starting at 0; the first release is delayed by the full
/// jitter, every later one is released as early as possible but not before it: rel_i = max(J, i*T)
pub open spec fn dense_arr(t: int, n: int) -> Seq<int> { Seq::new(n as nat, |i: int| i * t) }
pub open spec fn dense_rel(t: int, j: int, n: int) -> Seq<int> { Seq::new(n as nat, |i: int| if i * t >= j { i * t } else { j }) }

/// C10: the sporadic bound is attained -- the window [J, J + delta) of the densest admissible sequence contains exactly
/// number_arrivals(delta) releases
pub proof fn lemma_c10_sporadic_attained(t: int, j: int, delta: int)
    requires t >= 1, j >= 0, delta >= 1
    ensures ({ let n = na_sporadic(t, j, delta);
               &&& n >= 1
               &&& respects_sporadic(dense_rel(t, j, n), dense_arr(t, n), t, j)
               &&& sorted(dense_rel(t, j, n))
               &&& run_in_window(dense_rel(t, j, n), 0, n, j, delta) })
{ /*@lprobe*/
    let n = na_sporadic(t, j, delta);
    let rel = dense_rel(t, j, n); let arr = dense_arr(t, n);
    lemma_ceil_div(delta + j, t);
    assert(n >= 1) by { if n <= 0 { lemma_mul_inequality(n, 0, t); lemma_mul_basics(t); } }
    assert((n - 1) * t < delta + j);
    assert forall |i: int| 0 <= i < n implies 0 <= #[trigger] (i * t) < delta + j by {
        lemma_mul_nonnegative(i, t);
        lemma_mul_inequality(i, n - 1, t);
    }
    assert forall |i: int| 0 <= i < rel.len() implies arr[i] <= #[trigger] rel[i] <= arr[i] + j by { assert(0 <= i * t); }
    assert forall |i: int, k: int| #![trigger arr[i], arr[k]] 0 <= i < k < arr.len() implies arr[k] - arr[i] >= (k - i) * t by {
        lemma_mul_is_distributive_sub_other_way(t, k, i);
    }
    assert forall |i: int, k: int| 0 <= i <= k < rel.len() implies rel[i] <= rel[k] by { lemma_mul_inequality(i, k, t); }
    assert forall |x: int| 0 <= x < 0 + n implies j <= #[trigger] rel[x] < j + delta by { assert(0 <= x * t < delta + j); }
}

/// C10: the sporadic bound is sub-additive: a window of length a + b never admits more than the two parts together
pub proof fn lemma_c10_sporadic_subadditive(t: int, j: int, a: int, b: int)
    requires t >= 1, j >= 0, a >= 0, b >= 0
    ensures na_sporadic(t, j, a + b) <= na_sporadic(t, j, a) + na_sporadic(t, j, b)
{ /*@lprobe*/
    if a > 0 && b > 0 {
        lemma_ceil_div(a + j, t); lemma_ceil_div(b + j, t); lemma_ceil_div(a + b + j, t);
        let c1 = ceil_div(a + j, t); let c2 = ceil_div(b + j, t); let c = ceil_div(a + b + j, t);
        assert((c1 + c2) * t == c1 * t + c2 * t) by { lemma_mul_is_distributive_add_other_way(t, c1, c2); }
        assert((c1 + c2) * t >= a + b + j);
        if c > c1 + c2 { lemma_mul_inequality(c1 + c2, c - 1, t); }
    }
}
/// ... and so is the periodic bound (a sporadic bound without jitter)
pub proof fn lemma_c10_periodic_subadditive(t: int, a: int, b: int)
    requires t >= 1, a >= 0, b >= 0
    ensures na_sporadic(t, 0, a + b) <= na_sporadic(t, 0, a) + na_sporadic(t, 0, b)
{ lemma_c10_sporadic_subadditive(t, 0, a, b); }


// ------------------------------------------------------------------ C10: windows as counts; delayed and superposed sequences
pub open spec fn in_win(x: int, w: int, delta: int) -> bool { w <= x < w + delta }
/// number of events among the first n of s that lie in the window [w, w + delta)
pub open spec fn count_in(s: Seq<int>, n: int, w: int, delta: int) -> int
    decreases n
{ if n <= 0 { 0 } else { count_in(s, n - 1, w, delta) + if in_win(s[n - 1], w, delta) { 1int } else { 0 } } }
/// "no window of length delta contains more than na(delta) events of s" (any order of the events)
pub open spec fn window_bounded(s: Seq<int>, na: spec_fn(int) -> int) -> bool {
    forall |w: int, delta: int| delta >= 0 ==> #[trigger] count_in(s, s.len() as int, w, delta) <= na(delta)
}
pub proof fn lemma_count_bounds(s: Seq<int>, n: int, w: int, delta: int)
    requires 0 <= n <= s.len()
    ensures 0 <= count_in(s, n, w, delta) <= n
    decreases n
{ if n > 0 { lemma_count_bounds(s, n - 1, w, delta); } }
/// in a sorted sequence the events inside a window form a run of consecutive events
pub proof fn lemma_count_is_run(s: Seq<int>, n: int, w: int, delta: int) -> (i: int)
    requires sorted(s), 0 <= n <= s.len(), delta >= 0
    ensures 0 <= i, i + count_in(s, n, w, delta) <= n,
            forall |x: int| i <= x < i + count_in(s, n, w, delta) ==> in_win(#[trigger] s[x], w, delta),
            count_in(s, n, w, delta) > 0 ==> i + count_in(s, n, w, delta) == n || !in_win(s[n - 1], w, delta),
            forall |x: int| i + count_in(s, n, w, delta) <= x < n ==> !in_win(#[trigger] s[x], w, delta),
    decreases n
{
    if n <= 0 { 0 }
    else {
        let i0 = lemma_count_is_run(s, n - 1, w, delta);
        let c0 = count_in(s, n - 1, w, delta);
        lemma_count_bounds(s, n - 1, w, delta);
        if in_win(s[n - 1], w, delta) {
            if c0 == 0 { n - 1 }
            else {
                // the earlier in-window events end right before n - 1: anything between them and s[n-1] lies between two in-window values
                assert(i0 + c0 == n - 1) by {
                    if i0 + c0 < n - 1 {
                        let x = i0 + c0;
                        assert(in_win(s[i0 + c0 - 1], w, delta));
                        assert(s[i0 + c0 - 1] <= s[x] && s[x] <= s[n - 1]);
                        assert(in_win(s[x], w, delta));
                        assert(!in_win(s[x], w, delta));
                    }
                }
                i0
            }
        } else { i0 }
    }
}
/// link to the run-based lemmas (lemma_sporadic_never_undercounts, lemma_curve_never_undercounts): for sorted sequences
/// a bound on every run of consecutive events inside a window is a bound on every window
pub proof fn lemma_runs_to_windows(s: Seq<int>, na: spec_fn(int) -> int)
    requires sorted(s), forall |i: int, n: int, w: int, delta: int| delta >= 0 && #[trigger] run_in_window(s, i, n, w, delta) ==> n <= na(delta)
    ensures window_bounded(s, na)
{
    assert forall |w: int, delta: int| delta >= 0 implies #[trigger] count_in(s, s.len() as int, w, delta) <= na(delta) by {
        let i = lemma_count_is_run(s, s.len() as int, w, delta);
        let c = count_in(s, s.len() as int, w, delta);
        lemma_count_bounds(s, s.len() as int, w, delta);
        assert(run_in_window(s, i, c, w, delta));
    }
}
/// C10 (Sporadic, window form): every window of every sorted admissible release sequence holds at most number_arrivals(delta) releases
pub proof fn lemma_c10_sporadic_windows(rel: Seq<int>, arr: Seq<int>, t: int, j: int)
    requires t >= 1, j >= 0, sorted(rel), respects_sporadic(rel, arr, t, j)
    ensures window_bounded(rel, |d: int| na_sporadic(t, j, d))
{ /*@lprobe*/
    let na = |d: int| na_sporadic(t, j, d);
    assert forall |i: int, n: int, w: int, delta: int| delta >= 0 && #[trigger] run_in_window(rel, i, n, w, delta) implies n <= na(delta) by {
        lemma_sporadic_never_undercounts(rel, arr, t, j, i, n, w, delta);
    }
    lemma_runs_to_windows(rel, na);
}
/// C10 (Curve, window form)
pub proof fn lemma_c10_curve_windows(rel: Seq<int>, d: Seq<Duration>)
    requires dmin_wf(d), sorted(rel), respects_dmin(rel, d)
    ensures window_bounded(rel, |x: int| na_curve(d, x))
{ /*@lprobe*/
    let na = |x: int| na_curve(d, x);
    assert forall |i: int, n: int, w: int, delta: int| delta >= 0 && #[trigger] run_in_window(rel, i, n, w, delta) implies n <= na(delta) by {
        lemma_curve_never_undercounts(rel, d, i, n, w, delta);
    }
    lemma_runs_to_windows(rel, na);
}
pub proof fn lemma_count_delay(inp: Seq<int>, out: Seq<int>, jit: int, n: int, w: int, delta: int)
    requires out.len() == inp.len(), 0 <= n <= inp.len(), jit >= 0, forall |i: int| 0 <= i < inp.len() ==> inp[i] <= #[trigger] out[i] <= inp[i] + jit
    ensures count_in(out, n, w, delta) <= count_in(inp, n, w - jit, delta + jit)
    decreases n
{ if n > 0 { lemma_count_delay(inp, out, jit, n - 1, w, delta); assert(inp[n - 1] <= out[n - 1] <= inp[n - 1] + jit); } }
/// C10 (Propagated, clone_with_jitter): delaying each event of a sequence bounded by `na` by at most J yields a sequence bounded
/// by delta |-> na(delta + J) (0 for the empty window) -- which is what Propagated::number_arrivals is proved to compute
pub proof fn lemma_c10_delayed(inp: Seq<int>, out: Seq<int>, jit: int, na: spec_fn(int) -> int)
    requires out.len() == inp.len(), jit >= 0, window_bounded(inp, na), forall |i: int| 0 <= i < inp.len() ==> inp[i] <= #[trigger] out[i] <= inp[i] + jit
    ensures window_bounded(out, |d: int| if d > 0 { na(d + jit) } else { 0 })
{ /*@lprobe*/
    let nb = |d: int| if d > 0 { na(d + jit) } else { 0int };
    assert forall |w: int, delta: int| delta >= 0 implies #[trigger] count_in(out, out.len() as int, w, delta) <= nb(delta) by {
        if delta > 0 {
            lemma_count_delay(inp, out, jit, inp.len() as int, w, delta);
            assert(count_in(inp, inp.len() as int, w - jit, delta + jit) <= na(delta + jit));
        } else { lemma_count_empty(out, out.len() as int, w); }
    }
}
pub proof fn lemma_count_empty(s: Seq<int>, n: int, w: int)
    requires 0 <= n <= s.len()
    ensures count_in(s, n, w, 0) == 0
    decreases n
{ if n > 0 { lemma_count_empty(s, n - 1, w); } }
pub proof fn lemma_count_concat(a: Seq<int>, b: Seq<int>, n: int, w: int, delta: int)
    requires 0 <= n <= b.len()
    ensures count_in(a + b, a.len() + n, w, delta) == count_in(a, a.len() as int, w, delta) + count_in(b, n, w, delta)
    decreases n
{
    if n > 0 { lemma_count_concat(a, b, n - 1, w, delta); assert((a + b)[a.len() + n - 1] == b[n - 1]); }
    else { lemma_count_prefix(a, a + b, a.len() as int, w, delta); }
}
pub proof fn lemma_count_prefix(a: Seq<int>, c: Seq<int>, n: int, w: int, delta: int)
    requires 0 <= n <= a.len() <= c.len(), forall |i: int| 0 <= i < a.len() ==> #[trigger] c[i] == a[i]
    ensures count_in(c, n, w, delta) == count_in(a, n, w, delta)
    decreases n
{ if n > 0 { lemma_count_prefix(a, c, n - 1, w, delta); } }
/// C10 (slices, vectors, sum_of): the superposition of two bounded event sequences is bounded by the pointwise sum
pub proof fn lemma_c10_superposition(a: Seq<int>, b: Seq<int>, na: spec_fn(int) -> int, nb: spec_fn(int) -> int)
    requires window_bounded(a, na), window_bounded(b, nb)
    ensures window_bounded(a + b, |d: int| na(d) + nb(d))
{ /*@lprobe*/
    let nc = |d: int| na(d) + nb(d);
    assert forall |w: int, delta: int| delta >= 0 implies #[trigger] count_in(a + b, (a + b).len() as int, w, delta) <= nc(delta) by {
        lemma_count_concat(a, b, b.len() as int, w, delta);
        assert(count_in(a, a.len() as int, w, delta) <= na(delta)); assert(count_in(b, b.len() as int, w, delta) <= nb(delta));
    }
}

} // verus!
