// C13: "never yields more arrivals than the un-extrapolated curve claims" -- the part that holds: strictly inside the extended
// horizon.  (Beyond it the whole-prefix repetition of the longer prefix can be looser: known finding KF12.)
verus! {

/// minimum span of m + 2 events that the UN-extrapolated curve implies: whole prefixes, then the prefix entry
pub open spec fn imp(c: Seq<Duration>, m: int) -> int { (m / (c.len() as int)) * dm(c, c.len() - 1) + dm(c, m % (c.len() as int)) }
pub proof fn lemma_imp_shift(c: Seq<Duration>, m: int)
    requires c.len() >= 1, m >= c.len()
    ensures imp(c, m) == dm(c, c.len() - 1) + imp(c, m - c.len())
{
    let len = c.len() as int; let big = dm(c, len - 1);
    let x = m / len; let y = m % len;
    lemma_fundamental_div_mod(m, len); lemma_mod_bound(m, len); lemma_div_pos_is_pos(m, len);
    assert(x >= 1) by { if x <= 0 { assert(len * x <= 0) by { lemma_mul_nonnegative(len, -x); lemma_mul_unary_negation(len, -x); } } }
    assert((x - 1) * len == len * x - len) by { lemma_mul_is_distributive_sub(len, x, 1); lemma_mul_is_commutative(len, x - 1); }
    lemma_fundamental_div_mod_converse(m - len, len, x - 1, y);
    assert(x * big == (x - 1) * big + big) by { lemma_mul_is_distributive_add_other_way(big, x - 1, 1); }
}
/// every entry of the super-additive extension is at least the span the original prefix implies
pub proof fn lemma_ext_ge_imp(c: Seq<Duration>, e: Seq<Duration>, m: int)
    requires c.len() >= 1, extends_d(c, e), 0 <= m < e.len()
    ensures dm(e, m) >= imp(c, m)
    decreases m
{
    let len = c.len() as int;
    if m < len {
        assert(e.subrange(0, len)[m] == c[m]);
        lemma_small_mod(m as nat, len as nat); lemma_basic_div(m, len);
        assert(0 * dm(c, len - 1) == 0) by { lemma_mul_basics(dm(c, len - 1)); }
    } else {
        let w = e.subrange(0, m);
        assert(dm(e, m) == ext_next_d(w));
        let k = if len - 1 <= m - len { len - 1 } else { m - len };
        assert(0 <= k <= m / 2) by { assert(2 * k <= (len - 1) + (m - len)); }
        lemma_max_range_ge(|k: int| ext_cand_d(w, k), 0, (w.len() / 2) as int, k);
        assert(ext_cand_d(w, k) == dm(e, len - 1) + dm(e, m - len)) by { assert(w[k] == e[k]); assert(w[m - k - 1] == e[m - k - 1]); }
        assert(e.subrange(0, len)[len - 1] == c[len - 1]);
        lemma_ext_ge_imp(c, e, m - len);
        lemma_imp_shift(c, m);
    }
}
pub proof fn lemma_count_lt_upper(d: Seq<Duration>, n: int, x: int, k: int)
    requires 0 <= k, 0 <= n <= d.len(), forall |j: int| k <= j < n ==> dm(d, j) >= x
    ensures count_lt(d, n, x) <= k
    decreases n
{
    if n > 0 {
        if n > k { lemma_count_lt_upper(d, n - 1, x, k); assert(dm(d, n - 1) >= x); }
        else { lemma_count_lt_bounds(d, n, x, x); }
    }
}
/// C13: strictly inside the extended horizon the extrapolated curve never claims more arrivals than the original one
pub proof fn lemma_c13_extension_tightens(c: Seq<Duration>, e: Seq<Duration>, delta: int)
    requires dmin_wf(c), dmin_wf(e), extends_d(c, e), 0 <= delta < dm(e, e.len() - 1)
    ensures na_curve(e, delta) <= na_curve(c, delta)
{ /*@lprobe*/
    if delta > 0 {
        let len = c.len() as int; let big = dm(c, len - 1); let elen = e.len() as int; let ebig = dm(e, elen - 1);
        lemma_small_mod(delta as nat, ebig as nat); lemma_basic_div(delta, ebig);
        assert(0 * elen == 0) by { lemma_mul_basics(elen); }
        assert(na_curve(e, delta) == 1 + count_lt(e, elen, delta));
        let q = delta / big; let r = delta % big;
        lemma_fundamental_div_mod(delta, big); lemma_mod_bound(delta, big); lemma_div_pos_is_pos(delta, big);
        lemma_mul_nonnegative(q, len);
        let m0 = q * len + eta(c, r) - 1;     // na_curve(c, delta) - 1
        // imp(c, m0) >= delta
        if r > 0 {
            let kk = count_lt(c, len, r);
            lemma_count_lt_bounds(c, len, r, r);
            lemma_count_lt_upper(c, len, r, len - 1) ;
            assert(kk <= len - 1) by { assert(dm(c, len - 1) >= r); }
            assert(dm(c, kk) >= r) by {
                if dm(c, kk) < r {
                    assert forall |j: int| 0 <= j < kk + 1 implies dm(c, j) < r by { assert(dm(c, j) <= dm(c, kk)); }
                    lemma_count_lt_ge(c, len, r, kk + 1);
                }
            }
            assert(m0 == q * len + kk);
            assert(len * q == q * len) by { lemma_mul_is_commutative(len, q); }
            lemma_fundamental_div_mod_converse(m0, len, q, kk);
            assert(imp(c, m0) == q * big + dm(c, kk));
            assert(big * q == q * big) by { lemma_mul_is_commutative(big, q); }
            assert(imp(c, m0) >= delta);
        } else {
            assert(q >= 1) by { if q <= 0 { assert(big * q <= 0) by { lemma_mul_nonnegative(big, -q); lemma_mul_unary_negation(big, -q); } } }
            assert(m0 == q * len - 1);
            assert((q - 1) * len == q * len - len) by { lemma_mul_is_distributive_sub_other_way(len, q, 1); }
            assert(len * (q - 1) == (q - 1) * len) by { lemma_mul_is_commutative(len, q - 1); }
            lemma_fundamental_div_mod_converse(m0, len, q - 1, len - 1);
            assert((q - 1) * big + big == q * big) by { lemma_mul_is_distributive_add_other_way(big, q - 1, 1); }
            assert(big * q == q * big) by { lemma_mul_is_commutative(big, q); }
            assert(imp(c, m0) == delta);
        }
        assert(m0 >= 0) by { lemma_count_lt_bounds(c, len, r, r); if r == 0 { assert(q >= 1); lemma_mul_inequality(1, q, len); } }
        if m0 >= elen { lemma_count_lt_bounds(e, elen, delta, delta); }
        else {
            lemma_ext_ge_imp(c, e, m0);
            assert forall |j: int| m0 <= j < elen implies dm(e, j) >= delta by { assert(dm(e, m0) <= dm(e, j)); }
            lemma_count_lt_upper(e, elen, delta, m0);
        }
    }
}

} // verus!
