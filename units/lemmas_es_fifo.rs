// C19: "the event-source analysis equals the FIFO analysis on a dedicated processor" -- lemma over the evaluators that
// rta_event_source (es_spec = ecrts_spec with es_w2) and fifo::dedicated_uniproc_rta (fifo_spec) are proved to compute.
// Hypothesis beyond well-formedness: the request bound is sub-additive towards its first value, rbf(x + 1) <= rbf(x) + rbf(1)
// (every sub-additive request bound satisfies it); without it the offset A = L, which only the event-source analysis
// examines (Lemma 7: <=), can dominate.
verus! {

pub open spec fn es_g(dem: spec_fn(int) -> int, limit: int) -> spec_fn(int) -> Option<int> { |a: int| scan(ded(), a, at_off(es_w2(dem), a), 0, limit) }
pub proof fn lemma_es_g(dem: spec_fn(int) -> int, limit: int, a: int)
    requires rbf_like(dem), a >= 0, sat(dem(a + 1) - a) <= limit
    ensures es_g(dem, limit)(a) == Some(sat(dem(a + 1) - a))
{
    let w = at_off(es_w2(dem), a); let x = sat(dem(a + 1) - a);
    assert(0 <= dem(a + 1));
    assert forall |q: int| 0 <= q < x implies ded()(a + q) < #[trigger] w(m1(q)) by { }
    lemma_scan_unique(ded(), a, w, limit, x);
}
pub proof fn lemma_es_fold(dem: spec_fn(int) -> int, limit: int, l: int, a: int)
    requires rbf_like(dem), 0 <= a <= l <= limit, l >= 1 ==> dem(l) <= l
    ensures fold_upto(dem, es_g(dem, limit), a) == Some(fold_steps_max(dem, |x: int| fifo_at(dem, x), a)), fold_steps_max(dem, |x: int| fifo_at(dem, x), a) >= 0
    decreases a
{
    if a > 0 {
        lemma_es_fold(dem, limit, l, a - 1);
        assert(0 <= dem(a) <= dem(l));
        lemma_es_g(dem, limit, a - 1);
    }
}
/// C19: event-source analysis on a dedicated processor == FIFO analysis
pub proof fn lemma_c19_es_is_fifo(dem: spec_fn(int) -> int, limit: int)
    requires rbf_like(dem), dem(1) >= 1, limit >= 1, forall |x: int| x >= 0 ==> #[trigger] dem(x + 1) <= dem(x) + dem(1)
    ensures ecrts_spec(ded(), dem, dem, es_w2(dem), limit) == fifo_spec(dem, limit)
{ /*@lprobe*/
    assert(w_fifo(dem) =~= dem);
    lemma_scan(ded(), 0, dem, 0, limit);
    if let Some(l) = scan(ded(), 0, dem, 0, limit) {
        assert(l >= 1) by { if l == 0 { assert(ded()(0int) >= dem(m1(0))); } }
        assert(dem(l) <= l);
        lemma_es_fold(dem, limit, l, l);
        lemma_fifo_prune(dem, l);
        let g = es_g(dem, limit);
        assert(g =~= (|a: int| scan(ded(), a, at_off(es_w2(dem), a), 0, limit)));
        // the additional offset A = L of the event-source analysis never dominates
        if is_step(dem, l) {
            assert(dem(l + 1) <= dem(l) + dem(1));
            assert(sat(dem(l + 1) - l) <= dem(1));
            assert(dem(1) <= dem(l));
            lemma_es_g(dem, limit, l);
            lemma_fifo_exh_ge(dem, l, 0);
            assert(fifo_at(dem, 0) == dem(1));
        }
    }
}

} // verus!
