// unit part: src/demand/{mod,rbf,aggregate,slice}.rs (C16)
verus! {

/// min over a sequence (0 for the empty sequence: `.min().unwrap_or_else(Service::none)`)
pub open spec fn min_seq<T>(xs: Seq<T>, g: spec_fn(T) -> int) -> int
    decreases xs.len()
{
    if xs.len() == 0 { 0 } else if xs.len() == 1 { g(xs[0]) } else { let r = min_seq(xs.drop_last(), g); let v = g(xs.last()); if v < r { v } else { r } }
}
pub proof fn lemma_min_seq_le<T>(xs: Seq<T>, g: spec_fn(T) -> int, i: int)
    requires 0 <= i < xs.len()
    ensures min_seq(xs, g) <= g(xs[i])
    decreases xs.len()
{
    if xs.len() > 1 { if i < xs.len() - 1 { lemma_min_seq_le(xs.drop_last(), g, i); assert(xs.drop_last()[i] == xs[i]); } }
}

/// R3: `xs.iter().map(f).min().unwrap_or_else(Service::none)`
pub fn vf_min_service<T, F: Fn(&T) -> Service>(xs: &[T], f: F, Ghost(g): Ghost<spec_fn(T) -> int>) -> (r: Service)
    requires
        forall |i: int| 0 <= i < xs@.len() ==> #[trigger] f.requires((&xs@[i],)),
        forall |i: int, v: Service| 0 <= i < xs@.len() && #[trigger] f.ensures((&xs@[i],), v) ==> v.v() == g(xs@[i]),
    ensures r.v() == min_seq(xs@, g)
{
    if xs.len() == 0 { return Service::none(); }
    let mut acc: Service = f(&xs[0]);
    proof { assert(xs@.take(1) =~= seq![xs@[0]]); }
    let mut i: usize = 1;
    while i < xs.len()
        invariant
            1 <= i <= xs@.len(), acc.v() == min_seq(xs@.take(i as int), g),
            forall |i: int| 0 <= i < xs@.len() ==> #[trigger] f.requires((&xs@[i],)),
            forall |i: int, v: Service| 0 <= i < xs@.len() && #[trigger] f.ensures((&xs@[i],), v) ==> v.v() == g(xs@[i]),
        decreases xs@.len() - i
    {
        let v = f(&xs[i]);
        proof { assert(xs@.take(i as int + 1).drop_last() =~= xs@.take(i as int)); }
        acc = acc.min(v);
        i = i + 1;
    }
    proof { assert(xs@.take(xs@.len() as int) =~= xs@); }
    acc
}

// ------------------------------------------------------------------ extracted code
pub trait RequestBound {
    spec fn wf(&self) -> bool;
    /// the request-bound function this object denotes
    spec fn rbf(&self, delta: int) -> int;
    /// least WCET of any job in an interval of length delta
    spec fn lw(&self, delta: int) -> int;
    /// demand of at most n jobs in an interval of length delta (default method: iterator based, bounded-checked)
    spec fn rbf_n(&self, delta: int, n: int) -> int;
    /// magnitude envelope
    spec fn rb_ok(&self, delta: int) -> bool;
    proof fn rbf_props(&self)
        requires self.wf()
        ensures self.rbf(0) == 0,
          forall |a: int, b: int| #![trigger self.rbf(a), self.rbf(b)] 0 <= a <= b ==> 0 <= self.rbf(a) <= self.rbf(b);

//@item src/demand/mod.rs :: trait RequestBound / fn service_needed
    fn service_needed(&self, delta: Duration) -> /*+*/(r: /*-*/Service/*+*/)
        requires self.wf(), self.rb_ok(delta.v())
        ensures r.v() == self.rbf(delta.v())/*-*/ /*@R10: {
        self.job_cost_iter(delta).sum()
    } @*/;/*@.*/
//@end

//@item src/demand/mod.rs :: trait RequestBound / fn service_needed_by_n_jobs
    fn service_needed_by_n_jobs(&self, delta: Duration, max_jobs: usize) -> /*+*/(r: /*-*/Service/*+*/)
        requires self.wf(), self.rb_ok(delta.v())
        ensures r.v() == self.rbf_n(delta.v(), max_jobs as int)/*-*/ /*@R10: {
        // take the max_jobs largest job costs
        itertools::sorted(self.job_cost_iter(delta))
            .rev()
            .take(max_jobs)
            .sum()
    } @*/;/*@.*/
//@end

//@item src/demand/mod.rs :: trait RequestBound / fn least_wcet_in_interval
    fn least_wcet_in_interval(&self, delta: Duration) -> /*+*/(r: /*-*/Service/*+*/)
        requires self.wf(), self.rb_ok(delta.v())
        ensures r.v() == self.lw(delta.v())/*-*/;
//@end
}

pub trait AggregateRequestBound: RequestBound {
    spec fn rbf_npc(&self, delta: int, n: int) -> int;
    spec fn npc_ok(&self, delta: int, n: int) -> bool;
//@item src/demand/mod.rs :: trait AggregateRequestBound / fn service_needed_by_n_jobs_per_component
    fn service_needed_by_n_jobs_per_component(&self, delta: Duration, max_jobs: usize) -> /*+*/(r: /*-*/Service/*+*/)
        requires self.wf(), self.rb_ok(delta.v()), self.npc_ok(delta.v(), max_jobs as int)
        ensures r.v() == self.rbf_npc(delta.v(), max_jobs as int)/*-*/;
//@end
}

//@item src/demand/rbf.rs :: struct RBF
pub struct RBF<B: ArrivalBound, C: JobCostModel> {
    pub wcet: C,
    pub arrival_bound: B,
}
//@end

impl<B: ArrivalBound, C: JobCostModel> RBF<B, C> {
//@item src/demand/rbf.rs :: impl<B: ArrivalBound, C: JobCostModel> RBF<B, C> / fn new
    pub fn new(ab: B, cm: C) -> /*+*/(r: /*-*/RBF<B, C>/*+*/) ensures r.wcet == cm, r.arrival_bound == ab/*-*/ {
        RBF {
            wcet: cm,
            arrival_bound: ab,
        }
    }
//@end
}

/// abstract: the sum of the n largest job costs (defined by the iterator-based default method)
pub uninterp spec fn rbf_n_default<B: ArrivalBound, C: JobCostModel>(x: RBF<B, C>, delta: int, n: int) -> int;

impl<B: ArrivalBound, C: JobCostModel> RequestBound for RBF<B, C> {
    open spec fn wf(&self) -> bool { self.wcet.wf() && self.arrival_bound.wf() }
    /// C16: service_needed(delta) is the cost of number_arrivals(delta) jobs
    open spec fn rbf(&self, delta: int) -> int { self.wcet.cost(self.arrival_bound.na(delta)) }
    open spec fn lw(&self, delta: int) -> int { self.wcet.least(self.arrival_bound.na(delta)) }
    open spec fn rbf_n(&self, delta: int, n: int) -> int { rbf_n_default(*self, delta, n) }
    open spec fn rb_ok(&self, delta: int) -> bool { self.arrival_bound.na_ok(delta) && self.wcet.cost(self.arrival_bound.na(delta)) <= u64::MAX }
    proof fn rbf_props(&self) {
        self.wcet.cost_props(); self.arrival_bound.na_props();
        assert forall |a: int, b: int| 0 <= a <= b implies 0 <= #[trigger] self.rbf(a) <= #[trigger] self.rbf(b) by {
            assert(0 <= self.arrival_bound.na(a) <= self.arrival_bound.na(b));
        }
    }
//@item src/demand/rbf.rs :: impl<B: ArrivalBound, C: JobCostModel> RequestBound for RBF<B, C> / fn service_needed
    fn service_needed(&self, delta: Duration) -> Service {
        self.wcet
            .cost_of_jobs(self.arrival_bound.number_arrivals(delta))
    }
//@end

    #[verifier::external_body]
    fn service_needed_by_n_jobs(&self, delta: Duration, max_jobs: usize) -> Service { unimplemented!() }   // default method (R10), bounded-checked

//@item src/demand/rbf.rs :: impl<B: ArrivalBound, C: JobCostModel> RequestBound for RBF<B, C> / fn least_wcet_in_interval
    fn least_wcet_in_interval(&self, delta: Duration) -> Service {
        self.wcet
            .least_wcet(self.arrival_bound.number_arrivals(delta))
    }
//@end
}

// ---- Aggregate / Slice
pub open spec fn sum_rbf<T: RequestBound>(xs: Seq<T>, d: int) -> int { sum_seq(xs, |t: T| t.rbf(d)) }
pub open spec fn sum_rbf_n<T: RequestBound>(xs: Seq<T>, d: int, n: int) -> int { sum_seq(xs, |t: T| t.rbf_n(d, n)) }
pub open spec fn min_lw<T: RequestBound>(xs: Seq<T>, d: int) -> int { min_seq(xs, |t: T| t.lw(d)) }
pub open spec fn all_rb_wf<T: RequestBound>(xs: Seq<T>) -> bool { forall |i: int| 0 <= i < xs.len() ==> (#[trigger] xs[i]).wf() }
pub open spec fn all_rb_ok<T: RequestBound>(xs: Seq<T>, d: int) -> bool { forall |i: int| 0 <= i < xs.len() ==> (#[trigger] xs[i]).rb_ok(d) }
pub proof fn lemma_sum_rbf_props<T: RequestBound>(xs: Seq<T>)
    requires all_rb_wf(xs)
    ensures sum_rbf(xs, 0) == 0,
        forall |a: int, b: int| #![trigger sum_rbf(xs, a), sum_rbf(xs, b)] 0 <= a <= b ==> 0 <= sum_rbf(xs, a) <= sum_rbf(xs, b)
{
    assert forall |i: int| 0 <= i < xs.len() implies (|t: T| t.rbf(0))(#[trigger] xs[i]) == (|t: T| 0int)(xs[i]) by { xs[i].rbf_props(); }
    lemma_sum_seq_eq(xs, |t: T| t.rbf(0), |t: T| 0int);
    lemma_sum_zero(xs);
    assert forall |a: int, b: int| 0 <= a <= b implies 0 <= #[trigger] sum_rbf(xs, a) <= #[trigger] sum_rbf(xs, b) by { lemma_sum_rbf_mono(xs, a, b); }
}
pub proof fn lemma_sum_rbf_mono<T: RequestBound>(xs: Seq<T>, a: int, b: int)
    requires all_rb_wf(xs), 0 <= a <= b
    ensures 0 <= sum_rbf(xs, a) <= sum_rbf(xs, b)
{
    assert forall |i: int| 0 <= i < xs.len() implies (|t: T| t.rbf(a))(#[trigger] xs[i]) >= 0 && (|t: T| t.rbf(a))(xs[i]) <= (|t: T| t.rbf(b))(xs[i]) by { xs[i].rbf_props(); }
    lemma_sum_seq_nonneg(xs, |t: T| t.rbf(a));
    lemma_sum_seq_le(xs, |t: T| t.rbf(a), |t: T| t.rbf(b));
}

//@item src/demand/aggregate.rs :: struct Aggregate
pub struct Aggregate<T> {
    /*+*/pub /*-*/individual: Vec<T>,
}
//@end
impl<T> Aggregate<T> {
//@item src/demand/aggregate.rs :: impl<T> Aggregate<T> / fn new
    pub fn new(components: Vec<T>) -> /*+*/(r: /*-*/Self/*+*/) ensures r.individual == components/*-*/ {
        Aggregate {
            individual: components,
        }
    }
//@end
}

impl<T: RequestBound> RequestBound for Aggregate<T> {
    open spec fn wf(&self) -> bool { all_rb_wf(self.individual@) }
    /// C16: service_needed is the sum over components
    open spec fn rbf(&self, delta: int) -> int { sum_rbf(self.individual@, delta) }
    /// C16: least_wcet_in_interval is the minimum over components (0 if there are none), hence <= every component's
    open spec fn lw(&self, delta: int) -> int { min_lw(self.individual@, delta) }
    open spec fn rbf_n(&self, delta: int, n: int) -> int { agg_rbf_n_default(self.individual@, delta, n) }
    open spec fn rb_ok(&self, delta: int) -> bool { all_rb_ok(self.individual@, delta) && sum_rbf(self.individual@, delta) <= u64::MAX }
    proof fn rbf_props(&self) { lemma_sum_rbf_props(self.individual@); }
//@item src/demand/aggregate.rs :: impl<T: RequestBound> RequestBound for Aggregate<T> / fn service_needed
    fn service_needed(&self, delta: Duration) -> Service {
//@+
        proof { assert forall |i: int| 0 <= i < self.individual@.len() implies (|t: T| t.rbf(delta.v()))(#[trigger] self.individual@[i]) >= 0 by { self.individual@[i].rbf_props(); } }
//@-
        /*@R1: self.individual
            .iter()
            .map( @*/vf_sum_service(self.individual.as_slice(), /*@.*/|rbf/*+*/: &T/*-*/| /*+*/-> (r: Service) requires rbf.wf(), rbf.rb_ok(delta.v()) ensures r.v() == rbf.rbf(delta.v()) { /*-*/rbf.service_needed(delta)/*+*/ }/*-*//*@R1: )
            .sum() @*/, Ghost(|t: T| t.rbf(delta.v())))/*@.*/
    }
//@end

    #[verifier::external_body]
    fn service_needed_by_n_jobs(&self, delta: Duration, max_jobs: usize) -> Service { unimplemented!() }   // default method (R10), bounded-checked

//@item src/demand/aggregate.rs :: impl<T: RequestBound> RequestBound for Aggregate<T> / fn least_wcet_in_interval
    fn least_wcet_in_interval(&self, delta: Duration) -> Service {
        /*@R3: self.individual
            .iter()
            .map( @*/vf_min_service(self.individual.as_slice(), /*@.*/|rbf/*+*/: &T/*-*/| /*+*/-> (r: Service) requires rbf.wf(), rbf.rb_ok(delta.v()) ensures r.v() == rbf.lw(delta.v()) { /*-*/rbf.least_wcet_in_interval(delta)/*+*/ }/*-*//*@R3: )
            .min()
            .unwrap_or_else(Service::none) @*/, Ghost(|t: T| t.lw(delta.v())))/*@.*/
    }
//@end
}
pub uninterp spec fn agg_rbf_n_default<T: RequestBound>(xs: Seq<T>, delta: int, n: int) -> int;

impl<T: RequestBound> AggregateRequestBound for Aggregate<T> {
    /// C16: the per-component variant equals the sum of the components' restricted demands
    open spec fn rbf_npc(&self, delta: int, n: int) -> int { sum_rbf_n(self.individual@, delta, n) }
    open spec fn npc_ok(&self, delta: int, n: int) -> bool {
        sum_rbf_n(self.individual@, delta, n) <= u64::MAX && forall |i: int| 0 <= i < self.individual@.len() ==> (#[trigger] self.individual@[i]).rbf_n(delta, n) >= 0 }
//@item src/demand/aggregate.rs :: impl<T: RequestBound> AggregateRequestBound for Aggregate<T> / fn service_needed_by_n_jobs_per_component
    fn service_needed_by_n_jobs_per_component(&self, delta: Duration, max_jobs: usize) -> Service {
        /*@R1: self.individual
            .iter()
            .map( @*/vf_sum_service(self.individual.as_slice(), /*@.*/|rbf/*+*/: &T/*-*/| /*+*/-> (r: Service) requires rbf.wf(), rbf.rb_ok(delta.v()) ensures r.v() == rbf.rbf_n(delta.v(), max_jobs as int) { /*-*/rbf.service_needed_by_n_jobs(delta, max_jobs)/*+*/ }/*-*//*@R1: )
            .sum() @*/, Ghost(|t: T| t.rbf_n(delta.v(), max_jobs as int)))/*@.*/
    }
//@end
}

//@item src/demand/slice.rs :: struct Slice
pub struct Slice<'a, T> {
    /*+*/pub /*-*/slice: &'a [T],
}
//@end
impl<'a, T> Slice<'a, T> {
//@item src/demand/slice.rs :: impl<'a, T> Slice<'a, T> / fn of
    pub fn of(slice: &'a [T]) -> /*+*/(r: /*-*/Self/*+*/) ensures r.slice == slice/*-*/ {
        Slice { slice }
    }
//@end
}

impl<'a, T: RequestBound> RequestBound for Slice<'a, T> {
    open spec fn wf(&self) -> bool { all_rb_wf(self.slice@) }
    open spec fn rbf(&self, delta: int) -> int { sum_rbf(self.slice@, delta) }
    open spec fn lw(&self, delta: int) -> int { min_lw(self.slice@, delta) }
    open spec fn rbf_n(&self, delta: int, n: int) -> int { agg_rbf_n_default(self.slice@, delta, n) }
    open spec fn rb_ok(&self, delta: int) -> bool { all_rb_ok(self.slice@, delta) && sum_rbf(self.slice@, delta) <= u64::MAX }
    proof fn rbf_props(&self) { lemma_sum_rbf_props(self.slice@); }
//@item src/demand/slice.rs :: impl<'a, T: RequestBound> RequestBound for Slice<'a, T> / fn service_needed
    fn service_needed(&self, delta: Duration) -> Service {
//@+
        proof { assert forall |i: int| 0 <= i < self.slice@.len() implies (|t: T| t.rbf(delta.v()))(#[trigger] self.slice@[i]) >= 0 by { self.slice@[i].rbf_props(); } }
//@-
        /*@R1: self.slice.iter().map( @*/vf_sum_service(self.slice, /*@.*/|rbf/*+*/: &T/*-*/| /*+*/-> (r: Service) requires rbf.wf(), rbf.rb_ok(delta.v()) ensures r.v() == rbf.rbf(delta.v()) { /*-*/rbf.service_needed(delta)/*+*/ }/*-*//*@R1: ).sum() @*/, Ghost(|t: T| t.rbf(delta.v())))/*@.*/
    }
//@end

    #[verifier::external_body]
    fn service_needed_by_n_jobs(&self, delta: Duration, max_jobs: usize) -> Service { unimplemented!() }   // default method (R10), bounded-checked

//@item src/demand/slice.rs :: impl<'a, T: RequestBound> RequestBound for Slice<'a, T> / fn least_wcet_in_interval
    fn least_wcet_in_interval(&self, delta: Duration) -> Service {
        /*@R3: self.slice
            .iter()
            .map( @*/vf_min_service(self.slice, /*@.*/|rbf/*+*/: &T/*-*/| /*+*/-> (r: Service) requires rbf.wf(), rbf.rb_ok(delta.v()) ensures r.v() == rbf.lw(delta.v()) { /*-*/rbf.least_wcet_in_interval(delta)/*+*/ }/*-*//*@R3: )
            .min()
            .unwrap_or_else(Service::none) @*/, Ghost(|t: T| t.lw(delta.v())))/*@.*/
    }
//@end
}

impl<'a, T: RequestBound> AggregateRequestBound for Slice<'a, T> {
    open spec fn rbf_npc(&self, delta: int, n: int) -> int { sum_rbf_n(self.slice@, delta, n) }
    open spec fn npc_ok(&self, delta: int, n: int) -> bool {
        sum_rbf_n(self.slice@, delta, n) <= u64::MAX && forall |i: int| 0 <= i < self.slice@.len() ==> (#[trigger] self.slice@[i]).rbf_n(delta, n) >= 0 }
//@item src/demand/slice.rs :: impl<'a, T: RequestBound> AggregateRequestBound for Slice<'a, T> / fn service_needed_by_n_jobs_per_component
    fn service_needed_by_n_jobs_per_component(&self, delta: Duration, max_jobs: usize) -> Service {
        /*@R1: self.slice
            .iter()
            .map( @*/vf_sum_service(self.slice, /*@.*/|rbf/*+*/: &T/*-*/| /*+*/-> (r: Service) requires rbf.wf(), rbf.rb_ok(delta.v()) ensures r.v() == rbf.rbf_n(delta.v(), max_jobs as int) { /*-*/rbf.service_needed_by_n_jobs(delta, max_jobs)/*+*/ }/*-*//*@R1: )
            .sum() @*/, Ghost(|t: T| t.rbf_n(delta.v(), max_jobs as int)))/*@.*/
    }
//@end
}

} // verus!
