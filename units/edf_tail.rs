// The merged, deadline-shifted EDF search space as verified code (rule R21): lemmas that connect
//   step_offsets(tua).take_while(< max)  merged with  kmerge_i( step_offsets(ot_i).map(shift_i).take_while(< max) ), dedup,
// mapped through rta and folded by max_response_time, to the evaluator fold_space of speclib_edf.rs.
verus! {

/// offset a < max is the (saturating) image of a step of f shifted by dlo - dl
pub open spec fn shifted_in(f: spec_fn(int) -> int, dlo: int, dl: int, max: int, a: int) -> bool {
    0 <= a < max && exists |delta: int| #[trigger] is_step_at(f, delta) && a == sat(delta - 1 + dlo - dl)
}
pub open spec fn sh(dlo: int, dl: int) -> spec_fn(Offset) -> Offset { |o: Offset| Offset { val: sat(o.v() + dlo - dl) as u64 } }

/// what `take_while(< max)` keeps of the exact step offsets: exactly the step offsets below max
pub proof fn lemma_tw_set(offs: Seq<Offset>, f: spec_fn(int) -> int, hz: int, max: int, tw: Seq<Offset>)
    requires offsets_exact(offs, f, hz), 0 <= max <= hz, tw_of(tw, offs, max)
    ensures forall |a: int| #[trigger] off_has(tw, a) <==> (0 <= a < max && is_step_at(f, a + 1))
{
    assert forall |a: int| #[trigger] off_has(tw, a) <==> (0 <= a < max && is_step_at(f, a + 1)) by {
        if off_has(tw, a) {
            let i = choose |i: int| 0 <= i < tw.len() && (#[trigger] tw[i]).val == a;
            assert(tw[i] == offs[i]);
            assert(off_has(offs, offs[i].v()));
        }
        if 0 <= a < max && is_step_at(f, a + 1) {
            assert(off_has(offs, a));
            let i = choose |i: int| 0 <= i < offs.len() && (#[trigger] offs[i]).val == a;
            if i >= tw.len() { if tw.len() < i { assert(offs[tw.len() as int].val < offs[i].val); } assert(false); }
            assert(tw[i].val == a);
        }
    }
}

/// the same for a shifted stream: m = offs mapped through the monotone saturating shift, tw = take_while(< max) of m
#[verifier::spinoff_prover]
pub proof fn lemma_shifted_tw_set(offs: Seq<Offset>, f: spec_fn(int) -> int, hz: int, ub: int, dlo: int, dl: int, max: int, tw: Seq<Offset>)
    requires offsets_exact(offs, f, hz), dlo >= 0, dl >= 0, max >= 0, hz >= max + dl, ub + dlo <= u64::MAX,
        off_lt(offs, ub),
        tw_of(tw, offs.map_values(sh(dlo, dl)), max)
    ensures forall |a: int| #[trigger] off_has(tw, a) <==> shifted_in(f, dlo, dl, max, a)
{
    let m = offs.map_values(sh(dlo, dl));
    assert forall |i: int| 0 <= i < offs.len() implies 0 <= (#[trigger] offs[i]).val < ub && is_step_at(f, offs[i].v() + 1) && m[i].v() == sat(offs[i].v() + dlo - dl) by {
        assert(off_has(offs, offs[i].v()));
    }
    assert forall |a: int| #[trigger] off_has(tw, a) <==> shifted_in(f, dlo, dl, max, a) by {
        if off_has(tw, a) {
            let i = choose |i: int| 0 <= i < tw.len() && (#[trigger] tw[i]).val == a;
            assert(tw[i] == m[i]);
            assert(m[i].val < max);
            assert(is_step_at(f, offs[i].v() + 1) && a == sat((offs[i].v() + 1) - 1 + dlo - dl));
        }
        if shifted_in(f, dlo, dl, max, a) {
            let delta = choose |delta: int| #[trigger] is_step_at(f, delta) && a == sat(delta - 1 + dlo - dl);
            let o = delta - 1;
            assert(o < hz);
            assert(off_has(offs, o));
            let i = choose |i: int| 0 <= i < offs.len() && (#[trigger] offs[i]).val == o;
            assert(m[i].v() == a);
            if i >= tw.len() {
                // m is non-decreasing, so everything from the first rejected item on is >= max
                if tw.len() < i { assert(offs[tw.len() as int].val < offs[i].val); assert(m[tw.len() as int].val <= m[i].val); }
                assert(false);
            }
            assert(tw[i].val == a);
        }
    }
}

/// generic pruned fold over the offsets satisfying p
pub open spec fn fold_p(p: spec_fn(int) -> bool, g: spec_fn(int) -> Option<int>, a: int) -> Option<int>
    decreases a
{
    if a <= 0 { Some(0) } else if p(a - 1) { comb(fold_p(p, g, a - 1), g(a - 1)) } else { fold_p(p, g, a - 1) }
}
#[verifier::spinoff_prover]
pub proof fn lemma_fold_p_char(p: spec_fn(int) -> bool, g: spec_fn(int) -> Option<int>, a: int)
    ensures
        fold_p(p, g, a).is_none() <==> exists |x: int| 0 <= x < a && p(x) && (#[trigger] g(x)).is_none(),
        fold_p(p, g, a).is_some() ==> {
            let m = fold_p(p, g, a).unwrap();
            &&& m >= 0
            &&& forall |x: int| 0 <= x < a && p(x) ==> (#[trigger] g(x)).is_some() && g(x).unwrap() <= m
            &&& (m == 0 || exists |x: int| 0 <= x < a && p(x) && #[trigger] g(x) == Some(m))
        }
    decreases a
{
    if a > 0 {
        lemma_fold_p_char(p, g, a - 1);
        let q = fold_p(p, g, a - 1);
        let r = fold_p(p, g, a);
        if p(a - 1) {
            assert(r == comb(q, g(a - 1)));
            if r.is_none() {
                if q.is_none() { let x = choose |x: int| 0 <= x < a - 1 && p(x) && (#[trigger] g(x)).is_none(); assert(0 <= x < a && p(x) && g(x).is_none()); }
                else { assert(g(a - 1).is_none()); }
            } else {
                let m = r.unwrap();
                assert(q.is_some() && g(a - 1).is_some());
                assert forall |x: int| 0 <= x < a && p(x) implies (#[trigger] g(x)).is_some() && g(x).unwrap() <= m by { if x < a - 1 { assert(g(x).unwrap() <= q.unwrap()); } }
                if m != 0 {
                    if g(a - 1).unwrap() > q.unwrap() { assert(g(a - 1) == Some(m)); }
                    else { assert(m == q.unwrap()); let x = choose |x: int| 0 <= x < a - 1 && p(x) && #[trigger] g(x) == Some(q.unwrap()); assert(0 <= x < a && p(x) && g(x) == Some(m)); }
                }
                if exists |x: int| 0 <= x < a && p(x) && (#[trigger] g(x)).is_none() {
                    let x = choose |x: int| 0 <= x < a && p(x) && (#[trigger] g(x)).is_none();
                    if x < a - 1 { assert(q.is_none()); }
                }
            }
        } else {
            assert(r == q);
            if r.is_none() { let x = choose |x: int| 0 <= x < a - 1 && p(x) && (#[trigger] g(x)).is_none(); assert(0 <= x < a && p(x) && g(x).is_none()); }
            else {
                let m = r.unwrap();
                if m != 0 { let x = choose |x: int| 0 <= x < a - 1 && p(x) && #[trigger] g(x) == Some(m); assert(0 <= x < a && p(x) && g(x) == Some(m)); }
                if exists |x: int| 0 <= x < a && p(x) && (#[trigger] g(x)).is_none() {
                    let x = choose |x: int| 0 <= x < a && p(x) && (#[trigger] g(x)).is_none();
                    assert(x < a - 1);
                }
            }
        }
    }
}
/// "first error, else maximum, else zero" over a sequence that contains exactly the offsets below max satisfying p
/// (in any order, with or without repetitions) is fold_p
#[verifier::spinoff_prover]
pub proof fn lemma_set_fold(ss: Seq<Offset>, p: spec_fn(int) -> bool, max: int, rs: Seq<SearchResult>, g: spec_fn(int) -> Option<int>, res: SearchResult)
    requires
        forall |a: int| #[trigger] off_has(ss, a) <==> (0 <= a < max && p(a)),
        rs.len() == ss.len(), forall |i: int| 0 <= i < ss.len() ==> res_view(#[trigger] rs[i]) == g(ss[i].v()),
        mrt_ok(res, rs)
    ensures res_view(res) == fold_p(p, g, max)
{
    assert forall |i: int| 0 <= i < ss.len() implies 0 <= (#[trigger] ss[i]).val < max && p(ss[i].v()) by { assert(off_has(ss, ss[i].v())); }
    lemma_fold_p_char(p, g, max);
    let fs = fold_p(p, g, max);
    if rs.len() == 0 {
        assert(fs == Some(0int)) by {
            if fs != Some(0int) {
                if fs.is_none() { let x = choose |x: int| 0 <= x < max && p(x) && (#[trigger] g(x)).is_none(); assert(off_has(ss, x)); }
                else { let x = choose |x: int| 0 <= x < max && p(x) && #[trigger] g(x) == fs; assert(off_has(ss, x)); }
            }
        }
    } else if has_err(rs) {
        let i = choose |i: int| 0 <= i < rs.len() && rs[i].is_err() && res == #[trigger] rs[i] && forall |k: int| 0 <= k < i ==> !(#[trigger] rs[k]).is_err();
        assert(g(ss[i].v()).is_none());
        assert(fs.is_none());
    } else {
        let i = choose |i: int| 0 <= i < rs.len() && res == #[trigger] rs[i];
        assert(fs.is_some()) by {
            if fs.is_none() {
                let x = choose |x: int| 0 <= x < max && p(x) && (#[trigger] g(x)).is_none();
                assert(off_has(ss, x));
                let k = choose |k: int| 0 <= k < ss.len() && (#[trigger] ss[k]).val == x;
                assert(res_view(rs[k]) == g(x));
                assert(rs[k].is_err());
            }
        }
        let m = fs.unwrap();
        let v = res.unwrap().v();
        assert(g(ss[i].v()) == Some(v));
        assert(v <= m);
        if m > v {
            let x = choose |x: int| 0 <= x < max && p(x) && #[trigger] g(x) == Some(m);
            assert(off_has(ss, x));
            let k = choose |k: int| 0 <= k < ss.len() && (#[trigger] ss[k]).val == x;
            assert(res_view(rs[k]) == g(x));
            assert(rs[k].unwrap().val <= res.unwrap().val);
        }
    }
}
/// fold_space is fold_p over in_space
pub proof fn lemma_fold_space_is_fold_p(tua: spec_fn(int) -> int, dl: int, ots: Seq<OT>, g: spec_fn(int) -> Option<int>, a: int)
    ensures fold_space(tua, dl, ots, g, a) == fold_p(|x: int| in_space(tua, dl, ots, x), g, a)
    decreases a
{
    if a > 0 { lemma_fold_space_is_fold_p(tua, dl, ots, g, a - 1); }
}
/// the merged stream holds exactly the offsets below max of the EDF search space
pub proof fn lemma_edf_space(ss: Seq<Offset>, tua: spec_fn(int) -> int, dl: int, ots: Seq<OT>, max: int)
    requires forall |a: int| #[trigger] off_has(ss, a) <==> ((0 <= a < max && is_step_at(tua, a + 1)) || exists |i: int| 0 <= i < ots.len() && #[trigger] shifted_in(ots[i].f, ots[i].dl, dl, max, a))
    ensures forall |a: int| #[trigger] off_has(ss, a) <==> (0 <= a < max && (|x: int| in_space(tua, dl, ots, x))(a))
{
    assert forall |a: int| #[trigger] off_has(ss, a) <==> (0 <= a < max && in_space(tua, dl, ots, a)) by {
        if off_has(ss, a) && !(0 <= a < max && is_step_at(tua, a + 1)) {
            let i = choose |i: int| 0 <= i < ots.len() && #[trigger] shifted_in(ots[i].f, ots[i].dl, dl, max, a);
            let delta = choose |delta: int| #[trigger] is_step_at(ots[i].f, delta) && a == sat(delta - 1 + ots[i].dl - dl);
            assert(0 <= i < ots.len() && is_step_at(ots[i].f, delta) && a == sat(delta - 1 + ots[i].dl - dl));
        }
        if 0 <= a < max && in_space(tua, dl, ots, a) && !is_step_at(tua, a + 1) {
            let (i, delta) = choose |i: int, delta: int| 0 <= i < ots.len() && #[trigger] is_step_at(ots[i].f, delta) && a == sat(delta - 1 + ots[i].dl - dl);
            assert(shifted_in(ots[i].f, ots[i].dl, dl, max, a));
        }
    }
}

} // verus!
