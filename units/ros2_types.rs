// unit part: items of src/ros2/rr.rs shared by the rr and bw analyses (bw.rs re-exports them)
verus! {

//@item src/ros2/rr.rs :: type PolledCallbackPriority
pub type PolledCallbackPriority = i32;
//@end

//@item src/ros2/rr.rs :: fn is_higher_callback_priority_than
pub fn is_higher_callback_priority_than(
    a: PolledCallbackPriority,
    b: PolledCallbackPriority,
) -> /*+*/(r: /*-*/bool/*+*/) ensures r == (a < b)/*-*/ {
    a < b
}
//@end

//@item src/ros2/rr.rs :: enum CallbackType
/*+*/#[derive(Debug, Clone, Copy, PartialEq, Eq)] /*-*/pub enum CallbackType {
    /// A timer callback.
    Timer,
    /// An event source pseudo-callback.
    EventSource,
    /// A polling-point-based callback for which the priority is not known.
    PolledUnknownPrio,
    /// A polling-point-based callback with known priority.
    Polled(PolledCallbackPriority),
}
//@end

impl CallbackType {
//@item src/ros2/rr.rs :: impl CallbackType / fn is_pp
    pub fn is_pp(&self) -> /*+*/(r: /*-*/bool/*+*/)
        ensures r == (match *self { CallbackType::PolledUnknownPrio | CallbackType::Polled(_) => true, _ => false })/*-*/ {
        matches!(
            self,
            CallbackType::PolledUnknownPrio | CallbackType::Polled(_)
        )
    }
//@end
}

// ---- Definitions 1-3 of the RTSS'21 paper, as spec functions
pub open spec fn direct_n(kind: CallbackType, interfered: CallbackType, arrived: int, npp: int) -> int {
    match kind {
        CallbackType::Timer | CallbackType::EventSource => arrived,
        CallbackType::PolledUnknownPrio => imin(arrived, npp + 1),
        CallbackType::Polled(p) => match interfered {
            CallbackType::Polled(q) => imin(arrived, npp + if p < q { 1int } else { 0int }),
            _ => imin(arrived, npp + 1),
        },
    }
}
// ---- pointer identity (R8): ASSUMED to be determined by the values (the end-of-chain callback occurs once in the workload)
pub uninterp spec fn same_obj<T>(a: &T, b: &T) -> bool;
#[verifier::external_body]
pub fn vf_ptr_eq<T>(a: &T, b: &T) -> (r: bool) ensures r == same_obj(a, b) { std::ptr::eq(a, b) }


} // verus!
