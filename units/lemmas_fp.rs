// C17 / C19 lemmas over the spec functions that the real FP analyses are proved to compute
// (fp_spec, fl_spec, np_spec, lp_spec appear in the `ensures` of the four extracted dedicated_uniproc_rta functions)
verus! {

// ------------------------------------------------------------------ C17: single-parameter hardenings
/// larger WCET of the task under analysis (scalar cost models), NP-FP: c -> c2 >= c
pub proof fn lemma_c17_np_wcet(c: int, c2: int, na: spec_fn(int) -> int, hp: spec_fn(int) -> int, b: int, limit: int)
    requires 1 <= c <= c2, forall |x: int| x >= 1 ==> #[trigger] na(x) >= 1
    ensures opt_le(np_spec(c, na, hp, b, limit), np_spec(c2, na, hp, b, limit))
{ /*@lprobe*/
    assert forall |x: int| x >= 1 implies #[trigger] cn_fn(c, na)(x) <= cn_fn(c2, na)(x) && cn_fn(c, na)(x) - (c - 1) <= cn_fn(c2, na)(x) - (c2 - 1) by {
        let n = na(x);
        assert(c * n <= c2 * n) by { lemma_mul_inequality(c, c2, n); }
        // (c2 - c) * (n - 1) >= 0
        assert(c2 * n - c * n == (c2 - c) * n) by { lemma_mul_is_distributive_sub_other_way(n, c2, c); }
        assert((c2 - c) * n >= (c2 - c) * 1) by { lemma_mul_inequality(1, n, c2 - c); lemma_mul_is_commutative(c2 - c, n); lemma_mul_is_commutative(c2 - c, 1); }
    }
    lemma_fpx_mono(cn_fn(c, na), hp, b, c - 1, cn_fn(c2, na), hp, b, c2 - 1, limit);
}
/// larger WCET with a fixed last segment (LP-FP), and a larger last segment never matters for *soundness ordering* here:
/// only the WCET hardening is claimed (a longer last segment legitimately lowers the bound, see DESIGN C17)
pub proof fn lemma_c17_lp_wcet(c: int, c2: int, last: int, na: spec_fn(int) -> int, hp: spec_fn(int) -> int, b: int, limit: int)
    requires 1 <= c <= c2, forall |x: int| x >= 1 ==> #[trigger] na(x) >= 0
    ensures opt_le(lp_spec(c, last, na, hp, b, limit), lp_spec(c2, last, na, hp, b, limit))
{ /*@lprobe*/
    assert forall |x: int| x >= 1 implies #[trigger] cn_fn(c, na)(x) <= cn_fn(c2, na)(x) by { lemma_mul_inequality(c, c2, na(x)); }
    lemma_fpx_mono(cn_fn(c, na), hp, b, last - 1, cn_fn(c2, na), hp, b, last - 1, limit);
}
/// more arrivals of the task under analysis (more release jitter, shorter period), NP/LP-FP
pub proof fn lemma_c17_np_arrivals(c: int, na: spec_fn(int) -> int, na2: spec_fn(int) -> int, hp: spec_fn(int) -> int, b: int, limit: int)
    requires c >= 1, forall |x: int| x >= 1 ==> #[trigger] na(x) <= na2(x)
    ensures opt_le(np_spec(c, na, hp, b, limit), np_spec(c, na2, hp, b, limit)),
            forall |last: int| opt_le(#[trigger] lp_spec(c, last, na, hp, b, limit), lp_spec(c, last, na2, hp, b, limit))
{ /*@lprobe*/
    assert forall |x: int| x >= 1 implies #[trigger] cn_fn(c, na)(x) <= cn_fn(c, na2)(x) by { lemma_mul_inequality(na(x), na2(x), c); lemma_mul_is_commutative(c, na(x)); lemma_mul_is_commutative(c, na2(x)); }
    lemma_fpx_mono(cn_fn(c, na), hp, b, c - 1, cn_fn(c, na2), hp, b, c - 1, limit);
    assert forall |last: int| opt_le(#[trigger] lp_spec(c, last, na, hp, b, limit), lp_spec(c, last, na2, hp, b, limit)) by {
        lemma_fpx_mono(cn_fn(c, na), hp, b, last - 1, cn_fn(c, na2), hp, b, last - 1, limit);
    }
}
/// more demand of the task under analysis (FP, floating): any pointwise larger RBF (larger WCET, jitter, shorter period)
pub proof fn lemma_c17_fp_tua(tua: spec_fn(int) -> int, tua2: spec_fn(int) -> int, hp: spec_fn(int) -> int, b: int, limit: int)
    requires forall |x: int| x >= 1 ==> #[trigger] tua(x) <= tua2(x)
    ensures opt_le(fp_spec(tua, hp, limit), fp_spec(tua2, hp, limit)), opt_le(fl_spec(tua, hp, b, limit), fl_spec(tua2, hp, b, limit))
{ /*@lprobe*/
    lemma_fpx_mono(tua, hp, 0, 0, tua2, hp, 0, 0, limit);
    lemma_fpx_mono(tua, hp, b, 0, tua2, hp, b, 0, limit);
}
/// more interference (added task, larger WCET / jitter / shorter period of an interfering task) and/or a larger blocking bound:
/// all four analyses
pub proof fn lemma_c17_interference(tua: spec_fn(int) -> int, hp: spec_fn(int) -> int, hp2: spec_fn(int) -> int, b: int, b2: int, c: int, last: int, na: spec_fn(int) -> int, limit: int)
    requires b <= b2, forall |x: int| x >= 1 ==> #[trigger] hp(x) <= hp2(x)
    ensures opt_le(fp_spec(tua, hp, limit), fp_spec(tua, hp2, limit)),
            opt_le(fl_spec(tua, hp, b, limit), fl_spec(tua, hp2, b2, limit)),
            opt_le(np_spec(c, na, hp, b, limit), np_spec(c, na, hp2, b2, limit)),
            opt_le(lp_spec(c, last, na, hp, b, limit), lp_spec(c, last, na, hp2, b2, limit)),
{ /*@lprobe*/
    lemma_fpx_mono(tua, hp, 0, 0, tua, hp2, 0, 0, limit);
    lemma_fpx_mono(tua, hp, b, 0, tua, hp2, b2, 0, limit);
    lemma_fpx_mono(cn_fn(c, na), hp, b, c - 1, cn_fn(c, na), hp2, b2, c - 1, limit);
    lemma_fpx_mono(cn_fn(c, na), hp, b, last - 1, cn_fn(c, na), hp2, b2, last - 1, limit);
}
/// adding an interfering task makes the aggregate interference pointwise larger
pub proof fn lemma_c17_added_task<B: RequestBound>(hp: Seq<B>, extra: B, x: int)
    requires extra.wf(), x >= 0
    ensures hp_fn(hp)(x) <= hp_fn(hp.push(extra))(x)
{ /*@lprobe*/
    extra.rbf_props();
    assert(hp.push(extra).drop_last() =~= hp);
    assert(extra.rbf(0) <= extra.rbf(x));
}
/// increasing the divergence limit never changes an Ok result (all four analyses)
pub proof fn lemma_c17_limit(tua: spec_fn(int) -> int, hp: spec_fn(int) -> int, b: int, c: int, last: int, na: spec_fn(int) -> int, limit: int, limit2: int)
    requires limit <= limit2
    ensures fp_spec(tua, hp, limit).is_some() ==> fp_spec(tua, hp, limit2) == fp_spec(tua, hp, limit),
            fl_spec(tua, hp, b, limit).is_some() ==> fl_spec(tua, hp, b, limit2) == fl_spec(tua, hp, b, limit),
            np_spec(c, na, hp, b, limit).is_some() ==> np_spec(c, na, hp, b, limit2) == np_spec(c, na, hp, b, limit),
            lp_spec(c, last, na, hp, b, limit).is_some() ==> lp_spec(c, last, na, hp, b, limit2) == lp_spec(c, last, na, hp, b, limit),
{ /*@lprobe*/
    if fp_spec(tua, hp, limit).is_some() { lemma_fpx_limit(tua, hp, 0, 0, limit, limit2); }
    if fl_spec(tua, hp, b, limit).is_some() { lemma_fpx_limit(tua, hp, b, 0, limit, limit2); }
    if np_spec(c, na, hp, b, limit).is_some() { lemma_fpx_limit(cn_fn(c, na), hp, b, c - 1, limit, limit2); }
    if lp_spec(c, last, na, hp, b, limit).is_some() { lemma_fpx_limit(cn_fn(c, na), hp, b, last - 1, limit, limit2); }
}
/// sporadic arrivals: more jitter or a shorter period never yields fewer arrivals (feeds the lemmas above)
pub proof fn lemma_c17_sporadic_harder(t: int, j: int, t2: int, j2: int, d: int)
    requires 1 <= t2 <= t, 0 <= j <= j2, d >= 0
    ensures na_sporadic(t, j, d) <= na_sporadic(t2, j2, d)
{ /*@lprobe*/
    if d > 0 {
        let a = d + j2;
        lemma_ceil_div(a, t); lemma_ceil_div(a, t2);
        lemma_ceil_div_mono(d + j, a, t);
        let m = ceil_div(a, t); let n2 = ceil_div(a, t2);
        assert(n2 >= 0);
        assert(n2 * t >= n2 * t2) by { lemma_mul_inequality(t2, t, n2); lemma_mul_is_commutative(t2, n2); lemma_mul_is_commutative(t, n2); }
        if m > n2 {
            assert(n2 * t <= (m - 1) * t) by { lemma_mul_inequality(n2, m - 1, t); }
            assert(false);
        }
    }
}

// ------------------------------------------------------------------ C19: coincidences between the FP analyses
/// limited-preemptive FP with last segment 1 and no blocking == fully preemptive FP (on the same RBF)
pub proof fn lemma_c19_lp_last1_is_fp(c: int, na: spec_fn(int) -> int, hp: spec_fn(int) -> int, limit: int)
    ensures lp_spec(c, 1, na, hp, 0, limit) == fp_spec(cn_fn(c, na), hp, limit)
{ /*@lprobe*/}
/// limited-preemptive FP with last segment == WCET == fully non-preemptive FP
pub proof fn lemma_c19_lp_lastc_is_np(c: int, na: spec_fn(int) -> int, hp: spec_fn(int) -> int, b: int, limit: int)
    ensures lp_spec(c, c, na, hp, b, limit) == np_spec(c, na, hp, b, limit)
{ /*@lprobe*/}
/// floating non-preemptive FP == limited-preemptive FP with last segment 1
pub proof fn lemma_c19_floating_is_lp_last1(c: int, na: spec_fn(int) -> int, hp: spec_fn(int) -> int, b: int, limit: int)
    ensures fl_spec(cn_fn(c, na), hp, b, limit) == lp_spec(c, 1, na, hp, b, limit)
{ /*@lprobe*/}
/// the RBF object built inside the NP/LP analyses denotes cn_fn (so the coincidences apply to the values the code returns)
pub proof fn lemma_c19_rbf_is_cn<AB: ArrivalBound>(x: RBF<AB, Scalar>)
    ensures rbf_fn(&x) =~= cn_fn(x.wcet.wcet.v(), na_fn(&x.arrival_bound))
{ /*@lprobe*/
    assert forall |d: int| #[trigger] rbf_fn(&x)(d) == cn_fn(x.wcet.wcet.v(), na_fn(&x.arrival_bound))(d) by {}
}

} // verus!
