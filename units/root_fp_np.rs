//@include vx/prelude.rs
//@include units/time.rs
//@include units/speclib_arith.rs
//@include units/vf_helpers.rs
//@include units/vf_stream.rs
//@include units/supply_trait.rs
//@include units/fixed_point.rs
//@include units/supply_impls.rs
//@include units/arrival_basic.rs
//@include units/wcet.rs
//@include units/demand.rs
//@include units/speclib_fp.rs
//@include units/arrival_steps.rs
//@include units/demand_steps.rs
//@include units/modules_steps.rs
//@include units/fp_np.rs
fn main() {}
