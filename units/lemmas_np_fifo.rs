// C19: "with equal relative deadlines the largest non-preemptive-EDF bound over all tasks equals the FIFO bound".
// Over the evaluators the real functions are proved to compute: edfx_spec instantiated as in edf_np.rs (other tasks' segment =
// their WCET, remaining cost C - 1) and fifo_spec of the total request bound.  Pure proof code.
verus! {

pub ghost struct TK { pub c: int, pub na: spec_fn(int) -> int }
pub open spec fn tk_f(t: TK) -> spec_fn(int) -> int { cn_fn(t.c, t.na) }
/// a task: WCET >= 1, an arrival bound (0 at 0, non-decreasing) that admits a job
pub open spec fn tk_wf(t: TK) -> bool {
    &&& t.c >= 1 && (t.na)(0) == 0 && (t.na)(1) >= 1
    &&& forall |a: int, b: int| #![trigger (t.na)(a), (t.na)(b)] 0 <= a <= b ==> 0 <= (t.na)(a) <= (t.na)(b)
}
pub open spec fn all_tk_wf(ts: Seq<TK>) -> bool { forall |i: int| 0 <= i < ts.len() ==> tk_wf(#[trigger] ts[i]) }
pub open spec fn skip(i: int, k: int) -> int { if k < i { k } else { k + 1 } }
/// the interfering tasks of task i: everybody else, same deadline, non-preemptive segment = whole WCET
pub open spec fn others(ts: Seq<TK>, i: int, dl: int) -> Seq<OTX> {
    Seq::new((ts.len() - 1) as nat, |k: int| OTX { f: tk_f(ts[skip(i, k)]), dl: dl, seg: ts[skip(i, k)].c })
}
pub open spec fn f_at(ts: Seq<TK>, x: int) -> spec_fn(int) -> int { |i: int| tk_f(ts[i])(x) }
pub open spec fn tot(ts: Seq<TK>) -> spec_fn(int) -> int { |x: int| sum_idx(ts.len() as int, f_at(ts, x)) }
/// what edf::fully_nonpreemptive::dedicated_uniproc_rta returns for task i (C06 postcondition, edf_np.rs)
pub open spec fn np_bound(ts: Seq<TK>, i: int, dl: int, limit: int) -> Option<int> {
    edfx_spec(tk_f(ts[i]), dl, others(ts, i, dl), ts[i].c - 1, limit)
}

pub proof fn lemma_tk_f(t: TK)
    requires tk_wf(t)
    ensures rbf_like(tk_f(t)), tk_f(t)(1) >= t.c,
            forall |a: int| a >= 0 && #[trigger] tk_f(t)(a) < tk_f(t)(a + 1) ==> tk_f(t)(a + 1) >= tk_f(t)(a) + t.c
{
    let f = tk_f(t);
    assert(t.c * 0 == 0) by { lemma_mul_basics(t.c); }
    assert forall |a: int, b: int| 0 <= a <= b implies 0 <= #[trigger] f(a) <= #[trigger] f(b) by {
        assert(0 <= (t.na)(a) <= (t.na)(b));
        lemma_mul_nonnegative(t.c, (t.na)(a));
        lemma_mul_inequality((t.na)(a), (t.na)(b), t.c); lemma_mul_is_commutative(t.c, (t.na)(a)); lemma_mul_is_commutative(t.c, (t.na)(b));
    }
    assert(f(1) >= t.c) by { lemma_mul_inequality(1, (t.na)(1), t.c); lemma_mul_is_commutative(t.c, (t.na)(1)); lemma_mul_basics(t.c); }
    assert forall |a: int| a >= 0 && #[trigger] f(a) < f(a + 1) implies f(a + 1) >= f(a) + t.c by {
        let n0 = (t.na)(a); let n1 = (t.na)(a + 1);
        assert(0 <= n0 <= n1);
        if n1 <= n0 { assert(n1 == n0); }
        assert(n1 >= n0 + 1);
        lemma_mul_inequality(n0 + 1, n1, t.c); lemma_mul_is_commutative(t.c, n0 + 1); lemma_mul_is_commutative(t.c, n1);
        lemma_mul_is_distributive_add(t.c, n0, 1); lemma_mul_basics(t.c);
    }
}
pub open spec fn skipped(g: spec_fn(int) -> int, i: int) -> spec_fn(int) -> int { |k: int| g(skip(i, k)) }
pub proof fn lemma_sum_skip(n: int, i: int, g: spec_fn(int) -> int)
    requires 0 <= i < n
    ensures sum_idx(n - 1, skipped(g, i)) == sum_idx(n, g) - g(i)
    decreases n
{
    let h = skipped(g, i);
    if i == n - 1 {
        assert forall |k: int| 0 <= k < n - 1 implies #[trigger] h(k) == g(k) by {}
        lemma_sum_idx_ext(n - 1, h, g);
    } else {
        lemma_sum_skip(n - 1, i, g);
        assert(h(n - 2) == g(n - 1));
    }
}
pub proof fn lemma_tot_like(ts: Seq<TK>)
    requires all_tk_wf(ts)
    ensures rbf_like(tot(ts)), forall |i: int, x: int| 0 <= i < ts.len() && x >= 0 ==> 0 <= #[trigger] tk_f(ts[i])(x) <= tot(ts)(x)
{
    let n = ts.len() as int; let t = tot(ts);
    assert forall |i: int| 0 <= i < n implies rbf_like(#[trigger] tk_f(ts[i])) by { lemma_tk_f(ts[i]); }
    assert(t(0) == 0) by {
        assert forall |i: int| 0 <= i < n implies #[trigger] f_at(ts, 0)(i) == (|i: int| 0int)(i) by { assert(rbf_like(tk_f(ts[i]))); }
        lemma_sum_idx_ext(n, f_at(ts, 0), |i: int| 0int); lemma_sum_idx_zero(n);
    }
    assert forall |a: int, b: int| 0 <= a <= b implies 0 <= #[trigger] t(a) <= #[trigger] t(b) by {
        assert forall |i: int| 0 <= i < n implies 0 <= #[trigger] f_at(ts, a)(i) <= f_at(ts, b)(i) by { assert(rbf_like(tk_f(ts[i]))); assert(tk_f(ts[i])(a) <= tk_f(ts[i])(b)); }
        lemma_sum_idx_mono(n, f_at(ts, a), f_at(ts, b));
    }
    assert forall |i: int, x: int| 0 <= i < n && x >= 0 implies 0 <= #[trigger] tk_f(ts[i])(x) <= t(x) by {
        assert(rbf_like(tk_f(ts[i]))); assert(tk_f(ts[i])(0) <= tk_f(ts[i])(x));
        lemma_sum_skip(n, i, f_at(ts, x));
        assert forall |k: int| 0 <= k < n - 1 implies #[trigger] skipped(f_at(ts, x), i)(k) >= 0 by { let j = skip(i, k); assert(rbf_like(tk_f(ts[j]))); assert(tk_f(ts[j])(0) <= tk_f(ts[j])(x)); }
        lemma_sum_idx_mono(n - 1, |k: int| 0int, skipped(f_at(ts, x), i)); lemma_sum_idx_zero(n - 1);
    }
}
/// demand of everybody but task i, at x
pub open spec fn rest(ts: Seq<TK>, i: int) -> spec_fn(int) -> int { |x: int| tot(ts)(x) - tk_f(ts[i])(x) }
pub proof fn lemma_rest(ts: Seq<TK>, i: int, dl: int, arg: spec_fn(int) -> int)
    requires all_tk_wf(ts), 0 <= i < ts.len()
    ensures sum_f(to_ots(others(ts, i, dl)), arg) == rest(ts, i)(arg(dl)), otx_wf(others(ts, i, dl))
{
    let n = ts.len() as int; let ots = to_ots(others(ts, i, dl)); let x = arg(dl);
    assert forall |k: int| 0 <= k < n - 1 implies #[trigger] ot_term(ots, arg)(k) == skipped(f_at(ts, x), i)(k) by {}
    lemma_sum_idx_ext(n - 1, ot_term(ots, arg), skipped(f_at(ts, x), i));
    lemma_sum_skip(n, i, f_at(ts, x));
    assert forall |k: int| 0 <= k < others(ts, i, dl).len() implies rbf_like(#[trigger] others(ts, i, dl)[k].f) by { lemma_tk_f(ts[skip(i, k)]); }
}
pub proof fn lemma_rest_mono(ts: Seq<TK>, i: int, a: int, b: int)
    requires all_tk_wf(ts), 0 <= i < ts.len(), 0 <= a <= b
    ensures 0 <= rest(ts, i)(a) <= rest(ts, i)(b)
{
    let n = ts.len() as int;
    lemma_sum_skip(n, i, f_at(ts, a)); lemma_sum_skip(n, i, f_at(ts, b));
    assert forall |k: int| 0 <= k < n - 1 implies 0 <= #[trigger] skipped(f_at(ts, a), i)(k) <= skipped(f_at(ts, b), i)(k) by {
        let j = skip(i, k); lemma_tk_f(ts[j]); assert(tk_f(ts[j])(0) <= tk_f(ts[j])(a)); assert(tk_f(ts[j])(a) <= tk_f(ts[j])(b));
    }
    lemma_sum_idx_mono(n - 1, skipped(f_at(ts, a), i), skipped(f_at(ts, b), i));
}
pub proof fn lemma_max_sel_none(n: int, sel: spec_fn(int) -> bool, val: spec_fn(int) -> int)
    requires forall |i: int| 0 <= i < n ==> !#[trigger] sel(i)
    ensures max_sel(n, sel, val) == 0
    decreases n
{ if n > 0 { lemma_max_sel_none(n - 1, sel, val); assert(!sel(n - 1)); } }

/// the busy-window inequality of task i is the FIFO one; the offset inequality has no blocking (equal deadlines) and
/// counts everybody else up to min(x, A + 1)
pub proof fn lemma_np_workloads(ts: Seq<TK>, i: int, dl: int, a: int)
    requires all_tk_wf(ts), 0 <= i < ts.len(), a >= 0
    ensures forall |x: int| #[trigger] edf_w_bw(tk_f(ts[i]), to_ots(others(ts, i, dl)))(x) == tot(ts)(x),
            forall |x: int| x >= 0 ==> #[trigger] edfx_w_off(tk_f(ts[i]), dl, others(ts, i, dl), ts[i].c - 1, a)(x)
                            == tk_f(ts[i])(a + 1) - ts[i].c + 1 + rest(ts, i)(imin(x, a + 1))
{
    let otx = others(ts, i, dl);
    assert forall |x: int| #[trigger] edf_w_bw(tk_f(ts[i]), to_ots(otx))(x) == tot(ts)(x) by { lemma_rest(ts, i, dl, arg_bw(x)); }
    assert forall |k: int| 0 <= k < otx.len() implies !#[trigger] blk_sel(otx, dl, a)(k) by {}
    lemma_max_sel_none(otx.len() as int, blk_sel(otx, dl, a), blk_val(otx));
    assert forall |x: int| x >= 0 implies #[trigger] edfx_w_off(tk_f(ts[i]), dl, otx, ts[i].c - 1, a)(x) == tk_f(ts[i])(a + 1) - ts[i].c + 1 + rest(ts, i)(imin(x, a + 1)) by {
        lemma_rest(ts, i, dl, arg_off(a, dl, x));
        assert(arg_off(a, dl, x)(dl) == imin(x, a + 1));
    }
}
/// per offset A < L: the NP-EDF bound of task i is the FIFO value tot(A+1) - A, or the harmless C_i - 1; it IS the FIFO
/// value when task i's own request bound steps at A
pub proof fn lemma_np_offset(ts: Seq<TK>, i: int, dl: int, limit: int, l: int, a: int)
    requires all_tk_wf(ts), 0 <= i < ts.len(), 0 <= a < l <= limit, dscan(tot(ts), limit) == Some(l)
    ensures ({ let r = edfx_f(tk_f(ts[i]), dl, others(ts, i, dl), ts[i].c - 1, limit, a);
               &&& r.is_some()
               &&& (r.unwrap() == fifo_at(tot(ts), a) || r.unwrap() == ts[i].c - 1)
               &&& (tk_f(ts[i])(a) < tk_f(ts[i])(a + 1) ==> r.unwrap() == fifo_at(tot(ts), a)) })
{
    let f = tk_f(ts[i]); let c = ts[i].c; let t = tot(ts); let otx = others(ts, i, dl);
    let w = edfx_w_off(f, dl, otx, c - 1, a);
    lemma_tk_f(ts[i]); lemma_tot_like(ts); lemma_np_workloads(ts, i, dl, a);
    lemma_scan(ded(), 0, t, 0, limit);
    assert(l >= 1);
    assert(t(l) <= l);
    assert(f(1) <= f(a + 1)); assert(f(a + 1) <= t(a + 1)); assert(t(a + 1) <= t(l));
    let big = t(a + 1) - c + 1;
    assert(1 <= big <= limit);
    // `big` is a solution of the offset inequality
    assert(w(m1(big)) <= big) by {
        assert(w(big) == f(a + 1) - c + 1 + rest(ts, i)(imin(big, a + 1)));
        lemma_rest_mono(ts, i, imin(big, a + 1), a + 1);
    }
    lemma_scan(ded(), 0, w, 0, limit);
    lemma_scan_none_iff(ded(), 0, w, limit);
    assert(ded()(0 + big) >= w(m1(big)));
    let af = scan(ded(), 0, w, 0, limit).unwrap();
    assert(af <= big) by { if af > big { assert(ded()(0 + big) < w(m1(big))); } }
    if af >= a + 1 {
        assert(w(m1(af)) == f(a + 1) - c + 1 + rest(ts, i)(imin(af, a + 1)));
        assert(af >= big);
        assert(sat(af - a) + (c - 1) == fifo_at(t, a));
    } else {
        assert(sat(af - a) + (c - 1) == c - 1);
        if f(a) < f(a + 1) {
            // then no x <= A solves the offset inequality: contradiction
            let m = m1(af);
            assert(w(m) == f(a + 1) - c + 1 + rest(ts, i)(imin(m, a + 1)));
            if a == 0 {
                assert(m == 1 && imin(m, a + 1) == 1);
                assert(w(m) == t(1) - c + 1);
                assert(f(1) <= t(1));
            } else {
                assert(m <= a); assert(imin(m, a + 1) == m);
                assert(f(m) <= f(a));
                assert(f(a + 1) >= f(a) + c);
                assert(w(m) >= t(m) + 1);
                assert(ded()(0 + af) < t(m1(af)));
            }
            assert(false);
        }
    }
}
pub proof fn lemma_np_exh(ts: Seq<TK>, i: int, dl: int, limit: int, l: int, a: int)
    requires all_tk_wf(ts), 0 <= i < ts.len(), 0 <= a <= l <= limit, dscan(tot(ts), limit) == Some(l)
    ensures ({ let v = edfx_exh(tk_f(ts[i]), dl, others(ts, i, dl), ts[i].c - 1, limit, a);
               &&& v.is_some() && 0 <= v.unwrap() <= fifo_exh(tot(ts), a)
               &&& forall |q: int| 0 <= q < a && tk_f(ts[i])(q) < tk_f(ts[i])(q + 1) ==> v.unwrap() >= #[trigger] fifo_at(tot(ts), q) })
    decreases a
{
    if a > 0 {
        lemma_np_exh(ts, i, dl, limit, l, a - 1);
        lemma_np_offset(ts, i, dl, limit, l, a - 1);
        lemma_tk_f(ts[i]); lemma_tot_like(ts);
        // C_i - 1 < C_i <= tot(1) = the FIFO value at offset 0
        lemma_fifo_exh_ge(tot(ts), a, 0);
        assert(fifo_at(tot(ts), 0) == tot(ts)(1));
        assert(tk_f(ts[i])(1) <= tot(ts)(1));
    }
}
/// some task attains every value of the pruned FIFO fold (the step of the total is a step of one of the tasks)
pub proof fn lemma_np_witness(ts: Seq<TK>, dl: int, limit: int, l: int, a: int) -> (i: int)
    requires all_tk_wf(ts), ts.len() >= 1, 0 <= a <= l <= limit, dscan(tot(ts), limit) == Some(l)
    ensures 0 <= i < ts.len(), edfx_exh(tk_f(ts[i]), dl, others(ts, i, dl), ts[i].c - 1, limit, l).unwrap() >= fold_steps_max(tot(ts), |x: int| fifo_at(tot(ts), x), a)
    decreases a
{
    let t = tot(ts); let n = ts.len() as int;
    if a == 0 { lemma_np_exh(ts, 0, dl, limit, l, l); 0 }
    else {
        let i0 = lemma_np_witness(ts, dl, limit, l, a - 1);
        if is_step(t, a - 1) {
            // a step of the sum is a step of a summand
            if forall |j: int| 0 <= j < n ==> tk_f(ts[j])(a - 1) >= tk_f(ts[j])(a) {
                assert forall |j: int| 0 <= j < n implies 0 <= #[trigger] f_at(ts, a)(j) <= f_at(ts, a - 1)(j) by { lemma_tk_f(ts[j]); assert(tk_f(ts[j])(0) <= tk_f(ts[j])(a)); assert(tk_f(ts[j])(a - 1) >= tk_f(ts[j])(a)); }
                lemma_sum_idx_mono(n, f_at(ts, a), f_at(ts, a - 1));
                assert(false);
            }
            let j = choose |j: int| 0 <= j < n && !(tk_f(ts[j])(a - 1) >= tk_f(ts[j])(a));
            lemma_np_exh(ts, j, dl, limit, l, l);
            assert(tk_f(ts[j])(a - 1) < tk_f(ts[j])((a - 1) + 1));
            lemma_np_exh(ts, i0, dl, limit, l, l);
            let vj = edfx_exh(tk_f(ts[j]), dl, others(ts, j, dl), ts[j].c - 1, limit, l).unwrap();
            let v0 = edfx_exh(tk_f(ts[i0]), dl, others(ts, i0, dl), ts[i0].c - 1, limit, l).unwrap();
            assert(vj >= fifo_at(t, a - 1));
            if vj >= v0 { j } else { i0 }
        } else { i0 }
    }
}
/// the busy window of every task's NP-EDF analysis is the FIFO busy window
pub proof fn lemma_np_same_l(ts: Seq<TK>, i: int, dl: int, limit: int)
    requires all_tk_wf(ts), 0 <= i < ts.len()
    ensures np_bound(ts, i, dl, limit) == (match dscan(tot(ts), limit) { None => None, Some(l) => edfx_exh(tk_f(ts[i]), dl, others(ts, i, dl), ts[i].c - 1, limit, l) })
{
    lemma_np_workloads(ts, i, dl, 0);
    assert(edf_w_bw(tk_f(ts[i]), to_ots(others(ts, i, dl))) =~= tot(ts));
}
pub proof fn lemma_np_all_le(ts: Seq<TK>, dl: int, limit: int, l: int)
    requires all_tk_wf(ts), dscan(tot(ts), limit) == Some(l)
    ensures forall |i: int| 0 <= i < ts.len() ==> (#[trigger] np_bound(ts, i, dl, limit)).is_some() && np_bound(ts, i, dl, limit).unwrap() <= fifo_exh(tot(ts), l)
{
    lemma_scan(ded(), 0, tot(ts), 0, limit);
    assert forall |i: int| 0 <= i < ts.len() implies (#[trigger] np_bound(ts, i, dl, limit)).is_some() && np_bound(ts, i, dl, limit).unwrap() <= fifo_exh(tot(ts), l) by {
        lemma_np_same_l(ts, i, dl, limit); lemma_np_exh(ts, i, dl, limit, l, l);
    }
}
pub proof fn lemma_tot_1(ts: Seq<TK>)
    requires all_tk_wf(ts), ts.len() >= 1
    ensures rbf_like(tot(ts)), tot(ts)(1) >= 1
{ lemma_tot_like(ts); lemma_tk_f(ts[0]); assert(tk_f(ts[0])(1) <= tot(ts)(1)); }
pub proof fn lemma_np_exh_le(ts: Seq<TK>, i: int, dl: int, limit: int, l: int)
    requires all_tk_wf(ts), 0 <= i < ts.len(), 0 <= l <= limit, dscan(tot(ts), limit) == Some(l)
    ensures edfx_exh(tk_f(ts[i]), dl, others(ts, i, dl), ts[i].c - 1, limit, l).is_some(),
            edfx_exh(tk_f(ts[i]), dl, others(ts, i, dl), ts[i].c - 1, limit, l).unwrap() <= fifo_exh(tot(ts), l)
{ lemma_np_exh(ts, i, dl, limit, l, l); }
pub proof fn lemma_np_some_eq(ts: Seq<TK>, dl: int, limit: int, l: int) -> (i: int)
    requires all_tk_wf(ts), ts.len() >= 1, dscan(tot(ts), limit) == Some(l)
    ensures 0 <= i < ts.len(), np_bound(ts, i, dl, limit) == Some(fifo_exh(tot(ts), l))
{
    let t = tot(ts);
    assert(0 <= l <= limit) by { lemma_scan(ded(), 0, t, 0, limit); }
    let i = lemma_np_witness(ts, dl, limit, l, l);
    lemma_tot_1(ts);
    lemma_fifo_prune(t, l);
    lemma_np_exh_le(ts, i, dl, limit, l);
    lemma_np_same_l(ts, i, dl, limit);
    i
}
/// C19: with equal relative deadlines, every task's non-preemptive-EDF bound is at most the FIFO bound, and the largest
/// one equals it; the analyses diverge together
pub proof fn lemma_c19_np_edf_is_fifo(ts: Seq<TK>, dl: int, limit: int)
    requires all_tk_wf(ts), ts.len() >= 1
    ensures match fifo_spec(tot(ts), limit) {
        None => forall |i: int| 0 <= i < ts.len() ==> (#[trigger] np_bound(ts, i, dl, limit)).is_none(),
        Some(r) => (forall |i: int| 0 <= i < ts.len() ==> (#[trigger] np_bound(ts, i, dl, limit)).is_some() && np_bound(ts, i, dl, limit).unwrap() <= r)
                   && exists |i: int| 0 <= i < ts.len() && #[trigger] np_bound(ts, i, dl, limit) == Some(r),
    }
{ /*@lprobe*/
    let t = tot(ts);
    assert(w_fifo(t) =~= t);
    match dscan(t, limit) {
        None => { assert forall |i: int| 0 <= i < ts.len() implies (#[trigger] np_bound(ts, i, dl, limit)).is_none() by { lemma_np_same_l(ts, i, dl, limit); } }
        Some(l) => {
            lemma_np_all_le(ts, dl, limit, l);
            let i = lemma_np_some_eq(ts, dl, limit, l);
            assert(fifo_spec(t, limit) == Some(fifo_exh(t, l)));
        }
    }
}

} // verus!
