// arrival::{divide_with_ceil, Periodic, Sporadic, Never, Propagated}: number_arrivals / clone_with_jitter
// bodies verbatim from /repo/src/arrival/*.rs; C10 lemmas over event sequences.
use vstd::arithmetic::div_mod::*;
use vstd::arithmetic::mul::*;
verus! {

// ------------------------------------------------------------------ spec library
pub open spec fn na_sporadic(t: int, j: int, delta: int) -> int { if delta > 0 { ceil_div(delta + j, t) } else { 0 } }

/// An event sequence: non-decreasing release times.
pub open spec fn sorted(s: Seq<int>) -> bool { forall |i: int, k: int| 0 <= i <= k < s.len() ==> s[i] <= s[k] }
/// Releases `rel` are admissible for a sporadic task (T, J): there are arrival times `arr`,
/// pairwise at least T apart (in release order), and each release lies within J of its arrival.
pub open spec fn respects_sporadic(rel: Seq<int>, arr: Seq<int>, t: int, j: int) -> bool {
    &&& rel.len() == arr.len()
    &&& forall |i: int| 0 <= i < rel.len() ==> arr[i] <= #[trigger] rel[i] <= arr[i] + j
    &&& forall |i: int, k: int| #![trigger arr[i], arr[k]] 0 <= i < k < arr.len() ==> arr[k] - arr[i] >= (k - i) * t
}
/// n consecutive releases rel[i..i+n) all lie in the window [w, w + delta)
pub open spec fn run_in_window(rel: Seq<int>, i: int, n: int, w: int, delta: int) -> bool {
    0 <= i && n >= 0 && i + n <= rel.len() && forall |x: int| i <= x < i + n ==> w <= #[trigger] rel[x] < w + delta
}
/// C10 for Sporadic: no window of length delta contains more than number_arrivals(delta) releases.
/// (Stated for a run of consecutive releases; for sorted sequences every set of releases in a window is such a run.)
pub proof fn lemma_sporadic_never_undercounts(rel: Seq<int>, arr: Seq<int>, t: int, j: int, i: int, n: int, w: int, delta: int)
    requires t >= 1, j >= 0, delta >= 0, respects_sporadic(rel, arr, t, j), run_in_window(rel, i, n, w, delta)
    ensures n <= na_sporadic(t, j, delta)
{
    if n >= 1 {
        let first = i; let last = i + n - 1;
        assert(w <= rel[first] < w + delta); assert(w <= rel[last] < w + delta);
        assert(delta > 0);
        lemma_ceil_div(delta + j, t);
        let c = ceil_div(delta + j, t);
        assert(c * t >= delta + j);
        if n >= 2 {
            assert(arr[last] - arr[first] >= (last - first) * t);
            assert(arr[first] <= rel[first] && rel[last] <= arr[last] + j);
            // (n-1)*t <= arr[last]-arr[first] <= rel[last] - rel[first] + j < delta + j
            assert(last - first == n - 1);
            assert((n - 1) * t < delta + j);
            if n > c {
                assert(c * t <= (n - 1) * t) by { lemma_mul_inequality(c, n - 1, t); }
            }
        } else {
            // n == 1: delta > 0 so ceil((delta + j)/t) >= 1
            if c < 1 { assert(c * t <= 0) by { lemma_mul_inequality(c, 0, t); lemma_mul_basics(t); } }
        }
    }
}

// ------------------------------------------------------------------ extracted code
pub trait ArrivalBound {
    spec fn wf(&self) -> bool;
    spec fn na(&self, delta: int) -> int;
    /// magnitude envelope
    spec fn na_ok(&self, delta: int) -> bool;
    proof fn na_props(&self)
        requires self.wf()
        ensures self.na(0) == 0,
           forall |a: int, b: int| #![trigger self.na(a), self.na(b)] 0 <= a <= b ==> 0 <= self.na(a) <= self.na(b);
//@item src/arrival/mod.rs :: trait ArrivalBound / fn number_arrivals
    fn number_arrivals(&self, delta: Duration) -> /*+*/(r:/*-*/ usize/*+*/)
        requires self.wf(), self.na_ok(delta.v())
        ensures r == self.na(delta.v())/*-*/;
//@end
}

// what #[auto_impl(&)] generates for references (R12)
impl<T: ArrivalBound + ?Sized> ArrivalBound for &T {
    open spec fn wf(&self) -> bool { (**self).wf() }
    open spec fn na(&self, delta: int) -> int { (**self).na(delta) }
    open spec fn na_ok(&self, delta: int) -> bool { (**self).na_ok(delta) }
    proof fn na_props(&self) { (**self).na_props(); }
    fn number_arrivals(&self, delta: Duration) -> (r: usize) { (**self).number_arrivals(delta) }
}

// common helper function
//@item src/arrival/mod.rs :: fn divide_with_ceil
fn divide_with_ceil(a: Duration, b: Duration) -> /*+*/(r:/*-*/ u64/*+*/)
    requires b.val >= 1
    ensures r == ceil_div(a.v(), b.v())/*-*/
{
    /*+*/proof {
        let (x, y) = (a.v(), b.v());
        lemma_ceil_div(x, y); lemma_fundamental_div_mod(x, y); lemma_mod_bound(x, y); lemma_div_pos_is_pos(x, y);
        if x % y > 0 {
            // then y >= 2, hence x / y <= x / 2: the `+ 1` cannot overflow
            assert(y >= 2) by { if y == 1 { lemma_mod_bound(x, 1); } }
            assert(2 * (x / y) <= y * (x / y)) by { lemma_mul_inequality(2, y, x / y); }
        }
    }/*-*/
    a / b + (a % b > Duration::from(0)) as u64
}
//@end

//@item src/arrival/periodic.rs :: struct Periodic
pub struct Periodic {
    pub period: Duration,
}
//@end
// derive(Copy, Clone) (R12)
impl Clone for Periodic { fn clone(&self) -> (r: Periodic) ensures r == *self { Periodic { period: self.period } } }
impl Copy for Periodic {}
impl Periodic {
//@item src/arrival/periodic.rs :: impl Periodic / fn new
    pub fn new(period: Duration) -> /*+*/(r: /*-*/Periodic/*+*/) ensures r.period == period/*-*/ {
        Periodic { period }
    }
//@end
}
impl ArrivalBound for Periodic {
    open spec fn wf(&self) -> bool { self.period.val >= 1 }
    open spec fn na(&self, delta: int) -> int { ceil_div(delta, self.period.v()) }
    open spec fn na_ok(&self, delta: int) -> bool { true }
    proof fn na_props(&self) {
        lemma_ceil_div(0, self.period.v());
        assert forall |a: int, b: int| 0 <= a <= b implies 0 <= #[trigger] self.na(a) <= #[trigger] self.na(b) by { lemma_ceil_div(a, self.period.v()); lemma_ceil_div_mono(a, b, self.period.v()); }
    }
//@item src/arrival/periodic.rs :: impl ArrivalBound for Periodic / fn number_arrivals
    fn number_arrivals(&self, delta: Duration) -> usize {
        divide_with_ceil(delta, self.period) as usize
    }
//@end
}

//@item src/arrival/sporadic.rs :: struct Sporadic
pub struct Sporadic {
    pub min_inter_arrival: Duration,
    pub jitter: Duration,
}
//@end
// derive(Copy, Clone) (R12)
impl Clone for Sporadic { fn clone(&self) -> (r: Sporadic) ensures r == *self { Sporadic { min_inter_arrival: self.min_inter_arrival, jitter: self.jitter } } }
impl Copy for Sporadic {}
impl FromSpecImpl<Periodic> for Sporadic {
    open spec fn obeys_from_spec() -> bool { true }
    open spec fn from_spec(p: Periodic) -> Sporadic { Sporadic { min_inter_arrival: p.period, jitter: Duration { val: 0 } } }
}
impl From<Periodic> for Sporadic {
//@item src/arrival/sporadic.rs :: impl From<Periodic> for Sporadic / fn from
    fn from(p: Periodic) -> Self {
        Sporadic::new_zero_jitter(p.period)
    }
//@end
}
impl Sporadic {
//@item src/arrival/sporadic.rs :: impl Sporadic / fn new
    pub fn new(min_inter_arrival: Duration, jitter: Duration) -> /*+*/(r: /*-*/Sporadic/*+*/)
        ensures r.min_inter_arrival == min_inter_arrival, r.jitter == jitter/*-*/ {
        Sporadic {
            min_inter_arrival,
            jitter,
        }
    }
//@end
//@item src/arrival/sporadic.rs :: impl Sporadic / fn new_zero_jitter
    pub fn new_zero_jitter(min_inter_arrival: Duration) -> /*+*/(r:/*-*/ Sporadic/*+*/)
        ensures r.min_inter_arrival == min_inter_arrival, r.jitter.val == 0/*-*/
    {
        Sporadic {
            min_inter_arrival,
            jitter: Duration::zero(),
        }
    }
//@end
}
impl ArrivalBound for Sporadic {
    open spec fn wf(&self) -> bool { self.min_inter_arrival.val >= 1 }
    open spec fn na(&self, delta: int) -> int { na_sporadic(self.min_inter_arrival.v(), self.jitter.v(), delta) }
    open spec fn na_ok(&self, delta: int) -> bool { delta + self.jitter.v() <= u64::MAX }
    proof fn na_props(&self) {
        let (t, j) = (self.min_inter_arrival.v(), self.jitter.v());
        assert forall |a: int, b: int| 0 <= a <= b implies 0 <= #[trigger] self.na(a) <= #[trigger] self.na(b) by {
            lemma_ceil_div(b + j, t);
            if a > 0 { lemma_ceil_div(a + j, t); lemma_ceil_div_mono(a + j, b + j, t); }
        }
    }
//@item src/arrival/sporadic.rs :: impl ArrivalBound for Sporadic / fn number_arrivals
    fn number_arrivals(&self, delta: Duration) -> usize {
        if delta.is_non_zero() {
            divide_with_ceil(delta + self.jitter, self.min_inter_arrival) as usize
        } else {
            0
        }
    }
//@end
}
impl Sporadic {
    // trait method in the crate; emitted as an inherent fn with the concrete return type (rule R11)
//@item src/arrival/sporadic.rs :: impl ArrivalBound for Sporadic / fn clone_with_jitter
    fn clone_with_jitter(&self, added_jitter: Duration) -> /*+*/(ab: /*-*//*@R11: Box<dyn ArrivalBound> @*/Box<Sporadic>/*@.*//*+*/)
        requires self.wf(), self.jitter.v() + added_jitter.v() <= u64::MAX
        ensures ab.wf(), ab.min_inter_arrival == self.min_inter_arrival, ab.jitter.v() == self.jitter.v() + added_jitter.v(),
                forall |d: int| d > 0 ==> #[trigger] ab.na(d) == self.na(d + added_jitter.v())   // delaying each event by <= added_jitter
    /*-*/{
        let mut ab = Box::new(*self);
        ab.jitter += added_jitter;
        ab
    }
//@end
}
impl Periodic {
//@item src/arrival/periodic.rs :: impl ArrivalBound for Periodic / fn clone_with_jitter
    fn clone_with_jitter(&self, jitter: Duration) -> /*+*/(ab: /*-*//*@R11: Box<dyn ArrivalBound> @*/Box<Sporadic>/*@.*//*+*/)
        requires self.wf()
        ensures ab.wf(), ab.min_inter_arrival == self.period, ab.jitter == jitter
    /*-*/{
        let mut ab = Box::new(Sporadic::from(*self));
        ab.jitter = jitter;
        ab
    }
//@end
}

//@item src/arrival/propagated.rs :: struct Propagated
pub struct Propagated<T: ArrivalBound> {
    pub response_time_jitter: Duration,
    pub input_event_model: T,
}
//@end
impl<T: ArrivalBound> ArrivalBound for Propagated<T> {
    open spec fn wf(&self) -> bool { self.input_event_model.wf() }
    open spec fn na(&self, delta: int) -> int { if delta > 0 { self.input_event_model.na(delta + self.response_time_jitter.v()) } else { 0 } }
    open spec fn na_ok(&self, delta: int) -> bool { delta + self.response_time_jitter.v() <= u64::MAX && self.input_event_model.na_ok(delta + self.response_time_jitter.v()) }
    proof fn na_props(&self) {
        self.input_event_model.na_props();
        let j = self.response_time_jitter.v();
        assert forall |a: int, b: int| 0 <= a <= b implies 0 <= #[trigger] self.na(a) <= #[trigger] self.na(b) by {
            assert(self.input_event_model.na(0) <= self.input_event_model.na(b + j));
            if a > 0 { assert(self.input_event_model.na(a + j) <= self.input_event_model.na(b + j)); }
        }
    }
//@item src/arrival/propagated.rs :: impl<T: ArrivalBound + Clone + 'static> ArrivalBound for Propagated<T> / fn number_arrivals
    fn number_arrivals(&self, delta: Duration) -> usize {
        if delta.is_non_zero() {
            self.input_event_model
                .number_arrivals(delta + self.response_time_jitter)
        } else {
            0
        }
    }
//@end
}


//@item src/arrival/never.rs :: struct Never
pub struct Never {}
//@end
impl ArrivalBound for Never {
    open spec fn wf(&self) -> bool { true }
    open spec fn na(&self, delta: int) -> int { 0 }
    open spec fn na_ok(&self, delta: int) -> bool { true }
    proof fn na_props(&self) {}
//@item src/arrival/never.rs :: impl ArrivalBound for Never / fn number_arrivals
    fn number_arrivals(&self, _delta: Duration) -> usize {
        0
    }
//@end
}
impl Never {
//@item src/arrival/never.rs :: impl ArrivalBound for Never / fn clone_with_jitter
    fn clone_with_jitter(&self, _jitter: Duration) -> /*+*/(ab: /*-*//*@R11: Box<dyn ArrivalBound> @*/Box<Never>/*@.*//*+*/)
        ensures forall |d: int| #[trigger] ab.na(d) == 0/*-*/ {
        Box::new(Never {})
    }
//@end
}

impl<T: ArrivalBound + Clone> Propagated<T> {
//@item src/arrival/propagated.rs :: impl<T: ArrivalBound + Clone> Propagated<T> / fn with_jitter
    pub fn with_jitter(event_model: &T, response_time_jitter: Duration) -> /*+*/(r: /*-*/Self/*+*/)
        ensures r.response_time_jitter == response_time_jitter,
                call_ensures(T::clone, (event_model,), r.input_event_model)/*-*/ {
        Propagated {
            input_event_model: event_model.clone(),
            response_time_jitter,
        }
    }
//@end
//@item src/arrival/propagated.rs :: impl<T: ArrivalBound + Clone + 'static> ArrivalBound for Propagated<T> / fn clone_with_jitter
    fn clone_with_jitter(&self, added_jitter: Duration) -> /*+*/(ab: /*-*//*@R11: Box<dyn ArrivalBound> @*/Box<Propagated<T>>/*@.*//*+*/)
        requires self.response_time_jitter.v() + added_jitter.v() <= u64::MAX
        // C10: "adding jitter a and then b is the same as adding a+b" -- the jitter accumulates
        ensures ab.response_time_jitter.v() == self.response_time_jitter.v() + added_jitter.v(),
                call_ensures(T::clone, (&self.input_event_model,), ab.input_event_model)/*-*/ {
        Box::new(Propagated {
            response_time_jitter: self.response_time_jitter + added_jitter,
            input_event_model: self.input_event_model.clone(),
        })
    }
//@end
}

/// pointwise sum of arrival bounds (C10: superposition)
pub open spec fn sum_na<T: ArrivalBound>(xs: Seq<T>, d: int) -> int { sum_seq(xs, |t: T| t.na(d)) }
pub open spec fn all_wf<T: ArrivalBound>(xs: Seq<T>) -> bool { forall |i: int| 0 <= i < xs.len() ==> (#[trigger] xs[i]).wf() }
pub open spec fn all_na_ok<T: ArrivalBound>(xs: Seq<T>, d: int) -> bool { forall |i: int| 0 <= i < xs.len() ==> (#[trigger] xs[i]).na_ok(d) }
pub proof fn lemma_sum_na_props<T: ArrivalBound>(xs: Seq<T>)
    requires all_wf(xs)
    ensures sum_na(xs, 0) == 0,
        forall |a: int, b: int| #![trigger sum_na(xs, a), sum_na(xs, b)] 0 <= a <= b ==> 0 <= sum_na(xs, a) <= sum_na(xs, b)
{
    assert forall |i: int| 0 <= i < xs.len() implies (|t: T| t.na(0))(#[trigger] xs[i]) == (|t: T| 0int)(xs[i]) by { xs[i].na_props(); }
    lemma_sum_seq_eq(xs, |t: T| t.na(0), |t: T| 0int);
    lemma_sum_zero(xs);
    assert forall |a: int, b: int| 0 <= a <= b implies 0 <= #[trigger] sum_na(xs, a) <= #[trigger] sum_na(xs, b) by {
        assert forall |i: int| 0 <= i < xs.len() implies (|t: T| t.na(a))(#[trigger] xs[i]) >= 0 && (|t: T| t.na(a))(xs[i]) <= (|t: T| t.na(b))(xs[i]) by { xs[i].na_props(); }
        lemma_sum_seq_nonneg(xs, |t: T| t.na(a));
        lemma_sum_seq_le(xs, |t: T| t.na(a), |t: T| t.na(b));
    }
}
pub proof fn lemma_sum_zero<T>(xs: Seq<T>)
    ensures sum_seq(xs, |t: T| 0int) == 0
    decreases xs.len()
{
    if xs.len() > 0 { lemma_sum_zero(xs.drop_last()); }
}

impl<T: ArrivalBound> ArrivalBound for Vec<T> {
    open spec fn wf(&self) -> bool { all_wf(self@) }
    open spec fn na(&self, delta: int) -> int { sum_na(self@, delta) }
    open spec fn na_ok(&self, delta: int) -> bool { all_na_ok(self@, delta) && sum_na(self@, delta) <= usize::MAX }
    proof fn na_props(&self) { lemma_sum_na_props(self@); }
//@item src/arrival/aggregated.rs :: impl<T: ArrivalBound> ArrivalBound for Vec<T> / fn number_arrivals
    fn number_arrivals(&self, delta: Duration) -> usize {
//@+
        proof { assert forall |i: int| 0 <= i < self@.len() implies (|t: T| t.na(delta.v()))(#[trigger] self@[i]) >= 0 by { self@[i].na_props(); } }
//@-
        /*@R1: self.iter().map( @*/vf_sum_usize(self.as_slice(), /*@.*/|ab/*+*/: &T/*-*/| /*+*/-> (r: usize) requires ab.wf(), ab.na_ok(delta.v()) ensures r == ab.na(delta.v()) { /*-*/ab.number_arrivals(delta)/*+*/ }/*-*//*@R1: ).sum() @*/, Ghost(|t: T| t.na(delta.v())))/*@.*/
    }
//@end
}

impl<T: ArrivalBound> ArrivalBound for [T] {
    open spec fn wf(&self) -> bool { all_wf(self@) }
    open spec fn na(&self, delta: int) -> int { sum_na(self@, delta) }
    open spec fn na_ok(&self, delta: int) -> bool { all_na_ok(self@, delta) && sum_na(self@, delta) <= usize::MAX }
    proof fn na_props(&self) { lemma_sum_na_props(self@); }
//@item src/arrival/slice.rs :: impl<T: ArrivalBound> ArrivalBound for [T] / fn number_arrivals
    fn number_arrivals(&self, delta: Duration) -> usize {
//@+
        proof { assert forall |i: int| 0 <= i < self@.len() implies (|t: T| t.na(delta.v()))(#[trigger] self@[i]) >= 0 by { self@[i].na_props(); } }
//@-
        /*@R1: self.iter().map( @*/vf_sum_usize(self, /*@.*/|ab/*+*/: &T/*-*/| /*+*/-> (r: usize) requires ab.wf(), ab.na_ok(delta.v()) ensures r == ab.na(delta.v()) { /*-*/ab.number_arrivals(delta)/*+*/ }/*-*//*@R1: ).sum() @*/, Ghost(|t: T| t.na(delta.v())))/*@.*/
    }
//@end
}

//@item src/arrival/aggregated.rs :: struct SumOf
/*+*/pub /*-*/struct SumOf<AB1: ArrivalBound, AB2: ArrivalBound>(/*+*/pub /*-*/AB1, /*+*/pub /*-*/AB2);
//@end
//@item src/arrival/aggregated.rs :: fn sum_of
pub fn sum_of<AB1: ArrivalBound, AB2: ArrivalBound>(ab1: AB1, ab2: AB2) -> /*+*/(r: /*-*//*@R11: impl ArrivalBound @*/SumOf<AB1, AB2>/*@.*//*+*/)
    ensures r.0 == ab1, r.1 == ab2/*-*/ {
    SumOf(ab1, ab2)
}
//@end
impl<AB1: ArrivalBound, AB2: ArrivalBound> ArrivalBound for SumOf<AB1, AB2> {
    open spec fn wf(&self) -> bool { self.0.wf() && self.1.wf() }
    open spec fn na(&self, delta: int) -> int { self.0.na(delta) + self.1.na(delta) }
    open spec fn na_ok(&self, delta: int) -> bool { self.0.na_ok(delta) && self.1.na_ok(delta) && self.0.na(delta) + self.1.na(delta) <= usize::MAX }
    proof fn na_props(&self) { self.0.na_props(); self.1.na_props(); }
//@item src/arrival/aggregated.rs :: impl<AB1: ArrivalBound, AB2: ArrivalBound> ArrivalBound for SumOf<AB1, AB2> / fn number_arrivals
    fn number_arrivals(&self, delta: Duration) -> usize {
        self.0.number_arrivals(delta) + self.1.number_arrivals(delta)
    }
//@end
}

/// "Adding jitter a and then b is the same as adding a+b" (C10), for Sporadic
pub proof fn lemma_sporadic_jitter_additive(t: int, j: int, a: int, b: int, d: int)
    requires t >= 1, j >= 0, a >= 0, b >= 0, d > 0
    ensures na_sporadic(t, (j + a) + b, d) == na_sporadic(t, j + (a + b), d)
{}


} // verus!
