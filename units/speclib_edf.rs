// spec library: the exhaustive EDF evaluator (C06), from the property statement: L by linear scan; for EVERY offset A in
// [0, L) the least solution of the offset equation by linear scan; maximum; None iff a scan finds nothing <= limit.
// Other tasks are abstracted as (request-bound function, relative deadline).
verus! {

pub open spec fn sat(x: int) -> int { if x > 0 { x } else { 0 } }
pub open spec fn imin(a: int, b: int) -> int { if a <= b { a } else { b } }
pub ghost struct OT { pub f: spec_fn(int) -> int, pub dl: int }
pub open spec fn ots_wf(ots: Seq<OT>) -> bool { forall |i: int| 0 <= i < ots.len() ==> rbf_like(#[trigger] ots[i].f) }
/// sum over the other tasks of rbf_o(arg(D_o))
pub open spec fn ot_term(ots: Seq<OT>, arg: spec_fn(int) -> int) -> spec_fn(int) -> int { |i: int| (ots[i].f)(arg(ots[i].dl)) }
pub open spec fn sum_f(ots: Seq<OT>, arg: spec_fn(int) -> int) -> int { sum_idx(ots.len() as int, ot_term(ots, arg)) }
pub open spec fn arg_bw(x: int) -> spec_fn(int) -> int { |dlo: int| x }
/// argument at which another task's RBF is evaluated: min(AF, (A + 1 + D) -sat D_o)
pub open spec fn arg_off(a: int, dl: int, x: int) -> spec_fn(int) -> int { |dlo: int| imin(x, sat(a + 1 + dl - dlo)) }
pub open spec fn edf_w_bw(tua: spec_fn(int) -> int, ots: Seq<OT>) -> spec_fn(int) -> int { |x: int| sum_f(ots, arg_bw(x)) + tua(x) }
pub open spec fn edf_w_off(tua: spec_fn(int) -> int, dl: int, ots: Seq<OT>, a: int) -> spec_fn(int) -> int { |x: int| tua(a + 1) + sum_f(ots, arg_off(a, dl, x)) }
pub open spec fn edf_f(tua: spec_fn(int) -> int, dl: int, ots: Seq<OT>, limit: int, a: int) -> Option<int> {
    match dscan(edf_w_off(tua, dl, ots, a), limit) { Some(af) => Some(sat(af - a)), None => None }
}
pub open spec fn edf_exh(tua: spec_fn(int) -> int, dl: int, ots: Seq<OT>, limit: int, a: int) -> Option<int>
    decreases a
{
    if a <= 0 { Some(0) } else { comb(edf_exh(tua, dl, ots, limit, a - 1), edf_f(tua, dl, ots, limit, a - 1)) }
}
/// fully preemptive EDF
pub open spec fn edf_spec(tua: spec_fn(int) -> int, dl: int, ots: Seq<OT>, limit: int) -> Option<int> {
    match dscan(edf_w_bw(tua, ots), limit) { None => None, Some(l) => edf_exh(tua, dl, ots, limit, l) }
}

// ---- the pruned search space of the implementation: steps of the tua's RBF and steps of the others shifted by D_o - D (saturating)
pub open spec fn is_step_at(f: spec_fn(int) -> int, x: int) -> bool { x >= 1 && f(x - 1) < f(x) }
pub open spec fn in_space(tua: spec_fn(int) -> int, dl: int, ots: Seq<OT>, a: int) -> bool {
    ||| is_step_at(tua, a + 1)
    ||| exists |i: int, delta: int| 0 <= i < ots.len() && #[trigger] is_step_at(ots[i].f, delta) && a == sat(delta - 1 + ots[i].dl - dl)
}
pub open spec fn fold_space(tua: spec_fn(int) -> int, dl: int, ots: Seq<OT>, g: spec_fn(int) -> Option<int>, a: int) -> Option<int>
    decreases a
{
    if a <= 0 { Some(0) } else if in_space(tua, dl, ots, a - 1) { comb(fold_space(tua, dl, ots, g, a - 1), g(a - 1)) } else { fold_space(tua, dl, ots, g, a - 1) }
}
pub proof fn lemma_sum_f_mono(ots: Seq<OT>, a1: spec_fn(int) -> int, a2: spec_fn(int) -> int)
    requires ots_wf(ots), forall |t: int| 0 <= #[trigger] a1(t) <= a2(t)
    ensures 0 <= sum_f(ots, a1) <= sum_f(ots, a2)
{
    let g1 = ot_term(ots, a1); let g2 = ot_term(ots, a2);
    assert forall |i: int| 0 <= i < ots.len() implies 0 <= #[trigger] g1(i) <= g2(i) by { assert(rbf_like(ots[i].f)); assert(0 <= a1(ots[i].dl) <= a2(ots[i].dl)); }
    lemma_sum_idx_mono(ots.len() as int, g1, g2);
}
pub proof fn lemma_sum_f_ext(ots: Seq<OT>, a1: spec_fn(int) -> int, a2: spec_fn(int) -> int)
    requires forall |i: int| 0 <= i < ots.len() ==> (#[trigger] ots[i].f)(a1(ots[i].dl)) == (ots[i].f)(a2(ots[i].dl))
    ensures sum_f(ots, a1) == sum_f(ots, a2)
{
    let g1 = ot_term(ots, a1); let g2 = ot_term(ots, a2);
    assert forall |i: int| 0 <= i < ots.len() implies #[trigger] g1(i) == g2(i) by { assert((ots[i].f)(a1(ots[i].dl)) == (ots[i].f)(a2(ots[i].dl))); }
    lemma_sum_idx_ext(ots.len() as int, g1, g2);
}
pub proof fn lemma_edf_exh_bound(tua: spec_fn(int) -> int, dl: int, ots: Seq<OT>, limit: int, a: int, q: int)
    requires 0 <= q < a, edf_exh(tua, dl, ots, limit, a).is_some()
    ensures edf_f(tua, dl, ots, limit, q).is_some(), edf_f(tua, dl, ots, limit, q).unwrap() <= edf_exh(tua, dl, ots, limit, a).unwrap()
    decreases a
{ if q < a - 1 { lemma_edf_exh_bound(tua, dl, ots, limit, a - 1, q); } }
/// outside the search space the offset equation coincides with the previous offset's
pub proof fn lemma_edf_same_equation(tua: spec_fn(int) -> int, dl: int, ots: Seq<OT>, a: int)
    requires rbf_like(tua), ots_wf(ots), a >= 1, !in_space(tua, dl, ots, a)
    ensures edf_w_off(tua, dl, ots, a) =~= edf_w_off(tua, dl, ots, a - 1)
{
    assert(tua(a) <= tua(a + 1));
    assert(tua(a) == tua(a + 1));
    assert forall |x: int| #[trigger] edf_w_off(tua, dl, ots, a)(x) == edf_w_off(tua, dl, ots, a - 1)(x) by {
        assert forall |i: int| 0 <= i < ots.len() implies (#[trigger] ots[i].f)(arg_off(a, dl, x)(ots[i].dl)) == (ots[i].f)(arg_off(a - 1, dl, x)(ots[i].dl)) by {
            let z = a + 1 + dl - ots[i].dl;
            if z >= 1 && x >= z {
                // the two arguments are z and z-1; z is not a step of this task's rbf, else a would be in the search space
                assert(!is_step_at(ots[i].f, z)) by { if is_step_at(ots[i].f, z) { assert(a == sat(z - 1 + ots[i].dl - dl)); } }
                assert(rbf_like(ots[i].f));
                assert((ots[i].f)(z - 1) <= (ots[i].f)(z));
            }
        }
        lemma_sum_f_ext(ots, arg_off(a, dl, x), arg_off(a - 1, dl, x));
    }
}
/// C06 (EDF): pruning the search space to the merged, shifted step offsets never alters the result
pub proof fn lemma_edf_prune(tua: spec_fn(int) -> int, dl: int, ots: Seq<OT>, limit: int, a: int)
    requires rbf_like(tua), ots_wf(ots), tua(1) >= 1, a >= 0
    ensures fold_space(tua, dl, ots, |x: int| edf_f(tua, dl, ots, limit, x), a) == edf_exh(tua, dl, ots, limit, a)
    decreases a
{
    if a > 0 {
        lemma_edf_prune(tua, dl, ots, limit, a - 1);
        if !in_space(tua, dl, ots, a - 1) {
            assert(a - 1 >= 1) by { if a - 1 == 0 { assert(is_step_at(tua, 1)); } }
            lemma_edf_same_equation(tua, dl, ots, a - 1);
            if edf_exh(tua, dl, ots, limit, a - 1).is_some() { lemma_edf_exh_bound(tua, dl, ots, limit, a - 1, a - 2); }
        }
    }
}
pub proof fn lemma_edf_w_mono(tua: spec_fn(int) -> int, dl: int, ots: Seq<OT>, a: int)
    requires rbf_like(tua), ots_wf(ots), a >= 0
    ensures mono(edf_w_bw(tua, ots)), mono(edf_w_off(tua, dl, ots, a)),
{
    assert forall |x: int, y: int| 1 <= x <= y implies 0 <= #[trigger] edf_w_bw(tua, ots)(x) <= #[trigger] edf_w_bw(tua, ots)(y) by { lemma_sum_f_mono(ots, arg_bw(x), arg_bw(y)); assert(0 <= tua(x) <= tua(y)); }
    assert forall |x: int, y: int| 1 <= x <= y implies 0 <= #[trigger] edf_w_off(tua, dl, ots, a)(x) <= #[trigger] edf_w_off(tua, dl, ots, a)(y) by { lemma_sum_f_mono(ots, arg_off(a, dl, x), arg_off(a, dl, y)); assert(0 <= tua(a + 1)); }
}
pub proof fn lemma_off_le_bw(dl: int, ots: Seq<OT>, a: int, x: int, lim: int)
    requires ots_wf(ots), a >= 0, 0 <= x <= lim
    ensures 0 <= sum_f(ots, arg_off(a, dl, x)) <= sum_f(ots, arg_bw(x)) <= sum_f(ots, arg_bw(lim))
{
    lemma_sum_f_mono(ots, arg_off(a, dl, x), arg_bw(x));
    lemma_sum_f_mono(ots, arg_bw(x), arg_bw(lim));
}

} // verus!
