// unit part: src/edf/floating_nonpreemptive.rs (C06)
verus! {

//@item src/edf/floating_nonpreemptive.rs :: struct TaskUnderAnalysis
pub struct TaskUnderAnalysis<'a, RBF: RequestBound + ?Sized> {
    /// The RBF upper-bounding the task's demand.
    pub rbf: &'a RBF,

    /// The task's relative deadline.
    pub deadline: Duration,
}
//@end
//@item src/edf/floating_nonpreemptive.rs :: struct InterferingTask
pub struct InterferingTask<'a, RBF: RequestBound + ?Sized> {
    /// The RBF upper-bounding the task's demand.
    pub rbf: &'a RBF,

    /// The task's relative deadline.
    pub deadline: Duration,

    /// The maximum length of the task's segments.
    pub max_np_segment: Service,
}
//@end

/// std::cmp::min on Duration (R12: Ord::min of the derived Ord)
pub fn vf_min(a: Duration, b: Duration) -> (r: Duration) ensures r.v() == imin(a.v(), b.v()) { if a.val <= b.val { a } else { b } }

pub open spec fn otx_of<B: RequestBound + ?Sized>(ot: Seq<InterferingTask<B>>) -> Seq<OTX> { Seq::new(ot.len(), |i: int| OTX { f: rbf_fn(ot[i].rbf), dl: ot[i].deadline.v(), seg: ot[i].max_np_segment.v() }) }
pub open spec fn pre<A: RequestBound + ?Sized, B: RequestBound + ?Sized>(tua: &TaskUnderAnalysis<A>, ot: Seq<InterferingTask<B>>, limit: int) -> bool {
    &&& 1 <= limit < u64::MAX
    &&& tua.rbf.wf() && forall |i: int| 0 <= i < ot.len() ==> (#[trigger] ot[i]).rbf.wf()
    &&& tua.rbf.rbf(1) >= 1
    &&& tua.deadline.v() + limit + 1 <= u64::MAX
    &&& forall |d: int| 0 <= d <= limit + 1 ==> #[trigger] tua.rbf.rb_ok(d)
    &&& forall |i: int, d: int| 0 <= i < ot.len() && 0 <= d <= limit ==> #[trigger] ot[i].rbf.rb_ok(d)
    &&& forall |i: int| 0 <= i < ot.len() ==> (#[trigger] ot[i]).rbf.rb_ok(1)
    &&& forall |i: int| 0 <= i < ot.len() ==> (#[trigger] ot[i]).max_np_segment.v() + sum_f(to_ots(otx_of(ot)), arg_bw(limit)) + tua.rbf.rbf(limit + 1) <= u64::MAX
    &&& sum_f(to_ots(otx_of(ot)), arg_bw(limit)) + tua.rbf.rbf(limit + 1) <= u64::MAX
}
/// C06 for EDF with floating non-preemptive regions: offset-dependent blocking, remaining cost 0
pub open spec fn spec_result<A: RequestBound + ?Sized, B: RequestBound + ?Sized>(tua: &TaskUnderAnalysis<A>, ot: Seq<InterferingTask<B>>, limit: int) -> Option<int> {
    edfx_spec(rbf_fn(tua.rbf), tua.deadline.v(), otx_of(ot), 0, limit)
}
pub proof fn lemma_otx_wf<B: RequestBound + ?Sized>(ot: Seq<InterferingTask<B>>)
    requires forall |i: int| 0 <= i < ot.len() ==> (#[trigger] ot[i]).rbf.wf()
    ensures otx_wf(otx_of(ot)), ots_wf(to_ots(otx_of(ot)))
{
    assert forall |i: int| 0 <= i < otx_of(ot).len() implies rbf_like(#[trigger] otx_of(ot)[i].f) by { lemma_rbf_fn_like(ot[i].rbf); }
    lemma_to_ots_wf(otx_of(ot));
}

pub open spec fn rta_is_e<F: Fn(Offset) -> SearchResult>(f: &F, g: spec_fn(int) -> Option<int>, max: int) -> bool {
    forall |a: Offset, r: SearchResult| a.v() < max && #[trigger] f.ensures((a,), r) ==> res_view(r) == g(a.v())
}
/// R10 (ASSUMED): the lazily merged EDF search space (see edf_fully_preemptive.rs)
#[verifier::external_body]
pub fn vf_tail_edf<A: RequestBound + ?Sized, B: RequestBound + ?Sized, F: Fn(Offset) -> SearchResult>(tua: &TaskUnderAnalysis<A>, other_tasks: &[InterferingTask<B>], max_offset: Offset, rta: F) -> (res: SearchResult)
    requires forall |a: Offset| a.v() < max_offset.v() && in_space(rbf_fn(tua.rbf), tua.deadline.v(), to_ots(otx_of(other_tasks@)), a.v()) ==> #[trigger] rta.requires((a,))
    ensures forall |g: spec_fn(int) -> Option<int>| #[trigger] rta_is_e(&rta, g, max_offset.v()) ==> res_view(res) == fold_space(rbf_fn(tua.rbf), tua.deadline.v(), to_ots(otx_of(other_tasks@)), g, max_offset.v())
{ unimplemented!() }

//@item src/edf/floating_nonpreemptive.rs :: fn dedicated_uniproc_rta
pub fn dedicated_uniproc_rta<RBF1, RBF2>(
    tua: &TaskUnderAnalysis<RBF1>,
    other_tasks: &[InterferingTask<RBF2>],
    limit: Duration,
) -> /*+*/(res: /*-*/fixed_point::SearchResult/*+*/)/*-*/
where
    RBF1: RequestBound + ?Sized,
    RBF2: RequestBound + ?Sized,
//@+
    requires pre(tua, other_tasks@, limit.v())
    ensures res_view(res) == spec_result(tua, other_tasks@, limit.v())
//@-
{
//@+
    let ghost tf = rbf_fn(tua.rbf);
    let ghost dl = tua.deadline.v();
    let ghost otx = otx_of(other_tasks@);
    proof {
        lemma_rbf_fn_like(tua.rbf); lemma_otx_wf(other_tasks@);
        lemma_edf_w_mono(tf, dl, to_ots(otx), 0);
        lemma_ded_is_dedicated();
    }
//@-
    // This analysis is specific to dedicated uniprocessors.
    let proc = supply::Dedicated::new();

    // First, bound the maximum-possible busy-window length.
    let L = fixed_point::search(&proc, limit, |L/*+*/: Duration/*-*/| /*+*/-> (r: Service)
        requires 1 <= L.v() <= limit.v(), pre(tua, other_tasks@, limit.v())
        ensures r.v() == edf_w_bw(rbf_fn(tua.rbf), to_ots(otx_of(other_tasks@)))(L.v())
    /*-*/{ /*@probe*/
//@+
        proof {
            lemma_rbf_fn_like(tua.rbf); lemma_otx_wf(other_tasks@);
            lemma_sum_f_mono(to_ots(otx_of(other_tasks@)), arg_bw(L.v()), arg_bw(limit.v()));
            assert(tua.rbf.rbf(limit.v() + 1) >= 0) by { tua.rbf.rbf_props(); }
            let gg = ot_term(to_ots(otx_of(other_tasks@)), arg_bw(L.v()));
            assert forall |i: int| 0 <= i < other_tasks@.len() implies #[trigger] gg(i) >= 0 by { other_tasks@[i].rbf.rbf_props(); }
        }
//@-
        let interference_bound: Service =
            /*@R1: other_tasks.iter().map( @*/vf_sum_service_idx(other_tasks, /*@.*/|ot/*+*/: &InterferingTask<RBF2>/*-*/| /*+*/-> (r: Service) requires ot.rbf.wf(), ot.rbf.rb_ok(L.v()) ensures r.v() == ot.rbf.rbf(L.v()) { /*-*/ot.rbf.service_needed(L)/*+*/ }/*-*//*@R1: ).sum() @*/, Ghost(ot_term(to_ots(otx_of(other_tasks@)), arg_bw(L.v()))))/*@.*/;
//@+
        proof { tua.rbf.rbf_props(); assert(tua.rbf.rbf(L.v()) <= tua.rbf.rbf(limit.v() + 1)); assert(tua.rbf.rb_ok(L.v())); }
//@-
        interference_bound + tua.rbf.service_needed(L)
    })?;
//@+
    proof { lemma_scan(ded(), 0, edf_w_bw(tf, to_ots(otx)), 0, limit.v()); }
//@-

    // Second, define the RTA for a given offset A.
    let rta = |A: Offset| /*+*/-> (r: fixed_point::SearchResult)
        requires A.v() < L.v() <= limit.v(), pre(tua, other_tasks@, limit.v())
        ensures res_view(r) == edfx_f(rbf_fn(tua.rbf), tua.deadline.v(), otx_of(other_tasks@), 0, limit.v(), A.v())
    /*-*/{ /*@probe*/
        // Bound on the priority inversion caused by jobs with lower priority.
        let blocking_bound = /*@R5: other_tasks
            .iter()
            .filter( @*/vf_max_filter_map_service_idx(other_tasks, /*@.*/|ot/*+*/: &InterferingTask<RBF2>/*-*/| /*+*/-> (b: bool)
                requires ot.rbf.wf(), ot.rbf.rb_ok(1), A.v() < limit.v(), tua.deadline.v() + limit.v() + 1 <= u64::MAX
                ensures b == (ot.deadline.v() > tua.deadline.v() + A.v() && ot.rbf.rbf(1) > 0)
            /*-*/{
                ot.deadline > tua.deadline + A.since_time_zero()
                    && ot.rbf.service_needed(Duration::epsilon()) > Service::none()
            }/*@R5: )
            .map( @*/, /*@.*/|ot/*+*/: &InterferingTask<RBF2>/*-*/| /*+*/-> (v: Service) ensures v.v() == sat(ot.max_np_segment.v() - 1) { /*-*/ot.max_np_segment.saturating_sub(Service::epsilon())/*+*/ }/*-*//*@R5: )
            .max()
            .unwrap_or_else(Service::none) @*/, Ghost(blk_sel(otx_of(other_tasks@), tua.deadline.v(), A.v())), Ghost(blk_val(otx_of(other_tasks@))))/*@.*/;

        // Define the RHS of the equation in theorem 31 of the aRTA paper,
        // where AF = A + F.
        let rhs = |AF: Duration| /*+*/-> (r: Service)
            requires 1 <= AF.v() <= limit.v(), A.v() < limit.v(), pre(tua, other_tasks@, limit.v()), blocking_bound.v() == blk(otx_of(other_tasks@), tua.deadline.v(), A.v())
            ensures r.v() == edfx_w_off(rbf_fn(tua.rbf), tua.deadline.v(), otx_of(other_tasks@), 0, A.v())(AF.v())
        /*-*/{ /*@probe*/
//@+
            proof {
                lemma_rbf_fn_like(tua.rbf); lemma_otx_wf(other_tasks@);
                tua.rbf.rbf_props(); lemma_off_le_bw(tua.deadline.v(), to_ots(otx_of(other_tasks@)), A.v(), AF.v(), limit.v());
                assert(tua.rbf.rbf(A.v() + 1) <= tua.rbf.rbf(limit.v() + 1)); assert(tua.rbf.rb_ok(A.v() + 1));
                let gg = ot_term(to_ots(otx_of(other_tasks@)), arg_off(A.v(), tua.deadline.v(), AF.v()));
                assert forall |i: int| 0 <= i < other_tasks@.len() implies #[trigger] gg(i) >= 0 by { other_tasks@[i].rbf.rbf_props(); }
                lemma_sum_f_mono(to_ots(otx_of(other_tasks@)), arg_bw(limit.v()), arg_bw(limit.v()));
                lemma_blk_le_seg(other_tasks@, tua.deadline.v(), A.v(), u64::MAX - sum_f(to_ots(otx_of(other_tasks@)), arg_bw(limit.v())) - tua.rbf.rbf(limit.v() + 1));
            }
//@-
            // demand of the task under analysis
            let tua_demand = tua.rbf.service_needed(A.closed_since_time_zero());

            // demand of all interfering tasks
            let bound_on_total_hep_workload: Service = /*@R1: other_tasks
                .iter()
                .map( @*/vf_sum_service_idx(other_tasks, /*@.*/|ot/*+*/: &InterferingTask<RBF2>/*-*/| /*+*/-> (r: Service)
                    requires ot.rbf.wf(), forall |d: int| 0 <= d <= limit.v() ==> #[trigger] ot.rbf.rb_ok(d), AF.v() <= limit.v(), A.v() < limit.v(), tua.deadline.v() + limit.v() + 1 <= u64::MAX
                    ensures r.v() == ot.rbf.rbf(arg_off(A.v(), tua.deadline.v(), AF.v())(ot.deadline.v()))
                /*-*/{
                    ot.rbf.service_needed(/*@R12: std::cmp::min @*/vf_min/*@.*/(
                        AF,
                        (Offset::since_time_zero(A) + Duration::epsilon() + tua.deadline)
                            .saturating_sub(ot.deadline),
                    ))
                }/*@R1: )
                .sum() @*/, Ghost(ot_term(to_ots(otx_of(other_tasks@)), arg_off(A.v(), tua.deadline.v(), AF.v()))))/*@.*/;

            blocking_bound + tua_demand + bound_on_total_hep_workload
        };

//@+
        proof {
            lemma_rbf_fn_like(tua.rbf); lemma_otx_wf(other_tasks@);
            assert(rbf_fn(tua.rbf)(A.v() + 1) >= 0);
            lemma_edfx_w_mono(rbf_fn(tua.rbf), tua.deadline.v(), otx_of(other_tasks@), 0, A.v());
            lemma_ded_is_dedicated();
            assert(proc == (Dedicated {}));
            assert(sbf_of(&proc) == ded());
            assert(clo_is(&rhs, edfx_w_off(rbf_fn(tua.rbf), tua.deadline.v(), otx_of(other_tasks@), 0, A.v())));
            lemma_scan(ded(), 0, edfx_w_off(rbf_fn(tua.rbf), tua.deadline.v(), otx_of(other_tasks@), 0, A.v()), 0, limit.v());
        }
//@-
        // Find the solution A+F that is the least fixed point.
        let AF = fixed_point::search(&proc, limit, rhs)?;

        // Extract the corresponding bound.
        let F = AF.saturating_sub(A.since_time_zero());
        Ok(F)
    };

    // Third, define the search space. The search space is given by
    // A=0 and each step below L of the task under analysis's RBF.
    // The case of A=0 is not handled explicitly since `steps_iter()`
    // necessarily yields delta=1, which results in A=0 being
    // included in the search space.
    let max_offset = Offset::from_time_zero(L);
    /*@R10: let search_space_tua = demand::step_offsets(tua.rbf).take_while(|A| *A < max_offset);
    let search_space = other_tasks
        .iter()
        .map(|ot| {
            demand::step_offsets(ot.rbf)
                .map(move |delta| {
                    Offset::from_time_zero(
                        (delta + ot.deadline)
                            .since_time_zero()
                            .saturating_sub(tua.deadline),
                    )
                })
                .take_while(|A| *A < max_offset)
        })
        .kmerge()
        .merge(search_space_tua)
        .dedup();

    // Finally, apply the offset-specific RTA to each offset in the
    // search space and return the maximum response-time bound.
    fixed_point::max_response_time(search_space.map(rta)) @*/let vf_res = vf_tail_edf(tua, other_tasks, max_offset, rta);
    proof {
        let g = |x: int| edfx_f(tf, dl, otx, 0, limit.v(), x);
        assert(rta_is_e(&rta, g, max_offset.v()));
        lemma_edfx_prune(tf, dl, otx, 0, limit.v(), L.v());
    }
    vf_res/*@.*/
}
//@end

/// the blocking bound never exceeds a bound on the segment lengths of the other tasks
pub proof fn lemma_blk_le_seg<B: RequestBound + ?Sized>(ot: Seq<InterferingTask<B>>, dl: int, a: int, bound: int)
    requires bound >= 0, forall |i: int| 0 <= i < ot.len() ==> (#[trigger] ot[i]).max_np_segment.v() <= bound
    ensures 0 <= blk(otx_of(ot), dl, a) <= bound
{
    let otx = otx_of(ot);
    lemma_max_sel_nonneg(otx.len() as int, blk_sel(otx, dl, a), blk_val(otx));
    assert forall |i: int| 0 <= i < otx.len() implies #[trigger] blk_val(otx)(i) <= bound by { assert(ot[i].max_np_segment.v() <= bound); }
    lemma_max_sel_le(otx.len() as int, blk_sel(otx, dl, a), blk_val(otx), bound);
}

} // verus!
