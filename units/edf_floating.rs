// unit part: src/edf/floating_nonpreemptive.rs (C06)
verus! {

//@item src/edf/floating_nonpreemptive.rs :: struct TaskUnderAnalysis
pub struct TaskUnderAnalysis<'a, RBF: RequestBound + ?Sized> {
    /// The RBF upper-bounding the task's demand.
    pub rbf: &'a RBF,

    /// The task's relative deadline.
    pub deadline: Duration,
}
//@end
//@item src/edf/floating_nonpreemptive.rs :: struct InterferingTask
pub struct InterferingTask<'a, RBF: RequestBound + ?Sized> {
    /// The RBF upper-bounding the task's demand.
    pub rbf: &'a RBF,

    /// The task's relative deadline.
    pub deadline: Duration,

    /// The maximum length of the task's segments.
    pub max_np_segment: Service,
}
//@end

/// std::cmp::min on Duration (R12: Ord::min of the derived Ord)
pub fn vf_min(a: Duration, b: Duration) -> (r: Duration) ensures r.v() == imin(a.v(), b.v()) { if a.val <= b.val { a } else { b } }

pub open spec fn otx_of<B: RequestBound + ?Sized>(ot: Seq<InterferingTask<B>>) -> Seq<OTX> { Seq::new(ot.len(), |i: int| OTX { f: rbf_fn(ot[i].rbf), dl: ot[i].deadline.v(), seg: ot[i].max_np_segment.v() }) }
pub open spec fn pre<A: RequestBound + ?Sized, B: RequestBound + ?Sized>(tua: &TaskUnderAnalysis<A>, ot: Seq<InterferingTask<B>>, limit: int) -> bool {
    &&& 1 <= limit < u64::MAX
    &&& tua.rbf.wf() && forall |i: int| 0 <= i < ot.len() ==> (#[trigger] ot[i]).rbf.wf()
    &&& tua.rbf.rbf(1) >= 1
    &&& tua.deadline.v() + limit + 1 <= u64::MAX
    &&& forall |d: int| 0 <= d <= limit + 1 ==> #[trigger] tua.rbf.rb_ok(d)
    &&& forall |i: int, d: int| 0 <= i < ot.len() && 0 <= d <= limit ==> #[trigger] ot[i].rbf.rb_ok(d)
    &&& forall |i: int| 0 <= i < ot.len() ==> (#[trigger] ot[i]).rbf.rb_ok(1)
    &&& forall |i: int| 0 <= i < ot.len() ==> (#[trigger] ot[i]).max_np_segment.v() + sum_f(to_ots(otx_of(ot)), arg_bw(limit)) + tua.rbf.rbf(limit + 1) <= u64::MAX
    &&& sum_f(to_ots(otx_of(ot)), arg_bw(limit)) + tua.rbf.rbf(limit + 1) <= u64::MAX
}
/// C06 for EDF with floating non-preemptive regions: offset-dependent blocking, remaining cost 0
pub open spec fn spec_result<A: RequestBound + ?Sized, B: RequestBound + ?Sized>(tua: &TaskUnderAnalysis<A>, ot: Seq<InterferingTask<B>>, limit: int) -> Option<int> {
    edfx_spec(rbf_fn(tua.rbf), tua.deadline.v(), otx_of(ot), 0, limit)
}
pub proof fn lemma_otx_wf<B: RequestBound + ?Sized>(ot: Seq<InterferingTask<B>>)
    requires forall |i: int| 0 <= i < ot.len() ==> (#[trigger] ot[i]).rbf.wf()
    ensures otx_wf(otx_of(ot)), ots_wf(to_ots(otx_of(ot)))
{
    assert forall |i: int| 0 <= i < otx_of(ot).len() implies rbf_like(#[trigger] otx_of(ot)[i].f) by { lemma_rbf_fn_like(ot[i].rbf); }
    lemma_to_ots_wf(otx_of(ot));
}

/// the observation of the step streams covers every offset the search can reach (and the eager reading of the shift does not overflow)
pub open spec fn pre_steps_ot<B: RequestSteps + ?Sized>(ot: &InterferingTask<B>, dl: int, max: int, n: int) -> bool {
    ot.rbf.rsteps_ok(n) && ot.rbf.rsteps_hz(n) >= max + dl && ot.rbf.rsteps_ub(n) + ot.deadline.v() <= u64::MAX
}
pub open spec fn pre_steps<A: RequestSteps + ?Sized, B: RequestSteps + ?Sized>(tua: &TaskUnderAnalysis<A>, ot: Seq<InterferingTask<B>>, limit: int, n: int) -> bool {
    &&& tua.rbf.rsteps_ok(n) && tua.rbf.rsteps_hz(n) >= limit
    &&& forall |i: int| 0 <= i < ot.len() ==> pre_steps_ot(&#[trigger] ot[i], tua.deadline.v(), limit, n)
}


//@item src/edf/floating_nonpreemptive.rs :: fn dedicated_uniproc_rta
pub fn dedicated_uniproc_rta<RBF1, RBF2>(
    tua: &TaskUnderAnalysis<RBF1>,
    other_tasks: &[InterferingTask<RBF2>],
    limit: Duration,
/*+*/vf_n: usize,/*-*/
) -> /*+*/(res: /*-*/fixed_point::SearchResult/*+*/)/*-*/
where
    RBF1: /*@R22: RequestBound @*/RequestSteps/*@.*/ + ?Sized,
    RBF2: /*@R22: RequestBound @*/RequestSteps/*@.*/ + ?Sized,
//@+
    requires pre(tua, other_tasks@, limit.v()), pre_steps(tua, other_tasks@, limit.v(), vf_n as int)
    ensures res_view(res) == spec_result(tua, other_tasks@, limit.v())
//@-
{
//@+
    let ghost tf = rbf_fn(tua.rbf);
    let ghost dl = tua.deadline.v();
    let ghost otx = otx_of(other_tasks@);
    proof {
        lemma_rbf_fn_like(tua.rbf); lemma_otx_wf(other_tasks@);
        lemma_edf_w_mono(tf, dl, to_ots(otx), 0);
        lemma_ded_is_dedicated();
    }
//@-
    // This analysis is specific to dedicated uniprocessors.
    let proc = supply::Dedicated::new();

    // First, bound the maximum-possible busy-window length.
    let L = fixed_point::search(&proc, limit, |L/*+*/: Duration/*-*/| /*+*/-> (r: Service)
        requires 1 <= L.v() <= limit.v(), pre(tua, other_tasks@, limit.v())
        ensures r.v() == edf_w_bw(rbf_fn(tua.rbf), to_ots(otx_of(other_tasks@)))(L.v())
    /*-*/{ /*@probe*/
//@+
        proof {
            lemma_rbf_fn_like(tua.rbf); lemma_otx_wf(other_tasks@);
            lemma_sum_f_mono(to_ots(otx_of(other_tasks@)), arg_bw(L.v()), arg_bw(limit.v()));
            assert(tua.rbf.rbf(limit.v() + 1) >= 0) by { tua.rbf.rbf_props(); }
            let gg = ot_term(to_ots(otx_of(other_tasks@)), arg_bw(L.v()));
            assert forall |i: int| 0 <= i < other_tasks@.len() implies #[trigger] gg(i) >= 0 by { other_tasks@[i].rbf.rbf_props(); }
        }
//@-
        let interference_bound: Service =
            /*@R1: other_tasks.iter().map( @*/vf_sum_service_idx(other_tasks, /*@.*/|ot/*+*/: &InterferingTask<RBF2>/*-*/| /*+*/-> (r: Service) requires ot.rbf.wf(), ot.rbf.rb_ok(L.v()) ensures r.v() == ot.rbf.rbf(L.v()) { /*-*/ot.rbf.service_needed(L)/*+*/ }/*-*//*@R1: ).sum() @*/, Ghost(ot_term(to_ots(otx_of(other_tasks@)), arg_bw(L.v()))))/*@.*/;
//@+
        proof { tua.rbf.rbf_props(); assert(tua.rbf.rbf(L.v()) <= tua.rbf.rbf(limit.v() + 1)); assert(tua.rbf.rb_ok(L.v())); }
//@-
        interference_bound + tua.rbf.service_needed(L)
    })?;
//@+
    proof { lemma_scan(ded(), 0, edf_w_bw(tf, to_ots(otx)), 0, limit.v()); }
//@-

    // Second, define the RTA for a given offset A.
    let rta = |A: Offset| /*+*/-> (r: fixed_point::SearchResult)
        requires A.v() < L.v() <= limit.v(), pre(tua, other_tasks@, limit.v())
        ensures res_view(r) == edfx_f(rbf_fn(tua.rbf), tua.deadline.v(), otx_of(other_tasks@), 0, limit.v(), A.v())
    /*-*/{ /*@probe*/
        // Bound on the priority inversion caused by jobs with lower priority.
        let blocking_bound = /*@R5: other_tasks
            .iter()
            .filter( @*/vf_max_filter_map_service_idx(other_tasks, /*@.*/|ot/*+*/: &InterferingTask<RBF2>/*-*/| /*+*/-> (b: bool)
                requires ot.rbf.wf(), ot.rbf.rb_ok(1), A.v() < limit.v(), tua.deadline.v() + limit.v() + 1 <= u64::MAX
                ensures b == (ot.deadline.v() > tua.deadline.v() + A.v() && ot.rbf.rbf(1) > 0)
            /*-*/{
                ot.deadline > tua.deadline + A.since_time_zero()
                    && ot.rbf.service_needed(Duration::epsilon()) > Service::none()
            }/*@R5: )
            .map( @*/, /*@.*/|ot/*+*/: &InterferingTask<RBF2>/*-*/| /*+*/-> (v: Service) ensures v.v() == sat(ot.max_np_segment.v() - 1) { /*-*/ot.max_np_segment.saturating_sub(Service::epsilon())/*+*/ }/*-*//*@R5: )
            .max()
            .unwrap_or_else(Service::none) @*/, Ghost(blk_sel(otx_of(other_tasks@), tua.deadline.v(), A.v())), Ghost(blk_val(otx_of(other_tasks@))))/*@.*/;

        // Define the RHS of the equation in theorem 31 of the aRTA paper,
        // where AF = A + F.
        let rhs = |AF: Duration| /*+*/-> (r: Service)
            requires 1 <= AF.v() <= limit.v(), A.v() < limit.v(), pre(tua, other_tasks@, limit.v()), blocking_bound.v() == blk(otx_of(other_tasks@), tua.deadline.v(), A.v())
            ensures r.v() == edfx_w_off(rbf_fn(tua.rbf), tua.deadline.v(), otx_of(other_tasks@), 0, A.v())(AF.v())
        /*-*/{ /*@probe*/
//@+
            proof {
                lemma_rbf_fn_like(tua.rbf); lemma_otx_wf(other_tasks@);
                tua.rbf.rbf_props(); lemma_off_le_bw(tua.deadline.v(), to_ots(otx_of(other_tasks@)), A.v(), AF.v(), limit.v());
                assert(tua.rbf.rbf(A.v() + 1) <= tua.rbf.rbf(limit.v() + 1)); assert(tua.rbf.rb_ok(A.v() + 1));
                let gg = ot_term(to_ots(otx_of(other_tasks@)), arg_off(A.v(), tua.deadline.v(), AF.v()));
                assert forall |i: int| 0 <= i < other_tasks@.len() implies #[trigger] gg(i) >= 0 by { other_tasks@[i].rbf.rbf_props(); }
                lemma_sum_f_mono(to_ots(otx_of(other_tasks@)), arg_bw(limit.v()), arg_bw(limit.v()));
                lemma_blk_le_seg(other_tasks@, tua.deadline.v(), A.v(), u64::MAX - sum_f(to_ots(otx_of(other_tasks@)), arg_bw(limit.v())) - tua.rbf.rbf(limit.v() + 1));
            }
//@-
            // demand of the task under analysis
            let tua_demand = tua.rbf.service_needed(A.closed_since_time_zero());

            // demand of all interfering tasks
            let bound_on_total_hep_workload: Service = /*@R1: other_tasks
                .iter()
                .map( @*/vf_sum_service_idx(other_tasks, /*@.*/|ot/*+*/: &InterferingTask<RBF2>/*-*/| /*+*/-> (r: Service)
                    requires ot.rbf.wf(), forall |d: int| 0 <= d <= limit.v() ==> #[trigger] ot.rbf.rb_ok(d), AF.v() <= limit.v(), A.v() < limit.v(), tua.deadline.v() + limit.v() + 1 <= u64::MAX
                    ensures r.v() == ot.rbf.rbf(arg_off(A.v(), tua.deadline.v(), AF.v())(ot.deadline.v()))
                /*-*/{
                    ot.rbf.service_needed(/*@R12: std::cmp::min @*/vf_min/*@.*/(
                        AF,
                        (Offset::since_time_zero(A) + Duration::epsilon() + tua.deadline)
                            .saturating_sub(ot.deadline),
                    ))
                }/*@R1: )
                .sum() @*/, Ghost(ot_term(to_ots(otx_of(other_tasks@)), arg_off(A.v(), tua.deadline.v(), AF.v()))))/*@.*/;

            blocking_bound + tua_demand + bound_on_total_hep_workload
        };

//@+
        proof {
            lemma_rbf_fn_like(tua.rbf); lemma_otx_wf(other_tasks@);
            assert(rbf_fn(tua.rbf)(A.v() + 1) >= 0);
            lemma_edfx_w_mono(rbf_fn(tua.rbf), tua.deadline.v(), otx_of(other_tasks@), 0, A.v());
            lemma_ded_is_dedicated();
            assert(proc == (Dedicated {}));
            assert(sbf_of(&proc) == ded());
            assert(clo_is(&rhs, edfx_w_off(rbf_fn(tua.rbf), tua.deadline.v(), otx_of(other_tasks@), 0, A.v())));
            lemma_scan(ded(), 0, edfx_w_off(rbf_fn(tua.rbf), tua.deadline.v(), otx_of(other_tasks@), 0, A.v()), 0, limit.v());
        }
//@-
        // Find the solution A+F that is the least fixed point.
        let AF = fixed_point::search(&proc, limit, rhs)?;

        // Extract the corresponding bound.
        let F = AF.saturating_sub(A.since_time_zero());
        Ok(F)
    };

    // Third, define the search space. The search space is given by
    // A=0 and each step below L of the task under analysis's RBF.
    // The case of A=0 is not handled explicitly since `steps_iter()`
    // necessarily yields delta=1, which results in A=0 being
    // included in the search space.
    let max_offset = Offset::from_time_zero(L);
//@+
    let ghost mx = max_offset.v();
    let ghost hz = tua.rbf.rsteps_hz(vf_n as int);
    let ghost ots = to_ots(otx);
    proof { assert(L.v() <= limit.v()); }
//@-
    let search_space_tua = demand::step_offsets(tua.rbf/*+*/, vf_n/*-*/).take_while(|A/*+*/: &Offset/*-*/| /*+*/-> (r: bool) ensures r == (A.v() < max_offset.v()) { /*@probe*/ /*-*/*A < max_offset/*+*/ }, Ghost(|A: Offset| A.v() < max_offset.v())/*-*/);
//@+
    let ghost ss_tua = search_space_tua.0@;
    // the stream that take_while consumed (an unnamed temporary of the expression above)
    let ghost offs_tua: Seq<Offset> = choose |o: Seq<Offset>| #[trigger] offsets_exact(o, tf, hz) && tw_of(ss_tua, o, mx);
    proof {
        assert(exists |o: Seq<Offset>| #[trigger] offsets_exact(o, tf, hz) && tw_of(ss_tua, o, mx));
        lemma_tw_set(offs_tua, tf, hz, mx, ss_tua);
    }
//@-
//@+
    let ghost gs = |i: int, a: int| shifted_in(ots[i].f, ots[i].dl, dl, mx, a);
//@-
    let search_space = /*@R21: other_tasks
        .iter()
        .map( @*/VfStream::<Offset>::kmerge_map(other_tasks, /*@.*/|ot/*+*/: &InterferingTask<RBF2>/*-*/| /*+*/-> (r: VfStream<Offset>)
            requires ot.rbf.wf(), pre_steps_ot(ot, tua.deadline.v(), max_offset.v(), vf_n as int)
            ensures forall |a: int| #[trigger] off_has(r.0@, a) <==> shifted_in(rbf_fn(ot.rbf), ot.deadline.v(), tua.deadline.v(), max_offset.v(), a)
        /*-*/{ /*@probe*/
            /*+*/let vf_r = /*-*/demand::step_offsets(ot.rbf/*+*/, vf_n/*-*/)
                .map(move |delta/*+*/: Offset/*-*/| /*+*/-> (r: Offset)
                    requires delta.v() + ot.deadline.v() <= u64::MAX
                    ensures r == sh(ot.deadline.v(), tua.deadline.v())(delta)
                /*-*/{ /*@probe*/
                    Offset::from_time_zero(
                        (delta + ot.deadline)
                            .since_time_zero()
                            .saturating_sub(tua.deadline),
                    )
                }/*+*/, Ghost(sh(ot.deadline.v(), tua.deadline.v()))/*-*/)
                .take_while(|A/*+*/: &Offset/*-*/| /*+*/-> (r: bool) ensures r == (A.v() < max_offset.v()) { /*@probe*/ /*-*/*A < max_offset/*+*/ }, Ghost(|A: Offset| A.v() < max_offset.v())/*-*/)/*+*/;
            proof {
                let fo = rbf_fn(ot.rbf); let hzo = ot.rbf.rsteps_hz(vf_n as int); let ubo = ot.rbf.rsteps_ub(vf_n as int);
                let (dlo, dl, mxo) = (ot.deadline.v(), tua.deadline.v(), max_offset.v());
                assert(exists |o: Seq<Offset>| #[trigger] offsets_exact(o, fo, hzo) && off_lt(o, ubo) && tw_of(vf_r.0@, o.map_values(sh(dlo, dl)), mxo));
                let o = choose |o: Seq<Offset>| #[trigger] offsets_exact(o, fo, hzo) && off_lt(o, ubo) && tw_of(vf_r.0@, o.map_values(sh(dlo, dl)), mxo);
                lemma_shifted_tw_set(o, fo, hzo, ubo, dlo, dl, mxo, vf_r.0@);
            }
            vf_r/*-*/
        }/*@R21: )
        .kmerge() @*/, Ghost(gs))/*@.*/
        .merge(search_space_tua)
        .dedup();
//@+
    let ghost ss = search_space.0@;
    proof {
        assert(ots.len() == other_tasks@.len());
        assert forall |a: int| #[trigger] off_has(ss, a) <==> ((0 <= a < mx && is_step_at(tf, a + 1)) || exists |i: int| 0 <= i < ots.len() && #[trigger] shifted_in(ots[i].f, ots[i].dl, dl, mx, a)) by {
            if exists |i: int| 0 <= i < ots.len() && #[trigger] shifted_in(ots[i].f, ots[i].dl, dl, mx, a) {
                let i = choose |i: int| 0 <= i < ots.len() && #[trigger] shifted_in(ots[i].f, ots[i].dl, dl, mx, a);
                assert(gs(i, a));
            }
            if off_has(ss, a) && !(0 <= a < mx && is_step_at(tf, a + 1)) {
                let i = choose |i: int| 0 <= i < other_tasks@.len() && #[trigger] gs(i, a);
                assert(shifted_in(ots[i].f, ots[i].dl, dl, mx, a));
            }
        }
        lemma_edf_space(ss, tf, dl, ots, mx);
        assert forall |i: int| 0 <= i < ss.len() implies #[trigger] rta.requires((ss[i],)) by { assert(off_has(ss, ss[i].v())); }
    }
//@-

    // Finally, apply the offset-specific RTA to each offset in the
    // search space and return the maximum response-time bound.
    /*@R21: fixed_point::max_response_time(search_space.map(rta)) @*/let vf_rs = search_space.map_rel(rta);
    let vf_res = fixed_point::max_response_time(vf_rs.as_slice());
    proof {
        let g = |x: int| edfx_f(tf, dl, otx, 0, limit.v(), x);
        lemma_set_fold(ss, |x: int| in_space(tf, dl, ots, x), mx, vf_rs.0@, g, vf_res);
        lemma_fold_space_is_fold_p(tf, dl, ots, g, mx);
        lemma_edfx_prune(tf, dl, otx, 0, limit.v(), L.v());
    }
    vf_res/*@.*/
}
//@end

/// the blocking bound never exceeds a bound on the segment lengths of the other tasks
pub proof fn lemma_blk_le_seg<B: RequestBound + ?Sized>(ot: Seq<InterferingTask<B>>, dl: int, a: int, bound: int)
    requires bound >= 0, forall |i: int| 0 <= i < ot.len() ==> (#[trigger] ot[i]).max_np_segment.v() <= bound
    ensures 0 <= blk(otx_of(ot), dl, a) <= bound
{
    let otx = otx_of(ot);
    lemma_max_sel_nonneg(otx.len() as int, blk_sel(otx, dl, a), blk_val(otx));
    assert forall |i: int| 0 <= i < otx.len() implies #[trigger] blk_val(otx)(i) <= bound by { assert(ot[i].max_np_segment.v() <= bound); }
    lemma_max_sel_le(otx.len() as int, blk_sel(otx, dl, a), blk_val(otx), bound);
}

} // verus!
