// C11 for the aggregated arrival models: Never, SumOf (merge + dedup), Vec<T> and [T] (kmerge + dedup) -- steps_iter bodies
// verbatim from /repo/src/arrival/{never,aggregated,slice}.rs (rule R21).  The sum of non-decreasing bounds increases at delta
// exactly when one of the components does; the merged, de-duplicated stream of exact component streams is therefore exact for the
// sum up to the smallest component horizon.
verus! {

pub open spec fn imin2(a: int, b: int) -> int { if a <= b { a } else { b } }
pub open spec fn imax2(a: int, b: int) -> int { if a >= b { a } else { b } }

// ------------------------------------------------------------------ Never
impl ArrivalSteps for Never {
    open spec fn steps_ok(&self, n: int) -> bool { true }
    open spec fn steps_hz(&self, n: int) -> int { n }
    open spec fn steps_ub(&self, n: int) -> int { 0 }
    proof fn steps_hz_unbounded(&self, h: int) -> (n: int) { if h >= 0 { h } else { 0 } }
    proof fn steps_hz_mono(&self, n1: int, n2: int) {}
//@item src/arrival/never.rs :: impl ArrivalBound for Never / fn steps_iter
    fn steps_iter<'a>(&'a self/*+*/, vf_n: usize/*-*/) -> /*+*/(r: /*-*//*@R21: Box<dyn Iterator<Item = Duration> + 'a> @*/VfStream<Duration>/*@.*//*+*/)/*-*/ {
        /*@R21: Box::new(iter::empty()) @*/VfStream::empty()/*@.*/
    }
//@end
}

// ------------------------------------------------------------------ SumOf
impl<AB1: ArrivalSteps, AB2: ArrivalSteps> ArrivalSteps for SumOf<AB1, AB2> {
    open spec fn steps_ok(&self, n: int) -> bool { self.0.steps_ok(n) && self.1.steps_ok(n) }
    open spec fn steps_hz(&self, n: int) -> int { imin2(self.0.steps_hz(n), self.1.steps_hz(n)) }
    open spec fn steps_ub(&self, n: int) -> int { imax2(self.0.steps_ub(n), self.1.steps_ub(n)) }
    proof fn steps_hz_unbounded(&self, h: int) -> (n: int) {
        let n0 = self.0.steps_hz_unbounded(h); let n1 = self.1.steps_hz_unbounded(h);
        let n = imax2(n0, n1);
        self.0.steps_hz_mono(n0, n); self.1.steps_hz_mono(n1, n);
        n
    }
    proof fn steps_hz_mono(&self, n1: int, n2: int) { self.0.steps_hz_mono(n1, n2); self.1.steps_hz_mono(n1, n2); }
//@item src/arrival/aggregated.rs :: impl<AB1: ArrivalBound, AB2: ArrivalBound> ArrivalBound for SumOf<AB1, AB2> / fn steps_iter
    fn steps_iter<'a>(&'a self/*+*/, vf_n: usize/*-*/) -> /*+*/(r: /*-*//*@R21: Box<dyn Iterator<Item = Duration> + 'a> @*/VfStream<Duration>/*@.*//*+*/)/*-*/ {
        /*@R21: Box::new( @*/let vf_r = /*@.*/self.0.steps_iter(/*+*/vf_n/*-*/).merge(self.1.steps_iter(/*+*/vf_n/*-*/)).dedup()/*@R21: ) @*/;/*@.*/
//@+
        proof {
            self.0.na_props(); self.1.na_props();
            let (f0, f1, f) = (nafn(&self.0), nafn(&self.1), nafn(self));
            let s = vf_r.0@;
            assert forall |d: int| #[trigger] has(s, d) implies d >= 1 && f(d - 1) < f(d) by {
                assert(f0(d - 1) <= f0(d) && f1(d - 1) <= f1(d)) by { if d >= 1 { assert(self.0.na(d - 1) <= self.0.na(d)); assert(self.1.na(d - 1) <= self.1.na(d)); } }
            }
            assert forall |d: int| 1 <= d <= self.steps_hz(vf_n as int) && f(d - 1) < f(d) implies #[trigger] has(s, d) by {
                assert(self.0.na(d - 1) <= self.0.na(d)); assert(self.1.na(d - 1) <= self.1.na(d));
                assert(f0(d - 1) < f0(d) || f1(d - 1) < f1(d));
            }
            assert forall |i: int| 0 <= i < s.len() implies (#[trigger] s[i]).val <= self.steps_ub(vf_n as int) by { assert(has(s, s[i].v())); }
        }
        vf_r
//@-
    }
//@end
}

// ------------------------------------------------------------------ Vec<T>, [T]
/// smallest component horizon (n for the empty sum: it never steps, so every horizon is decided)
pub open spec fn vec_hz<T: ArrivalSteps>(xs: Seq<T>, n: int) -> int
    decreases xs.len()
{
    if xs.len() == 0 { n } else { imin2(vec_hz(xs.drop_last(), n), xs.last().steps_hz(n)) }
}
pub open spec fn vec_ub<T: ArrivalSteps>(xs: Seq<T>, n: int) -> int
    decreases xs.len()
{
    if xs.len() == 0 { 0 } else { imax2(vec_ub(xs.drop_last(), n), xs.last().steps_ub(n)) }
}
pub open spec fn vec_steps_ok<T: ArrivalSteps>(xs: Seq<T>, n: int) -> bool { forall |i: int| 0 <= i < xs.len() ==> (#[trigger] xs[i]).steps_ok(n) }
pub proof fn lemma_vec_hz_le<T: ArrivalSteps>(xs: Seq<T>, n: int, i: int)
    requires 0 <= i < xs.len()
    ensures vec_hz(xs, n) <= xs[i].steps_hz(n), vec_ub(xs, n) >= xs[i].steps_ub(n)
    decreases xs.len()
{
    if i < xs.len() - 1 { lemma_vec_hz_le(xs.drop_last(), n, i); assert(xs.drop_last()[i] == xs[i]); }
}
pub proof fn lemma_vec_hz_mono<T: ArrivalSteps>(xs: Seq<T>, n1: int, n2: int)
    requires all_wf(xs), 0 <= n1 <= n2
    ensures vec_hz(xs, n1) <= vec_hz(xs, n2)
    decreases xs.len()
{
    if xs.len() > 0 {
        assert forall |i: int| 0 <= i < xs.drop_last().len() implies (#[trigger] xs.drop_last()[i]).wf() by { assert(xs.drop_last()[i] == xs[i]); }
        lemma_vec_hz_mono(xs.drop_last(), n1, n2);
        assert(xs.last() == xs[xs.len() - 1]);
        xs.last().steps_hz_mono(n1, n2);
    }
}
pub proof fn lemma_vec_hz_unbounded<T: ArrivalSteps>(xs: Seq<T>, h: int) -> (n: int)
    requires all_wf(xs)
    ensures n >= 0, vec_hz(xs, n) >= h
    decreases xs.len()
{
    if xs.len() == 0 { if h >= 0 { h } else { 0 } }
    else {
        assert forall |i: int| 0 <= i < xs.drop_last().len() implies (#[trigger] xs.drop_last()[i]).wf() by { assert(xs.drop_last()[i] == xs[i]); }
        assert(xs.last() == xs[xs.len() - 1]);
        let n0 = lemma_vec_hz_unbounded(xs.drop_last(), h);
        let n1 = xs.last().steps_hz_unbounded(h);
        let n = imax2(n0, n1);
        lemma_vec_hz_mono(xs.drop_last(), n0, n);
        xs.last().steps_hz_mono(n1, n);
        n
    }
}
/// a sum of non-decreasing bounds increases at d exactly when one of its components does
pub proof fn lemma_sum_na_step<T: ArrivalBound>(xs: Seq<T>, d: int)
    requires all_wf(xs), d >= 1
    ensures sum_na(xs, d - 1) <= sum_na(xs, d),
            sum_na(xs, d - 1) < sum_na(xs, d) <==> exists |i: int| 0 <= i < xs.len() && (#[trigger] xs[i]).na(d - 1) < xs[i].na(d)
    decreases xs.len()
{
    if xs.len() > 0 {
        let ys = xs.drop_last();
        assert forall |i: int| 0 <= i < ys.len() implies (#[trigger] ys[i]).wf() by { assert(ys[i] == xs[i]); }
        lemma_sum_na_step(ys, d);
        let l = xs.last();
        assert(l == xs[xs.len() - 1]);
        l.na_props();
        assert(l.na(d - 1) <= l.na(d));
        assert(sum_na(xs, d) == sum_na(ys, d) + l.na(d));
        assert(sum_na(xs, d - 1) == sum_na(ys, d - 1) + l.na(d - 1));
        if sum_na(xs, d - 1) < sum_na(xs, d) {
            if l.na(d - 1) < l.na(d) { assert(xs[xs.len() - 1].na(d - 1) < xs[xs.len() - 1].na(d)); }
            else { let i = choose |i: int| 0 <= i < ys.len() && (#[trigger] ys[i]).na(d - 1) < ys[i].na(d); assert(xs[i] == ys[i]); }
        }
        if exists |i: int| 0 <= i < xs.len() && (#[trigger] xs[i]).na(d - 1) < xs[i].na(d) {
            let i = choose |i: int| 0 <= i < xs.len() && (#[trigger] xs[i]).na(d - 1) < xs[i].na(d);
            if i < ys.len() { assert(ys[i] == xs[i]); }
        }
    }
}
/// the merged, de-duplicated component streams are exact for the sum
pub proof fn lemma_vec_steps<T: ArrivalSteps>(xs: Seq<T>, n: int, s: Seq<Duration>)
    requires all_wf(xs), str_inc(s),
        forall |a: int| #[trigger] has(s, a) ==> exists |i: int| 0 <= i < xs.len() && #[trigger] vs_sound(xs, n, i, a),
        forall |i: int, a: int| 0 <= i < xs.len() && #[trigger] vs_must(xs, n, i, a) ==> has(s, a),
    ensures steps_exact(s, |x: int| sum_na(xs, x), vec_hz(xs, n)), steps_le(s, vec_ub(xs, n))
{
    let f = |x: int| sum_na(xs, x);
    assert forall |d: int| #[trigger] has(s, d) implies d >= 1 && f(d - 1) < f(d) by {
        let i = choose |i: int| 0 <= i < xs.len() && #[trigger] vs_sound(xs, n, i, d);
        lemma_sum_na_step(xs, d);
    }
    assert forall |k: int| 0 <= k < s.len() implies (#[trigger] s[k]).val <= vec_ub(xs, n) by {
        assert(has(s, s[k].v()));
        let i = choose |i: int| 0 <= i < xs.len() && #[trigger] vs_sound(xs, n, i, s[k].v());
        lemma_vec_hz_le(xs, n, i);
    }
    assert forall |d: int| 1 <= d <= vec_hz(xs, n) && f(d - 1) < f(d) implies #[trigger] has(s, d) by {
        lemma_sum_na_step(xs, d);
        let i = choose |i: int| 0 <= i < xs.len() && (#[trigger] xs[i]).na(d - 1) < xs[i].na(d);
        lemma_vec_hz_le(xs, n, i);
        assert(vs_must(xs, n, i, d));
    }
}
/// what component i may yield / has to yield
pub open spec fn vs_sound<T: ArrivalSteps>(xs: Seq<T>, n: int, i: int, a: int) -> bool { a >= 1 && xs[i].na(a - 1) < xs[i].na(a) && a <= xs[i].steps_ub(n) }
pub open spec fn vs_must<T: ArrivalSteps>(xs: Seq<T>, n: int, i: int, a: int) -> bool { 1 <= a <= xs[i].steps_hz(n) && xs[i].na(a - 1) < xs[i].na(a) }

impl<T: ArrivalSteps> ArrivalSteps for Vec<T> {
    open spec fn steps_ok(&self, n: int) -> bool { vec_steps_ok(self@, n) }
    open spec fn steps_hz(&self, n: int) -> int { vec_hz(self@, n) }
    open spec fn steps_ub(&self, n: int) -> int { vec_ub(self@, n) }
    proof fn steps_hz_unbounded(&self, h: int) -> (n: int) { lemma_vec_hz_unbounded(self@, h) }
    proof fn steps_hz_mono(&self, n1: int, n2: int) { lemma_vec_hz_mono(self@, n1, n2); }
//@item src/arrival/aggregated.rs :: impl<T: ArrivalBound> ArrivalBound for Vec<T> / fn steps_iter
    fn steps_iter<'a>(&'a self/*+*/, vf_n: usize/*-*/) -> /*+*/(r: /*-*//*@R21: Box<dyn Iterator<Item = Duration> + 'a> @*/VfStream<Duration>/*@.*//*+*/)/*-*/ {
//@+
        let ghost xs = self@;
        let ghost sound = |i: int, a: int| vs_sound(xs, vf_n as int, i, a);
        let ghost must = |i: int, a: int| vs_must(xs, vf_n as int, i, a);
//@-
        /*@R21: Box::new(self.iter().map( @*/let vf_r = VfStream::<Duration>::kmerge_map(self.as_slice(), /*@.*/|ab/*+*/: &T/*-*/| /*+*/-> (r: VfStream<Duration>)
            requires ab.wf(), ab.steps_ok(vf_n as int)
            ensures steps_exact(r.0@, nafn(ab), ab.steps_hz(vf_n as int)), steps_le(r.0@, ab.steps_ub(vf_n as int))
        { /*@probe*/ /*-*/ab.steps_iter(/*+*/vf_n/*-*/)/*+*/ }/*-*//*@R21: ).kmerge() @*/, Ghost(sound), Ghost(must))/*@.*/.dedup()/*@R21: ) @*/;/*@.*/
//@+
        proof {
            assert forall |i: int, a: int| 0 <= i < xs.len() && #[trigger] vs_must(xs, vf_n as int, i, a) implies has(vf_r.0@, a) by { assert(must(i, a)); }
            assert forall |a: int| #[trigger] has(vf_r.0@, a) implies exists |i: int| 0 <= i < xs.len() && #[trigger] vs_sound(xs, vf_n as int, i, a) by {
                let i = choose |i: int| 0 <= i < xs.len() && #[trigger] sound(i, a);
                assert(vs_sound(xs, vf_n as int, i, a));
            }
            lemma_vec_steps(xs, vf_n as int, vf_r.0@);
            assert(nafn(self) =~= (|x: int| sum_na(xs, x)));
        }
        vf_r
//@-
    }
//@end
}

impl<T: ArrivalSteps> ArrivalSteps for [T] {
    open spec fn steps_ok(&self, n: int) -> bool { vec_steps_ok(self@, n) }
    open spec fn steps_hz(&self, n: int) -> int { vec_hz(self@, n) }
    open spec fn steps_ub(&self, n: int) -> int { vec_ub(self@, n) }
    proof fn steps_hz_unbounded(&self, h: int) -> (n: int) { lemma_vec_hz_unbounded(self@, h) }
    proof fn steps_hz_mono(&self, n1: int, n2: int) { lemma_vec_hz_mono(self@, n1, n2); }
//@item src/arrival/slice.rs :: impl<T: ArrivalBound> ArrivalBound for [T] / fn steps_iter
    fn steps_iter<'a>(&'a self/*+*/, vf_n: usize/*-*/) -> /*+*/(r: /*-*//*@R21: Box<dyn Iterator<Item = Duration> + 'a> @*/VfStream<Duration>/*@.*//*+*/)/*-*/ {
//@+
        let ghost xs = self@;
        let ghost sound = |i: int, a: int| vs_sound(xs, vf_n as int, i, a);
        let ghost must = |i: int, a: int| vs_must(xs, vf_n as int, i, a);
//@-
        /*@R21: Box::new(self.iter().map( @*/let vf_r = VfStream::<Duration>::kmerge_map(self, /*@.*/|ab/*+*/: &T/*-*/| /*+*/-> (r: VfStream<Duration>)
            requires ab.wf(), ab.steps_ok(vf_n as int)
            ensures steps_exact(r.0@, nafn(ab), ab.steps_hz(vf_n as int)), steps_le(r.0@, ab.steps_ub(vf_n as int))
        { /*@probe*/ /*-*/ab.steps_iter(/*+*/vf_n/*-*/)/*+*/ }/*-*//*@R21: ).kmerge() @*/, Ghost(sound), Ghost(must))/*@.*/.dedup()/*@R21: ) @*/;/*@.*/
//@+
        proof {
            assert forall |i: int, a: int| 0 <= i < xs.len() && #[trigger] vs_must(xs, vf_n as int, i, a) implies has(vf_r.0@, a) by { assert(must(i, a)); }
            assert forall |a: int| #[trigger] has(vf_r.0@, a) implies exists |i: int| 0 <= i < xs.len() && #[trigger] vs_sound(xs, vf_n as int, i, a) by {
                let i = choose |i: int| 0 <= i < xs.len() && #[trigger] sound(i, a);
                assert(vs_sound(xs, vf_n as int, i, a));
            }
            lemma_vec_steps(xs, vf_n as int, vf_r.0@);
            assert(nafn(self) =~= (|x: int| sum_na(xs, x)));
        }
        vf_r
//@-
    }
//@end
}

} // verus!
