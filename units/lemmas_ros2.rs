// C19 lemmas for the ROS 2 rr analysis: the result is a function of the supply-bound function and its inverse only
verus! {

/// C19: two supplies with the same SBF and the same inverse give the same rr result
pub proof fn lemma_c19_rr_supply_equiv<S1: SupplyBound + ?Sized, S2: SupplyBound + ?Sized, AB: ArrivalBound + ?Sized, CM: JobCostModel + ?Sized>(
    s1: &S1, s2: &S2, workload: Seq<Callback<AB, CM>>, subchain: Seq<&Callback<AB, CM>>, limit: int)
    requires forall |x: int| x >= 0 ==> #[trigger] s1.sbf(x) == s2.sbf(x), forall |d: int| d >= 0 ==> #[trigger] s1.st(d) == s2.st(d),
             s1.wf(), subchain.len() >= 1, (subchain[subchain.len() - 1]).cost_model.wf()
    ensures rr_spec(s1, workload, subchain, limit) == rr_spec(s2, workload, subchain, limit)
{ /*@lprobe*/
    let eoc = subchain[subchain.len() - 1]; let npp = npp_spec(subchain); let w = w_s(workload, eoc, npp);
    assert forall |x: int| x >= 0 implies #[trigger] sbf_of(s1)(x) == sbf_of(s2)(x) by { assert(s1.sbf(x) == s2.sbf(x)); }
    lemma_scan_ext(sbf_of(s1), sbf_of(s2), 0, w, 0, limit);
    lemma_scan(sbf_of(s1), 0, w, 0, limit);
    if let Some(s_star) = scan(sbf_of(s1), 0, w, 0, limit) {
        let n = eoc.selfint_n(s_star);
        eoc.cost_model.cost_props();
        assert(eoc.cost_model.cost(n) <= eoc.cost_model.cost(n + 1));
        assert(s1.sbf(s_star) == s2.sbf(s_star));
        let dd = sat(s1.sbf(s_star) - 1) + (eoc.cost_model.cost(n + 1) - eoc.cost_model.cost(n));
        assert(s1.st(dd) == s2.st(dd));
    }
}
/// ... in particular a periodic reservation with budget = period and a constrained reservation with budget = deadline = period
/// behave like a dedicated processor
pub proof fn lemma_c19_rr_full_budget<AB: ArrivalBound + ?Sized, CM: JobCostModel + ?Sized>(p: SupplyPeriodic, c: Constrained, workload: Seq<Callback<AB, CM>>, subchain: Seq<&Callback<AB, CM>>, limit: int)
    requires p.budget.v() == p.period.v() >= 1, c.budget.v() == c.deadline.v() == c.period.v() >= 1, subchain.len() >= 1, (subchain[subchain.len() - 1]).cost_model.wf()
    ensures rr_spec(&p, workload, subchain, limit) == rr_spec(&Dedicated {}, workload, subchain, limit),
            rr_spec(&c, workload, subchain, limit) == rr_spec(&Dedicated {}, workload, subchain, limit),
{ /*@lprobe*/
    let dd = Dedicated {};
    assert forall |x: int| x >= 0 implies #[trigger] dd.sbf(x) == p.sbf(x) && dd.sbf(x) == c.sbf(x) by { lemma_full_budget_is_dedicated(p.period.v(), x); lemma_full_budget_is_dedicated(c.period.v(), x); }
    assert forall |d: int| d >= 0 implies #[trigger] dd.st(d) == p.st(d) && dd.st(d) == c.st(d) by { lemma_full_budget_is_dedicated(p.period.v(), d); lemma_full_budget_is_dedicated(c.period.v(), d); }
    lemma_c19_rr_supply_equiv(&dd, &p, workload, subchain, limit);
    lemma_c19_rr_supply_equiv(&dd, &c, workload, subchain, limit);
}

} // verus!
