// unit part: src/fifo/rta.rs (C06)
verus! {

// ---- exhaustive definition (from the property statement): L by linear scan, then the maximum of
//      total_rbf(A + 1) - A over EVERY offset A in [0, L)
pub open spec fn w_fifo(rb: spec_fn(int) -> int) -> spec_fn(int) -> int { |x: int| rb(x) }
pub open spec fn fifo_at(rb: spec_fn(int) -> int, a: int) -> int { rb(a + 1) - a }
pub open spec fn imax(a: int, b: int) -> int { if a >= b { a } else { b } }
pub open spec fn fifo_exh(rb: spec_fn(int) -> int, a: int) -> int
    decreases a
{
    if a <= 0 { 0 } else { imax(fifo_exh(rb, a - 1), fifo_at(rb, a - 1)) }
}
pub open spec fn fifo_spec(rb: spec_fn(int) -> int, limit: int) -> Option<int> {
    match dscan(w_fifo(rb), limit) { None => None, Some(l) => Some(fifo_exh(rb, l)) }
}
/// the pruned fold the code computes: maximum over step offsets only
pub open spec fn fold_steps_max(f: spec_fn(int) -> int, g: spec_fn(int) -> int, a: int) -> int
    decreases a
{
    if a <= 0 { 0 } else if is_step(f, a - 1) { imax(fold_steps_max(f, g, a - 1), g(a - 1)) } else { fold_steps_max(f, g, a - 1) }
}
pub proof fn lemma_fifo_exh_ge(rb: spec_fn(int) -> int, a: int, q: int)
    requires 0 <= q < a
    ensures fifo_exh(rb, a) >= fifo_at(rb, q), fifo_exh(rb, a) >= 0
    decreases a
{
    if q < a - 1 { lemma_fifo_exh_ge(rb, a - 1, q); } else if a - 1 > 0 { lemma_fifo_exh_ge(rb, a - 1, a - 2); }
}
/// C06 (FIFO): pruning to step offsets never alters the maximum
pub proof fn lemma_fifo_prune(rb: spec_fn(int) -> int, a: int)
    requires rbf_like(rb), rb(1) >= 1, a >= 0
    ensures fold_steps_max(rb, |x: int| fifo_at(rb, x), a) == fifo_exh(rb, a)
    decreases a
{
    if a > 0 {
        lemma_fifo_prune(rb, a - 1);
        if !is_step(rb, a - 1) {
            assert(a - 1 >= 1);
            assert(rb(a - 1) <= rb(a));
            // the value at a non-step offset is one less than at the previous offset
            assert(fifo_at(rb, a - 1) == fifo_at(rb, a - 2) - 1);
            lemma_fifo_exh_ge(rb, a - 1, a - 2);
        }
    }
}

/// The FIFO tail: step offsets below `max`, mapped to durations g, `max()` or zero -- is fold_steps_max(f, g, max)
pub proof fn lemma_tail_fold_max(offs: Seq<Offset>, f: spec_fn(int) -> int, hz: int, max: int, tw: Seq<Offset>, rs: Seq<Duration>, g: spec_fn(int) -> int, res: Duration)
    requires
        offsets_exact(offs, f, hz), 0 <= max <= hz, tw_of(tw, offs, max),
        rs.len() == tw.len(), forall |i: int| 0 <= i < tw.len() ==> (#[trigger] rs[i]).v() == g(tw[i].v()),
        rs.len() == 0 ==> res.val == 0,
        rs.len() > 0 ==> (exists |i: int| 0 <= i < rs.len() && res == #[trigger] rs[i]) && forall |k: int| 0 <= k < rs.len() ==> (#[trigger] rs[k]).val <= res.val,
    ensures res.v() == fold_steps_max(f, g, max)
{
    assert forall |a: int| 0 <= a < max && is_step(f, a) implies off_has(tw, a) by {
        assert(off_has(offs, a));
        let i = choose |i: int| 0 <= i < offs.len() && (#[trigger] offs[i]).val == a;
        if i >= tw.len() {
            if tw.len() < i { assert(offs[tw.len() as int].val < offs[i].val); }
            assert(false);
        }
        assert(tw[i].val == a);
    }
    assert forall |i: int| 0 <= i < tw.len() implies 0 <= (#[trigger] tw[i]).val < max && is_step(f, tw[i].v()) by {
        assert(tw[i] == offs[i]);
        assert(off_has(offs, offs[i].v()));
    }
    lemma_fold_steps_max_char(f, g, max);
    let m = fold_steps_max(f, g, max);
    if rs.len() == 0 {
        if m != 0 { let x = choose |x: int| 0 <= x < max && is_step(f, x) && #[trigger] g(x) == m; assert(off_has(tw, x)); }
    } else {
        let i = choose |i: int| 0 <= i < rs.len() && res == #[trigger] rs[i];
        assert(g(tw[i].v()) == res.v());
        assert(res.v() <= m);
        if m > res.v() {
            let x = choose |x: int| 0 <= x < max && is_step(f, x) && #[trigger] g(x) == m;
            assert(off_has(tw, x));
            let k = choose |k: int| 0 <= k < tw.len() && (#[trigger] tw[k]).val == x;
            assert(rs[k].v() == g(x));
        }
    }
}
pub proof fn lemma_fold_steps_max_char(f: spec_fn(int) -> int, g: spec_fn(int) -> int, a: int)
    ensures
        fold_steps_max(f, g, a) >= 0,
        forall |x: int| 0 <= x < a && is_step(f, x) ==> #[trigger] g(x) <= fold_steps_max(f, g, a),
        fold_steps_max(f, g, a) == 0 || exists |x: int| 0 <= x < a && is_step(f, x) && #[trigger] g(x) == fold_steps_max(f, g, a),
    decreases a
{
    if a > 0 {
        lemma_fold_steps_max_char(f, g, a - 1);
        let p = fold_steps_max(f, g, a - 1);
        let m = fold_steps_max(f, g, a);
        assert forall |x: int| 0 <= x < a && is_step(f, x) implies #[trigger] g(x) <= m by { if x < a - 1 { assert(g(x) <= p); } }
        if m != 0 {
            if is_step(f, a - 1) && g(a - 1) > p { assert(g(a - 1) == m); }
            else { assert(m == p); let x = choose |x: int| 0 <= x < a - 1 && is_step(f, x) && #[trigger] g(x) == p; assert(0 <= x < a && is_step(f, x) && g(x) == m); }
        }
    }
}

pub open spec fn pre<A: RequestBound + ?Sized>(rb: &A, limit: int) -> bool {
    &&& 1 <= limit < u64::MAX
    &&& rb.wf()
    &&& rb.rbf(1) >= 1
    &&& forall |d: int| 0 <= d <= limit + 1 ==> #[trigger] rb.rb_ok(d)
}

//@item src/fifo/rta.rs :: fn dedicated_uniproc_rta
pub fn dedicated_uniproc_rta<RBF>(tasks_rbf: &RBF, limit: Duration/*+*/, vf_n: usize/*-*/) -> /*+*/(res: /*-*/fixed_point::SearchResult/*+*/)/*-*/
where
    RBF: /*@R22: RequestBound @*/RequestSteps/*@.*/ + ?Sized,
//@+
    requires pre(tasks_rbf, limit.v()), tasks_rbf.rsteps_ok(vf_n as int), tasks_rbf.rsteps_hz(vf_n as int) >= limit.v()
    ensures res_view(res) == fifo_spec(rbf_fn(tasks_rbf), limit.v())
//@-
{
//@+
    let ghost rb = rbf_fn(tasks_rbf);
    proof {
        lemma_rbf_fn_like(tasks_rbf);
        lemma_ded_is_dedicated();
        assert(mono(w_fifo(rb))) by {
            assert forall |x: int, y: int| 1 <= x <= y implies 0 <= #[trigger] w_fifo(rb)(x) <= #[trigger] w_fifo(rb)(y) by { assert(0 <= rb(x) <= rb(y)); }
        }
    }
//@-
    // This analysis is specific to dedicated uniprocessors.
    let proc = supply::Dedicated::new();

    // First, bound the maximum possible busy-window length.
    let L = fixed_point::search(&proc, limit, |L/*+*/: Duration/*-*/| /*+*/-> (r: Service)
        requires 1 <= L.v() <= limit.v(), pre(tasks_rbf, limit.v())
        ensures r.v() == w_fifo(rbf_fn(tasks_rbf))(L.v())
    { /*@probe*/ /*-*/tasks_rbf.service_needed(L)/*+*/ }/*-*/)?;
//@+
    proof { lemma_scan(ded(), 0, w_fifo(rb), 0, limit.v()); }
//@-

    // Now define the offset-specific RTA.
    let rta = |A: Offset| /*+*/-> (r: Duration)
        requires A.v() < L.v() <= limit.v(), pre(tasks_rbf, limit.v()),
                 dscan(w_fifo(rbf_fn(tasks_rbf)), limit.v()) == Some(L.v())
        ensures r.v() == fifo_at(rbf_fn(tasks_rbf), A.v())
    /*-*/{
//@+
        /*@probe*/
        proof {
            let rb = rbf_fn(tasks_rbf);
            lemma_rbf_fn_like(tasks_rbf);
            lemma_scan(ded(), 0, w_fifo(rb), 0, limit.v());
            // inside the busy window the demand exceeds the elapsed time: rbf(A + 1) >= rbf(A) > A
            if A.v() >= 1 { assert(ded()(0 + A.v()) < w_fifo(rb)(m1(A.v()))); assert(rb(A.v()) <= rb(A.v() + 1)); }
            else { assert(rb(0) <= rb(1)); }
        }
//@-
        // Demand of all tasks
        let total_service = tasks_rbf.service_needed(A.closed_since_time_zero());
        // Extract the corresponding bound.
        Duration::from(total_service) - A.since_time_zero()
    };

    // Third, define the search space. The search space is given by
    // A=0 and each step below L of the task under analysis's RBF.
    // The case of A=0 is not handled explicitly since
    // `step_offsets()` necessarily yields it.
    let max_offset = Offset::from_time_zero(L);
//@+
    let ghost hz = tasks_rbf.rsteps_hz(vf_n as int);
    let ghost tf2 = rbf_fn(&tasks_rbf);
    proof { assert(L.v() <= limit.v()); }
//@-
    let search_space = demand::step_offsets(&tasks_rbf/*+*/, vf_n/*-*/).take_while(|A/*+*/: &Offset/*-*/| /*+*/-> (r: bool) ensures r == (A.v() < max_offset.v()) { /*@probe*/ /*-*/*A < max_offset/*+*/ }, Ghost(|A: Offset| A.v() < max_offset.v())/*-*/);
//@+
    let ghost ss = search_space.0@;
    let ghost mx = max_offset.v();
    // the stream that take_while consumed (an unnamed temporary of the expression above)
    let ghost offs: Seq<Offset> = choose |o: Seq<Offset>| #[trigger] offsets_exact(o, tf2, hz) && tw_of(ss, o, mx);
    let ghost gd = |A: Offset| Duration { val: fifo_at(rb, A.v()) as u64 };
    proof {
        assert(exists |o: Seq<Offset>| #[trigger] offsets_exact(o, tf2, hz) && tw_of(ss, o, mx));
        lemma_offsets_exact_transfer(offs, tf2, rb, hz);
        assert forall |i: int| 0 <= i < search_space.0@.len() implies #[trigger] rta.requires((search_space.0@[i],)) by {
            assert(search_space.0@[i] == offs[i]);
            assert(off_has(offs, offs[i].v()));
        }
    }
//@-

    // Apply the offset-specific RTA to each offset in the search space and
    // return the maximum response-time bound.
    /*@R21: Ok(search_space.map(rta).max().unwrap_or_else(Duration::zero)) @*/let vf_rs = search_space.map_rel(rta);
    let ghost rs = vf_rs.0@;
    let vf_res = match vf_rs.max() { Some(m) => m, None => Duration::zero() };
    proof {
        let g = |x: int| fifo_at(rb, x);
        lemma_tail_fold_max(offs, rb, hz, mx, ss, rs, g, vf_res);
        lemma_fifo_prune(rb, L.v());
    }
    Ok(vf_res)/*@.*/
}
//@end

} // verus!
