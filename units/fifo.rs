// unit part: src/fifo/rta.rs (C06)
verus! {

// ---- exhaustive definition (from the property statement): L by linear scan, then the maximum of
//      total_rbf(A + 1) - A over EVERY offset A in [0, L)
pub open spec fn w_fifo(rb: spec_fn(int) -> int) -> spec_fn(int) -> int { |x: int| rb(x) }
pub open spec fn fifo_at(rb: spec_fn(int) -> int, a: int) -> int { rb(a + 1) - a }
pub open spec fn imax(a: int, b: int) -> int { if a >= b { a } else { b } }
pub open spec fn fifo_exh(rb: spec_fn(int) -> int, a: int) -> int
    decreases a
{
    if a <= 0 { 0 } else { imax(fifo_exh(rb, a - 1), fifo_at(rb, a - 1)) }
}
pub open spec fn fifo_spec(rb: spec_fn(int) -> int, limit: int) -> Option<int> {
    match dscan(w_fifo(rb), limit) { None => None, Some(l) => Some(fifo_exh(rb, l)) }
}
/// the pruned fold the code computes: maximum over step offsets only
pub open spec fn fold_steps_max(f: spec_fn(int) -> int, g: spec_fn(int) -> int, a: int) -> int
    decreases a
{
    if a <= 0 { 0 } else if is_step(f, a - 1) { imax(fold_steps_max(f, g, a - 1), g(a - 1)) } else { fold_steps_max(f, g, a - 1) }
}
pub proof fn lemma_fifo_exh_ge(rb: spec_fn(int) -> int, a: int, q: int)
    requires 0 <= q < a
    ensures fifo_exh(rb, a) >= fifo_at(rb, q), fifo_exh(rb, a) >= 0
    decreases a
{
    if q < a - 1 { lemma_fifo_exh_ge(rb, a - 1, q); } else if a - 1 > 0 { lemma_fifo_exh_ge(rb, a - 1, a - 2); }
}
/// C06 (FIFO): pruning to step offsets never alters the maximum
pub proof fn lemma_fifo_prune(rb: spec_fn(int) -> int, a: int)
    requires rbf_like(rb), rb(1) >= 1, a >= 0
    ensures fold_steps_max(rb, |x: int| fifo_at(rb, x), a) == fifo_exh(rb, a)
    decreases a
{
    if a > 0 {
        lemma_fifo_prune(rb, a - 1);
        if !is_step(rb, a - 1) {
            assert(a - 1 >= 1);
            assert(rb(a - 1) <= rb(a));
            // the value at a non-step offset is one less than at the previous offset
            assert(fifo_at(rb, a - 1) == fifo_at(rb, a - 2) - 1);
            lemma_fifo_exh_ge(rb, a - 1, a - 2);
        }
    }
}

pub open spec fn rta_is_d<F: Fn(Offset) -> Duration>(f: &F, g: spec_fn(int) -> int, max: int) -> bool {
    forall |a: Offset, r: Duration| a.v() < max && #[trigger] f.ensures((a,), r) ==> r.v() == g(a.v())
}
/// R10 (ASSUMED, bounded-checked by Kani on the real function): the FIFO iterator tail
///   `demand::step_offsets(&rb).take_while(|A| *A < max_offset).map(rta).max().unwrap_or_else(Duration::zero)`
#[verifier::external_body]
pub fn vf_tail_max_below<RB: RequestBound + ?Sized, F: Fn(Offset) -> Duration>(rb: &RB, max_offset: Offset, rta: F) -> (res: Duration)
    requires rb.wf(), forall |a: Offset| a.v() < max_offset.v() && is_step(rbf_fn(rb), a.v()) ==> #[trigger] rta.requires((a,))
    ensures forall |g: spec_fn(int) -> int| #[trigger] rta_is_d(&rta, g, max_offset.v()) ==> res.v() == fold_steps_max(rbf_fn(rb), g, max_offset.v())
{ unimplemented!() }

pub open spec fn pre<A: RequestBound + ?Sized>(rb: &A, limit: int) -> bool {
    &&& 1 <= limit < u64::MAX
    &&& rb.wf()
    &&& rb.rbf(1) >= 1
    &&& forall |d: int| 0 <= d <= limit + 1 ==> #[trigger] rb.rb_ok(d)
}

//@item src/fifo/rta.rs :: fn dedicated_uniproc_rta
pub fn dedicated_uniproc_rta<RBF>(tasks_rbf: &RBF, limit: Duration) -> /*+*/(res: /*-*/fixed_point::SearchResult/*+*/)/*-*/
where
    RBF: RequestBound + ?Sized,
//@+
    requires pre(tasks_rbf, limit.v())
    ensures res_view(res) == fifo_spec(rbf_fn(tasks_rbf), limit.v())
//@-
{
//@+
    let ghost rb = rbf_fn(tasks_rbf);
    proof {
        lemma_rbf_fn_like(tasks_rbf);
        lemma_ded_is_dedicated();
        assert(mono(w_fifo(rb))) by {
            assert forall |x: int, y: int| 1 <= x <= y implies 0 <= #[trigger] w_fifo(rb)(x) <= #[trigger] w_fifo(rb)(y) by { assert(0 <= rb(x) <= rb(y)); }
        }
    }
//@-
    // This analysis is specific to dedicated uniprocessors.
    let proc = supply::Dedicated::new();

    // First, bound the maximum possible busy-window length.
    let L = fixed_point::search(&proc, limit, |L/*+*/: Duration/*-*/| /*+*/-> (r: Service)
        requires 1 <= L.v() <= limit.v(), pre(tasks_rbf, limit.v())
        ensures r.v() == w_fifo(rbf_fn(tasks_rbf))(L.v())
    { /*@probe*/ /*-*/tasks_rbf.service_needed(L)/*+*/ }/*-*/)?;
//@+
    proof { lemma_scan(ded(), 0, w_fifo(rb), 0, limit.v()); }
//@-

    // Now define the offset-specific RTA.
    let rta = |A: Offset| /*+*/-> (r: Duration)
        requires A.v() < L.v() <= limit.v(), pre(tasks_rbf, limit.v()),
                 dscan(w_fifo(rbf_fn(tasks_rbf)), limit.v()) == Some(L.v())
        ensures r.v() == fifo_at(rbf_fn(tasks_rbf), A.v())
    /*-*/{
//@+
        /*@probe*/
        proof {
            let rb = rbf_fn(tasks_rbf);
            lemma_rbf_fn_like(tasks_rbf);
            lemma_scan(ded(), 0, w_fifo(rb), 0, limit.v());
            // inside the busy window the demand exceeds the elapsed time: rbf(A + 1) >= rbf(A) > A
            if A.v() >= 1 { assert(ded()(0 + A.v()) < w_fifo(rb)(m1(A.v()))); assert(rb(A.v()) <= rb(A.v() + 1)); }
            else { assert(rb(0) <= rb(1)); }
        }
//@-
        // Demand of all tasks
        let total_service = tasks_rbf.service_needed(A.closed_since_time_zero());
        // Extract the corresponding bound.
        Duration::from(total_service) - A.since_time_zero()
    };

    // Third, define the search space. The search space is given by
    // A=0 and each step below L of the task under analysis's RBF.
    // The case of A=0 is not handled explicitly since
    // `step_offsets()` necessarily yields it.
    let max_offset = Offset::from_time_zero(L);
    /*@R10: let search_space = demand::step_offsets(&tasks_rbf).take_while(|A| *A < max_offset);

    // Apply the offset-specific RTA to each offset in the search space and
    // return the maximum response-time bound.
    Ok(search_space.map(rta).max().unwrap_or_else(Duration::zero)) @*/let vf_res = vf_tail_max_below(tasks_rbf, max_offset, rta);
    proof {
        let g = |x: int| fifo_at(rb, x);
        assert(rta_is_d(&rta, g, max_offset.v()));
        lemma_fifo_prune(rb, L.v());
    }
    Ok(vf_res)/*@.*/
}
//@end

} // verus!
