//@include vx/prelude.rs
//@include units/time.rs
//@include units/speclib_arith.rs
//@include units/vf_helpers.rs
//@include units/supply_trait.rs
//@include units/fixed_point.rs
//@include units/supply_impls.rs
//@include units/arrival_basic.rs
//@include units/wcet.rs
//@include units/demand.rs
//@include units/modules.rs
//@include units/speclib_fp.rs
//@include units/speclib_edf.rs
//@include units/speclib_edfx.rs
//@include units/fifo.rs
//@include units/lemmas_edf.rs
//@include units/lemmas_np_fifo.rs
fn main() {}
