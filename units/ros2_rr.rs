// unit part: src/ros2/rr.rs (C07): Callback methods == Def. 1-3 of the RTSS'21 paper, rta_subchain == Theorem 2 evaluated naively
verus! {

//@item src/ros2/rr.rs :: const EPSILON
/*@R9: const EPSILON: Duration = @*/exec const EPSILON: Duration ensures EPSILON.val == 1 {/*@.*/ Duration::epsilon()/*@R9: ; @*/ }/*@.*/
//@end
//@item src/ros2/rr.rs :: const EPSILON_SERVICE
/*@R9: const EPSILON_SERVICE: Service = @*/exec const EPSILON_SERVICE: Service ensures EPSILON_SERVICE.val == 1 {/*@.*/ Service::in_interval(EPSILON)/*@R9: ; @*/ }/*@.*/
//@end

//@item src/ros2/rr.rs :: struct Callback
pub struct Callback<'a, 'b, AB: ArrivalBound + ?Sized, CM: JobCostModel + ?Sized> {
    /*+*/pub /*-*/response_time_bound: Duration,
    /*+*/pub /*-*/arrival_bound: &'a AB,
    /*+*/pub /*-*/cost_model: &'b CM,
    /*+*/pub /*-*/kind: CallbackType,
}
//@end

impl<'a, 'b, AB: ArrivalBound + ?Sized, CM: JobCostModel + ?Sized> Callback<'a, 'b, AB, CM> {
    pub open spec fn arrived(&self, delta: int) -> int { self.arrival_bound.na(sat(delta + self.response_time_bound.v() - 1)) }
    /// Def. 1: direct interference bound
    pub open spec fn direct_spec(&self, interfered: CallbackType, delta: int, npp: int) -> int { self.cost_model.cost(direct_n(self.kind, interfered, self.arrived(delta), npp)) }
    /// Def. 2: number of self-interfering instances
    pub open spec fn selfint_n(&self, delta: int) -> int { sat(self.arrived(delta) - 1) }
    /// Def. 3: polling-point bound
    pub open spec fn ppb(&self) -> int { self.arrival_bound.na(self.response_time_bound.v()) }
    /// well-formedness and magnitude envelope for all queries up to `limit`
    pub open spec fn ok(&self, limit: int) -> bool {
        &&& self.arrival_bound.wf() && self.cost_model.wf()
        &&& limit + self.response_time_bound.v() <= u64::MAX
        &&& forall |d: int| 0 <= d <= limit + self.response_time_bound.v() ==> #[trigger] self.arrival_bound.na_ok(d)
        &&& self.arrival_bound.na(limit + self.response_time_bound.v()) < usize::MAX
        &&& self.cost_model.cost(self.arrival_bound.na(limit + self.response_time_bound.v()) + 1) <= u64::MAX
    }
    pub proof fn lemma_ok_down(&self, limit: int, d: int)
        requires self.ok(limit), 0 <= d <= limit
        ensures self.ok(d), 0 <= self.arrived(d) <= self.arrival_bound.na(limit + self.response_time_bound.v()),
                forall |n: int| 0 <= n <= self.arrival_bound.na(limit + self.response_time_bound.v()) + 1 ==> 0 <= #[trigger] self.cost_model.cost(n) <= u64::MAX
    {
        self.arrival_bound.na_props(); self.cost_model.cost_props();
        let r = self.response_time_bound.v();
        assert(self.arrival_bound.na(d + r) <= self.arrival_bound.na(limit + r));
        assert(self.cost_model.cost(self.arrival_bound.na(d + r) + 1) <= self.cost_model.cost(self.arrival_bound.na(limit + r) + 1));
        assert(self.arrival_bound.na(sat(d + r - 1)) <= self.arrival_bound.na(limit + r));
        assert forall |n: int| 0 <= n <= self.arrival_bound.na(limit + r) + 1 implies 0 <= #[trigger] self.cost_model.cost(n) <= u64::MAX by {
            assert(self.cost_model.cost(n) <= self.cost_model.cost(self.arrival_bound.na(limit + r) + 1));
        }
    }

//@item src/ros2/rr.rs :: impl<'a, 'b, AB: ArrivalBound + ?Sized, CM: JobCostModel + ?Sized> Callback<'a, 'b, AB, CM> / fn new
    pub fn new(
        response_time_bound: Duration,
        arrival_bound: &'a AB,
        cost_model: &'b CM,
        kind: CallbackType,
    ) -> /*+*/(r: /*-*/Callback<'a, 'b, AB, CM>/*+*/)
        ensures r.response_time_bound == response_time_bound, r.arrival_bound == arrival_bound, r.cost_model == cost_model, r.kind == kind/*-*/ {
        Callback {
            response_time_bound,
            arrival_bound,
            cost_model,
            kind,
        }
    }
//@end

//@item src/ros2/rr.rs :: impl<'a, 'b, AB: ArrivalBound + ?Sized, CM: JobCostModel + ?Sized> Callback<'a, 'b, AB, CM> / fn direct_rbf
    fn direct_rbf(
        &self,
        interfered_with: &CallbackType,
        delta: Duration,
        num_polling_points: usize,
    ) -> /*+*/(r: /*-*/Service/*+*/)
        requires self.ok(delta.v()), num_polling_points < usize::MAX
        ensures r.v() == self.direct_spec(*interfered_with, delta.v(), num_polling_points as int)/*-*/ {
//@+
        proof { self.lemma_ok_down(delta.v(), delta.v()); assert(self.arrival_bound.na_ok(sat(delta.v() + self.response_time_bound.v() - 1))); }
//@-
        let effective_interval = (delta + self.response_time_bound).saturating_sub(EPSILON);
        let arrived = self.arrival_bound.number_arrivals(effective_interval);
        let n = match self.kind {
            CallbackType::Timer | CallbackType::EventSource => arrived,
            CallbackType::PolledUnknownPrio => /*@R12: arrived.min( @*/vf_usize_min(arrived, /*@.*/num_polling_points + 1),
            CallbackType::Polled(inf_prio) => match *interfered_with {
                CallbackType::Polled(ref_prio) => /*@R12: arrived.min( @*/vf_usize_min(arrived, /*@.*/
                    num_polling_points
                        + is_higher_callback_priority_than(inf_prio, ref_prio) as usize,
                ),
                _ => /*@R12: arrived.min( @*/vf_usize_min(arrived, /*@.*/num_polling_points + 1),
            },
        };
        self.cost_model.cost_of_jobs(n)
    }
//@end

//@item src/ros2/rr.rs :: impl<'a, 'b, AB: ArrivalBound + ?Sized, CM: JobCostModel + ?Sized> Callback<'a, 'b, AB, CM> / fn max_self_interfering_instances
    fn max_self_interfering_instances(&self, delta: Duration) -> /*+*/(r: /*-*/usize/*+*/)
        requires self.ok(delta.v())
        ensures r == self.selfint_n(delta.v())/*-*/ {
//@+
        proof { self.lemma_ok_down(delta.v(), delta.v()); assert(self.arrival_bound.na_ok(sat(delta.v() + self.response_time_bound.v() - 1))); }
//@-
        let effective_interval = (delta + self.response_time_bound).saturating_sub(EPSILON);
        self.arrival_bound
            .number_arrivals(effective_interval)
            .saturating_sub(1)
    }
//@end

//@item src/ros2/rr.rs :: impl<'a, 'b, AB: ArrivalBound + ?Sized, CM: JobCostModel + ?Sized> Callback<'a, 'b, AB, CM> / fn self_interference_rbf
    fn self_interference_rbf(&self, delta: Duration) -> /*+*/(r: /*-*/Service/*+*/)
        requires self.ok(delta.v())
        ensures r.v() == self.cost_model.cost(self.selfint_n(delta.v()))/*-*/ {
//@+
        proof { self.lemma_ok_down(delta.v(), delta.v()); }
//@-
        self.cost_model
            .cost_of_jobs(self.max_self_interfering_instances(delta))
    }
//@end

//@item src/ros2/rr.rs :: impl<'a, 'b, AB: ArrivalBound + ?Sized, CM: JobCostModel + ?Sized> Callback<'a, 'b, AB, CM> / fn marginal_execution_cost
    fn marginal_execution_cost(&self, delta: Duration) -> /*+*/(r: /*-*/Service/*+*/)
        requires self.ok(delta.v())
        ensures r.v() == self.cost_model.cost(self.selfint_n(delta.v()) + 1) - self.cost_model.cost(self.selfint_n(delta.v()))/*-*/ {
//@+
        proof { self.lemma_ok_down(delta.v(), delta.v()); self.cost_model.cost_props(); assert(self.cost_model.cost(self.selfint_n(delta.v())) <= self.cost_model.cost(self.selfint_n(delta.v()) + 1)); }
//@-
        let n = self.max_self_interfering_instances(delta);
        self.cost_model.cost_of_jobs(n + 1) - self.cost_model.cost_of_jobs(n)
    }
//@end

//@item src/ros2/rr.rs :: impl<'a, 'b, AB: ArrivalBound + ?Sized, CM: JobCostModel + ?Sized> Callback<'a, 'b, AB, CM> / fn polling_point_bound
    fn polling_point_bound(&self) -> /*+*/(r: /*-*/usize/*+*/)
        requires self.ok(0)
        ensures r == self.ppb()/*-*/ {
        self.arrival_bound.number_arrivals(self.response_time_bound)
    }
//@end

//@item src/ros2/rr.rs :: impl<'a, 'b, AB: ArrivalBound + ?Sized, CM: JobCostModel + ?Sized> Callback<'a, 'b, AB, CM> / fn subchain_polling_point_bound
    fn subchain_polling_point_bound(subchain: &[&Callback<AB, CM>]) -> /*+*/(r: /*-*/usize/*+*/)
        requires forall |i: int| 0 <= i < subchain@.len() ==> (#[trigger] subchain@[i]).ok(0), npp_spec(subchain@) <= usize::MAX
        ensures r == npp_spec(subchain@)/*-*/ {
//@+
        proof { let g = ppb_at(subchain@); assert forall |i: int| 0 <= i < subchain@.len() implies #[trigger] g(i) >= 0 by { subchain@[i].arrival_bound.na_props(); } }
//@-
        /*@R1: subchain.iter().map( @*/vf_sum_usize_idx(subchain, /*@.*/|cb/*+*/: &&Callback<AB, CM>/*-*/| /*+*/-> (n: usize) requires cb.ok(0) ensures n == cb.ppb() { /*-*/cb.polling_point_bound()/*+*/ }/*-*//*@R1: ).sum() @*/, Ghost(ppb_at(subchain@)))/*@.*/
    }
//@end
}

// ---- Theorem 2, evaluated naively
pub open spec fn ppb_at<AB: ArrivalBound + ?Sized, CM: JobCostModel + ?Sized>(subchain: Seq<&Callback<AB, CM>>) -> spec_fn(int) -> int { |i: int| subchain[i].ppb() }
pub open spec fn npp_spec<AB: ArrivalBound + ?Sized, CM: JobCostModel + ?Sized>(subchain: Seq<&Callback<AB, CM>>) -> int { sum_idx(subchain.len() as int, ppb_at(subchain)) }
pub open spec fn di_at<AB: ArrivalBound + ?Sized, CM: JobCostModel + ?Sized>(workload: Seq<Callback<AB, CM>>, eoc: &Callback<AB, CM>, npp: int, x: int) -> spec_fn(int) -> int {
    |i: int| if same_obj(eoc, &workload[i]) { 0 } else { workload[i].direct_spec(eoc.kind, x, npp) }
}
/// start-time inequality: eps + direct interference of everything but the end of the chain + self-interference
pub open spec fn w_s<AB: ArrivalBound + ?Sized, CM: JobCostModel + ?Sized>(workload: Seq<Callback<AB, CM>>, eoc: &Callback<AB, CM>, npp: int) -> spec_fn(int) -> int {
    |x: int| 1 + sum_idx(workload.len() as int, di_at(workload, eoc, npp, x)) + eoc.cost_model.cost(eoc.selfint_n(x))
}
/// C07: S* by linear scan over the supply-bound function, then R* = st(sbf(S*) -sat 1 + Omega)
pub open spec fn rr_spec<SBF: SupplyBound + ?Sized, AB: ArrivalBound + ?Sized, CM: JobCostModel + ?Sized>(
    supply: &SBF, workload: Seq<Callback<AB, CM>>, subchain: Seq<&Callback<AB, CM>>, limit: int) -> Option<int>
{
    let eoc = subchain[subchain.len() - 1];
    let npp = npp_spec(subchain);
    match scan(sbf_of(supply), 0, w_s(workload, eoc, npp), 0, limit) {
        None => None,
        Some(s_star) => {
            let n = eoc.selfint_n(s_star);
            let omega = eoc.cost_model.cost(n + 1) - eoc.cost_model.cost(n);
            Some(supply.st(sat(supply.sbf(s_star) - 1) + omega))
        }
    }
}
pub open spec fn rr_dmax<AB: ArrivalBound + ?Sized, CM: JobCostModel + ?Sized>(workload: Seq<Callback<AB, CM>>, subchain: Seq<&Callback<AB, CM>>, limit: int) -> int {
    let eoc = subchain[subchain.len() - 1];
    let a = limit + eoc.cost_model.cost(eoc.arrival_bound.na(limit + eoc.response_time_bound.v()) + 1);
    let b = w_s(workload, eoc, npp_spec(subchain))(limit);
    if a >= b { a } else { b }
}
pub open spec fn rr_pre<SBF: SupplyBound + ?Sized, AB: ArrivalBound + ?Sized, CM: JobCostModel + ?Sized>(
    supply: &SBF, workload: Seq<Callback<AB, CM>>, subchain: Seq<&Callback<AB, CM>>, limit: int) -> bool
{
    &&& supply.wf() && limit >= 1
    &&& subchain.len() >= 1
    &&& forall |i: int| 0 <= i < workload.len() ==> (#[trigger] workload[i]).ok(limit)
    &&& forall |i: int| 0 <= i < subchain.len() ==> (#[trigger] subchain[i]).ok(limit)
    &&& npp_spec(subchain) < usize::MAX
    &&& forall |x: int| 0 <= x <= limit ==> #[trigger] w_s(workload, subchain[subchain.len() - 1], npp_spec(subchain))(x) <= u64::MAX
    // magnitude envelope of the supply: every demand that can occur (at most limit + the largest cost of the end of the
    // chain, resp. the start-time demand) has a service time within u64 and within ps_ok
    &&& forall |d: int| 0 <= d <= rr_dmax(workload, subchain, limit) ==> #[trigger] supply.st(d) <= u64::MAX && supply.ps_ok(supply.st(d))
    &&& forall |t: int| 0 <= t <= limit ==> #[trigger] supply.ps_ok(t)
    &&& limit + subchain[subchain.len() - 1].cost_model.cost(subchain[subchain.len() - 1].arrival_bound.na(limit + subchain[subchain.len() - 1].response_time_bound.v()) + 1) <= u64::MAX
}
pub proof fn lemma_w_s_mono<AB: ArrivalBound + ?Sized, CM: JobCostModel + ?Sized>(workload: Seq<Callback<AB, CM>>, eoc: &Callback<AB, CM>, npp: int, limit: int)
    requires npp >= 0, eoc.ok(limit), forall |i: int| 0 <= i < workload.len() ==> (#[trigger] workload[i]).ok(limit)
    ensures mono(w_s(workload, eoc, npp))
{
    assert forall |x: int, y: int| 1 <= x <= y implies 0 <= #[trigger] w_s(workload, eoc, npp)(x) <= #[trigger] w_s(workload, eoc, npp)(y) by {
        eoc.arrival_bound.na_props(); eoc.cost_model.cost_props();
        assert(eoc.arrived(x) <= eoc.arrived(y));
        let gx = di_at(workload, eoc, npp, x); let gy = di_at(workload, eoc, npp, y);
        assert forall |i: int| 0 <= i < workload.len() implies 0 <= #[trigger] gx(i) <= gy(i) by {
            assert(workload[i].ok(limit));
            workload[i].arrival_bound.na_props(); workload[i].cost_model.cost_props();
            assert(0 <= workload[i].arrived(x) <= workload[i].arrived(y));
            assert(0 <= direct_n(workload[i].kind, eoc.kind, workload[i].arrived(x), npp) <= direct_n(workload[i].kind, eoc.kind, workload[i].arrived(y), npp));
        }
        lemma_sum_idx_mono(workload.len() as int, gx, gy);
    }
}

//@item src/ros2/rr.rs :: fn rta_subchain
pub fn rta_subchain<SBF, AB, CM>(
    supply: &SBF,
    workload: &[Callback<AB, CM>],
    subchain: &[&Callback<AB, CM>],
    limit: Duration,
) -> /*+*/(res: /*-*/fixed_point::SearchResult/*+*/)/*-*/
where
    SBF: SupplyBound + ?Sized,
    AB: ArrivalBound + ?Sized,
    CM: JobCostModel + ?Sized,
//@+
    requires rr_pre(supply, workload@, subchain@, limit.v())
    ensures res_view(res) == rr_spec(supply, workload@, subchain@, limit.v())
//@-
{
    // callback at the end of the chain under analysis
    let eoc = subchain.last().expect("subchain must not be empty");

    // check that we are actually given a proper subchain, i.e., all references
    // in the subchain must point to something in the workload
    /*@R7: debug_assert!(
        subchain
            .iter()
            .all(|sc_cb| workload.iter().any(|wl_cb| std::ptr::eq(*sc_cb, wl_cb))),
        "subchain not wholly part of workload"
    ); @*//*@.*/

    // Step 1: find the fixed point S*.

//@+
    proof {
        assert forall |i: int| 0 <= i < subchain@.len() implies (#[trigger] subchain@[i]).ok(0) by { subchain@[i].lemma_ok_down(limit.v(), 0); }
        let g0 = |i: int| 0int; let g1 = ppb_at(subchain@);
        assert forall |i: int| 0 <= i < subchain@.len() implies 0 <= #[trigger] g0(i) <= g1(i) by { subchain@[i].arrival_bound.na_props(); }
        lemma_sum_idx_mono(subchain@.len() as int, g0, g1);
    }
//@-
    // compute a bound on the maximum number of polling points in the analysis window
    let max_num_polling_points = Callback::subchain_polling_point_bound(subchain);

    let rhs_S_star = |s_star: Duration| /*+*/-> (r: Service)
        requires 1 <= s_star.v() <= limit.v(), rr_pre(supply, workload@, subchain@, limit.v()), max_num_polling_points == npp_spec(subchain@), *eoc == subchain@[subchain@.len() - 1]
        ensures r.v() == w_s(workload@, *eoc, npp_spec(subchain@))(s_star.v())
    /*-*/{ /*@probe*/
//@+
        proof {
            let gg = di_at(workload@, *eoc, npp_spec(subchain@), s_star.v());
            assert forall |i: int| 0 <= i < workload@.len() implies #[trigger] gg(i) >= 0 by {
                workload@[i].lemma_ok_down(limit.v(), s_star.v()); workload@[i].arrival_bound.na_props();
                let c = workload@[i];
                assert(0 <= direct_n(c.kind, eoc.kind, c.arrived(s_star.v()), npp_spec(subchain@)) <= c.arrival_bound.na(limit.v() + c.response_time_bound.v()) + 1);
            }
            let e = *eoc; e.lemma_ok_down(limit.v(), s_star.v()); e.cost_model.cost_props();
            assert(e.cost_model.cost(e.selfint_n(s_star.v())) >= 0);
            assert(w_s(workload@, e, npp_spec(subchain@))(s_star.v()) <= u64::MAX);
        }
//@-
        let di = /*@R1: workload
            .iter()
            .map( @*/vf_sum_service_idx(workload, /*@.*/|cb/*+*/: &Callback<AB, CM>/*-*/| /*+*/-> (s: Service)
                requires s_star.v() <= limit.v(), cb.ok(limit.v()), max_num_polling_points < usize::MAX
                ensures s.v() == (if same_obj(*eoc, cb) { 0 } else { cb.direct_spec(eoc.kind, s_star.v(), max_num_polling_points as int) })
            /*-*/{
                if /*@R8: std::ptr::eq @*/vf_ptr_eq/*@.*/(*eoc, cb) {
                    // Don't count the end of the chain, which is
                    // accounted for as self-interference.
                    Service::none()
                } else {
//@+
                    proof { cb.lemma_ok_down(limit.v(), s_star.v()); }
//@-
                    cb.direct_rbf(&eoc.kind, s_star, max_num_polling_points)
                }
            }/*@R1: )
            .sum() @*/, Ghost(di_at(workload@, *eoc, npp_spec(subchain@), s_star.v())))/*@.*/;
        let si = eoc.self_interference_rbf(s_star);
        EPSILON_SERVICE + di + si
    };

//@+
    proof {
        lemma_w_s_mono(workload@, *eoc, npp_spec(subchain@), limit.v());
        assert(clo_is(&rhs_S_star, w_s(workload@, *eoc, npp_spec(subchain@))));
        lemma_scan(sbf_of(supply), 0, w_s(workload@, *eoc, npp_spec(subchain@)), 0, limit.v());
    }
//@-
    let S_star = fixed_point::search(supply, limit, rhs_S_star)?;

    // Step 2: find the response-time bound R*.

//@+
    proof { let e = *eoc; e.lemma_ok_down(limit.v(), S_star.v()); e.cost_model.cost_props(); }
//@-
    let supply_star = supply.provided_service(S_star);
    let omega = eoc.marginal_execution_cost(S_star);
//@+
    proof {
        let e = *eoc; assert(omega.v() <= e.cost_model.cost(e.selfint_n(S_star.v()) + 1));
        supply.sbf_props(); assert(supply.sbf(S_star.v()) <= supply.sbf(0) + (S_star.v() - 0));
        assert(e.cost_model.cost(e.selfint_n(S_star.v()) + 1) <= e.cost_model.cost(e.arrival_bound.na(limit.v() + e.response_time_bound.v()) + 1));
    }
//@-
    let rhs_R_star = supply_star.saturating_sub(EPSILON_SERVICE) + omega;

    // we can directly solve the inequality
    Ok(supply.service_time(rhs_R_star))
}
//@end

} // verus!
