// unit part: src/edf/fully_nonpreemptive.rs (C06)
verus! {

//@item src/edf/fully_nonpreemptive.rs :: struct Task
pub struct Task<'a, AB: ArrivalBound + ?Sized> {
    /// The task's WCET.
    pub wcet: wcet::Scalar,

    /// The task's arrival bound.
    pub arrivals: &'a AB,

    /// The task's relative deadline.
    pub deadline: Duration,
}
//@end
//@item src/edf/fully_nonpreemptive.rs :: type TaskUnderAnalysis
pub type TaskUnderAnalysis<'a, T> = Task<'a, T>;
//@end
//@item src/edf/fully_nonpreemptive.rs :: type InterferingTask
pub type InterferingTask<'a, T> = Task<'a, T>;
//@end

impl<'a, AB: ArrivalBound + ?Sized> Task<'a, AB> {
//@item src/edf/fully_nonpreemptive.rs :: impl<'a, AB: ArrivalBound + ?Sized> Task<'a, AB> / fn rbf
    fn rbf(&self) -> /*+*/(r: /*-*//*@R11: impl RequestBound + '_ @*/demand::RBF<&'a AB, wcet::Scalar>/*@.*//*+*/)
        ensures r.wcet == self.wcet, r.arrival_bound == self.arrivals/*-*/ {
        demand::RBF::new(self.arrivals, self.wcet)
    }
//@end
}

/// std::cmp::min on Duration (R12: Ord::min of the derived Ord)
pub fn vf_min(a: Duration, b: Duration) -> (r: Duration) ensures r.v() == imin(a.v(), b.v()) { if a.val <= b.val { a } else { b } }

/// R1: `other_tasks.iter().map(Task::rbf).collect()` as a verified loop calling the real Task::rbf
pub fn vf_collect_rbfs<'a, AB: ArrivalBound + ?Sized>(ots: &[Task<'a, AB>]) -> (r: Vec<demand::RBF<&'a AB, wcet::Scalar>>)
    ensures r@.len() == ots@.len(), forall |i: int| 0 <= i < ots@.len() ==> (#[trigger] r@[i]).wcet == ots@[i].wcet && r@[i].arrival_bound == ots@[i].arrivals
{
    let mut v: Vec<demand::RBF<&'a AB, wcet::Scalar>> = Vec::new();
    let mut i: usize = 0;
    while i < ots.len()
        invariant i <= ots@.len(), v@.len() == i, forall |k: int| 0 <= k < i ==> (#[trigger] v@[k]).wcet == ots@[k].wcet && v@[k].arrival_bound == ots@[k].arrivals
        decreases ots@.len() - i
    {
        v.push(ots[i].rbf());
        i = i + 1;
    }
    v
}

pub open spec fn tf_of<A: ArrivalBound + ?Sized>(t: &Task<A>) -> spec_fn(int) -> int { tua_fn(t.wcet.wcet.v(), t.arrivals) }
pub open spec fn otx_of<B: ArrivalBound + ?Sized>(ot: Seq<Task<B>>) -> Seq<OTX> { Seq::new(ot.len(), |i: int| OTX { f: tua_fn(ot[i].wcet.wcet.v(), ot[i].arrivals), dl: ot[i].deadline.v(), seg: ot[i].wcet.wcet.v() }) }
pub open spec fn task_ok<B: ArrivalBound + ?Sized>(t: &Task<B>, limit: int) -> bool {
    &&& t.arrivals.wf() && t.wcet.wcet.v() >= 1
    &&& forall |d: int| 0 <= d <= limit + 1 ==> #[trigger] t.arrivals.na_ok(d)
    &&& t.arrivals.na(limit + 1) <= usize::MAX
    &&& t.wcet.wcet.v() * t.arrivals.na(limit + 1) <= u64::MAX
}
pub open spec fn pre<A: ArrivalBound + ?Sized, B: ArrivalBound + ?Sized>(tua: &Task<A>, ot: Seq<Task<B>>, limit: int) -> bool {
    &&& 1 <= limit && limit + tua.wcet.wcet.v() < u64::MAX
    &&& task_ok(tua, limit) && forall |i: int| 0 <= i < ot.len() ==> task_ok(&#[trigger] ot[i], limit)
    &&& tua.arrivals.na(1) >= 1
    &&& tua.deadline.v() + limit + 1 <= u64::MAX
    &&& forall |i: int| 0 <= i < ot.len() ==> (#[trigger] ot[i]).wcet.wcet.v() + sum_f(to_ots(otx_of(ot)), arg_bw(limit)) + tf_of(tua)(limit + 1) <= u64::MAX
    &&& sum_f(to_ots(otx_of(ot)), arg_bw(limit)) + tf_of(tua)(limit + 1) <= u64::MAX
}
/// C06 for fully non-preemptive EDF: offset-dependent blocking (C_o - 1), rtct = eps, remaining cost C - 1
pub open spec fn spec_result<A: ArrivalBound + ?Sized, B: ArrivalBound + ?Sized>(tua: &Task<A>, ot: Seq<Task<B>>, limit: int) -> Option<int> {
    edfx_spec(tf_of(tua), tua.deadline.v(), otx_of(ot), tua.wcet.wcet.v() - 1, limit)
}
pub proof fn lemma_otx_wf<B: ArrivalBound + ?Sized>(ot: Seq<Task<B>>, limit: int)
    requires forall |i: int| 0 <= i < ot.len() ==> task_ok(&#[trigger] ot[i], limit)
    ensures otx_wf(otx_of(ot)), ots_wf(to_ots(otx_of(ot)))
{
    assert forall |i: int| 0 <= i < otx_of(ot).len() implies rbf_like(#[trigger] otx_of(ot)[i].f) by { assert(task_ok(&ot[i], limit)); lemma_tua_fn0(ot[i].wcet.wcet.v(), ot[i].arrivals); }
    lemma_to_ots_wf(otx_of(ot));
}
/// rbf_like without the "a job arrives" assumption (for the other tasks)
pub proof fn lemma_tua_fn0<AB: ArrivalBound + ?Sized>(c: int, ab: &AB)
    requires c >= 1, ab.wf()
    ensures rbf_like(tua_fn(c, ab))
{
    ab.na_props();
    assert(c * 0 == 0) by { lemma_mul_basics(c); }
    assert forall |a: int, b: int| 0 <= a <= b implies 0 <= #[trigger] tua_fn(c, ab)(a) <= #[trigger] tua_fn(c, ab)(b) by {
        lemma_mul_nonnegative(c, ab.na(a));
        lemma_mul_inequality(ab.na(a), ab.na(b), c); lemma_mul_is_commutative(c, ab.na(a)); lemma_mul_is_commutative(c, ab.na(b));
    }
}

/// the observation of the step streams covers every offset the search can reach (and the eager reading of the shift does not overflow)
pub open spec fn pre_steps_ot<B: ArrivalSteps + ?Sized>(ot: &Task<B>, dl: int, max: int, n: int) -> bool {
    ot.arrivals.steps_ok(n) && ot.arrivals.steps_hz(n) >= max + dl && ot.arrivals.steps_ub(n) + ot.deadline.v() <= u64::MAX
}
pub open spec fn pre_steps<A: ArrivalSteps + ?Sized, B: ArrivalSteps + ?Sized>(tua: &Task<A>, ot: Seq<Task<B>>, limit: int, n: int) -> bool {
    &&& tua.arrivals.steps_ok(n) && tua.arrivals.steps_hz(n) >= limit
    &&& forall |i: int| 0 <= i < ot.len() ==> pre_steps_ot(&#[trigger] ot[i], tua.deadline.v(), limit, n)
}


pub proof fn lemma_blk_le_seg<B: ArrivalBound + ?Sized>(ot: Seq<Task<B>>, dl: int, a: int, bound: int)
    requires bound >= 0, forall |i: int| 0 <= i < ot.len() ==> (#[trigger] ot[i]).wcet.wcet.v() <= bound
    ensures 0 <= blk(otx_of(ot), dl, a) <= bound
{
    let otx = otx_of(ot);
    lemma_max_sel_nonneg(otx.len() as int, blk_sel(otx, dl, a), blk_val(otx));
    assert forall |i: int| 0 <= i < otx.len() implies #[trigger] blk_val(otx)(i) <= bound by { assert(ot[i].wcet.wcet.v() <= bound); }
    lemma_max_sel_le(otx.len() as int, blk_sel(otx, dl, a), blk_val(otx), bound);
}
/// facts about one other task needed to call its RBF at an argument <= limit + 1
pub proof fn lemma_task_rb<B: ArrivalBound + ?Sized>(t: &Task<B>, limit: int, x: int)
    requires task_ok(t, limit), 0 <= x <= limit + 1
    ensures t.arrivals.na_ok(x), 0 <= tf_of(t)(x) <= t.wcet.wcet.v() * t.arrivals.na(limit + 1)
{
    t.arrivals.na_props();
    let c = t.wcet.wcet.v();
    assert(0 <= t.arrivals.na(x) <= t.arrivals.na(limit + 1));
    lemma_mul_nonnegative(c, t.arrivals.na(x));
    lemma_mul_inequality(t.arrivals.na(x), t.arrivals.na(limit + 1), c); lemma_mul_is_commutative(c, t.arrivals.na(x)); lemma_mul_is_commutative(c, t.arrivals.na(limit + 1));
}

//@item src/edf/fully_nonpreemptive.rs :: fn dedicated_uniproc_rta
pub fn dedicated_uniproc_rta<AB1, AB2>(
    tua: &TaskUnderAnalysis<AB1>,
    other_tasks: &[InterferingTask<AB2>],
    limit: Duration,
/*+*/vf_n: usize,/*-*/
) -> /*+*/(res: /*-*/fixed_point::SearchResult/*+*/)/*-*/
where
    AB1: /*@R22: ArrivalBound @*/ArrivalSteps/*@.*/ + ?Sized,
    AB2: /*@R22: ArrivalBound @*/ArrivalSteps/*@.*/ + ?Sized,
//@+
    requires pre(tua, other_tasks@, limit.v()), pre_steps(tua, other_tasks@, limit.v(), vf_n as int)
    ensures res_view(res) == spec_result(tua, other_tasks@, limit.v())
//@-
{
    // This analysis is specific to dedicated uniprocessors.
    let proc = supply::Dedicated::new();

    // For convenience, define the RBFs for the task under analysis...
    let task_under_analysis = tua.rbf();
    // ...and for the interfering tasks.
    let rbfs: Vec<_> = /*@R1: other_tasks.iter().map(Task::rbf).collect() @*/vf_collect_rbfs(other_tasks)/*@.*/;
//@+
    let ghost tf = tf_of(tua);
    let ghost dl = tua.deadline.v();
    let ghost otx = otx_of(other_tasks@);
    let ghost rem = tua.wcet.wcet.v() - 1;
    proof {
        lemma_tua_fn(tua.wcet.wcet.v(), tua.arrivals); lemma_otx_wf(other_tasks@, limit.v());
        lemma_edf_w_mono(tf, dl, to_ots(otx), 0);
        lemma_ded_is_dedicated();
    }
//@-

    // First, bound the maximum possible busy-window length.
    let L = fixed_point::search(&proc, limit, |L/*+*/: Duration/*-*/| /*+*/-> (r: Service)
        requires 1 <= L.v() <= limit.v(), pre(tua, other_tasks@, limit.v()),
                 task_under_analysis.wcet == tua.wcet, task_under_analysis.arrival_bound == tua.arrivals,
                 rbfs@.len() == other_tasks@.len(), forall |i: int| 0 <= i < other_tasks@.len() ==> (#[trigger] rbfs@[i]).wcet == other_tasks@[i].wcet && rbfs@[i].arrival_bound == other_tasks@[i].arrivals
        ensures r.v() == edf_w_bw(tf_of(tua), to_ots(otx_of(other_tasks@)))(L.v())
    /*-*/{ /*@probe*/
//@+
        proof {
            lemma_tua_fn(tua.wcet.wcet.v(), tua.arrivals); lemma_otx_wf(other_tasks@, limit.v());
            lemma_sum_f_mono(to_ots(otx_of(other_tasks@)), arg_bw(L.v()), arg_bw(limit.v()));
            let tf0 = tf_of(tua);
            assert(0 <= tf0(0) <= tf0(limit.v() + 1));
            let gg = ot_term(to_ots(otx_of(other_tasks@)), arg_bw(L.v()));
            assert forall |i: int| #![trigger rbfs@[i]] #![trigger gg(i)] 0 <= i < rbfs@.len() implies gg(i) >= 0 && rbfs@[i].wf() && rbfs@[i].rb_ok(L.v()) && rbfs@[i].rbf(L.v()) == gg(i) by {
                assert(task_ok(&other_tasks@[i], limit.v())); lemma_task_rb(&other_tasks@[i], limit.v(), L.v());
            }
        }
//@-
        let interference_bound: Service = /*@R1: rbfs.iter().map( @*/vf_sum_service_idx(rbfs.as_slice(), /*@.*/|rbf/*+*/: &demand::RBF<&AB2, wcet::Scalar>/*-*/| /*+*/-> (r: Service) requires rbf.wf(), rbf.rb_ok(L.v()) ensures r.v() == rbf.rbf(L.v()) { /*-*/rbf.service_needed(L)/*+*/ }/*-*//*@R1: ).sum() @*/, Ghost(ot_term(to_ots(otx_of(other_tasks@)), arg_bw(L.v()))))/*@.*/;
//@+
        proof {
            let tf0 = tf_of(tua);
            assert(tf0(L.v()) <= tf0(limit.v() + 1));
            lemma_task_rb(tua, limit.v(), L.v());
            assert(task_under_analysis.rbf(L.v()) == tf0(L.v()));
        }
//@-
        interference_bound + task_under_analysis.service_needed(L)
    })?;
//@+
    proof { lemma_scan(ded(), 0, edf_w_bw(tf, to_ots(otx)), 0, limit.v()); }
//@-

    // Second, define the RTA for a given offset A. To this end, we
    // first define some components of the fixed-point equation.

    // The run-to-completion threshold of the task under analysis. In
    // the fully non-preemptive model, no job can be preempted prior to
    // its completion. In other words, once a job starts running, it is
    // guaranteed to finish. Thus, we can set the task-level
    // run-to-completion threshold to epsilon.
    // See also: http://prosa.mpi-sws.org/branches/master/pretty/prosa.model.task.preemption.fully_nonpreemptive.html#fully_nonpreemptive
    let rtct = Service::epsilon();

    // The remaining cost after the run-to-completion threshold has been
    // reached.
    let rem_cost = tua.wcet.wcet - rtct;

    // Now define the offset-specific RTA.
    let rta = |A: Offset| /*+*/-> (r: fixed_point::SearchResult)
        requires A.v() < L.v() <= limit.v(), pre(tua, other_tasks@, limit.v()), task_under_analysis.wcet == tua.wcet, task_under_analysis.arrival_bound == tua.arrivals, rem_cost.v() == tua.wcet.wcet.v() - 1
        ensures res_view(r) == edfx_f(tf_of(tua), tua.deadline.v(), otx_of(other_tasks@), tua.wcet.wcet.v() - 1, limit.v(), A.v())
    /*-*/{ /*@probe*/
        // Bound on the priority inversion caused by jobs with lower priority.
        let blocking_bound = /*@R5: other_tasks
            .iter()
            .filter( @*/vf_max_filter_map_service_idx(other_tasks, /*@.*/|ot/*+*/: &Task<AB2>/*-*/| /*+*/-> (b: bool)
                requires task_ok(ot, limit.v()), limit.v() >= 1, A.v() < limit.v(), tua.deadline.v() + limit.v() + 1 <= u64::MAX
                ensures b == (ot.deadline.v() > tua.deadline.v() + A.v() && tf_of(ot)(1) > 0)
            /*-*/{
//@+
                proof { lemma_task_rb(ot, limit.v(), 1); }
//@-
                ot.deadline > tua.deadline + A.since_time_zero()
                    && ot.rbf().service_needed(Duration::epsilon()) > Service::none()
            }/*@R5: )
            .map( @*/, /*@.*/|ot/*+*/: &Task<AB2>/*-*/| /*+*/-> (v: Service) ensures v.v() == sat(ot.wcet.wcet.v() - 1) { /*-*/ot.wcet.wcet.saturating_sub(Service::epsilon())/*+*/ }/*-*//*@R5: )
            .max()
            .unwrap_or_else(Service::none) @*/, Ghost(blk_sel(otx_of(other_tasks@), tua.deadline.v(), A.v())), Ghost(blk_val(otx_of(other_tasks@))))/*@.*/;

        // Define the RHS of the equation in theorem 31 of the aRTA paper,
        // where AF = A + F.
        let rhs = |AF: Duration| /*+*/-> (r: Service)
            requires 1 <= AF.v() <= limit.v(), A.v() < limit.v(), pre(tua, other_tasks@, limit.v()), blocking_bound.v() == blk(otx_of(other_tasks@), tua.deadline.v(), A.v()),
                     task_under_analysis.wcet == tua.wcet, task_under_analysis.arrival_bound == tua.arrivals, rem_cost.v() == tua.wcet.wcet.v() - 1
            ensures r.v() == edfx_w_off(tf_of(tua), tua.deadline.v(), otx_of(other_tasks@), tua.wcet.wcet.v() - 1, A.v())(AF.v())
        /*-*/{ /*@probe*/
//@+
            proof {
                lemma_tua_fn(tua.wcet.wcet.v(), tua.arrivals); lemma_otx_wf(other_tasks@, limit.v());
                let tf0 = tf_of(tua);
                lemma_off_le_bw(tua.deadline.v(), to_ots(otx_of(other_tasks@)), A.v(), AF.v(), limit.v());
                assert(tf0(A.v() + 1) <= tf0(limit.v() + 1)); assert(tf0(A.v() + 1) >= tua.wcet.wcet.v());
                lemma_task_rb(tua, limit.v(), A.v() + 1);
                assert(task_under_analysis.rbf(A.v() + 1) == tf0(A.v() + 1));
                let gg = ot_term(to_ots(otx_of(other_tasks@)), arg_off(A.v(), tua.deadline.v(), AF.v()));
                assert forall |i: int| 0 <= i < other_tasks@.len() implies #[trigger] gg(i) >= 0 by {
                    assert(task_ok(&other_tasks@[i], limit.v()));
                    lemma_task_rb(&other_tasks@[i], limit.v(), arg_off(A.v(), tua.deadline.v(), AF.v())(other_tasks@[i].deadline.v()));
                }
                lemma_sum_f_mono(to_ots(otx_of(other_tasks@)), arg_bw(limit.v()), arg_bw(limit.v()));
                lemma_blk_le_seg(other_tasks@, tua.deadline.v(), A.v(), u64::MAX - sum_f(to_ots(otx_of(other_tasks@)), arg_bw(limit.v())) - tf0(limit.v() + 1));
            }
//@-
            // demand of the task under analysis
            let self_interference = task_under_analysis.service_needed(A.closed_since_time_zero());
            let tua_demand = self_interference - rem_cost;

            // demand of all interfering tasks
            let bound_on_total_hep_workload: Service = /*@R1: other_tasks
                .iter()
                .map( @*/vf_sum_service_idx(other_tasks, /*@.*/|ot/*+*/: &Task<AB2>/*-*/| /*+*/-> (r: Service)
                    requires task_ok(ot, limit.v()), 1 <= AF.v() <= limit.v(), A.v() < limit.v(), tua.deadline.v() + limit.v() + 1 <= u64::MAX
                    ensures r.v() == tf_of(ot)(arg_off(A.v(), tua.deadline.v(), AF.v())(ot.deadline.v()))
                /*-*/{
//@+
                    proof { lemma_task_rb(ot, limit.v(), arg_off(A.v(), tua.deadline.v(), AF.v())(ot.deadline.v())); }
//@-
                    ot.rbf().service_needed(/*@R12: std::cmp::min @*/vf_min/*@.*/(
                        AF,
                        (A.closed_since_time_zero() + tua.deadline).saturating_sub(ot.deadline),
                    ))
                }/*@R1: )
                .sum() @*/, Ghost(ot_term(to_ots(otx_of(other_tasks@)), arg_off(A.v(), tua.deadline.v(), AF.v()))))/*@.*/;

            blocking_bound + tua_demand + bound_on_total_hep_workload
        };

//@+
        proof {
            lemma_tua_fn(tua.wcet.wcet.v(), tua.arrivals); lemma_otx_wf(other_tasks@, limit.v());
            let tf0 = tf_of(tua); let rem0 = tua.wcet.wcet.v() - 1;
            assert(tf0(A.v() + 1) >= tua.wcet.wcet.v());
            lemma_edfx_w_mono(tf0, tua.deadline.v(), otx_of(other_tasks@), rem0, A.v());
            lemma_ded_is_dedicated();
            assert(proc == (Dedicated {}));
            assert(sbf_of(&proc) == ded());
            assert(clo_is(&rhs, edfx_w_off(tf0, tua.deadline.v(), otx_of(other_tasks@), rem0, A.v())));
            lemma_scan(ded(), 0, edfx_w_off(tf0, tua.deadline.v(), otx_of(other_tasks@), rem0, A.v()), 0, limit.v());
        }
//@-
        // Find the solution A+F that is the least fixed point.
        let AF = fixed_point::search(&proc, limit, rhs)?;
        // Extract the corresponding bound.
        let F = AF.saturating_sub(A.since_time_zero());
        Ok(F + Duration::from(rem_cost))
    };

    // Third, define the search space. The search space is given by
    // A=0 and each step below L of the task under analysis's RBF.
    // The case of A=0 is not handled explicitly since `steps_iter()`
    // necessarily yields delta=1, which results in A=0 being
    // included in the search space.
    let max_offset = Offset::from_time_zero(L);
//@+
    let ghost mx = max_offset.v();
    let ghost hz = tua.arrivals.steps_hz(vf_n as int);
    let ghost ots = to_ots(otx);
    proof {
        assert(L.v() <= limit.v());
        lemma_scalar_strict(&task_under_analysis.wcet);
        assert(rbf_fn(&task_under_analysis) =~= tf) by { assert forall |x: int| #[trigger] rbf_fn(&task_under_analysis)(x) == tf(x) by {} }
    }
//@-
    let search_space_tua =
        demand::step_offsets(&task_under_analysis/*+*/, vf_n/*-*/).take_while(|A/*+*/: &Offset/*-*/| /*+*/-> (r: bool) ensures r == (A.v() < max_offset.v()) { /*@probe*/ /*-*/*A < max_offset/*+*/ }, Ghost(|A: Offset| A.v() < max_offset.v())/*-*/);
//@+
    let ghost ss_tua = search_space_tua.0@;
    // the stream that take_while consumed (an unnamed temporary of the expression above)
    let ghost offs_tua: Seq<Offset> = choose |o: Seq<Offset>| #[trigger] offsets_exact(o, tf, hz) && tw_of(ss_tua, o, mx);
    let ghost gs = |i: int, a: int| shifted_in(ots[i].f, ots[i].dl, dl, mx, a);
    proof {
        assert(exists |o: Seq<Offset>| #[trigger] offsets_exact(o, tf, hz) && tw_of(ss_tua, o, mx));
        lemma_tw_set(offs_tua, tf, hz, mx, ss_tua);
        assert(ots.len() == other_tasks@.len());
        assert forall |i: int, a: int| 0 <= i < other_tasks@.len() implies (shifted_in(rbf_fn(&#[trigger] rbfs@[i]), other_tasks@[i].deadline.v(), dl, mx, a) <==> #[trigger] gs(i, a)) by {
            assert(rbf_fn(&rbfs@[i]) =~= ots[i].f) by { assert forall |x: int| #[trigger] rbf_fn(&rbfs@[i])(x) == (ots[i].f)(x) by {} }
        }
    }
//@-
    let search_space = /*@R21: other_tasks
        .iter()
        .zip(rbfs.iter())
        .map( @*/VfStream::<Offset>::kmerge_map2(other_tasks, rbfs.as_slice(), /*@.*/|/*@R21: (ot, rbf) @*/ot: &Task<AB2>, rbf: &demand::RBF<&AB2, wcet::Scalar>/*@.*/| /*+*/-> (r: VfStream<Offset>)
            requires rbf.wf(), rbf.wcet == ot.wcet, rbf.arrival_bound == ot.arrivals, ot.wcet.wcet.v() >= 1, pre_steps_ot(ot, tua.deadline.v(), max_offset.v(), vf_n as int)
            ensures forall |a: int| #[trigger] off_has(r.0@, a) <==> shifted_in(rbf_fn(rbf), ot.deadline.v(), tua.deadline.v(), max_offset.v(), a)
        /*-*/{ /*@probe*/
            /*+*/proof { lemma_scalar_strict(&rbf.wcet); }
            let vf_r = /*-*/demand::step_offsets(rbf/*+*/, vf_n/*-*/)
                .map(move |delta/*+*/: Offset/*-*/| /*+*/-> (r: Offset)
                    requires delta.v() + ot.deadline.v() <= u64::MAX
                    ensures r == sh(ot.deadline.v(), tua.deadline.v())(delta)
                /*-*/{ /*@probe*/
                    Offset::from_time_zero(
                        (delta + ot.deadline)
                            .since_time_zero()
                            .saturating_sub(tua.deadline),
                    )
                }/*+*/, Ghost(sh(ot.deadline.v(), tua.deadline.v()))/*-*/)
                .take_while(|A/*+*/: &Offset/*-*/| /*+*/-> (r: bool) ensures r == (A.v() < max_offset.v()) { /*@probe*/ /*-*/*A < max_offset/*+*/ }, Ghost(|A: Offset| A.v() < max_offset.v())/*-*/)/*+*/;
            proof {
                let fo = rbf_fn(rbf); let hzo = rbf.rsteps_hz(vf_n as int); let ubo = rbf.rsteps_ub(vf_n as int);
                let (dlo, dl, mxo) = (ot.deadline.v(), tua.deadline.v(), max_offset.v());
                assert(exists |o: Seq<Offset>| #[trigger] offsets_exact(o, fo, hzo) && off_lt(o, ubo) && tw_of(vf_r.0@, o.map_values(sh(dlo, dl)), mxo));
                let o = choose |o: Seq<Offset>| #[trigger] offsets_exact(o, fo, hzo) && off_lt(o, ubo) && tw_of(vf_r.0@, o.map_values(sh(dlo, dl)), mxo);
                lemma_shifted_tw_set(o, fo, hzo, ubo, dlo, dl, mxo, vf_r.0@);
            }
            vf_r/*-*/
        }/*@R21: )
        .kmerge() @*/, Ghost(gs))/*@.*/
        .merge(search_space_tua)
        .dedup();
//@+
    let ghost ss = search_space.0@;
    proof {
        assert forall |a: int| #[trigger] off_has(ss, a) <==> ((0 <= a < mx && is_step_at(tf, a + 1)) || exists |i: int| 0 <= i < ots.len() && #[trigger] shifted_in(ots[i].f, ots[i].dl, dl, mx, a)) by {
            if exists |i: int| 0 <= i < ots.len() && #[trigger] shifted_in(ots[i].f, ots[i].dl, dl, mx, a) {
                let i = choose |i: int| 0 <= i < ots.len() && #[trigger] shifted_in(ots[i].f, ots[i].dl, dl, mx, a);
                assert(gs(i, a));
            }
            if off_has(ss, a) && !(0 <= a < mx && is_step_at(tf, a + 1)) {
                let i = choose |i: int| 0 <= i < other_tasks@.len() && #[trigger] gs(i, a);
                assert(shifted_in(ots[i].f, ots[i].dl, dl, mx, a));
            }
        }
        lemma_edf_space(ss, tf, dl, ots, mx);
        assert forall |i: int| 0 <= i < ss.len() implies #[trigger] rta.requires((ss[i],)) by { assert(off_has(ss, ss[i].v())); }
    }
//@-

    // Finally, apply the offset-specific RTA to each offset in the
    // search space and return the maximum response-time bound.
    /*@R21: fixed_point::max_response_time(search_space.map(rta)) @*/let vf_rs = search_space.map_rel(rta);
    let vf_res = fixed_point::max_response_time(vf_rs.as_slice());
    proof {
        let g = |x: int| edfx_f(tf, dl, otx, rem, limit.v(), x);
        lemma_set_fold(ss, |x: int| in_space(tf, dl, ots, x), mx, vf_rs.0@, g, vf_res);
        lemma_fold_space_is_fold_p(tf, dl, ots, g, mx);
        lemma_edfx_prune(tf, dl, otx, rem, limit.v(), L.v());
    }
    vf_res/*@.*/
}
//@end

} // verus!
