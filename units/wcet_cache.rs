// unit part: wcet::ExtrapolatingCurve (C14: the caching variant answers like a fresh one). R17 as in arrival_cache.rs.
verus! {

/// realisable cumulative-cost prefix: cost of a+b+2 jobs is at most cost of a+1 jobs plus cost of b+1 jobs
pub open spec fn sa_at(w: Seq<Service>, a: int, b: int) -> bool { 0 <= a && 0 <= b && a + b + 1 < w.len() ==> cv(w, a + b + 1) <= cv(w, a) + cv(w, b) }
pub open spec fn subadd(w: Seq<Service>) -> bool { forall |a: int, b: int| #[trigger] sa_at(w, a, b) }
pub open spec fn canon_w(c0: Seq<Service>, cur: Seq<Service>) -> bool {
    &&& c0.len() >= 1 && wcet_wf(c0) && subadd(c0)
    &&& extends(c0, cur) && wcet_wf(cur) && subadd(cur) && lin_bounded(cur)
    &&& (c0.len() < 3 ==> cur =~= c0)
}
pub proof fn lemma_min_range_ge_bound(g: spec_fn(int) -> int, a: int, b: int, lo: int)
    requires a <= b, forall |k: int| a <= k <= b ==> #[trigger] g(k) >= lo
    ensures min_range(g, a, b) >= lo
    decreases b - a
{ if b > a { lemma_min_range_ge_bound(g, a, b - 1, lo); } }
/// the sub-additive extension keeps the curve non-decreasing, sub-additive and linearly bounded
#[verifier::spinoff_prover]
pub proof fn lemma_ext_keeps_wf(w: Seq<Service>, e: Service)
    requires w.len() >= 2, wcet_wf(w), subadd(w), lin_bounded(w), e.v() == ext_next(w)
    ensures wcet_wf(w.push(e)), subadd(w.push(e)), lin_bounded(w.push(e))
{
    let n = w.len() as int; let w1 = w.push(e); let g = |k: int| ext_cand(w, k);
    // every candidate is at least w[n-1] (sub-additivity + monotonicity), hence so is the minimum
    assert forall |k: int| 0 <= k <= n / 2 implies #[trigger] g(k) >= cv(w, n - 1) by {
        if n - k - 2 >= 0 { assert(sa_at(w, k, n - k - 2)); assert(cv(w, k + (n - k - 2) + 1) <= cv(w, k) + cv(w, n - k - 2)); assert(cv(w, n - k - 2) <= cv(w, n - k - 1)); }
        else { assert(k == n - 1); assert(cv(w, n - k - 1) >= 0); }
    }
    lemma_min_range_ge_bound(g, 0, n / 2, cv(w, n - 1));
    assert forall |i: int, k: int| 0 <= i <= k < w1.len() implies cv(w1, i) <= cv(w1, k) by {
        if k < n { assert(cv(w, i) <= cv(w, k)); } else if i < n { assert(cv(w, i) <= cv(w, n - 1)); }
    }
    // the minimum is at most every candidate: sub-additivity at the new index
    assert forall |a: int, b: int| #[trigger] sa_at(w1, a, b) by {
        if !(0 <= a && 0 <= b && a + b + 1 < w1.len()) {}
        else if a + b + 1 < n { assert(sa_at(w, a, b)); }
        else {
            let k = if a <= b { a } else { b };
            lemma_min_range_le(g, 0, n / 2, k);
            assert(g(k) == cv(w, k) + cv(w, n - k - 1));
        }
    }
    lemma_min_range_le(g, 0, n / 2, 0);
    assert(cv(w, 0) <= (0 + 1) * cv(w, 0)); assert(cv(w, n - 1) <= (n - 1 + 1) * cv(w, 0));
    assert((0 + 1) * cv(w, 0) + (n - 1 + 1) * cv(w, 0) == (n + 1) * cv(w, 0)) by { lemma_mul_is_distributive_add_other_way(cv(w, 0), 1, n); }
    assert forall |i: int| 0 <= i < w1.len() implies #[trigger] cv(w1, i) <= (i + 1) * cv(w1, 0) by { if i < n { assert(cv(w1, i) == cv(w, i)); } }
}
pub proof fn lemma_extends_keeps_wf(c0: Seq<Service>, cur: Seq<Service>)
    requires c0.len() >= 2, wcet_wf(c0), subadd(c0), lin_bounded(c0), extends(c0, cur)
    ensures wcet_wf(cur), subadd(cur), lin_bounded(cur)
    decreases cur.len()
{
    if cur.len() > c0.len() {
        let prev = cur.drop_last();
        assert(prev =~= cur.subrange(0, cur.len() - 1));
        assert(extends(c0, prev)) by {
            assert(prev.subrange(0, c0.len() as int) =~= cur.subrange(0, c0.len() as int));
            assert forall |m: int| c0.len() <= m < prev.len() implies #[trigger] cv(prev, m) == ext_next(prev.subrange(0, m)) by { assert(prev.subrange(0, m) =~= cur.subrange(0, m)); assert(cv(prev, m) == cv(cur, m)); }
        }
        lemma_extends_keeps_wf(c0, prev);
        assert(cv(cur, cur.len() - 1) == ext_next(prev));
        lemma_ext_keeps_wf(prev, cur[cur.len() - 1]);
        assert(cur =~= prev.push(cur[cur.len() - 1]));
    } else { assert(cur =~= c0); }
}
pub proof fn lemma_extends_w_trans(c0: Seq<Service>, mid: Seq<Service>, cur: Seq<Service>)
    requires extends(c0, mid), extends(mid, cur)
    ensures extends(c0, cur)
{
    assert(cur.subrange(0, c0.len() as int) =~= mid.subrange(0, c0.len() as int)) by {
        assert forall |i: int| 0 <= i < c0.len() implies cur.subrange(0, c0.len() as int)[i] == mid.subrange(0, c0.len() as int)[i] by { assert(cur.subrange(0, mid.len() as int)[i] == mid[i]); }
    }
    assert forall |m: int| c0.len() <= m < cur.len() implies #[trigger] cv(cur, m) == ext_next(cur.subrange(0, m)) by {
        if m < mid.len() {
            assert(cur.subrange(0, mid.len() as int)[m] == mid[m]);
            assert(cur.subrange(0, m) =~= mid.subrange(0, m)) by {
                assert forall |i: int| 0 <= i < m implies cur.subrange(0, m)[i] == mid.subrange(0, m)[i] by { assert(cur.subrange(0, mid.len() as int)[i] == mid[i]); }
            }
            assert(cv(mid, m) == ext_next(mid.subrange(0, m)));
        }
    }
}
/// two canonical extensions of one prefix agree wherever both are defined: the answer to a query is a function of the
/// initial prefix and n only (C14: "exactly like a fresh one regardless of query history")
pub proof fn lemma_canon_w_comparable(c0: Seq<Service>, p: Seq<Service>, q: Seq<Service>, k: int)
    requires extends(c0, p), extends(c0, q), p.len() <= q.len(), 0 <= k <= p.len()
    ensures p.subrange(0, k) =~= q.subrange(0, k)
    decreases k
{
    if k > 0 {
        lemma_canon_w_comparable(c0, p, q, k - 1);
        if k - 1 < c0.len() {
            assert(p.subrange(0, c0.len() as int)[k - 1] == c0[k - 1]);
            assert(q.subrange(0, c0.len() as int)[k - 1] == c0[k - 1]);
        } else {
            assert(cv(p, k - 1) == ext_next(p.subrange(0, k - 1)));
            assert(cv(q, k - 1) == ext_next(q.subrange(0, k - 1)));
            assert(p[k - 1].val == q[k - 1].val);
        }
        assert forall |i: int| 0 <= i < k implies p.subrange(0, k)[i] == q.subrange(0, k)[i] by {
            if i < k - 1 { assert(p.subrange(0, k - 1)[i] == q.subrange(0, k - 1)[i]); }
        }
    }
}
pub proof fn lemma_cost_within_prefix(w: Seq<Service>, n: int)
    requires 1 <= n <= w.len()
    ensures cost_curve(w, n) == cv(w, n - 1)
{
    let len = w.len() as int;
    if n < len { lemma_small_mod(n as nat, len as nat); lemma_basic_div(n, len); }
    else { lemma_mod_self_0(len); lemma_div_basics(len); assert(cv(w, len - 1) * 1 == cv(w, len - 1)); }
}

//@item src/wcet/curve.rs :: struct ExtrapolatingCurve
pub struct /*@R19: ExtrapolatingCurve @*/WcetExtrapolatingCurve/*@.*/ {
    /*+*/pub /*-*/prefix: /*@R17: Rc<RefCell<Curve>> @*/WcetCurve/*@.*/,
}
//@end

impl WcetExtrapolatingCurve {
//@item src/wcet/curve.rs :: impl ExtrapolatingCurve / fn new
    pub fn new(costfn: /*@R19: Curve @*/WcetCurve/*@.*/) -> /*+*/(r: /*-*/Self/*+*/) ensures r.prefix == costfn/*-*/ {
        /*@R19: ExtrapolatingCurve @*/WcetExtrapolatingCurve/*@.*/ {
            prefix: /*@R17: Rc::new(RefCell::new(costfn)) @*/costfn/*@.*/,
        }
    }
//@end

//@item src/wcet/curve.rs :: impl JobCostModel for ExtrapolatingCurve / fn cost_of_jobs
    fn cost_of_jobs(/*@R17: &self @*/&mut self/*@.*/, n: usize) -> /*+*/(r: /*-*/Service/*+*/)
        requires
            exists |c0: Seq<Service>| canon_w(c0, old(self).prefix.wcet_of_n_jobs@),
            n < usize::MAX, (n + 1 + old(self).prefix.wcet_of_n_jobs@.len() + 1) * cv(old(self).prefix.wcet_of_n_jobs@, 0) <= u64::MAX,
        ensures
            // representation invariant kept for every initial prefix the old state is canonical for; the cache only grows
            forall |c0: Seq<Service>| canon_w(c0, old(self).prefix.wcet_of_n_jobs@) ==> #[trigger] canon_w(c0, final(self).prefix.wcet_of_n_jobs@),
            extends(old(self).prefix.wcet_of_n_jobs@, final(self).prefix.wcet_of_n_jobs@),
            // the state is extended far enough for the query (never answered by plain repetition when it can be extrapolated),
            old(self).prefix.wcet_of_n_jobs@.len() >= 3 ==> final(self).prefix.wcet_of_n_jobs@.len() == (if n > old(self).prefix.wcet_of_n_jobs@.len() { n as nat } else { old(self).prefix.wcet_of_n_jobs@.len() }),
            // so the answer is entry n-1 of the unique canonical extension: a function of (c0, n) only (lemma_canon_w_comparable)
            r.v() == cost_curve(final(self).prefix.wcet_of_n_jobs@, n as int),
            old(self).prefix.wcet_of_n_jobs@.len() >= 3 && n >= 1 ==> r.v() == cv(final(self).prefix.wcet_of_n_jobs@, n - 1),
    /*-*/{
//@+
        let ghost w_old = self.prefix.wcet_of_n_jobs@;
//@-
        let /*@R17: mut costfn = self.prefix.borrow_mut() @*/costfn = &mut self.prefix/*@.*/;
        costfn.extrapolate(n + 1);
//@+
        proof {
            let w_new = costfn.wcet_of_n_jobs@;
            let c00 = choose |c0: Seq<Service>| canon_w(c0, w_old);
            if w_old.len() >= 2 { lemma_extends_keeps_wf(w_old, w_new); } else { assert(w_new =~= w_old); }
            assert forall |c0: Seq<Service>| canon_w(c0, w_old) implies #[trigger] canon_w(c0, w_new) by {
                lemma_extends_w_trans(c0, w_old, w_new);
                if c0.len() < 3 { assert(w_old =~= c0); assert(w_new =~= w_old); }
            }
            if w_new.len() >= 1 {
                // magnitude: cost_curve(w_new, n) <= (n + 1) * w[0] within the envelope
                lemma_cost_le_lin(w_new, n as int);
                assert(cv(w_new, 0) == cv(w_old, 0)) by { assert(w_new.subrange(0, w_old.len() as int)[0] == w_old[0]); }
                assert((n + 1) * cv(w_new, 0) <= (n + 1 + w_old.len() + 1) * cv(w_old, 0)) by { lemma_mul_inequality((n + 1) as int, (n + 1 + w_old.len() + 1) as int, cv(w_old, 0)); }
            }
            if w_old.len() >= 3 && n >= 1 { lemma_cost_within_prefix(w_new, n as int); }
        }
//@-
        costfn.cost_of_jobs(n)
    }
//@end

//@item src/wcet/curve.rs :: impl JobCostModel for ExtrapolatingCurve / fn least_wcet
    fn least_wcet(&self, n: usize) -> /*+*/(r: /*-*/Service/*+*/)
        requires self.prefix.wf()
        ensures r.v() == self.prefix.least(n as int)/*-*/ {
        // Don't need to extrapolate for this; the least delta is
        // fully determined by the initial prefix.
        self.prefix/*@R17: .borrow() @*//*@.*/.least_wcet(n)
    }
//@end
}

pub proof fn lemma_cost_le_lin(w: Seq<Service>, n: int)
    requires w.len() >= 1, lin_bounded(w), n >= 0, forall |i: int| 0 <= i < w.len() ==> cv(w, i) >= 0
    ensures cost_curve(w, n) <= (n + 1) * cv(w, 0), cv(w, 0) >= 0
{
    let len = w.len() as int; let c = cv(w, 0);
    if n > 0 {
        let x = n / len; let y = n % len;
        lemma_fundamental_div_mod(n, len); lemma_mod_bound(n, len); lemma_div_pos_is_pos(n, len);
        assert(cv(w, len - 1) <= (len - 1 + 1) * c);
        // x * w[len-1] <= x * len * c
        assert(cv(w, len - 1) * x <= (len * c) * x) by { lemma_mul_inequality(cv(w, len - 1), len * c, x); }
        assert((len * c) * x == (len * x) * c) by { lemma_mul_is_associative(len, c, x); lemma_mul_is_commutative(c, x); lemma_mul_is_associative(len, x, c); }
        if y > 0 { assert(cv(w, y - 1) <= (y - 1 + 1) * c); }
        assert((len * x) * c + y * c == (len * x + y) * c) by { lemma_mul_is_distributive_add_other_way(c, len * x, y); }
        assert(n * c <= (n + 1) * c) by { lemma_mul_inequality(n, n + 1, c); }
    } else { lemma_mul_nonnegative(n + 1, c); }
}

} // verus!
