// module aliases so that paths like `fixed_point::search` or `supply::Dedicated` in the extracted code resolve
// inside the single-file unit exactly as `crate::fixed_point::search` does in the crate
verus! {
pub mod fixed_point { pub use super::{search, search_with_offset, max_response_time, SearchResult, SearchFailure}; }
pub mod supply { pub use super::{Dedicated, Constrained, SupplyBound}; pub use super::SupplyPeriodic as Periodic; }
pub mod demand { pub use super::{RBF, Aggregate, Slice, RequestBound, RequestSteps, step_offsets}; }
pub mod wcet { pub use super::{Scalar, JobCostModel}; }
}
