// vf_* helpers: Verus-VERIFIED index loops that stand for iterator folds over slices (rules R1, R3, R5).
// What stays assumed is only the std semantics named in vx/rules.md (Iterator::{map,sum,min,max,filter}
// over a slice visit the elements in order and fold with + / min / max).
verus! {

pub open spec fn sum_seq<T>(xs: Seq<T>, g: spec_fn(T) -> int) -> int
    decreases xs.len()
{
    if xs.len() == 0 { 0 } else { sum_seq(xs.drop_last(), g) + g(xs.last()) }
}
pub proof fn lemma_sum_seq_nonneg<T>(xs: Seq<T>, g: spec_fn(T) -> int)
    requires forall |i: int| 0 <= i < xs.len() ==> g(#[trigger] xs[i]) >= 0
    ensures sum_seq(xs, g) >= 0, forall |k: int| 0 <= k <= xs.len() ==> #[trigger] sum_seq(xs.take(k), g) <= sum_seq(xs, g)
    decreases xs.len()
{
    if xs.len() > 0 {
        let ys = xs.drop_last();
        assert forall |i: int| 0 <= i < ys.len() implies g(#[trigger] ys[i]) >= 0 by { assert(ys[i] == xs[i]); }
        lemma_sum_seq_nonneg(ys, g);
        assert forall |k: int| 0 <= k <= xs.len() implies #[trigger] sum_seq(xs.take(k), g) <= sum_seq(xs, g) by {
            if k == xs.len() { assert(xs.take(k) =~= xs); }
            else { assert(xs.take(k) =~= ys.take(k)); }
        }
    } else {
        assert forall |k: int| 0 <= k <= xs.len() implies #[trigger] sum_seq(xs.take(k), g) <= sum_seq(xs, g) by { assert(xs.take(k) =~= xs); }
    }
}
pub proof fn lemma_sum_seq_le<T>(xs: Seq<T>, g: spec_fn(T) -> int, h: spec_fn(T) -> int)
    requires forall |i: int| 0 <= i < xs.len() ==> g(#[trigger] xs[i]) <= h(xs[i])
    ensures sum_seq(xs, g) <= sum_seq(xs, h)
    decreases xs.len()
{
    if xs.len() > 0 {
        let ys = xs.drop_last();
        assert forall |i: int| 0 <= i < ys.len() implies g(#[trigger] ys[i]) <= h(ys[i]) by { assert(ys[i] == xs[i]); }
        lemma_sum_seq_le(ys, g, h);
    }
}
pub proof fn lemma_sum_seq_eq<T>(xs: Seq<T>, g: spec_fn(T) -> int, h: spec_fn(T) -> int)
    requires forall |i: int| 0 <= i < xs.len() ==> g(#[trigger] xs[i]) == h(xs[i])
    ensures sum_seq(xs, g) == sum_seq(xs, h)
{
    lemma_sum_seq_le(xs, g, h); lemma_sum_seq_le(xs, h, g);
}

/// R1: `xs.iter().map(f).sum()` with usize items
pub fn vf_sum_usize<T, F: Fn(&T) -> usize>(xs: &[T], f: F, Ghost(g): Ghost<spec_fn(T) -> int>) -> (r: usize)
    requires
        forall |i: int| 0 <= i < xs@.len() ==> #[trigger] f.requires((&xs@[i],)),
        forall |i: int, v: usize| 0 <= i < xs@.len() && #[trigger] f.ensures((&xs@[i],), v) ==> v == g(xs@[i]),
        forall |i: int| 0 <= i < xs@.len() ==> g(#[trigger] xs@[i]) >= 0,
        sum_seq(xs@, g) <= usize::MAX,
    ensures r == sum_seq(xs@, g)
{
    let mut acc: usize = 0;
    let mut i: usize = 0;
    while i < xs.len()
        invariant
            i <= xs@.len(), acc == sum_seq(xs@.take(i as int), g),
            forall |i: int| 0 <= i < xs@.len() ==> #[trigger] f.requires((&xs@[i],)),
            forall |i: int, v: usize| 0 <= i < xs@.len() && #[trigger] f.ensures((&xs@[i],), v) ==> v == g(xs@[i]),
            forall |i: int| 0 <= i < xs@.len() ==> g(#[trigger] xs@[i]) >= 0,
            sum_seq(xs@, g) <= usize::MAX,
        decreases xs@.len() - i
    {
        let v = f(&xs[i]);
        proof {
            assert(f.ensures((&xs@[i as int],), v));
            assert(xs@.take(i as int + 1).drop_last() =~= xs@.take(i as int));
            lemma_sum_seq_nonneg(xs@, g);
            assert(sum_seq(xs@.take(i as int + 1), g) <= sum_seq(xs@, g));
        }
        acc = acc + v;
        i = i + 1;
    }
    proof { assert(xs@.take(xs@.len() as int) =~= xs@); }
    acc
}

/// R1: `xs.iter().map(f).sum()` with Service items
pub fn vf_sum_service<T, F: Fn(&T) -> Service>(xs: &[T], f: F, Ghost(g): Ghost<spec_fn(T) -> int>) -> (r: Service)
    requires
        forall |i: int| 0 <= i < xs@.len() ==> #[trigger] f.requires((&xs@[i],)),
        forall |i: int, v: Service| 0 <= i < xs@.len() && #[trigger] f.ensures((&xs@[i],), v) ==> v.v() == g(xs@[i]),
        forall |i: int| 0 <= i < xs@.len() ==> g(#[trigger] xs@[i]) >= 0,
        sum_seq(xs@, g) <= u64::MAX,
    ensures r.v() == sum_seq(xs@, g)
{
    let mut acc: Service = Service::none();
    let mut i: usize = 0;
    while i < xs.len()
        invariant
            i <= xs@.len(), acc.v() == sum_seq(xs@.take(i as int), g),
            forall |i: int| 0 <= i < xs@.len() ==> #[trigger] f.requires((&xs@[i],)),
            forall |i: int, v: Service| 0 <= i < xs@.len() && #[trigger] f.ensures((&xs@[i],), v) ==> v.v() == g(xs@[i]),
            forall |i: int| 0 <= i < xs@.len() ==> g(#[trigger] xs@[i]) >= 0,
            sum_seq(xs@, g) <= u64::MAX,
        decreases xs@.len() - i
    {
        let v = f(&xs[i]);
        proof {
            assert(f.ensures((&xs@[i as int],), v));
            assert(xs@.take(i as int + 1).drop_last() =~= xs@.take(i as int));
            lemma_sum_seq_nonneg(xs@, g);
            assert(sum_seq(xs@.take(i as int + 1), g) <= sum_seq(xs@, g));
        }
        acc = acc + v;
        i = i + 1;
    }
    proof { assert(xs@.take(xs@.len() as int) =~= xs@); }
    acc
}


pub open spec fn min_range(g: spec_fn(int) -> int, a: int, b: int) -> int
    decreases b - a
{
    if b <= a { g(a) } else { let r = min_range(g, a, b - 1); if g(b) < r { g(b) } else { r } }
}
pub open spec fn max_range(g: spec_fn(int) -> int, a: int, b: int) -> int
    decreases b - a
{
    if b <= a { g(a) } else { let r = max_range(g, a, b - 1); if g(b) > r { g(b) } else { r } }
}
pub proof fn lemma_min_range_le(g: spec_fn(int) -> int, a: int, b: int, k: int)
    requires a <= k <= b
    ensures min_range(g, a, b) <= g(k)
    decreases b - a
{ if b > a { if k < b { lemma_min_range_le(g, a, b - 1, k); } } }
pub proof fn lemma_max_range_ge(g: spec_fn(int) -> int, a: int, b: int, k: int)
    requires a <= k <= b
    ensures max_range(g, a, b) >= g(k)
    decreases b - a
{ if b > a { if k < b { lemma_max_range_ge(g, a, b - 1, k); } } }

/// R4: `(a..=b).map(f).min().unwrap()` with Service items
pub fn vf_min_range_service<F: Fn(usize) -> Service>(a: usize, b: usize, f: F, Ghost(g): Ghost<spec_fn(int) -> int>) -> (r: Service)
    requires a <= b, b < usize::MAX,
        forall |k: usize| a <= k <= b ==> #[trigger] f.requires((k,)),
        forall |k: usize, v: Service| a <= k <= b && #[trigger] f.ensures((k,), v) ==> v.v() == g(k as int),
    ensures r.v() == min_range(g, a as int, b as int)
{
    let mut acc = f(a);
    let mut k: usize = a + 1;
    while k <= b
        invariant a < k <= b + 1, b < usize::MAX, acc.v() == min_range(g, a as int, k - 1),
            forall |k: usize| a <= k <= b ==> #[trigger] f.requires((k,)),
            forall |k: usize, v: Service| a <= k <= b && #[trigger] f.ensures((k,), v) ==> v.v() == g(k as int),
        decreases b + 1 - k
    {
        let v = f(k);
        acc = acc.min(v);
        k = k + 1;
    }
    acc
}
/// R4: `(a..=b).map(f).max().unwrap()` with Duration items
pub fn vf_max_range_duration<F: Fn(usize) -> Duration>(a: usize, b: usize, f: F, Ghost(g): Ghost<spec_fn(int) -> int>) -> (r: Duration)
    requires a <= b, b < usize::MAX,
        forall |k: usize| a <= k <= b ==> #[trigger] f.requires((k,)),
        forall |k: usize, v: Duration| a <= k <= b && #[trigger] f.ensures((k,), v) ==> v.v() == g(k as int),
    ensures r.v() == max_range(g, a as int, b as int)
{
    let mut acc = f(a);
    let mut k: usize = a + 1;
    while k <= b
        invariant a < k <= b + 1, b < usize::MAX, acc.v() == max_range(g, a as int, k - 1),
            forall |k: usize| a <= k <= b ==> #[trigger] f.requires((k,)),
            forall |k: usize, v: Duration| a <= k <= b && #[trigger] f.ensures((k,), v) ==> v.v() == g(k as int),
        decreases b + 1 - k
    {
        let v = f(k);
        acc = acc.max(v);
        k = k + 1;
    }
    acc
}

/// index-based sums (element types with lifetimes cannot appear in spec_fn types)
pub open spec fn sum_idx(n: int, g: spec_fn(int) -> int) -> int decreases n { if n <= 0 { 0 } else { sum_idx(n - 1, g) + g(n - 1) } }
pub proof fn lemma_sum_idx_mono(n: int, g1: spec_fn(int) -> int, g2: spec_fn(int) -> int)
    requires forall |i: int| 0 <= i < n ==> 0 <= #[trigger] g1(i) <= g2(i)
    ensures 0 <= sum_idx(n, g1) <= sum_idx(n, g2)
    decreases n
{ if n > 0 { lemma_sum_idx_mono(n - 1, g1, g2); } }
pub proof fn lemma_sum_idx_ext(n: int, g1: spec_fn(int) -> int, g2: spec_fn(int) -> int)
    requires forall |i: int| 0 <= i < n ==> #[trigger] g1(i) == g2(i)
    ensures sum_idx(n, g1) == sum_idx(n, g2)
    decreases n
{ if n > 0 { lemma_sum_idx_ext(n - 1, g1, g2); } }
pub proof fn lemma_sum_idx_prefix(n: int, m: int, g: spec_fn(int) -> int)
    requires 0 <= m <= n, forall |i: int| 0 <= i < n ==> #[trigger] g(i) >= 0
    ensures 0 <= sum_idx(m, g) <= sum_idx(n, g)
    decreases n
{ if n > m { lemma_sum_idx_prefix(n - 1, m, g); } else { lemma_sum_idx_mono(m, |i: int| 0int, g); lemma_sum_idx_zero(m); } }
pub proof fn lemma_sum_idx_zero(n: int)
    ensures sum_idx(n, |i: int| 0int) == 0
    decreases n
{ if n > 0 { lemma_sum_idx_zero(n - 1); } }
/// R1: `xs.iter().map(f).sum()` with Service items, summand described by index
pub fn vf_sum_service_idx<T, F: Fn(&T) -> Service>(xs: &[T], f: F, Ghost(g): Ghost<spec_fn(int) -> int>) -> (r: Service)
    requires
        forall |i: int| 0 <= i < xs@.len() ==> #[trigger] f.requires((&xs@[i],)),
        forall |i: int, v: Service| 0 <= i < xs@.len() && #[trigger] f.ensures((&xs@[i],), v) ==> v.v() == g(i),
        forall |i: int| 0 <= i < xs@.len() ==> #[trigger] g(i) >= 0,
        sum_idx(xs@.len() as int, g) <= u64::MAX,
    ensures r.v() == sum_idx(xs@.len() as int, g)
{
    let mut acc: Service = Service::none();
    let mut i: usize = 0;
    while i < xs.len()
        invariant
            i <= xs@.len(), acc.v() == sum_idx(i as int, g),
            forall |i: int| 0 <= i < xs@.len() ==> #[trigger] f.requires((&xs@[i],)),
            forall |i: int, v: Service| 0 <= i < xs@.len() && #[trigger] f.ensures((&xs@[i],), v) ==> v.v() == g(i),
            forall |i: int| 0 <= i < xs@.len() ==> #[trigger] g(i) >= 0,
            sum_idx(xs@.len() as int, g) <= u64::MAX,
        decreases xs@.len() - i
    {
        let v = f(&xs[i]);
        proof { assert(f.ensures((&xs@[i as int],), v)); lemma_sum_idx_prefix(xs@.len() as int, i as int + 1, g); }
        acc = acc + v;
        i = i + 1;
    }
    acc
}
/// R1: the same with usize items
pub fn vf_sum_usize_idx<T, F: Fn(&T) -> usize>(xs: &[T], f: F, Ghost(g): Ghost<spec_fn(int) -> int>) -> (r: usize)
    requires
        forall |i: int| 0 <= i < xs@.len() ==> #[trigger] f.requires((&xs@[i],)),
        forall |i: int, v: usize| 0 <= i < xs@.len() && #[trigger] f.ensures((&xs@[i],), v) ==> v == g(i),
        forall |i: int| 0 <= i < xs@.len() ==> #[trigger] g(i) >= 0,
        sum_idx(xs@.len() as int, g) <= usize::MAX,
    ensures r == sum_idx(xs@.len() as int, g)
{
    let mut acc: usize = 0;
    let mut i: usize = 0;
    while i < xs.len()
        invariant
            i <= xs@.len(), acc == sum_idx(i as int, g),
            forall |i: int| 0 <= i < xs@.len() ==> #[trigger] f.requires((&xs@[i],)),
            forall |i: int, v: usize| 0 <= i < xs@.len() && #[trigger] f.ensures((&xs@[i],), v) ==> v == g(i),
            forall |i: int| 0 <= i < xs@.len() ==> #[trigger] g(i) >= 0,
            sum_idx(xs@.len() as int, g) <= usize::MAX,
        decreases xs@.len() - i
    {
        let v = f(&xs[i]);
        proof { assert(f.ensures((&xs@[i as int],), v)); lemma_sum_idx_prefix(xs@.len() as int, i as int + 1, g); }
        acc = acc + v;
        i = i + 1;
    }
    acc
}

} // verus!
