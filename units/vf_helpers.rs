// vf_* helpers: Verus-VERIFIED index loops that stand for iterator folds over slices (rules R1, R3, R5).
// What stays assumed is only the std semantics named in vx/rules.md (Iterator::{map,sum,min,max,filter}
// over a slice visit the elements in order and fold with + / min / max).
verus! {

pub open spec fn sum_seq<T>(xs: Seq<T>, g: spec_fn(T) -> int) -> int
    decreases xs.len()
{
    if xs.len() == 0 { 0 } else { sum_seq(xs.drop_last(), g) + g(xs.last()) }
}
pub proof fn lemma_sum_seq_nonneg<T>(xs: Seq<T>, g: spec_fn(T) -> int)
    requires forall |i: int| 0 <= i < xs.len() ==> g(#[trigger] xs[i]) >= 0
    ensures sum_seq(xs, g) >= 0, forall |k: int| 0 <= k <= xs.len() ==> #[trigger] sum_seq(xs.take(k), g) <= sum_seq(xs, g)
    decreases xs.len()
{
    if xs.len() > 0 {
        let ys = xs.drop_last();
        assert forall |i: int| 0 <= i < ys.len() implies g(#[trigger] ys[i]) >= 0 by { assert(ys[i] == xs[i]); }
        lemma_sum_seq_nonneg(ys, g);
        assert forall |k: int| 0 <= k <= xs.len() implies #[trigger] sum_seq(xs.take(k), g) <= sum_seq(xs, g) by {
            if k == xs.len() { assert(xs.take(k) =~= xs); }
            else { assert(xs.take(k) =~= ys.take(k)); }
        }
    } else {
        assert forall |k: int| 0 <= k <= xs.len() implies #[trigger] sum_seq(xs.take(k), g) <= sum_seq(xs, g) by { assert(xs.take(k) =~= xs); }
    }
}
pub proof fn lemma_sum_seq_le<T>(xs: Seq<T>, g: spec_fn(T) -> int, h: spec_fn(T) -> int)
    requires forall |i: int| 0 <= i < xs.len() ==> g(#[trigger] xs[i]) <= h(xs[i])
    ensures sum_seq(xs, g) <= sum_seq(xs, h)
    decreases xs.len()
{
    if xs.len() > 0 {
        let ys = xs.drop_last();
        assert forall |i: int| 0 <= i < ys.len() implies g(#[trigger] ys[i]) <= h(ys[i]) by { assert(ys[i] == xs[i]); }
        lemma_sum_seq_le(ys, g, h);
    }
}
pub proof fn lemma_sum_seq_eq<T>(xs: Seq<T>, g: spec_fn(T) -> int, h: spec_fn(T) -> int)
    requires forall |i: int| 0 <= i < xs.len() ==> g(#[trigger] xs[i]) == h(xs[i])
    ensures sum_seq(xs, g) == sum_seq(xs, h)
{
    lemma_sum_seq_le(xs, g, h); lemma_sum_seq_le(xs, h, g);
}

/// R1: `xs.iter().map(f).sum()` with usize items
pub fn vf_sum_usize<T, F: Fn(&T) -> usize>(xs: &[T], f: F, Ghost(g): Ghost<spec_fn(T) -> int>) -> (r: usize)
    requires
        forall |i: int| 0 <= i < xs@.len() ==> #[trigger] f.requires((&xs@[i],)),
        forall |i: int, v: usize| 0 <= i < xs@.len() && #[trigger] f.ensures((&xs@[i],), v) ==> v == g(xs@[i]),
        forall |i: int| 0 <= i < xs@.len() ==> g(#[trigger] xs@[i]) >= 0,
        sum_seq(xs@, g) <= usize::MAX,
    ensures r == sum_seq(xs@, g)
{
    let mut acc: usize = 0;
    let mut i: usize = 0;
    while i < xs.len()
        invariant
            i <= xs@.len(), acc == sum_seq(xs@.take(i as int), g),
            forall |i: int| 0 <= i < xs@.len() ==> #[trigger] f.requires((&xs@[i],)),
            forall |i: int, v: usize| 0 <= i < xs@.len() && #[trigger] f.ensures((&xs@[i],), v) ==> v == g(xs@[i]),
            forall |i: int| 0 <= i < xs@.len() ==> g(#[trigger] xs@[i]) >= 0,
            sum_seq(xs@, g) <= usize::MAX,
        decreases xs@.len() - i
    {
        let v = f(&xs[i]);
        proof {
            assert(f.ensures((&xs@[i as int],), v));
            assert(xs@.take(i as int + 1).drop_last() =~= xs@.take(i as int));
            lemma_sum_seq_nonneg(xs@, g);
            assert(sum_seq(xs@.take(i as int + 1), g) <= sum_seq(xs@, g));
        }
        acc = acc + v;
        i = i + 1;
    }
    proof { assert(xs@.take(xs@.len() as int) =~= xs@); }
    acc
}

/// R1: `xs.iter().map(f).sum()` with Service items
pub fn vf_sum_service<T, F: Fn(&T) -> Service>(xs: &[T], f: F, Ghost(g): Ghost<spec_fn(T) -> int>) -> (r: Service)
    requires
        forall |i: int| 0 <= i < xs@.len() ==> #[trigger] f.requires((&xs@[i],)),
        forall |i: int, v: Service| 0 <= i < xs@.len() && #[trigger] f.ensures((&xs@[i],), v) ==> v.v() == g(xs@[i]),
        forall |i: int| 0 <= i < xs@.len() ==> g(#[trigger] xs@[i]) >= 0,
        sum_seq(xs@, g) <= u64::MAX,
    ensures r.v() == sum_seq(xs@, g)
{
    let mut acc: Service = Service::none();
    let mut i: usize = 0;
    while i < xs.len()
        invariant
            i <= xs@.len(), acc.v() == sum_seq(xs@.take(i as int), g),
            forall |i: int| 0 <= i < xs@.len() ==> #[trigger] f.requires((&xs@[i],)),
            forall |i: int, v: Service| 0 <= i < xs@.len() && #[trigger] f.ensures((&xs@[i],), v) ==> v.v() == g(xs@[i]),
            forall |i: int| 0 <= i < xs@.len() ==> g(#[trigger] xs@[i]) >= 0,
            sum_seq(xs@, g) <= u64::MAX,
        decreases xs@.len() - i
    {
        let v = f(&xs[i]);
        proof {
            assert(f.ensures((&xs@[i as int],), v));
            assert(xs@.take(i as int + 1).drop_last() =~= xs@.take(i as int));
            lemma_sum_seq_nonneg(xs@, g);
            assert(sum_seq(xs@.take(i as int + 1), g) <= sum_seq(xs@, g));
        }
        acc = acc + v;
        i = i + 1;
    }
    proof { assert(xs@.take(xs@.len() as int) =~= xs@); }
    acc
}


} // verus!
