// C11 for aggregated request bounds: demand::Aggregate and demand::Slice :: steps_iter (kmerge + dedup over the components' steps),
// bodies verbatim from /repo/src/demand/{aggregate,slice}.rs (rule R21); see units/arrival_steps_agg.rs for the arrival-side twin.
verus! {

// ------------------------------------------------------------------ Aggregate<T>, Slice<T>
/// smallest component horizon (n for the empty sum: it never steps, so every horizon is decided)
pub open spec fn rvec_hz<T: RequestSteps>(xs: Seq<T>, n: int) -> int
    decreases xs.len()
{
    if xs.len() == 0 { n } else { imin2(rvec_hz(xs.drop_last(), n), xs.last().rsteps_hz(n)) }
}
pub open spec fn rvec_ub<T: RequestSteps>(xs: Seq<T>, n: int) -> int
    decreases xs.len()
{
    if xs.len() == 0 { 0 } else { imax2(rvec_ub(xs.drop_last(), n), xs.last().rsteps_ub(n)) }
}
pub open spec fn rvec_steps_ok<T: RequestSteps>(xs: Seq<T>, n: int) -> bool { forall |i: int| 0 <= i < xs.len() ==> (#[trigger] xs[i]).rsteps_ok(n) }
pub proof fn lemma_rvec_hz_le<T: RequestSteps>(xs: Seq<T>, n: int, i: int)
    requires 0 <= i < xs.len()
    ensures rvec_hz(xs, n) <= xs[i].rsteps_hz(n), rvec_ub(xs, n) >= xs[i].rsteps_ub(n)
    decreases xs.len()
{
    if i < xs.len() - 1 { lemma_rvec_hz_le(xs.drop_last(), n, i); assert(xs.drop_last()[i] == xs[i]); }
}
pub proof fn lemma_rvec_hz_mono<T: RequestSteps>(xs: Seq<T>, n1: int, n2: int)
    requires all_rb_wf(xs), 0 <= n1 <= n2
    ensures rvec_hz(xs, n1) <= rvec_hz(xs, n2)
    decreases xs.len()
{
    if xs.len() > 0 {
        assert forall |i: int| 0 <= i < xs.drop_last().len() implies (#[trigger] xs.drop_last()[i]).wf() by { assert(xs.drop_last()[i] == xs[i]); }
        lemma_rvec_hz_mono(xs.drop_last(), n1, n2);
        assert(xs.last() == xs[xs.len() - 1]);
        xs.last().rsteps_hz_mono(n1, n2);
    }
}
pub proof fn lemma_rvec_hz_unbounded<T: RequestSteps>(xs: Seq<T>, h: int) -> (n: int)
    requires all_rb_wf(xs)
    ensures n >= 0, rvec_hz(xs, n) >= h
    decreases xs.len()
{
    if xs.len() == 0 { if h >= 0 { h } else { 0 } }
    else {
        assert forall |i: int| 0 <= i < xs.drop_last().len() implies (#[trigger] xs.drop_last()[i]).wf() by { assert(xs.drop_last()[i] == xs[i]); }
        assert(xs.last() == xs[xs.len() - 1]);
        let n0 = lemma_rvec_hz_unbounded(xs.drop_last(), h);
        let n1 = xs.last().rsteps_hz_unbounded(h);
        let n = imax2(n0, n1);
        lemma_rvec_hz_mono(xs.drop_last(), n0, n);
        xs.last().rsteps_hz_mono(n1, n);
        n
    }
}
/// a sum of non-decreasing bounds increases at d exactly when one of its components does
pub proof fn lemma_sum_rbf_step<T: RequestBound>(xs: Seq<T>, d: int)
    requires all_rb_wf(xs), d >= 1
    ensures sum_rbf(xs, d - 1) <= sum_rbf(xs, d),
            sum_rbf(xs, d - 1) < sum_rbf(xs, d) <==> exists |i: int| 0 <= i < xs.len() && (#[trigger] xs[i]).rbf(d - 1) < xs[i].rbf(d)
    decreases xs.len()
{
    if xs.len() > 0 {
        let ys = xs.drop_last();
        assert forall |i: int| 0 <= i < ys.len() implies (#[trigger] ys[i]).wf() by { assert(ys[i] == xs[i]); }
        lemma_sum_rbf_step(ys, d);
        let l = xs.last();
        assert(l == xs[xs.len() - 1]);
        l.rbf_props();
        assert(l.rbf(d - 1) <= l.rbf(d));
        assert(sum_rbf(xs, d) == sum_rbf(ys, d) + l.rbf(d));
        assert(sum_rbf(xs, d - 1) == sum_rbf(ys, d - 1) + l.rbf(d - 1));
        if sum_rbf(xs, d - 1) < sum_rbf(xs, d) {
            if l.rbf(d - 1) < l.rbf(d) { assert(xs[xs.len() - 1].rbf(d - 1) < xs[xs.len() - 1].rbf(d)); }
            else { let i = choose |i: int| 0 <= i < ys.len() && (#[trigger] ys[i]).rbf(d - 1) < ys[i].rbf(d); assert(xs[i] == ys[i]); }
        }
        if exists |i: int| 0 <= i < xs.len() && (#[trigger] xs[i]).rbf(d - 1) < xs[i].rbf(d) {
            let i = choose |i: int| 0 <= i < xs.len() && (#[trigger] xs[i]).rbf(d - 1) < xs[i].rbf(d);
            if i < ys.len() { assert(ys[i] == xs[i]); }
        }
    }
}
/// the merged, de-duplicated component streams are exact for the sum
pub proof fn lemma_rvec_steps<T: RequestSteps>(xs: Seq<T>, n: int, s: Seq<Duration>)
    requires all_rb_wf(xs), str_inc(s),
        forall |a: int| #[trigger] has(s, a) ==> exists |i: int| 0 <= i < xs.len() && #[trigger] rs_sound(xs, n, i, a),
        forall |i: int, a: int| 0 <= i < xs.len() && #[trigger] rs_must(xs, n, i, a) ==> has(s, a),
    ensures steps_exact(s, |x: int| sum_rbf(xs, x), rvec_hz(xs, n)), steps_le(s, rvec_ub(xs, n))
{
    let f = |x: int| sum_rbf(xs, x);
    assert forall |d: int| #[trigger] has(s, d) implies d >= 1 && f(d - 1) < f(d) by {
        let i = choose |i: int| 0 <= i < xs.len() && #[trigger] rs_sound(xs, n, i, d);
        lemma_sum_rbf_step(xs, d);
    }
    assert forall |k: int| 0 <= k < s.len() implies (#[trigger] s[k]).val <= rvec_ub(xs, n) by {
        assert(has(s, s[k].v()));
        let i = choose |i: int| 0 <= i < xs.len() && #[trigger] rs_sound(xs, n, i, s[k].v());
        lemma_rvec_hz_le(xs, n, i);
    }
    assert forall |d: int| 1 <= d <= rvec_hz(xs, n) && f(d - 1) < f(d) implies #[trigger] has(s, d) by {
        lemma_sum_rbf_step(xs, d);
        let i = choose |i: int| 0 <= i < xs.len() && (#[trigger] xs[i]).rbf(d - 1) < xs[i].rbf(d);
        lemma_rvec_hz_le(xs, n, i);
        assert(rs_must(xs, n, i, d));
    }
}
/// what component i may yield / has to yield
pub open spec fn rs_sound<T: RequestSteps>(xs: Seq<T>, n: int, i: int, a: int) -> bool { a >= 1 && xs[i].rbf(a - 1) < xs[i].rbf(a) && a <= xs[i].rsteps_ub(n) }
pub open spec fn rs_must<T: RequestSteps>(xs: Seq<T>, n: int, i: int, a: int) -> bool { 1 <= a <= xs[i].rsteps_hz(n) && xs[i].rbf(a - 1) < xs[i].rbf(a) }


impl<T: RequestSteps> RequestSteps for Aggregate<T> {
    open spec fn rsteps_ok(&self, n: int) -> bool { rvec_steps_ok(self.individual@, n) }
    open spec fn rsteps_hz(&self, n: int) -> int { rvec_hz(self.individual@, n) }
    open spec fn rsteps_ub(&self, n: int) -> int { rvec_ub(self.individual@, n) }
    proof fn rsteps_hz_unbounded(&self, h: int) -> (n: int) { lemma_rvec_hz_unbounded(self.individual@, h) }
    proof fn rsteps_hz_mono(&self, n1: int, n2: int) { lemma_rvec_hz_mono(self.individual@, n1, n2); }
//@item src/demand/aggregate.rs :: impl<T: RequestBound> RequestBound for Aggregate<T> / fn steps_iter
    fn steps_iter<'a>(&'a self/*+*/, vf_n: usize/*-*/) -> /*+*/(r: /*-*//*@R21: Box<dyn Iterator<Item = Duration> + 'a> @*/VfStream<Duration>/*@.*//*+*/)/*-*/ {
//@+
        let ghost xs = self.individual@;
        let ghost sound = |i: int, a: int| rs_sound(xs, vf_n as int, i, a);
        let ghost must = |i: int, a: int| rs_must(xs, vf_n as int, i, a);
//@-
        /*@R21: Box::new( @*/let vf_r = VfStream::<Duration>::kmerge_map(/*@.*/
            self.individual/*@R21: .iter()
                .map( @*/.as_slice(), /*@.*/|rbf/*+*/: &T/*-*/| /*+*/-> (r: VfStream<Duration>)
                    requires rbf.wf(), rbf.rsteps_ok(vf_n as int)
                    ensures steps_exact(r.0@, rbf_fn(rbf), rbf.rsteps_hz(vf_n as int)), steps_le(r.0@, rbf.rsteps_ub(vf_n as int))
                { /*@probe*/ /*-*/rbf.steps_iter(/*+*/vf_n/*-*/)/*+*/ }/*-*//*@R21: )
                .kmerge() @*/, Ghost(sound), Ghost(must))/*@.*/
                .dedup()/*@R21: ,
        ) @*/;/*@.*/
//@+
        proof {
            assert forall |i: int, a: int| 0 <= i < xs.len() && #[trigger] rs_must(xs, vf_n as int, i, a) implies has(vf_r.0@, a) by { assert(must(i, a)); }
            assert forall |a: int| #[trigger] has(vf_r.0@, a) implies exists |i: int| 0 <= i < xs.len() && #[trigger] rs_sound(xs, vf_n as int, i, a) by {
                let i = choose |i: int| 0 <= i < xs.len() && #[trigger] sound(i, a);
                assert(rs_sound(xs, vf_n as int, i, a));
            }
            lemma_rvec_steps(xs, vf_n as int, vf_r.0@);
            assert(rbf_fn(self) =~= (|x: int| sum_rbf(xs, x)));
            assert forall |i: int| 0 <= i < vf_r.0@.len() implies 1 <= (#[trigger] vf_r.0@[i]).val by { assert(has(vf_r.0@, vf_r.0@[i].v())); }
        }
        vf_r
//@-
    }
//@end
}

impl<'a, T: RequestSteps> RequestSteps for Slice<'a, T> {
    open spec fn rsteps_ok(&self, n: int) -> bool { rvec_steps_ok(self.slice@, n) }
    open spec fn rsteps_hz(&self, n: int) -> int { rvec_hz(self.slice@, n) }
    open spec fn rsteps_ub(&self, n: int) -> int { rvec_ub(self.slice@, n) }
    proof fn rsteps_hz_unbounded(&self, h: int) -> (n: int) { lemma_rvec_hz_unbounded(self.slice@, h) }
    proof fn rsteps_hz_mono(&self, n1: int, n2: int) { lemma_rvec_hz_mono(self.slice@, n1, n2); }
//@item src/demand/slice.rs :: impl<'a, T: RequestBound> RequestBound for Slice<'a, T> / fn steps_iter
    fn steps_iter<'b>(&'b self/*+*/, vf_n: usize/*-*/) -> /*+*/(r: /*-*//*@R21: Box<dyn Iterator<Item = Duration> + 'b> @*/VfStream<Duration>/*@.*//*+*/)/*-*/ {
//@+
        let ghost xs = self.slice@;
        let ghost sound = |i: int, a: int| rs_sound(xs, vf_n as int, i, a);
        let ghost must = |i: int, a: int| rs_must(xs, vf_n as int, i, a);
//@-
        /*@R21: Box::new( @*/let vf_r = VfStream::<Duration>::kmerge_map(/*@.*/
            self.slice/*@R21: .iter()
                .map( @*/, /*@.*/|rbf/*+*/: &T/*-*/| /*+*/-> (r: VfStream<Duration>)
                    requires rbf.wf(), rbf.rsteps_ok(vf_n as int)
                    ensures steps_exact(r.0@, rbf_fn(rbf), rbf.rsteps_hz(vf_n as int)), steps_le(r.0@, rbf.rsteps_ub(vf_n as int))
                { /*@probe*/ /*-*/rbf.steps_iter(/*+*/vf_n/*-*/)/*+*/ }/*-*//*@R21: )
                .kmerge() @*/, Ghost(sound), Ghost(must))/*@.*/
                .dedup()/*@R21: ,
        ) @*/;/*@.*/
//@+
        proof {
            assert forall |i: int, a: int| 0 <= i < xs.len() && #[trigger] rs_must(xs, vf_n as int, i, a) implies has(vf_r.0@, a) by { assert(must(i, a)); }
            assert forall |a: int| #[trigger] has(vf_r.0@, a) implies exists |i: int| 0 <= i < xs.len() && #[trigger] rs_sound(xs, vf_n as int, i, a) by {
                let i = choose |i: int| 0 <= i < xs.len() && #[trigger] sound(i, a);
                assert(rs_sound(xs, vf_n as int, i, a));
            }
            lemma_rvec_steps(xs, vf_n as int, vf_r.0@);
            assert(rbf_fn(self) =~= (|x: int| sum_rbf(xs, x)));
            assert forall |i: int| 0 <= i < vf_r.0@.len() implies 1 <= (#[trigger] vf_r.0@[i]).val by { assert(has(vf_r.0@, vf_r.0@[i].v())); }
        }
        vf_r
//@-
    }
//@end
}

} // verus!
