// unit part: arrival::Curve::{new, from_trace, min_distance} (C12)
use std::collections::VecDeque;
use std::alloc::Allocator;
verus! {

// assumed specification of a std function that vstd does not cover
pub assume_specification<T, A: Allocator>[ VecDeque::<T, A>::back ](v: &VecDeque<T, A>) -> (r: Option<&T>)
    ensures r == (if v@.len() > 0 { Some(&v@[v@.len() - 1]) } else { None::<&T> });

// ------------------------------------------------------------------ spec library
pub open spec fn tv(tr: Seq<Offset>, j: int) -> int { tr[j].v() }
pub open spec fn sorted_trace(tr: Seq<Offset>) -> bool { forall |a: int, b: int| 0 <= a <= b < tr.len() ==> tv(tr, a) <= tv(tr, b) }
/// span of k+1 consecutive events ending at event j
pub open spec fn gap(tr: Seq<Offset>, j: int, k: int) -> int { tv(tr, j) - tv(tr, j - k) }
/// minimum such span among the first m events (m > k >= 1)
pub open spec fn min_gap(tr: Seq<Offset>, m: int, k: int) -> int
    decreases (if m > k + 1 { m - k - 1 } else { 0 })
{
    if m <= k + 1 { gap(tr, k, k) } else { let r = min_gap(tr, m - 1, k); let g = gap(tr, m - 1, k); if g < r { g } else { r } }
}
pub open spec fn imin(a: int, b: int) -> int { if a <= b { a } else { b } }
pub open spec fn imax0(a: int) -> int { if a >= 0 { a } else { 0 } }

/// C12: every recorded entry is the TRUE minimum distance of i+2 consecutive trace events
pub open spec fn dmin_exact(d: Seq<Duration>, tr: Seq<Offset>, m: int, prefix_jobs: int) -> bool {
    &&& d.len() == imin(imax0(m - 1), prefix_jobs)
    &&& forall |i: int| 0 <= i < d.len() ==> #[trigger] d[i].v() == min_gap(tr, m, i + 1)
}



// ------------------------------------------------------------------ C12, first sentence: composition
pub open spec fn trace_times(tr: Seq<Offset>) -> Seq<int> { Seq::new(tr.len(), |j: int| tv(tr, j)) }
pub proof fn lemma_min_gap_le(tr: Seq<Offset>, m: int, k: int, j: int)
    requires 1 <= k <= j < m
    ensures min_gap(tr, m, k) <= gap(tr, j, k)
    decreases m
{
    if m > k + 1 { if j < m - 1 { lemma_min_gap_le(tr, m - 1, k, j); } }
}
pub proof fn lemma_min_gap_attained(tr: Seq<Offset>, m: int, k: int) -> (j: int)
    requires 1 <= k < m
    ensures k <= j < m, min_gap(tr, m, k) == gap(tr, j, k)
    decreases m
{
    if m <= k + 1 { k } else {
        let j0 = lemma_min_gap_attained(tr, m - 1, k);
        if gap(tr, m - 1, k) < min_gap(tr, m - 1, k) { m - 1 } else { j0 }
    }
}
pub proof fn lemma_min_gap_mono(tr: Seq<Offset>, m: int, k: int)
    requires sorted_trace(tr), 1 <= k, k + 1 < m <= tr.len()
    ensures 0 <= min_gap(tr, m, k) <= min_gap(tr, m, k + 1)
{
    let j = lemma_min_gap_attained(tr, m, k + 1);
    lemma_min_gap_le(tr, m, k, j);
    assert(tv(tr, j - k - 1) <= tv(tr, j - k));
    let j2 = lemma_min_gap_attained(tr, m, k);
    assert(tv(tr, j2 - k) <= tv(tr, j2));
}
/// the trace respects the delta-min prefix extracted from it, and the prefix is non-decreasing
pub proof fn lemma_trace_respects(tr: Seq<Offset>, d: Seq<Duration>, prefix_jobs: int)
    requires sorted_trace(tr), dmin_exact(d, tr, tr.len() as int, prefix_jobs)
    ensures respects_dmin(trace_times(tr), d), sorted(trace_times(tr)),
            forall |i: int, k: int| 0 <= i <= k < d.len() ==> dm(d, i) <= dm(d, k)
{
    let rel = trace_times(tr); let m = tr.len() as int;
    assert forall |i: int, n: int| #![trigger rel[i], dm(d, n - 2)] 0 <= i && 2 <= n <= d.len() + 1 && i + n - 1 < rel.len() implies rel[i + n - 1] - rel[i] >= dm(d, n - 2) by {
        assert(d[n - 2].v() == min_gap(tr, m, n - 1));
        lemma_min_gap_le(tr, m, n - 1, i + n - 1);
    }
    assert forall |i: int, k: int| 0 <= i <= k < d.len() implies dm(d, i) <= dm(d, k) by {
        lemma_dm_chain(tr, d, prefix_jobs, i, k);
    }
}
pub proof fn lemma_dm_chain(tr: Seq<Offset>, d: Seq<Duration>, prefix_jobs: int, i: int, k: int)
    requires sorted_trace(tr), dmin_exact(d, tr, tr.len() as int, prefix_jobs), 0 <= i <= k < d.len()
    ensures dm(d, i) <= dm(d, k)
    decreases k - i
{
    if i < k {
        lemma_dm_chain(tr, d, prefix_jobs, i, k - 1);
        assert(d[k - 1].v() == min_gap(tr, tr.len() as int, k));
        assert(d[k].v() == min_gap(tr, tr.len() as int, k + 1));
        lemma_min_gap_mono(tr, tr.len() as int, k);
    }
}
/// C12: a curve inferred from a trace bounds the number of trace events in EVERY window of EVERY length
/// (for a run of cnt consecutive events of the sorted trace lying in [w, w + delta)).
pub proof fn lemma_from_trace_bounds_every_window(tr: Seq<Offset>, d: Seq<Duration>, prefix_jobs: int, i: int, cnt: int, w: int, delta: int)
    requires sorted_trace(tr), dmin_exact(d, tr, tr.len() as int, prefix_jobs), d.len() >= 1, dm(d, d.len() - 1) >= 1,
             delta >= 0, run_in_window(trace_times(tr), i, cnt, w, delta)
    ensures cnt <= na_curve(d, delta)
{
    lemma_trace_respects(tr, d, prefix_jobs);
    lemma_curve_never_undercounts(trace_times(tr), d, i, cnt, w, delta);
}

// ------------------------------------------------------------------ extracted code
impl Curve {
//@item src/arrival/curve.rs :: impl Curve / fn new
    pub fn new(delta_min_prefix: Vec<Duration>) -> /*+*/(c: /*-*/Curve/*+*/)
        requires delta_min_prefix@.len() >= 1      // the constructor's assert!
        ensures c.min_distance == delta_min_prefix/*-*/ {
        /*@R6: assert!( @*/vf_assert(/*@.*/!delta_min_prefix.is_empty());
        Curve {
            min_distance: delta_min_prefix,
        }
    }
//@end

//@item src/arrival/curve.rs :: impl Curve / fn from_trace
    pub fn from_trace(/*@R15: arrival_times: impl Iterator<Item = Offset> @*/arrival_times: &[Offset]/*@.*/, prefix_jobs: usize) -> /*+*/(c: /*-*/Curve/*+*/)
        requires sorted_trace(arrival_times@), prefix_jobs < 0x1_0000_0000, arrival_times.len() < 0x1_0000_0000,
                 arrival_times.len() >= 2, prefix_jobs >= 1,      // fewer than two events: the source carries a FIXME (d must not be empty)
        // C12: every recorded entry is the exact minimum span of i+2 consecutive trace events
        ensures dmin_exact(c.min_distance@, arrival_times@, arrival_times.len() as int, prefix_jobs as int)/*-*/ {
        let mut d: Vec<Duration> = Vec::with_capacity(prefix_jobs);
        let mut window: VecDeque<Offset> = VecDeque::with_capacity(prefix_jobs + 1);
//@+
        let ghost tr = arrival_times@;
//@-

        // consider all job arrivals in the trace
        /*@R15: for t in arrival_times @*/let mut vf_m: usize = 0;
        while vf_m < arrival_times.len()
            invariant
                tr == arrival_times@, sorted_trace(tr), vf_m <= arrival_times.len(), prefix_jobs < 0x1_0000_0000, arrival_times.len() < 0x1_0000_0000,
                window@.len() == imin(vf_m as int, prefix_jobs as int),
                forall |x: int| 0 <= x < window@.len() ==> #[trigger] window@[x] == tr[vf_m - window@.len() + x],
                dmin_exact(d@, tr, vf_m as int, prefix_jobs as int),
            decreases arrival_times.len() - vf_m
        /*@.*/{
//@+
            let t = arrival_times[vf_m];
            proof { if window@.len() > 0 { assert(window@[window@.len() - 1] == tr[vf_m - 1]); assert(tv(tr, vf_m - 1) <= tv(tr, vf_m as int)); } }
//@-
            // sanity check: the arrival times must be monotonic
            /*@R6: assert!( @*/vf_assert(/*@.*/t >= *(window.back().unwrap_or(&t)));
            // look at all arrival times in the sliding window, in order
            // from most recent to oldest
//@+
            let ghost d0 = d@;
//@-
            /*@R15: for (i, v) in window.iter().rev().enumerate() @*/let mut i: usize = 0;
            while i < window.len()
                invariant
                    tr == arrival_times@, sorted_trace(tr), vf_m < arrival_times.len(), t == tr[vf_m as int], i <= window@.len(),
                    window@.len() == imin(vf_m as int, prefix_jobs as int),
                    forall |x: int| 0 <= x < window@.len() ==> #[trigger] window@[x] == tr[vf_m - window@.len() + x],
                    dmin_exact(d0, tr, vf_m as int, prefix_jobs as int),
                    d@.len() == (if i as int > d0.len() { i as int } else { d0.len() as int }),
                    forall |x: int| 0 <= x < i ==> #[trigger] d@[x].v() == min_gap(tr, vf_m + 1, x + 1),
                    forall |x: int| i <= x < d@.len() ==> #[trigger] d@[x] == d0[x],
                decreases window@.len() - i
            /*@.*/{
//@+
                let v = &window[window.len() - 1 - i];
                proof { assert(window@[window@.len() - 1 - i] == tr[vf_m - 1 - i]); assert(tv(tr, vf_m - 1 - i) <= tv(tr, vf_m as int)); }
//@-
                // Compute the separation from the current arrival t to the arrival
                // of the (i + 1)-th preceding job.
                // So if i=0, we are looking at two adjacent jobs.
                let observed_gap = v.distance_to(t);
//@+
                proof { assert(observed_gap.v() == gap(tr, vf_m as int, i + 1)); }
//@-
                if d.len() <= i {
                    // we have not yet seen (i + 2) jobs in a row -> first sample
                    d.push(observed_gap)
                } else {
                    // update belief if we have seen two events with
                    // less separation than previously observed
//@+
                    proof { assert(d@[i as int] == d0[i as int]); assert(d0[i as int].v() == min_gap(tr, vf_m as int, i + 1)); }
//@-
                    d[i] = d[i].min(observed_gap)
                }
//@+
                i += 1;
//@-
            }
            // add arrival time to sliding window
            window.push_back(t);
            // trim sliding window if necessary
            if window.len() > prefix_jobs {
                window.pop_front();
            }
//@+
            vf_m += 1;
//@-
        }

        // FIXME: d must not be empty
        Curve::new(d)
    }
//@end
}

} // verus!
