// C14: "extrapolation never raises a bound" -- the part that holds: inside the extended prefix every entry of a sub-additive
// extension is at most the value the un-extrapolated curve (whole-prefix repetition of the ORIGINAL prefix) claims.
// (Beyond the extended prefix the repetition of the longer prefix can be looser: known finding KF11.)
verus! {

/// cost_curve of the original prefix, one whole prefix further
pub proof fn lemma_cost_curve_shift(c: Seq<Service>, n: int)
    requires c.len() >= 1, n > c.len()
    ensures cost_curve(c, n) == cv(c, c.len() - 1) + cost_curve(c, n - c.len())
{
    let len = c.len() as int; let big = cv(c, len - 1);
    let x = n / len; let y = n % len;
    lemma_fundamental_div_mod(n, len); lemma_mod_bound(n, len); lemma_div_pos_is_pos(n, len);
    assert(x >= 1) by { if x <= 0 { assert(len * x <= 0) by { lemma_mul_nonnegative(len, -x); lemma_mul_unary_negation(len, -x); } } }
    assert((x - 1) * len == len * x - len) by { lemma_mul_is_distributive_sub(len, x, 1); lemma_mul_is_commutative(len, x - 1); }
    lemma_fundamental_div_mod_converse(n - len, len, x - 1, y);
    assert(big * x == big * (x - 1) + big) by { lemma_mul_is_distributive_add(big, x - 1, 1); }
    if x - 1 == 0 { assert(big * (x - 1) == 0) by { lemma_mul_basics(big); } }
}
/// C14: an entry of the sub-additive extension never exceeds what the original prefix claims for the same number of jobs
pub proof fn lemma_c14_extension_tightens(c: Seq<Service>, e: Seq<Service>, m: int)
    requires c.len() >= 1, extends(c, e), 0 <= m < e.len()
    ensures cv(e, m) <= cost_curve(c, m + 1)
    decreases m
{ /*@lprobe*/
    let len = c.len() as int;
    if m < len {
        assert(e.subrange(0, len)[m] == c[m]);
        // n = m + 1 <= len: no whole prefix, or exactly one
        let n = m + 1;
        if n < len { lemma_small_mod(n as nat, len as nat); lemma_basic_div(n, len); }
        else { lemma_mod_self_0(len); lemma_div_by_self(len); assert(cv(c, len - 1) * 1 == cv(c, len - 1)) by { lemma_mul_basics(cv(c, len - 1)); } }
    } else {
        let w = e.subrange(0, m);
        assert(cv(e, m) == ext_next(w));
        // the candidate pairing the whole original prefix with the rest
        let k = if len - 1 <= m - len { len - 1 } else { m - len };
        assert(0 <= k <= m / 2) by { assert(2 * k <= (len - 1) + (m - len)); }
        lemma_min_range_le(|k: int| ext_cand(w, k), 0, (w.len() / 2) as int, k);
        assert(ext_cand(w, k) == cv(e, len - 1) + cv(e, m - len)) by { assert(w[k] == e[k]); assert(w[m - k - 1] == e[m - k - 1]); }
        assert(e.subrange(0, len)[len - 1] == c[len - 1]);
        lemma_c14_extension_tightens(c, e, m - len);
        lemma_cost_curve_shift(c, m + 1);
    }
}

} // verus!
