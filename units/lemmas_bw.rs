// C19 lemmas for the ROS 2 busy-window analysis: the result is a function of the supply-bound function and its inverse only
verus! {

pub proof fn lemma_fold_bw_ext<AB: ArrivalBound + ?Sized, CM: JobCostModel + ?Sized>(workload: Seq<Callback<AB, CM>>, eoc: &Callback<AB, CM>, g1: spec_fn(int) -> Option<int>, g2: spec_fn(int) -> Option<int>, a: int)
    requires forall |x: int| 0 <= x < a ==> #[trigger] g1(x) == g2(x)
    ensures fold_bw(workload, eoc, g1, a) == fold_bw(workload, eoc, g2, a)
    decreases a
{ if a > 0 { lemma_fold_bw_ext(workload, eoc, g1, g2, a - 1); assert(g1(a - 1) == g2(a - 1)); } }
/// C19: two supplies with the same SBF and the same inverse give the same busy-window result
pub proof fn lemma_c19_bw_supply_equiv<S1: SupplyBound + ?Sized, S2: SupplyBound + ?Sized, AB: ArrivalBound + ?Sized, CM: JobCostModel + ?Sized>(
    s1: &S1, s2: &S2, workload: Seq<Callback<AB, CM>>, subchain: Seq<&Callback<AB, CM>>, limit: int)
    requires forall |x: int| x >= 0 ==> #[trigger] s1.sbf(x) == s2.sbf(x), forall |d: int| d >= 0 ==> #[trigger] s1.st(d) == s2.st(d),
             subchain.len() >= 1, (subchain[subchain.len() - 1]).cost_model.wf()
    ensures bw_spec(s1, workload, subchain, limit) == bw_spec(s2, workload, subchain, limit)
{ /*@lprobe*/
    let eoc = subchain[subchain.len() - 1]; let npp = bw_npp(subchain); let single = subchain.len() == 1;
    assert forall |x: int| x >= 0 implies #[trigger] sbf_of(s1)(x) == sbf_of(s2)(x) by { assert(s1.sbf(x) == s2.sbf(x)); }
    lemma_scan_ext(sbf_of(s1), sbf_of(s2), 0, bw_w_max(workload, eoc, npp), 0, limit);
    if let Some(max_offset) = scan(sbf_of(s1), 0, bw_w_max(workload, eoc, npp), 0, limit) {
        let g1 = |a: int| bw_f(s1, workload, eoc, npp, single, limit, a); let g2 = |a: int| bw_f(s2, workload, eoc, npp, single, limit, a);
        assert forall |a: int| 0 <= a < max_offset implies #[trigger] g1(a) == g2(a) by {
            let w = bw_w_st(workload, eoc, npp, a);
            lemma_scan_ext(sbf_of(s1), sbf_of(s2), 0, w, 0, limit);
            lemma_scan(sbf_of(s1), 0, w, 0, limit);
            if let Some(s_star) = scan(sbf_of(s1), 0, w, 0, limit) {
                let n = eoc.selfint_a(a);
                eoc.cost_model.cost_props();
                assert(eoc.cost_model.cost(n) <= eoc.cost_model.cost(n + 1));
                assert(s1.sbf(s_star) == s2.sbf(s_star));
                let dd = sat(s1.sbf(s_star) - 1) + (eoc.cost_model.cost(n + 1) - eoc.cost_model.cost(n));
                assert(s1.st(dd) == s2.st(dd));
            }
        }
        lemma_fold_bw_ext(workload, eoc, g1, g2, max_offset);
    }
}
/// ... in particular a periodic reservation with budget = period and a constrained reservation with budget = deadline = period
/// behave like a dedicated processor
pub proof fn lemma_c19_bw_full_budget<AB: ArrivalBound + ?Sized, CM: JobCostModel + ?Sized>(p: SupplyPeriodic, c: Constrained, workload: Seq<Callback<AB, CM>>, subchain: Seq<&Callback<AB, CM>>, limit: int)
    requires p.budget.v() == p.period.v() >= 1, c.budget.v() == c.deadline.v() == c.period.v() >= 1, subchain.len() >= 1, (subchain[subchain.len() - 1]).cost_model.wf()
    ensures bw_spec(&p, workload, subchain, limit) == bw_spec(&Dedicated {}, workload, subchain, limit),
            bw_spec(&c, workload, subchain, limit) == bw_spec(&Dedicated {}, workload, subchain, limit),
{ /*@lprobe*/
    let dd = Dedicated {};
    assert forall |x: int| x >= 0 implies #[trigger] dd.sbf(x) == p.sbf(x) && dd.sbf(x) == c.sbf(x) by { lemma_full_budget_is_dedicated(p.period.v(), x); lemma_full_budget_is_dedicated(c.period.v(), x); }
    assert forall |d: int| d >= 0 implies #[trigger] dd.st(d) == p.st(d) && dd.st(d) == c.st(d) by { lemma_full_budget_is_dedicated(p.period.v(), d); lemma_full_budget_is_dedicated(c.period.v(), d); }
    lemma_c19_bw_supply_equiv(&dd, &p, workload, subchain, limit);
    lemma_c19_bw_supply_equiv(&dd, &c, workload, subchain, limit);
}

} // verus!
