// unit part: src/supply/mod.rs -- the SupplyBound trait; spec members are the contract every
// implementation (library or user code) has to meet.
verus! {

pub trait SupplyBound {
    /// well-formedness of the parameters (e.g. 1 <= budget <= period)
    spec fn wf(&self) -> bool;
    /// the supply-bound function this object denotes
    spec fn sbf(&self, delta: int) -> int;
    /// its least inverse
    spec fn st(&self, demand: int) -> int;
    /// magnitude envelope of provided_service (machine arithmetic is not treated as mathematical)
    spec fn ps_ok(&self, delta: int) -> bool;
    /// C09: zero at zero, non-decreasing, at most one unit of service per unit of time
    proof fn sbf_props(&self)
        requires self.wf()
        ensures self.sbf(0) == 0,
          forall |a: int, b: int| #![trigger self.sbf(a), self.sbf(b)] 0 <= a <= b ==> self.sbf(a) <= self.sbf(b) <= self.sbf(a) + (b - a);
    /// C09: st is the exact least inverse
    proof fn st_props(&self, demand: int)
        requires self.wf(), demand >= 0
        ensures self.st(demand) >= 0, self.sbf(self.st(demand)) >= demand,
           forall |t: int| 0 <= t < self.st(demand) ==> self.sbf(t) < demand;
    proof fn ps_ok_down(&self, a: int, b: int)
        requires self.wf(), 0 <= a <= b, self.ps_ok(b)
        ensures self.ps_ok(a);

//@item src/supply/mod.rs :: trait SupplyBound / fn provided_service
    fn provided_service(&self, delta: Duration) -> /*+*/(r: /*-*/Service/*+*/)
        requires self.wf(), self.ps_ok(delta.v())
        ensures r.v() == self.sbf(delta.v())/*-*/;
//@end

//@item src/supply/mod.rs :: trait SupplyBound / fn service_time
    fn service_time(&self, demand: Service) -> /*+*/(r: /*-*/Duration/*+*/)
        requires self.wf(), self.st(demand.v()) <= u64::MAX, self.ps_ok(self.st(demand.v())),
        ensures r.v() == self.st(demand.v())/*-*/
    {
        let mut t = Duration::from(demand);
//@+
        proof { self.st_props(demand.v()); self.sbf_props(); }
//@-
        loop
//@+
            invariant self.wf(), self.st(demand.v()) <= u64::MAX, t.v() <= self.st(demand.v()),
               self.ps_ok(self.st(demand.v())),
               self.st(demand.v()) >= 0, self.sbf(self.st(demand.v())) >= demand.v(),
               forall |t: int| 0 <= t < self.st(demand.v()) ==> self.sbf(t) < demand.v(),
            decreases self.st(demand.v()) - t.v()
//@-
        {
//@+
            proof { self.ps_ok_down(t.v(), self.st(demand.v())); }
//@-
            let supply = self.provided_service(t);
            if supply >= demand {
                return t;
            }
//@+
            proof { self.sbf_props(); assert(self.sbf(t.v() + (demand.v() - supply.v())) <= self.sbf(t.v()) + (demand.v() - supply.v())); }
//@-
            // jump ahead by how much is still missing
            t += Duration::from(demand - supply);
        }
    }
//@end
}

} // verus!
