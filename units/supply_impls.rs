// unit part: src/supply/{dedicated,periodic,constrained}.rs
use vstd::arithmetic::div_mod::*;
use vstd::arithmetic::mul::*;
verus! {

// ------------------------------------------------------------------ spec library
pub open spec fn max0(x: int) -> int { if x > 0 { x } else { 0 } }
pub open spec fn clamp(x: int, hi: int) -> int { if x < 0 { 0 } else if x > hi { hi } else { x } }

/// Shin & Lee (RTSS'03), periodic resource model Γ(Π=p, Θ=q), in the paper's notation
pub open spec fn sbf_shin_lee(p: int, q: int, t: int) -> int {
    let k0 = ceil_div(t - (p - q), p);
    let k = if k0 > 1 { k0 } else { 1 };
    if (k + 1) * p - 2 * q <= t <= (k + 1) * p - q { t - (k + 1) * (p - q) } else { (k - 1) * q }
}
/// deadline-constrained reservation: normal form over δ = (p-q) + p*k + y, 0 <= y < p
pub open spec fn sbf_constrained(p: int, q: int, dl: int, t: int) -> int {
    if t < p - q { 0 } else {
        let k = (t - (p - q)) / p;
        let y = (t - (p - q)) % p;
        q * k + clamp(y - (dl - q), q)
    }
}
pub open spec fn sbf_periodic(p: int, q: int, t: int) -> int { sbf_constrained(p, q, p, t) }

pub proof fn lemma_nf(p: int, q: int, dl: int, k: int, y: int)
    requires 1 <= q <= dl <= p, k >= 0, 0 <= y < p
    ensures sbf_constrained(p, q, dl, (p - q) + p * k + y) == q * k + clamp(y - (dl - q), q),
            p * k >= 0, q * k >= 0
{
    let t = (p - q) + p * k + y;
    lemma_mul_nonnegative(p, k); lemma_mul_nonnegative(q, k);
    assert(k * p == p * k) by { lemma_mul_is_commutative(p, k); }
    lemma_fundamental_div_mod_converse(t - (p - q), p, k, y);
}
#[verifier::spinoff_prover]
pub proof fn lemma_sbf_step(p: int, q: int, dl: int, t: int)
    requires 1 <= q <= dl <= p, t >= 0
    ensures 0 <= sbf_constrained(p, q, dl, t) <= sbf_constrained(p, q, dl, t + 1) <= sbf_constrained(p, q, dl, t) + 1
{
    let s = p - q;
    if t + 1 < s {
    } else if t < s {
        lemma_nf(p, q, dl, 0, 0);
    } else {
        let (k, y) = lemma_decompose(p, t - s);
        lemma_nf(p, q, dl, k, y);
        if y + 1 < p { lemma_nf(p, q, dl, k, y + 1); }
        else {
            lemma_nf(p, q, dl, k + 1, 0);
            assert(p * (k + 1) == p * k + p) by { lemma_mul_is_distributive_add(p, k, 1); }
            assert(q * (k + 1) == q * k + q) by { lemma_mul_is_distributive_add(q, k, 1); }
        }
    }
}
pub proof fn lemma_sbf_lip(p: int, q: int, dl: int, a: int, b: int)
    requires 1 <= q <= dl <= p, 0 <= a <= b
    ensures 0 <= sbf_constrained(p, q, dl, a) <= sbf_constrained(p, q, dl, b) <= sbf_constrained(p, q, dl, a) + (b - a)
    decreases b - a
{
    if a < b { lemma_sbf_lip(p, q, dl, a, b - 1); lemma_sbf_step(p, q, dl, b - 1); } else { lemma_sbf_step(p, q, dl, a); }
}
/// least inverse (normal form)
pub open spec fn st_constrained(p: int, q: int, dl: int, d: int) -> int {
    if d <= 0 { 0 } else {
        let k = d / q; let f = d % q;
        if f > 0 { (p - q) + p * k + (dl - q) + f } else { (dl - q) + p * k }
    }
}
#[verifier::spinoff_prover]
pub proof fn lemma_st(p: int, q: int, dl: int, d: int)
    requires 1 <= q <= dl <= p, d >= 0
    ensures st_constrained(p, q, dl, d) >= 0,
            sbf_constrained(p, q, dl, st_constrained(p, q, dl, d)) >= d,
            forall |t: int| 0 <= t < st_constrained(p, q, dl, d) ==> sbf_constrained(p, q, dl, t) < d
{
    let r = st_constrained(p, q, dl, d);
    if d == 0 { lemma_nf(p, q, dl, 0, 0); lemma_sbf_lip(p, q, dl, 0, 0); }
    else {
        let (k, f) = lemma_decompose(q, d);
        assert(d == q * k + f);
        lemma_mul_nonnegative(p, k);
        if f > 0 {
            lemma_nf(p, q, dl, k, (dl - q) + f);
            lemma_nf(p, q, dl, k, (dl - q) + f - 1);
            assert(sbf_constrained(p, q, dl, r) == d);
            assert(sbf_constrained(p, q, dl, r - 1) == d - 1);
        } else {
            assert(k >= 1) by { if k <= 0 { assert(q * k <= 0) by { lemma_mul_nonnegative(q, -k); lemma_mul_unary_negation(q, -k); } } }
            assert(p * (k - 1) == p * k - p) by { lemma_mul_is_distributive_sub(p, k, 1); }
            assert(q * (k - 1) == q * k - q) by { lemma_mul_is_distributive_sub(q, k, 1); }
            if dl < p {
                lemma_nf(p, q, dl, k - 1, dl);
                lemma_nf(p, q, dl, k - 1, dl - 1);
            } else {
                lemma_nf(p, q, dl, k, 0);
                lemma_nf(p, q, dl, k - 1, p - 1);
            }
            assert(sbf_constrained(p, q, dl, r) == d);
            assert(sbf_constrained(p, q, dl, r - 1) == d - 1);
        }
        assert forall |t: int| 0 <= t < r implies sbf_constrained(p, q, dl, t) < d by { lemma_sbf_lip(p, q, dl, t, r - 1); }
    }
}


/// the normal form used in the contracts coincides with Shin & Lee's published formula
#[verifier::spinoff_prover]
pub proof fn lemma_shin_lee(p: int, q: int, t: int)
    requires 1 <= q <= p, t >= 0
    ensures sbf_periodic(p, q, t) == sbf_shin_lee(p, q, t)
{
    let s = p - q;
    if t < s {
        // k0 <= 0
        assert(ceil_div(t - s, p) <= 0) by {
            assert(t - s + p - 1 < p);
            let a = t - s + p - 1;
            lemma_fundamental_div_mod(a, p); lemma_mod_bound(a, p);
            if a / p >= 1 { lemma_mul_inequality(1, a / p, p); lemma_mul_is_commutative(p, a / p); }
        }
        assert(sbf_periodic(p, q, t) == 0);
        assert((1 + 1) * p - 2 * q > t);
        assert((1 - 1) * q == 0);
        assert(sbf_shin_lee(p, q, t) == 0);
    } else {
        let (m, y) = lemma_decompose(p, t - s);
        lemma_nf(p, q, p, m, y);
        lemma_mul_nonnegative(p, m);
        if y == 0 {
            assert(ceil_div(t - s, p) == m) by {
                assert(t - s + p - 1 == p * m + (p - 1));
                assert(m * p == p * m) by { lemma_mul_is_commutative(p, m); }
                lemma_fundamental_div_mod_converse(t - s + p - 1, p, m, p - 1);
            }
            if m >= 1 {
                assert((m + 1) * p == p * m + p) by { lemma_mul_is_distributive_add(p, m, 1); lemma_mul_is_commutative(p, m + 1); }
                assert((m + 1) * (p - q) == (m + 1) * p - (m + 1) * q) by { lemma_mul_is_distributive_sub(m + 1, p, q); }
                assert((m + 1) * q == q * m + q) by { lemma_mul_is_distributive_add(q, m, 1); lemma_mul_is_commutative(q, m + 1); }
                assert((m - 1) * q == q * m - q) by { lemma_mul_is_distributive_sub(q, m, 1); lemma_mul_is_commutative(q, m - 1); }
                assert(t == (m + 1) * p - q);
                assert(sbf_shin_lee(p, q, t) == t - (m + 1) * (p - q));
                assert(sbf_periodic(p, q, t) == q * m);
            } else {
                assert((1 + 1) * p == 2 * p);
                assert((1 + 1) * (p - q) == 2 * (p - q));
                assert((1 - 1) * q == 0);
                assert(m == 0);
                assert(p * m == 0) by { lemma_mul_basics(p); }
                assert(t == s);
                assert(sbf_periodic(p, q, t) == 0);
                assert(sbf_shin_lee(p, q, t) == 0);
            }
        } else {
            assert(ceil_div(t - s, p) == m + 1) by {
                assert(t - s + p - 1 == p * (m + 1) + (y - 1)) by { lemma_mul_is_distributive_add(p, m, 1); }
                assert((m + 1) * p == p * (m + 1)) by { lemma_mul_is_commutative(p, m + 1); }
                lemma_fundamental_div_mod_converse(t - s + p - 1, p, m + 1, y - 1);
            }
            let k = m + 1;
            assert((k + 1) * p == p * m + 2 * p) by { lemma_mul_is_distributive_add(p, m, 2); lemma_mul_is_commutative(p, m + 2); }
            assert((k + 1) * q == q * m + 2 * q) by { lemma_mul_is_distributive_add(q, m, 2); lemma_mul_is_commutative(q, m + 2); }
            assert((k + 1) * (p - q) == (k + 1) * p - (k + 1) * q) by { lemma_mul_is_distributive_sub(k + 1, p, q); }
            assert((k - 1) * q == q * m) by { lemma_mul_is_commutative(q, m); }
            assert(sbf_periodic(p, q, t) == q * m + max0(y - s)) by { assert(clamp(y - (p - q), q) == max0(y - s)); }
            assert(t == s + p * m + y);
            if y >= s { assert(sbf_shin_lee(p, q, t) == t - (k + 1) * (p - q)); } else { assert(sbf_shin_lee(p, q, t) == (k - 1) * q); }
        }
    }
}


/// a periodic reservation with budget = period is a dedicated processor
pub proof fn lemma_full_budget_is_dedicated(p: int, t: int)
    requires p >= 1, t >= 0
    ensures sbf_periodic(p, p, t) == t, st_constrained(p, p, p, t) == t
{
    let (k, y) = lemma_decompose(p, t);
    lemma_nf(p, p, p, k, y);
}


// ------------------------------------------------------------------ extracted code
//@item src/supply/dedicated.rs :: struct Dedicated
pub struct Dedicated {
    // nothing to define here
}
//@end
//@item src/supply/periodic.rs :: struct Periodic
pub struct /*@R19: Periodic @*/SupplyPeriodic/*@.*/ {
    pub period: Duration,
    pub budget: Service,
}
//@end
//@item src/supply/constrained.rs :: struct Constrained
pub struct Constrained {
    pub period: Duration,
    pub budget: Service,
    pub deadline: Duration,
}
//@end


// derive(Clone, Copy) (R12)
impl Clone for Dedicated { fn clone(&self) -> (r: Dedicated) ensures r == *self { Dedicated {} } }
impl Copy for Dedicated {}
impl Clone for SupplyPeriodic { fn clone(&self) -> (r: SupplyPeriodic) ensures r == *self { SupplyPeriodic { period: self.period, budget: self.budget } } }
impl Copy for SupplyPeriodic {}
impl Clone for Constrained { fn clone(&self) -> (r: Constrained) ensures r == *self { Constrained { period: self.period, budget: self.budget, deadline: self.deadline } } }
impl Copy for Constrained {}

impl Dedicated {
//@item src/supply/dedicated.rs :: impl Dedicated / fn new
    pub fn new() -> Dedicated {
        Dedicated {}
    }
//@end
}

impl SupplyBound for Dedicated {
    open spec fn wf(&self) -> bool { true }
    open spec fn sbf(&self, delta: int) -> int { delta }
    open spec fn st(&self, demand: int) -> int { demand }
    open spec fn ps_ok(&self, delta: int) -> bool { true }
    proof fn sbf_props(&self) {}
    proof fn st_props(&self, demand: int) {}
    proof fn ps_ok_down(&self, a: int, b: int) {}
//@item src/supply/dedicated.rs :: impl SupplyBound for Dedicated / fn provided_service
    fn provided_service(&self, delta: Duration) -> Service {
        Service::from(delta)
    }
//@end
//@item src/supply/dedicated.rs :: impl SupplyBound for Dedicated / fn service_time
    fn service_time(&self, demand: Service) -> Duration {
        Duration::from(demand)
    }
//@end
}

impl SupplyPeriodic {
//@item src/supply/periodic.rs :: impl Periodic / fn new
    pub fn new(budget: Service, period: Duration) -> /*+*/(r: /*-*/Self/*+*/)
        requires budget.val <= period.val     // the constructor's assert!
        ensures r.period == period, r.budget == budget, budget.val >= 1 ==> r.wf()/*-*/ {
        /*@R6: assert!( @*/vf_assert(/*@.*/Duration::from(budget) <= period);
        /*@R19: Periodic @*/SupplyPeriodic/*@.*/ { period, budget }
    }
//@end
}

impl Constrained {
//@item src/supply/constrained.rs :: impl Constrained / fn new
    pub fn new(budget: Service, deadline: Duration, period: Duration) -> /*+*/(r: /*-*/Self/*+*/)
        requires budget.val <= deadline.val <= period.val
        ensures r.period == period, r.budget == budget, r.deadline == deadline, budget.val >= 1 ==> r.wf()/*-*/ {
        /*@R6: assert!( @*/vf_assert(/*@.*/Duration::from(budget) <= deadline);
        /*@R6: assert!( @*/vf_assert(/*@.*/deadline <= period);
        Constrained {
            period,
            budget,
            deadline,
        }
    }
//@end
}

impl SupplyBound for SupplyPeriodic {
    open spec fn wf(&self) -> bool { 1 <= self.budget.val <= self.period.val }
    open spec fn sbf(&self, delta: int) -> int { sbf_periodic(self.period.v(), self.budget.v(), delta) }
    open spec fn st(&self, demand: int) -> int { st_constrained(self.period.v(), self.budget.v(), self.period.v(), demand) }
    open spec fn ps_ok(&self, delta: int) -> bool { delta + 2 * self.period.v() <= u64::MAX }
    proof fn sbf_props(&self) {
        let (p, q) = (self.period.v(), self.budget.v());
        lemma_nf(p, q, p, 0, 0);
        assert forall |a: int, b: int| 0 <= a <= b implies #[trigger] self.sbf(a) <= #[trigger] self.sbf(b) <= self.sbf(a) + (b - a) by { lemma_sbf_lip(p, q, p, a, b); }
    }
    proof fn st_props(&self, demand: int) { lemma_st(self.period.v(), self.budget.v(), self.period.v(), demand); }
    proof fn ps_ok_down(&self, a: int, b: int) {}

//@item src/supply/periodic.rs :: impl SupplyBound for Periodic / fn provided_service
    fn provided_service(&self, delta: Duration) -> Service {
        // Supply bound function of the periodic resource model,
        // as given by Shin & Lee (RTSS 2003).

        let budget = Duration::from(self.budget);

        let slack = self.period - budget;
        if slack > delta {
            return Service::none();
        }
        // implicit floor due to integer division
        let full_periods = (delta - slack) / self.period;
//@+
        proof {
            let (p, q) = (self.period.v(), self.budget.v());
            let (k, y) = lemma_decompose(p, delta.v() - slack.v());
            lemma_nf(p, q, p, k, y);
            assert(k == full_periods);
            assert(q * k <= p * k) by { lemma_mul_inequality(q, p, k); lemma_mul_is_commutative(q, k); lemma_mul_is_commutative(p, k); }
        }
//@-
        let x = slack + slack + self.period * full_periods;
        let fractional_period = if x < delta {
            Service::from(delta - x)
        } else {
            Service::none()
        };

        self.budget * full_periods + fractional_period
    }
//@end

//@item src/supply/periodic.rs :: impl SupplyBound for Periodic / fn service_time
    fn service_time(&self, demand: Service) -> Duration {
        if demand.is_none() {
            return Duration::zero();
        }

        let demand = Duration::from(demand);
        let budget = Duration::from(self.budget);
        let slack = self.period - budget;

        // implicit floor due to integer division
        let full_periods = demand / budget;
//@+
        proof {
            let (p, q) = (self.period.v(), self.budget.v());
            let (k, f) = lemma_decompose(q, demand.v());
            assert(k == full_periods);
            lemma_mul_nonnegative(p, k);
            assert(q * k <= p * k) by { lemma_mul_inequality(q, p, k); lemma_mul_is_commutative(q, k); lemma_mul_is_commutative(p, k); }
            assert(self.st(demand.v()) >= p * k);
        }
//@-
        let full_budget = budget * full_periods;
        let fractional_budget = if full_budget < demand {
            slack + demand - full_budget
        } else {
            Duration::zero()
        };

        slack + self.period * full_periods + fractional_budget
    }
//@end
}

impl SupplyBound for Constrained {
    open spec fn wf(&self) -> bool { 1 <= self.budget.val <= self.deadline.val <= self.period.val }
    open spec fn sbf(&self, delta: int) -> int { sbf_constrained(self.period.v(), self.budget.v(), self.deadline.v(), delta) }
    open spec fn st(&self, demand: int) -> int { st_constrained(self.period.v(), self.budget.v(), self.deadline.v(), demand) }
    open spec fn ps_ok(&self, delta: int) -> bool { delta + 2 * self.period.v() <= u64::MAX }
    proof fn sbf_props(&self) {
        let (p, q, dl) = (self.period.v(), self.budget.v(), self.deadline.v());
        lemma_nf(p, q, dl, 0, 0);
        assert forall |a: int, b: int| 0 <= a <= b implies #[trigger] self.sbf(a) <= #[trigger] self.sbf(b) <= self.sbf(a) + (b - a) by { lemma_sbf_lip(p, q, dl, a, b); }
    }
    proof fn st_props(&self, demand: int) { lemma_st(self.period.v(), self.budget.v(), self.deadline.v(), demand); }
    proof fn ps_ok_down(&self, a: int, b: int) {}

//@item src/supply/constrained.rs :: impl SupplyBound for Constrained / fn provided_service
    fn provided_service(&self, delta: Duration) -> Service {
        let budget = Duration::from(self.budget);
        let shift = self.period - budget;
        if shift > delta {
            return Service::none();
        }
        // implicit floor due to integer division
        let full_periods = (delta - shift) / self.period;
//@+
        proof {
            let (p, q, dl) = (self.period.v(), self.budget.v(), self.deadline.v());
            let (k, y) = lemma_decompose(p, delta.v() - shift.v());
            lemma_nf(p, q, dl, k, y);
            assert(k == full_periods);
            assert(q * k <= p * k) by { lemma_mul_inequality(q, p, k); lemma_mul_is_commutative(q, k); lemma_mul_is_commutative(p, k); }
        }
//@-
        let x = shift + self.period * full_periods + self.deadline - budget;
        let fractional_period = if x < delta {
            self.budget.min(Service::from(delta - x))
        } else {
            Service::none()
        };

        self.budget * full_periods + fractional_period
    }
//@end

//@item src/supply/constrained.rs :: impl SupplyBound for Constrained / fn service_time
    fn service_time(&self, demand: Service) -> Duration {
        if demand.is_none() {
            return Duration::zero();
        }

        let budget = Duration::from(self.budget);
        let demand = Duration::from(demand);

        // implicit floor due to integer division
        let full_periods = demand / budget;
//@+
        proof {
            let (p, q) = (self.period.v(), self.budget.v());
            let (k, f) = lemma_decompose(q, demand.v());
            assert(k == full_periods);
            lemma_mul_nonnegative(p, k);
            assert(q * k <= p * k) by { lemma_mul_inequality(q, p, k); lemma_mul_is_commutative(q, k); lemma_mul_is_commutative(p, k); }
            assert(self.st(demand.v()) >= p * k);
            lemma_st(p, q, self.deadline.v(), demand.v());
            assert(self.ps_ok(self.st(demand.v())));
            assert(demand.v() == q * k + f);
            assert(f <= self.st(demand.v()));
        }
//@-
        let full_budget = budget * full_periods;
        let fractional_budget = if full_budget < demand {
            demand - full_budget + self.period - budget
        } else {
            Duration::zero()
        };

        self.deadline - budget + self.period * full_periods + fractional_budget
    }
//@end
}

} // verus!
