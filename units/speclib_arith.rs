// shared arithmetic spec functions and lemmas
use vstd::arithmetic::div_mod::*;
use vstd::arithmetic::mul::*;
verus! {

pub open spec fn ceil_div(a: int, b: int) -> int { (a + b - 1) / b }

pub proof fn lemma_ceil_div(a: int, b: int)
    requires a >= 0, b >= 1
    ensures ceil_div(a, b) == a / b + (if a % b > 0 { 1int } else { 0int }),
            ceil_div(a, b) >= 0,
            // characterisation: the least n with n*b >= a
            ceil_div(a, b) * b >= a, (ceil_div(a, b) - 1) * b < a || a == 0,
{
    let q = a / b; let r = a % b;
    lemma_fundamental_div_mod(a, b); lemma_mod_bound(a, b); lemma_div_pos_is_pos(a, b);
    assert(q * b == b * q) by { lemma_mul_is_commutative(q, b); }
    if r > 0 {
        assert((q + 1) * b == b * q + b) by { lemma_mul_is_distributive_add(b, q, 1); lemma_mul_is_commutative(b, q + 1); }
        lemma_fundamental_div_mod_converse(a + b - 1, b, q + 1, r - 1);
    } else {
        lemma_fundamental_div_mod_converse(a + b - 1, b, q, b - 1);
        if q >= 1 { assert((q - 1) * b == b * q - b) by { lemma_mul_is_distributive_sub(b, q, 1); lemma_mul_is_commutative(b, q - 1); } }
        else { assert(b * q == 0) by { lemma_mul_basics(b); } }
    }
}
pub proof fn lemma_ceil_div_mono(a: int, a2: int, b: int)
    requires 0 <= a <= a2, b >= 1
    ensures ceil_div(a, b) <= ceil_div(a2, b)
{
    lemma_div_is_ordered(a + b - 1, a2 + b - 1, b);
}

pub proof fn lemma_decompose(p: int, x: int) -> (r: (int, int))
    requires p >= 1, x >= 0
    ensures r.0 >= 0, 0 <= r.1 < p, x == p * r.0 + r.1, r.0 == x / p, r.1 == x % p
{
    lemma_fundamental_div_mod(x, p); lemma_mod_bound(x, p); lemma_div_pos_is_pos(x, p);
    (x / p, x % p)
}

} // verus!
