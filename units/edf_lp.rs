// unit part: src/edf/limited_preemptive.rs (C06)
verus! {

//@item src/edf/limited_preemptive.rs :: struct TaskUnderAnalysis
pub struct TaskUnderAnalysis<'a, AB: ArrivalBound + ?Sized> {
    /// The task's WCET.
    pub wcet: wcet::Scalar,

    /// The task's arrival bound.
    pub arrivals: &'a AB,

    /// The task's relative deadline.
    pub deadline: Duration,

    /// The maximum length of the task's last segment.
    pub last_np_segment: Service,
}
//@end
//@item src/edf/limited_preemptive.rs :: struct InterferingTask
pub struct InterferingTask<'a, RBF: RequestBound + ?Sized> {
    /// The RBF upper-bounding the task's demand.
    pub rbf: &'a RBF,

    /// The task's relative deadline.
    pub deadline: Duration,

    /// The maximum length of the task's segments.
    pub max_np_segment: Service,
}
//@end

/// std::cmp::min on Duration (R12: Ord::min of the derived Ord)
pub fn vf_min(a: Duration, b: Duration) -> (r: Duration) ensures r.v() == imin(a.v(), b.v()) { if a.val <= b.val { a } else { b } }

pub open spec fn otx_of<B: RequestBound + ?Sized>(ot: Seq<InterferingTask<B>>) -> Seq<OTX> { Seq::new(ot.len(), |i: int| OTX { f: rbf_fn(ot[i].rbf), dl: ot[i].deadline.v(), seg: ot[i].max_np_segment.v() }) }
pub open spec fn tuaf<A: ArrivalBound + ?Sized>(tua: &TaskUnderAnalysis<A>) -> spec_fn(int) -> int { tua_fn(tua.wcet.wcet.v(), tua.arrivals) }
pub open spec fn pre<A: ArrivalBound + ?Sized, B: RequestBound + ?Sized>(tua: &TaskUnderAnalysis<A>, ot: Seq<InterferingTask<B>>, limit: int) -> bool {
    &&& 1 <= limit && limit + tua.wcet.wcet.v() < u64::MAX
    &&& tua.arrivals.wf() && forall |i: int| 0 <= i < ot.len() ==> (#[trigger] ot[i]).rbf.wf()
    &&& tua.wcet.wcet.v() >= 1 && 1 <= tua.last_np_segment.v() <= tua.wcet.wcet.v()     // segment lengths within the WCET
    &&& tua.arrivals.na(1) >= 1
    &&& tua.deadline.v() + limit + 1 <= u64::MAX
    &&& forall |d: int| 0 <= d <= limit + 1 ==> #[trigger] tua.arrivals.na_ok(d)
    &&& tua.arrivals.na(limit + 1) <= usize::MAX
    &&& forall |i: int, d: int| 0 <= i < ot.len() && 0 <= d <= limit ==> #[trigger] ot[i].rbf.rb_ok(d)
    &&& forall |i: int| 0 <= i < ot.len() ==> (#[trigger] ot[i]).rbf.rb_ok(1)
    &&& forall |i: int| 0 <= i < ot.len() ==> (#[trigger] ot[i]).max_np_segment.v() + sum_f(to_ots(otx_of(ot)), arg_bw(limit)) + tuaf(tua)(limit + 1) <= u64::MAX
    &&& sum_f(to_ots(otx_of(ot)), arg_bw(limit)) + tuaf(tua)(limit + 1) <= u64::MAX
}
/// C06 for limited-preemptive EDF: offset-dependent blocking, rtct = C - (last - eps), remaining cost last - 1
pub open spec fn spec_result<A: ArrivalBound + ?Sized, B: RequestBound + ?Sized>(tua: &TaskUnderAnalysis<A>, ot: Seq<InterferingTask<B>>, limit: int) -> Option<int> {
    edfx_spec(tuaf(tua), tua.deadline.v(), otx_of(ot), tua.last_np_segment.v() - 1, limit)
}
pub proof fn lemma_otx_wf<B: RequestBound + ?Sized>(ot: Seq<InterferingTask<B>>)
    requires forall |i: int| 0 <= i < ot.len() ==> (#[trigger] ot[i]).rbf.wf()
    ensures otx_wf(otx_of(ot)), ots_wf(to_ots(otx_of(ot)))
{
    assert forall |i: int| 0 <= i < otx_of(ot).len() implies rbf_like(#[trigger] otx_of(ot)[i].f) by { lemma_rbf_fn_like(ot[i].rbf); }
    lemma_to_ots_wf(otx_of(ot));
}

/// the observation of the step streams covers every offset the search can reach (and the eager reading of the shift does not overflow)
pub open spec fn pre_steps_ot<B: RequestSteps + ?Sized>(ot: &InterferingTask<B>, dl: int, max: int, n: int) -> bool {
    ot.rbf.rsteps_ok(n) && ot.rbf.rsteps_hz(n) >= max + dl && ot.rbf.rsteps_ub(n) + ot.deadline.v() <= u64::MAX
}
pub open spec fn pre_steps<A: ArrivalSteps + ?Sized, B: RequestSteps + ?Sized>(tua: &TaskUnderAnalysis<A>, ot: Seq<InterferingTask<B>>, limit: int, n: int) -> bool {
    &&& tua.arrivals.steps_ok(n) && tua.arrivals.steps_hz(n) >= limit
    &&& forall |i: int| 0 <= i < ot.len() ==> pre_steps_ot(&#[trigger] ot[i], tua.deadline.v(), limit, n)
}


//@item src/edf/limited_preemptive.rs :: fn dedicated_uniproc_rta
pub fn dedicated_uniproc_rta<RBF, AB>(
    tua: &TaskUnderAnalysis<AB>,
    other_tasks: &[InterferingTask<RBF>],
    limit: Duration,
/*+*/vf_n: usize,/*-*/
) -> /*+*/(res: /*-*/fixed_point::SearchResult/*+*/)/*-*/
where
    RBF: /*@R22: RequestBound @*/RequestSteps/*@.*/ + ?Sized,
    AB: /*@R22: ArrivalBound @*/ArrivalSteps/*@.*/ + ?Sized,
//@+
    requires pre(tua, other_tasks@, limit.v()), pre_steps(tua, other_tasks@, limit.v(), vf_n as int)
    ensures res_view(res) == spec_result(tua, other_tasks@, limit.v())
//@-
{
    // This analysis is specific to dedicated uniprocessors.
    let proc = supply::Dedicated::new();

    // For convenience, define the RBF for the task under analysis.
    let tua_rbf = demand::RBF::new(tua.arrivals, &tua.wcet);
//@+
    let ghost tf = tuaf(tua);
    let ghost dl = tua.deadline.v();
    let ghost otx = otx_of(other_tasks@);
    let ghost rem = tua.last_np_segment.v() - 1;
    proof {
        lemma_tua_fn(tua.wcet.wcet.v(), tua.arrivals); lemma_otx_wf(other_tasks@);
        lemma_edf_w_mono(tf, dl, to_ots(otx), 0);
        lemma_ded_is_dedicated();
        assert(rbf_fn(&tua_rbf) =~= tf) by { assert forall |x: int| #[trigger] rbf_fn(&tua_rbf)(x) == tf(x) by {} }
    }
//@-

    // First, bound the maximum possible busy-window length.
    let L = fixed_point::search(&proc, limit, |L/*+*/: Duration/*-*/| /*+*/-> (r: Service)
        requires 1 <= L.v() <= limit.v(), pre(tua, other_tasks@, limit.v()), *tua_rbf.wcet == tua.wcet, tua_rbf.arrival_bound == tua.arrivals
        ensures r.v() == edf_w_bw(tuaf(tua), to_ots(otx_of(other_tasks@)))(L.v())
    /*-*/{ /*@probe*/
//@+
        proof {
            lemma_tua_fn(tua.wcet.wcet.v(), tua.arrivals); lemma_otx_wf(other_tasks@);
            lemma_sum_f_mono(to_ots(otx_of(other_tasks@)), arg_bw(L.v()), arg_bw(limit.v()));
            let tf0 = tuaf(tua);
            assert(0 <= tf0(0) <= tf0(limit.v() + 1));
            let gg = ot_term(to_ots(otx_of(other_tasks@)), arg_bw(L.v()));
            assert forall |i: int| 0 <= i < other_tasks@.len() implies #[trigger] gg(i) >= 0 by { other_tasks@[i].rbf.rbf_props(); }
        }
//@-
        let interference_bound: Service =
            /*@R1: other_tasks.iter().map( @*/vf_sum_service_idx(other_tasks, /*@.*/|ot/*+*/: &InterferingTask<RBF>/*-*/| /*+*/-> (r: Service) requires ot.rbf.wf(), ot.rbf.rb_ok(L.v()) ensures r.v() == ot.rbf.rbf(L.v()) { /*-*/ot.rbf.service_needed(L)/*+*/ }/*-*//*@R1: ).sum() @*/, Ghost(ot_term(to_ots(otx_of(other_tasks@)), arg_bw(L.v()))))/*@.*/;
//@+
        proof {
            let tf0 = tuaf(tua);
            assert(tf0(L.v()) <= tf0(limit.v() + 1));
            assert(tua.arrivals.na_ok(L.v()));
            assert(tua_rbf.rbf(L.v()) == tf0(L.v()));
        }
//@-
        interference_bound + tua_rbf.service_needed(L)
    })?;
//@+
    proof { lemma_scan(ded(), 0, edf_w_bw(tf, to_ots(otx)), 0, limit.v()); }
//@-

    // Second, define the RTA for a given offset A. To this end, we
    // first define some components of the fixed-point equation.

    // The run-to-completion threshold of the task under analysis. Given
    // limited preemptive case no job can be preempted after a job
    // reaches its last non-preemptive segment.
    // See also: https://prosa.mpi-sws.org/branches/master/pretty/prosa.model.task.preemption.limited_preemptive.html#limited_preemptive
    let rtct = tua.wcet.wcet - (tua.last_np_segment - Service::epsilon());

    // The remaining cost after the run-to-completion threshold has been
    // reached.
    let rem_cost = tua.wcet.wcet - rtct;

    // Now define the offset-specific RTA.
    let rta = |A: Offset| /*+*/-> (r: fixed_point::SearchResult)
        requires A.v() < L.v() <= limit.v(), pre(tua, other_tasks@, limit.v()), *tua_rbf.wcet == tua.wcet, tua_rbf.arrival_bound == tua.arrivals, rem_cost.v() == tua.last_np_segment.v() - 1
        ensures res_view(r) == edfx_f(tuaf(tua), tua.deadline.v(), otx_of(other_tasks@), tua.last_np_segment.v() - 1, limit.v(), A.v())
    /*-*/{ /*@probe*/
        // Bound on the priority inversion caused by jobs with lower priority.
        let blocking_bound = /*@R5: other_tasks
            .iter()
            .filter( @*/vf_max_filter_map_service_idx(other_tasks, /*@.*/|ot/*+*/: &InterferingTask<RBF>/*-*/| /*+*/-> (b: bool)
                requires ot.rbf.wf(), ot.rbf.rb_ok(1), A.v() < limit.v(), tua.deadline.v() + limit.v() + 1 <= u64::MAX
                ensures b == (ot.deadline.v() > tua.deadline.v() + A.v() && ot.rbf.rbf(1) > 0)
            /*-*/{
                ot.deadline > tua.deadline + A.since_time_zero()
                    && ot.rbf.service_needed(Duration::epsilon()) > Service::none()
            }/*@R5: )
            .map( @*/, /*@.*/|ot/*+*/: &InterferingTask<RBF>/*-*/| /*+*/-> (v: Service) ensures v.v() == sat(ot.max_np_segment.v() - 1) { /*-*/ot.max_np_segment.saturating_sub(Service::epsilon())/*+*/ }/*-*//*@R5: )
            .max()
            .unwrap_or_else(Service::none) @*/, Ghost(blk_sel(otx_of(other_tasks@), tua.deadline.v(), A.v())), Ghost(blk_val(otx_of(other_tasks@))))/*@.*/;

        // Define the RHS of the equation in theorem 31 of the aRTA paper,
        // where AF = A + F.
        let rhs = |AF: Duration| /*+*/-> (r: Service)
            requires 1 <= AF.v() <= limit.v(), A.v() < limit.v(), pre(tua, other_tasks@, limit.v()), blocking_bound.v() == blk(otx_of(other_tasks@), tua.deadline.v(), A.v()),
                     *tua_rbf.wcet == tua.wcet, tua_rbf.arrival_bound == tua.arrivals, rem_cost.v() == tua.last_np_segment.v() - 1
            ensures r.v() == edfx_w_off(tuaf(tua), tua.deadline.v(), otx_of(other_tasks@), tua.last_np_segment.v() - 1, A.v())(AF.v())
        /*-*/{ /*@probe*/
//@+
            proof {
                lemma_tua_fn(tua.wcet.wcet.v(), tua.arrivals); lemma_otx_wf(other_tasks@);
                let tf0 = tuaf(tua);
                lemma_off_le_bw(tua.deadline.v(), to_ots(otx_of(other_tasks@)), A.v(), AF.v(), limit.v());
                assert(tf0(A.v() + 1) <= tf0(limit.v() + 1)); assert(tf0(A.v() + 1) >= tua.wcet.wcet.v());
                assert(tua.arrivals.na_ok(A.v() + 1));
                assert(tua_rbf.rbf(A.v() + 1) == tf0(A.v() + 1));
                let gg = ot_term(to_ots(otx_of(other_tasks@)), arg_off(A.v(), tua.deadline.v(), AF.v()));
                assert forall |i: int| 0 <= i < other_tasks@.len() implies #[trigger] gg(i) >= 0 by { other_tasks@[i].rbf.rbf_props(); }
                lemma_sum_f_mono(to_ots(otx_of(other_tasks@)), arg_bw(limit.v()), arg_bw(limit.v()));
                lemma_blk_le_seg(other_tasks@, tua.deadline.v(), A.v(), u64::MAX - sum_f(to_ots(otx_of(other_tasks@)), arg_bw(limit.v())) - tf0(limit.v() + 1));
            }
//@-
            // demand of the task under analysis
            let self_interference = tua_rbf.service_needed(A.closed_since_time_zero());

            let tua_demand = self_interference - rem_cost;

            // demand of all interfering tasks
            let bound_on_total_hep_workload: Service = /*@R1: other_tasks
                .iter()
                .map( @*/vf_sum_service_idx(other_tasks, /*@.*/|ot/*+*/: &InterferingTask<RBF>/*-*/| /*+*/-> (r: Service)
                    requires ot.rbf.wf(), forall |d: int| 0 <= d <= limit.v() ==> #[trigger] ot.rbf.rb_ok(d), AF.v() <= limit.v(), A.v() < limit.v(), tua.deadline.v() + limit.v() + 1 <= u64::MAX
                    ensures r.v() == ot.rbf.rbf(arg_off(A.v(), tua.deadline.v(), AF.v())(ot.deadline.v()))
                /*-*/{
                    ot.rbf.service_needed(/*@R12: std::cmp::min @*/vf_min/*@.*/(
                        AF,
                        (Offset::since_time_zero(A) + Duration::epsilon() + tua.deadline)
                            .saturating_sub(ot.deadline),
                    ))
                }/*@R1: )
                .sum() @*/, Ghost(ot_term(to_ots(otx_of(other_tasks@)), arg_off(A.v(), tua.deadline.v(), AF.v()))))/*@.*/;

            // considering `blocking_bound` to account for priority inversion.
            blocking_bound + tua_demand + bound_on_total_hep_workload
        };

//@+
        proof {
            lemma_tua_fn(tua.wcet.wcet.v(), tua.arrivals); lemma_otx_wf(other_tasks@);
            let tf0 = tuaf(tua); let rem0 = tua.last_np_segment.v() - 1;
            assert(tf0(A.v() + 1) >= tua.wcet.wcet.v());
            lemma_edfx_w_mono(tf0, tua.deadline.v(), otx_of(other_tasks@), rem0, A.v());
            lemma_ded_is_dedicated();
            assert(proc == (Dedicated {}));
            assert(sbf_of(&proc) == ded());
            assert(clo_is(&rhs, edfx_w_off(tf0, tua.deadline.v(), otx_of(other_tasks@), rem0, A.v())));
            lemma_scan(ded(), 0, edfx_w_off(tf0, tua.deadline.v(), otx_of(other_tasks@), rem0, A.v()), 0, limit.v());
        }
//@-
        // Find the solution A+F that is the least fixed point.
        let AF = fixed_point::search(&proc, limit, rhs)?;
        // Extract the corresponding bound.
        let F = AF.saturating_sub(A.since_time_zero());

        Ok(F + Duration::from(rem_cost))
    };

    // Third, define the search space. The search space is given by
    // A=0 and each step below L of the task under analysis's RBF.
    // The case of A=0 is not handled explicitly since `steps_iter()`
    // necessarily yields delta=1, which results in A=0 being
    // included in the search space.
    let max_offset = Offset::from_time_zero(L);
//@+
    let ghost mx = max_offset.v();
    let ghost hz = tua.arrivals.steps_hz(vf_n as int);
    let ghost ots = to_ots(otx);
    proof { assert(L.v() <= limit.v()); lemma_scalar_strict(tua_rbf.wcet); }
//@-
    let search_space_tua = demand::step_offsets(&tua_rbf/*+*/, vf_n/*-*/).take_while(|A/*+*/: &Offset/*-*/| /*+*/-> (r: bool) ensures r == (A.v() < max_offset.v()) { /*@probe*/ /*-*/*A < max_offset/*+*/ }, Ghost(|A: Offset| A.v() < max_offset.v())/*-*/);
//@+
    let ghost ss_tua = search_space_tua.0@;
    // the stream that take_while consumed (an unnamed temporary of the expression above)
    let ghost offs_tua: Seq<Offset> = choose |o: Seq<Offset>| #[trigger] offsets_exact(o, tf, hz) && tw_of(ss_tua, o, mx);
    proof {
        assert(exists |o: Seq<Offset>| #[trigger] offsets_exact(o, tf, hz) && tw_of(ss_tua, o, mx));
        lemma_tw_set(offs_tua, tf, hz, mx, ss_tua);
    }
//@-
//@+
    let ghost gs = |i: int, a: int| shifted_in(ots[i].f, ots[i].dl, dl, mx, a);
//@-
    let search_space = /*@R21: other_tasks
        .iter()
        .map( @*/VfStream::<Offset>::kmerge_map(other_tasks, /*@.*/|ot/*+*/: &InterferingTask<RBF>/*-*/| /*+*/-> (r: VfStream<Offset>)
            requires ot.rbf.wf(), pre_steps_ot(ot, tua.deadline.v(), max_offset.v(), vf_n as int)
            ensures forall |a: int| #[trigger] off_has(r.0@, a) <==> shifted_in(rbf_fn(ot.rbf), ot.deadline.v(), tua.deadline.v(), max_offset.v(), a)
        /*-*/{ /*@probe*/
            /*+*/let vf_r = /*-*/demand::step_offsets(ot.rbf/*+*/, vf_n/*-*/)
                .map(move |delta/*+*/: Offset/*-*/| /*+*/-> (r: Offset)
                    requires delta.v() + ot.deadline.v() <= u64::MAX
                    ensures r == sh(ot.deadline.v(), tua.deadline.v())(delta)
                /*-*/{ /*@probe*/
                    Offset::from_time_zero(
                        (delta + ot.deadline)
                            .since_time_zero()
                            .saturating_sub(tua.deadline),
                    )
                }/*+*/, Ghost(sh(ot.deadline.v(), tua.deadline.v()))/*-*/)
                .take_while(|A/*+*/: &Offset/*-*/| /*+*/-> (r: bool) ensures r == (A.v() < max_offset.v()) { /*@probe*/ /*-*/*A < max_offset/*+*/ }, Ghost(|A: Offset| A.v() < max_offset.v())/*-*/)/*+*/;
            proof {
                let fo = rbf_fn(ot.rbf); let hzo = ot.rbf.rsteps_hz(vf_n as int); let ubo = ot.rbf.rsteps_ub(vf_n as int);
                let (dlo, dl, mxo) = (ot.deadline.v(), tua.deadline.v(), max_offset.v());
                assert(exists |o: Seq<Offset>| #[trigger] offsets_exact(o, fo, hzo) && off_lt(o, ubo) && tw_of(vf_r.0@, o.map_values(sh(dlo, dl)), mxo));
                let o = choose |o: Seq<Offset>| #[trigger] offsets_exact(o, fo, hzo) && off_lt(o, ubo) && tw_of(vf_r.0@, o.map_values(sh(dlo, dl)), mxo);
                lemma_shifted_tw_set(o, fo, hzo, ubo, dlo, dl, mxo, vf_r.0@);
            }
            vf_r/*-*/
        }/*@R21: )
        .kmerge() @*/, Ghost(gs))/*@.*/
        .merge(search_space_tua)
        .dedup();
//@+
    let ghost ss = search_space.0@;
    proof {
        assert(ots.len() == other_tasks@.len());
        assert forall |a: int| #[trigger] off_has(ss, a) <==> ((0 <= a < mx && is_step_at(tf, a + 1)) || exists |i: int| 0 <= i < ots.len() && #[trigger] shifted_in(ots[i].f, ots[i].dl, dl, mx, a)) by {
            if exists |i: int| 0 <= i < ots.len() && #[trigger] shifted_in(ots[i].f, ots[i].dl, dl, mx, a) {
                let i = choose |i: int| 0 <= i < ots.len() && #[trigger] shifted_in(ots[i].f, ots[i].dl, dl, mx, a);
                assert(gs(i, a));
            }
            if off_has(ss, a) && !(0 <= a < mx && is_step_at(tf, a + 1)) {
                let i = choose |i: int| 0 <= i < other_tasks@.len() && #[trigger] gs(i, a);
                assert(shifted_in(ots[i].f, ots[i].dl, dl, mx, a));
            }
        }
        lemma_edf_space(ss, tf, dl, ots, mx);
        assert forall |i: int| 0 <= i < ss.len() implies #[trigger] rta.requires((ss[i],)) by { assert(off_has(ss, ss[i].v())); }
    }
//@-

    // Finally, apply the offset-specific RTA to each offset in the
    // search space and return the maximum response-time bound.
    /*@R21: fixed_point::max_response_time(search_space.map(rta)) @*/let vf_rs = search_space.map_rel(rta);
    let vf_res = fixed_point::max_response_time(vf_rs.as_slice());
    proof {
        let g = |x: int| edfx_f(tf, dl, otx, rem, limit.v(), x);
        lemma_set_fold(ss, |x: int| in_space(tf, dl, ots, x), mx, vf_rs.0@, g, vf_res);
        lemma_fold_space_is_fold_p(tf, dl, ots, g, mx);
        lemma_edfx_prune(tf, dl, otx, rem, limit.v(), L.v());
    }
    vf_res/*@.*/
}
//@end

/// the blocking bound never exceeds a bound on the segment lengths of the other tasks
pub proof fn lemma_blk_le_seg<B: RequestBound + ?Sized>(ot: Seq<InterferingTask<B>>, dl: int, a: int, bound: int)
    requires bound >= 0, forall |i: int| 0 <= i < ot.len() ==> (#[trigger] ot[i]).max_np_segment.v() <= bound
    ensures 0 <= blk(otx_of(ot), dl, a) <= bound
{
    let otx = otx_of(ot);
    lemma_max_sel_nonneg(otx.len() as int, blk_sel(otx, dl, a), blk_val(otx));
    assert forall |i: int| 0 <= i < otx.len() implies #[trigger] blk_val(otx)(i) <= bound by { assert(ot[i].max_np_segment.v() <= bound); }
    lemma_max_sel_le(otx.len() as int, blk_sel(otx, dl, a), blk_val(otx), bound);
}

} // verus!
